#!/bin/sh
# tools/seed_verify.sh <ID> [srcdir] [destname] — confirm a seeded change (patch.diff, demo.py, meta.json in srcdir,
# default /tmp/mut-out/<ID>) in a scratch worktree: baseline still passes, demo passes on /repo and fails on the
# changed tree; then run our check against the changed tree.  Prints a summary; copies to seeded/<ID>/ if confirmed.
ID=$1; SRC=${2:-/tmp/mut-out/$ID}; DEST=${3:-$ID}; WT=/tmp/sv-$ID-$$
V=$(cd "$(dirname "$0")/.." && pwd)
[ -f "$SRC/patch.diff" ] || { echo "no patch in $SRC"; exit 2; }
git -C /repo worktree add -q --detach "$WT" HEAD || exit 2
if ! git -C "$WT" apply "$SRC/patch.diff"; then echo "PATCH DOES NOT APPLY"; git -C /repo worktree remove --force "$WT"; exit 3; fi
base=$("$V/tools/baseline.sh" "$WT" | head -1)
/venv/bin/python "$SRC/demo.py" /repo >/tmp/sv-$ID-demo0.log 2>&1; d0=$?
/venv/bin/python "$SRC/demo.py" "$WT" >/tmp/sv-$ID-demo1.log 2>&1; d1=$?
t0=$(date +%s)
chk=$(cd "$V" && PV_REPO="$WT" ./check "$ID" 2>&1 | grep -E 'VIOLATION|KNOWN-FINDING|INFRA' | head -5); 
crc=$(cd "$V" && PV_REPO="$WT" ./check "$ID" >/dev/null 2>&1; echo $?)
t1=$(date +%s)
echo "ID=$ID baseline: $base | demo(/repo)=$d0 demo(changed)=$d1 | check rc=$crc ($(( (t1-t0)/2 ))s)"
echo "$chk"
git -C /repo worktree remove --force "$WT"
rm -f /tmp/sv-$ID-demo0.log /tmp/sv-$ID-demo1.log
case "$base" in *"passed=534 failed=0"*) ok=1;; *) ok=0;; esac
if [ $ok = 1 ] && [ $d0 = 0 ] && [ $d1 = 1 ]; then
  mkdir -p "$V/seeded/$DEST"; cp "$SRC/patch.diff" "$SRC/demo.py" "$SRC/meta.json" "$V/seeded/$DEST/"
  echo "CONFIRMED -> seeded/$DEST (check rc=$crc)"
else
  echo "NOT CONFIRMED"
fi
