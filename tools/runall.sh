#!/bin/sh
# tools/runall.sh [tier] [seeds…] — run every claimed check sequentially against /repo; print a table
cd "$(dirname "$0")/.." || exit 2
tier=${1:-quick}; shift
seeds=${*:-0}
ids=$(/venv/bin/python -c "import json;print(' '.join(c['property_id'] for c in json.load(open('MANIFEST.json'))['checks']))")
for s in $seeds; do
 for id in $ids; do
  t0=$(date +%s)
  out=$(VERIF_SEED=$s ./check $id --tier $tier 2>&1); rc=$?
  t1=$(date +%s)
  echo "$id seed=$s rc=$rc $((t1-t0))s $(echo "$out" | grep -E 'VIOLATION|KNOWN-FINDING|INFRA' | head -3 | tr '\n' ';')"
 done
done
