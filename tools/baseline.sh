#!/bin/sh
# usage: tools/baseline.sh [repo-dir]   — run the pinned baseline (guard off) and print pass/fail counts
R=${1:-/repo}
OUT=$(mktemp /tmp/baseline.XXXXXX.xml)
cd "$R" && env -u PARAMIKO_VERIF /venv/bin/python -m pytest -ra -q -p no:cacheprovider --timeout=900 --continue-on-collection-errors --junitxml="$OUT" >/dev/null 2>&1
/venv/bin/python - "$OUT" <<'PY'
import sys, xml.etree.ElementTree as ET
r = ET.parse(sys.argv[1]).getroot()
t = f = e = s = 0
bad = []
for tc in r.iter("testcase"):
    t += 1
    if tc.find("failure") is not None: f += 1; bad.append(tc.get("classname") + "::" + tc.get("name"))
    elif tc.find("error") is not None: e += 1; bad.append(tc.get("classname") + "::" + tc.get("name"))
    elif tc.find("skipped") is not None: s += 1
print("tests=%d passed=%d failed=%d errors=%d skipped=%d" % (t, t - f - e - s, f, e, s))
for b in bad: print("  BAD", b)
sys.exit(1 if (f or e) else 0)
PY
rc=$?
rm -f "$OUT"
exit $rc
