/-
  Driver for C19: the channel model (repaired-tree configuration) behind the shared line protocol of
  PV/Model/ChanDriver.lean.
-/
import PV.Model.ChanDriver
open PV PV.Chan

def main : IO Unit := lineLoopSt driverInit (driverStep fixedCfg)
