/-
  Driver for the signature model over the toy primitives.  Requests (hex tokens, `-` = empty):
    gettext <hex>                                   → ok <hex> | exc UnicodeDecodeError
    rsa.sign   <p|u> <n> <bits> <alg|none> <data>   → ok <blob> | exc <Class>
    rsa.verify <p|u> <n> <bits> <data> <blob>       → ok 0|1 | exc <Class>
    ec.sign    <p|u> <n> <256|384|521> <data>
    ec.verify  <p|u> <n> <256|384|521> <data> <blob>
    ed.sign    <s|v> <n> <data>
    ed.verify  <s|v> <n> <data> <blob>
    legacy.ec.verify / legacy.ed.verify / legacy.text <blob>   (behaviour before the fix: commits)
    table <rsa|ec>                                   → the algorithm tables of the model (compared with the classes' tables)
    witness <nonutf8|ecneg|edshort>                 → the blob of the `legacy_*_witness` theorem
  `p` = object holding the private key `n`; `u` = object holding only the public key `n`.
  `s` = Ed25519 object with only `_signing_key`; `v` = only `_verifying_key`.
-/
import PV.Props.C35
import PV.Base.DriverIO
open PV PV.Wire PV.Sig

def showRes {α : Type} (f : α → String) : Except Exc α → String
  | .ok a => "ok " ++ f a
  | .error e => "exc " ++ e.name

def showBool (b : Bool) : String := if b then "1" else "0"

def rsaKey? (shape : String) (n bits : Nat) : Option (RsaKey toy) :=
  if shape == "p" then some (.priv (n, bits)) else if shape == "u" then some (.pub (n, bits)) else none

def curve? (s : String) : Option Curve :=
  if s == "256" then some .p256 else if s == "384" then some .p384 else if s == "521" then some .p521 else none

def ecKey? (shape : String) (n : Nat) (c : Curve) : Option (EcKey toy) :=
  if shape == "p" then some { curve := c, signing := some n, verifying := toyPub n }
  else if shape == "u" then some { curve := c, signing := none, verifying := n } else none

def edKey? (shape : String) (n : Nat) : Option (EdKey toy) :=
  if shape == "s" then some { signing := some n, verifying := none }
  else if shape == "v" then some { signing := none, verifying := some n } else none

def alg? (s : String) : Option (Option Bytes) :=
  if s == "none" then some none else (ofHex? s).map some

def step (line : String) : String :=
  match words line with
  | ["gettext", hex] =>
    match ofHex? hex with
    | some b => showRes (fun p => toHexTok p.1) (getText { content := b, pos := 0 })
    | none => "bad-op"
  | ["rsa.sign", shape, n, bits, alg, data] =>
    match n.toNat?, bits.toNat?, alg? alg, ofHex? data with
    | some n, some bits, some alg, some d =>
      match rsaKey? shape n bits with
      | some k => showRes toHexTok (rsaSignBlob toy k d alg)
      | none => "bad-op"
    | _, _, _, _ => "bad-op"
  | ["rsa.verify", shape, n, bits, data, blob] =>
    match n.toNat?, bits.toNat?, ofHex? data, ofHex? blob with
    | some n, some bits, some d, some b =>
      match rsaKey? shape n bits with
      | some k => showRes showBool (rsaVerifyBlob toy k d b)
      | none => "bad-op"
    | _, _, _, _ => "bad-op"
  | ["ec.sign", shape, n, c, data] =>
    match n.toNat?, curve? c, ofHex? data with
    | some n, some c, some d =>
      match ecKey? shape n c with
      | some k => showRes toHexTok (ecSignBlob toy k d)
      | none => "bad-op"
    | _, _, _ => "bad-op"
  | [op, shape, n, c, data, blob] =>
    match n.toNat?, curve? c, ofHex? data, ofHex? blob with
    | some n, some c, some d, some b =>
      match ecKey? shape n c with
      | some k =>
        if op == "ec.verify" then showRes showBool (ecVerifyBlob toy k d b)
        else if op == "legacy.ec.verify" then showRes showBool (Legacy.ecVerifyBlob toy k d b)
        else "bad-op"
      | none => "bad-op"
    | _, _, _, _ => "bad-op"
  | ["ed.sign", shape, n, data] =>
    match n.toNat?, ofHex? data with
    | some n, some d =>
      match edKey? shape n with
      | some k => showRes toHexTok (edSignBlob toy k d)
      | none => "bad-op"
    | _, _ => "bad-op"
  | [op, shape, n, data, blob] =>
    match n.toNat?, ofHex? data, ofHex? blob with
    | some n, some d, some b =>
      match edKey? shape n with
      | some k =>
        if op == "ed.verify" then showRes showBool (edVerifyBlob toy k d b)
        else if op == "legacy.ed.verify" then showRes showBool (Legacy.edVerifyBlob toy k d b)
        else "bad-op"
      | none => "bad-op"
    | _, _, _ => "bad-op"
  | ["legacy.text", blob] =>
    match ofHex? blob with
    | some b => showRes (fun _ => "-") (Legacy.textGuard b)
    | none => "bad-op"
  | ["table", "rsa"] =>
    -- RSAKey.HASHES as the model has it: <name hex>:<hash id>:<wire name hex>,…
    ",".intercalate (rsaTable.map fun e => toHexTok e.1 ++ ":" ++ toString e.2.1.id ++ ":" ++ toHexTok e.2.2)
  | ["table", "ec"] =>
    ",".intercalate ([Curve.p256, Curve.p384, Curve.p521].map fun c => toHexTok c.name ++ ":" ++ toString c.hash.id)
  | ["witness", name] =>
    if name == "nonutf8" then toHexTok [0, 0, 0, 1, 0xff]
    else if name == "ecneg" then toHexTok PV.Props.C35.ecNegBlob
    else if name == "edshort" then toHexTok PV.Props.C35.edShortBlob
    else "bad-op"
  | _ => "bad-op"

def main : IO Unit := lineLoop step
