/-
  Driver for the run-loop model on established sessions (C12).  Requests:
    step <server> <srt> <authH> <authed> <chans> <seen> <seqIn> <seqOut> <ptype> <payloadhex> <inKex>
        (inKex = 1: our KEXINIT of a re-exchange is out, the peer's has not been processed yet)
        → <active> <err> <seqIn'> <seqOut'> <sent: type:seqno:arg,…>
    handled <server> <srt> <authH>       → the type numbers < 256 that have a handler in that situation
  booleans 0/1; authH none|std|only|gss; lists comma-separated or `-`.
-/
import PV.Model.RunLoopIO
import PV.Generated.C12
open PV PV.RunLoop

def established (server srt : Bool) (a : AuthH) (authed : Bool) (chans seen : List Nat) (seqIn seqOut : Nat)
    (inKex : Bool := false) : St :=
  { server, srt, advertiseStrict := true, serverSigAlgs := true, agreedStrict := true,
    initialKexDone := true, clearToSend := !inKex, inKex := inKex, localKexInit := inKex, authH := a,
    authenticated := authed, chans, seen, seqIn, seqOut }

def stepLine (line : String) : String :=
  match words line with
  | ["step", sv, srt, ah, au, ch, sn, si, so, pt, pl, ik] =>
    match parseBool sv, parseBool srt, parseAuthH ah, parseBool au, parseNatList ch, parseNatList sn,
          si.toNat?, so.toNat?, pt.toNat?, ofHex? pl, parseBool ik with
    | some sv, some srt, some ah, some au, some ch, some sn, some si, some so, some pt, some pl, some ik =>
      let s := step Generated.C12.tables (established sv srt ah au ch sn si so ik) (.recv pt pl default)
      s!"{showBool s.active} {showErr s.err} {s.seqIn} {s.seqOut} {showSent s.tx}"
    | _, _, _, _, _, _, _, _, _, _, _ => "bad-op"
  | ["handled", sv, srt, ah] =>
    match parseBool sv, parseBool srt, parseAuthH ah with
    | some sv, some srt, some ah =>
      showNatList ((List.range 256).filter (handled Generated.C12.tables (established sv srt ah true [] [] 0 0)))
    | _, _, _ => "bad-op"
  | _ => "bad-op"

def main : IO Unit := lineLoop stepLine
