/-
  Driver for the channel-id model (stateful).  Requests / replies:
    init <counter> <id,id,…|->   → ok                     (fresh transport, counter and live ids as given)
    local                        → <id> <counter> | hung   (open_channel)
    palloc                       → <id> <counter> | busy | hung   (_parse_channel_open: allocation)
    pput                         → ok <collisions> <late> | none  (… registration)
    prej                         → ok | none                      (… refused by the server callback)
    del <id>                     → ok                      (ChannelMap.delete / weak reference died)
    pfail <id> <0|1>             → ok                      (peer OPEN_FAILURE naming id; 1 = our open of id is pending)
    psucc <id>                   → ok                      (peer OPEN_CONFIRMATION naming id)
    live                         → ids in ascending order (comma separated, - if none)
    gen <counter> <id,id,…|->    → generated kernel: <id> <counter> | hung
-/
import PV.Model.ChanIds
import PV.Generated.C23
import PV.Base.DriverIO
open PV PV.ChanIds

def parseIds (t : String) : Option (List Nat) :=
  if t == "-" then some [] else (t.splitOn ",").mapM String.toNat?

def insertSorted (x : Nat) : List Nat → List Nat
  | [] => [x]
  | y :: ys => if x ≤ y then x :: y :: ys else y :: insertSorted x ys

def showIds (l : List Nat) : String :=
  if l.isEmpty then "-" else ",".intercalate ((l.foldr insertSorted []).map toString)

def step' (s : St) (line : String) : St × String :=
  match words line with
  | ["init", c, ids] =>
    match c.toNat?, parseIds ids with
    | some c, some l => ({ init c with live := l }, "ok")
    | _, _ => (s, "bad-op")
  | ["local"] =>
    let s' := step s .openLocal
    match nextChannel (isLive s) s.counter with
    | none => (s', "hung")
    | some (id, _) => (s', toString id ++ " " ++ toString s'.counter)
  | ["palloc"] =>
    match s.pending with
    | some _ => (s, "busy")
    | none =>
      let s' := step s .peerAlloc
      match s'.pending with
      | some (p, _) => (s', toString p ++ " " ++ toString s'.counter)
      | none => (s', "hung")
  | ["pput"] =>
    match s.pending with
    | none => (s, "none")
    | some _ =>
      let s' := step s .peerPut
      (s', "ok " ++ toString s'.collisions ++ " " ++ (if s'.late then "1" else "0"))
  | ["prej"] =>
    match s.pending with
    | none => (s, "none")
    | some _ => (step s .peerReject, "ok")
  | ["del", i] =>
    match i.toNat? with
    | some i => (step s (.delete i), "ok")
    | none => (s, "bad-op")
  | ["pfail", i, p] =>
    match i.toNat?, p with
    | some i, "1" => (step s (.peerFailure i true), "ok")
    | some i, "0" => (step s (.peerFailure i false), "ok")
    | _, _ => (s, "bad-op")
  | ["psucc", i] =>
    match i.toNat? with
    | some i => (step s (.peerSuccess i), "ok")
    | none => (s, "bad-op")
  | ["live"] => (s, showIds s.live)
  | ["gen", c, ids] =>
    match c.toNat?, parseIds ids with
    | some c, some l =>
      match PV.Generated.C23.next_channel (fun i => l.contains i) M c with
      | some (c', id) => (s, toString id ++ " " ++ toString c')
      | none => (s, "hung")
    | _, _ => (s, "bad-op")
  | _ => (s, "bad-op")

def main : IO Unit := lineLoopSt (init 0) step'
