/-
  Driver for the SFTP attribute model.  Requests:
    pack <size> <uid> <gid> <mode> <atime> <mtime> <ext>   → hex of what `_pack` appends | err:range | err:type
    unpack <hex>        → <flags> <size> <uid> <gid> <mode> <atime> <mtime> <ext> | <bytes consumed> | <remainder hex>
  a field is a decimal number or `-` (None); <ext> is `-` (empty dict) or `k=v,k=v,…` with k, v hex
  tokens (`-` = empty byte string).
-/
import PV.Model.SftpAttr
import PV.Base.DriverIO
open PV PV.Wire PV.SftpAttr

def parseOpt (s : String) : Option (Option Nat) :=
  if s == "-" then some none else s.toNat?.map some

def parsePair (s : String) : Option (Bytes × Bytes) :=
  match s.splitOn "=" with
  | [k, v] => match ofHex? k, ofHex? v with
    | some a, some b => some (a, b)
    | _, _ => none
  | _ => none

def parseExt (s : String) : Option (List (Bytes × Bytes)) :=
  if s == "-" then some [] else (s.splitOn ",").mapM parsePair

def showOpt : Option Nat → String
  | none => "-"
  | some n => toString n

def showExt (l : List (Bytes × Bytes)) : String :=
  if l.isEmpty then "-" else ",".intercalate (l.map fun kv => toHexTok kv.1 ++ "=" ++ toHexTok kv.2)

def showAttrs (a : Attrs) : String :=
  " ".intercalate [showOpt a.size, showOpt a.uid, showOpt a.gid, showOpt a.mode, showOpt a.atime,
    showOpt a.mtime, showExt a.ext]

def step (line : String) : String :=
  match words line with
  | ["pack", s, u, g, m, a, t, x] =>
    match parseOpt s, parseOpt u, parseOpt g, parseOpt m, parseOpt a, parseOpt t, parseExt x with
    | some s, some u, some g, some m, some a, some t, some x =>
      match pack ⟨s, u, g, m, a, t, x⟩ with
      | .ok b => toHexTok b
      | .error .range => "err:range"
      | .error .type => "err:type"
    | _, _, _, _, _, _, _ => "bad-op"
  | ["unpack", hex] =>
    match ofHex? hex with
    | some b =>
      let (flags, a, r) := unpack { content := b, pos := 0 }
      toString flags ++ " " ++ showAttrs a ++ " | " ++ toString r.pos ++ " | " ++ toHexTok r.remainder
    | none => "bad-op"
  | _ => "bad-op"

def main : IO Unit := lineLoop step
