/-
  Driver for the key-derivation model (toy hash with digest length L ≥ 1).  Requests:
    ck  <L> <K:int> <H:hex> <sid:hex> <letter:hex1> <n>     → hex of computeKey
    rfc <L> <K:int> <H:hex> <sid:hex> <letter:hex1> <n>     → hex of rfcKey (the Lean *spec*; validated
                                                              against the harness's RFC oracle)
    act <L> <K:int> <H:hex> <sid:hex> <role:c|s> <dir:in|out> <local_cipher> <remote_cipher> <local_mac> <remote_mac>
        → iv key mackey macKeyArg ivArg macSizeArg blockSizeArg   (`none` for a Python None)
    nonce <send|recv> <iv:hex12> <n>   → n tokens: the nonce of packet 0, 1, … under the statement order the source
                                         has at that site (AST fact in PV.Generated.C04), `overflow` where the counter
                                         step raises (nothing follows)
    seq <L> <letter:hex1> <n> <K1:int> <H1:hex> <K2:int> <H2:hex> …
        → after each exchange in turn (`_set_K_H` under the guard fact of PV.Generated.C04): sid:key tokens
  cipher / mac are looked up in the tables regenerated from the source; unknown → `unknown-algo`.
-/
import PV.Model.KeyDerive
import PV.Model.AeadNonce
import PV.Generated.C04
import PV.Base.DriverIO
open PV PV.KeyDerive

def optTok : Option Bytes → String
  | none => "none"
  | some b => toHexTok b

def parseCommon (l k hh sid : String) : Option (Nat × Int × Bytes × Bytes) :=
  match l.toNat?, intOfString? k, ofHex? hh, ofHex? sid with
  | some l, some k, some hh, some sid => if l = 0 then none else some (l, k, hh, sid)
  | _, _, _, _ => none

def step (line : String) : String :=
  match words line with
  | [op, l, k, hh, sid, letter, n] =>
    match parseCommon l k hh sid, ofHex? letter, n.toNat? with
    | some (l, k, hh, sid), some [x], some n =>
      if op == "ck" then toHexTok (computeKey (toyHash l) k hh sid x n)
      -- `rfcKey` itself generates n+1 blocks (quadratic); by `PV.Props.C04.rfcKey_blocks_irrelevant` any block
      -- count covering n bytes gives the same bytes, so the driver evaluates the spec with ⌈n/L⌉ blocks.
      else if op == "rfc" then toHexTok ((rfcStream (toyHash l) k hh sid x ((n + l - 1) / l)).take n)
      else "bad-op"
    | _, _, _ => "bad-op"
  | ["act", l, k, hh, sid, role, dir, lcipher, rcipher, lmac, rmac] =>
    match parseCommon l k hh sid with
    | some (l, k, hh, sid) =>
      let role? : Option Bool := if role == "s" then some true else if role == "c" then some false else none
      let dir? : Option Dir := if dir == "in" then some .inbound else if dir == "out" then some .outbound else none
      match role?, dir? with
      | some sm, some d =>
        match PV.Generated.C04.cipherTable.find? (·.name == lcipher),
              PV.Generated.C04.cipherTable.find? (·.name == rcipher),
              PV.Generated.C04.macTable.find? (·.name == lmac),
              PV.Generated.C04.macTable.find? (·.name == rmac) with
        | some lc, some rc, some lm, some rm =>
          let r := activateDir (toyHash l) k hh sid sm d
            { localCipher := lc, remoteCipher := rc, localMac := lm, remoteMac := rm }
          s!"{toHexTok r.iv} {toHexTok r.key} {toHexTok r.macKey} {optTok r.macKeyArg} {optTok r.ivArg} {r.macSizeArg} {r.blockSizeArg}"
        | _, _, _, _ => "unknown-algo"
      | _, _ => "bad-op"
    | none => "bad-op"
  | "seq" :: l :: letter :: n :: rest =>
    let rec pairs : List String → Option (List (Int × Bytes))
      | [] => some []
      | [_] => none
      | k :: hh :: more =>
        match intOfString? k, ofHex? hh, pairs more with
        | some k, some hh, some r => some ((k, hh) :: r)
        | _, _, _ => none
    match l.toNat?, ofHex? letter, n.toNat?, pairs rest with
    | some l, some [x], some n, some exs =>
      if l = 0 then "bad-op" else
      let step := fun (acc : KexState × List String) (e : Int × Bytes) =>
        let s := setKH PV.Generated.C04.sessionIdGuarded acc.1 e.1 e.2
        let tok := match s.sessionId, stateKey (toyHash l) s x n with
          | some sid, some key => toHexTok sid ++ ":" ++ toHexTok key
          | _, _ => "none"
        (s, acc.2 ++ [tok])
      " ".intercalate (exs.foldl step (KexState.init, [])).2
    | _, _, _, _ => "bad-op"
  | ["nonce", site, iv, n] =>
    let flag? : Option Bool :=
      if site == "send" then some PV.Generated.C04.aeadSendUseFirst
      else if site == "recv" then some PV.Generated.C04.aeadRecvUseFirst else none
    match flag?, ofHex? iv, n.toNat? with
    | some f, some iv, some n =>
      if iv.length != 12 then "bad-op" else
      " ".intercalate ((PV.AeadNonce.trace f n iv).map fun o => match o with | some b => toHexTok b | none => "overflow")
    | _, _, _ => "bad-op"
  | _ => "bad-op"

def main : IO Unit := lineLoop step
