/-
  Driver for the rekey-with-traffic-in-flight model (C11).  Request: `run <ev>…` with events
    start | in:<kind> | user:<type> | pk (peer KEXINIT) | kr (our engine finished → NEWKEYS) | pn (peer NEWKEYS)
  kinds: data extdata window eof chanreq globreq reply globreq-reply chanopen close chanreq-reply chanfailure
         extdata-discarded
  and `lock <underLock 0/1> <userType> <inbox: h1|h0|pk|kr|pn …> / <schedule: u|t …>` (Channel.lock model)
       → <finished 0/1> <stuck 0/1: neither thread can move> <wire csv>
  and `gate <recheck 0/1> <n user messages> <schedule: u|k …>` (send gate at step granularity) → <wire csv>
  reply of run: <dead 0/1> <connection-layer types written inside the kex window, csv|-> <wire csv|-> <parked csv|->
-/
import PV.Model.RekeyFlight
import PV.Model.RekeyLock
import PV.Model.SendGate
import PV.Base.DriverIO
open PV PV.RekeyFlight

def parseKind : String → Option Kind
  | "data" => some .data | "extdata" => some .extendedData | "window" => some .windowAdjust | "eof" => some .eof
  | "chanreq" => some .channelRequestNoReply | "globreq" => some .globalRequestNoReply
  | "reply" => some .requestReplyToUs | "globreq-reply" => some .globalRequestWantReply
  | "chanopen" => some .channelOpen | "close" => some .channelClose | "chanreq-reply" => some .channelRequestWantReply
  | "chanfailure" => some .channelFailure | "extdata-discarded" => some .extendedDataDiscarded
  | _ => none

def parseEv (t : String) : Option Ev :=
  if t == "start" then some .startRekey else if t == "pk" then some .peerKexinit
  else if t == "kr" then some .kexReply else if t == "pn" then some .peerNewkeys
  else if t.startsWith "in:" then (parseKind (t.drop 3).toString).map .inflight
  else if t.startsWith "user:" then (t.drop 5).toNat?.map .userSend
  else none

def csv (l : List Nat) : String := if l.isEmpty then "-" else ",".intercalate (l.map toString)

def parseTMsg : String → Option RekeyLock.TMsg
  | "h1" => some (.handler true) | "h0" => some (.handler false)
  | "pk" => some .peerKexinit | "kr" => some .kexReply | "pn" => some .peerNewkeys | _ => none

def parseTid : String → Option RekeyLock.Tid
  | "u" => some .user | "t" => some .transport | _ => none

def lockLine (ul ut : String) (rest : List String) : String :=
  let inboxToks := rest.takeWhile (· != "/")
  let schedToks := (rest.dropWhile (· != "/")).drop 1
  match ul.toNat?, ut.toNat?, inboxToks.mapM parseTMsg, schedToks.mapM parseTid with
  | some ul, some ut, some inbox, some sched =>
    let s := RekeyLock.run { underLock := ul == 1, userType := ut, inbox := inbox } sched
    let fin := decide (RekeyLock.finished s)
    let stuck := !fin && RekeyLock.stepUser s == s && RekeyLock.stepTransport s == s
    s!"{if fin then 1 else 0} {if stuck then 1 else 0} {csv s.wire}"
  | _, _, _, _ => "bad-op"

def parseGTid : String → Option SendGate.Tid
  | "u" => some .user | "k" => some .kex | _ => none

def gateLine (rc n : String) (sched : List String) : String :=
  -- <recheck> is 0/1, or 2/3 = 0/1 with an unlocked clear in `_send_kex_init`
  match rc.toNat?, n.toNat?, sched.mapM parseGTid with
  | some rc, some n, some sched => csv (SendGate.run (SendGate.init (rc % 2 == 1) n (rc < 2)) sched).wire
  | _, _, _ => "bad-op"

def stepLine (line : String) : String :=
  match words line with
  | "gate" :: rc :: n :: sched => gateLine rc n sched
  | "lock" :: ul :: ut :: rest => lockLine ul ut rest
  | "run" :: evs =>
    match evs.mapM parseEv with
    | some evs =>
      let s := run {} evs
      s!"{if s.dead then 1 else 0} {csv ((kexWindow s.wire).filter (fun t => !transportLayer t))} {csv s.wire} {csv s.parked}"
    | none => "bad-op"
  | _ => "bad-op"

def main : IO Unit := lineLoop stepLine
