/-
  Driver for C27.  One program per line:
    prog <mode> <bufsize> <dflt> <maxreq> <trunczero 0|1> <server-file-buffered 0|1> <init-hex | absent> <op>*
  ops: r:<int>|r:N  l:<int>|l:N  L:<int>|L:N  w:<hex>  s:<off>:<whence>  t  f  T:<size>  c
  reply:  <model-open> ; <model tokens> ; <spec-open> ; <spec tokens> ; <tags> ; <model content> ; <spec content> ;
          pos=<int> realpos=<int> rbuf=<hex> wbuf=<hex> closed=<0|1>
-/
import PV.Props.C27
import PV.Base.DriverIO
open PV PV.BufFile PV.SftpFile PV.PyFile PV.C27

def showErr : Err → String
  | .closed => "E:closed" | .notReadable => "E:notreadable" | .notWritable => "E:notwritable"
  | .notSeekable => "E:notseekable" | .fuel => "E:fuel" | .stall => "E:stall"
  | .stream 1 => "E:struct" | .stream 2 => "E:io" | .stream 99 => "U" | .stream c => "E:" ++ toString c

def showOut : Out → String
  | .bytes b => "b:" ++ toHexTok b
  | .lines ls => "ls:" ++ ",".intercalate (ls.map toHexTok)
  | .stop => "stop"
  | .unit => "ok"
  | .pos z => "t:" ++ toString z
  | .err e => showErr e

def showSpec (op : FOp) (o : Out) : String :=
  match op, o with
  | .tell, .pos z => "t:" ++ toString z
  | _, .pos z => "n:" ++ toString z
  | _, .err _ => "E"
  | _, o => showOut o

def parseOptInt (s : String) : Option (Option Int) :=
  if s == "N" then some none else (intOfString? s).map some

def sizeArg (a : Option Int) : Option Nat :=
  match a with
  | none => none
  | some z => if z < 0 then none else some z.toNat

def parseOp (op : String) : Option FOp :=
  match op.splitOn ":" with
  | ["r", a] => (parseOptInt a).map fun a => .read (sizeArg a)
  | ["l", a] => (parseOptInt a).map fun a => .readline (sizeArg a)
  | ["L", a] => (parseOptInt a).map .readlines
  | ["w", h] => (ofHex? h).map .write
  | ["s", a, b] => match intOfString? a, b.toNat? with
      | some a, some b => some (.seek a b) | _, _ => none
  | ["t"] => some .tell
  | ["f"] => some .flush
  | ["T", a] => (intOfString? a).map .truncate
  | ["c"] => some .close
  | _ => none

def tagName (t : Tag) : String := (toString (repr t)).replace "PV.C27.Tag." ""

/-- per-step trigger lists, `-` when none -/
def stepTags (o : Ops Srv) : BF Srv → List FOp → List String
  | _, [] => []
  | f, op :: ops =>
    let ts := (triggers o f op).map tagName
    (if ts.isEmpty then "-" else ",".intercalate ts) :: stepTags o (sstep o f op).1 ops

def showOptNat : Option Nat → String | none => "N" | some n => toString n

def showOp : FOp → String
  | .read n => "r:" ++ showOptNat n
  | .readline n => "l:" ++ showOptNat n
  | .readlines none => "L:N"
  | .readlines (some h) => "L:" ++ toString h
  | .write d => "w:" ++ toHexTok d
  | .seek off wh => "s:" ++ toString off ++ ":" ++ toString wh
  | .tell => "t"
  | .flush => "f"
  | .truncate n => "T:" ++ toString n
  | .close => "c"

/-- `witness <tag> <mode> <bufsize> <init|absent> <ops…>`, joined by ` || ` -/
def progLines (ws : List (String × PV.Props.C27.Prog)) : String :=
  " || ".intercalate (ws.map fun (tag, w) =>
    "witness " ++ tag ++ " " ++ w.mode ++ " " ++ toString w.bufsize ++ " " ++
      (match w.init with | none => "absent" | some b => toHexTok b) ++ " " ++ " ".intercalate (w.ops.map showOp))

def step' (line : String) : String :=
  match words line with
  | "prog" :: mode :: bufsize :: dflt :: maxreq :: tz :: rb :: init :: ops =>
    let fs : Option (Option Bytes) := if init == "absent" then some none else (ofHex? init).map some
    match intOfString? bufsize, dflt.toNat?, maxreq.toNat?, fs, ops.mapM parseOp with
    | some bs, some dflt, some maxreq, some fs, some ops =>
      let o := sftpOps maxreq
      let mpart :=
        match sftpOpen fs mode.toList bs dflt (tz == "1") (rb == "1") with
        | none => ("E", "", "", fs.map toHexTok |>.getD "absent", "")
        | some f0 =>
          let (f, rs) := srun o f0 ops
          let ot := (openTags mode.toList).map tagName
          let tags := (if ot.isEmpty then "-" else ",".intercalate ot) :: stepTags o f0 ops
          ("ok", " ".intercalate (rs.map showOut), " ".intercalate tags, toHexTok f.s.content,
           "pos=" ++ toString f.pos ++ " realpos=" ++ toString f.realpos ++ " rbuf=" ++ toHexTok f.rbuf ++
           " wbuf=" ++ toHexTok f.wbuf ++ " closed=" ++ (if f.closed then "1" else "0"))
      let spart :=
        match pyOpen fs mode.toList with
        | none => ("E", "", fs.map toHexTok |>.getD "absent")
        | some p0 =>
          let (p, rs) := prun p0 ops
          ("ok", " ".intercalate ((ops.zip rs).map fun (op, r) => showSpec op r), toHexTok p.content)
      mpart.1 ++ " ; " ++ mpart.2.1 ++ " ; " ++ spart.1 ++ " ; " ++ spart.2.1 ++ " ; " ++ mpart.2.2.1 ++ " ; " ++
        mpart.2.2.2.1 ++ " ; " ++ spart.2.2 ++ " ; " ++ mpart.2.2.2.2
    | _, _, _, _, _ => "bad-op"
  | ["witnesses"] => progLines PV.Props.C27.witnesses
  | ["legacy"] => progLines PV.Props.C27.legacyWitnesses
  | _ => "bad-op"

def main : IO Unit := lineLoop step'
