/-
  Driver for C20: two channel models back to back (PV/Model/ChanPair.lean), repaired-tree configuration.
    init <winA> <maxA> <winB> <maxB> <nthr>
    L <action…> | R <action…>          a local action of side a / side b (syntax of PV/Model/ChanDriver.lean)
    dab <t> <code> | dba <t> <code>     deliver the next message of the a→b / b→a link (handler on thread t;
                                        extended data is handled as type <code>)
  reply: A[<state a>] B[<state b>] ab=<messages in flight> ba=<…> cr=<credits of the a→b direction>
-/
import PV.Model.ChanDriver
import PV.Model.ChanPair
open PV PV.Chan PV.ChanPair

def showLink (l : List Msg) : String := if l.isEmpty then "-" else ",".intercalate (l.map showMsg)

def showSys (y : Sys) : String :=
  "A[" ++ showSt y.a ++ "] B[" ++ showSt y.b ++ "] ab=" ++ showLink y.ab ++ " ba=" ++ showLink y.ba ++
  " cr=" ++ toString (credits y)

def pairStep (y : Sys) (line : String) : Sys × String :=
  match words line with
  | ["init", a, b, c, d, e] =>
    match a.toNat?, b.toNat?, c.toNat?, d.toNat?, e.toNat? with
    | some a, some b, some c, some d, some e => let y' := initPair a b c d e; (y', showSys y')
    | _, _, _, _, _ => (y, "bad-op")
  | "L" :: ws =>
    match parseAct ws with
    | some x => if localAct x then let y' := pstep fixedCfg y (.left x); (y', showSys y') else (y, "bad-op")
    | none => (y, "bad-op")
  | "R" :: ws =>
    match parseAct ws with
    | some x => if localAct x then let y' := pstep fixedCfg y (.right x); (y', showSys y') else (y, "bad-op")
    | none => (y, "bad-op")
  | ["dab", t, c] =>
    match t.toNat?, c.toNat? with
    | some t, some c => let y' := pstep fixedCfg y (.deliverAB t c); (y', showSys y')
    | _, _ => (y, "bad-op")
  | ["dba", t, c] =>
    match t.toNat?, c.toNat? with
    | some t, some c => let y' := pstep fixedCfg y (.deliverBA t c); (y', showSys y')
    | _, _ => (y, "bad-op")
  | _ => (y, "bad-op")

def main : IO Unit := lineLoopSt (initPair 0 0 0 0 0) pairStep
