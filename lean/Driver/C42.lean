/-
  Driver for the BufferedFile model over a short-read/short-write stream.  One program per line:
    prog <mode> <bufsize> <dflt> <inp-hex> <read-grants> <write-grants> <op>*
  grants: comma separated naturals or `-`.
  ops:  r:<int>|r:N  read      l:<int>|l:N  readline    L:<int>|L:N  readlines   n  __next__
        i  list(f)            w:<hex> write            W:<hex>,<hex>… writelines
        f  flush    c  close   t  tell
  reply: one token per op, then ` | out=<hex> pos=<int> realpos=<int> rbuf=<hex> wbuf=<hex> closed=<0|1> left=<nat>`
-/
import PV.Model.BufFileU
import PV.Model.ChanFile
import PV.Model.ChanX
import PV.Base.DriverIO
open PV PV.BufFile

def showErr : Err → String
  | .closed => "E:closed" | .notReadable => "E:notreadable" | .notWritable => "E:notwritable"
  | .notSeekable => "E:notseekable" | .fuel => "E:fuel" | .stall => "E:stall"
  | .stream c => "E:stream" ++ toString c

def showOut : Out → String
  | .bytes b => "b:" ++ toHexTok b
  | .lines ls => "ls:" ++ ",".intercalate (ls.map toHexTok)
  | .stop => "stop"
  | .unit => "ok"
  | .pos z => "t:" ++ toString z
  | .err e => showErr e

def parseNats (s : String) : Option (List Nat) :=
  if s == "-" then some [] else (s.splitOn ",").mapM String.toNat?

/-- `N` → none (argument omitted / None); integer otherwise -/
def parseOptInt (s : String) : Option (Option Int) :=
  if s == "N" then some none else (intOfString? s).map some

/-- a size argument: omitted, None or negative all mean "no limit" -/
def sizeArg (a : Option Int) : Option Nat :=
  match a with
  | none => none
  | some z => if z < 0 then none else some z.toNat

def parseOp (op : String) : Option Op :=
  match op.splitOn ":" with
  | ["r", a] => (parseOptInt a).map fun a => .read (sizeArg a)
  | ["l", a] => (parseOptInt a).map fun a => .readline (sizeArg a)
  | ["L", a] => (parseOptInt a).map .readlines
  | ["n"] => some .next
  | ["i"] => some .iter
  | ["w", h] => (ofHex? h).map .write
  | ["W", hs] => (if hs == "" then some [] else (hs.splitOn ",").mapM ofHex?).map .writelines
  | ["f"] => some .flush
  | ["c"] => some .close
  | ["t"] => some .tell
  | _ => none

def showNL (nl : List Bytes) : String := if nl.isEmpty then "-" else ",".intercalate (nl.map toHexTok)

def step' (line : String) : String :=
  match words line with
  | "prog" :: mode :: bufsize :: dflt :: inp :: rg :: wg :: ops =>
    match intOfString? bufsize, dflt.toNat?, ofHex? inp, parseNats rg, parseNats wg, ops.mapM parseOp with
    | some bs, some dflt, some inp, some rg, some wg, some ops =>
      let f0 : BF Chan := { s := { inp := inp, rg := rg, wg := wg }, dflt := dflt, bufsize := dflt }
      -- 'U' in the mode string selects the universal-newline model (same BF underneath)
      let (u, rs) :=
        if mode.toList.contains 'U' then runU chanOps { f := setMode f0 mode.toList bs 0 } ops
        else
          let (f, rs) := run chanOps (setMode f0 mode.toList bs 0) ops
          (({ f := f } : UF Chan), rs)
      let f := u.f
      " ".intercalate (rs.map showOut) ++ " | out=" ++ toHexTok f.s.out ++ " pos=" ++ toString f.pos ++
        " realpos=" ++ toString f.realpos ++ " rbuf=" ++ toHexTok f.rbuf ++ " wbuf=" ++ toHexTok f.wbuf ++
        " closed=" ++ (if f.closed then "1" else "0") ++ " left=" ++ toString f.s.inp.length ++
        " atcr=" ++ (if u.atCR then "1" else "0") ++ " nl=" ++ showNL u.nl
    | _, _, _, _, _, _ => "bad-op"
  -- a stream whose `_read` may raise: `progx <mode> <bufsize> <dflt> <inp> <rg> <wg> <fails: string of 0/1 | -> <op>*`
  | "progx" :: mode :: bufsize :: dflt :: inp :: rg :: wg :: fails :: ops =>
    match intOfString? bufsize, dflt.toNat?, ofHex? inp, parseNats rg, parseNats wg, ops.mapM parseOp with
    | some bs, some dflt, some inp, some rg, some wg, some ops =>
      if mode.toList.contains 'U' || !(fails == "-" || fails.toList.all fun ch => ch == '0' || ch == '1') then "bad-op" else
      let fl : List Bool := if fails == "-" then [] else fails.toList.map (· == '1')
      let f0 : BF ChanX := { s := { c := { inp := inp, rg := rg, wg := wg }, fails := fl }, dflt := dflt, bufsize := dflt }
      let (f, rs) := run chanOpsX (setMode f0 mode.toList bs 0) ops
      " ".intercalate (rs.map showOut) ++ " | out=" ++ toHexTok f.s.c.out ++ " pos=" ++ toString f.pos ++
        " realpos=" ++ toString f.realpos ++ " rbuf=" ++ toHexTok f.rbuf ++ " wbuf=" ++ toHexTok f.wbuf ++
        " closed=" ++ (if f.closed then "1" else "0") ++ " left=" ++ toString f.s.c.inp.length
    | _, _, _, _, _, _ => "bad-op"
  -- channel file classes: `progc <file|stderr|stdin> <mode> <bufsize> <inp> <read-grants> <op>*`
  -- (`x` = leaving a `with` block = close()); the writes of these classes are never short
  | "progc" :: kind :: mode :: bufsize :: inp :: rg :: ops =>
    match intOfString? bufsize, ofHex? inp, parseNats rg,
          (ops.map fun o => if o == "x" then "c" else o).mapM parseOp with
    | some bs, some inp, some rg, some ops =>
      if kind != "file" && kind != "stderr" && kind != "stdin" then "bad-op" else
      let f0 : BF Chan := { s := { inp := inp, rg := rg, wg := [] } }
      let (c, rs) := runC { f := setMode f0 mode.toList bs 0, stdin := kind == "stdin" } ops
      let f := c.f
      " ".intercalate (rs.map showOut) ++ " | out=" ++ toHexTok f.s.out ++ " pos=" ++ toString f.pos ++
        " realpos=" ++ toString f.realpos ++ " rbuf=" ++ toHexTok f.rbuf ++ " wbuf=" ++ toHexTok f.wbuf ++
        " closed=" ++ (if f.closed then "1" else "0") ++ " left=" ++ toString f.s.inp.length ++
        " eofs=" ++ toString c.eofs ++ " ateof=" ++ (match c.atEof with | none => "none" | some b => toHexTok b)
    | _, _, _, _ => "bad-op"
  | _ => "bad-op"

def main : IO Unit := lineLoop step'
