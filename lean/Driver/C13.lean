/-
  Driver for the blocking-call model.
    run <api> <remote|local> <schedule>     schedule: string over c (caller step) / l (loss step), or "-"
        → pc=<start|waiting|done> fin=<0|1> prompt=<0|1>
    mrun <api> <remote|local> <all|one> <n> <c0,c1,l,…>   → fin=<0|1> prompt=<one 0/1 per caller>
    proxy <fixed|old> <size> <have> <reads: n,n,…|-> <fuel>   → some <n> | none
  <api> is a row name of apiTable, or old:accept / old:ensure_session / old:channel_request / old:accept_notify_first
    prog <api> <remote|local>   → the wake-up sequence the row gets from the generated shutdown sequences
-/
import PV.Model.Blocking
import PV.Base.DriverIO
open PV PV.Blocking

def findApi (n : String) : Option Api :=
  if n == "old:accept" then some acceptOld
  else if n == "old:ensure_session" then some ensureSessionOld
  else if n == "old:channel_request" then some channelRequestOld
  else if n == "old:accept_notify_first" then some acceptNotifyFirst
  else apiTable.find? (·.name == n)

def parseSched (s : String) : Option (List Tid) :=
  if s == "-" then some [] else
  s.toList.mapM fun c => if c == 'c' then some Tid.caller else if c == 'l' then some Tid.loss else none

def showPc : Pc → String | .start => "start" | .checked => "checked" | .waiting => "waiting" | .done => "done"
def b01 (b : Bool) : String := if b then "1" else "0"

def stepLine (line : String) : String :=
  match words line with
  | ["run", api, loss, sch] =>
    match findApi api, (if loss == "remote" then some Loss.remote else if loss == "local" then some Loss.localClose else none), parseSched sch with
    | some a, some l, some sc =>
      let s := run a l init sc
      s!"pc={showPc s.pc} fin={b01 (lossFinished a l s)} prompt={b01 (returnsPromptly a l s)}"
    | _, _, _ => "bad-op"
  | ["prog", api, loss] =>
    match findApi api, (if loss == "remote" then some Loss.remote else if loss == "local" then some Loss.localClose else none) with
    | some a, some l => String.intercalate "," ((a.prog l).map fun
        | .setInactive => "inactive" | .setFlag => "flag" | .notify => "notify")
    | _, _ => "bad-op"
  | ["mrun", api, loss, mode, n, sch] =>
    -- many callers: schedule tokens c<i> / l separated by commas; mode all|one (notify_all / notify)
    let toks := if sch == "-" then [] else sch.splitOn ","
    let ps : Option (List MTid) := toks.mapM fun t =>
      if t == "l" then some MTid.loss
      else if t.startsWith "c" then (t.drop 1).toNat?.map MTid.caller else none
    match findApi api, (if loss == "remote" then some Loss.remote else if loss == "local" then some Loss.localClose else none),
          (if mode == "all" then some true else if mode == "one" then some false else none), n.toNat?, ps with
    | some a, some l, some al, some k, some sc =>
      let m := mrun a l al (minit k) sc
      let fin := decide ((a.prog l).length ≤ m.lossPc)
      let outs := m.cs.map fun c => b01 (returnsPromptly a l (m.view c))
      s!"fin={b01 fin} prompt={String.intercalate "" outs}"
    | _, _, _, _, _ => "bad-op"
  | ["proxy", mode, size, have_, reads, fuel] =>
    let rs : Option (List Nat) := if reads == "-" then some [] else (reads.splitOn ",").mapM (·.toNat?)
    match (if mode == "fixed" then some true else if mode == "old" then some false else none),
          size.toNat?, have_.toNat?, rs, fuel.toNat? with
    | some f, some sz, some h, some r, some fu =>
      match proxyRecv f sz h r fu with
      | some n => s!"some {n}"
      | none => "none"
    | _, _, _, _, _ => "bad-op"
  | _ => "bad-op"

def main : IO Unit := lineLoop stepLine
