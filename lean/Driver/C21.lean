/-
  Driver for the channel-stream model (stateful).  Requests → replies:
    new <k>                       → ok            (k open channels 0..k-1)
    data <c> <hex> | ext <c> <code> <hex> | eof <c> | exit <c> <v> | combine <c> <0|1>   → ok | nochan
    recv <c> <n> | recverr <c> <n>   → data:<hex> | timeout | nochan
    state <c>                     → out=<hex> err=<hex> combine=<0|1> eof=<0|1> exit=<v|none> | nochan
    witness                       → the history of `race_witness_before_fix`
-/
import PV.Model.Mux
import PV.Base.DriverIO
open PV PV.Mux

def showRes : Option Res → String
  | some (.data b) => "data:" ++ toHexTok b
  | some .timeout => "timeout"
  | none => "none"

def apply (m : Table) (a : Act) (reply : Chan → String) : Table × String :=
  match (m[a.chan]?).join with
  | none => (m, "nochan")
  | some _ =>
    let m' := stepL m a
    (m', match (m'[a.chan]?).join with | some ch => reply ch | none => "nochan")

def dstep (m : Table) (line : String) : Table × String :=
  match words line with
  | ["new", k] => match k.toNat? with | some k => (freshL k, "ok") | none => (m, "bad-op")
  | ["data", c, h] =>
    match c.toNat?, ofHex? h with
    | some c, some d => apply m (.data c d) (fun _ => "ok")
    | _, _ => (m, "bad-op")
  | ["ext", c, code, h] =>
    match c.toNat?, code.toNat?, ofHex? h with
    | some c, some code, some d => apply m (.ext c code d) (fun _ => "ok")
    | _, _, _ => (m, "bad-op")
  | ["eof", c] => match c.toNat? with | some c => apply m (.eof c) (fun _ => "ok") | none => (m, "bad-op")
  | ["exit", c, v] =>
    match c.toNat?, v.toNat? with
    | some c, some v => apply m (.exitStatus c v) (fun _ => "ok")
    | _, _ => (m, "bad-op")
  | ["combine", c, b] =>
    match c.toNat?, b with
    | some c, "1" => apply m (.setCombine c true) (fun _ => "ok")
    | some c, "0" => apply m (.setCombine c false) (fun _ => "ok")
    | _, _ => (m, "bad-op")
  | ["recv", c, n] =>
    match c.toNat?, n.toNat? with
    | some c, some n => apply m (.recv c n) (fun ch => showRes ch.last)
    | _, _ => (m, "bad-op")
  | ["recverr", c, n] =>
    match c.toNat?, n.toNat? with
    | some c, some n => apply m (.recvErr c n) (fun ch => showRes ch.last)
    | _, _ => (m, "bad-op")
  | ["state", c] =>
    match c.toNat? with
    | some c =>
      match (m[c]?).join with
      | some ch => (m, "out=" ++ toHexTok ch.out ++ " err=" ++ toHexTok ch.err ++ " combine=" ++
          (if ch.combine then "1" else "0") ++ " eof=" ++ (if ch.eof then "1" else "0") ++ " exit=" ++
          (match ch.exit with | some v => toString v | none => "none"))
      | none => (m, "nochan")
    | none => (m, "bad-op")
  | ["witness"] => (m, "ext 0 1 41;combine-old-a 0;ext 0 1 42;combine-old-b 0;recv 0 10")
  | _ => (m, "bad-op")

def main : IO Unit := lineLoopSt (freshL 0) dstep
