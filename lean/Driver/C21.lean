/-
  Driver for the channel-stream model (stateful).  Requests → replies:
    new <k>                       → ok            (k open channels 0..k-1)
    data <c> <hex> | ext <c> <code> <hex> | eof <c> | exit <c> <v> | rclose <c>   (peer messages)
                                  → ok | dropped (dead channel) | unknown (run loop ends) | down (run loop has ended)
    open <c>                      → ok | inuse | down
    close <c> | combine <c> <0|1> → ok | nochan
    recv <c> <n> | recverr <c> <n>   → data:<hex> | timeout | nochan
    state <c>                     → out=<hex> err=<hex> combine=<0|1> eof=<0|1> exit=<v|none> | nochan
    exitreq <rid> <status>        → hex of the CHANNEL_REQUEST "exit-status" message send_exit_status writes
    exitparse <hex>               → status `_handle_request` reads from the bytes after the channel id | none
    witness                       → the history of `race_witness_before_fix`
-/
import PV.Model.Mux
import PV.Base.DriverIO
open PV PV.Mux

def showRes : Option Res → String
  | some (.data b) => "data:" ++ toHexTok b
  | some .timeout => "timeout"
  | none => "none"

def b01 (b : Bool) : String := if b then "1" else "0"

/-- peer message -/
def arrive (t : Table) (a : Act) : Table × String :=
  let reply :=
    if !t.alive then "down"
    else match lookup t.l a.chan with
      | none => "unknown"
      | some ch => if ch.linked then "ok" else "dropped"
  (stepL t a, reply)

/-- application call -/
def call (t : Table) (a : Act) (reply : Chan → String) : Table × String :=
  match lookup t.l a.chan with
  | none => (t, "nochan")
  | some _ =>
    let t' := stepL t a
    (t', match lookup t'.l a.chan with | some ch => reply ch | none => "nochan")

def dstep (m : Table) (line : String) : Table × String :=
  match words line with
  | ["new", k] => match k.toNat? with | some k => (freshL k, "ok") | none => (m, "bad-op")
  | ["data", c, h] =>
    match c.toNat?, ofHex? h with
    | some c, some d => arrive m (.data c d)
    | _, _ => (m, "bad-op")
  | ["ext", c, code, h] =>
    match c.toNat?, code.toNat?, ofHex? h with
    | some c, some code, some d => arrive m (.ext c code d)
    | _, _, _ => (m, "bad-op")
  | ["eof", c] => match c.toNat? with | some c => arrive m (.eof c) | none => (m, "bad-op")
  | ["rclose", c] => match c.toNat? with | some c => arrive m (.remoteClose c) | none => (m, "bad-op")
  | ["exit", c, v] =>
    match c.toNat?, v.toNat? with
    | some c, some v => arrive m (.exitStatus c v)
    | _, _ => (m, "bad-op")
  | ["open", c] =>
    match c.toNat? with
    | some c =>
      let reply := if !m.alive then "down" else match lookup m.l c with
        | some ch => if ch.linked then "inuse" else "ok"
        | none => "ok"
      (stepL m (.open c), reply)
    | none => (m, "bad-op")
  | ["close", c] => match c.toNat? with | some c => call m (.close c) (fun _ => "ok") | none => (m, "bad-op")
  | ["combine", c, b] =>
    match c.toNat?, b with
    | some c, "1" => call m (.setCombine c true) (fun _ => "ok")
    | some c, "0" => call m (.setCombine c false) (fun _ => "ok")
    | _, _ => (m, "bad-op")
  | ["recv", c, n] =>
    match c.toNat?, n.toNat? with
    | some c, some n => call m (.recv c n) (fun ch => showRes ch.last)
    | _, _ => (m, "bad-op")
  | ["recverr", c, n] =>
    match c.toNat?, n.toNat? with
    | some c, some n => call m (.recvErr c n) (fun ch => showRes ch.last)
    | _, _ => (m, "bad-op")
  | ["state", c] =>
    match c.toNat? with
    | some c =>
      match lookup m.l c with
      | some ch => (m, "out=" ++ toHexTok ch.out ++ " err=" ++ toHexTok ch.err ++ " combine=" ++ b01 ch.combine ++
          " eof=" ++ b01 ch.eof ++ " closed=" ++ b01 ch.closed ++ " linked=" ++ b01 ch.linked ++ " exit=" ++
          (match ch.exit with | some v => toString v | none => "none") ++ " alive=" ++ b01 m.alive)
      | none => (m, "nochan")
    | none => (m, "bad-op")
  | ["exitreq", rid, v] =>
    match rid.toNat?, v.toNat? with
    | some rid, some v => (m, toHexTok (exitStatusRequest rid v))
    | _, _ => (m, "bad-op")
  | ["exitparse", h] =>
    match ofHex? h with
    | some b => (m, match handleRequestExit b with | some v => toString v | none => "none")
    | none => (m, "bad-op")
  | ["witness"] => (m, "ext 0 1 41;combine-old-a 0;ext 0 1 42;combine-old-b 0;recv 0 10")
  | _ => (m, "bad-op")

def main : IO Unit := lineLoopSt (freshL 0) dstep
