/-
  Driver for the ClientGuard model.  Requests:
    life <ev>…      ev = start | kex:0|1 | newkeys | auth:pw | auth:pk | auth:ki | auth:none | accept | info:<n> | die
                    → res=<r1>,<r2>…;wire=<w1>,<w2>…      r = ok|raised|ignored|died ; w = nk<e> | sr<e> | ua:<kind><e> | ir<e>
    tconn <given|none> <presented> <0|1>    key = <namehex>:<blobhex>      → outcome
    sconn <none | key,key…> <presented> <0|1>                              → outcome
    cteq <hexa> <hexb>                                                     → 1|0 (constant_time_bytes_eq)
    sconn3 <gss kex negotiated 0|1> <system> <user> <presented> <0|1>      → outcome
    sconn2 <system: none | key,…> <user: none | key,…> <presented> <0|1>   → outcome (system store consulted first)
    name <hosthex> <port>                                                  → hex of the known-hosts name
-/
import PV.Model.ClientGuard
import PV.Model.CtEq
import PV.Base.DriverIO
open PV PV.ClientGuard

def parseEv (t : String) : Option Event :=
  match t.splitOn ":" with
  | ["start"] => some .startClient
  | ["kex", "1"] => some (.kexReply true)
  | ["kex", "0"] => some (.kexReply false)
  | ["newkeys"] => some .newkeys
  | ["auth", "pw"] => some (.authCall (.password [112]))
  | ["auth", "pk"] => some (.authCall (.publickey [115]))
  | ["auth", "ki"] => some (.authCall (.interactive []))
  | ["auth", "none"] => some (.authCall .none)
  | ["accept"] => some .serviceAccept
  | ["info", n] => n.toNat?.map fun k => .infoRequest (List.replicate k [97])
  | ["die"] => some .die
  | _ => none

def showRes : Res → String
  | .ok => "ok" | .raisedNoSession => "raised" | .ignored => "ignored" | .died => "died"

def b01 (b : Bool) : String := if b then "1" else "0"

def showWire : Wire → String
  | .newkeys e => "nk" ++ b01 e
  | .serviceRequest e => "sr" ++ b01 e
  | .userauth c e => "ua:" ++ (match c with
      | .password _ => "pw" | .publickey _ => "pk" | .interactive _ => "ki" | .none => "plain") ++ b01 e
  | .infoResponse a e => "ir" ++ toString a.length ++ "/" ++ b01 e

def runLife : St → List Event → List Res → St × List Res
  | s, [], acc => (s, acc.reverse)
  | s, e :: es, acc => let r := step s e; runLife r.1 es (r.2 :: acc)

def parseKey (t : String) : Option Key :=
  match t.splitOn ":" with
  | [a, b] => do
    let x ← ofHex? a
    let y ← ofHex? b
    pure ⟨x, y⟩
  | _ => none

def showOutcome : Outcome → String
  | .authenticate => "authenticate" | .badHostKey => "bad-host-key" | .policyRejected => "policy-rejected"
  | .noAuthRequested => "no-auth"

def stepLine (line : String) : String :=
  match words line with
  | "life" :: evs =>
    match evs.mapM parseEv with
    | some es =>
      let (s, rs) := runLife init es []
      "res=" ++ ",".intercalate (rs.map showRes) ++ ";wire=" ++ ",".intercalate (s.wire.map showWire)
    | none => "bad-op"
  | ["tconn", g, p, w] =>
    match (if g == "none" then some none else (parseKey g).map some), parseKey p with
    | some gk, some pk => if w == "1" || w == "0" then showOutcome (transportConnect gk pk (w == "1")) else "bad-op"
    | _, _ => "bad-op"
  | ["sconn", k, p, pol] =>
    match (if k == "none" then some none else ((k.splitOn ",").mapM parseKey).map some), parseKey p with
    | some kn, some pk => if pol == "1" || pol == "0" then showOutcome (sshClientConnect kn pk (pol == "1")) else "bad-op"
    | _, _ => "bad-op"
  | ["sconn2", sy, us, p, pol] =>
    let pk := fun (k : String) => if k == "none" then some none else ((k.splitOn ",").mapM parseKey).map some
    match pk sy, pk us, parseKey p with
    | some a, some b, some c =>
      if pol == "1" || pol == "0" then showOutcome (sshClientConnect2 a b c (pol == "1")) else "bad-op"
    | _, _, _ => "bad-op"
  | ["sconn3", used, sy, us, p, pol] =>
    let pk := fun (k : String) => if k == "none" then some none else ((k.splitOn ",").mapM parseKey).map some
    match pk sy, pk us, parseKey p with
    | some a, some b, some c =>
      if (pol == "1" || pol == "0") && (used == "1" || used == "0") then
        showOutcome (sshClientConnectGss (used == "1") a b c (pol == "1")) else "bad-op"
    | _, _, _ => "bad-op"
  | ["cteq", a, b] =>
    match ofHex? a, ofHex? b with
    | some x, some y => if PV.CtEq.ctEq x y then "1" else "0"
    | _, _ => "bad-op"
  | ["name", h, port] =>
    match ofHex? h, port.toNat? with
    | some hb, some n => toHexTok (hostKeyName hb n (toString n).toUTF8.toList)
    | _, _ => "bad-op"
  | _ => "bad-op"

def main : IO Unit := lineLoop stepLine
