/-
  Driver for the BufferedPipe model (stateful).  Requests → replies:
    new                         → ok                (fresh pipe)
    feed <hex>                  → ok
    read <tid> <n> <t|none>     → data:<hex> | timeout | wait | busy
    wake <tid> <elapsed>        → data:<hex> | timeout | wait | nowaiter
    empty <tid>                 → data:<hex> | busy
    close                       → ok
    setevent                    → ok
    state                       → buf=<hex> closed=<0|1> event=<none|set|clear> waiting=<tid:n:t;…|->
    witness                     → the schedule of `deadline_witness_before_fix` as `;`-separated requests
-/
import PV.Model.BufferedPipe
import PV.Base.DriverIO
open PV PV.BufferedPipe

def showRes : Res → String
  | .data b => "data:" ++ toHexTok b
  | .timeout => "timeout"

def showEvs (evs : List Ev) (dflt : String) : String :=
  match evs with
  | [.got _ r] => showRes r
  | [.emptied _ d] => "data:" ++ toHexTok d
  | [] => dflt
  | _ => "ok"

def showTimeout : Option Int → String
  | none => "none"
  | some t => toString t

def showState (s : St) : String :=
  "buf=" ++ toHexTok s.buf ++ " closed=" ++ (if s.closed then "1" else "0") ++ " event=" ++
    (match s.event with | none => "none" | some true => "set" | some false => "clear") ++ " waiting=" ++
    (if s.waiting.isEmpty then "-" else
      ";".intercalate (s.waiting.map fun w => toString w.tid ++ ":" ++ toString w.n ++ ":" ++ showTimeout w.timeout))

def parseTimeout (t : String) : Option (Option Int) :=
  if t == "none" then some none else (intOfString? t).map some

def dstep (s : St) (line : String) : St × String :=
  match words line with
  | ["new"] => (init, "ok")
  | ["feed", h] =>
    match ofHex? h with
    | some d => (step s (.feed d), "ok")
    | none => (s, "bad-op")
  | ["read", tid, n, t] =>
    match tid.toNat?, n.toNat?, parseTimeout t with
    | some tid, some n, some t =>
      if isWaiting s tid then (s, "busy")
      else
        let s' := step s (.read tid n t)
        (s', showEvs (newEvents s s') "wait")
    | _, _, _ => (s, "bad-op")
  | ["wake", tid, e] =>
    match tid.toNat?, intOfString? e with
    | some tid, some e =>
      if !isWaiting s tid then (s, "nowaiter")
      else
        let s' := step s (.wake tid e)
        (s', showEvs (newEvents s s') "wait")
    | _, _ => (s, "bad-op")
  | ["empty", tid] =>
    match tid.toNat? with
    | some tid =>
      if isWaiting s tid then (s, "busy")
      else
        let s' := step s (.empty tid)
        (s', showEvs (newEvents s s') "bad-state")
    | none => (s, "bad-op")
  | ["close"] => (step s .close, "ok")
  | ["setevent"] => (step s .setEvent, "ok")
  | ["state"] => (s, showState s)
  | ["witness"] => (s, "read 1 10 5;feed 41;wake 1 5")
  | _ => (s, "bad-op")

def main : IO Unit := lineLoopSt init dstep
