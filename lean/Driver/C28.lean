/-
  Driver for the prefetch model (stateful).  Requests:
    init <hex file> <maxReq> [bufsize]  → ok      (bufsize 0/absent = unbuffered, else FLAG_BUFFERED with that _bufsize)
    a serve <k> | a servefail <code> | a tc <i> | a ta <i> | a ts <i> | a tr <i> | a r
    a op seek <n> | a op read <n|none> | a op readat <off> <n|none> (one readv block: seek+read) | a op prefetch <size> <cap|none> | a op readv <cap|none> <o:l,o:l,…|->
                                        → ok | disabled
    en                                  → enabled set:  S T<i>… R   (or -)
    st                                  → E[num:off:len,…] B[off:len,…] d<0|1> p<0|1> pos<n> x<saved 0|1>
    out                                 → start:want:hex;…  of the completed reads
    raised                              → start:code,…      of the reads that raised
-/
import PV.Model.Prefetch
import PV.Base.DriverIO
open PV PV.Prefetch

def parseCap (s : String) : Option (Option Nat) :=
  if s == "none" then some none else s.toNat?.map some

def parseChunks (s : String) : Option (List Chunk) :=
  if s == "-" then some [] else
  (s.splitOn ",").mapM fun t =>
    match t.splitOn ":" with
    | [a, b] => match a.toNat?, b.toNat? with
      | some x, some y => some (x, y)
      | _, _ => none
    | _ => none

def parseAct : List String → Option Act
  | ["serve", k] => k.toNat?.map .serve
  | ["servefail", c] => c.toNat?.map .serveFail
  | ["tc", i] => i.toNat?.map .tCheck
  | ["ta", i] => i.toNat?.map .tAlloc
  | ["ts", i] => i.toNat?.map .tSend
  | ["tr", i] => i.toNat?.map .tReg
  | ["r"] => some .rStep
  | ["op", "seek", n] => n.toNat?.map fun x => .rOp (.seek x)
  | ["op", "read", n] => if n == "none" then some (.rOp (.read none)) else n.toNat?.map fun x => .rOp (.read (some x))
  | ["op", "readat", o, n] =>
    match o.toNat? with
    | some off => if n == "none" then some (.rOp (.readAt off none)) else n.toNat?.map fun x => .rOp (.readAt off (some x))
    | none => none
  | ["op", "prefetch", sz, cap] =>
    match sz.toNat?, parseCap cap with
    | some x, some c => some (.rOp (.prefetch x c))
    | _, _ => none
  | ["op", "readv", cap, ch] =>
    match parseCap cap, parseChunks ch with
    | some c, some l => some (.rOp (.readv l c))
    | _, _ => none
  | _ => none

def threadEnabled (s : St) (i : Nat) : Bool :=
  (step s (.tCheck i)).isSome || (step s (.tAlloc i)).isSome || (step s (.tSend i)).isSome || (step s (.tReg i)).isSome

def enabledSet (s : St) : String :=
  let sv := if (step s (.serve 1)).isSome then ["S"] else []
  let ts := (List.range s.threads.length).filterMap fun i => if threadEnabled s i then some s!"T{i}" else none
  let r := if (step s .rStep).isSome then ["R"] else []
  let all := sv ++ ts ++ r
  if all.isEmpty then "-" else " ".intercalate all

def runningCtx : Pc → Option RCtx
  | .idle => none
  | .cont c => some c
  | .recvPf c => some c
  | .dispPf c _ _ => some c
  | .allocSync c => some c
  | .sendSync c _ => some c
  | .recvSync c _ => some c
  | .dispSync c _ _ _ => some c

/-- what `_pos` / `len(_rbuffer)` show in the middle of a read: `read(n)` gathers in `_rbuffer` and moves `_pos` at
    the end; `read()` empties `_rbuffer` first and moves `_pos` with every piece -/
def shownPos (s : St) : Nat :=
  match runningCtx s.pc with
  | some c => (match c.want with | some _ => s.pos | none => c.start + c.acc.length)
  | none => s.pos

def shownRb (s : St) : Nat :=
  match runningCtx s.pc with
  | some c => (match c.want with | some _ => c.acc.length | none => 0)
  | none => s.rbuf.length

def digest (s : St) : String :=
  let ext := s.extents.mergeSort (fun a b => a.1 ≤ b.1)
  let bufs := s.bufs.mergeSort (fun a b => a.1 ≤ b.1)
  let b01 (b : Bool) := if b then "1" else "0"
  "E[" ++ ",".intercalate (ext.map fun e => s!"{e.1}:{e.2.1}:{e.2.2}") ++ "] B[" ++
    ",".intercalate (bufs.map fun e => s!"{e.1}:{e.2.length}") ++ "] d" ++ b01 s.done ++ " p" ++ b01 s.prefetching ++
    " pos" ++ toString s.realpos ++ " x" ++ b01 s.saved.isSome ++ " fp" ++ toString (shownPos s) ++ " rb" ++
    toString (shownRb s)

def showOut (s : St) : String :=
  if s.out.isEmpty then "-" else
  ";".intercalate (s.out.map fun e =>
    s!"{e.1}:" ++ (match e.2.1 with | some w => toString w | none => "none") ++ ":" ++ toHexTok e.2.2)

def stepLine (st : Option St) (line : String) : Option St × String :=
  match words line, st with
  | ["init", hex, m], _ =>
    match ofHex? hex, m.toNat? with
    | some f, some mr => (some (init f mr), "ok")
    | _, _ => (st, "bad-op")
  | ["init", hex, m, b], _ =>
    match ofHex? hex, m.toNat?, b.toNat? with
    | some f, some mr, some bs => (some (init f mr bs), "ok")
    | _, _, _ => (st, "bad-op")
  | "a" :: rest, some s =>
    match parseAct rest with
    | none => (st, "bad-op")
    | some a =>
      match step s a with
      | some s' => (some s', "ok")
      | none => (st, "disabled")
  | ["en"], some s => (st, enabledSet s)
  | ["st"], some s => (st, digest s)
  | ["out"], some s => (st, showOut s)
  | ["raised"], some s =>
    (st, if s.raised.isEmpty then "-" else ",".intercalate (s.raised.map fun e => s!"{e.1}:{e.2}"))
  | _, _ => (st, "bad-op")

def main : IO Unit := lineLoopSt (none : Option St) stepLine
