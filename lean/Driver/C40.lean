/-
  Driver for the SSHConfig model.  All strings are hex of their UTF-8 bytes (`-` = empty string).
    lookup <user> <localhost> <fqdn> <home> <hostname> <line>…   → ok <key>=<val>;…  (sorted by key) | err parse|exec|canon
    lookups <user> <localhost> <fqdn> <home> <host>,<host>,… <line>…   successive lookups on ONE parsed object → answers joined by " | "
    hostnames <line>…                                            → ok <hex>,<hex>,… (sorted) | err parse
    glob <pattern> <name>                                        → 1 | 0
  line: H:<pat>,<pat>,…   M:<tok>,<tok>,…   K:<key>:<value>
  val : s<hex> | n | l<hex>,<hex>,…  (l alone = empty list)
  %C uses the toy hash  hex8(fold (a*31 + codepoint) mod 2^32 from 7)  (the harness patches sha1 with the same).
-/
import PV.Model.Config
import PV.Base.DriverIO
open PV PV.Config

def strOfHex (t : String) : Option String :=
  (ofHex? t).bind fun b => String.fromUTF8? (ByteArray.mk b.toArray)

def hexOfStr (s : String) : String := toHexTok s.toUTF8.toList

def toyHash (s : String) : String :=
  let n := s.toList.foldl (fun a c => (a * 31 + c.toNat) % 4294967296) 7
  toHex (beBytes 4 n)

def parseLine (t : String) : Option Line :=
  if t.startsWith "H:" then ((t.drop 2).toString.splitOn ",").mapM strOfHex |>.map Line.host
  else if t.startsWith "M:" then ((t.drop 2).toString.splitOn ",").mapM strOfHex |>.map Line.mtch
  else if t.startsWith "K:" then
    match (t.drop 2).toString.splitOn ":" with
    | [k, v] => match strOfHex k, strOfHex v with
      | some k, some v => some (Line.kv k v)
      | _, _ => none
    | _ => none
  else none

def showVal : Val → String
  | .str s => "s" ++ hexOfStr s
  | .none => "n"
  | .list l => "l" ++ ",".intercalate (l.map hexOfStr)

def insertSortedStr (a : String × String) : List (String × String) → List (String × String)
  | [] => [a]
  | b :: l => if a.1 ≤ b.1 then a :: b :: l else b :: insertSortedStr a l

def showDict (d : Dict) : String :=
  let items := (d.map fun (k, v) => (k, hexOfStr k ++ "=" ++ showVal v)).foldr insertSortedStr []
  ";".intercalate (items.map (·.2))

def showErr : Err → String
  | .parseError => "err parse"
  | .execUnsupported => "err exec"
  | .canonUnsupported => "err canon"

def step (line : String) : String :=
  match words line with
  | "lookup" :: user :: lhost :: fqdn :: home :: hostname :: lines =>
    match strOfHex user, strOfHex lhost, strOfHex fqdn, strOfHex home, strOfHex hostname, lines.mapM parseLine with
    | some user, some lhost, some fqdn, some home, some hostname, some lines =>
      let env : Env := { localUser := user, localHost := lhost, fqdn := fqdn, home := home, hashC := toyHash }
      match lookupLines env lines hostname with
      | .ok d => "ok " ++ showDict d
      | .error e => showErr e
    | _, _, _, _, _, _ => "bad-op"
  | "lookups" :: user :: lhost :: fqdn :: home :: hosts :: lines =>
    match strOfHex user, strOfHex lhost, strOfHex fqdn, strOfHex home, (hosts.splitOn ",").mapM strOfHex, lines.mapM parseLine with
    | some user, some lhost, some fqdn, some home, some hosts, some lines =>
      let env : Env := { localUser := user, localHost := lhost, fqdn := fqdn, home := home, hashC := toyHash }
      match parse lines with
      | .error e => showErr e
      | .ok blocks =>
        " | ".intercalate ((lookupSession env blocks hosts).2.map fun r => match r with
          | .ok d => "ok " ++ showDict d
          | .error e => showErr e)
    | _, _, _, _, _, _ => "bad-op"
  | "hostnames" :: lines =>
    match lines.mapM parseLine with
    | some lines =>
      match parse lines with
      | .ok blocks =>
        let hs := ((getHostnames blocks).map fun h => (h, hexOfStr h)).foldr insertSortedStr []
        "ok " ++ ",".intercalate (hs.map (·.2))
      | .error e => showErr e
    | none => "bad-op"
  | ["glob", p, n] =>
    match strOfHex p, strOfHex n with
    | some p, some n => if fnmatch n p then "1" else "0"
    | _, _ => "bad-op"
  | _ => "bad-op"

def main : IO Unit := lineLoop step
