/-
  Driver for the agent signing model.  Request:
    sign <blob hex> <inner hex|none> <data hex> <alg: none | u:<utf-8 hex>> <reply stream hex> <caps: - | n,n,…>
  Reply:  <bytes written to the agent, hex> | ok <sig hex>  /  … | err lost  /  … | err nosign
    signseq <blob>/<inner>/<data>/<alg>/<reply>/<caps> …     successive requests on ONE connection; the agent appends
                                                             <reply> (and <caps>) to the stream when request i is written
  Reply:  ok <sig> ; err lost ; …  (one per request)  || <unread bytes left on the connection, hex>
-/
import PV.Model.Agent
import PV.Base.DriverIO
open PV PV.Agent

def parseAlg (t : String) : Option (Option String) :=
  if t == "none" then some none
  else if t.startsWith "u:" then
    (ofHex? (t.drop 2).toString).bind fun b => (String.fromUTF8? (ByteArray.mk b.toArray)).map some
  else none

def parseCaps (t : String) : Option (List Nat) :=
  if t == "-" then some [] else (t.splitOn ",").mapM String.toNat?

def parseInner (t : String) : Option (Option Bytes) :=
  if t == "none" then some none else (ofHex? t).map some

def step (line : String) : String :=
  match words line with
  | ["sign", blob, inner, data, alg, reply, caps] =>
    match ofHex? blob, parseInner inner, ofHex? data, parseAlg alg, ofHex? reply, parseCaps caps with
    | some blob, some inner, some data, some alg, some reply, some caps =>
      let (sent, r) := signSshData (fun _ => { data := reply, caps := caps }) { blob := blob, inner := inner } data alg
      toHexTok sent ++ " | " ++
        (match r with
         | .ok sig => "ok " ++ toHexTok sig
         | .error .lostAgent => "err lost"
         | .error .cannotSign => "err nosign"
         | .error .fuel => "err fuel")
    | _, _, _, _, _, _ => "bad-op"
  | "signseq" :: rs =>
    let parseReq (t : String) : Option Req :=
      match t.splitOn "/" with
      | [blob, inner, data, alg, reply, caps] =>
        match ofHex? blob, parseInner inner, ofHex? data, parseAlg alg, ofHex? reply, parseCaps caps with
        | some blob, some inner, some data, some alg, some reply, some caps =>
          some { key := { blob := blob, inner := inner }, data := data, algorithm := alg, reply := reply, caps := caps }
        | _, _, _, _, _, _ => none
      | _ => none
    match rs.mapM parseReq with
    | some reqs =>
      let r := signSession { data := [], caps := [] } reqs
      " ; ".intercalate (r.1.map fun x => match x.2 with
         | .ok sig => "ok " ++ toHexTok sig
         | .error .lostAgent => "err lost"
         | .error .cannotSign => "err nosign"
         | .error .fuel => "err fuel") ++ " || " ++ toHexTok r.2.data
    | none => "bad-op"
  | ["flag", alg] =>
    match parseAlg alg with
    | some a => toString (flagFor a)
    | none => "bad-op"
  | _ => "bad-op"

def main : IO Unit := lineLoop step
