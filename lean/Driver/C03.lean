/-
  Driver for the framing part of the packet model (C03).  Requests:
    pad <block> <etm 0|1> <aead 0|1> <len>                 → <padding> <lengthfield>
    build <block> <addlen> <zeropad 0|1> <payloadhex> <rndhex>  → <packethex> | err:<kind>
    send <cfg> <z|-> <seq> <kexdone 0|1> <payloadhex> <rndhex>  → <wirehex> <seq'> | err:<kind>
    sendw <cfg> <z|-> <seq> <kexdone 0|1> <payloadhex> <rndhex> <wsched> → <hex accepted by the socket> ok|eof | err:<kind>
    writeall <hex> <wsched>                                  → <hex accepted by the socket> ok|eof   (`write_all`)
  (toy primitives; cfg tokens and wsched as in PV/Model/PacketIO.lean)
-/
import PV.Model.PacketIO
open PV PV.Packet

def step (line : String) : String :=
  match words line with
  | ["pad", b, e, a, l] =>
    match b.toNat?, bool? e, bool? a, l.toNat? with
    | some b, some e, some a, some l =>
      if b = 0 then "err:zeroDiv" else
      let pad := padLen b (if e || a then 4 else 8) l
      toString pad ++ " " ++ toString (l + pad + 1)
    | _, _, _, _ => "bad-op"
  | ["build", b, a, z, pl, rnd] =>
    match b.toNat?, a.toNat?, bool? z, ofHex? pl, ofHex? rnd with
    | some b, some a, some z, some pl, some rnd =>
      match buildPacket b a z pl rnd with
      | .ok P => toHexTok P
      | .error e => "err:" ++ errName e
    | _, _, _, _, _ => "bad-op"
  | ["send", cfg, z, seq, kd, pl, rnd] =>
    match parseCfg cfg, parseZ z, seq.toNat?, bool? kd, ofHex? pl, ofHex? rnd with
    | some c, some z, some seq, some kd, some pl, some rnd =>
      let s : Sender toyPrims :=
        { block := c.block, macLen := c.macLen, sdctr := c.sdctr, ciph := c.out, comp := z, seq := seq, kexDone := kd }
      match sendMessage s pl rnd with
      | .ok o => toHexTok o.wire ++ " " ++ toString o.st.seq
      | .error e => "err:" ++ errName e
    | _, _, _, _, _, _ => "bad-op"
  | ["sendw", cfg, z, seq, kd, pl, rnd, ws] =>
    match parseCfg cfg, parseZ z, seq.toNat?, bool? kd, ofHex? pl, ofHex? rnd, parseWSched ws with
    | some c, some z, some seq, some kd, some pl, some rnd, some ws =>
      let s : Sender toyPrims :=
        { block := c.block, macLen := c.macLen, sdctr := c.sdctr, ciph := c.out, comp := z, seq := seq, kexDone := kd }
      match sendMessage s pl rnd with
      | .ok o => showW (writeAll ws o.wire 0 [])
      | .error e => "err:" ++ errName e
    | _, _, _, _, _, _, _ => "bad-op"
  | ["writeall", out, ws] =>
    match ofHex? out, parseWSched ws with
    | some out, some ws => showW (writeAll ws out 0 [])
    | _, _ => "bad-op"
  | _ => "bad-op"

/-- stateless requests first; everything else goes to the stateful toy sender/receiver of PV/Model/PacketIO.lean
(`reset`, `cfgout`, `seqout`, `kexout`, `zout`, `send <payloadhex> <rndhex>`, …) so that LONG histories through one
sender can be compared packet by packet -/
def stepSt (st : DSt) (line : String) : DSt × String :=
  let r := step line
  if r != "bad-op" then (st, r) else driverStep st line

def main : IO Unit := lineLoopSt ({} : DSt) stepSt
