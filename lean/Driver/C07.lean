/-
  Driver for the signature-algorithm model (PV/Model/SigAlgo.lean).  Requests (names/bytes in hex, `-` = empty):
    tables                                   → `<name>:<class|->:<rsa hash id|->` for the 14 known names
    strip <name>                             → stripCert
    pref <disabled,…|->                      → Transport.preferred_keys        (comma separated)
    pubs <disabled,…|->                      → Transport.preferred_pubkeys
    vk <hostKeyType> <P> <sig>               → _verify_key:            ok | ssh | keyerror | other
    kex <disabled> <serverList> <P> <sig>    → negotiation + _verify_key: `<negotiated|none> <status>`
    auth <disabled> <algorithm> <P> <cb 0|1> <sig|none>  → disconnect | pkok | failure | success
    authseq <disabled> <cb> <parse> <ident> (<algorithm> <flags> <sig|none>)*  → outcomes of the requests of one
             connection, `+`-joined (stops after disconnect / success)
  <P> = <parse: ok|ssh|other> <ident> <r1><r2><r4><r0>   (key parsing outcome, the ECDSA key's curve
        identifier, and the library's verdict under SHA-1 / SHA-256 / SHA-512 / the key type's own hash);
        the class of the parsed key is the class `_key_info` maps the name to.
-/
import PV.Model.SigAlgo
import PV.Base.DriverIO
open PV PV.SigAlgo

def parseList (s : String) : Option (List Name) :=
  if s == "-" then some [] else (s.splitOn ",").mapM ofHex?

def showList (l : List Name) : String := if l.isEmpty then "-" else ",".intercalate (l.map toHexTok)

def showCls : Option KeyClass → String
  | some .rsa => "rsa" | some .ecdsa => "ecdsa" | some .ed25519 => "ed25519" | none => "-"

def mkPrims (parse : String) (ident : Name) (flags : String) : Option Prims :=
  match flags.toList with
  | [a, b, c, d] =>
    if ¬ [a, b, c, d].all (fun x => x == '0' || x == '1') then none
    else if parse != "ok" && parse != "ssh" && parse != "other" then none
    else some {
      keyInfo := realKeyInfo, rsaHashes := realRsaHashes,
      parseKey := fun cls blob =>
        if parse == "ok" then .ok { cls := cls, ident := ident, pub := blob }
        else if parse == "ssh" then .error .ssh else .error .other,
      rawVerify := fun _ h _ _ =>
        if h = 1 then a == '1' else if h = 2 then b == '1' else if h = 4 then c == '1' else d == '1' }
  | _ => none

def showErr : Err → String
  | .ssh => "ssh" | .keyError => "keyerror" | .other => "other"

def step (line : String) : String :=
  match words line with
  | ["tables"] =>
    let names := defaultKeys ++ defaultKeys.map (· ++ certSuffix)
    " ".intercalate (names.map fun n =>
      toHexTok n ++ ":" ++ showCls (realKeyInfo n) ++ ":" ++
        (match realRsaHashes n with | some h => toString h | none => "-"))
  | ["strip", n] => match ofHex? n with
    | some n => toHexTok (stripCert n)
    | none => "bad-op"
  | ["pref", d] => match parseList d with
    | some d => showList (preferredKeys defaultKeys d)
    | none => "bad-op"
  | ["pubs", d] => match parseList d with
    | some d => showList (filterAlgos defaultKeys d)
    | none => "bad-op"
  | ["vk", t, parse, ident, flags, sig] =>
    match ofHex? t, ofHex? ident, ofHex? sig with
    | some t, some ident, some sig =>
      match mkPrims parse ident flags with
      | some P => match verifyKey P t [1] [2] sig with
        | .ok _ => "ok"
        | .error e => showErr e
      | none => "bad-op"
    | _, _, _ => "bad-op"
  | ["kex", d, sl, parse, ident, flags, sig] =>
    match parseList d, parseList sl, ofHex? ident, ofHex? sig with
    | some d, some sl, some ident, some sig =>
      match mkPrims parse ident flags with
      | some P =>
        let t := agreeClient (preferredKeys defaultKeys d) sl
        (match t with | some t => toHexTok t | none => "none") ++ " " ++
          (match clientKex P defaultKeys d sl [1] [2] sig with
           | .ok _ => "ok"
           | .error e => showErr e)
      | none => "bad-op"
    | _, _, _, _ => "bad-op"
  | ["auth", d, alg, parse, ident, flags, cb, sig] =>
    match parseList d, ofHex? alg, ofHex? ident with
    | some d, some alg, some ident =>
      let sg : Option (Option Bytes) := if sig == "none" then some none else (ofHex? sig).map some
      match mkPrims parse ident flags, sg with
      | some P, some sg =>
        if cb != "0" && cb != "1" then "bad-op"
        else match authPublickey P (filterAlgos defaultKeys d) (fun _ => cb == "1") alg [2] sg [1] with
          | .disconnect => "disconnect" | .pkOk => "pkok" | .failure => "failure" | .success => "success"
      | _, _ => "bad-op"
    | _, _, _ => "bad-op"
  | "authseq" :: d :: cb :: parse :: ident :: rest =>
    let rec groups : List String → Option (List (String × String × String))
      | [] => some []
      | a :: f :: sg :: r => (groups r).map fun g => (a, f, sg) :: g
      | _ => none
    match parseList d, ofHex? ident, groups rest with
    | some d, some ident, some gs =>
      if cb != "0" && cb != "1" then "bad-op"
      else
        let reqs := gs.mapM fun (a, f, sg) =>
          let sg? : Option (Option Bytes) := if sg == "none" then some none else (ofHex? sg).map some
          match ofHex? a, mkPrims parse ident f, sg? with
          | some a, some P, some sg => some ({ P := P, algorithm := a, keyblob := [2], sig := sg, blob := [1] } : Req)
          | _, _, _ => none
        match reqs with
        | some reqs =>
          "+".intercalate ((authSession (filterAlgos defaultKeys d) (fun _ => cb == "1") reqs).map fun
            | .disconnect => "disconnect" | .pkOk => "pkok" | .failure => "failure" | .success => "success")
        | none => "bad-op"
    | _, _, _ => "bad-op"
  | _ => "bad-op"

def main : IO Unit := lineLoop step
