/-
  Driver for the canonicalisation model.  Requests:
    canon <hex of the UTF-8 path>          → hex of canonicalize(path)
    walk <hex root> <hex path>             → depth reached by root ++ canonicalize(path) counted from the end of
                                             root's own components (`escaped` if the walk climbs above it)
-/
import PV.Model.Canon
import PV.Base.DriverIO
open PV PV.Canon

def step (line : String) : String :=
  match words line with
  | ["canon", hex] =>
    match ofHex? hex with
    | some p => toHexTok (canonicalize p)
    | none => "bad-op"
  | ["walk", hr, hp] =>
    match ofHex? hr, ofHex? hp with
    | some r, some p =>
      let all := splitSlash (r ++ canonicalize p)
      let rest := all.drop (splitSlash r).length
      match descend 0 rest with
      | some d => toString d
      | none => "escaped"
    | _, _ => "bad-op"
  | _ => "bad-op"

def main : IO Unit := lineLoop step
