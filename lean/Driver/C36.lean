/-
  Driver for the public-key codec / identity model.  Requests:
    rsa.enc <e> <n>                         → hex of asbytes
    ec.enc <256|384|521> <x> <y>
    ed.enc <pkhex>
    rsa.dec <blob> <e> <n> <ok|Class|unused>            primitive table: RSAPublicNumbers(e,n).public_key()
    ec.dec  <blob> <pointhex> <ok:<x>:<y>|Class|unused>  primitive table: from_encoded_point(curve, point)
    ed.dec  <blob> <pkhex> <ok|Class|unused>             primitive table: VerifyKey(pk)
        → ok rsa:<e>:<n> cert=<0|1>  |  ok ec:<bits>:<x>:<y> cert=…  |  ok ed:<hex> cert=…  |  exc <Class>
    eq <keydesc> <keydesc>                  → 0|1     keydesc = rsa:<e>:<n>:<priv01>:<cert01> | ec:<bits>:<x>:<y>:… | ed:<hex>:…
    write <rsa|ec|ed> <hasPrivate 0|1> <none|other|b:<hex>|s:<hex>>    → ok PEM TraditionalOpenSSL <NoEncryption|Best:<hex>> | exc <Class>
    writefile <cls> <0|1> <pass> <none|octal existing mode> <octal umask>  → <call> | <absent | <octal mode> key|nokey>
    dest <missing|existing:<oct>|missingparent|dangling|symlink:<oct>|directory> <octal umask>  → ok <mode> created|kept | exc <Class>
    mode <none|octal existing mode> <octal umask>       → octal mode of the key file after writing
-/
import PV.Props.C36
import PV.Base.DriverIO
open PV PV.Wire PV.Sig PV.PubKey

section write
open PV.KeyWrite

def pass? (s : String) : Option Pass :=
  if s == "none" then some .none else if s == "other" then some .other
  else match s.splitOn ":" with
    | ["b", h] => (ofHex? h).map .bytes
    | ["s", h] => (ofHex? h).map .str
    | _ => none

def wcls? (s : String) : Option KeyWrite.Cls :=
  if s == "rsa" then some .rsa else if s == "ec" then some .ec else if s == "ed" then some .ed else none

def showCall : Except WErr Call → String
  | .ok c => match c.enc with
    | .noEncryption => "ok PEM TraditionalOpenSSL NoEncryption"
    | .best pw => "ok PEM TraditionalOpenSSL Best:" ++ toHexTok pw
  | .error e => "exc " ++ e.name

end write

def curveBits? (s : String) : Option Curve :=
  if s == "256" then some .p256 else if s == "384" then some .p384 else if s == "521" then some .p521 else none

def Curve.bits : Curve → String
  | .p256 => "256" | .p384 => "384" | .p521 => "521"

def showPub : Pub → String
  | .rsa e n => s!"rsa:{e}:{n}"
  | .ec c x y => s!"ec:{Curve.bits c}:{x}:{y}"
  | .ed pk => "ed:" ++ toHexTok pk

def showDec : Except Err KeyObj → String
  | .ok k => "ok " ++ showPub k.pub ++ " cert=" ++ (if k.cert.isSome then "1" else "0")
  | .error e => "exc " ++ e.name

def octal? (s : String) : Option Nat :=
  s.toList.foldl (fun acc c => acc.bind fun a =>
    if '0' ≤ c ∧ c ≤ '7' then some (a * 8 + (c.toNat - 48)) else none) (some 0)

def toOctal (n : Nat) : String := String.ofList (Nat.toDigits 8 n)

def ans? (s : String) : Option (Option String) :=
  if s == "ok" || s == "unused" then some none else some (some s)

def keyDesc? (s : String) : Option KeyObj :=
  match s.splitOn ":" with
  | ["rsa", e, n, p, c] =>
    match intOfString? e, intOfString? n with
    | some e, some n => some ⟨.rsa e n, p == "1", if c == "1" then some [1] else none⟩
    | _, _ => none
  | ["ec", b, x, y, p, c] =>
    match curveBits? b, x.toNat?, y.toNat? with
    | some cv, some x, some y => some ⟨.ec cv x y, p == "1", if c == "1" then some [1] else none⟩
    | _, _, _ => none
  | ["ed", h, p, c] =>
    match ofHex? h with
    | some pk => some ⟨.ed pk, p == "1", if c == "1" then some [1] else none⟩
    | none => none
  | _ => none

def noPrims : Prims := tablePrims 0 0 (some "ORACLE-MISMATCH") [] (.error "ORACLE-MISMATCH") [] (some "ORACLE-MISMATCH")

def step (line : String) : String :=
  match words line with
  | ["rsa.enc", e, n] =>
    match intOfString? e, intOfString? n with
    | some e, some n => toHexTok (PubKey.encode (.rsa e n))
    | _, _ => "bad-op"
  | ["ec.enc", b, x, y] =>
    match curveBits? b, x.toNat?, y.toNat? with
    | some c, some x, some y => toHexTok (PubKey.encode (.ec c x y))
    | _, _, _ => "bad-op"
  | ["ed.enc", h] =>
    match ofHex? h with
    | some pk => toHexTok (PubKey.encode (.ed pk))
    | none => "bad-op"
  | ["rsa.dec", blob, e, n, ans] =>
    match ofHex? blob, intOfString? e, intOfString? n, ans? ans with
    | some b, some e, some n, some a =>
      let P := if ans == "unused" then noPrims else { noPrims with rsaMake := (tablePrims e n a [] (.error "x") [] none).rsaMake }
      showDec (rsaDecode P b)
    | _, _, _, _ => "bad-op"
  | ["ec.dec", blob, pt, ans] =>
    match ofHex? blob, ofHex? pt with
    | some b, some pt =>
      let table : Option (Except String (Nat × Nat)) :=
        match ans.splitOn ":" with
        | ["ok", x, y] => match x.toNat?, y.toNat? with
          | some x, some y => some (.ok (x, y))
          | _, _ => none
        | [cls] => some (.error cls)
        | _ => none
      match table with
      | some t =>
        let P := if ans == "unused" then noPrims else { noPrims with ecPoint := (tablePrims 0 0 none pt t [] none).ecPoint }
        showDec (ecDecode P b)
      | none => "bad-op"
    | _, _ => "bad-op"
  | ["ed.dec", blob, pk, ans] =>
    match ofHex? blob, ofHex? pk, ans? ans with
    | some b, some pk, some a =>
      let P := if ans == "unused" then noPrims else { noPrims with edMake := (tablePrims 0 0 none [] (.error "x") pk a).edMake }
      showDec (edDecode P b)
    | _, _, _ => "bad-op"
  | ["eq", a, b] =>
    match keyDesc? a, keyDesc? b with
    | some a, some b => if keyEq a b then "1" else "0"
    | _, _ => "bad-op"
  | ["write", c, hp, p] =>
    match wcls? c, pass? p with
    | some c, some p => showCall (KeyWrite.writeKey c (hp == "1") p)
    | _, _ => "bad-op"
  | ["writefile", c, hp, p, ex, um] =>
    match wcls? c, pass? p, octal? um, (if ex == "none" then some none else (octal? ex).map some) with
    | some c, some p, some u, some ex =>
      let r := KeyWrite.writeKeyFile c (hp == "1") p ex u
      showCall r.1 ++ " | " ++ (match r.2 with
        | none => "absent"
        | some fa => toOctal fa.mode ++ (if fa.holdsKey then " key" else " nokey"))
    | _, _, _, _ => "bad-op"
  | ["dest", st, um] =>
    let d : Option KeyWrite.Dest :=
      match st.splitOn ":" with
      | ["missing"] => some .missing
      | ["missingparent"] => some .missingParent
      | ["dangling"] => some .danglingSymlink
      | ["directory"] => some .directory
      | ["existing", m] => (octal? m).map .existing
      | ["symlink", m] => (octal? m).map .symlinkTo
      | _ => none
    match d, octal? um with
    | some d, some u =>
      match KeyWrite.openDest d u with
      | .ok (m, created) => "ok " ++ toOctal m ++ (if created then " created" else " kept")
      | .error e => "exc " ++ e.name
    | _, _ => "bad-op"
  | ["mode", ex, um] =>
    match octal? um with
    | some u =>
      if ex == "none" then toOctal (keyFileMode none u)
      else match octal? ex with
        | some m => toOctal (keyFileMode (some m) u)
        | none => "bad-op"
    | none => "bad-op"
  | _ => "bad-op"

def main : IO Unit := lineLoop step
