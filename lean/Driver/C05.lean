/-
  Driver for the negotiation model (tables: PV.Generated.C05.info).  Requests:
    send  <side>                         → ok <prefKex'> <kex> <keys> <cEnc> <sEnc> <cMac> <sMac> <cComp> <sComp>
                                           (the eight lists in wire form) | err <kind>
    parse <side> <8 wire lists> <seqno>  → ok <strict'> <kex> <hostkey> <lcipher> <rcipher> <lmac> <rmac> <lcomp>
                                              <rcomp> <extinfo|none>   | err <kind>
    set   <side> <cat> <list>            → ok|raised <prefKex> <prefKeys> <prefCiphers> <prefMacs> <prefComp>
                                           (SecurityOptions assignment; cat = kex|keys|ciphers|macs|compression)
    first <client list> <server list>    → the Lean *spec* firstCommon: name | none   (configuration-list tokens)
  <side> = role(c|s) moduli(0|1) advertiseStrict(0|1) agreedStrict(0|1) initialKexDone(0|1)
           prefKex prefKeys prefCiphers prefMacs prefComp disKex disKeys disCiphers disMacs disComp serverKeys
  a configuration list is `~` (empty) or the hex of its comma-joined names; a wire list is hex (`-` = empty string).
-/
import PV.Model.Negotiate
import PV.Generated.C05
import PV.Base.DriverIO
open PV PV.Wire PV.Negotiate

def cfgList? (t : String) : Option (List Name) :=
  if t == "~" then some [] else (ofHex? t).map splitComma

def wireList? (t : String) : Option (List Name) := (ofHex? t).map splitComma

def bool? (t : String) : Option Bool :=
  if t == "1" then some true else if t == "0" then some false else none

def showCfg (l : List Name) : String := if l.isEmpty then "~" else toHex (joinComma l)
def showWire (l : List Name) : String := toHexTok (joinComma l)

def side? : List String → Option Side
  | [role, moduli, adv, agreed, initial, pk, pkeys, pc, pm, pz, dk, dkeys, dc, dm, dz, sk] => do
    let serverMode ← if role == "s" then some true else if role == "c" then some false else none
    pure { serverMode := serverMode, hasModuli := ← bool? moduli, advertiseStrict := ← bool? adv,
           agreedStrict := ← bool? agreed, initialKexDone := ← bool? initial,
           prefKex := ← cfgList? pk, prefKeys := ← cfgList? pkeys, prefCiphers := ← cfgList? pc,
           prefMacs := ← cfgList? pm, prefComp := ← cfgList? pz,
           disKex := ← cfgList? dk, disKeys := ← cfgList? dkeys, disCiphers := ← cfgList? dc,
           disMacs := ← cfgList? dm, disComp := ← cfgList? dz, serverKeys := ← cfgList? sk }
  | _ => none

def showErr : Err → String
  | .incompatible => "err incompatible"
  | .messageOrder => "err messageOrder"
  | .valueError => "err valueError"
  | .keyError => "err keyError"

def step (line : String) : String :=
  match words line with
  | "send" :: rest =>
    match side? rest with
    | some s =>
      match sendKexInit PV.Generated.C05.info s with
      | .ok (s1, k) =>
        " ".intercalate (["ok", showCfg s1.prefKex] ++
          [k.kex, k.keys, k.cEnc, k.sEnc, k.cMac, k.sMac, k.cComp, k.sComp].map showWire)
      | .error e => showErr e
    | none => "bad-op"
  | "parse" :: rest =>
    if rest.length != 25 then "bad-op" else
    match side? (rest.take 16), (rest.drop 16).take 8 |>.mapM wireList?, (rest.drop 24).head?.bind String.toNat? with
    | some s, some [a, b, c, d, e, f, g, h], some seqno =>
      let p : KexInit := { kex := a, keys := b, cEnc := c, sEnc := d, cMac := e, sMac := f, cComp := g, sComp := h }
      match parseKexInit PV.Generated.C05.info s p seqno with
      | .ok (s1, r) =>
        " ".intercalate (["ok", if s1.agreedStrict then "1" else "0"] ++
          [r.kex, r.hostKey, r.localCipher, r.remoteCipher, r.localMac, r.remoteMac, r.localComp, r.remoteComp].map toHexTok
          ++ [match r.remoteExtInfo with | some x => toHexTok x | none => "none"])
      | .error e => showErr e
    | _, _, _ => "bad-op"
  | "set" :: rest =>
    if rest.length != 18 then "bad-op" else
    let cat? : Option Cat := match (rest.drop 16).head? with
      | some "kex" => some .kex | some "keys" => some .keys | some "ciphers" => some .ciphers
      | some "macs" => some .macs | some "compression" => some .compression | _ => none
    match side? (rest.take 16), cat?, (rest.drop 17).head?.bind cfgList? with
    | some s, some c, some x =>
      let r := setPref PV.Generated.C05.info s c x
      " ".intercalate ([if r.2 then "raised" else "ok"] ++
        [r.1.prefKex, r.1.prefKeys, r.1.prefCiphers, r.1.prefMacs, r.1.prefComp].map showCfg)
    | _, _, _ => "bad-op"
  | ["first", c, s] =>
    match cfgList? c, cfgList? s with
    | some c, some s => match firstCommon c s with | some x => toHexTok x | none => "none"
    | _, _ => "bad-op"
  | _ => "bad-op"

def main : IO Unit := lineLoop step
