/-
  Driver for the SFTP client bookkeeping model (stateful).  Requests:
    init <maxReq> <nfiles> <wfaults csv|-> <sfaults csv|->     → ok
    op write <f> <hex> | op sync | op close <f> | op pipe <f> <0|1> | op serve <k> | op deliver <k>
        → <ok|raised:<code>|hang> exp=<n> wire=<n> f<i>=<len reqs>:<saved code|->:<pos>:<closed 0|1> …
    dest                                                        → hex;hex;…
    bad                                                         → badSince, comma separated
    getfo|get <hex remote> <maxReq> <chunk> <stat code> <open code> <plan d<k>,f<c>,x0(=hang up),…|-> <size reported by STAT>
        → ok <hex local> | raised:<code> | fuel           (sequential model PV/Model/SftpGet.lean)
-/
import PV.Model.SftpClient
import PV.Model.SftpGet
import PV.Base.DriverIO
open PV PV.SftpClient

def parseCsv (s : String) : Option (List Nat) :=
  if s == "-" then some [] else (s.splitOn ",").mapM (·.toNat?)

def parseOp : List String → Option Op
  | ["write", f, hex] => match f.toNat?, ofHex? hex with
    | some i, some b => some (.write i b)
    | _, _ => none
  | ["sync"] => some .sync
  | ["close", f] => f.toNat?.map .close
  | ["pipe", f, b] => match f.toNat? with
    | some i => if b == "1" then some (.setPipelined i true) else if b == "0" then some (.setPipelined i false) else none
    | none => none
  | ["serve", k] => k.toNat?.map .serve
  | ["deliver", k] => k.toNat?.map .deliver
  | _ => none

def showRes : Res → String
  | .ok => "ok"
  | .raised c => s!"raised:{c}"
  | .hang => "hang"

def showSt (s : St) : String :=
  let fs := (List.range s.files.length).map fun i =>
    let f := getFile s i
    s!"f{i}={f.reqs.length}:" ++ (match f.saved with | some c => toString c | none => "-") ++ s!":{f.pos}:" ++
      (if f.closed then "1" else "0")
  s!"exp={s.expecting.length} wire={s.wire.length} " ++ " ".intercalate fs

def parseOut (t : String) : Option SftpGet.RdOut :=
  if t.startsWith "d" then (t.drop 1).toNat?.map .data
  else if t.startsWith "f" then (t.drop 1).toNat?.map .fail
  else if t == "x0" then some .drop
  else none

def parsePlan (s : String) : Option (List SftpGet.RdOut) :=
  if s == "-" then some [] else (s.splitOn ",").mapM parseOut

def showGet : SftpGet.Res → String
  | .ok b => "ok " ++ toHexTok b
  | .raised c => s!"raised:{c}"
  | .fuel => "fuel"

def stepLine (st : Option St) (line : String) : Option St × String :=
  match words line, st with
  | ["init", m, n, wf, sf], _ =>
    match m.toNat?, n.toNat?, parseCsv wf, parseCsv sf with
    | some mr, some nf, some w, some s => (some (init mr nf w s), "ok")
    | _, _, _, _ => (st, "bad-op")
  | "op" :: rest, some s =>
    match parseOp rest with
    | none => (st, "bad-op")
    | some op =>
      let (s', r) := stepOp s op
      (some s', showRes r ++ " " ++ showSt s')
  | [mode, hex, m, ch, sc, oc, plan, rep], _ =>
    if mode == "getfo" || mode == "get" then
      match ofHex? hex, m.toNat?, ch.toNat?, sc.toNat?, oc.toNat?, parsePlan plan, rep.toNat? with
      | some r, some mr, some c, some a, some b, some pl, some rp =>
        (st, showGet (if mode == "get" then SftpGet.get r mr c a b pl 100000 rp else SftpGet.getfo r mr c a b pl 100000 rp))
      | _, _, _, _, _, _, _ => (st, "bad-op")
    else (st, "bad-op")
  | ["dest"], some s => (st, ";".intercalate (s.dest.map toHexTok))
  | ["bad"], some s => (st, ",".intercalate (s.badSince.map toString))
  | _, _ => (st, "bad-op")

def main : IO Unit := lineLoopSt (none : Option St) stepLine
