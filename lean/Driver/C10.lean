/-
  Driver for the rekey bookkeeping model (C10).  One request = one whole trace:
    run <rp> <rb> <op> <ob> <ops…>     ops: s<len> r<len> o (set_outbound) i (set_inbound) t (loop top) k (peer KEXINIT)
    readall <need 0/1> <check_rekey 0/1> <n> <events: d<k> | t | e (EAGAIN) …>   → ok <events used> | rekey <bytes lost> | eof <bytes got>
    comp <none|zlib|delayed> <o (NEWKEYS sent) | i (NEWKEYS received) | a (_auth_trigger) …>
        → <installsOut> <installsIn> <compOutGen|-> <compInGen|-> <outGen> <inGen>
  reply of run: one character per op (0 nothing pending, 1 rekey requested, E overflow error raised; ops after an
  error are not executed and print E), then
  <sentP> <sentB> <recvP> <recvB> <ovP> <ovB> <initCount> <inKex> <kexInits>
-/
import PV.Model.Rekey
import PV.Base.DriverIO
open PV PV.Rekey

def parseOp (t : String) : Option Op :=
  if t == "o" then some .setOut else if t == "i" then some .setIn
  else if t == "t" then some .loopTop else if t == "k" then some .peerKexInit
  else if t.startsWith "s" then (t.drop 1).toNat?.map .send
  else if t.startsWith "r" then (t.drop 1).toNat?.map .recv
  else none

def flag (s : St) : Char := if s.err then 'E' else if s.needRekey then '1' else '0'

def runTrace (L : Limits) (ops : List Op) : String :=
  let (s, fl) := ops.foldl (fun (acc : St × List Char) o => let s' := stepE L acc.1 o; (s', flag s' :: acc.2)) ({}, [])
  let b := fun (x : Bool) => if x then "1" else "0"
  s!"{String.ofList fl.reverse} {s.sentPackets} {s.sentBytes} {s.recvPackets} {s.recvBytes} {s.ovPackets} {s.ovBytes} {s.initCount} {b s.inKex} {s.kexInits}"

def parseEv (t : String) : Option SockEv :=
  if t == "t" then some .timeout else if t == "e" then some .eagain else if t.startsWith "d" then (t.drop 1).toNat?.map .data else none

def showRead : ReadResult → String
  | .ok u => s!"ok {u}"
  | .needRekey l => s!"rekey {l}"
  | .eof g => s!"eof {g}"

def parseCOp : String → Option COp
  | "o" => some .newkeysOut | "i" => some .newkeysIn | "a" => some .auth | _ => none

def parseComp : String → Option Comp
  | "none" => some .none | "zlib" => some .zlib | "delayed" => some .delayed | _ => none

def showOpt : Option Nat → String
  | none => "-" | some n => toString n

def stepLine (line : String) : String :=
  match words line with
  | "comp" :: c :: ops =>
    match parseComp c, ops.mapM parseCOp with
    | some c, some ops =>
      let s := crun { comp := c } ops
      s!"{s.installsOut} {s.installsIn} {showOpt s.compOutGen} {showOpt s.compInGen} {s.outGen} {s.inGen}"
    | _, _ => "bad-op"
  | "readall" :: need :: check :: n :: evs =>
    match need.toNat?, check.toNat?, n.toNat?, evs.mapM parseEv with
    | some need, some check, some n, some evs => showRead (readAll (need == 1) (check == 1) n 0 0 evs)
    | _, _, _, _ => "bad-op"
  | "run" :: rp :: rb :: op :: ob :: ops =>
    match rp.toNat?, rb.toNat?, op.toNat?, ob.toNat?, ops.mapM parseOp with
    | some rp, some rb, some op, some ob, some ops => runTrace ⟨rp, rb, op, ob⟩ ops
    | _, _, _, _, _ => "bad-op"
  | _ => "bad-op"

def main : IO Unit := lineLoop stepLine
