/-
  Driver for the private-key container model.  Answers of the third-party calls are recorded from the
  real run and passed in (`unused` = the real code never made the call).  Requests:
    unpad <hex>                                            → ok <hex> | exc SSHException
    ossh <rsa|ec> <pw|none> <container> <kdf> <dec> <key>  → ok | exc <Class>      (legacy.ossh / legacy.ed: before the last two fixes)
         kdf = unused | ValueError | <hex>     dec = unused | ValueError | <hex>     key = unused | ok | fail
    ed <pw|none> <container> <kdf> <dec> <seeds>           → ok <seed> <verifykey> | exc <Class>
         seeds = - | <seed>:<vk or ValueError>,…
    pem <rsa|ec> <proc|none> <dek|none> <body> <pw|none> <dec> <der>   → ok | exc <Class>
         der = unused | 0 | 1 | 2 | 3 | <Class>
    text <rsa|ec|ed> <pw|none> <lines> <b64> <kdf> <dec> <key> <seeds> <der>   → ok | exc <Class>
         lines = none | <line>,<line>,…   line = code points in decimal joined by `.`   b64 = unused | Error | <hex>
    witness <aead|nonutf8>                                 → container of the `*_witness` theorem
  passphrases: hex, `-` = empty, `none` = None.
-/
import PV.Props.C37
import PV.Base.DriverIO
open PV PV.PKeyFile

def clsOf (s : String) : Cls :=
  if s == "ValueError" then .valueError else if s == "UnicodeDecodeError" then .unicodeDecodeError
  else if s == "KeyError" then .keyError else if s == "SSHException" then .sshException else .other s

def ansBytes? (s : String) : Option (M Bytes) :=
  if s == "unused" then some (.error (.other "ORACLE-UNUSED"))
  else match ofHex? s with
    | some b => some (.ok b)
    | none => some (.error (clsOf s))

def pw? (s : String) : Option (Option Bytes) :=
  if s == "none" then some none else (ofHex? s).map some

def seedTable (s : String) : Option (List (Bytes × M Bytes)) :=
  if s == "-" then some [] else
  (s.splitOn ",").mapM fun item =>
    match item.splitOn ":" with
    | [a, b] =>
      match ofHex? a with
      | some seed => match ofHex? b with
        | some vk => some (seed, .ok vk)
        | none => some (seed, .error (clsOf b))
      | none => none
    | _ => none

def mkPrims (kdf dec : M Bytes) (key : M Unit) (seeds : List (Bytes × M Bytes)) (der : M Nat) : Prims where
  kdf := fun _ _ _ _ => kdf
  decrypt := fun _ _ _ _ _ => dec
  md5kdf := fun _ _ n => zeros n
  rsaPriv := fun _ => key
  ecDerive := fun _ _ => key
  edSeed := fun s => match seeds.find? (fun e => e.1 == s) with
    | some e => e.2
    | none => .error (.other "ORACLE-MISMATCH")
  loadDer := fun _ => der

def keyAns (s : String) : M Unit := if s == "ok" then .ok () else .error (.other "fail")

def showUnit : M Unit → String
  | .ok _ => "ok"
  | .error c => "exc " ++ c.name

def kind? (s : String) : Option PKeyFile.Kind :=
  if s == "rsa" then some .rsa else if s == "ec" then some .ec else none

def opt? (s : String) : Option (Option Bytes) :=
  if s == "none" then some none else (ofHex? s).map some

def step (line : String) : String :=
  match words line with
  | ["unpad", h] =>
    match ofHex? h with
    | some b => match unpadOpenssh b with
      | .ok r => "ok " ++ toHexTok r
      | .error c => "exc " ++ c.name
    | none => "bad-op"
  | [op, k, pw, data, kdf, dec, key] =>
    match kind? k, pw? pw, ofHex? data, ansBytes? kdf, ansBytes? dec with
    | some k, some pw, some d, some kdf, some dec =>
      if op != "ossh" && op != "legacy.ossh" then "bad-op" else
      showUnit (loadOpenssh (op == "legacy.ossh") (mkPrims kdf dec (keyAns key) [] (.error (.other "x"))) k d pw)
    | _, _, _, _, _ => "bad-op"
  | [op, pw, data, kdf, dec, seeds] =>
    match pw? pw, ofHex? data, ansBytes? kdf, ansBytes? dec, seedTable seeds with
    | some pw, some d, some kdf, some dec, some st =>
      if op != "ed" && op != "legacy.ed" then "bad-op" else
      match loadEd (op == "legacy.ed") (mkPrims kdf dec (.ok ()) st (.error (.other "x"))) d pw with
      | .ok (seed, vk) => "ok " ++ toHexTok seed ++ " " ++ toHexTok vk
      | .error c => "exc " ++ c.name
    | _, _, _, _, _ => "bad-op"
  | ["pem", k, proc, dek, body, pw, dec, der] =>
    match kind? k, opt? proc, opt? dek, ofHex? body, pw? pw, ansBytes? dec with
    | some k, some proc, some dek, some body, some pw, some dec =>
      let derAns : M Nat :=
        if der == "unused" then .error (.other "ORACLE-UNUSED")
        else match der.toNat? with
          | some n => .ok n
          | none => .error (clsOf der)
      showUnit (loadPem (mkPrims (.error (.other "x")) dec (.ok ()) [] derAns) k proc dek body pw)
    | _, _, _, _, _, _ => "bad-op"
  | ["text", k, pw, lines, b64, kdf, dec, key, seeds, der] =>
    let kind : Option PKeyFile.Kind := if k == "ed" then some .ed else kind? k
    let ls : Option (List PKeyText.Line) :=
      if lines == "none" then some []
      else (lines.splitOn ",").mapM fun l => if l == "-" then some [] else (l.splitOn ".").mapM String.toNat?
    match kind, pw? pw, ls, ansBytes? kdf, ansBytes? dec, seedTable seeds with
    | some kind, some pw, some ls, some kdf, some dec, some st =>
      let derAns : M Nat :=
        if der == "unused" then .error (.other "ORACLE-UNUSED")
        else match der.toNat? with
          | some n => .ok n
          | none => .error (clsOf der)
      let b64Ans : M Bytes :=
        if b64 == "unused" then .error (.other "ORACLE-UNUSED")
        else if b64 == "Error" then .error .binasciiError
        else match ofHex? b64 with
          | some b => .ok b
          | none => .error (clsOf b64)
      let T : PKeyText.TextPrims := { toPrims := mkPrims kdf dec (keyAns key) st derAns, b64 := fun _ => b64Ans }
      showUnit (PKeyText.loadText T kind ls pw)
    | _, _, _, _, _, _ => "bad-op"
  | ["witness", w] =>
    if w == "aead" then toHexTok PV.Props.C37.aeadCipherFile
    else if w == "nonutf8" then toHexTok PV.Props.C37.nonUtf8CipherFile
    else "bad-op"
  | _ => "bad-op"

def main : IO Unit := lineLoop step
