/-
  Driver for the ModulusPack / KexGex-clamp model.  Requests (ints in decimal, text as hex of its ASCII bytes,
  `-` = empty; roll = k meaning `_roll_random(n) = k % n`):
    parse <line hex>                                   → raise | added <bl> <g> <p> | disc basic|bitlen <p>
    file <min> <prefer> <max> <roll> <text hex>        → <pack dump> # <ndiscarded> | ok <g> <p> / err nomoduli
    getp <min> <prefer> <max> <roll> <dict>            → ok <g> <p> / err nomoduli     (dict: bl:g.p,g.p;bl:… | -)
    seq <dict> <min>,<prefer>,<max>,<roll>;…           → answers of successive get_modulus calls on ONE pack, joined by " | "
    gex <a> <b> <c>                                    → <min> <prefer> <max> handed to get_modulus
    gexold <b>                                         → <min> <prefer> <max>
    kex <a> <b> <c> <roll> <dict>  /  kexold <b> <roll> <dict>  → ok <g> <p> / err nomoduli
-/
import PV.Model.Primes
import PV.Base.DriverIO
open PV PV.Primes

def textOfHex (t : String) : Option (List Char) :=
  (ofHex? t).map fun b => b.map fun x => Char.ofNat x.toNat

def splitLines (s : List Char) : List (List Char) :=
  go s [] []
where
  go : List Char → List Char → List (List Char) → List (List Char)
    | [], cur, acc => (cur.reverse :: acc).reverse
    | c :: cs, cur, acc => if c == '\n' then go cs [] (cur.reverse :: acc) else go cs (c :: cur) acc

def showDict (d : PackDict) : String :=
  if d.isEmpty then "-" else
  ";".intercalate (d.map fun (k, l) =>
    toString k ++ ":" ++ ",".intercalate (l.map fun (g, p) => toString g ++ "." ++ toString p))

def parseGroup (t : String) : Option Group :=
  match t.splitOn "." with
  | [g, p] => match intOfString? g, intOfString? p with
    | some g, some p => some (g, p)
    | _, _ => none
  | _ => none

def parseDict (t : String) : Option PackDict :=
  if t == "-" then some [] else
  (t.splitOn ";").mapM fun e =>
    match e.splitOn ":" with
    | [k, l] => match k.toNat?, (l.splitOn ",").mapM parseGroup with
      | some k, some l => some (k, l)
      | _, _ => none
    | _ => none

def showRes : Except Err Group → String
  | .ok (g, p) => "ok " ++ toString g ++ " " ++ toString p
  | .error .noModuli => "err nomoduli"
  | .error .internal => "err internal"

def step (line : String) : String :=
  match words line with
  | ["parse", l] =>
    match textOfHex l with
    | some l =>
      match parseFields l with
      | none => "raise"
      | some f =>
        match classify f with
        | .added bl g p => "added " ++ toString bl ++ " " ++ toString g ++ " " ++ toString p
        | .discarded p .basic => "disc basic " ++ toString p
        | .discarded p .bitlen => "disc bitlen " ++ toString p
    | none => "bad-op"
  | ["file", mn, pf, mx, k, text] =>
    match intOfString? mn, intOfString? pf, intOfString? mx, k.toNat?, textOfHex text with
    | some mn, some pf, some mx, some k, some text =>
      let p := Pack.empty.readFile (splitLines text)
      showDict p.pack ++ " # " ++ toString p.discarded.length ++ " | " ++
        showRes (p.getModulus (fun n => k % n) mn pf mx)
    | _, _, _, _, _ => "bad-op"
  | ["getp", mn, pf, mx, k, d] =>
    match intOfString? mn, intOfString? pf, intOfString? mx, k.toNat?, parseDict d with
    | some mn, some pf, some mx, some k, some d =>
      showRes (Pack.getModulus (fun n => k % n) { pack := d, discarded := [] } mn pf mx)
    | _, _, _, _, _ => "bad-op"
  | ["seq", d, rs] =>
    let parseReq (t : String) : Option Request :=
      match t.splitOn "," with
      | [a, b, c, k] => match intOfString? a, intOfString? b, intOfString? c, k.toNat? with
        | some a, some b, some c, some k => some (a, b, c, k)
        | _, _, _, _ => none
      | _ => none
    match parseDict d, (rs.splitOn ";").mapM parseReq with
    | some d, some reqs =>
      " | ".intercalate ((Pack.getSession { pack := d, discarded := [] } reqs).2.map showRes)
    | _, _ => "bad-op"
  | ["gex", a, b, c] =>
    match intOfString? a, intOfString? b, intOfString? c with
    | some a, some b, some c =>
      let t := gexTriple a b c
      toString t.1 ++ " " ++ toString t.2.1 ++ " " ++ toString t.2.2
    | _, _, _ => "bad-op"
  | ["gexold", b] =>
    match intOfString? b with
    | some b =>
      let t := gexTripleOld b
      toString t.1 ++ " " ++ toString t.2.1 ++ " " ++ toString t.2.2
    | none => "bad-op"
  | ["kex", a, b, c, k, d] =>
    match intOfString? a, intOfString? b, intOfString? c, k.toNat?, parseDict d with
    | some a, some b, some c, some k, some d =>
      showRes (Pack.gexRequest (fun n => k % n) { pack := d, discarded := [] } a b c)
    | _, _, _, _, _ => "bad-op"
  | ["kexold", b, k, d] =>
    match intOfString? b, k.toNat?, parseDict d with
    | some b, some k, some d =>
      showRes (Pack.gexRequestOld (fun n => k % n) { pack := d, discarded := [] } b)
    | _, _, _ => "bad-op"
  | _ => "bad-op"

def main : IO Unit := lineLoop step
