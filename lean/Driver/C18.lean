/-
  Driver for the ClientRefuse model.  One request = one history:
    hist <ev>…   ev = x11:0|1 | pty:0|1 | nowait:0|1 | agent | fwd:0|1 | fwdz:0|1 | cancel | g:<kindhex>:<0|1> | o:<kindhex>:<chanid> | r:<keyhex>:<0|1>
    → replies joined by ',' : - | rf | rs | of:<chanid>:<reason> | os:<chanid> | cf | cs   (one per event)
-/
import PV.Model.ClientRefuse
import PV.Base.DriverIO
open PV PV.ClientRefuse

def parseB (v : String) : Option Bool := if v == "1" then some true else if v == "0" then some false else none

def parseEv (t : String) : Option Event :=
  match t.splitOn ":" with
  | ["x11", g] => (parseB g).map fun b => .act (.requestX11 b)      -- 1 only if the server answered CHANNEL_SUCCESS
  | ["pty", g] => (parseB g).map fun b => .act (.otherRequest b)
  | ["nowait", g] => (parseB g).map fun b => .act (.otherRequest b)   -- un-waited global request (keepalive)
  | ["agent"] => some (.act .requestForwardAgent)
  | ["fwd", g] => (parseB g).map fun b => .act (.requestPortForward b)
  | ["fwdz", g] => (parseB g).map fun b => .act (.requestPortForward b)   -- port 0: the server allocates the port
  | ["cancel"] => some (.act .cancelPortForward)
  | ["g", k, w] => do let kb ← ofHex? k; let wb ← parseB w; pure (.msg (.globalRequest kb wb))
  | ["o", k, c] => do let kb ← ofHex? k; let n ← c.toNat?; pure (.msg (.channelOpen kb n))
  | ["r", k, w] => do let kb ← ofHex? k; let wb ← parseB w; pure (.msg (.channelRequest kb wb))
  | _ => none

def showReply : Reply → String
  | .none => "-" | .requestFailure => "rf" | .requestSuccess => "rs"
  | .openFailure c r => "of:" ++ toString c ++ ":" ++ toString r
  | .openSuccess c => "os:" ++ toString c
  | .channelFailure => "cf" | .channelSuccess => "cs"

def stepLine (line : String) : String :=
  match words line with
  | "hist" :: evs =>
    match evs.mapM parseEv with
    | some es => ",".intercalate ((run init es).2.map showReply)
    | none => "bad-op"
  | _ => "bad-op"

def main : IO Unit := lineLoop stepLine
