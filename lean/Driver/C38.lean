/-
  Driver: obs <wrap|old> <api> <ssh|eof|sock|int>  → ssh | eof | sock | int | none
-/
import PV.Model.Surface
import PV.Base.DriverIO
open PV PV.Surface

def parseApi : String → Option Api
  | "get_exception" => some .getException | "start_client" => some .startClient
  | "open_channel" => some .openChannel | "renegotiate" => some .renegotiate
  | "auth_wait" => some .authWait | "channel_request" => some .channelRequest | _ => none
def parseExc : String → Option Exc
  | "ssh" => some .ssh | "eof" => some .eof | "sock" => some .sock | "int" => some (.internal 0) | _ => none
def showExc : Option Exc → String
  | none => "none" | some .ssh => "ssh" | some .eof => "eof" | some .sock => "sock" | some (.internal _) => "int"

def stepLine (line : String) : String :=
  match words line with
  | ["obs", w, api, e] =>
    match (if w == "wrap" then some true else if w == "old" then some false else none), parseApi api, parseExc e with
    | some wr, some a, some x => showExc (observed wr a x)
    | _, _, _ => "bad-op"
  | _ => "bad-op"

def main : IO Unit := lineLoop stepLine
