/- Driver for the AuthServer model (line protocol: PV/Model/AuthServerDriver.lean). -/
import PV.Model.AuthServerDriver
open PV PV.AuthServer

def main : IO Unit := lineLoopSt ({} : DSt) driverStep
