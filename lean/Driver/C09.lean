/-
  Driver for the run-loop model during key exchanges (C09): replays what one transport received.
    init <server> <srt> <advertiseStrict> <serverSigAlgs>
    recv <ptype> <names: hex,hex,…|-> <kex: malformed|incompatible|dh|ecdh|gex|gexold|-> <engineOk> <needRekey> <handlerSends|->
    rekey
    seqin <n>            (preset the inbound sequence number, as after n earlier packets)
  every reply: <active> <err> <done> <agreedStrict> <seqIn> <seqOut> <expected> <sent by this step: type:seqno:arg,…>
-/
import PV.Model.RunLoopIO
import PV.Generated.C12
open PV PV.RunLoop

def parseNames (s : String) : Option (List String) :=
  if s == "-" then some [] else
    (s.splitOn ",").mapM fun h => (ofHex? h).bind fun b => String.fromUTF8? (ByteArray.mk b.toArray)

def parseKex (server : Bool) : String → Option KexParse
  | "malformed" => some .malformed
  | "incompatible" | "-" => some .incompatible
  | k => (parseKexKind k).map fun kk => .ok (engineOf kk server)

def summary (old s : St) : String :=
  s!"{showBool s.active} {showErr s.err} {showBool s.initialKexDone} {showBool s.agreedStrict} {s.seqIn} {s.seqOut} {showNatList s.expected} {showSent (s.tx.drop old.tx.length)}"

def stepLine (s : St) (line : String) : St × String :=
  match words line with
  | ["init", sv, srt, adv, sig] =>
    match parseBool sv, parseBool srt, parseBool adv, parseBool sig with
    | some sv, some srt, some adv, some sig =>
      let s' := init sv srt adv sig
      (s', summary { s' with tx := [] } s')
    | _, _, _, _ => (s, "bad-op")
  | ["recv", pt, names, kex, ok, nr, hs] =>
    match pt.toNat?, parseNames names, parseKex s.server kex, parseBool ok, parseBool nr, parseNatList hs with
    | some pt, some names, some kex, some ok, some nr, some hs =>
      let x : Ext := { kexNames := names, kex := kex, engineOk := ok, needRekey := nr, handler := { sends := hs } }
      let s' := step Generated.C12.tables s (.recv pt [] x)
      (s', summary s s')
    | _, _, _, _, _, _ => (s, "bad-op")
  | ["seqin", n] =>
    match n.toNat? with
    | some n => let s' := { s with seqIn := n }; (s', summary s s')
    | none => (s, "bad-op")
  | ["rekey"] => let s' := step Generated.C12.tables s .rekey; (s', summary s s')
  | _ => (s, "bad-op")

def main : IO Unit := lineLoopSt (init false false true true) stepLine
