/-
  Driver for the attribute-change model.  Requests:
    calls <hex of the attribute block>      → the OS calls `set_file_attr` makes | err:type
    op chmod <mode> | op chown <uid> <gid> | op utime <atime> <mtime> | op truncate <size>
                                            → <hex of the client's attribute block> | <calls>   (or err:range)
    trunc <hex contents> <n>                → hex of the contents after truncate(n)
    path <hex cwd | none> <hex path>        → hex of the path a by-path request carries (`_adjust_cwd`) | hex of the
                                              server's canonical form of it
    prog <append 0|1> <bufsize> <hex file> <pos at open> <op>…   with ops  w:<hex>  t:<n>  a  c
                                            → <requests on the wire: W:<off>:<len> T:<n> A, or -> | <hex served file>
                                              | <bytes still pending>      (open SFTPFile with write buffering)
  calls are printed as `chmod:<m>`, `chown:<u>:<g>`, `utime:<a>:<t>`, `truncate:<n>`, space separated, `-` if none.
-/
import PV.Model.SetAttr
import PV.Model.Canon
import PV.Model.HandleProg
import PV.Base.DriverIO
open PV PV.Wire PV.SftpAttr PV.SetAttr

def showCall : Call → String
  | .chmod m => s!"chmod:{m}"
  | .chown u g => s!"chown:{u}:{g}"
  | .utime a t => s!"utime:{a}:{t}"
  | .truncate n => s!"truncate:{n}"

def showCalls : Except Err (List Call) → String
  | .ok [] => "-"
  | .ok cs => " ".intercalate (cs.map showCall)
  | .error .range => "err:range"
  | .error .type => "err:type"

def parseOp : List String → Option Op
  | ["chmod", m] => m.toNat?.map .chmod
  | ["chown", u, g] => match u.toNat?, g.toNat? with | some u, some g => some (.chown u g) | _, _ => none
  | ["utime", a, t] => match a.toNat?, t.toNat? with | some a, some t => some (.utime a t) | _, _ => none
  | ["truncate", n] => n.toNat?.map .truncate
  | _ => none

def parseHOp (t : String) : Option PV.HandleProg.Op :=
  if t == "a" then some .attr else if t == "c" then some .close else
  match t.splitOn ":" with
  | ["w", h] => (ofHex? h).map .write
  | ["t", n] => n.toNat?.map .truncate
  | _ => none

def showEv : PV.HandleProg.Ev → String
  | .W o l => s!"W:{o}:{l}"
  | .T n => s!"T:{n}"
  | .A => "A"

def step (line : String) : String :=
  match words line with
  | ["calls", hex] =>
    match ofHex? hex with
    | some b => showCalls (serverCalls b)
    | none => "bad-op"
  | "op" :: rest =>
    match parseOp rest with
    | some op =>
      match pack op.attrs with
      | .ok w => toHexTok w ++ " | " ++ showCalls (endToEnd op)
      | .error .range => "err:range"
      | .error .type => "err:type"
    | none => "bad-op"
  | ["path", cwd, hex] =>
    match (if cwd == "none" then some none else (ofHex? cwd).map some), ofHex? hex with
    | some c, some p =>
      let q := adjustCwd c p
      toHexTok q ++ " | " ++ toHexTok (PV.Canon.canonicalize q)
    | _, _ => "bad-op"
  | "prog" :: ap :: bufsize :: file :: p0 :: ops =>
    match (if ap == "1" then some true else if ap == "0" then some false else none), bufsize.toNat?, ofHex? file,
        p0.toNat?, ops.mapM parseHOp with
    | some ap, some b, some f, some p, some ops =>
      if b = 1 then "bad-op" else   -- line buffering is not modelled
      let (s, ev) := PV.HandleProg.run { file := f, realpos := p, wbuf := [], append := ap, bufsize := b } ops
      (if ev.isEmpty then "-" else " ".intercalate (ev.map showEv)) ++ " | " ++ toHexTok s.file ++ " | "
        ++ toString s.wbuf.length
    | _, _, _, _, _ => "bad-op"
  | ["trunc", hex, n] =>
    match ofHex? hex, n.toNat? with
    | some c, some n => toHexTok (truncated c n)
    | _, _ => "bad-op"
  | _ => "bad-op"

def main : IO Unit := lineLoop step
