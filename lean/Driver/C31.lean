/-
  Driver for the attribute-change model.  Requests:
    calls <hex of the attribute block>      → the OS calls `set_file_attr` makes | err:type
    op chmod <mode> | op chown <uid> <gid> | op utime <atime> <mtime> | op truncate <size>
                                            → <hex of the client's attribute block> | <calls>   (or err:range)
    trunc <hex contents> <n>                → hex of the contents after truncate(n)
    path <hex cwd | none> <hex path>        → hex of the path a by-path request carries (`_adjust_cwd`) | hex of the
                                              server's canonical form of it
  calls are printed as `chmod:<m>`, `chown:<u>:<g>`, `utime:<a>:<t>`, `truncate:<n>`, space separated, `-` if none.
-/
import PV.Model.SetAttr
import PV.Model.Canon
import PV.Base.DriverIO
open PV PV.Wire PV.SftpAttr PV.SetAttr

def showCall : Call → String
  | .chmod m => s!"chmod:{m}"
  | .chown u g => s!"chown:{u}:{g}"
  | .utime a t => s!"utime:{a}:{t}"
  | .truncate n => s!"truncate:{n}"

def showCalls : Except Err (List Call) → String
  | .ok [] => "-"
  | .ok cs => " ".intercalate (cs.map showCall)
  | .error .range => "err:range"
  | .error .type => "err:type"

def parseOp : List String → Option Op
  | ["chmod", m] => m.toNat?.map .chmod
  | ["chown", u, g] => match u.toNat?, g.toNat? with | some u, some g => some (.chown u g) | _, _ => none
  | ["utime", a, t] => match a.toNat?, t.toNat? with | some a, some t => some (.utime a t) | _, _ => none
  | ["truncate", n] => n.toNat?.map .truncate
  | _ => none

def step (line : String) : String :=
  match words line with
  | ["calls", hex] =>
    match ofHex? hex with
    | some b => showCalls (serverCalls b)
    | none => "bad-op"
  | "op" :: rest =>
    match parseOp rest with
    | some op =>
      match pack op.attrs with
      | .ok w => toHexTok w ++ " | " ++ showCalls (endToEnd op)
      | .error .range => "err:range"
      | .error .type => "err:type"
    | none => "bad-op"
  | ["path", cwd, hex] =>
    match (if cwd == "none" then some none else (ofHex? cwd).map some), ofHex? hex with
    | some c, some p =>
      let q := adjustCwd c p
      toHexTok q ++ " | " ++ toHexTok (PV.Canon.canonicalize q)
    | _, _ => "bad-op"
  | ["trunc", hex, n] =>
    match ofHex? hex, n.toNat? with
    | some c, some n => toHexTok (truncated c n)
    | _, _ => "bad-op"
  | _ => "bad-op"

def main : IO Unit := lineLoop step
