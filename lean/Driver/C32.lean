/-
  Driver for the check-file model (stateful).  Requests:
    known <name,name,…>        set the server's `_hash_class` keys                          → ok
    file <size> <seed>         current file := pattern bytes (see `pattern`)  → ok
    hexfile <hex>              current file := explicit bytes                                → ok
    policy <k>                 read policy: k = 0 full reads, else at most 1 + (off*7 + n*13 + k*101) % (k*997) bytes → ok
    check <name,name,…> <start> <length> <block>
                               → hashes <alg> <hex> | too-small | no-alg | no-fuel   (hash = the toy hash)
-/
import PV.Model.CheckFile
import PV.Base.DriverIO
open PV PV.CheckFile

structure St where
  known : List Bytes
  content : Bytes
  k : Nat

def pattern (size seed : Nat) : Bytes :=
  (List.range size).map fun i =>
    let x := (i * 2654435761 + seed * 40503 + 12345) % 4294967296
    let y := ((x ^^^ (x >>> 15)) * 2246822519) % 4294967296
    UInt8.ofNat ((y >>> 24) % 256)

def policy (k : Nat) (off n : Nat) : Nat :=
  if k = 0 then n else 1 + (off * 7 + n * 13 + k * 101) % (k * 997)

def names (s : String) : List Bytes := (s.splitOn ",").map fun x => x.toUTF8.toList

def step (st : St) (line : String) : St × String :=
  match words line with
  | ["known", l] => ({ st with known := names l }, "ok")
  | ["file", size, seed] =>
    match size.toNat?, seed.toNat? with
    | some n, some s => ({ st with content := pattern n s }, "ok")
    | _, _ => (st, "bad-op")
  | ["hexfile", hex] =>
    match ofHex? hex with
    | some b => ({ st with content := b }, "ok")
    | none => (st, "bad-op")
  | ["policy", k] =>
    match k.toNat? with
    | some k => ({ st with k := k }, "ok")
    | none => (st, "bad-op")
  | ["check", algs, start, length, bs] =>
    match start.toNat?, length.toNat?, bs.toNat? with
    | some s, some l, some b =>
      match selectAlg st.known (names algs) with
      | none => (st, "no-alg")
      | some a =>
        match checkFile toyAlg { content := st.content, short := policy st.k } s l b with
        | .hashes h => (st, "hashes " ++ String.ofList (a.map fun c => Char.ofNat c.toNat) ++ " " ++ toHexTok h)
        | .tooSmall => (st, "too-small")
        | .noFuel => (st, "no-fuel")
    | _, _, _ => (st, "bad-op")
  | _ => (st, "bad-op")

def main : IO Unit := lineLoopSt ({ known := [], content := [], k := 0 } : St) step
