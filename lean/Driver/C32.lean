/-
  Driver for the check-file model (stateful).  Requests:
    known <name,name,…>        set the server's `_hash_class` keys                          → ok
    file <size> <seed>         current file := pattern bytes (see `pattern`)  → ok
    hexfile <hex>              current file := explicit bytes                                → ok
    policy <k>                 read policy: k = 0 full reads, else at most 1 + (off*7 + n*13 + k*101) % (k*997) bytes → ok
    fault <T|-> <code>         reads at offsets >= T return the error code instead of bytes (`-` = never) → ok
    statfail <code|->          the handle's stat() returns the error code                    → ok
    check <name,name,…> <start> <length> <block>       (valid handle)
    checkbad <name,name,…> <start> <length> <block>    (handle not in the file table)
                               → hashes <alg> <hex> | too-small | no-alg | bad-handle | stat-fail <code>
                                 | read-fail <code> | no-fuel                        (hash = the toy hash)
-/
import PV.Model.CheckFile
import PV.Base.DriverIO
open PV PV.CheckFile

structure St where
  known : List Bytes
  content : Bytes
  k : Nat
  faultAt : Option Nat := none
  faultCode : Nat := 4
  statErr : Option Nat := none

def pattern (size seed : Nat) : Bytes :=
  (List.range size).map fun i =>
    let x := (i * 2654435761 + seed * 40503 + 12345) % 4294967296
    let y := ((x ^^^ (x >>> 15)) * 2246822519) % 4294967296
    UInt8.ofNat ((y >>> 24) % 256)

def policy (k : Nat) (off n : Nat) : Nat :=
  if k = 0 then n else 1 + (off * 7 + n * 13 + k * 101) % (k * 997)

def names (s : String) : List Bytes := (s.splitOn ",").map fun x => x.toUTF8.toList

def step (st : St) (line : String) : St × String :=
  match words line with
  | ["known", l] => ({ st with known := names l }, "ok")
  | ["file", size, seed] =>
    match size.toNat?, seed.toNat? with
    | some n, some s => ({ st with content := pattern n s }, "ok")
    | _, _ => (st, "bad-op")
  | ["hexfile", hex] =>
    match ofHex? hex with
    | some b => ({ st with content := b }, "ok")
    | none => (st, "bad-op")
  | ["policy", k] =>
    match k.toNat? with
    | some k => ({ st with k := k }, "ok")
    | none => (st, "bad-op")
  | ["fault", t, code] =>
    match (if t == "-" then some none else t.toNat?.map some), code.toNat? with
    | some t, some c => ({ st with faultAt := t, faultCode := c }, "ok")
    | _, _ => (st, "bad-op")
  | ["statfail", code] =>
    match (if code == "-" then some none else code.toNat?.map some) with
    | some c => ({ st with statErr := c }, "ok")
    | none => (st, "bad-op")
  | [cmd, algs, start, length, bs] =>
    if cmd != "check" && cmd != "checkbad" then (st, "bad-op") else
    match start.toNat?, length.toNat?, bs.toNat? with
    | some s, some l, some b =>
      let env : Env := { content := st.content, short := policy st.k,
                         readErr := fun off _ => match st.faultAt with
                           | some t => if off ≥ t then some st.faultCode else none
                           | none => none,
                         statErr := st.statErr }
      let (r, a) := request toyAlg (if cmd == "check" then some env else none) st.known (names algs) s l b
      match r with
      | .hashes h => (st, "hashes " ++ String.ofList (a.map fun c => Char.ofNat c.toNat) ++ " " ++ toHexTok h)
      | .tooSmall => (st, "too-small")
      | .statFail c => (st, s!"stat-fail {c}")
      | .readFail c => (st, s!"read-fail {c}")
      | .badHandle => (st, "bad-handle")
      | .noAlg => (st, "no-alg")
      | .noFuel => (st, "no-fuel")
    | _, _, _ => (st, "bad-op")
  | _ => (st, "bad-op")

def main : IO Unit := lineLoopSt ({ known := [], content := [], k := 0 } : St) step
