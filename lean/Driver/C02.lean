/-
  Driver for C02: the packet model of C01 fed with tampered streams (toy sender, toy receiver, socket).
  Protocol: see PV/Model/PacketIO.lean (`driverStep`).
-/
import PV.Model.PacketIO
open PV PV.Packet

def main : IO Unit := lineLoopSt ({} : DSt) driverStep
