/-
  Driver for the packet model (C01): a toy sender, a toy receiver and a fragmenting socket.
  Protocol: see PV/Model/PacketIO.lean (`driverStep`).
-/
import PV.Model.PacketIO
open PV PV.Packet

def main : IO Unit := lineLoopSt ({} : DSt) driverStep
