/-
  Driver for the SFTP server dispatcher model.  Request:
    srv <t> <id> <hk f|d|n> <ok 0|1> <raises 0|1> <ext c|p|o> <empty 0|1> <cf bh|na|sf|sb|rf|ok>
    ldi <read_aheads> <entries per answer> <entries>   → done <yielded> | hang <yielded>   (listdir_iter rounds)
  Reply (srv): one token per response packet, `type:id:code` with code = f<n> (fixed by the dispatcher) | cb (the
  callback's code) | - (not a status packet); packets separated by spaces.
-/
import PV.Model.SftpServer
import PV.Model.ListdirIter
import PV.Base.DriverIO
open PV PV.SftpServer

def pBool (s : String) : Option Bool := if s == "1" then some true else if s == "0" then some false else none
def pHk : String → Option HandleKind
  | "f" => some .file | "d" => some .folder | "n" => some .none | _ => none
def pExt : String → Option ExtTag
  | "c" => some .checkFile | "p" => some .posixRename | "o" => some .other | _ => none
def pCf : String → Option CfCase
  | "bh" => some .badHandle | "na" => some .noAlg | "sf" => some .statFails | "sb" => some .smallBlock
  | "rf" => some .readFails | "ok" => some .ok | _ => none

def showCode : Code → String
  | .fixed c => s!"f{c}"
  | .callback => "cb"
  | .notStatus => "-"

def step (line : String) : String :=
  match words line with
  | ["srv", t, id, hk, ok, rs, ext, em, cf] =>
    match t.toNat?, id.toNat?, pHk hk, pBool ok, pBool rs, pExt ext, pBool em, pCf cf with
    | some t, some id, some hk, some ok, some rs, some ext, some em, some cf =>
      " ".intercalate ((serve t id ⟨hk, ok, rs, ext, em, cf⟩).map fun p => s!"{p.1}:{p.2.1}:" ++ showCode p.2.2)
    | _, _, _, _, _, _, _, _ => "bad-op"
  | ["ldi", k, per, n] =>
    match k.toNat?, per.toNat?, n.toNat? with
    | some k, some per, some n =>
      match PV.ListdirIter.listdirIter ⟨k, per, PV.Generated.C30.listdirIterResetsBatch⟩ n (n + 2) with
      | .done y => s!"done {y}"
      | .hang y => s!"hang {y}"
      | .fuel => "fuel"
    | _, _, _ => "bad-op"
  | _ => "bad-op"

def main : IO Unit := lineLoop step
