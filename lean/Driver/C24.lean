/-
  Driver for the fileno()-pipe models (stateful).
  Statement-level machine (PV.Model.Pipe):
    S new <generated|fixed|unlocked> <nthreads> <g:0|1>   → state
    S start <tid> <op>                                     → state     (op: feed1 feed2 feedempty1 feedempty2 drain1 drain2
    S step <tid>                                           → state          empty1 empty2 eof close fileno)
  Atomic machine (PV.Model.PipeAtomic):
    A new <g:0|1>                  → state
    A bstart <1|2> <feed|feedempty|drain|empty>   → state
    A bstep <1|2> | A cstart <eof|close|fileno> | A cstep   → state
  witness                          → the statement-level race schedule of `race_witness_unlocked`
  state (S): ps pf os s1 s2 ne1 ne2 cl1 cl2 ev1 ev2 eof closed pipe | one token per thread (idle | acq | obj.meth@pc)
  state (A): same shared part | h1 h2 todo-length
-/
import PV.Model.PipeAtomic
import PV.Generated.C24
import PV.Base.DriverIO
import Std.Data.HashMap
open PV PV.Pipe

/-! ## exhaustive exploration of the statement-level model (a *search*, run on every check; not a proof)

`S exhaust <code> <g>`: breadth-first over every schedule of the lock-holder abstraction of the statement-level
machine (thread 0 runs channel operations, thread 1 operations on the stdout buffer, thread 2 on the stderr buffer —
a thread that has not got its first lock has done nothing, so more threads add no behaviour).  Reports the number of
reachable / quiescent states, the quiescent states after fileno() where `readable ≠ shouldBeReadable`, the deadlocked
states, and a shortest schedule to the first offender (replayed on the real code by the harness). -/

deriving instance Hashable for Var, Expr, Meth, Target, Instr, Obj, PLock, HLock, Lock, PSt, Frame, HCond, PInstr,
  Thread, St

/-- `full = false`: without the (guarded, hence effect-free) empty feeds -/
def exhaustAlphabet (full : Bool) : List Act :=
  [Op.eof, .close, .fileno, .combineOn, .combineOff, .feedErr].map (.start 0) ++
  ([Op.feed false, .drain false, .empty false] ++ (if full then [Op.feedEmpty false] else [])).map (.start 1) ++
  ([Op.feed true, .drain true, .empty true] ++ (if full then [Op.feedEmpty true] else [])).map (.start 2) ++
  [.step 0, .step 1, .step 2]

partial def exhaustBfs (c : Code) (g : Bool) (alpha : List Act) (front : List St) (next : List St)
    (seen : Std.HashMap St (Option (St × Act))) : Std.HashMap St (Option (St × Act)) :=
  match front with
  | [] => if next.isEmpty then seen else exhaustBfs c g alpha next.reverse [] seen
  | s :: rest =>
    let (next', seen') := alpha.foldl (fun (acc : List St × Std.HashMap St (Option (St × Act))) a =>
      let s' := act c g s a
      if acc.2.contains s' then acc else (s' :: acc.1, acc.2.insert s' (some (s, a)))) (next, seen)
    exhaustBfs c g alpha rest next' seen'

partial def pathTo (seen : Std.HashMap St (Option (St × Act))) (s : St) (acc : List Act) : List Act :=
  match seen.get? s with
  | some (some (p, a)) => pathTo seen p (a :: acc)
  | _ => acc

def isDeadlock (c : Code) (s : St) : Bool :=
  s.threads.any (fun t => !idle t) &&
    (List.range s.threads.length).all (fun tid => match s.threads[tid]? with
      | some t => idle t || (tstep c s tid == s)
      | none => true)

def b01 (b : Bool) : String := if b then "1" else "0"

def showShared (p : PSt) (ne1 ne2 cl1 cl2 ev1 ev2 eof closed pipe comb : Bool) : String :=
  s!"ps={b01 p.pSet} pf={b01 p.pForever} os={p.os} s1={b01 p.s1} s2={b01 p.s2} ne1={b01 ne1} ne2={b01 ne2} " ++
  s!"cl1={b01 cl1} cl2={b01 cl2} ev1={b01 ev1} ev2={b01 ev2} eof={b01 eof} closed={b01 closed} pipe={b01 pipe} " ++
  s!"comb={b01 comb}"

def showObj : Obj → String
  | .pipe => "pipe" | .or1 => "or1" | .or2 => "or2"
def showMeth : Meth → String
  | .set => "set" | .clear => "clear" | .setForever => "set_forever"

def showThread (t : Thread) : String :=
  match t.stack with
  | f :: _ => showObj f.obj ++ "." ++ showMeth f.meth ++ "@" ++ (match f.pc with | some n => toString n | none => "ret")
  | [] => if t.prog.isEmpty then "idle" else "acq"

def showS (s : St) : String :=
  showShared s.p s.ne1 s.ne2 s.cl1 s.cl2 s.ev1 s.ev2 s.eof s.chClosed s.hasPipe s.combine ++ " | " ++
    " ".intercalate (s.threads.map showThread)

def showPend : PipeAtomic.Pend → String
  | .none => "none" | .feedSet => "feedset" | .set => "set" | .clear => "clear"

def showA (a : PipeAtomic.ASt) : String :=
  showShared a.p a.b1.ne a.b2.ne a.b1.cl a.b2.cl a.b1.ev a.b2.ev a.eof a.chClosed a.hasPipe a.combine ++
    s!" | h1={showPend a.b1.pend} h2={showPend a.b2.pend} todo={a.todo.length}"

def parseOp : String → Option Op
  | "feed1" => some (.feed false) | "feed2" => some (.feed true)
  | "feedempty1" => some (.feedEmpty false) | "feedempty2" => some (.feedEmpty true)
  | "drain1" => some (.drain false) | "drain2" => some (.drain true)
  | "empty1" => some (.empty false) | "empty2" => some (.empty true)
  | "eof" => some .eof | "close" => some .close | "fileno" => some .fileno
  | "combineon" => some .combineOn | "combineoff" => some .combineOff | "feederr" => some .feedErr
  | _ => none

def parseCode : String → Option Code
  | "generated" => some PV.Generated.C24.code
  | "fixed" => some fixedCode
  | "unlocked" => some unlockedCode
  | _ => none

def parseIdx : String → Option Bool
  | "1" => some false | "2" => some true | _ => none

def parseBOp : String → Option PipeAtomic.BOp
  | "feed" => some .feed | "feedempty" => some .feedEmpty | "drain" => some .drain | "empty" => some .empty
  | _ => none

def parseCOp : String → Option PipeAtomic.COp
  | "eof" => some .eof | "close" => some .close | "fileno" => some .fileno
  | "combineon" => some .combineOn | "combineoff" => some .combineOff | "feederr" => some .feedErr | _ => none

def parseG : String → Option Bool
  | "0" => some false | "1" => some true | _ => none

structure DSt where
  code : Code := fixedCode
  g : Bool := true
  s : St := {}
  ga : Bool := true
  a : PipeAtomic.ASt := {}

def showAct : Act → String
  | .start tid op => "start " ++ toString tid ++ " " ++ (match op with
    | .feed i => if i then "feed2" else "feed1" | .feedEmpty i => if i then "feedempty2" else "feedempty1"
    | .drain i => if i then "drain2" else "drain1" | .empty i => if i then "empty2" else "empty1"
    | .eof => "eof" | .close => "close" | .fileno => "fileno"
    | .combineOn => "combineon" | .combineOff => "combineoff" | .feedErr => "feederr")
  | .step tid => "step " ++ toString tid

def exhaust (c : Code) (g : Bool) (full : Bool) : String :=
  let s0 := init 3
  let seen := exhaustBfs c g (exhaustAlphabet full) [s0] [] ((Std.HashMap.emptyWithCapacity 32768).insert s0 none)
  let all := seen.toList.map (·.1)
  let quiet := all.filter quiescent
  let bad := quiet.filter (fun s => s.hasPipe && s.ev1 && s.ev2 && (readable s != shouldBeReadable s))
  let dead := all.filter (isDeadlock c)
  let ex := match bad ++ dead with
    | s :: _ => ";".intercalate ((pathTo seen s []).map showAct)
    | [] => "-"
  s!"states={all.length} quiescent={quiet.length} bad={bad.length} deadlocks={dead.length} example={ex}"

def dstep (d : DSt) (line : String) : DSt × String :=
  match words line with
  | ["S", "exhaust", c, g, m] =>
    match parseCode c, parseG g, m with
    | some c, some g, "full" => (d, exhaust c g true)
    | some c, some g, "core" => (d, exhaust c g false)
    | _, _, _ => (d, "bad-op")
  | ["S", "new", c, n, g] =>
    match parseCode c, n.toNat?, parseG g with
    | some c, some n, some g => let s := init n; ({ d with code := c, g := g, s := s }, showS s)
    | _, _, _ => (d, "bad-op")
  | ["S", "start", tid, op] =>
    match tid.toNat?, parseOp op with
    | some tid, some op => let s := act d.code d.g d.s (.start tid op); ({ d with s := s }, showS s)
    | _, _ => (d, "bad-op")
  | ["S", "step", tid] =>
    match tid.toNat? with
    | some tid => let s := act d.code d.g d.s (.step tid); ({ d with s := s }, showS s)
    | none => (d, "bad-op")
  | ["A", "new", g] =>
    match parseG g with
    | some g => ({ d with ga := g, a := {} }, showA {})
    | none => (d, "bad-op")
  | ["A", "bstart", i, op] =>
    match parseIdx i, parseBOp op with
    | some i, some op => let a := PipeAtomic.step d.ga d.a (.bstart i op); ({ d with a := a }, showA a)
    | _, _ => (d, "bad-op")
  | ["A", "bstep", i] =>
    match parseIdx i with
    | some i => let a := PipeAtomic.step d.ga d.a (.bstep i); ({ d with a := a }, showA a)
    | none => (d, "bad-op")
  | ["A", "cstart", op] =>
    match parseCOp op with
    | some op => let a := PipeAtomic.step d.ga d.a (.cstart op); ({ d with a := a }, showA a)
    | none => (d, "bad-op")
  | ["A", "cstep"] => let a := PipeAtomic.step d.ga d.a .cstep; ({ d with a := a }, showA a)
  | ["witness"] => (d, ";".intercalate (raceSchedule.map showAct))
  | _ => (d, "bad-op")

def main : IO Unit := lineLoopSt ({} : DSt) dstep
