/-
  Driver for the wire model.  Requests:
    enc <tok>...          → hex of the encoding
    dec <kinds> <hex>     → decoded fields (canonical tokens) | sofar | remainder
  tokens: b:<hex1> t:<0|1> u:<nat> q:<nat> a:<int> s:<hex> l:<hex>,<hex>,… m:<int>
  kinds : string over the letters b t u q a s l m
-/
import PV.Base.Wire
import PV.Base.DriverIO
open PV PV.Wire

def parseTok (t : String) : Option Field :=
  match t.splitOn ":" with
  | [k, v] =>
    match k with
    | "b" => (ofHex? v).bind fun b => match b with | [x] => some (.byte x) | _ => none
    | "t" => if v == "1" then some (.bool true) else if v == "0" then some (.bool false) else none
    | "u" => v.toNat?.map .u32
    | "q" => v.toNat?.map .u64
    | "a" => (intOfString? v).map .adaptive
    | "s" => (ofHex? v).map .str
    | "l" => ((v.splitOn ",").mapM ofHex?).map .list
    | "m" => (intOfString? v).map .mpint
    | _ => none
  | _ => none

def showField : Field → String
  | .byte b => "b:" ++ toHex [b]
  | .bool b => "t:" ++ (if b then "1" else "0")
  | .u32 n => "u:" ++ toString n
  | .u64 n => "q:" ++ toString n
  | .adaptive z => "a:" ++ toString z
  | .str s => "s:" ++ toHexTok s
  | .list l => "l:" ++ ",".intercalate (l.map toHexTok)
  | .mpint z => "m:" ++ toString z

def kindOfChar : Char → Option Kind
  | 'b' => some .byte | 't' => some .bool | 'u' => some .u32 | 'q' => some .u64
  | 'a' => some .adaptive | 's' => some .str | 'l' => some .list | 'm' => some .mpint
  | _ => none

def step (line : String) : String :=
  match words line with
  | "enc" :: toks =>
    match toks.mapM parseTok with
    | some fs => toHexTok (encodeAll fs)
    | none => "bad-op"
  | ["dec", kinds, hex] =>
    match kinds.toList.mapM kindOfChar, ofHex? hex with
    | some ks, some b =>
      let (fs, r) := decodeAll { content := b, pos := 0 } ks
      " ".intercalate (fs.map showField) ++ " | " ++ toHexTok r.soFar ++ " | " ++ toHexTok r.remainder
    | _, _ => "bad-op"
  | _ => "bad-op"

def main : IO Unit := lineLoop step
