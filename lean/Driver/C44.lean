/-
  Driver for the AuthStrategy.authenticate model.  Request:
    auth <vector>     vector: string over o (source returns), a (raises exception A), b (raises exception B);
                      "-" = no sources.  Source i is called `i`; a successful source i returns the value i.
  Reply:  ret|fail  <i>:<o|a|b> …  | calls <i> … | pulled <i> …
    authsrc <id,id,…> <vector>    source list given by object identities (repeats allowed); the k-th call yields vector[k]
  Reply:  ret|fail <id>:<o|a|b> … | calls <id> …
    session <vector>/<vector>/…   several authenticate() calls on ONE strategy object (heap model)
  Reply:  <id>:ret|fail … (one per call) || <contents of every AuthResult object at the end, in identity order>
-/
import PV.Model.AuthStrategy
import PV.Base.DriverIO
open PV PV.AuthStrategy

def parseVec (s : String) : Option (List (Out Char Nat)) :=
  if s == "-" then some [] else
    (s.toList.zipIdx).mapM fun (c, i) =>
      if c == 'o' then some (.ok i) else if c == 'a' || c == 'b' then some (.err c) else none

def showOut : Out Char Nat → String
  | .ok _ => "o"
  | .err c => c.toString

def showPairs (l : List (Nat × Out Char Nat)) : String :=
  " ".intercalate (l.map fun (i, o) => toString i ++ ":" ++ showOut o ++
    (match o with | .ok v => "=" ++ toString v | .err _ => ""))

def showNats (l : List Nat) : String := " ".intercalate (l.map toString)

def step (line : String) : String :=
  match words line with
  | ["auth", v] =>
    match parseVec v with
    | some os =>
      let srcs := List.range os.length
      let l := loop (scripted 'x') srcs (init os)
      let head := match finish l with
        | .returned r => "ret " ++ showPairs r
        | .authFailure r => "fail " ++ showPairs r
      head ++ " | calls " ++ showNats l.calls ++ " | pulled " ++ showNats l.pulled
    | none => "bad-op"
  | ["authsrc", ids, v] =>
    match (ids.splitOn ",").mapM String.toNat?, parseVec v with
    | some srcs, some os =>
      if srcs.length != os.length then "bad-op" else
      let l := loop (scripted 'x') srcs (init os)
      let head := match finish l with
        | .returned r => "ret " ++ showPairs r
        | .authFailure r => "fail " ++ showPairs r
      head ++ " | calls " ++ showNats l.calls
    | _, _ => "bad-op"
  | ["session", vs] =>
    match (vs.splitOn "/").mapM parseVec with
    | some calls =>
      -- every source carries its own outcome (source i of a call is `(i, outcome)`)
      let srcsOf (os : List (Out Char Nat)) : List (Nat × Out Char Nat) := (List.range os.length).zip os
      let r := session (fun (x : Nat × Out Char Nat) (u : Unit) => (x.2, u)) (calls.map srcsOf)
        ({ heap := [], st := () } : Obj (Nat × Out Char Nat) Char Nat Unit)
      " ".intercalate (r.2.map fun (id, ok) => toString id ++ ":" ++ (if ok then "ret" else "fail")) ++ " || " ++
        " / ".intercalate (r.1.heap.map fun cell => showPairs (cell.map fun (x, o) => (x.1, o)))
    | none => "bad-op"
  | _ => "bad-op"

def main : IO Unit := lineLoop step
