/-
  Driver for the AuthStrategy.authenticate model.  Request:
    auth <vector>     vector: string over o (source returns), a (raises exception A), b (raises exception B);
                      "-" = no sources.  Source i is called `i`; a successful source i returns the value i.
  Reply:  ret|fail  <i>:<o|a|b> …  | calls <i> … | pulled <i> …
-/
import PV.Model.AuthStrategy
import PV.Base.DriverIO
open PV PV.AuthStrategy

def parseVec (s : String) : Option (List (Out Char Nat)) :=
  if s == "-" then some [] else
    (s.toList.zipIdx).mapM fun (c, i) =>
      if c == 'o' then some (.ok i) else if c == 'a' || c == 'b' then some (.err c) else none

def showOut : Out Char Nat → String
  | .ok _ => "o"
  | .err c => c.toString

def showPairs (l : List (Nat × Out Char Nat)) : String :=
  " ".intercalate (l.map fun (i, o) => toString i ++ ":" ++ showOut o ++
    (match o with | .ok v => "=" ++ toString v | .err _ => ""))

def showNats (l : List Nat) : String := " ".intercalate (l.map toString)

def step (line : String) : String :=
  match words line with
  | ["auth", v] =>
    match parseVec v with
    | some os =>
      let srcs := List.range os.length
      let l := loop (scripted 'x') srcs (init os)
      let head := match finish l with
        | .returned r => "ret " ++ showPairs r
        | .authFailure r => "fail " ++ showPairs r
      head ++ " | calls " ++ showNats l.calls ++ " | pulled " ++ showNats l.pulled
    | none => "bad-op"
  | _ => "bad-op"

def main : IO Unit := lineLoop step
