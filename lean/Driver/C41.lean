/-
  Driver for the HostKeys model — stateful: one HostKeys object per session.
    reset | clear                      → ok
    load <line>…                       → ok | raised          line: E:<name>,<name>;<key>  |  S  |  I
    add <name> <type hex> <key>        → ok
    del <name>                         → ok | keyerror
    subset <name> <type hex> <key>     → ok | keyerror        hostkeys[name][type] = key
    setitem <name> <type hex>=<key>,…  → ok                   hostkeys[name] = {type: key, …}
    lookup <name>                      → none | <type hex>=<blob hex>;…      (one item per matching entry, in order)
    items <name>                       → none | <type hex>=<blob hex>;…      (SubDict.items(): effective key per pair)
    check <name> <key>                 → 1 | 0
    keys                               → <name>,<name>,…
    dump                               → <name>,<name>|<key>;…               (the lines `save` writes)
  name: p<hex utf-8>  |  h<salt hex>.<mac hex>          key: <type hex>:<blob hex>
  HMAC is the toy function below (the harness patches paramiko.hostkeys.HMAC with the same).
-/
import PV.Model.HostKeys
import PV.Base.DriverIO
open PV PV.HostKeys

def toyHmac (salt : Bytes) (msg : String) : Bytes :=
  let acc := msg.toUTF8.toList.foldl (fun a b => (a * 131 + b.toNat) % 4294967296) 7
  (List.range 20).map fun i =>
    UInt8.ofNat ((acc / 256 ^ (i % 4) + (salt.getD i 0).toNat * (i + 1) + i) % 256)

def prims : Prims := { hmac := toyHmac }

def strOfHex (t : String) : Option String :=
  (ofHex? t).bind fun b => String.fromUTF8? (ByteArray.mk b.toArray)

def hexOfStr (s : String) : String := toHexTok s.toUTF8.toList

def parseName (t : String) : Option Name :=
  if t.startsWith "p" then (strOfHex (t.drop 1).toString).map Name.plain
  else if t.startsWith "h" then
    match (t.drop 1).toString.splitOn "." with
    | [a, b] => match ofHex? a, ofHex? b with
      | some a, some b => some (Name.hashed a b)
      | _, _ => none
    | _ => none
  else none

def showName : Name → String
  | .plain s => "p" ++ hexOfStr s
  | .hashed a b => "h" ++ toHexTok a ++ "." ++ toHexTok b

def parseKey (t : String) : Option Key :=
  match t.splitOn ":" with
  | [a, b] => match strOfHex a, ofHex? b with
    | some a, some b => some { type := a, blob := b }
    | _, _ => none
  | _ => none

def showKey (k : Key) : String := hexOfStr k.type ++ ":" ++ toHexTok k.blob

def parseLine (t : String) : Option Line :=
  if t == "S" then some .skip
  else if t == "I" then some .invalid
  else if t.startsWith "E:" then
    match (t.drop 2).toString.splitOn ";" with
    | [ns, k] => match (ns.splitOn ",").mapM parseName, parseKey k with
      | some ns, some k => some (.entry ns k)
      | _, _ => none
    | _ => none
  else none

def step (t : Table) (line : String) : Table × String :=
  match words line with
  | ["reset"] => ([], "ok")
  | ["clear"] => ([], "ok")
  | "load" :: ls =>
    match ls.mapM parseLine with
    | some ls => let (t', raised) := load prims t ls; (t', if raised then "raised" else "ok")
    | none => (t, "bad-op")
  | ["add", n, ty, k] =>
    match parseName n, strOfHex ty, parseKey k with
    | some n, some ty, some k => (add t n ty k, "ok")
    | _, _, _ => (t, "bad-op")
  | ["del", n] =>
    match parseName n with
    | some n => match delItem prims t n with
      | .ok t' => (t', "ok")
      | .error _ => (t, "keyerror")
    | none => (t, "bad-op")
  | ["subset", n, ty, k] =>
    match parseName n, strOfHex ty, parseKey k with
    | some n, some ty, some k => match subSet prims t n ty k with
      | .ok t' => (t', "ok")
      | .error _ => (t, "keyerror")
    | _, _, _ => (t, "bad-op")
  | ["setitem", n, kvs] =>
    let parseKV (x : String) : Option (String × Key) :=
      match x.splitOn "=" with
      | [ty, k] => match strOfHex ty, parseKey k with
        | some ty, some k => some (ty, k)
        | _, _ => none
      | _ => none
    match parseName n, (kvs.splitOn ",").mapM parseKV with
    | some n, some kvs => (setItem t n kvs, "ok")
    | _, _ => (t, "bad-op")
  | ["lookup", n] =>
    match parseName n with
    | some n =>
      let es := lookup prims t n
      (t, if es.isEmpty then "none" else ";".intercalate (es.map fun e => hexOfStr e.key.type ++ "=" ++ toHexTok e.key.blob))
    | none => (t, "bad-op")
  | ["items", n] =>
    match parseName n with
    | some n =>
      let es := lookup prims t n
      (t, if es.isEmpty then "none" else ";".intercalate ((subItems es).map fun (ty, k) =>
        hexOfStr ty ++ "=" ++ (match k with | some k => toHexTok k.blob | none => "?")))
    | none => (t, "bad-op")
  | ["check", n, k] =>
    match parseName n, parseKey k with
    | some n, some k => (t, if check prims t n k then "1" else "0")
    | _, _ => (t, "bad-op")
  | ["keys"] => (t, ",".intercalate ((keys t).map showName))
  | ["dump"] => (t, ";".intercalate (t.map fun e => ",".intercalate (e.names.map showName) ++ "|" ++ showKey e.key))
  | _ => (t, "bad-op")

def main : IO Unit := lineLoopSt ([] : Table) step
