/-
  Driver for the key-exchange model (PV/Model/Kex.lean); protocol: PV/Model/KexIO.lean.
-/
import PV.Model.KexIO
open PV

def main : IO Unit := lineLoop PV.KexIO.step
