/- GENERATED from the AST of paramiko/transport.py (Transport.run, channel dispatch) by pv/props/c22.py — do not edit. -/
namespace PV.Generated.C22
/-- the test of the `if` that follows `chan = self._channels.get(chanid)` -/
def dispatchGuard : String := "chan is not None"
/-- … and its body calls `self._channel_handler_table[ptype](chan, m)` -/
def dispatchCallsHandler : Bool := true
end PV.Generated.C22
