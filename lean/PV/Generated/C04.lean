/- GENERATED from paramiko/transport.py by pv/lib_kdf.py (gen_c04) — do not edit. -/
import PV.Model.KeyDerive
namespace PV.Generated.C04
open PV.KeyDerive

def cipherTable : List CipherInfo := [
  { name := "aes128-ctr", blockSize := 16, keySize := 16, ivSize := 16, aead := false },
  { name := "aes192-ctr", blockSize := 16, keySize := 24, ivSize := 16, aead := false },
  { name := "aes256-ctr", blockSize := 16, keySize := 32, ivSize := 16, aead := false },
  { name := "aes128-cbc", blockSize := 16, keySize := 16, ivSize := 16, aead := false },
  { name := "aes192-cbc", blockSize := 16, keySize := 24, ivSize := 16, aead := false },
  { name := "aes256-cbc", blockSize := 16, keySize := 32, ivSize := 16, aead := false },
  { name := "3des-cbc", blockSize := 8, keySize := 24, ivSize := 8, aead := false },
  { name := "aes128-gcm@openssh.com", blockSize := 16, keySize := 16, ivSize := 12, aead := true },
  { name := "aes256-gcm@openssh.com", blockSize := 16, keySize := 32, ivSize := 12, aead := true }]

def macTable : List MacInfo := [
  { name := "hmac-sha1", digestSize := 20, size := 20 },
  { name := "hmac-sha1-96", digestSize := 20, size := 12 },
  { name := "hmac-sha2-256", digestSize := 32, size := 32 },
  { name := "hmac-sha2-256-etm@openssh.com", digestSize := 32, size := 32 },
  { name := "hmac-sha2-512", digestSize := 64, size := 64 },
  { name := "hmac-sha2-512-etm@openssh.com", digestSize := 64, size := 64 },
  { name := "hmac-md5", digestSize := 16, size := 16 },
  { name := "hmac-md5-96", digestSize := 16, size := 12 }]

/-- (kex method, digest size of the hash `_compute_key` uses with it) -/
def kexHashSizes : List (String × Nat) := [
  ("diffie-hellman-group1-sha1", 20),
  ("diffie-hellman-group14-sha1", 20),
  ("diffie-hellman-group-exchange-sha1", 20),
  ("diffie-hellman-group-exchange-sha256", 32),
  ("diffie-hellman-group14-sha256", 32),
  ("diffie-hellman-group16-sha512", 64),
  ("gss-group1-sha1-toWM5Slw5Ew8Mqkay+al2g==", 20),
  ("gss-group14-sha1-toWM5Slw5Ew8Mqkay+al2g==", 20),
  ("gss-gex-sha1-toWM5Slw5Ew8Mqkay+al2g==", 20),
  ("ecdh-sha2-nistp256", 32),
  ("ecdh-sha2-nistp384", 48),
  ("ecdh-sha2-nistp521", 64),
  ("curve25519-sha256@libssh.org", 32)]

/-- AST of paramiko/packet.py, Packetizer.send_message: `engine.encrypt(self.__iv_out, …)` textually precedes
    `self.__iv_out = self._inc_iv_counter(self.__iv_out)` (false also when the pattern was not found) -/
def aeadSendUseFirst : Bool := true
/-- same for Packetizer.read_message: `engine.decrypt(self.__iv_in, …)` before the `__iv_in` step -/
def aeadRecvUseFirst : Bool := true

/-- AST of paramiko/*.py: `.session_id` is assigned only as `= None` in Transport.__init__ and as `= h` directly
    under a top-level `if self.session_id is None:` in Transport._set_K_H -/
def sessionIdGuarded : Bool := true

end PV.Generated.C04
