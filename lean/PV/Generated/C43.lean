/- GENERATED from paramiko/primes.py and paramiko/kex_gex.py by pv/lib_primes.py — do not edit. -/
namespace PV.Generated.C43

/-- generated from ModulusPack.get_modulus (statements between the empty-pack guard and _roll_random) -/
def getModulusGood (bitsizes : List Int) (min prefer max : Int) : Int :=
  let good : Int := (-(1 : Int))
  (let good := bitsizes.foldl (fun good b => (let good := (if ((b ≥ prefer) ∧ (b ≥ min) ∧ (b ≤ max) ∧ ((b < good) ∨ (good = (-(1 : Int))))) then (let good : Int := b; good) else good); good)) good; (let good := (if (good = (-(1 : Int))) then (let good := bitsizes.foldl (fun good b => (let good := (if ((b ≥ min) ∧ (b ≤ max) ∧ (b > good)) then (let good : Int := b; good) else good); good)) good; good) else good); (let good := (if (good = (-(1 : Int))) then (let good : Int := (bitsizes.headD 0); (let good := (if (min > good) then (let good : Int := (bitsizes.getLastD 0); good) else good); good)) else good); good)))

/-- generated from KexGex._parse_kexdh_gex_request (the clamps before `self.min_bits = minbits`) -/
def gexClamp (self_min_bits self_max_bits minbits preferredbits maxbits : Int) : Int × Int × Int :=
  (let (minbits, preferredbits, maxbits) := (if (preferredbits > self_max_bits) then (let preferredbits : Int := self_max_bits; (minbits, preferredbits, maxbits)) else (minbits, preferredbits, maxbits)); (let (minbits, preferredbits, maxbits) := (if (preferredbits < self_min_bits) then (let preferredbits : Int := self_min_bits; (minbits, preferredbits, maxbits)) else (minbits, preferredbits, maxbits)); (let (minbits, preferredbits, maxbits) := (if (minbits > preferredbits) then (let minbits : Int := preferredbits; (minbits, preferredbits, maxbits)) else (minbits, preferredbits, maxbits)); (let (minbits, preferredbits, maxbits) := (if (maxbits < preferredbits) then (let maxbits : Int := preferredbits; (minbits, preferredbits, maxbits)) else (minbits, preferredbits, maxbits)); (minbits, preferredbits, maxbits)))))

/-- generated from KexGex._parse_kexdh_gex_request_old -/
def gexClampOld (self_min_bits self_max_bits self_preferred_bits : Int) : Int :=
  (let self_preferred_bits := (if (self_preferred_bits > self_max_bits) then (let self_preferred_bits : Int := self_max_bits; self_preferred_bits) else self_preferred_bits); (let self_preferred_bits := (if (self_preferred_bits < self_min_bits) then (let self_preferred_bits : Int := self_min_bits; self_preferred_bits) else self_preferred_bits); self_preferred_bits))

def kexMinBits : Int := 1024
def kexMaxBits : Int := 8192
def kexPreferredBits : Int := 2048

end PV.Generated.C43
