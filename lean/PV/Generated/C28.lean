/- generated from paramiko/sftp_file.py, paramiko/file.py and the AST of SFTPClient._async_request -/
namespace PV.Generated.C28
def maxRequestSize : Nat := 32768
def defaultBufsize : Nat := 8192
/-- every use of self.request_number in _async_request (the id written into the packet, the registration in _expecting, the increment) lies inside the acquire/try/finally-release region of self._lock: allocating a request number and putting it into the packet is one atomic step -/
def idReadUnderLock : Bool := true
/-- SFTPFile._prefetch_lock (a plain threading.Lock) is never asked for by a method that already holds it: no `with self._prefetch_lock:` block calls its own method or another one that takes the lock -/
def prefetchLockNotReentered : Bool := true
end PV.Generated.C28
