/- generated from paramiko/sftp_file.py, paramiko/file.py -/
namespace PV.Generated.C28
def maxRequestSize : Nat := 32768
def defaultBufsize : Nat := 8192
end PV.Generated.C28
