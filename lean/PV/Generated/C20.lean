/- GENERATED from the AST of paramiko/transport.py (_parse_channel_open, open_channel) by pv/props/c20.py — do not edit. -/
namespace PV.Generated.C20
/-- arguments of chan._set_window(…) (our receive side) / the sizes written into the advertising message -/
def acceptorSetWindow : List String := ["self.default_window_size", "self.default_max_packet_size"]
def acceptorAdvertised : List String := ["self.default_window_size", "self.default_max_packet_size"]
def initiatorSetWindow : List String := ["window_size", "max_packet_size"]
def initiatorAdvertised : List String := ["window_size", "max_packet_size"]
end PV.Generated.C20
