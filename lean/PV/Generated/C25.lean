/- GENERATED from the AST of paramiko/transport.py (tail of Transport.run) by pv/props/c25.py — do not edit. -/
namespace PV.Generated.C25
def runTail : List String := ["other", "unlink_channels", "set_inactive", "packetizer_close", "completion_set", "auth_abort", "channel_events_set", "accept_notify_all", "sock_close"]
end PV.Generated.C25
