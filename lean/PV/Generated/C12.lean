/- GENERATED from the paramiko tree under test by pv/lib_runloop.py on every run of C09/C11/C12 -- do not edit.
   Key sets of MSG_NAMES and of every dispatch table of Transport.run, every MSG_* constant, and whether every
   MSG_NAMES lookup in packet.py/transport.py (run() fallback, read_message, send_message) is total. -/
import PV.Model.RunLoop
namespace PV.Generated.C12
open PV.RunLoop

/-- every `MSG_*` integer constant of paramiko/common.py -/
def msgConsts : List (String × Nat) := [("MSG_DISCONNECT", 1), ("MSG_IGNORE", 2), ("MSG_UNIMPLEMENTED", 3), ("MSG_DEBUG", 4), ("MSG_SERVICE_REQUEST", 5), ("MSG_SERVICE_ACCEPT", 6), ("MSG_EXT_INFO", 7), ("MSG_KEXINIT", 20), ("MSG_NEWKEYS", 21), ("MSG_USERAUTH_REQUEST", 50), ("MSG_USERAUTH_FAILURE", 51), ("MSG_USERAUTH_SUCCESS", 52), ("MSG_USERAUTH_BANNER", 53), ("MSG_USERAUTH_GSSAPI_RESPONSE", 60), ("MSG_USERAUTH_INFO_REQUEST", 60), ("MSG_USERAUTH_PK_OK", 60), ("MSG_USERAUTH_GSSAPI_TOKEN", 61), ("MSG_USERAUTH_INFO_RESPONSE", 61), ("MSG_USERAUTH_GSSAPI_EXCHANGE_COMPLETE", 63), ("MSG_USERAUTH_GSSAPI_ERROR", 64), ("MSG_USERAUTH_GSSAPI_ERRTOK", 65), ("MSG_USERAUTH_GSSAPI_MIC", 66), ("MSG_GLOBAL_REQUEST", 80), ("MSG_REQUEST_SUCCESS", 81), ("MSG_REQUEST_FAILURE", 82), ("MSG_CHANNEL_OPEN", 90), ("MSG_CHANNEL_OPEN_SUCCESS", 91), ("MSG_CHANNEL_OPEN_FAILURE", 92), ("MSG_CHANNEL_WINDOW_ADJUST", 93), ("MSG_CHANNEL_DATA", 94), ("MSG_CHANNEL_EXTENDED_DATA", 95), ("MSG_CHANNEL_EOF", 96), ("MSG_CHANNEL_CLOSE", 97), ("MSG_CHANNEL_REQUEST", 98), ("MSG_CHANNEL_SUCCESS", 99), ("MSG_CHANNEL_FAILURE", 100)]

def tables : Tables :=
  { namesTotal := true,
    highestUserauth := 79,
    names := [1, 2, 3, 4, 5, 6, 7, 20, 21, 30, 31, 32, 33, 34, 40, 41, 50, 51, 52, 53, 60, 61, 63, 64, 65, 66, 80, 81, 82, 90, 91, 92, 93, 94, 95, 96, 97, 98, 99, 100],
    transport := [7, 20, 21, 80, 81, 82, 90, 91, 92],
    transportSRT := [6, 7, 20, 21, 80, 81, 82, 90, 91, 92],
    channel := [93, 94, 95, 96, 97, 98, 99, 100],
    authServer := [5, 50, 61],
    authClient := [6, 51, 52, 53, 60],
    authOnlyServer := [5, 50, 61],
    authOnlyClient := [51, 52, 53, 60],
    gssMic := [5, 50, 61, 66] }

/-- Transport.run, loop body: the `_expected_packet` test precedes every table dispatch and `_ensure_authed` -/
def expectedCheckBeforeDispatch : Bool := true

/-- Transport.run builds its replies without Message.add() / add_adaptive_int() -/
def runRepliesUseFixedWidth : Bool := true

/-- Packetizer.read_message: no recursion, no loop — one packet per call, none skipped -/
def readMessageDeliversEveryPacket : Bool := true

/-- Transport._parse_kex_init scans the whole kex name list for the pseudo-algorithm names -/
def markerScanCoversWholeList : Bool := true

/-- Transport.run: no packet is skipped between read_message() and the strict-kex / expected-packet tests -/
def runJudgesEveryPacket : Bool := true

/-- Packetizer: the roll-over guard tests the (masked) value that is assigned to the sequence-number counter -/
def rolloverGuardReadsAssignedValue : Bool := true

/-- _activate_inbound/_activate_outbound reset the sequence number under `self.agreed_on_strict_kex` alone -/
def seqnoResetGuardIsStrictOnly : Bool := true

end PV.Generated.C12
