/- GENERATED from paramiko/config.py by pv/lib_config.py — do not edit. -/
namespace PV.Generated.C40
def tokensByConfigKey : List (String × List String) := [("controlpath", ["%C", "%h", "%l", "%L", "%n", "%p", "%r", "%u"]), ("hostname", ["%h"]), ("identityfile", ["%C", "~", "%d", "%h", "%l", "%u", "%r"]), ("proxycommand", ["~", "%h", "%p", "%r"]), ("proxyjump", ["%h", "%p", "%r"]), ("match-exec", ["%C", "%d", "%h", "%L", "%l", "%n", "%p", "%r", "%u"])]
def replacementOrder : List String := ["%C", "%d", "%h", "%L", "%l", "%n", "%p", "%r", "%u", "~"]
end PV.Generated.C40
