/- GENERATED from paramiko/sftp_attr.py (SFTPAttributes.FLAG_*) by pv/props/c33.py — do not edit. -/
namespace PV.Generated.C33
def FLAG_SIZE : Nat := 1
def FLAG_UIDGID : Nat := 2
def FLAG_PERMISSIONS : Nat := 4
def FLAG_AMTIME : Nat := 8
def FLAG_EXTENDED : Nat := 2147483648
end PV.Generated.C33
