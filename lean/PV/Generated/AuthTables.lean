/- GENERATED from paramiko/transport.py, auth_handler.py, common.py by pv/lib_authsrv.py (gen_tables) — do not edit. -/
namespace PV.Generated.AuthTables
def transportTable : List Nat := [7, 20, 21, 80, 81, 82, 90, 91, 92]
def channelTable : List Nat := [93, 94, 95, 96, 97, 98, 99, 100]
def authServerTable : List Nat := [5, 50, 61]
def gssSubTable : List Nat := [5, 50, 61, 66]
def named : List Nat := [1, 2, 3, 4, 5, 6, 7, 20, 21, 30, 31, 32, 33, 34, 40, 41, 50, 51, 52, 53, 60, 61, 63, 64, 65, 66, 80, 81, 82, 90, 91, 92, 93, 94, 95, 96, 97, 98, 99, 100]
def unnamedRaises : Bool := false
def gssHandlersBound : Bool := true
end PV.Generated.AuthTables
