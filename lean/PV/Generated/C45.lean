/- GENERATED from paramiko/agent.py by pv/props/c45.py — do not edit. -/
namespace PV.Generated.C45
def algorithmFlagMap : List (String × Nat) := [("rsa-sha2-256", 2), ("rsa-sha2-512", 4), ("rsa-sha2-256-cert-v01@openssh.com", 2), ("rsa-sha2-512-cert-v01@openssh.com", 4)]
def signRequestType : Nat := 13
def signResponseType : Nat := 14
end PV.Generated.C45
