/- GENERATED from paramiko/common.py by pv/props/c19.py — do not edit. -/
namespace PV.Generated.C19
def MIN_PACKET_SIZE : Nat := 4096
def MAX_WINDOW_SIZE : Nat := 4294967295
def MIN_WINDOW_SIZE : Nat := 32768
/-- AST facts: Channel._set_remote_channel assigns out_max_packet_size from transport._sanitize_packet_size(…),
    and Transport._sanitize_packet_size returns clamp_value(MIN_PACKET_SIZE, …, MAX_WINDOW_SIZE) -/
def remote_max_packet_sanitised : Bool := true
def sanitise_is_clamp_min_max : Bool := true
/-- Transport._parse_channel_open hands chan._set_remote_channel the three values parsed from the peer's
    CHANNEL_OPEN (names assigned exactly once, by m.get_int()) -/
def peer_open_passes_parsed_values : Bool := true
/-- the methods of class Channel that assign `self.in_window_sofar` -/
def sofar_writers : List String := ["__init__", "_set_window", "_check_add_window"]
end PV.Generated.C19
