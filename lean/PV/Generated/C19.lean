/- GENERATED from paramiko/common.py by pv/props/c19.py — do not edit. -/
namespace PV.Generated.C19
def MIN_PACKET_SIZE : Nat := 4096
def MAX_WINDOW_SIZE : Nat := 4294967295
def MIN_WINDOW_SIZE : Nat := 32768
/-- AST facts: Channel._set_remote_channel assigns out_max_packet_size from transport._sanitize_packet_size(…),
    and Transport._sanitize_packet_size returns clamp_value(MIN_PACKET_SIZE, …, MAX_WINDOW_SIZE) -/
def remote_max_packet_sanitised : Bool := true
def sanitise_is_clamp_min_max : Bool := true
end PV.Generated.C19
