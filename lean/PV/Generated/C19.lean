/- GENERATED from paramiko/common.py by pv/props/c19.py — do not edit. -/
namespace PV.Generated.C19
def MIN_PACKET_SIZE : Nat := 4096
def MAX_WINDOW_SIZE : Nat := 4294967295
def MIN_WINDOW_SIZE : Nat := 32768
end PV.Generated.C19
