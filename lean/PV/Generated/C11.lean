/- GENERATED from the AST of paramiko/channel.py of the tree under test by pv/lib_runloop.py on every run of C11
   -- do not edit.  Every call site of `_send_user_message` in class Channel: function, line, whether it is
   lexically inside a `with self.lock` / acquire…release region, whether the function is a transport-thread
   handler (member of Transport._channel_handler_table).  And per handler: does it take Channel.lock. -/
namespace PV.Generated.C11

structure Site where
  func : String
  line : Nat
  underLock : Bool
  onTransportThread : Bool
  deriving Repr, DecidableEq

def sites : List Site := [
    ⟨"get_pty", 200, false, false⟩,
    ⟨"invoke_shell", 227, false, false⟩,
    ⟨"exec_command", 254, false, false⟩,
    ⟨"invoke_subsystem", 280, false, false⟩,
    ⟨"resize_pty", 307, false, false⟩,
    ⟨"set_environment_variable", 360, false, false⟩,
    ⟨"send_exit_status", 423, false, false⟩,
    ⟨"request_x11", 487, false, false⟩,
    ⟨"request_forward_agent", 512, false, false⟩,
    ⟨"close", 671, false, false⟩,
    ⟨"recv", 710, false, false⟩,
    ⟨"recv_stderr", 758, false, false⟩,
    ⟨"shutdown", 973, false, false⟩,
    ⟨"_request_failed", 1045, false, true⟩,
    ⟨"_feed_extended", 1070, false, true⟩,
    ⟨"_handle_request", 1182, false, true⟩,
    ⟨"_handle_close", 1206, false, true⟩,
    ⟨"_send", 1227, false, false⟩ ]

/-- transport-thread channel handlers and whether they (or a method they call) take Channel.lock -/
def handlers : List (String × Bool) := [("_feed", false), ("_feed_extended", true), ("_handle_close", true), ("_handle_eof", true), ("_handle_request", false), ("_request_failed", true), ("_request_success", false), ("_window_adjust", true)]

/-- Transport._send_user_message: the `_send_message` call is reached only through an `is_set()` test made while
clear_to_send_lock is held -/
def sendRechecksUnderLock : Bool := true

/-- Transport._send_kex_init: clear_to_send is cleared under the lock before KEXINIT is written -/
def kexInitClearsBeforeWrite : Bool := true

/-- Packetizer.read_message, branch `if need_rekey`: (counter, limit) of each comparison in the test that raises
"Remote transport is ignoring rekey requests" -/
def overflowTests : List (String × String) := [("received_packets_overflow", "REKEY_PACKETS_OVERFLOW_MAX"), ("received_bytes_overflow", "REKEY_BYTES_OVERFLOW_MAX")]

/-- every `clear_to_send.clear()` in transport.py: (function, line, inside a clear_to_send_lock region) -/
def clearSites : List (String × Nat × Bool) := [("_negotiate_keys", 2376, true), ("_send_kex_init", 2435, true)]

def allClearsUnderLock : Bool := clearSites.all (·.2.2) && !clearSites.isEmpty

/-- Transport._parse_newkeys assigns `self.auth_handler` only under an `auth_handler is None` test -/
def newkeysKeepsAuthHandler : Bool := true

/-- Packetizer._check_keepalive returns before the callback while a rekey request is pending -/
def keepaliveSilentWhileRekeyPending : Bool := true

/-- Channel.recv / recv_stderr send the window credit whenever one was computed (`if ack > 0:` only) -/
def recvSendsEveryComputedAck : Bool := true

/-- Transport._send_user_message: the give-up test reads the clock (`time.time() > start + timeout`) -/
def sendTimeoutReadsClock : Bool := true

/-- Packetizer.read_all: socket.timeout and socket.error(EAGAIN) reach one and the same NeedRekeyException test -/
def readAllIdleBranchesShareRekeyTest : Bool := true

/-- the methods of transport.py that call `_send_message` directly (not through the clear_to_send gate) -/
def sendMessageCallers : List String := ["Transport._send_user_message", "Transport.run", "Transport._send_kex_init", "Transport._activate_outbound", "Transport._parse_global_request", "Transport._parse_channel_open", "ServiceRequestingTransport.ensure_session"]

/-- Transport._send_kex_init sets `in_kex` unconditionally, before it writes KEXINIT -/
def kexInitMarksExchangeOpen : Bool := true

end PV.Generated.C11
