set_option linter.unusedVariables false
/- GENERATED from paramiko/transport.py (Transport._next_channel) by pv/props/c23.py — do not edit. -/
namespace PV.Generated.C23

def loop1 (live : Nat → Bool) : Nat → Nat → Nat → Option (Nat × Nat)
  | 0, _, _ => none
  | fuel + 1, counter, chanid =>
    if (live chanid) then
      let counter := ((counter + 1) % 16777216)
      let chanid := counter
      loop1 live fuel counter chanid
    else some (counter, chanid)

/-- `_next_channel`: `some (new counter, chanid)`, or `none` when the loop did not end within `fuel` -/
def next_channel (live : Nat → Bool) (fuel counter : Nat) : Option (Nat × Nat) :=
  let chanid := 0
  let chanid := counter
  match loop1 live fuel counter chanid with
  | none => none
  | some (counter, chanid) =>
    let counter := ((counter + 1) % 16777216)
    some (counter, chanid)

/-- every call site of `_next_channel` in class Transport: (calling method, inside a `self.lock` region) -/
def next_channel_sites : List (String × Bool) := [
  ("open_channel", true),
  ("_parse_channel_open", true),
  ("_parse_channel_open", true),
  ("_parse_channel_open", true),
  ("_parse_channel_open", true)
]

/-- every `self._channels.delete(…)` in transport.py: (method, ok = inside _unlink_channel or guarded by
    `if chanid in self.channel_events` — an open that is still pending) -/
def mapDeletes : List (String × Bool) := [("_unlink_channel", true), ("_parse_channel_open_failure", true)]

/-- the methods of class Transport that assign `self._channel_counter` -/
def counter_writers : List String := ["__init__", "_next_channel"]

end PV.Generated.C23
