/- GENERATED from the AST of paramiko/channel.py (class Channel) by pv/lib_chanlock.py — do not edit. -/
namespace PV.Generated.ChanLock

structure Site where
  caller : String
  target : String
  lexLocked : Bool     -- lexically inside a self.lock region
  effLocked : Bool     -- … or inside a helper whose every call site is (transitively) locked
  deriving Repr, DecidableEq

/-- calls of _send_eof / _close_internal / _set_closed and writes of eof_sent / closed -/
def sites : List Site := [
  ⟨"__init__", "write:eof_sent", false, false⟩,
  ⟨"__init__", "write:closed", false, false⟩,
  ⟨"close", "_close_internal", true, true⟩,
  ⟨"shutdown", "_send_eof", true, true⟩,
  ⟨"_request_failed", "_close_internal", true, true⟩,
  ⟨"_handle_close", "_close_internal", true, true⟩,
  ⟨"_set_closed", "write:closed", false, true⟩,
  ⟨"_send_eof", "write:eof_sent", false, true⟩,
  ⟨"_close_internal", "_send_eof", false, true⟩,
  ⟨"_close_internal", "_set_closed", false, true⟩,
  ⟨"_unlink", "_set_closed", true, true⟩
]

structure Notify where
  caller : String
  all : Bool           -- notify_all (true) or notify (false)
  effLocked : Bool
  deriving Repr, DecidableEq

/-- every out_buffer_cv.notify… call site -/
def notifies : List Notify := [
  ⟨"_window_adjust", true, true⟩,
  ⟨"_set_closed", true, true⟩
]

/-- every mention of self.out_window_size: (method, is a write, effectively under self.lock) -/
def windowAccesses : List (String × Bool × Bool) := [
  ("__init__", true, false),
  ("__repr__", false, false),
  ("send_ready", false, true),
  ("_set_remote_channel", true, false),
  ("_window_adjust", true, true),
  ("_window_adjust", false, true),
  ("_wait_for_send_window", false, true),
  ("_wait_for_send_window", false, true),
  ("_wait_for_send_window", false, true),
  ("_wait_for_send_window", false, true),
  ("_wait_for_send_window", true, true),
  ("_wait_for_send_window", false, true),
  ("_wait_for_send_window", false, true)
]

/-- calls `add_int(self.chanid)` / `add_int(self.remote_chanid)` in class Channel -/
def ownIdInMessages : Nat := 0
def remoteIdInMessages : Nat := 17

/-- methods that call transport._send_user_message / _send_message while (possibly) holding self.lock -/
def sendsUnderLock : List String := []

/-- the argument of every transport._unlink_channel(…) call in class Channel -/
def unlinkArgs : List String := ["self.chanid", "self.chanid"]

/-- … and the method of class Channel each of those calls sits in -/
def unlinkCallers : List String := ["_handle_close", "_unlink"]

/-- every mention of self.in_window_sofar: (method, is a write, lexically inside a self.lock region) -/
def sofarAccesses : List (String × Bool × Bool) := [
  ("__init__", true, false),
  ("_set_window", true, false),
  ("_check_add_window", true, true),
  ("_check_add_window", false, true),
  ("_check_add_window", false, true),
  ("_check_add_window", false, true),
  ("_check_add_window", false, true),
  ("_check_add_window", true, true)
]

end PV.Generated.ChanLock
