/- generated from paramiko/sftp.py and the AST of SFTPServer._process (and the helpers it calls) -/
namespace PV.Generated.C30
def cmdAttrs : Nat := 105
def cmdClose : Nat := 4
def cmdData : Nat := 103
def cmdExtended : Nat := 200
def cmdExtendedReply : Nat := 201
def cmdFsetstat : Nat := 10
def cmdFstat : Nat := 8
def cmdHandle : Nat := 102
def cmdInit : Nat := 1
def cmdLstat : Nat := 7
def cmdMkdir : Nat := 14
def cmdName : Nat := 104
def cmdOpen : Nat := 3
def cmdOpendir : Nat := 11
def cmdRead : Nat := 5
def cmdReaddir : Nat := 12
def cmdReadlink : Nat := 19
def cmdRealpath : Nat := 16
def cmdRemove : Nat := 13
def cmdRename : Nat := 18
def cmdRmdir : Nat := 15
def cmdSetstat : Nat := 9
def cmdStat : Nat := 17
def cmdStatus : Nat := 101
def cmdSymlink : Nat := 20
def cmdVersion : Nat := 2
def cmdWrite : Nat := 6
def sftpBadMessage : Nat := 5
def sftpConnectionLost : Nat := 7
def sftpEof : Nat := 1
def sftpFailure : Nat := 4
def sftpFlagAppend : Nat := 4
def sftpFlagCreate : Nat := 8
def sftpFlagExcl : Nat := 32
def sftpFlagRead : Nat := 1
def sftpFlagTrunc : Nat := 16
def sftpFlagWrite : Nat := 2
def sftpNoConnection : Nat := 6
def sftpNoSuchFile : Nat := 2
def sftpOk : Nat := 0
def sftpOpUnsupported : Nat := 8
def sftpPermissionDenied : Nat := 3
/-- keys of CMD_NAMES -/
def named : List Nat := [1, 2, 3, 4, 5, 6, 7, 8, 9, 10, 11, 12, 13, 14, 15, 16, 17, 18, 19, 20, 101, 102, 103, 104, 105, 200, 201]
/-- command numbers with their own branch in _process -/
def handled : List Nat := [3, 4, 5, 6, 13, 18, 14, 15, 11, 12, 17, 7, 8, 9, 10, 19, 20, 16, 200]
/-- per branch: every packet type a responder call in that branch (or in a helper it calls) can emit; a non-CMD constant in the type position appears with its numeric value -/
def branchTypes : List (Nat × List Nat) := [(3, [101, 102]), (4, [101]), (5, [101, 103]), (6, [101]), (13, [101]), (18, [101]), (14, [101]), (15, [101]), (11, [101, 102]), (12, [101, 104]), (17, [101, 105]), (7, [101, 105]), (8, [101, 105]), (9, [101]), (10, [101]), (19, [101, 104]), (20, [101]), (16, [104]), (200, [101, 201])]
def elseTypes : List Nat := [101]
/-- per branch: the numbers of responder calls found on the control-flow paths through the branch -/
def branchSendCounts : List (Nat × List Nat) := [(3, [1]), (4, [1]), (5, [1]), (6, [1]), (13, [1]), (18, [1]), (14, [1]), (15, [1]), (11, [1]), (12, [1]), (17, [1]), (7, [1]), (8, [1]), (9, [1]), (10, [1]), (19, [1]), (20, [1]), (16, [1]), (200, [1])]
def elseSendCounts : List Nat := [1]
/-- per branch (0 = the final else): the numbers of responder calls on the paths taken when a statement of the branch (or of a helper it calls) raises: sends before it + sends of enclosing finally blocks + the catch-all's STATUS in start_subsystem -/
def branchExcSendCounts : List (Nat × List Nat) := [(3, [1]), (4, [1]), (5, [1]), (6, [1]), (13, [1]), (18, [1]), (14, [1]), (15, [1]), (11, [1]), (12, [1]), (17, [1]), (7, [1]), (8, [1]), (9, [1]), (10, [1]), (19, [1]), (20, [1]), (16, [1]), (200, [1]), (0, [1])]
/-- the same for the helpers a branch may call instead of a responder -/
def helperSendCounts : List (List Nat) := [[1], [1], [1], [1]]
/-- SFTPServer._read_folder: the count field of the NAME packet and the entries emitted come from the same list, one (filename, longname, attrs) triple per element, unconditionally (AST) -/
def readdirCountMatchesEntries : Bool := true
/-- SFTPClient.listdir_iter re-initialises the list of awaited request ids (`nums`) inside its round loop (AST) -/
def listdirIterResetsBatch : Bool := true
/-- no method of SFTPServer calls Message.add()/add_adaptive_int(): request ids, counts and codes are written with add_int (4 bytes) whatever their value (AST) -/
def responsesUseFixedWidthFields : Bool := true
/-- SFTPFile._async_response: a pipelined write's answer is recognised by `num in self._reqs` (the whole collection) and exactly that number is removed (AST) -/
def writeStatusMatchedById : Bool := true
/-- SFTPClient._async_request: the packet is sent outside the region that holds self._lock (AST) -/
def sendOutsideLock : Bool := true
def sendUnderLock : Bool := !sendOutsideLock
end PV.Generated.C30
