/- GENERATED from paramiko/pipe.py by pv/lib_pipegen.py on every run of ./check C24 — do not edit. -/
import PV.Model.Pipe
namespace PV.Generated.C24
open PV.Pipe

def code : Code where
  posixSet := [
    .enter 1,
    .test (.or (.v .set) (.v .closed)) (some 2) (some 3),
    .ret (some 5),
    .assign .set true (some 4),
    .osWrite (some 5),
    .exit none ]
  posixClear := [
    .enter 1,
    .test (.or (.not (.v .set)) (.v .forever)) (some 2) (some 3),
    .ret (some 5),
    .osRead (some 4),
    .assign .set false (some 5),
    .exit none ]
  posixSetForever := [
    .enter 1,
    .assign .forever true (some 2),
    .call .self .set (some 3),
    .exit none ]
  orSet := [
    .enter 1,
    .assign .set true (some 2),
    .test (.not (.v .partnerSet)) (some 3) (some 4),
    .call .pipe .set (some 4),
    .exit none ]
  orClear := [
    .enter 1,
    .assign .set false (some 2),
    .test (.not (.v .partnerSet)) (some 3) (some 4),
    .call .pipe .clear (some 4),
    .exit none ]
  posixReentrant := true
  orShared := true

end PV.Generated.C24
