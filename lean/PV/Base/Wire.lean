/-
  PV.Base.Wire — executable model of `paramiko.message.Message` (typed field writers/readers)
  and of `paramiko.util.deflate_long` / `inflate_long` (default arguments).
  Mathlib-free.
-/
import PV.Base.Bytes
namespace PV.Wire
open PV

/-! ## util.deflate_long / util.inflate_long -/

/-- minimal big-endian base-256 digits (`[]` for 0) -/
def natBytes (n : Nat) : Bytes :=
  if _h : n = 0 then [] else natBytes (n / 256) ++ [UInt8.ofNat (n % 256)]
decreasing_by omega

def compl (b : Bytes) : Bytes := b.map fun x => 255 - x

/-- prepend a zero byte when the top bit of the first byte is set -/
def signPad : Bytes → Bytes
  | [] => []
  | b :: r => if b.toNat ≥ 128 then 0 :: b :: r else b :: r

/-- `deflate_long(n)` for `n ≥ 0` (note: `deflate_long(0) == b"\x00"`) -/
def deflatePos (n : Nat) : Bytes := if n = 0 then [0] else signPad (natBytes n)

/-- `util.deflate_long(z, add_sign_padding=True)` -/
def deflate (z : Int) : Bytes :=
  if 0 ≤ z then deflatePos z.toNat else compl (deflatePos (-z - 1).toNat)

/-- `util.inflate_long(s, always_positive=False)` -/
def inflate (s : Bytes) : Int :=
  match s with
  | [] => 0
  | b :: _ => if b.toNat ≥ 128 then (beVal s : Int) - (256 : Int) ^ s.length else (beVal s : Int)

/-! ## Message reader (`BytesIO` with a position) -/

structure Rd where
  content : Bytes
  pos : Nat
  deriving Repr, DecidableEq

def Rd.soFar (r : Rd) : Bytes := r.content.take r.pos
def Rd.remainder (r : Rd) : Bytes := r.content.drop r.pos

/-- `Message.get_bytes(n)`: short reads are zero-padded when `n < 2^20` -/
def Rd.getBytes (r : Rd) (n : Nat) : Bytes × Rd :=
  let b := (r.content.drop r.pos).take n
  let r' : Rd := { r with pos := r.pos + b.length }
  if b.length < n ∧ n < 1048576 then (b ++ zeros (n - b.length), r') else (b, r')

def Rd.getInt (r : Rd) : Nat × Rd :=
  let (b, r') := r.getBytes 4
  (beVal b, r')

def Rd.getString (r : Rd) : Bytes × Rd :=
  let (n, r1) := r.getInt
  r1.getBytes n

/-- Python `bytes.split(b",")` (never returns an empty list) -/
def splitComma (s : Bytes) : List Bytes :=
  go s []
where
  go : Bytes → Bytes → List Bytes
    | [], acc => [acc.reverse]
    | c :: cs, acc => if c = 44 then acc.reverse :: go cs [] else go cs (c :: acc)

/-- Python `b",".join(l)` -/
def joinComma : List Bytes → Bytes
  | [] => []
  | [a] => a
  | a :: b :: r => a ++ 44 :: joinComma (b :: r)

inductive Kind | byte | bool | u32 | u64 | adaptive | str | list | mpint
  deriving Repr, DecidableEq

inductive Field
  | byte (b : UInt8)
  | bool (b : Bool)
  | u32 (n : Nat)
  | u64 (n : Nat)
  | adaptive (z : Int)
  | str (s : Bytes)
  | list (l : List Bytes)
  | mpint (z : Int)
  deriving Repr, DecidableEq

def Field.kind : Field → Kind
  | .byte _ => .byte | .bool _ => .bool | .u32 _ => .u32 | .u64 _ => .u64
  | .adaptive _ => .adaptive | .str _ => .str | .list _ => .list | .mpint _ => .mpint

def encStr (s : Bytes) : Bytes := be32 s.length ++ s

/-- `Message.add_mpint`: zero is the empty string (RFC 4251), everything else `deflate_long` -/
def encMpint (z : Int) : Bytes := encStr (if z = 0 then [] else deflate z)

/-- the `add_*` writers -/
def encode : Field → Bytes
  | .byte b => [b]
  | .bool b => [if b then 1 else 0]
  | .u32 n => be32 n
  | .u64 n => be64 n
  | .adaptive z => if z ≥ 4278190080 then 255 :: encStr (deflate z) else be32 z.toNat
  | .str s => encStr s
  | .list l => encStr (joinComma l)
  | .mpint z => encMpint z

def encodeAll (fs : List Field) : Bytes := fs.flatMap encode

/-- the `get_*` readers -/
def decode (r : Rd) : Kind → Field × Rd
  | .byte => let (b, r') := r.getBytes 1; (.byte (b.headD 0), r')
  | .bool => let (b, r') := r.getBytes 1; (.bool (b != [0]), r')
  | .u32 => let (n, r') := r.getInt; (.u32 n, r')
  | .u64 => let (b, r') := r.getBytes 8; (.u64 (beVal b), r')
  | .adaptive =>
      let (b, r1) := r.getBytes 1
      if b = [255] then
        let (s, r2) := r1.getString
        (.adaptive (inflate s), r2)
      else
        let (b3, r2) := r1.getBytes 3
        (.adaptive (beVal (b ++ b3)), r2)
  | .str => let (s, r') := r.getString; (.str s, r')
  | .list => let (s, r') := r.getString; (.list (splitComma s), r')
  | .mpint => let (s, r') := r.getString; (.mpint (inflate s), r')

def decodeAll (r : Rd) : List Kind → List Field × Rd
  | [] => ([], r)
  | k :: ks =>
    let (f, r1) := decode r k
    let (fs, r2) := decodeAll r1 ks
    (f :: fs, r2)

/-- what the writers accept and the statement quantifies over -/
def Field.WF : Field → Prop
  | .byte _ => True
  | .bool _ => True
  | .u32 n => n < 4294967296
  | .u64 n => n < 18446744073709551616
  | .adaptive z => 0 ≤ z ∧ (deflate z).length < 4294967296
  | .str s => s.length < 4294967296
  | .list l => l ≠ [] ∧ (∀ a ∈ l, (44 : UInt8) ∉ a) ∧ (joinComma l).length < 4294967296
  | .mpint z => (deflate z).length < 4294967296

end PV.Wire
