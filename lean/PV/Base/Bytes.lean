/-
  PV.Base.Bytes — byte strings, hex transport for the line protocol, big-endian integers.
  Mathlib-free.  Everything here is executable.
-/
namespace PV

abbrev Bytes := List UInt8

/-! ## hex (line protocol) -/

def hexChar (n : Nat) : Char :=
  if n < 10 then Char.ofNat (48 + n) else Char.ofNat (87 + n)

def hexVal? (c : Char) : Option Nat :=
  if '0' ≤ c ∧ c ≤ '9' then some (c.toNat - 48)
  else if 'a' ≤ c ∧ c ≤ 'f' then some (c.toNat - 87)
  else if 'A' ≤ c ∧ c ≤ 'F' then some (c.toNat - 55)
  else none

def toHex (b : Bytes) : String :=
  String.ofList (b.flatMap fun x => [hexChar (x.toNat / 16), hexChar (x.toNat % 16)])

/-- `-` denotes the empty byte string on the wire of the line protocol. -/
def toHexTok (b : Bytes) : String := if b.isEmpty then "-" else toHex b

def ofHexChars : List Char → Option Bytes
  | [] => some []
  | [_] => none
  | a :: b :: rest =>
    match hexVal? a, hexVal? b, ofHexChars rest with
    | some x, some y, some r => some (UInt8.ofNat (x * 16 + y) :: r)
    | _, _, _ => none

def ofHex? (s : String) : Option Bytes :=
  if s == "-" then some [] else ofHexChars s.toList

/-! ## big-endian fixed width -/

/-- `width` big-endian bytes of `n` (the low `8*width` bits). -/
def beBytes : Nat → Nat → Bytes
  | 0, _ => []
  | w+1, n => beBytes w (n / 256) ++ [UInt8.ofNat (n % 256)]

/-- big-endian value of a byte string -/
def beVal (b : Bytes) : Nat := b.foldl (fun acc x => acc * 256 + x.toNat) 0

@[simp] theorem beBytes_length (w n : Nat) : (beBytes w n).length = w := by
  induction w generalizing n with
  | zero => rfl
  | succ w ih => simp [beBytes, ih]

theorem snoc_induction {α : Type} {P : List α → Prop} (h0 : P [])
    (h1 : ∀ xs x, P xs → P (xs ++ [x])) (l : List α) : P l := by
  have : ∀ r : List α, P r.reverse := by
    intro r
    induction r with
    | nil => simpa
    | cons x xs ih => simpa using h1 _ x ih
  simpa using this l.reverse

theorem beVal_append_single (a : Bytes) (x : UInt8) : beVal (a ++ [x]) = beVal a * 256 + x.toNat := by
  simp [beVal, List.foldl_append]

theorem beVal_foldl (acc : Nat) (b : Bytes) :
    b.foldl (fun acc x => acc * 256 + x.toNat) acc = acc * 256 ^ b.length + beVal b := by
  induction b generalizing acc with
  | nil => simp [beVal]
  | cons x xs ih =>
    simp only [List.foldl_cons, beVal, List.length_cons]
    rw [ih, ih (0 * 256 + x.toNat)]
    rw [Nat.pow_succ]
    simp [Nat.add_mul, Nat.mul_assoc, Nat.mul_comm 256, Nat.add_assoc]

theorem beVal_cons (x : UInt8) (xs : Bytes) : beVal (x :: xs) = x.toNat * 256 ^ xs.length + beVal xs := by
  have := beVal_foldl (0 * 256 + x.toNat) xs
  simp only [beVal, List.foldl_cons] at *
  rw [this]; simp

theorem beVal_append (a b : Bytes) : beVal (a ++ b) = beVal a * 256 ^ b.length + beVal b := by
  simp only [beVal, List.foldl_append]
  exact beVal_foldl _ _

theorem beVal_lt (b : Bytes) : beVal b < 256 ^ b.length := by
  induction b using snoc_induction with
  | h0 => simp [beVal]
  | h1 xs x ih =>
    rw [beVal_append_single, List.length_append, List.length_singleton, Nat.pow_succ]
    have := x.toNat_lt
    omega

theorem beVal_beBytes (w n : Nat) : beVal (beBytes w n) = n % 256 ^ w := by
  induction w generalizing n with
  | zero => simp [beBytes, beVal, Nat.mod_one]
  | succ w ih =>
    have hm : n % 256 % 2 ^ 8 = n % 256 := Nat.mod_eq_of_lt (Nat.mod_lt _ (by decide))
    simp only [beBytes, beVal_append_single, ih, UInt8.toNat_ofNat', hm]
    rw [Nat.pow_succ', Nat.mod_mul, Nat.mul_comm]
    exact Nat.add_comm _ _

theorem beVal_beBytes_of_lt (w n : Nat) (h : n < 256 ^ w) : beVal (beBytes w n) = n := by
  rw [beVal_beBytes, Nat.mod_eq_of_lt h]

theorem beBytes_beVal (b : Bytes) : beBytes b.length (beVal b) = b := by
  induction b using snoc_induction with
  | h0 => rfl
  | h1 xs x ih =>
    rw [List.length_append, List.length_singleton, beBytes, beVal_append_single]
    have hx := x.toNat_lt
    have h1 : (beVal xs * 256 + x.toNat) / 256 = beVal xs := by omega
    have h2 : (beVal xs * 256 + x.toNat) % 256 = x.toNat := by omega
    rw [h1, h2, ih]
    simp

def be32 (n : Nat) : Bytes := beBytes 4 n
def be64 (n : Nat) : Bytes := beBytes 8 n

theorem beVal_be32 (n : Nat) (h : n < 4294967296) : beVal (be32 n) = n :=
  beVal_beBytes_of_lt 4 n (by simpa using h)

theorem beVal_be64 (n : Nat) (h : n < 18446744073709551616) : beVal (be64 n) = n :=
  beVal_beBytes_of_lt 8 n (by simpa using h)

/-- Python `b[:n]` / `b[n:]` on bytes are `take`/`drop`; zero padding as in `Message.get_bytes`. -/
def zeros (n : Nat) : Bytes := List.replicate n 0

end PV
