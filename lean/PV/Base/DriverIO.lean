/-
  PV.Base.DriverIO — line-protocol plumbing shared by all drivers:
  one request per input line, one reply line per request.
-/
import PV.Base.Bytes
namespace PV

partial def lineLoop (step : String → String) : IO Unit := do
  let h ← IO.getStdin
  let out ← IO.getStdout
  let rec go : IO Unit := do
    let line ← h.getLine
    if line.isEmpty then return ()
    out.putStrLn (step (line.trimAscii.toString))
    go
  go
  out.flush

/-- stateful variant -/
partial def lineLoopSt {σ : Type} (init : σ) (step : σ → String → σ × String) : IO Unit := do
  let h ← IO.getStdin
  let out ← IO.getStdout
  let rec go (s : σ) : IO Unit := do
    let line ← h.getLine
    if line.isEmpty then return ()
    let (s', o) := step s (line.trimAscii.toString)
    out.putStrLn o
    go s'
  go init
  out.flush

def words (s : String) : List String := (s.splitOn " ").filter (· ≠ "")

def intOfString? (s : String) : Option Int :=
  if s.startsWith "-" then (s.drop 1).toNat?.map fun n => -(n : Int) else s.toNat?.map fun n => (n : Int)

end PV
