/-
  Helper lemmas for the wire model (kept apart from the property theorems in PV/Props/C39.lean).
-/
import PV.Base.Wire
namespace PV.Wire
open PV

/-! ### natBytes -/

theorem natBytes_zero : natBytes 0 = [] := by rw [natBytes]; simp

theorem natBytes_pos (n : Nat) (h : n ≠ 0) :
    natBytes n = natBytes (n / 256) ++ [UInt8.ofNat (n % 256)] := by
  rw [natBytes]; simp [h]

theorem beVal_natBytes (n : Nat) : beVal (natBytes n) = n := by
  induction n using Nat.strongRecOn with
  | _ n ih =>
    by_cases h : n = 0
    · subst h; simp [natBytes_zero, beVal]
    · rw [natBytes_pos n h, beVal_append_single, ih (n / 256) (by omega), UInt8.toNat_ofNat']
      have : n % 256 % 2 ^ 8 = n % 256 := Nat.mod_eq_of_lt (Nat.mod_lt _ (by decide))
      omega

theorem natBytes_ne_nil (n : Nat) (h : n ≠ 0) : natBytes n ≠ [] := by
  rw [natBytes_pos n h]; simp

/-- the leading digit of the minimal representation is non-zero -/
theorem natBytes_head_ne_zero (n : Nat) : ∀ b r, natBytes n = b :: r → b ≠ 0 := by
  induction n using Nat.strongRecOn with
  | _ n ih =>
    intro b r hbr
    by_cases h : n = 0
    · subst h; simp [natBytes_zero] at hbr
    · rw [natBytes_pos n h] at hbr
      by_cases h2 : n / 256 = 0
      · rw [h2, natBytes_zero] at hbr
        simp at hbr
        obtain ⟨hb, _⟩ := hbr
        subst hb
        have hlt : n < 256 := by omega
        intro h0
        have := congrArg UInt8.toNat h0
        rw [UInt8.toNat_ofNat'] at this
        have h3 : n % 256 % 2 ^ 8 = n := by omega
        simp at this
        omega
      · have hne := natBytes_ne_nil (n / 256) h2
        cases hq : natBytes (n / 256) with
        | nil => exact absurd hq hne
        | cons c cs =>
          rw [hq] at hbr
          simp at hbr
          obtain ⟨hb, _⟩ := hbr
          subst hb
          exact ih (n / 256) (by omega) c cs hq

/-! ### complement -/

@[simp] theorem compl_length (b : Bytes) : (compl b).length = b.length := by simp [compl]

theorem compl_toNat (x : UInt8) : (255 - x).toNat = 255 - x.toNat := by
  have := x.toNat_lt
  rw [UInt8.toNat_sub_of_le]
  · rfl
  · exact UInt8.le_iff_toNat_le.mpr (by simp; omega)

theorem beVal_compl (b : Bytes) : beVal (compl b) + beVal b + 1 = 256 ^ b.length := by
  induction b using snoc_induction with
  | h0 => simp [compl, beVal]
  | h1 xs x ih =>
    have hc : compl (xs ++ [x]) = compl xs ++ [255 - x] := by simp [compl]
    rw [hc, beVal_append_single, beVal_append_single, compl_toNat, List.length_append,
      List.length_singleton, Nat.pow_succ]
    have := x.toNat_lt
    omega

/-! ### reader -/

theorem getBytes_exact (pre x rest : Bytes) :
    Rd.getBytes { content := pre ++ x ++ rest, pos := pre.length } x.length
      = (x, { content := pre ++ x ++ rest, pos := pre.length + x.length }) := by
  unfold Rd.getBytes
  simp [List.append_assoc]

theorem getBytes_content (r : Rd) (n : Nat) : (r.getBytes n).2.content = r.content := by
  unfold Rd.getBytes; simp only; split <;> rfl

theorem getBytes_pos_le (r : Rd) (n : Nat) (h : r.pos ≤ r.content.length) :
    (r.getBytes n).2.pos ≤ r.content.length := by
  unfold Rd.getBytes; simp only
  split <;> simp <;> omega

end PV.Wire
