/-
  C36 — Keys survive serialisation and new key files are private to the owner.   (PARTIAL)
  Property theorems only.  Model: PV/Model/PubKey.lean (helpers: PV/Model/PubKeyLemmas.lean).

  Proved, for every primitive set `P` and all key material:
    * public blob round trip per key type: `Class(data=k.asbytes())` rebuilds exactly `k`'s public
      material with no certificate attached (`rsa_roundtrip`, `ec_roundtrip`, `ed_roundtrip`), and a
      certificate blob yields the same public material plus the stored certificate (`*_cert_decode`);
    * identity: `__eq__`/`__hash__` are functions of the public material only — the presence of a
      private half or of a certificate never matters (`eq_public_only`, `hash_public_only`); equal keys
      have equal blobs hence equal fingerprints (`eq_same_fingerprint`), and different public
      material gives different blobs (`encode_injective`);
    * a key file created by `_write_private_key_file` has no group/other permission bit and nothing
      beyond rw for the owner, for every umask (`new_file_private`).
  NOT modelled (validated by the oracle on the real code only): the private-key serialisation itself
  (cryptography's `private_bytes` + the PEM reader, passphrases), the digest functions.
-/
import PV.Model.PubKeyLemmas
import PV.Model.KeyWrite
namespace PV.Props.C36
open PV PV.Wire PV.Sig PV.KeyUtf8 PV.PubKey

/-! ## what the encoders accept (sizes that fit the 32-bit length fields; coordinates that fit the curve) -/

def Pub.WF : Pub → Prop
  | .rsa e n => (deflate e).length < 4294967296 ∧ (deflate n).length < 4294967296
  | .ec c x y => x < 256 ^ c.size ∧ y < 256 ^ c.size
  | .ed pk => pk.length < 4294967296

private theorem body_len (z : Int) (h : (deflate z).length < 4294967296) :
    (if z = 0 then ([] : Bytes) else deflate z).length < 4294967296 := by
  split
  · simp
  · exact h

private theorem names_ok :
    utf8Valid nSshRsa = true ∧ utf8Valid nEd = true ∧
    (∀ c : Curve, utf8Valid c.name = true ∧ c.name.length < 4294967296 ∧
      utf8Valid c.nist = true ∧ c.nist.length < 4294967296 ∧ 0 < c.size) := by
  refine ⟨by decide, by decide, ?_⟩
  intro c; cases c <;> decide

/-! ## public blob round trips -/

/-- RSA: `RSAKey(data=asbytes(e, n))` has exactly the numbers `(e, n)` and no certificate.
    `hacc`: cryptography accepts these public numbers (it does for every real key). -/
theorem rsa_roundtrip (P : Prims) (e n : Int) (hwf : Pub.WF (.rsa e n)) (hacc : P.rsaMake e n = none) :
    rsaDecode P (encode (.rsa e n)) = .ok { pub := .rsa e n, hasPrivate := false, cert := none } := by
  obtain ⟨he, hn⟩ := hwf
  unfold rsaDecode checkType
  simp only [PubKey.encode]
  rw [List.append_assoc, getTextE_head nSshRsa _ (by decide) names_ok.1]
  simp only [List.contains_cons, beq_self_eq_true, Bool.true_or, if_true]
  have h1 := getString_at (encStr nSshRsa) (if e = 0 then [] else deflate e) (encMpint n) (body_len e he)
  have h2 := getString_at (encStr nSshRsa ++ encMpint e) (if n = 0 then [] else deflate n) [] (body_len n hn)
  simp only [← encMpint_eq, List.append_nil] at h1 h2
  simp only [List.append_assoc] at h1 h2 ⊢
  rw [h1]
  simp only
  rw [h2]
  simp only [inflate_encMpintBody, hacc]

/-- SEC1 law for one point: the primitive decodes `04 ‖ X ‖ Y` (fixed-width big-endian halves) to the
    affine coordinates.  (cryptography's `from_encoded_point`; on-curve points only.) -/
def Sec1 (P : Prims) (c : Curve) (x y : Nat) : Prop :=
  ∀ X Y : Bytes, X.length = c.size → Y.length = c.size → beVal X = x → beVal Y = y →
    P.ecPoint c (4 :: (X ++ Y)) = .ok (x, y)

/-- ECDSA, all three curves: `asbytes` is the SEC1 uncompressed encoding, and decoding it gives the
    same curve and coordinates. -/
theorem ec_roundtrip (P : Prims) (c : Curve) (x y : Nat) (hwf : Pub.WF (.ec c x y)) (hp : Sec1 P c x y) :
    ecDecode P (encode (.ec c x y)) = .ok { pub := .ec c x y, hasPrivate := false, cert := none } := by
  obtain ⟨hx, hy⟩ := hwf
  obtain ⟨hnv, hnl, hcv, hcl, hsz⟩ := names_ok.2.2 c
  have hpt : P.ecPoint c (pointBytes c x y) = .ok (x, y) := by
    unfold pointBytes
    exact hp _ _ (padCoord_length _ _ hsz hx) (padCoord_length _ _ hsz hy) (padCoord_val _ _) (padCoord_val _ _)
  have hptl : (pointBytes c x y).length < 4294967296 := by
    unfold pointBytes
    simp only [List.length_cons, List.length_append, padCoord_length _ _ hsz hx, padCoord_length _ _ hsz hy]
    cases c <;> decide
  unfold ecDecode checkType
  simp only [PubKey.encode]
  rw [List.append_assoc, getTextE_head c.name _ hnl hnv]
  simp only
  have hmem : [nEc256, nEc384, nEc521].contains c.name = true := by cases c <;> decide
  have hcurve : curveOfName (stripCert c.name) = some c := by cases c <;> decide
  simp only [hmem, if_true, hcurve]
  have h1 := getTextE_at (encStr c.name) c.nist (encStr (pointBytes c x y)) hcl hcv
  have h2 := getString_at (encStr c.name ++ encStr c.nist) (pointBytes c x y) [] hptl
  simp only [List.append_nil] at h2
  simp only [List.append_assoc] at h1 h2 ⊢
  rw [h1]
  simp only [ne_eq, not_true_eq_false, if_false]
  rw [h2]
  simp only [hpt]

/-- Ed25519: `hacc` = nacl accepts the 32 bytes. -/
theorem ed_roundtrip (P : Prims) (pk : Bytes) (hwf : Pub.WF (.ed pk)) (hacc : P.edMake pk = none) :
    edDecode P (encode (.ed pk)) = .ok { pub := .ed pk, hasPrivate := false, cert := none } := by
  unfold edDecode checkType
  simp only [PubKey.encode]
  rw [getTextE_head nEd _ (by decide) names_ok.2.1]
  simp only [List.contains_cons, beq_self_eq_true, Bool.true_or, if_true]
  have h1 := getString_at (encStr nEd) pk [] hwf
  simp only [List.append_nil] at h1
  rw [h1]
  simp only [hacc]

/-- the reference primitives: accept everything / plain SEC1 split -/
def refPrims : Prims where
  rsaMake := fun _ _ => none
  ecPoint := fun c b =>
    match b with
    | t :: rest =>
      if t = 4 ∧ rest.length = 2 * c.size then .ok (beVal (rest.take c.size), beVal (rest.drop c.size))
      else .error "ValueError"
    | [] => .error "ValueError"
  edMake := fun b => if b.length = 32 then none else some "ValueError"

theorem refPrims_sec1 (c : Curve) (x y : Nat) : Sec1 refPrims c x y := by
  intro X Y hX hY hx hy
  simp only [refPrims]
  have hl : (X ++ Y).length = 2 * c.size := by simp [hX, hY]; omega
  simp only [hl, and_self, if_true]
  rw [← hX]
  simp [hx, hy]

/-- non-vacuity: a concrete P-256 point and a concrete RSA key -/
example : ecDecode refPrims (encode (.ec .p256 258 7)) = .ok { pub := .ec .p256 258 7, hasPrivate := false, cert := none } :=
  ec_roundtrip refPrims .p256 258 7 (by unfold Pub.WF; decide) (refPrims_sec1 _ _ _)

example : rsaDecode refPrims (encode (.rsa 65537 3233)) = .ok { pub := .rsa 65537 3233, hasPrivate := false, cert := none } :=
  rsa_roundtrip refPrims 65537 3233
    ⟨by have h := deflate_length_int 65537 3 (by decide) (by decide)
        omega,
     by have h := deflate_length_int 3233 2 (by decide) (by decide)
        omega⟩ rfl

/-! ## certificate-bearing blobs -/

/-- a key built from an `ssh-rsa-cert-v01@openssh.com` blob takes `(e, n)` from behind the nonce and
    keeps the whole blob as its certificate; `asbytes()` of the result is the plain key again -/
theorem rsa_cert_decode (P : Prims) (nonce rest : Bytes) (e n : Int) (hwf : Pub.WF (.rsa e n))
    (hnonce : nonce.length < 4294967296) (hacc : P.rsaMake e n = none) :
    let blob := encStr (nSshRsa ++ certSuffix) ++ encStr nonce ++ encMpint e ++ encMpint n ++ rest
    rsaDecode P blob = .ok { pub := .rsa e n, hasPrivate := false, cert := some blob } := by
  obtain ⟨he, hn⟩ := hwf
  intro blob
  have hb : blob = encStr (nSshRsa ++ certSuffix) ++ (encStr nonce ++ encMpint e ++ encMpint n ++ rest) := by
    simp [blob, List.append_assoc]
  unfold rsaDecode checkType
  rw [hb, getTextE_head (nSshRsa ++ certSuffix) _ (by decide) (by decide)]
  have hnot : [nSshRsa].contains (nSshRsa ++ certSuffix) = false := by decide
  have hyes : ([nSshRsa].map (· ++ certSuffix)).contains (nSshRsa ++ certSuffix) = true := by decide
  simp only [hnot, hyes, if_true, Bool.false_eq_true, if_false]
  have h0 := getString_at (encStr (nSshRsa ++ certSuffix)) nonce (encMpint e ++ encMpint n ++ rest) hnonce
  have h1 := getString_at (encStr (nSshRsa ++ certSuffix) ++ encStr nonce) (if e = 0 then [] else deflate e)
    (encMpint n ++ rest) (body_len e he)
  have h2 := getString_at (encStr (nSshRsa ++ certSuffix) ++ encStr nonce ++ encMpint e)
    (if n = 0 then [] else deflate n) rest (body_len n hn)
  simp only [← encMpint_eq] at h1 h2
  simp only [List.append_assoc] at h0 h1 h2 ⊢
  rw [h0]
  simp only
  rw [h1]
  simp only
  rw [h2]
  simp only [inflate_encMpintBody, hacc]

theorem ed_cert_decode (P : Prims) (nonce rest pk : Bytes) (hwf : Pub.WF (.ed pk))
    (hnonce : nonce.length < 4294967296) (hacc : P.edMake pk = none) :
    let blob := encStr (nEd ++ certSuffix) ++ encStr nonce ++ encStr pk ++ rest
    edDecode P blob = .ok { pub := .ed pk, hasPrivate := false, cert := some blob } := by
  intro blob
  have hb : blob = encStr (nEd ++ certSuffix) ++ (encStr nonce ++ encStr pk ++ rest) := by
    simp [blob, List.append_assoc]
  unfold edDecode checkType
  rw [hb, getTextE_head (nEd ++ certSuffix) _ (by decide) (by decide)]
  have hnot : [nEd].contains (nEd ++ certSuffix) = false := by decide
  have hyes : ([nEd].map (· ++ certSuffix)).contains (nEd ++ certSuffix) = true := by decide
  simp only [hnot, hyes, if_true, Bool.false_eq_true, if_false]
  have h0 := getString_at (encStr (nEd ++ certSuffix)) nonce (encStr pk ++ rest) hnonce
  have h1 := getString_at (encStr (nEd ++ certSuffix) ++ encStr nonce) pk rest hwf
  simp only [List.append_assoc] at h0 h1 ⊢
  rw [h0]
  simp only
  rw [h1]
  simp only [hacc]

theorem ec_cert_decode (P : Prims) (c : Curve) (nonce rest : Bytes) (x y : Nat) (hwf : Pub.WF (.ec c x y))
    (hnonce : nonce.length < 4294967296) (hp : Sec1 P c x y) :
    let blob := encStr (c.name ++ certSuffix) ++ encStr nonce ++ encStr c.nist ++ encStr (pointBytes c x y) ++ rest
    ecDecode P blob = .ok { pub := .ec c x y, hasPrivate := false, cert := some blob } := by
  obtain ⟨hx, hy⟩ := hwf
  obtain ⟨hnv, hnl, hcv, hcl, hsz⟩ := names_ok.2.2 c
  have hpt : P.ecPoint c (pointBytes c x y) = .ok (x, y) := by
    unfold pointBytes
    exact hp _ _ (padCoord_length _ _ hsz hx) (padCoord_length _ _ hsz hy) (padCoord_val _ _) (padCoord_val _ _)
  have hptl : (pointBytes c x y).length < 4294967296 := by
    unfold pointBytes
    simp only [List.length_cons, List.length_append, padCoord_length _ _ hsz hx, padCoord_length _ _ hsz hy]
    cases c <;> decide
  intro blob
  have hb : blob = encStr (c.name ++ certSuffix) ++ (encStr nonce ++ encStr c.nist ++ encStr (pointBytes c x y) ++ rest) := by
    simp [blob, List.append_assoc]
  have hcn : utf8Valid (c.name ++ certSuffix) = true ∧ (c.name ++ certSuffix).length < 4294967296 := by
    cases c <;> decide
  unfold ecDecode checkType
  rw [hb, getTextE_head (c.name ++ certSuffix) _ hcn.2 hcn.1]
  simp only
  have hnot : [nEc256, nEc384, nEc521].contains (c.name ++ certSuffix) = false := by cases c <;> decide
  have hyes : ([nEc256, nEc384, nEc521].map (· ++ certSuffix)).contains (c.name ++ certSuffix) = true := by
    cases c <;> decide
  have hcurve : curveOfName (stripCert (c.name ++ certSuffix)) = some c := by cases c <;> decide
  simp only [hnot, hyes, if_true, Bool.false_eq_true, if_false, hcurve]
  have h0 := getString_at (encStr (c.name ++ certSuffix)) nonce (encStr c.nist ++ encStr (pointBytes c x y) ++ rest) hnonce
  have h1 := getTextE_at (encStr (c.name ++ certSuffix) ++ encStr nonce) c.nist (encStr (pointBytes c x y) ++ rest) hcl hcv
  have h2 := getString_at (encStr (c.name ++ certSuffix) ++ encStr nonce ++ encStr c.nist) (pointBytes c x y) rest hptl
  simp only [List.append_assoc] at h0 h1 h2 ⊢
  rw [h0]
  simp only
  rw [h1]
  simp only [ne_eq, not_true_eq_false, if_false]
  rw [h2]
  simp only [hpt]

/-! ## identity depends on the public material only -/

/-- `__eq__` compares `_fields`, i.e. public material: private half and certificate are irrelevant -/
theorem eq_public_only (a b : KeyObj) : keyEq a b = true ↔ a.pub = b.pub := by
  simp [keyEq, fields]

theorem eq_ignores_private_and_cert (p : Pub) (h1 h2 : Bool) (c1 c2 : Option Bytes) :
    keyEq ⟨p, h1, c1⟩ ⟨p, h2, c2⟩ = true := by
  simp [keyEq, fields]

/-- `__hash__`: equal keys hash equally, for every hash of the field tuple -/
theorem hash_public_only (h : Pub → Nat) (a b : KeyObj) (hab : keyEq a b = true) :
    keyHash h a = keyHash h b := by
  rw [eq_public_only] at hab
  simp [keyHash, fields, hab]

/-- equal keys have the same blob, hence the same fingerprint under every digest -/
theorem eq_same_fingerprint (d : Bytes → Bytes) (a b : KeyObj) (hab : keyEq a b = true) :
    encode a.pub = encode b.pub ∧ fingerprint d a = fingerprint d b := by
  rw [eq_public_only] at hab
  simp [fingerprint, hab]

/-- the object rebuilt from a key's public bytes equals the key and has its fingerprint — whatever
    route built the original (private half / certificate present or not) -/
theorem rebuilt_equal (P : Prims) (k k' : KeyObj) (d : Bytes → Bytes)
    (_hdec : (match k.pub with
              | .rsa _ _ => rsaDecode P (encode k.pub)
              | .ec _ _ _ => ecDecode P (encode k.pub)
              | .ed _ => edDecode P (encode k.pub)) = .ok k')
    (hrt : k'.pub = k.pub) : keyEq k' k = true ∧ fingerprint d k' = fingerprint d k := by
  have : keyEq k' k = true := (eq_public_only _ _).mpr hrt
  exact ⟨this, (eq_same_fingerprint d _ _ this).2⟩

/-- the first string of a blob is the key type name -/
private def typeName : Pub → Bytes
  | .rsa _ _ => nSshRsa
  | .ec c _ _ => c.name
  | .ed _ => nEd

private theorem head_typeName (p : Pub) :
    (Rd.getString { content := encode p, pos := 0 }).1 = typeName p := by
  cases p with
  | rsa e n =>
    simp only [PubKey.encode, typeName, List.append_assoc]
    rw [getString_head nSshRsa _ (by decide)]
  | ec c x y =>
    simp only [PubKey.encode, typeName, List.append_assoc]
    rw [getString_head c.name _ (names_ok.2.2 c).2.1]
  | ed pk =>
    simp only [PubKey.encode, typeName]
    rw [getString_head nEd _ (by decide)]

/-- different public material ⇒ different blobs (so equal fingerprints can only come from a digest
    collision) -/
theorem encode_injective (p q : Pub) (hp : Pub.WF p) (hq : Pub.WF q) (h : encode p = encode q) : p = q := by
  have hn : typeName p = typeName q := by rw [← head_typeName p, ← head_typeName q, h]
  cases p with
  | rsa e n =>
    cases q with
    | rsa e' n' =>
      have h1 := rsa_roundtrip refPrims e n hp rfl
      have h2 := rsa_roundtrip refPrims e' n' hq rfl
      rw [h] at h1; rw [h1] at h2
      simpa using h2
    | ec c x y => cases c <;> simp [typeName] at hn <;> exact absurd hn (by decide)
    | ed pk => simp [typeName] at hn; exact absurd hn (by decide)
  | ec c x y =>
    cases q with
    | rsa e' n' => cases c <;> simp [typeName] at hn <;> exact absurd hn (by decide)
    | ec c' x' y' =>
      have h1 := ec_roundtrip refPrims c x y hp (refPrims_sec1 _ _ _)
      have h2 := ec_roundtrip refPrims c' x' y' hq (refPrims_sec1 _ _ _)
      rw [h] at h1; rw [h1] at h2
      simpa using h2
    | ed pk => cases c <;> simp [typeName] at hn <;> exact absurd hn (by decide)
  | ed pk =>
    cases q with
    | rsa e' n' => simp [typeName] at hn; exact absurd hn (by decide)
    | ec c x y => cases c <;> simp [typeName] at hn <;> exact absurd hn (by decide)
    | ed pk' =>
      have hstr : ∀ s : Bytes, s.length < 4294967296 →
          (Rd.getString { content := encStr nEd ++ encStr s, pos := (encStr nEd).length }).1 = s := by
        intro s hs
        have := getString_at (encStr nEd) s [] hs
        simp only [List.append_nil] at this
        rw [this]
      have e1 := hstr pk hp
      have e2 := hstr pk' hq
      simp only [PubKey.encode] at h
      rw [h] at e1
      rw [e1] at e2
      rw [e2]

/-! ## mode of a newly created key file -/

/-- for every umask a file created by `_write_private_key_file` carries no group/other bit and
    nothing outside `rw-------` -/
theorem new_file_private (umask : Nat) :
    keyFileMode none umask &&& 0o077 = 0 ∧ keyFileMode none umask &&& 0o600 = keyFileMode none umask := by
  unfold keyFileMode openMode
  simp only
  generalize (0o7777 ^^^ (umask &&& 0o7777)) = X
  constructor
  · rw [Nat.and_comm 0o600 X, Nat.and_assoc]
    simp
  · rw [Nat.and_comm 0o600 X, Nat.and_assoc]
    simp

/-- with the usual umasks the mode is exactly 0600 -/
theorem new_file_mode_usual : keyFileMode none 0o022 = 0o600 ∧ keyFileMode none 0o077 = 0o600 ∧
    keyFileMode none 0 = 0o600 ∧ keyFileMode none 0o277 = 0o400 := by decide

/-- an existing target keeps its mode (the code documents this: "it will not act like a chmod") -/
theorem existing_file_keeps_mode (m umask : Nat) : keyFileMode (some m) umask = m := rfl

/-! ## the write path: which serialisation call paramiko makes for which passphrase -/

open PV.KeyWrite in
private theorem chooseEnc_none_iff (p : Pass) (enc : Enc) (h : chooseEnc p = .ok enc) :
    enc = .noEncryption ↔ p = .none := by
  cases p with
  | none => simp [chooseEnc] at h; subst h; simp
  | bytes b =>
    simp only [chooseEnc, KeyWrite.toBytes] at h
    split at h
    · simp at h
    · simp at h; subst h; simp
  | str b =>
    simp only [chooseEnc, KeyWrite.toBytes] at h
    split at h
    · simp at h
    · simp at h; subst h; simp
  | other => simp [chooseEnc, KeyWrite.toBytes] at h

open PV.KeyWrite in
/-- no passphrase ⇒ `NoEncryption()`; this is the only way an unencrypted file is written -/
theorem write_unencrypted_iff_none (c : KeyWrite.Cls) (hp : Bool) (p : Pass) (call : Call)
    (h : writeKey c hp p = .ok call) : call.enc = .noEncryption ↔ p = .none := by
  unfold writeKey at h
  cases c <;> simp only at h
  · split at h
    · simp at h
    · next enc he => split at h <;> simp at h; subst h; exact chooseEnc_none_iff p enc he
  · split at h
    · simp at h
    · next enc he => split at h <;> simp at h; subst h; exact chooseEnc_none_iff p enc he
  · simp at h

open PV.KeyWrite in
/-- a (non-empty) passphrase, `bytes` or `str`, is handed to `BestAvailableEncryption` as exactly its
    bytes / its UTF-8 encoding — so the same passphrase given as `str` or as `bytes` protects alike -/
theorem write_passphrase_encrypts (c : KeyWrite.Cls) (b : Bytes) (hb : b ≠ []) (hc : c ≠ .ed) :
    writeKey c true (.bytes b) = .ok { enc := .best b } ∧ writeKey c true (.str b) = .ok { enc := .best b } := by
  cases c <;> simp_all [writeKey, chooseEnc, KeyWrite.toBytes]

open PV.KeyWrite in
/-- the statement does not cover the empty passphrase: it is refused (`ValueError`), never written
    unencrypted; a non-bytes/str passphrase is a `TypeError`; Ed25519Key cannot write at all -/
theorem write_refusals (c : KeyWrite.Cls) (hp : Bool) (hc : c ≠ .ed) :
    writeKey c hp (.bytes []) = .error .valueError ∧ writeKey c hp (.str []) = .error .valueError ∧
    writeKey c hp .other = .error .typeError ∧ (∀ p, writeKey .ed hp p = .error .notImplemented) := by
  cases c <;> simp_all [writeKey, chooseEnc, KeyWrite.toBytes]

open PV.KeyWrite in
/-- whatever the passphrase and whether or not the write succeeds, a target created by
    `write_private_key_file` is private to the owner (and an existing one keeps its mode) -/
theorem write_file_mode (c : KeyWrite.Cls) (hc : c ≠ .ed) (hp : Bool) (p : Pass) (existing : Option Nat) (umask : Nat) :
    ∃ fa, (writeKeyFile c hp p existing umask).2 = some fa ∧ fa.mode = keyFileMode existing umask ∧
      (existing = none → fa.mode &&& 0o077 = 0) := by
  cases c
  · unfold writeKeyFile
    simp only
    split <;> exact ⟨_, rfl, rfl, fun he => by subst he; exact (new_file_private umask).1⟩
  · unfold writeKeyFile
    simp only
    split <;> exact ⟨_, rfl, rfl, fun he => by subst he; exact (new_file_private umask).1⟩
  · exact absurd rfl hc

open PV.KeyWrite in
/-- every destination state: a file that `write_private_key_file` CREATES (nothing at the path, or a
    dangling symlink) is private to the owner for every umask; existing files keep their mode; with a
    missing directory nothing is created at all (the error is passed on) -/
theorem created_file_private (d : Dest) (umask m : Nat) (h : openDest d umask = .ok (m, true)) :
    m &&& 0o077 = 0 ∧ m &&& 0o600 = m := by
  cases d <;> simp [openDest] at h
  all_goals (subst h; exact new_file_private umask)

open PV.KeyWrite in
theorem missing_parent_creates_nothing (umask : Nat) :
    openDest .missingParent umask = .error .fileNotFound := rfl

end PV.Props.C36
