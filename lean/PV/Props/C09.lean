/-
  C09 — Strict key exchange stops handshake sequence-number manipulation (Terrapin).
  Model: PV/Model/RunLoop.lean; invariant and helper lemmas: PV/Model/RunLoopLemmas.lean; dispatch tables
  of the tree under test: PV/Generated/C12.lean.  Property theorems only.
-/
import PV.Model.RunLoopLemmas
import PV.Generated.C12
namespace PV.Props.C09
open PV PV.RunLoop

/-- the tables of the tree under test route KEXINIT and NEWKEYS to the transport (re-proved on every run) -/
theorem generated_tables_ok : KexTables Generated.C12.tables :=
  ⟨by decide, by decide, by decide, by decide, by decide⟩

/-- **Order of the checks in `Transport.run`** (AST of the loop body, read on every run): the expected-packet test
comes before any handler-table dispatch and before the server's pre-auth gate `_ensure_authed`, as in the model's
`body` / `afterExpected` — nothing gets to answer a message that is not the armed one. -/
theorem expected_check_precedes_dispatch : Generated.C12.expectedCheckBeforeDispatch = true := by decide

/-- **Every well-framed packet reaches the loop** (AST of `Packetizer.read_message`, read on every run): no recursion
and no loop inside `read_message`, so the packetizer cannot consume a packet on its own — the model's `recv` is one
packet, one loop iteration, and `_enforce_strict_kex` / the expected-packet test see everything that advanced the
sequence number. -/
theorem read_message_delivers_every_packet : Generated.C12.readMessageDeliversEveryPacket = true := by decide

/-- **Every packet read during the handshake is judged** (AST of the loop body of `Transport.run`, read on every run):
between `packetizer.read_message()` and the expected-packet test the only ways to `continue` are the IGNORE and DEBUG
branches, which call `_enforce_strict_kex` first — as in the model's `body`, where every received packet either passes
`enforceStrict` or reaches `afterExpected`.  No flag (a "guessed kex packet follows", say) can make the loop drop a
packet unjudged. -/
theorem run_judges_every_packet : Generated.C12.runJudgesEveryPacket = true := by decide

/-- every paramiko kex engine, in both roles, arms a non-empty set of kex-range types at each step -/
theorem engines_wf (k : KexKind) (server : Bool) : (engineOf k server).WF := by
  cases k <;> cases server <;> simp [Engine.WF, EStep.WF, engineOf, Engine.script]

/-- **Main theorem.**  Take any transport (either role, either class, strict mode offered or not), any list of
events whatsoever — packets of any type with any payload in any order, any answers of the unmodelled parts,
local rekey triggers.  If the run ever has `initial_kex_done` set, consider the first step that set it.  If
that step ended without error and strict mode was agreed, then the packets received up to and including it are
*exactly* `KEXINIT ++ w ++ NEWKEYS` where `w` is a word of the negotiated kex engine's script (one accepted type
per step, nothing else: no IGNORE, DEBUG, UNIMPLEMENTED, no second KEXINIT, nothing before the KEXINIT, which
therefore had sequence number 0), and the inbound sequence number is 0 again. -/
theorem strict_initial_kex_exact (T : Tables) (hT : KexTables T) (server srt adv sig : Bool) (evs : List Ev)
    (hev : ∀ ev ∈ evs, ev.WF) (hdone : (run T (init server srt adv sig) evs).initialKexDone = true) :
    ∃ s0 s1, firstDone T (init server srt adv sig) evs = some (s0, s1) ∧
      (s1.err = none → s1.agreedStrict = true →
        ∃ e0 w, s0.kexScript = some e0 ∧ Accepts w e0.script ∧
          s1.rx = MSG_KEXINIT :: w ++ [MSG_NEWKEYS] ∧ s1.seqIn = 0) := by
  obtain ⟨he0, hd0, hi0⟩ := init_inv server srt adv sig
  obtain ⟨s0, s1, hf⟩ := firstDone_exists T _ evs hd0 hdone
  refine ⟨s0, s1, hf, fun he1 hstrict => ?_⟩
  obtain ⟨t, p, x, _, _, _, ht, hrx, hst, e0, hscr, hrest⟩ := firstDone_spec T hT _ evs hev he0 hd0 hi0 s0 s1 hf he1
  simp only [St.kv] at hrx hst hscr hrest
  obtain ⟨hseq, w, hw, hacc⟩ := hrest (by rw [← hst]; exact hstrict)
  exact ⟨e0, w, hscr, hacc, by simp [hrx, hw], hseq⟩

/-- the same for the tree under test -/
theorem C09 (server srt adv sig : Bool) (evs : List Ev) (hev : ∀ ev ∈ evs, ev.WF)
    (hdone : (run Generated.C12.tables (init server srt adv sig) evs).initialKexDone = true) :
    ∃ s0 s1, firstDone Generated.C12.tables (init server srt adv sig) evs = some (s0, s1) ∧
      (s1.err = none → s1.agreedStrict = true →
        ∃ e0 w, s0.kexScript = some e0 ∧ Accepts w e0.script ∧
          s1.rx = MSG_KEXINIT :: w ++ [MSG_NEWKEYS] ∧ s1.seqIn = 0) :=
  strict_initial_kex_exact _ generated_tables_ok server srt adv sig evs hev hdone

/-- **Any out-of-order message ends the connection.**  During a strict initial key exchange (anywhere on a run
from the initial state, invariant `KInv`), a packet whose type is not the armed one — IGNORE, DEBUG,
UNIMPLEMENTED, a second KEXINIT, anything — leaves the loop; unless it is a DISCONNECT (which ends the session
anyway) or trips the roll-over guard, the reason is MessageOrderError. -/
theorem strict_rejects_out_of_order (T : Tables) (s : St) (hi : KInv s.kv) (he : s.err = none)
    (hd : s.initialKexDone = false) (hs : s.agreedStrict = true) (t : Nat) (ht : ¬ s.expected.contains t = true)
    (p : Bytes) (x : Ext) :
    (step T s (.recv t p x)).active = false ∧
      (t ≠ MSG_DISCONNECT → (s.seqIn + 1) % SEQ_MOD ≠ 0 → (step T s (.recv t p x)).err = some .strictOrder) := by
  have hact : s.active = true := hi.active
  have hexp : s.expected ≠ [] := hi.expected_ne
  unfold step
  simp only [hact, he, Option.isNone_none, and_self, if_true]
  unfold recv
  by_cases hroll : (s.seqIn + 1) % SEQ_MOD = 0 ∧ ¬ s.initialKexDone = true
  · simp [hroll, St.fail]
  · simp only [hroll, if_false]
    have hroll' : (s.seqIn + 1) % SEQ_MOD ≠ 0 := fun h0 => hroll ⟨h0, by simp [hd]⟩
    unfold body
    by_cases h2 : t = MSG_IGNORE
    · subst h2; simp [enforceStrict, bump, hs, hd, St.fail, MSG_IGNORE, MSG_DISCONNECT]
    · by_cases h1 : t = MSG_DISCONNECT
      · subst h1; simp [MSG_IGNORE, MSG_DISCONNECT]
      · by_cases h4 : t = MSG_DEBUG
        · subst h4; simp [enforceStrict, bump, hs, hd, St.fail, MSG_IGNORE, MSG_DISCONNECT, MSG_DEBUG]
        · simp only [h2, h1, h4, if_false, afterExpected, bump, hexp, ne_eq, not_false_eq_true, if_true, ht,
            hs, St.fail]
          simp

/-- a KEXINIT that is not the peer's first packet is refused as soon as it makes strict mode agreed -/
theorem late_kexinit_rejected (T : Tables) (hT : KexTables T) (s : St) (hi : KInv s.kv) (ha : PreA s.kv)
    (he : s.err = none) (hd : s.initialKexDone = false) (hlk : s.localKexInit = true) (p : Bytes) (x : Ext)
    (hparse : x.kex ≠ .malformed)
    (hagree : (scanMarkers s.server s.advertiseStrict x.kexNames (none, s.agreedStrict)).2 = true)
    (hlate : s.seqIn ≠ 0) (hroll : (s.seqIn + 1) % SEQ_MOD ≠ 0) :
    (step T s (.recv MSG_KEXINIT p x)).err = some .strictOrder := by
  have hact : s.active = true := hi.active
  have hexp : s.expected = [MSG_KEXINIT] := ha.expected
  unfold step
  simp only [hact, he, Option.isNone_none, and_self, if_true]
  unfold recv
  simp only [hroll, false_and, if_false]
  unfold body afterExpected
  simp only [show ¬ (MSG_KEXINIT = MSG_IGNORE) by decide, show ¬ (MSG_KEXINIT = MSG_DISCONNECT) by decide,
    show ¬ (MSG_KEXINIT = MSG_DEBUG) by decide, if_false, bump, hexp, ne_eq, List.cons_ne_self, not_false_eq_true,
    if_true, List.contains_cons, BEq.rfl, Bool.true_or, not_true_eq_false,
    show ¬ (30 ≤ MSG_KEXINIT ∧ MSG_KEXINIT ≤ 41) by decide, reduceCtorEq]
  rw [dispatch_kexinit T hT]
  unfold negotiateKeys ensureLocalKexInit
  simp only [hlk, not_true_eq_false, if_false, St.andThen, he, Option.isSome_none, Bool.false_eq_true]
  unfold parseKexInit
  cases hk : x.kex with
  | malformed => exact absurd hk hparse
  | incompatible => simp [hagree, hd, hlate, St.fail]
  | ok e => simp [hagree, hd, hlate, St.fail]

/-- the stray packets a peer can get accepted before its KEXINIT: IGNORE and DEBUG only -/
def strays (ts : List Nat) : List Ev := ts.map fun t => Ev.recv t [] {}

/-- **No wrap during the initial exchange.**  From *any* inbound counter value (not just 0) and any number of stray
IGNORE/DEBUG packets before the peer's KEXINIT: as long as no error is raised the counter has simply been added to —
it never passes 2^32 − 1, so distinct packets of the initial exchange carry distinct sequence numbers and
"KEXINIT has number 0" can only mean "nothing came before it".  The roll-over guard is what makes this true, and it
reads the masked value it then stores (AST of `read_message` / `send_message`, read on every run). -/
theorem initial_kex_counter_never_wraps (T : Tables) (s : St) (ts : List Nat)
    (hts : ∀ t ∈ ts, t = MSG_IGNORE ∨ t = MSG_DEBUG)
    (hact : s.active = true) (he : s.err = none) (hd : s.initialKexDone = false) (hns : s.agreedStrict = false)
    (hlt : s.seqIn < SEQ_MOD) (hok : (run T s (strays ts)).err = none) :
    (run T s (strays ts)).seqIn = s.seqIn + ts.length ∧ s.seqIn + ts.length < SEQ_MOD ∧
      (run T s (strays ts)).expected = s.expected ∧ (run T s (strays ts)).agreedStrict = false ∧
      (run T s (strays ts)).active = true ∧ (run T s (strays ts)).initialKexDone = false ∧
      (run T s (strays ts)).localKexInit = s.localKexInit ∧
      Generated.C12.rolloverGuardReadsAssignedValue = true := by
  induction ts generalizing s with
  | nil => simp [strays, run, hlt, hns, hact, hd]; decide
  | cons t ts ih =>
    have ht := hts t (by simp)
    have hrun : run T s (strays (t :: ts)) = run T (step T s (.recv t [] {})) (strays ts) := rfl
    have hstep : step T s (.recv t [] {}) = (if (s.seqIn + 1) % SEQ_MOD = 0 then s.fail .rollover else bump s t) := by
      simp only [step, hact, he, Option.isNone_none, and_self, if_true, recv, hd, Bool.false_eq_true,
        not_false_eq_true, and_true]
      by_cases hr : (s.seqIn + 1) % SEQ_MOD = 0
      · simp [hr]
      · simp only [hr, if_false]
        rcases ht with h | h <;> subst h <;>
          simp [body, enforceStrict, bump, hns, MSG_IGNORE, MSG_DISCONNECT, MSG_DEBUG]
    rw [hrun, hstep] at hok
    rw [hrun, hstep]
    by_cases hr : (s.seqIn + 1) % SEQ_MOD = 0
    · rw [if_pos hr] at hok
      rw [run_dead T (s.fail .rollover) (strays ts) (by simp [St.fail])] at hok
      simp [St.fail] at hok
    · rw [if_neg hr] at hok
      rw [if_neg hr]
      have hnext : (s.seqIn + 1) % SEQ_MOD = s.seqIn + 1 := by
        rcases Nat.lt_or_ge (s.seqIn + 1) SEQ_MOD with h3 | h3
        · exact Nat.mod_eq_of_lt h3
        · have : s.seqIn + 1 = SEQ_MOD := Nat.le_antisymm hlt h3
          rw [this] at hr; simp at hr
      have hb : (bump s t).seqIn = s.seqIn + 1 := by simp [bump, hnext]
      have hlt' : (bump s t).seqIn < SEQ_MOD := by
        rw [hb, ← hnext]; exact Nat.mod_lt _ (by decide)
      obtain ⟨h1, h2, h3, h4, h5, h6, h7, h8⟩ :=
        ih (bump s t) (fun u hu => hts u (by simp [hu])) hact he hd hns hlt' hok
      rw [hb] at h1 h2
      have e1 : (bump s t).expected = s.expected := rfl
      have e2 : (bump s t).localKexInit = s.localKexInit := rfl
      rw [e1] at h3
      rw [e2] at h7
      refine ⟨by rw [h1]; simp only [List.length_cons]; omega, by simp only [List.length_cons]; omega,
        h3, h4, h5, h6, h7, h8⟩

/-- … and a KEXINIT that arrives with a non-zero sequence number and makes strict mode agreed is refused, whatever the
counter was preset to (the statement of `late_kexinit_rejected` without the assumption that counting started at 0) -/
theorem kexinit_with_nonzero_seqno_rejected (T : Tables) (hT : KexTables T) (s : St) (hact : s.active = true)
    (he : s.err = none) (hd : s.initialKexDone = false) (hexp : s.expected = [MSG_KEXINIT])
    (hlk : s.localKexInit = true) (p : Bytes) (x : Ext) (hparse : x.kex ≠ .malformed)
    (hagree : (scanMarkers s.server s.advertiseStrict x.kexNames (none, s.agreedStrict)).2 = true)
    (hlate : s.seqIn ≠ 0) (hroll : (s.seqIn + 1) % SEQ_MOD ≠ 0) :
    (step T s (.recv MSG_KEXINIT p x)).err = some .strictOrder := by
  unfold step
  simp only [hact, he, Option.isNone_none, and_self, if_true]
  unfold recv
  simp only [hroll, false_and, if_false]
  unfold body afterExpected
  simp only [show ¬ (MSG_KEXINIT = MSG_IGNORE) by decide, show ¬ (MSG_KEXINIT = MSG_DISCONNECT) by decide,
    show ¬ (MSG_KEXINIT = MSG_DEBUG) by decide, if_false, bump, hexp, ne_eq, List.cons_ne_self, not_false_eq_true,
    if_true, List.contains_cons, BEq.rfl, Bool.true_or, not_true_eq_false,
    show ¬ (30 ≤ MSG_KEXINIT ∧ MSG_KEXINIT ≤ 41) by decide]
  rw [dispatch_kexinit T hT]
  unfold negotiateKeys ensureLocalKexInit
  simp only [hlk, not_true_eq_false, if_false, St.andThen, he, Option.isSome_none, Bool.false_eq_true]
  unfold parseKexInit
  cases hk : x.kex with
  | malformed => exact absurd hk hparse
  | incompatible => simp [hagree, hd, hlate, St.fail]
  | ok e => simp [hagree, hd, hlate, St.fail]

/-- **The reset depends on strict mode and on nothing else** (AST of `_activate_inbound` / `_activate_outbound`, read on
every run): the `if` around `reset_seqno_in()` / `reset_seqno_out()` tests exactly `self.agreed_on_strict_kex` — as in
the model's `parseNewkeys` / `activateOutbound`, which know no cipher.  So `newkeys_resets_inbound` and
`newkeys_resets_outbound` hold for every negotiated cipher, AEAD ones included (where a skipped reset would not even
show as a MAC failure). -/
theorem seqno_reset_ignores_the_cipher : Generated.C12.seqnoResetGuardIsStrictOnly = true := by decide

/-- **Inbound reset.**  Whenever NEWKEYS is accepted in strict mode — first exchange or any later one — the
inbound sequence number restarts at zero. -/
theorem newkeys_resets_inbound (T : Tables) (hT : KexTables T) (s : St) (hact : s.active = true)
    (he : s.err = none) (hs : s.agreedStrict = true) (hk : s.haveK = true)
    (hexp : s.expected = [MSG_NEWKEYS] ∨ s.expected = []) (p : Bytes) (x : Ext)
    (hroll : ¬ ((s.seqIn + 1) % SEQ_MOD = 0 ∧ ¬ s.initialKexDone = true)) :
    (step T s (.recv MSG_NEWKEYS p x)).seqIn = 0 ∧ (step T s (.recv MSG_NEWKEYS p x)).err = none ∧
      (step T s (.recv MSG_NEWKEYS p x)).initialKexDone = true := by
  unfold step
  simp only [hact, he, Option.isNone_none, and_self, if_true]
  unfold recv
  simp only [hroll, if_false]
  have key : ∀ s' : St, s'.haveK = true → s'.agreedStrict = true → s'.err = none →
      (parseNewkeys s' x).seqIn = 0 ∧ (parseNewkeys s' x).err = none ∧
        (parseNewkeys s' x).initialKexDone = true := by
    intro s' h1 h2 h3
    obtain ⟨e1, k1⟩ := parseNewkeys_ok (x := x) h1
    have a := congrArg KV.seqIn k1
    have b := congrArg KV.done k1
    simp only [St.kv, h2, if_true] at a b
    exact ⟨a, by rw [e1, h3], b⟩
  unfold body afterExpected
  rcases hexp with h | h
  · simp only [bump, h, dispatch_newkeys T hT, MSG_NEWKEYS, MSG_IGNORE, MSG_DISCONNECT, MSG_DEBUG, ne_eq,
      List.cons_ne_self, not_false_eq_true, if_true, List.contains_cons, BEq.rfl, Bool.true_or, not_true_eq_false,
      if_false, Nat.reduceEqDiff, Nat.reduceLeDiff, and_false, and_true, reduceCtorEq]
    exact key _ hk hs he
  · simp only [bump, h, dispatch_newkeys T hT, MSG_NEWKEYS, MSG_IGNORE, MSG_DISCONNECT, MSG_DEBUG, ne_eq,
      not_true_eq_false, if_false, Nat.reduceEqDiff]
    exact key _ hk hs he

/-- **Outbound reset.**  Whenever NEWKEYS is sent in strict mode, it goes out under the old counter and whatever
follows it starts again at zero (the only thing `_activate_outbound` may add is EXT_INFO, with number 0). -/
theorem newkeys_resets_outbound (s : St) (x : Ext) (he : s.err = none) (hs : s.agreedStrict = true)
    (hok : (activateOutbound s x).err = none) :
    ((activateOutbound s x).tx = s.tx ++ [⟨MSG_NEWKEYS, s.seqOut, 0⟩] ∧ (activateOutbound s x).seqOut = 0) ∨
    ((activateOutbound s x).tx = s.tx ++ [⟨MSG_NEWKEYS, s.seqOut, 0⟩, ⟨MSG_EXT_INFO, 0, 0⟩] ∧
      (activateOutbound s x).seqOut = 1) := by
  unfold activateOutbound at hok ⊢
  obtain ⟨h1, e1⟩ := andThen_ok hok
  have hsend : s.send MSG_NEWKEYS
      = { s with seqOut := (s.seqOut + 1) % SEQ_MOD, tx := s.tx ++ [⟨MSG_NEWKEYS, s.seqOut, 0⟩] } := by
    unfold St.send at h1 ⊢
    simp only [he, Option.isSome_none, Bool.false_eq_true, if_false] at h1 ⊢
    split at h1
    · simp [St.fail] at h1
    · rename_i hc; simp only [hc, if_false]
  rw [e1, hsend]
  by_cases hext : s.server = true ∧ s.serverSigAlgs = true ∧ s.remoteExtInfoC = true
  · right
    by_cases hn : x.needRekey = true <;>
      simp [St.send, St.andThen, he, hs, hext, hn, St.fail]
  · left
    by_cases hn : x.needRekey = true <;>
      simp [St.send, St.andThen, he, hs, hext, hn, St.fail]

/-- **The strict marker counts at every position of the peer's kex list.**  The scan of `_parse_kex_init` goes over the
whole name list: whatever real algorithm names or `ext-info-*` stand before or after it, one occurrence of the
expected marker makes the agreed mode equal to what we advertise.  (AST of `_parse_kex_init`, read on every run:
the scan is a `for` over the whole list, not a look at its tail.) -/
theorem strict_marker_counts_anywhere (sv adv : Bool) (pre post : List String) (acc : Option String × Bool)
    (hpre : ∀ a ∈ pre, a.startsWith "kex-strict-" = false)
    (hpost : ∀ a ∈ post, a.startsWith "kex-strict-" = false) :
    (scanMarkers sv adv (pre ++ expectedMarker sv :: post) acc).2 = adv ∧
      Generated.C12.markerScanCoversWholeList = true :=
  ⟨scanMarkers_marker_anywhere sv adv pre post acc hpre hpost, by decide⟩

/-- **Strict mode is for the life of the session (1).**  A re-exchange KEXINIT that carries no `kex-strict-*` name
(what peers do that send the marker only in their first KEXINIT) leaves the agreed mode exactly as the initial
exchange left it — so `newkeys_resets_inbound/outbound` keep applying to every later NEWKEYS. -/
theorem rekey_without_marker_keeps_strict_mode (T : Tables) (hT : KexTables T) (s : St) (hact : s.active = true)
    (he : s.err = none) (hdone : s.initialKexDone = true) (hexp : s.expected = []) (p : Bytes) (x : Ext)
    (hnames : ∀ a ∈ x.kexNames, a.startsWith "kex-strict-" = false)
    (hok : (step T s (.recv MSG_KEXINIT p x)).err = none) :
    (step T s (.recv MSG_KEXINIT p x)).agreedStrict = s.agreedStrict := by
  rw [rekey_kexinit_strict T hT s hact he hdone hexp p x hok]
  exact scanMarkers_no_marker _ _ _ _ hnames

/-- **Strict mode is for the life of the session (2).**  A re-exchange KEXINIT that repeats the expected marker
keeps strict mode on. -/
theorem rekey_with_marker_keeps_strict_mode (T : Tables) (hT : KexTables T) (s : St) (hact : s.active = true)
    (he : s.err = none) (hdone : s.initialKexDone = true) (hexp : s.expected = []) (p : Bytes) (x : Ext)
    (hadv : s.advertiseStrict = true) (hstrict : s.agreedStrict = true)
    (hnames : ∀ a ∈ x.kexNames, a.startsWith "kex-strict-" = true → a = expectedMarker s.server)
    (hok : (step T s (.recv MSG_KEXINIT p x)).err = none) :
    (step T s (.recv MSG_KEXINIT p x)).agreedStrict = true := by
  rw [rekey_kexinit_strict T hT s hact he hdone hexp p x hok, hadv]
  exact scanMarkers_expected_marker _ _ _ hstrict hnames

/-! ## non-vacuity and the contrast with non-strict mode -/

private def kexNames (strictMarker : Bool) : List String :=
  ["curve25519-sha256@libssh.org", "ext-info-s"] ++ (if strictMarker then ["kex-strict-s-v00@openssh.com"] else [])

private def ext (strictMarker : Bool) : Ext :=
  { kexNames := kexNames strictMarker, kex := .ok (engineOf .ecdh false) }

/-- a clean strict client handshake: KEXINIT, KEXECDH_REPLY, NEWKEYS → established, counters at zero -/
private def clean : List Ev := [.recv 20 [] (ext true), .recv 31 [] {}, .recv 21 [] {}]

example : (∀ ev ∈ clean, ev.WF) := by
  intro ev h
  simp only [clean, List.mem_cons, List.mem_nil_iff, or_false] at h
  rcases h with rfl | rfl | rfl <;> intro e he <;> simp [ext] at he
  subst he; exact engines_wf .ecdh false

example : let s := run Generated.C12.tables (init false false true true) clean
    s.initialKexDone = true ∧ s.err = none ∧ s.agreedStrict = true ∧ s.rx = [20, 31, 21] ∧
      s.seqIn = 0 ∧ s.seqOut = 0 := by decide +kernel

/-- the same handshake with an IGNORE injected in front of the KEXINIT: refused in strict mode … -/
example : (run Generated.C12.tables (init false false true true) (.recv 2 [] {} :: clean)).err
    = some .strictOrder := by decide +kernel

/-- … and with IGNORE / DEBUG / UNIMPLEMENTED / an unknown type injected after the KEXINIT -/
example : ∀ t ∈ [2, 4, 3, 200, 20], (run Generated.C12.tables (init false false true true)
    [.recv 20 [] (ext true), .recv t [] (ext true), .recv 31 [] {}, .recv 21 [] {}]).err = some .strictOrder := by
  decide +kernel

/-- without strict mode the injected IGNORE is swallowed and the session comes up with shifted counters:
the hypothesis `agreedStrict` of the main theorem cannot be dropped -/
example : let s := run Generated.C12.tables (init false false true true) (.recv 2 [] {} ::
      [.recv 20 [] (ext false), .recv 2 [] {}, .recv 31 [] {}, .recv 21 [] {}])
    s.initialKexDone = true ∧ s.err = none ∧ s.agreedStrict = false ∧ s.seqIn = 5 := by decide +kernel

private def rekeyNoMarker : List Ev :=
  clean ++ [Ev.rekey,
    Ev.recv 20 [] { kexNames := ["curve25519-sha256@libssh.org"], kex := .ok (engineOf .ecdh false) },
    Ev.recv 31 [] {}, Ev.recv 21 [] {}]

/-- a full strict session with a re-exchange whose KEXINIT omits the marker: still strict, counters reset again -/
example : (run Generated.C12.tables (init false false true true) rekeyNoMarker).err = none ∧
    (run Generated.C12.tables (init false false true true) rekeyNoMarker).agreedStrict = true ∧
    (run Generated.C12.tables (init false false true true) rekeyNoMarker).seqIn = 0 ∧
    (run Generated.C12.tables (init false false true true) rekeyNoMarker).seqOut = 0 ∧
    (run Generated.C12.tables (init false false true true) rekeyNoMarker).rx = [20, 31, 21, 20, 31, 21] := by
  decide +kernel

/-- the counter preset to 2^32 − 1 (as after 2^32 − 1 swallowed packets): one more stray packet trips the guard -/
example : (run Generated.C12.tables { init false false true true with seqIn := 4294967295 } (strays [2])).err
    = some .rollover := by decide +kernel
/-- preset to 2^32 − 2: the stray is counted, and reading the KEXINIT behind it (number 2^32 − 1) trips the guard -/
example : (run Generated.C12.tables { init false false true true with seqIn := 4294967294 }
    (strays [4] ++ [.recv 20 [] (ext true)])).err = some .rollover := by decide +kernel
/-- preset to 2^32 − 3: the KEXINIT behind the stray has number 2^32 − 2 ≠ 0 and is refused as not the first packet -/
example : (run Generated.C12.tables { init false false true true with seqIn := 4294967293 }
    (strays [4] ++ [.recv 20 [] (ext true)])).err = some .strictOrder := by decide +kernel

end PV.Props.C09
