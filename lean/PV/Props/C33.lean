/-
  C33 — SFTP file attributes survive encoding and decoding.
  Property theorems only (helpers: PV/Model/SftpAttrLemmas.lean).  Model: PV/Model/SftpAttr.lean
  (`SFTPAttributes._pack` / `_unpack`), flag constants generated from the source.
-/
import PV.Model.SftpAttrLemmas
namespace PV.Props.C33
open PV PV.Wire PV.SftpAttr PV.Generated.C33

/-- **Flags = presence set.** The flags word `_pack` writes has the bit of a field set exactly when the
field is present (uid/gid and atime/mtime count as pairs, `attr` when non-empty), it is the plain
sum of the present fields' constants (no other bit), and it fits 32 bits.  Decided over all
2^5 presence combinations with the constants taken from the source. -/
theorem flags_exact (a : Attrs) :
    has (packFlags a) FLAG_SIZE = a.size.isSome ∧
    has (packFlags a) FLAG_UIDGID = (a.uid.isSome && a.gid.isSome) ∧
    has (packFlags a) FLAG_PERMISSIONS = a.mode.isSome ∧
    has (packFlags a) FLAG_AMTIME = (a.atime.isSome && a.mtime.isSome) ∧
    has (packFlags a) FLAG_EXTENDED = !a.ext.isEmpty ∧
    packFlags a < 4294967296 ∧
    packFlags a = bit a.size.isSome FLAG_SIZE + bit (a.uid.isSome && a.gid.isSome) FLAG_UIDGID
      + bit a.mode.isSome FLAG_PERMISSIONS + bit (a.atime.isSome && a.mtime.isSome) FLAG_AMTIME
      + bit (!a.ext.isEmpty) FLAG_EXTENDED :=
  flags_table _ _ _ _ _

/-- `_pack` accepts every in-range attribute set (no `struct.error`, no `TypeError`). -/
theorem pack_total (a : Attrs) (h : a.WF) : ∃ bs, pack a = .ok bs := ⟨_, pack_eq a h⟩

/-- **Round trip.** For every presence combination, every 64-bit size, 32-bit uid/gid/mode/times and every
extended dict of byte strings: what `_pack` appended to a message, `_unpack` reads back — same
fields, absent ones absent, same extended pairs in the same order, `_flags` equal to the flags
written — consuming exactly the packed bytes, whatever precedes or follows them. -/
theorem roundtrip (a : Attrs) (h : a.WF) (pre rest bs : Bytes) (hp : pack a = .ok bs) :
    unpack { content := pre ++ bs ++ rest, pos := pre.length }
      = (packFlags a, a, { content := pre ++ bs ++ rest, pos := pre.length + bs.length }) := by
  rw [pack_eq a h] at hp
  injection hp with hp
  subst hp
  obtain ⟨f1, f2, f3, f4, f5, flt⟩ := packFlags_has a
  generalize hc : pre ++ packBytes a ++ rest = c
  have hc' : c = pre ++ be32 (packFlags a) ++ segSize a ++ segPair a.uid a.gid ++ segMode a
      ++ segPair a.atime a.mtime ++ segExt a ++ rest := by
    rw [← hc]; simp [packBytes, List.append_assoc]
  unfold unpack
  -- flags
  have g0 := getInt_exact pre (segSize a ++ segPair a.uid a.gid ++ segMode a
      ++ segPair a.atime a.mtime ++ segExt a ++ rest) (packFlags a) flt
  have e0 : c = pre ++ be32 (packFlags a) ++ (segSize a ++ segPair a.uid a.gid ++ segMode a
      ++ segPair a.atime a.mtime ++ segExt a ++ rest) := by rw [hc']; simp [List.append_assoc]
  rw [← e0] at g0
  simp only [g0, f1, f2, f3, f4, f5]
  -- size
  have g1 := read_size c (pre ++ be32 (packFlags a))
    (segPair a.uid a.gid ++ segMode a ++ segPair a.atime a.mtime ++ segExt a ++ rest)
    (pre.length + 4) a.size h.size (by rw [hc']; simp [segSize, List.append_assoc]) (by simp [be32])
  rw [← segSize] at g1
  simp only [g1]
  -- uid / gid
  have g2 := read_pair c (pre ++ be32 (packFlags a) ++ segSize a)
    (segMode a ++ segPair a.atime a.mtime ++ segExt a ++ rest)
    (pre.length + 4 + (segSize a).length) a.uid a.gid h.uid h.gid h.ugPair
    (by rw [hc']; simp [List.append_assoc]) (by simp [be32, Nat.add_assoc])
  simp only [g2]
  -- mode
  have g3 := read_u32 c (pre ++ be32 (packFlags a) ++ segSize a ++ segPair a.uid a.gid)
    (segPair a.atime a.mtime ++ segExt a ++ rest)
    (pre.length + 4 + (segSize a).length + (segPair a.uid a.gid).length) a.mode h.mode
    (by rw [hc']; simp [segMode, List.append_assoc]) (by simp [be32, Nat.add_assoc])
  rw [← segMode] at g3
  simp only [g3]
  -- atime / mtime
  have g4 := read_pair c (pre ++ be32 (packFlags a) ++ segSize a ++ segPair a.uid a.gid ++ segMode a)
    (segExt a ++ rest)
    (pre.length + 4 + (segSize a).length + (segPair a.uid a.gid).length + (segMode a).length)
    a.atime a.mtime h.atime h.mtime h.amPair
    (by rw [hc']; simp [List.append_assoc]) (by simp [be32, Nat.add_assoc])
  simp only [g4]
  -- extended
  have g5 := read_ext c (pre ++ be32 (packFlags a) ++ segSize a ++ segPair a.uid a.gid ++ segMode a
      ++ segPair a.atime a.mtime) rest
    (pre.length + 4 + (segSize a).length + (segPair a.uid a.gid).length + (segMode a).length
      + (segPair a.atime a.mtime).length) a h
    (by rw [hc']) (by simp [be32, Nat.add_assoc])
  simp only [g5]
  simp [packBytes, be32, Nat.add_assoc]

/-- The decoded object packs to the same bytes again (decode ∘ encode is the identity on the wire too). -/
theorem roundtrip_fields (a : Attrs) (h : a.WF) (bs : Bytes) (hp : pack a = .ok bs) :
    (unpack { content := bs, pos := 0 }).2.1 = a ∧ (unpack { content := bs, pos := 0 }).1 = packFlags a
    ∧ (unpack { content := bs, pos := 0 }).2.2.remainder = [] := by
  have := roundtrip a h [] [] bs hp
  simp only [List.nil_append, List.append_nil, List.length_nil, Nat.zero_add] at this
  rw [this]
  simp [Rd.remainder]

/-- what `_pack` actually transmits of an arbitrary object: a lone uid (or gid, atime, mtime) without its
partner cannot be expressed on the wire and is left out -/
def normalize (a : Attrs) : Attrs :=
  { a with uid := if a.uid.isSome && a.gid.isSome then a.uid else none,
           gid := if a.uid.isSome && a.gid.isSome then a.gid else none,
           atime := if a.atime.isSome && a.mtime.isSome then a.atime else none,
           mtime := if a.atime.isSome && a.mtime.isSome then a.mtime else none }

/-- **Half-present pairs.** `_pack` writes the same flags word for `a` and `normalize a`; on objects whose pairs are
complete `normalize` is the identity (so `roundtrip` loses nothing there). -/
theorem flags_normalize (a : Attrs) : packFlags (normalize a) = packFlags a := by
  unfold packFlags normalize
  cases a.uid <;> cases a.gid <;> cases a.atime <;> cases a.mtime <;> simp

/-- … and the bytes are the same too: the harmless half of a pair is simply not transmitted -/
theorem pack_normalize (a : Attrs) : pack (normalize a) = pack a := by
  obtain ⟨_, f2, _, f4, _, _, _⟩ := flags_exact a
  unfold pack
  rw [flags_normalize]
  simp only [whenFlag, f2, f4]
  cases hu : a.uid <;> cases hg : a.gid <;> cases ha : a.atime <;> cases ht : a.mtime <;>
    simp [normalize, hu, hg, ha, ht]

theorem normalize_of_pairs (a : Attrs) (h1 : a.uid.isSome = a.gid.isSome) (h2 : a.atime.isSome = a.mtime.isSome) :
    normalize a = a := by
  cases a with
  | mk size uid gid mode atime mtime ext =>
    simp only at h1 h2
    cases uid <;> cases gid <;> cases atime <;> cases mtime <;> simp_all [normalize]

/-- **Decoded objects are well-formed and re-encode to the same bytes**: whatever `_pack` accepted, decoding its
output and packing again yields the identical byte string (`_pack ∘ _unpack ∘ _pack = _pack`). -/
theorem repack (a : Attrs) (h : a.WF) (bs : Bytes) (hp : pack a = .ok bs) :
    pack (unpack { content := bs, pos := 0 }).2.1 = .ok bs := by
  rw [(roundtrip_fields a h bs hp).1, hp]

/-! ## non-vacuity -/

def sample : Attrs :=
  { size := some 18446744073709551615, uid := some 0, gid := some 4294967295, mode := none,
    atime := some 1, mtime := some 2, ext := [([107], [118, 49]), ([], [])] }

example : sample.WF := by
  refine ⟨?_, ?_, ?_, ?_, ?_, ?_, rfl, rfl, by decide, by decide, ?_⟩ <;>
    simp [sample] <;> omega

example : pack sample = .ok [128, 0, 0, 11, 255, 255, 255, 255, 255, 255, 255, 255, 0, 0, 0, 0,
    255, 255, 255, 255, 0, 0, 0, 1, 0, 0, 0, 2, 0, 0, 0, 2, 0, 0, 0, 1, 107, 0, 0, 0, 2, 118, 49,
    0, 0, 0, 0, 0, 0, 0, 0] := by rfl

example : Attrs.empty.WF := by
  refine ⟨?_, ?_, ?_, ?_, ?_, ?_, rfl, rfl, by decide, by decide, ?_⟩ <;> simp [Attrs.empty]

end PV.Props.C33
