/-
  C07 — Signatures must use the negotiated or declared signature algorithm.
  Property theorems only.  Model: PV/Model/SigAlgo.lean (the repaired code: `_check_sig_algorithm`
  is called by `Transport._verify_key` and by the server's publickey branch).

  Full statement, proved for every table of algorithms, every key, every library verdict
  (`rawVerify` is arbitrary) and every signature blob:
      accept → sigAlgo = stripCert negotiated ∧ negotiated ∈ enabled.
-/
import PV.Model.SigAlgo
namespace PV.Props.C07
open PV PV.Wire PV.SigAlgo

/-! ## client: key exchange -/

/-- `_verify_key` returns normally only if the blob names the negotiated algorithm (certificate
    suffix stripped) and the key's own `verify_ssh_sig` accepted -/
theorem verifyKey_accept (P : Prims) (t : Name) (H hk sig : Bytes) (key : Key)
    (h : verifyKey P t H hk sig = .ok key) :
    sigAlgoOf sig = stripCert t ∧ verifySshSig P key H sig = true ∧
      ∃ cls, P.keyInfo t = some cls ∧ P.parseKey cls hk = .ok key := by
  unfold verifyKey at h
  split at h
  · cases h
  · rename_i cls hcls
    split at h
    · cases h
    · rename_i k hk'
      split at h
      · cases h
      · rename_i hc
        split at h
        · cases h
        · rename_i hv
          cases h
          refine ⟨?_, by simpa using hv, cls, hcls, hk'⟩
          have : checkSigAlgorithm t sig = true := by simpa using hc
          simpa [checkSigAlgorithm] using this

/-- what the client negotiated is one of ITS enabled host-key algorithms, offered by the server -/
theorem agreeClient_mem (pref sl : List Name) (t : Name) (h : agreeClient pref sl = some t) :
    t ∈ pref ∧ t ∈ sl := by
  unfold agreeClient at h
  have := List.mem_of_mem_head? h
  simpa [List.mem_filter] using this

/-- every name in `preferred_keys` is enabled: not in `disabled_algorithms["keys"]`, and either a
    default name or the cert variant of a default name that is itself not disabled -/
theorem preferredKeys_enabled (defaults disabled : List Name) (t : Name)
    (h : t ∈ preferredKeys defaults disabled) :
    t ∉ disabled ∧ (t ∈ defaults ∨ ∃ b, b ∈ defaults ∧ b ∉ disabled ∧ t = b ++ certSuffix) := by
  unfold preferredKeys filterAlgos at h
  simp only [List.mem_append, List.mem_filter, List.mem_map] at h
  cases h with
  | inl h => exact ⟨by simpa using h.2, Or.inl h.1⟩
  | inr h =>
    obtain ⟨⟨b, ⟨hb, hbd⟩, rfl⟩, hd⟩ := h
    exact ⟨by simpa using hd, Or.inr ⟨b, hb, by simpa using hbd, rfl⟩⟩

/-- C07, client half, full strength: negotiation followed by `_verify_key` accepts only if the
    signature's algorithm is the negotiated one (cert suffix stripped) and the negotiated one is
    enabled (in `preferred_keys`, not disabled) and was offered by the server -/
theorem client_accept (P : Prims) (defaults disabled serverList : List Name) (H hk sig : Bytes)
    (t : Name) (key : Key) (h : clientKex P defaults disabled serverList H hk sig = .ok (t, key)) :
    sigAlgoOf sig = stripCert t ∧ t ∈ preferredKeys defaults disabled ∧ t ∉ disabled ∧ t ∈ serverList := by
  unfold clientKex at h
  split at h
  · cases h
  · rename_i t' ht
    split at h
    · rename_i k hk'
      cases h
      have hm := agreeClient_mem _ _ _ ht
      exact ⟨(verifyKey_accept P t H hk sig key hk').1, hm.1, (preferredKeys_enabled _ _ _ hm.1).1, hm.2⟩
    · cases h

/-! ## paramiko's own table: the algorithm NAMED BY THE SIGNATURE is an enabled one -/

theorem stripCert_defaults : ∀ b ∈ defaultKeys, stripCert b = b ∧ stripCert (b ++ certSuffix) = b := by
  decide +kernel

/-- with paramiko's seven host-key algorithms: whatever the server offers and sends, an accepted
    signature names one of the seven, and not one the client disabled — a disabled `ssh-rsa`
    (SHA-1) can not be substituted for a negotiated `rsa-sha2-512` -/
theorem client_accept_default (P : Prims) (disabled serverList : List Name) (H hk sig : Bytes)
    (t : Name) (key : Key) (h : clientKex P defaultKeys disabled serverList H hk sig = .ok (t, key)) :
    sigAlgoOf sig ∈ defaultKeys ∧ sigAlgoOf sig ∉ disabled := by
  obtain ⟨h1, h2, h3, _⟩ := client_accept P defaultKeys disabled serverList H hk sig t key h
  rcases (preferredKeys_enabled _ _ _ h2).2 with hd | ⟨b, hb, hbd, rfl⟩
  · rw [h1, (stripCert_defaults t hd).1]; exact ⟨hd, h3⟩
  · rw [h1, (stripCert_defaults b hb).2]; exact ⟨hb, hbd⟩

/-- RSA: the hash the library is asked to verify with is the NEGOTIATED algorithm's hash -/
theorem rsa_hash_is_negotiated (P : Prims) (t : Name) (H hk sig : Bytes) (key : Key)
    (h : verifyKey P t H hk sig = .ok key) (hr : key.cls = .rsa) :
    ∃ hash, P.rsaHashes (stripCert t) = some hash ∧ P.rawVerify key hash H (sigBodyOf sig) = true := by
  obtain ⟨h1, h2, _⟩ := verifyKey_accept P t H hk sig key h
  unfold verifySshSig at h2
  rw [hr] at h2
  simp only at h2
  rw [h1] at h2
  split at h2
  · cases h2
  · rename_i hh heq; exact ⟨hh, heq, h2⟩

/-- ECDSA / Ed25519: the negotiated name (cert suffix stripped) is the key's own identifier —
    a P-384 key and signature are not accepted under a negotiated `ecdsa-sha2-nistp256` -/
theorem fixed_name_keys (P : Prims) (t : Name) (H hk sig : Bytes) (key : Key)
    (h : verifyKey P t H hk sig = .ok key) :
    (key.cls = .ecdsa → stripCert t = key.ident) ∧ (key.cls = .ed25519 → stripCert t = ed25519Name) := by
  obtain ⟨h1, h2, _⟩ := verifyKey_accept P t H hk sig key h
  unfold verifySshSig at h2
  constructor
  · intro hc
    rw [hc] at h2
    simp only at h2
    split at h2
    · cases h2
    · rename_i hne; rw [← h1]; simpa using hne
  · intro hc
    rw [hc] at h2
    simp only at h2
    split at h2
    · cases h2
    · rename_i hne; rw [← h1]; simpa using hne

/-! ## server: public-key authentication -/

/-- C07, server half, full strength: the request succeeds only if a signature is attached whose
    blob names the DECLARED algorithm (cert suffix stripped), that name is in `preferred_pubkeys`,
    the server's callback accepted the key and the key verified the signature -/
theorem server_accept (P : Prims) (pubkeys : List Name) (cb : Key → Bool) (algorithm : Name)
    (keyblob : Bytes) (sig : Option Bytes) (blob : Bytes)
    (h : authPublickey P pubkeys cb algorithm keyblob sig blob = .success) :
    ∃ sg key, sig = some sg ∧ sigAlgoOf sg = stripCert algorithm ∧ stripCert algorithm ∈ pubkeys ∧
      generateKeyFromRequest P pubkeys algorithm keyblob = some key ∧ cb key = true ∧
      verifySshSig P key blob sg = true := by
  unfold authPublickey at h
  split at h
  · cases h
  · rename_i key hkey
    split at h
    · cases h
    · rename_i hcb
      split at h
      · cases h
      · rename_i sg
        split at h
        · cases h
        · rename_i hc
          split at h
          · cases h
          · rename_i hv
            refine ⟨sg, key, rfl, ?_, ?_, hkey, by simpa using hcb, by simpa using hv⟩
            · have : checkSigAlgorithm algorithm sg = true := by simpa using hc
              simpa [checkSigAlgorithm] using this
            · unfold generateKeyFromRequest at hkey
              split at hkey
              · cases hkey
              · rename_i hin; simpa using hin

/-- with `preferred_pubkeys` = defaults minus `disabled_algorithms["pubkeys"]`: the signature's
    algorithm is a default one that is not disabled -/
theorem server_accept_enabled (P : Prims) (defaults disabled : List Name) (cb : Key → Bool)
    (algorithm : Name) (keyblob : Bytes) (sig : Option Bytes) (blob : Bytes)
    (h : authPublickey P (filterAlgos defaults disabled) cb algorithm keyblob sig blob = .success) :
    ∃ sg, sig = some sg ∧ sigAlgoOf sg = stripCert algorithm ∧ sigAlgoOf sg ∈ defaults ∧
      sigAlgoOf sg ∉ disabled := by
  obtain ⟨sg, _, h1, h2, h3, _⟩ := server_accept P _ cb algorithm keyblob sig blob h
  refine ⟨sg, h1, h2, ?_, ?_⟩
  · rw [h2]; unfold filterAlgos at h3; exact (List.mem_filter.mp h3).1
  · rw [h2]; unfold filterAlgos at h3; simpa using (List.mem_filter.mp h3).2

/-- no signature attached: never a success (only the PK_OK probe answer) -/
theorem server_no_sig_no_success (P : Prims) (pubkeys : List Name) (cb : Key → Bool) (algorithm : Name)
    (keyblob blob : Bytes) : authPublickey P pubkeys cb algorithm keyblob none blob ≠ .success := by
  intro h
  obtain ⟨_, _, h1, _⟩ := server_accept P pubkeys cb algorithm keyblob none blob h
  cases h1

/-! ## sequences of requests on one connection: earlier queries never widen what is accepted -/

private theorem mem_truncate (l : List AuthOut) (o : AuthOut) (h : o ∈ truncateSession l) : o ∈ l := by
  induction l with
  | nil => cases h
  | cons a r ih =>
    unfold truncateSession at h
    split at h
    · simp at h; simp [h]
    · simp only [List.mem_cons] at h ⊢
      rcases h with h | h
      · exact Or.inl h
      · exact Or.inr (ih h)

/-- any sequence of publickey requests (queries answered with PK_OK, failed attempts, signed
    requests naming other algorithms, …): if the connection gets authenticated, then SOME request
    of the sequence carried a signature whose blob names that very request's declared algorithm
    (cert suffix stripped), and that algorithm is in `preferred_pubkeys` -/
theorem session_success (pubkeys : List Name) (cb : Key → Bool) (reqs : List Req)
    (h : AuthOut.success ∈ authSession pubkeys cb reqs) :
    ∃ r ∈ reqs, ∃ sg, r.sig = some sg ∧ sigAlgoOf sg = stripCert r.algorithm ∧
      stripCert r.algorithm ∈ pubkeys := by
  unfold authSession at h
  have h2 := mem_truncate _ _ h
  simp only [List.mem_map] at h2
  obtain ⟨r, hr, hout⟩ := h2
  obtain ⟨sg, _, h1, h3, h4, _⟩ := server_accept r.P pubkeys cb r.algorithm r.keyblob r.sig r.blob hout
  exact ⟨r, hr, sg, h1, h3, h4⟩

/-- in particular with `preferred_pubkeys` = defaults minus disabled: the algorithm of the request
    that authenticated is not a disabled one, whatever was queried before -/
theorem session_success_enabled (defaults disabled : List Name) (cb : Key → Bool) (reqs : List Req)
    (h : AuthOut.success ∈ authSession (filterAlgos defaults disabled) cb reqs) :
    ∃ r ∈ reqs, ∃ sg, r.sig = some sg ∧ sigAlgoOf sg = stripCert r.algorithm ∧
      stripCert r.algorithm ∈ defaults ∧ stripCert r.algorithm ∉ disabled := by
  obtain ⟨r, hr, sg, h1, h2, h3⟩ := session_success _ cb reqs h
  unfold filterAlgos at h3
  exact ⟨r, hr, sg, h1, h2, (List.mem_filter.mp h3).1, by simpa using (List.mem_filter.mp h3).2⟩

/-! ## the comparison is necessary: the code without it accepted a SHA-1 signature under rsa-sha2-512 -/

private instance {ε α : Type} [DecidableEq ε] [DecidableEq α] : DecidableEq (Except ε α)
  | .ok x, .ok y => if h : x = y then isTrue (congrArg _ h) else isFalse (fun e => h (Except.ok.inj e))
  | .error x, .error y => if h : x = y then isTrue (congrArg _ h) else isFalse (fun e => h (Except.error.inj e))
  | .ok _, .error _ => isFalse (fun e => nomatch e)
  | .error _, .ok _ => isFalse (fun e => nomatch e)

private def rsa512 : Name := [114, 115, 97, 45, 115, 104, 97, 50, 45, 53, 49, 50]
private def sshRsa : Name := [115, 115, 104, 45, 114, 115, 97]
private def someKey : Key := { cls := .rsa, ident := sshRsa, pub := [1] }
/-- a library that holds the signature valid under SHA-1 only (hash id 1) -/
private def sha1Only : Prims :=
  { keyInfo := realKeyInfo, rsaHashes := realRsaHashes, parseKey := fun _ _ => .ok someKey,
    rawVerify := fun _ h _ _ => h == 1 }
private def sha1Sig : Bytes := encStr sshRsa ++ encStr [9, 9]

/-- before the repair: negotiated rsa-sha2-512, blob says ssh-rsa, SHA-1 signature — accepted -/
theorem unchecked_accepts_downgrade_witness :
    verifyKeyUnchecked sha1Only rsa512 [7] [8] sha1Sig = .ok someKey ∧ sigAlgoOf sha1Sig ≠ stripCert rsa512 := by
  decide +kernel

/-- after the repair the same input is refused -/
theorem checked_rejects_downgrade : verifyKey sha1Only rsa512 [7] [8] sha1Sig = .error .ssh := by
  decide +kernel

/-! ## non-vacuity: honest signatures are accepted on both paths (also in cert form) -/

private def goodPrims : Prims :=
  { keyInfo := realKeyInfo, rsaHashes := realRsaHashes, parseKey := fun _ _ => .ok someKey,
    rawVerify := fun _ h _ _ => h == 4 }
private def sha512Sig : Bytes := encStr rsa512 ++ encStr [9, 9]

example : clientKex goodPrims defaultKeys [sshRsa] [rsa512, sshRsa] [7] [8] sha512Sig = .ok (rsa512, someKey) := by
  decide +kernel
example : verifyKey goodPrims (rsa512 ++ certSuffix) [7] [8] sha512Sig = .ok someKey := by decide +kernel
example : authPublickey goodPrims (filterAlgos defaultKeys [sshRsa]) (fun _ => true) rsa512 [8] (some sha512Sig) [7]
    = .success := by decide +kernel
/-- declared rsa-sha2-512, SHA-1 `ssh-rsa` blob, a library that would accept it: refused -/
example : authPublickey sha1Only (filterAlgos defaultKeys []) (fun _ => true) rsa512 [8] (some sha1Sig) [7]
    = .failure := by decide +kernel
/-- a disabled algorithm cannot even be declared -/
example : authPublickey sha1Only (filterAlgos defaultKeys [sshRsa]) (fun _ => true) sshRsa [8] (some sha1Sig) [7]
    = .disconnect := by decide +kernel

/-- query with an enabled algorithm (PK_OK), then a signed request declaring the DISABLED ssh-rsa for the
    same key: the connection is dropped, not authenticated -/
example : authSession (filterAlgos defaultKeys [sshRsa]) (fun _ => true)
    [{ P := sha1Only, algorithm := rsa512, keyblob := [8], sig := none, blob := [7] },
     { P := sha1Only, algorithm := sshRsa, keyblob := [8], sig := some sha1Sig, blob := [7] }]
    = [.pkOk, .disconnect] := by decide +kernel

end PV.Props.C07
