/-
  C34 — Default SFTP path canonicalisation stays inside the served root.
  Property theorems only (helpers: PV/Model/CanonLemmas.lean).  Model: PV/Model/Canon.lean.
-/
import PV.Model.CanonLemmas
namespace PV.Props.C34
open PV PV.Canon

/-- every input is treated as the absolute path `"/" ++ tail` -/
private theorem canonicalize_eq (p : Bytes) :
    ∃ r, canonicalize p = normpath (slash :: r) ∧
      (slash :: r = p ∨ (r = p ∧ p.head? ≠ some slash)) := by
  unfold canonicalize isabs
  cases p with
  | nil => exact ⟨[], by simp, Or.inr ⟨rfl, by simp⟩⟩
  | cons c cs =>
    by_cases hc : c = slash
    · exact ⟨cs, by simp [hc], Or.inl (by rw [hc])⟩
    · refine ⟨c :: cs, by simp [hc], Or.inr ⟨rfl, by simp [hc]⟩⟩

/-- **Canonical form.** For every client-supplied path the result is `/` or `//` followed by names joined
with single slashes: every component is non-empty, is not `.`, is not `..` and contains no
slash.  (`//` is POSIX's implementation-defined double-slash root, which `normpath` preserves.) -/
theorem canonical_form (p : Bytes) :
    ∃ root comps, canonicalize p = root ++ joinSlash comps ∧
      (root = [slash] ∨ root = [slash, slash]) ∧ ∀ c ∈ comps, Proper c := by
  obtain ⟨r, hr, _⟩ := canonicalize_eq p
  obtain ⟨comps, hn, hp⟩ := normpath_abs r
  exact ⟨_, comps, by rw [hr, hn], splitroot_abs r, hp⟩

/-- the result is absolute -/
theorem absolute (p : Bytes) : (canonicalize p).head? = some slash := by
  obtain ⟨root, comps, h, hroot, _⟩ := canonical_form p
  rw [h]
  rcases hroot with e | e <;> subst e <;> rfl

/-- the `//` root appears exactly when the client's path itself starts with two (not three) slashes -/
theorem double_slash_iff (p : Bytes) :
    (∃ comps, canonicalize p = slash :: slash :: joinSlash comps ∧ ∀ c ∈ comps, Proper c) ↔
      (p.head? = some slash ∧ p.tail.head? = some slash ∧ p.tail.tail.head? ≠ some slash) := by
  obtain ⟨r, hr, hp⟩ := canonicalize_eq p
  obtain ⟨comps, hn, hpr⟩ := normpath_abs r
  have hd := splitroot_double r
  constructor
  · rintro ⟨comps', h', hpr'⟩
    -- the root must be `//`: a proper first component does not start with a slash
    have hroot : (splitroot (slash :: r)).1 = [slash, slash] := by
      rcases splitroot_abs r with e | e
      · exfalso
        rw [hr, hn, e] at h'
        simp only [List.singleton_append, List.cons.injEq, true_and] at h'
        cases comps with
        | nil => simp [joinSlash] at h'
        | cons c cs =>
          have hc := hpr c (by simp)
          have : (joinSlash (c :: cs)).head? = some slash := by rw [h']; rfl
          cases c with
          | nil => exact hc.1 rfl
          | cons x xs =>
            have hx : x = slash := by
              cases cs <;> simpa [joinSlash] using this
            exact hc.2.2.2 (by simp [hx])
      · exact e
    have := hd.mp hroot
    rcases hp with e | ⟨e, hne⟩
    · subst e; simpa using this
    · subst e; exact absurd this.1 hne
  · rintro ⟨h1, h2, h3⟩
    rcases hp with e | ⟨e, hne⟩
    · subst e
      have hroot := hd.mpr ⟨by simpa using h2, by simpa using h3⟩
      exact ⟨comps, by rw [hr, hn, hroot]; rfl, hpr⟩
    · exact absurd h1 hne

/-- components of the result, as a filesystem would read them: the empty component(s) of the root marker,
then proper names only -/
theorem components (p : Bytes) :
    ∃ comps, (∀ c ∈ comps, Proper c) ∧
      (splitSlash (canonicalize p) = [] :: comps ∨ splitSlash (canonicalize p) = [] :: [] :: comps
        ∨ (comps = [] ∧ splitSlash (canonicalize p) = [[], []])
        ∨ (comps = [] ∧ splitSlash (canonicalize p) = [[], [], []])) := by
  obtain ⟨root, comps, h, hroot, hpr⟩ := canonical_form p
  refine ⟨comps, hpr, ?_⟩
  have hns : ∀ x ∈ comps, slash ∉ x := fun x hx => (hpr x hx).2.2.2
  by_cases hc : comps = []
  · subst hc
    rcases hroot with e | e <;> subst e <;> rw [h]
    · right; right; left; exact ⟨rfl, by decide⟩
    · right; right; right; exact ⟨rfl, by decide⟩
  · have hs := split_join comps hc hns
    rcases hroot with e | e <;> subst e <;> rw [h]
    · left
      have := split_append_slash [] (joinSlash comps)
      simp only [List.nil_append] at this
      rw [show [slash] ++ joinSlash comps = slash :: joinSlash comps from rfl, this, hs]
      rfl
    · right; left
      have h1 := split_append_slash [] (slash :: joinSlash comps)
      have h2 := split_append_slash [] (joinSlash comps)
      simp only [List.nil_append] at h1 h2
      rw [show [slash, slash] ++ joinSlash comps = slash :: slash :: joinSlash comps from rfl, h1, h2, hs]
      rfl

/-- **Inside the root.** Appending the result to any served root names the root's own components followed
by a walk that never climbs: from the root directory (depth 0) every prefix of the walk stays at
depth ≥ 0 (`descend` would return `none` otherwise), and it ends `d` levels below the root. -/
theorem inside_root (root p : Bytes) :
    ∃ rest d, splitSlash (root ++ canonicalize p) = splitSlash root ++ rest ∧
      descend 0 rest = some d := by
  obtain ⟨comps, hpr, hsplit⟩ := components p
  have habs := absolute p
  -- the result starts with a slash: split there
  cases hcp : canonicalize p with
  | nil => rw [hcp] at habs; simp at habs
  | cons x xs =>
    rw [hcp] at habs
    simp only [List.head?_cons, Option.some.injEq] at habs
    subst habs
    refine ⟨splitSlash xs, ?_⟩
    have hsp : splitSlash (slash :: xs) = [] :: splitSlash xs := by
      simp [splitSlash, splitSlash.go]
    rw [hcp, hsp] at hsplit
    have hd := descend_proper comps hpr
    rcases hsplit with e | e | ⟨e1, e⟩ | ⟨e1, e⟩
    · simp only [List.cons.injEq, true_and] at e
      exact ⟨comps.length, split_append_slash root xs, by rw [e, hd]; simp⟩
    · simp only [List.cons.injEq, true_and] at e
      exact ⟨comps.length, split_append_slash root xs, by rw [e, descend_nil_cons, hd]; simp⟩
    · simp only [List.cons.injEq, true_and] at e
      exact ⟨0, split_append_slash root xs, by rw [e]; simp [descend]⟩
    · simp only [List.cons.injEq, true_and] at e
      exact ⟨0, split_append_slash root xs, by rw [e]; simp [descend]⟩

/-- the walk of the result alone never leaves the root either, whatever the client sent -/
theorem never_climbs (p : Bytes) : ∃ d, descend 0 (splitSlash (canonicalize p)) = some d := by
  obtain ⟨rest, d, h1, h2⟩ := inside_root [] p
  refine ⟨d, ?_⟩
  simp only [List.nil_append] at h1
  rw [h1]
  simpa [splitSlash, splitSlash.go, descend] using h2

/-- **Idempotent.** Canonicalising a canonical path changes nothing: the result is a fixed point, so a server that
canonicalises twice (REALPATH, then an operation on the returned name) sees the same name. -/
theorem idempotent (p : Bytes) : canonicalize (canonicalize p) = canonicalize p := by
  obtain ⟨root, comps, h, hroot, hpr⟩ := canonical_form p
  have habs : isabs (canonicalize p) = true := by
    simp [isabs, absolute p]
  have hstep : canonicalize (canonicalize p) = normpath (canonicalize p) := by
    generalize canonicalize p = q at habs
    unfold canonicalize
    simp [habs]
  rw [hstep, h]
  exact normpath_normal root comps hroot hpr

/-! ## non-vacuity / sanity: the classic traversal attempts -/

example : canonicalize [46, 46, 47, 46, 46, 47, 101, 116, 99] = [47, 101, 116, 99] := by decide   -- "../../etc" ↦ "/etc"
example : canonicalize [47, 47, 46, 46, 47, 97] = [47, 47, 97] := by decide                        -- "//../a" ↦ "//a"
example : canonicalize [] = [47] := by decide
example : canonicalize [47, 47, 47, 97, 47, 47, 46, 47, 98, 47, 46, 46] = [47, 97] := by decide     -- "///a//./b/.." ↦ "/a"
example : descend 0 (splitSlash [46, 46, 47, 97]) = none := by decide                              -- "../a" itself escapes
example : Proper [101, 116, 99] := ⟨by decide, by decide, by decide, by decide⟩

end PV.Props.C34
