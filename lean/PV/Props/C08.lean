/-
  C08 — Key exchange rejects invalid peer public values and out-of-range groups.
  Property theorems only.  Model: PV/Model/Kex.lean; helpers: PV/Model/KexLemmas.lean.

  "Rejected" always means the same three things at once: the step ends with an exception, the
  engine made no call on its transport at all (`eff = []`: no `_set_K_H`, nothing sent, no
  `_expect_packet`, no NEWKEYS), and — at the level of `Transport.run()` — the session is dead
  and stays dead whatever arrives afterwards.
-/
import PV.Model.KexLemmas
import PV.Props.C39
namespace PV.Props.C08
open PV PV.Wire PV.Kex

/-! ## what the engines read from a packet body (arbitrary bytes, well-formed or not) -/

/-- `f` of KEXDH_REPLY / KEXDH_GEX_REPLY: second field, read as mpint -/
def replyF (m : Bytes) : Int := inflate ((rd m).getString.2.getString.1)
/-- `e` of KEXDH_INIT / KEXDH_GEX_INIT, `p` of KEXDH_GEX_GROUP: first field, read as mpint -/
def firstMpint (m : Bytes) : Int := inflate ((rd m).getString.1)
/-- the peer's point of KEXECDH_INIT: first field -/
def initPoint (m : Bytes) : Bytes := (rd m).getString.1
/-- the peer's point of KEXECDH_REPLY: second field -/
def replyPoint (m : Bytes) : Bytes := (rd m).getString.2.getString.1

private theorem inflate_mpintBody (z : Int) : inflate (mpintBody z) = z := by
  unfold mpintBody
  by_cases h : z = 0
  · subst h; rfl
  · simp only [h, if_false]; exact PV.Props.C39.inflate_deflate z

/-- a well-formed reply body `string K_S ‖ mpint f ‖ string sig` is read back as `f` -/
theorem replyF_wire (ks sig : Bytes) (f : Int) (hk : ks.length < 4294967296)
    (hf : (mpintBody f).length < 4294967296) :
    replyF (encStr ks ++ encMpint f ++ encStr sig) = f := by
  unfold replyF
  rw [List.append_assoc, getString_head ks _ hk]
  simp only [encMpint_eq]
  rw [← List.append_assoc, getString_second ks (mpintBody f) (encStr sig) hf]
  exact inflate_mpintBody f

/-- a well-formed init body `mpint e` is read back as `e` -/
theorem firstMpint_wire (e : Int) (rest : Bytes) (he : (mpintBody e).length < 4294967296) :
    firstMpint (encMpint e ++ rest) = e := by
  unfold firstMpint
  rw [encMpint_eq, getString_head _ _ he]
  exact inflate_mpintBody e

/-! ## fixed groups (group1 / group14 / group16), both roles, every modulus -/

/-- client: `f ∉ [1, P-1]` ⇒ SSHException, no call on the transport -/
theorem grp_client_rejects (c : Env) (g : Group) (st : GrpSt) (m : Bytes)
    (h : replyF m < 1 ∨ replyF m > (g.P : Int) - 1) :
    grpReply c g st m = ⟨[], .error .ssh⟩ := by
  unfold replyF at h
  simp only [grpReply, h, if_true]

/-- server: `e ∉ [1, P-1]` ⇒ SSHException, no call on the transport -/
theorem grp_server_rejects (c : Env) (g : Group) (st : GrpSt) (m : Bytes)
    (h : firstMpint m < 1 ∨ firstMpint m > (g.P : Int) - 1) :
    grpInit c g st m = ⟨[], .error .ssh⟩ := by
  unfold firstMpint at h
  simp only [grpInit, h, if_true]

/-- client: anything at all happening (hash, `_set_K_H`, …) means `f ∈ [1, P-1]` -/
theorem grp_client_effect_in_range (c : Env) (g : Group) (st : GrpSt) (m : Bytes)
    (h : (grpReply c g st m).eff ≠ []) : 1 ≤ replyF m ∧ replyF m ≤ (g.P : Int) - 1 := by
  by_cases hr : replyF m < 1 ∨ replyF m > (g.P : Int) - 1
  · rw [grp_client_rejects c g st m hr] at h; exact absurd rfl h
  · omega

theorem grp_server_effect_in_range (c : Env) (g : Group) (st : GrpSt) (m : Bytes)
    (h : (grpInit c g st m).eff ≠ []) : 1 ≤ firstMpint m ∧ firstMpint m ≤ (g.P : Int) - 1 := by
  by_cases hr : firstMpint m < 1 ∨ firstMpint m > (g.P : Int) - 1
  · rw [grp_server_rejects c g st m hr] at h; exact absurd rfl h
  · omega

/-- the same on the wire: a well-formed KEXDH_REPLY carrying an out-of-range `f` -/
theorem grp_client_rejects_wire (c : Env) (g : Group) (st : GrpSt) (ks sig : Bytes) (f : Int)
    (hk : ks.length < 4294967296) (hf : (mpintBody f).length < 4294967296)
    (h : f < 1 ∨ f > (g.P : Int) - 1) :
    grpReply c g st (encStr ks ++ encMpint f ++ encStr sig) = ⟨[], .error .ssh⟩ :=
  grp_client_rejects c g st _ (by rw [replyF_wire ks sig f hk hf]; exact h)

/-- … and a well-formed KEXDH_INIT carrying an out-of-range `e` -/
theorem grp_server_rejects_wire (c : Env) (g : Group) (st : GrpSt) (e : Int)
    (he : (mpintBody e).length < 4294967296) (h : e < 1 ∨ e > (g.P : Int) - 1) :
    grpInit c g st (encMpint e) = ⟨[], .error .ssh⟩ :=
  grp_server_rejects c g st _ (by
    have := firstMpint_wire e [] he
    rw [List.append_nil] at this
    rw [this]; exact h)

/-- through `parse_next`: whatever the role and the packet type, an out-of-range value yields no effect -/
theorem grp_next_rejects (c : Env) (g : Group) (st : GrpSt) (t : Nat) (m : Bytes)
    (hf : replyF m < 1 ∨ replyF m > (g.P : Int) - 1)
    (he : firstMpint m < 1 ∨ firstMpint m > (g.P : Int) - 1) :
    grpNext c g st t m = ⟨[], .error .ssh⟩ := by
  unfold grpNext
  split
  · exact grp_server_rejects c g st m he
  · split
    · exact grp_client_rejects c g st m hf
    · rfl

/-! ## group exchange -/

/-- `util.bit_length` is `⌊log₂|n|⌋ + 1` -/
theorem bitLength_eq_log2 (z : Int) (h : z ≠ 0) : bitLength z = Nat.log2 z.natAbs + 1 :=
  natBits_eq_log2 _ (by omega)

/-- client: a modulus that is not positive, or shorter than 1024 bits, or longer than 8192 bits
    ⇒ SSHException, nothing sent (in particular no KEXDH_GEX_INIT), no exponent drawn -/
theorem gex_group_rejects (c : Env) (st : GexSt) (m : Bytes) (x : Nat)
    (h : firstMpint m < 1 ∨ bitLength (firstMpint m) < 1024 ∨ bitLength (firstMpint m) > 8192) :
    gexGroup c st m x = ⟨[], .error .ssh⟩ := by
  unfold firstMpint at h
  simp only [gexGroup, h, if_true]

/-- client: a group that is used lies in the window `2^1023 ≤ p < 2^8192` -/
theorem gex_group_effect_window (c : Env) (st : GexSt) (m : Bytes) (x : Nat)
    (h : (gexGroup c st m x).eff ≠ []) :
    ∃ p : Nat, firstMpint m = (p : Int) ∧ 2 ^ 1023 ≤ p ∧ p < 2 ^ 8192 := by
  by_cases hr : firstMpint m < 1 ∨ bitLength (firstMpint m) < 1024 ∨ bitLength (firstMpint m) > 8192
  · rw [gex_group_rejects c st m x hr] at h; exact absurd rfl h
  · have h1 : 1 ≤ firstMpint m := by omega
    refine ⟨(firstMpint m).toNat, by omega, ?_, ?_⟩
    · have hb : 1023 + 1 ≤ natBits (firstMpint m).natAbs := by
        have : ¬ bitLength (firstMpint m) < 1024 := fun hh => hr (Or.inr (Or.inl hh))
        unfold bitLength at this; omega
      have hne : (firstMpint m).natAbs ≠ 0 := by omega
      have := (le_natBits _ 1023 hne).mp hb
      have e : (firstMpint m).natAbs = (firstMpint m).toNat := by omega
      rwa [e] at this
    · have hb : natBits (firstMpint m).natAbs ≤ 8192 := by
        have : ¬ bitLength (firstMpint m) > 8192 := fun hh => hr (Or.inr (Or.inr hh))
        unfold bitLength at this; omega
      have hne : (firstMpint m).natAbs ≠ 0 := by omega
      have := (natBits_le _ 8192 hne).mp hb
      have e : (firstMpint m).natAbs = (firstMpint m).toNat := by omega
      rwa [e] at this

/-- conversely every size outside the window is refused: `p < 2^1023` or `p ≥ 2^8192` -/
theorem gex_group_rejects_sizes (c : Env) (st : GexSt) (m : Bytes) (x : Nat) (p : Nat)
    (hp : firstMpint m = (p : Int)) (h : p < 2 ^ 1023 ∨ 2 ^ 8192 ≤ p) :
    gexGroup c st m x = ⟨[], .error .ssh⟩ := by
  apply gex_group_rejects
  by_cases h0 : p = 0
  · left; omega
  · right
    have e : (firstMpint m).natAbs = p := by omega
    unfold bitLength
    rw [e]
    cases h with
    | inl h => left; have := (natBits_le p 1023 h0).mpr h; omega
    | inr h =>
      right
      have := (le_natBits p 8192 h0).mpr h; omega

/-- client: `f ∉ [1, p-1]` for the group in use ⇒ SSHException, no call on the transport;
    with no group yet the step fails as well (TypeError) -/
theorem gex_client_rejects (c : Env) (st : GexSt) (m : Bytes)
    (h : replyF m < 1 ∨ ∀ p, st.p = some p → replyF m > p - 1) :
    (gexReply c st m).eff = [] ∧ ∃ e, (gexReply c st m).out = .error e := by
  unfold replyF at h
  by_cases h1 : inflate ((rd m).getString.2.getString.1) < 1
  · simp [gexReply, h1]
  · have h2 := h.resolve_left h1
    cases hp : st.p with
    | none => simp [gexReply, h1, hp]
    | some p =>
      have := h2 p hp
      cases hg : st.g <;> cases hx : st.x <;> cases he : st.e <;> simp [gexReply, h1, hp, hg, hx, he, this]

/-- client: any effect of a GEX_REPLY means `1 ≤ f ≤ p-1` for the stored group -/
theorem gex_client_effect_in_range (c : Env) (st : GexSt) (m : Bytes)
    (h : (gexReply c st m).eff ≠ []) : ∃ p, st.p = some p ∧ 1 ≤ replyF m ∧ replyF m ≤ p - 1 := by
  cases hp : st.p with
  | none =>
    have := (gex_client_rejects c st m (Or.inr (by intro p hp'; rw [hp] at hp'; cases hp'))).1
    exact absurd this h
  | some p =>
    refine ⟨p, rfl, ?_⟩
    by_cases hr : replyF m < 1 ∨ replyF m > p - 1
    · have := (gex_client_rejects c st m (hr.elim Or.inl (fun hgt => Or.inr (by
        intro p' hp'; rw [hp] at hp'; cases hp'; exact hgt)))).1
      exact absurd this h
    · omega

/-- server: `e ∉ [1, p-1]` ⇒ no call on the transport, the step raises -/
theorem gex_server_rejects (c : Env) (st : GexSt) (m : Bytes) (x : Nat)
    (h : firstMpint m < 1 ∨ ∀ p, st.p = some p → firstMpint m > p - 1) :
    (gexInit c st m x).eff = [] ∧ ∃ e, (gexInit c st m x).out = .error e := by
  unfold firstMpint at h
  by_cases h1 : inflate ((rd m).getString.1) < 1
  · simp [gexInit, h1]
  · have h2 := h.resolve_left h1
    cases hp : st.p with
    | none => simp [gexInit, h1, hp]
    | some p =>
      have := h2 p hp
      cases hg : st.g <;> simp [gexInit, h1, hp, hg, this]

theorem gex_server_effect_in_range (c : Env) (st : GexSt) (m : Bytes) (x : Nat)
    (h : (gexInit c st m x).eff ≠ []) : ∃ p, st.p = some p ∧ 1 ≤ firstMpint m ∧ firstMpint m ≤ p - 1 := by
  cases hp : st.p with
  | none =>
    have := (gex_server_rejects c st m x (Or.inr (by intro p hp'; rw [hp] at hp'; cases hp'))).1
    exact absurd this h
  | some p =>
    refine ⟨p, rfl, ?_⟩
    by_cases hr : firstMpint m < 1 ∨ firstMpint m > p - 1
    · have := (gex_server_rejects c st m x (hr.elim Or.inl (fun hgt => Or.inr (by
        intro p' hp'; rw [hp] at hp'; cases hp'; exact hgt)))).1
      exact absurd this h
    · omega

/-! ## elliptic curves: the library's verdict on the point is obeyed, X25519 zero secret is refused -/

/-- NIST curves, server: a point the library does not accept ⇒ the step raises, no effect -/
theorem ec_server_rejects_bad_point (c : Env) (cv : Curve) (st : EcSt) (m : Bytes)
    (h : cv.decode (initPoint m) = false) : ecInit c cv st m = ⟨[], .error .value⟩ := by
  unfold initPoint at h
  simp [ecInit, h]

theorem ec_client_rejects_bad_point (c : Env) (cv : Curve) (st : EcSt) (m : Bytes)
    (h : cv.decode (replyPoint m) = false) : ecReply c cv st m = ⟨[], .error .value⟩ := by
  unfold replyPoint at h
  simp [ecReply, h]

/-- NIST curves: any effect means the point was accepted and the exchange produced a secret -/
theorem ec_server_effect_valid (c : Env) (cv : Curve) (st : EcSt) (m : Bytes)
    (h : (ecInit c cv st m).eff ≠ []) :
    cv.decode (initPoint m) = true ∧ ∃ s, cv.exchange st.priv (initPoint m) = .ok s := by
  cases hd : cv.decode (initPoint m) with
  | false => rw [ec_server_rejects_bad_point c cv st m hd] at h; exact absurd rfl h
  | true =>
    refine ⟨rfl, ?_⟩
    unfold initPoint at hd ⊢
    cases hx : cv.exchange st.priv (rd m).getString.1 with
    | ok s => exact ⟨s, rfl⟩
    | error e => simp [ecInit, hd, hx] at h

theorem ec_client_effect_valid (c : Env) (cv : Curve) (st : EcSt) (m : Bytes)
    (h : (ecReply c cv st m).eff ≠ []) :
    cv.decode (replyPoint m) = true ∧ ∃ s, cv.exchange st.priv (replyPoint m) = .ok s := by
  cases hd : cv.decode (replyPoint m) with
  | false => rw [ec_client_rejects_bad_point c cv st m hd] at h; exact absurd rfl h
  | true =>
    refine ⟨rfl, ?_⟩
    unfold replyPoint at hd ⊢
    cases hx : cv.exchange st.priv (rd m).getString.2.getString.1 with
    | ok s => exact ⟨s, rfl⟩
    | error e => simp [ecReply, hd, hx] at h

/-- X25519, either role: wrong-length key, the library's refusal, or an all-zero shared secret
    ⇒ the step raises and has no effect -/
theorem cv_exchange_refuses_zero (cv : Curve) (d : Nat) (peer : Bytes)
    (h : cv.exchange d peer = .ok (zeros 32)) : cvExchange cv d peer = .error .ssh := by
  simp [cvExchange, h]

theorem cv_server_rejects (c : Env) (cv : Curve) (st : EcSt) (m : Bytes)
    (h : cv.decode (initPoint m) = false ∨ ∀ s, cvExchange cv st.priv (initPoint m) ≠ .ok s) :
    (cvInit c cv st m).eff = [] ∧ ∃ e, (cvInit c cv st m).out = .error e := by
  unfold initPoint at h
  unfold cvInit
  simp only
  split
  · exact ⟨rfl, _, rfl⟩
  · rename_i hd
    have h2 := h.resolve_left (by simpa using hd)
    split
    · exact ⟨rfl, _, rfl⟩
    · rename_i s hs; exact absurd hs (h2 s)

theorem cv_client_rejects (c : Env) (cv : Curve) (st : EcSt) (m : Bytes)
    (h : cv.decode (replyPoint m) = false ∨ ∀ s, cvExchange cv st.priv (replyPoint m) ≠ .ok s) :
    (cvReply c cv st m).eff = [] ∧ ∃ e, (cvReply c cv st m).out = .error e := by
  unfold replyPoint at h
  unfold cvReply
  simp only
  split
  · exact ⟨rfl, _, rfl⟩
  · rename_i hd
    have h2 := h.resolve_left (by simpa using hd)
    split
    · exact ⟨rfl, _, rfl⟩
    · rename_i s hs; exact absurd hs (h2 s)

/-- X25519: a secret that is used is never all-zero and comes from an accepted key -/
theorem cv_server_effect_valid (c : Env) (cv : Curve) (st : EcSt) (m : Bytes)
    (h : (cvInit c cv st m).eff ≠ []) :
    cv.decode (initPoint m) = true ∧
      ∃ s, cv.exchange st.priv (initPoint m) = .ok s ∧ s ≠ zeros 32 := by
  have key : ¬ (cv.decode (initPoint m) = false ∨ ∀ s, cvExchange cv st.priv (initPoint m) ≠ .ok s) :=
    fun hh => h (cv_server_rejects c cv st m hh).1
  refine ⟨by cases hd : cv.decode (initPoint m) <;> simp_all, ?_⟩
  cases hx : cv.exchange st.priv (initPoint m) with
  | error e => exact absurd (Or.inr (by intro s; simp [cvExchange, hx])) key
  | ok s =>
    refine ⟨s, rfl, ?_⟩
    intro hz
    exact key (Or.inr (by intro s'; simp [cvExchange, hx, hz]))

theorem cv_client_effect_valid (c : Env) (cv : Curve) (st : EcSt) (m : Bytes)
    (h : (cvReply c cv st m).eff ≠ []) :
    cv.decode (replyPoint m) = true ∧
      ∃ s, cv.exchange st.priv (replyPoint m) = .ok s ∧ s ≠ zeros 32 := by
  have key : ¬ (cv.decode (replyPoint m) = false ∨ ∀ s, cvExchange cv st.priv (replyPoint m) ≠ .ok s) :=
    fun hh => h (cv_client_rejects c cv st m hh).1
  refine ⟨by cases hd : cv.decode (replyPoint m) <;> simp_all, ?_⟩
  cases hx : cv.exchange st.priv (replyPoint m) with
  | error e => exact absurd (Or.inr (by intro s; simp [cvExchange, hx])) key
  | ok s =>
    refine ⟨s, rfl, ?_⟩
    intro hz
    exact key (Or.inr (by intro s'; simp [cvExchange, hx, hz]))

/-! ## at the level of `Transport.run()`: a refused value kills the session for good -/

/-- a step that raises without effect leaves the trace as it was and marks the session dead -/
theorem feed_rejecting_step (c : Env) (en : Engine) (s : Sess) (t : Nat) (m : Bytes) (x : Nat) (e : Err)
    (halive : s.dead = none) (hexp : t ∈ s.expected) (hk : 30 ≤ t ∧ t ≤ 41)
    (hstep : en.next c s.st t m x = ⟨[], .error e⟩) :
    (Sess.feed c en s (t, m, x)).trace = s.trace ∧ (Sess.feed c en s (t, m, x)).dead = some e := by
  have hne : s.expected ≠ [] := by intro h; rw [h] at hexp; cases hexp
  have hr : ¬ (t < 30 ∨ t > 41) := by omega
  simp [Sess.feed, halive, hne, hexp, hr, hstep]

/-- a dead session ignores every later packet: no `_set_K_H`, nothing sent, ever -/
theorem dead_absorbing (c : Env) (en : Engine) (s : Sess) (hdead : s.dead.isSome)
    (pkts : List (Nat × Bytes × Nat)) : pkts.foldl (Sess.feed c en) s = s := by
  induction pkts with
  | nil => rfl
  | cons p ps ih =>
    have : Sess.feed c en s p = s := by simp [Sess.feed, hdead]
    rw [List.foldl_cons, this, ih]

/-- a trace without `_set_K_H` leaves `K`, `H` and the session id exactly as they were -/
theorem no_setKH_keeps_keys (t : TSt) (tr : List Effect) (h : ∀ k hh, Effect.setKH k hh ∉ tr) :
    t.apply tr = t := by
  induction tr generalizing t with
  | nil => rfl
  | cons e r ih =>
    have hr : ∀ k hh, Effect.setKH k hh ∉ r := fun k hh hin => h k hh (List.mem_cons_of_mem _ hin)
    cases e with
    | setKH k hh => exact absurd List.mem_cons_self (h k hh)
    | send _ => exact ih t hr
    | expect _ => exact ih t hr
    | hashed _ => exact ih t hr
    | verifyKey _ _ => exact ih t hr
    | activate => exact ih t hr

/-- summary for the fixed groups on the client: from ANY live session state, an expected
    KEXDH_REPLY with `f ∉ [1, P-1]`, followed by any packets whatsoever, leaves the trace unchanged
    and the session dead with SSHException -/
theorem grp_client_session_rejects (c : Env) (g : Group) (s : Sess) (gs : GrpSt) (m : Bytes) (x : Nat)
    (later : List (Nat × Bytes × Nat))
    (hclient : c.serverMode = false) (hst : s.st = .grp gs) (halive : s.dead = none)
    (hexp : 31 ∈ s.expected) (h : replyF m < 1 ∨ replyF m > (g.P : Int) - 1) :
    let s' := (((31, m, x) :: later).foldl (Sess.feed c (.grp g)) s)
    s'.trace = s.trace ∧ s'.dead = some .ssh := by
  have hstep : (Engine.grp g).next c s.st 31 m x = ⟨[], .error .ssh⟩ := by
    rw [hst]
    simp only [Engine.next, grpNext, hclient]
    simp [grp_client_rejects c g gs m h, mapRes]
  have h1 := feed_rejecting_step c (.grp g) s 31 m x .ssh halive hexp (by omega) hstep
  simp only [List.foldl_cons]
  rw [dead_absorbing c (.grp g) _ (by rw [h1.2]; rfl) later]
  exact h1

/-! ## non-vacuity -/

private def env0 : Env :=
  { serverMode := false, localVersion := [1], remoteVersion := [2], localKexInit := [3],
    remoteKexInit := [4], hostKey := [5], hash := toyHash, sign := toySign [6] [5],
    verify := fun _ _ _ => true, modulus := fun _ _ _ => none }

/-- `f = 0` and `f = P` (P = 23) are out of range … -/
example : replyF ([0,0,0,1,9] ++ [0,0,0,0] ++ [0,0,0,0]) < 1 := by decide
example : replyF ([0,0,0,1,9] ++ [0,0,0,1,23] ++ [0,0,0,0]) > ((23 : Nat) : Int) - 1 := by decide
/-- … and `f = 22 = P-1` is accepted: the step has effects -/
example : (grpReply env0 ⟨23, 5⟩ ⟨6, 8, 0⟩ [0,0,0,1,9, 0,0,0,1,22, 0,0,0,0]).eff ≠ [] := by
  have hf : replyF [0,0,0,1,9, 0,0,0,1,22, 0,0,0,0] = 22 := by decide
  unfold replyF at hf
  simp [grpReply, hf, env0]
/-- X25519: the toy curve does produce the all-zero secret for the point 0 -/
example : toyX.exchange 5 (zeros 32) = .ok (zeros 32) := by
  have : beVal (zeros 32) = 0 := by decide
  simp [toyX, this, powMod_eq, toyQ]
  decide
example : toyNist.decode [4, 0] = false := by decide

end PV.Props.C08
