/-
  C27 — Remote SFTP files behave like local Python binary files.
  Model: PV/Model/SftpFile.lean (SFTPFile + server handle) over PV/Model/BufFile.lean (BufferedFile).
  Spec: PV/Model/PyFile.lean (`pstep`), validated against real local files on every run.

  FULL STATEMENT (false of today's code — see the `_witness` theorems):
    ∀ mode bufsize content prog,  outputs (srun …) = outputs (prun …)  ∧  final contents equal.
  Proved here: `refines_partial` (the statement on programs of write/seek/tell/flush/truncate/close calls that
  fire no defect trigger, for every mode flag combination, buffer size, request-size limit and file content)
  and one `_witness` per defect tag (a concrete program on which the model — which the correspondence check
  ties to the real code — departs from the spec, with exactly that tag fired).
-/
import PV.Model.SftpFileLemmas
namespace PV.Props.C27
open PV PV.BufFile PV.SftpFile PV.PyFile PV.C27

/-- a concrete test program -/
structure Prog where
  mode : String
  bufsize : Int
  init : Option Bytes
  ops : List FOp
  truncZero : Bool := false

def str (s : String) : Bytes := s.toUTF8.toList

/-- what the property compares for one call -/
def sameOut (op : FOp) (m s : Out) : Bool := eraseErr m == eraseErr (eraseRet op s)

def sameOuts : List FOp → List Out → List Out → Bool
  | op :: ops, m :: ms, s :: ss => sameOut op m s && sameOuts ops ms ss
  | [], [], [] => true
  | _, _, _ => false

/-- `some true`: model and spec agree on every return value and on the file's bytes -/
def agrees (w : Prog) : Option Bool :=
  match sftpOpen w.init w.mode.toList w.bufsize 8192 w.truncZero, pyOpen w.init w.mode.toList with
  | some f0, some p0 =>
    let m := srun (sftpOps 32768) f0 w.ops
    let s := prun p0 w.ops
    some (sameOuts w.ops m.2 s.2 && m.1.s.content == s.1.content)
  | none, none => some true
  | _, _ => some false

def tagsOf (w : Prog) : List Tag :=
  match sftpOpen w.init w.mode.toList w.bufsize 8192 w.truncZero with
  | some f0 => openTags w.mode.toList ++ runTags (sftpOps 32768) f0 w.ops
  | none => []

/-! ## witnesses: one per defect tag (replayed on the real code by the check on every run) -/

def w_write_with_unread_rbuffer : Prog :=
  { mode := "r+b", bufsize := 0, init := some (str "ab\ncd\n"), ops := [.readline none, .write (str "X"), .close] }
def w_read_with_unflushed_wbuffer : Prog :=
  { mode := "r+b", bufsize := 16, init := some (str "abcdef"), ops := [.write (str "XY"), .read (some 2), .close] }
def w_tell_ignores_wbuffer : Prog :=
  { mode := "wb", bufsize := 16, init := none, ops := [.write (str "abc"), .tell, .close] }
def w_truncate_ignores_buffers : Prog :=
  { mode := "w+b", bufsize := 16, init := none, ops := [.write (str "abcdef"), .truncate 2, .close] }
def w_truncate_not_checked_writable : Prog :=
  { mode := "rb", bufsize := 0, init := some (str "abcdef"), ops := [.truncate 2, .close] }
def w_truncate_zeroes_file : Prog :=
  { mode := "r+b", bufsize := 0, init := some (str "abcdef"), ops := [.truncate 2, .close], truncZero := true }
def w_truncate_in_append_mode : Prog :=
  { mode := "ab", bufsize := 0, init := some (str "abcdef"), ops := [.truncate 2, .write (str "X"), .tell, .close] }
def w_negative_seek_accepted : Prog :=
  { mode := "rb", bufsize := 0, init := some (str "abc"), ops := [.seek (-1) 0, .close] }
def w_closed_file_call_accepted : Prog :=
  { mode := "rb", bufsize := 0, init := some (str "abc"), ops := [.close, .tell] }
def w_x_mode_not_writable : Prog :=
  { mode := "xb", bufsize := 0, init := none, ops := [.write (str "a"), .close] }
def w_readlines_hint_rounding : Prog :=
  { mode := "rb", bufsize := 0, init := some (str "a\nb\n"), ops := [.readlines (some 0), .close] }
def w_readline0_on_unreadable : Prog :=
  { mode := "wb", bufsize := 0, init := none, ops := [.readline (some 0), .close] }
def w_returns_none : Prog :=
  { mode := "wb", bufsize := 0, init := none, ops := [.write (str "a"), .close] }

/-- repaired in /repo: the program that used to diverge now refines the local file -/
theorem legacy_write_with_unread_rbuffer_witness :
    agrees w_write_with_unread_rbuffer = some true ∧ tagsOf w_write_with_unread_rbuffer = [] := by
  decide +kernel
/-- repaired in /repo: the program that used to diverge now refines the local file -/
theorem legacy_read_with_unflushed_wbuffer_witness :
    agrees w_read_with_unflushed_wbuffer = some true ∧ tagsOf w_read_with_unflushed_wbuffer = [] := by
  decide +kernel
theorem tell_ignores_wbuffer_witness :
    agrees w_tell_ignores_wbuffer = some false ∧ tagsOf w_tell_ignores_wbuffer = [.tell_ignores_wbuffer] := by
  decide +kernel
/-- repaired in /repo: the program that used to diverge now refines the local file -/
theorem legacy_truncate_ignores_buffers_witness :
    agrees w_truncate_ignores_buffers = some true ∧ tagsOf w_truncate_ignores_buffers = [] := by
  decide +kernel
theorem truncate_not_checked_writable_witness :
    agrees w_truncate_not_checked_writable = some false ∧
    tagsOf w_truncate_not_checked_writable = [.truncate_not_checked_writable] := by
  decide +kernel
theorem truncate_zeroes_file_witness :
    agrees w_truncate_zeroes_file = some false ∧ tagsOf w_truncate_zeroes_file = [.truncate_zeroes_file] := by
  decide +kernel
theorem truncate_in_append_mode_witness :
    agrees w_truncate_in_append_mode = some false ∧ tagsOf w_truncate_in_append_mode = [.truncate_in_append_mode] := by
  decide +kernel
theorem negative_seek_accepted_witness :
    agrees w_negative_seek_accepted = some false ∧ tagsOf w_negative_seek_accepted = [.negative_seek_accepted] := by
  decide +kernel
theorem closed_file_call_accepted_witness :
    agrees w_closed_file_call_accepted = some false ∧ tagsOf w_closed_file_call_accepted = [.closed_file_call_accepted] := by
  decide +kernel
theorem x_mode_not_writable_witness :
    agrees w_x_mode_not_writable = some false ∧ tagsOf w_x_mode_not_writable = [.x_mode_not_writable] := by
  decide +kernel
theorem readlines_hint_rounding_witness :
    agrees w_readlines_hint_rounding = some false ∧ tagsOf w_readlines_hint_rounding = [.readlines_hint_rounding] := by
  decide +kernel
theorem readline0_on_unreadable_witness :
    agrees w_readline0_on_unreadable = some false ∧ tagsOf w_readline0_on_unreadable = [.readline0_on_unreadable] := by
  decide +kernel

/-- write()/seek()/truncate() return None: without the erasure of exactly that, even the simplest program differs -/
theorem returns_none_witness :
    agrees w_returns_none = some true ∧ tagsOf w_returns_none = [] ∧
    (sstep (sftpOps 32768) ((sftpOpen none "wb".toList 0 8192 false).get (by decide)) (.write (str "a"))).2 = .unit ∧
    (pstep ((pyOpen none "wb".toList).get (by decide)) (.write (str "a"))).2 = .pos 1 := by
  decide +kernel

/-- former witnesses of repaired defects (regression programs for the harness) -/
def legacyWitnesses : List (String × Prog) :=
  [("write_with_unread_rbuffer", w_write_with_unread_rbuffer),
   ("read_with_unflushed_wbuffer", w_read_with_unflushed_wbuffer),
   ("truncate_ignores_buffers", w_truncate_ignores_buffers)]

def witnesses : List (String × Prog) :=
  [("tell_ignores_wbuffer", w_tell_ignores_wbuffer),
   ("truncate_not_checked_writable", w_truncate_not_checked_writable),
   ("truncate_zeroes_file", w_truncate_zeroes_file),
   ("truncate_in_append_mode", w_truncate_in_append_mode),
   ("negative_seek_accepted", w_negative_seek_accepted),
   ("closed_file_call_accepted", w_closed_file_call_accepted),
   ("x_mode_not_writable", w_x_mode_not_writable),
   ("readlines_hint_rounding", w_readlines_hint_rounding),
   ("readline0_on_unreadable", w_readline0_on_unreadable),
   ("returns_none", w_returns_none)]


/-! ## refinement on disciplined positioning / writing programs -/

/-- calls covered by the proved refinement: everything except the read-type calls; `whence ∈ {0,1,2}` -/
def WOp : FOp → Prop
  | .write _ | .tell | .flush | .truncate _ | .close => True
  | .seek _ wh => wh ≤ 2
  | _ => False

/-- simulation relation between the SFTPFile model and the local-file spec (files not opened in append mode;
    no read-ahead, because no read-type call has been made) -/
structure Rel (f : BF Srv) (p : PF) : Prop where
  closed : p.closed = f.closed
  wr : p.wr = f.wr
  papp : p.app = false
  app : f.app = false
  sapp : f.s.append = false
  coh : Coherent f.s
  clean : f.s.didRead = false ∧ f.s.stale = false
  rbuf : f.rbuf = []
  pos0 : 0 ≤ f.pos
  rp : f.realpos = f.pos
  bs : 1 ≤ f.bufsize
  unbuf : f.buffered = false → f.wbuf = []
  dead : f.closed = true → p.content = f.s.content ∧ f.s.hopen = false ∧ f.wbuf = []
  hopen : f.closed = false → f.s.hopen = true
  content : f.closed = false → p.content = overlay f.s.content f.pos.toNat f.wbuf
  ppos : f.closed = false → (p.pos : Int) = f.pos + f.wbuf.length

/-- what one step of the refinement proof establishes -/
def StepOK (o : Ops Srv) (f : BF Srv) (p : PF) (op : FOp) : Prop :=
  Rel (sstep o f op).1 (pstep p op).1 ∧ sameOut op (sstep o f op).2 (pstep p op).2 = true

private theorem t_nil {b : Bool} {x : Tag} (h : (if b then [x] else ([] : List Tag)) = []) : b = false := by
  cases b <;> simp_all

private theorem sameOut_err (op : FOp) (e : Err) : sameOut op (.err e) PyFile.E = true := by
  cases op <;> simp [sameOut, eraseErr, eraseRet, PyFile.E]

private theorem step_tell (o : Ops Srv) (f : BF Srv) (p : PF) (r : Rel f p) (ht : triggers o f .tell = []) :
    StepOK o f p .tell := by
  simp only [triggers, List.append_eq_nil_iff] at ht
  have hc : f.closed = false := t_nil ht.1
  have hw : f.wbuf = [] := by
    have := t_nil ht.2
    simp [hc] at this
    simpa using this
  have hp := r.ppos hc
  have hpc : p.closed = false := by rw [r.closed, hc]
  simp only [StepOK, sstep, pstep, hpc, Bool.false_eq_true, if_false]
  refine ⟨r, ?_⟩
  simp only [sameOut, eraseRet, eraseErr, BufFile.tell]
  rw [hw] at hp
  simp at hp
  simp [hp]

private theorem step_flush (maxReq : Nat) (hm : 1 ≤ maxReq) (f : BF Srv) (p : PF) (r : Rel f p)
    (ht : triggers (sftpOps maxReq) f .flush = []) : StepOK (sftpOps maxReq) f p .flush := by
  simp only [triggers] at ht
  have hc : f.closed = false := t_nil ht
  have hpc : p.closed = false := by rw [r.closed, hc]
  obtain ⟨h1, h2, h3, h4, h5, h6, h7, h8, h9⟩ :=
    flush_sftp_noapp maxReq hm f (by rw [r.rp]; exact r.pos0) r.coh r.app r.sapp r.rbuf
  simp only [StepOK, sstep, pstep, hpc, Bool.false_eq_true, if_false]
  rcases hres : BufFile.flush (sftpOps maxReq) f with ⟨f1, r1⟩
  rw [hres] at h1 h2 h3 h4 h5 h6 h7 h8 h9
  simp only at h1 h2 h3 h4 h5 h6 h7 h8 h9
  subst h1
  obtain ⟨c1, c2, c3, c4, c5, c6, c7, c8, c9, c10, c11⟩ := h9
  obtain ⟨s1, s2, s3, s4, s5⟩ := h7
  simp only [outOf]
  refine ⟨?_, by simp [sameOut, eraseRet, eraseErr]⟩
  have hcl : f1.closed = false := by rw [c11]; exact hc
  exact {
    closed := by rw [c11]; exact r.closed
    wr := by rw [c2]; exact r.wr
    papp := r.papp
    app := by rw [c3]; exact r.app
    sapp := by rw [s1]; exact r.sapp
    coh := h6
    clean := by rw [s4, s5]; exact r.clean
    rbuf := by rw [c9]; exact r.rbuf
    pos0 := by rw [h3]; have := r.pos0; omega
    rp := by rw [h4, h3, r.rp]
    bs := by rw [c7]; exact r.bs
    unbuf := fun _ => h8
    dead := fun h => by rw [hcl] at h; cases h
    hopen := fun _ => by rw [s2]; exact r.hopen hc
    content := fun _ => by rw [h8, overlay_nil, h2, r.content hc, r.rp]
    ppos := fun _ => by rw [h8, h3, r.ppos hc]; simp }

/-- the state after a successful flush, as a relation-preserving step with the spec state untouched -/
private theorem rel_after_flush (maxReq : Nat) (hm : 1 ≤ maxReq) (f : BF Srv) (p : PF) (r : Rel f p)
    (hc : f.closed = false) :
    (BufFile.flush (sftpOps maxReq) f).2 = .ok () ∧ Rel (BufFile.flush (sftpOps maxReq) f).1 p ∧
    (BufFile.flush (sftpOps maxReq) f).1.wbuf = [] ∧ (BufFile.flush (sftpOps maxReq) f).1.closed = false ∧
    (BufFile.flush (sftpOps maxReq) f).1.s.truncZero = f.s.truncZero := by
  have ht : triggers (sftpOps maxReq) f .flush = [] := by simp [triggers, hc]
  have hs := step_flush maxReq hm f p r ht
  have hpc : p.closed = false := by rw [r.closed, hc]
  obtain ⟨h1, _, _, _, _, _, h7, h8, h9⟩ :=
    flush_sftp_noapp maxReq hm f (by rw [r.rp]; exact r.pos0) r.coh r.app r.sapp r.rbuf
  simp only [StepOK, sstep, pstep, hpc, Bool.false_eq_true, if_false] at hs
  rcases hres : BufFile.flush (sftpOps maxReq) f with ⟨f1, r1⟩
  rw [hres] at h1 h7 h8 h9 hs
  simp only at h1 h7 h8 h9
  subst h1
  exact ⟨rfl, hs.1, h8, by rw [h9.2.2.2.2.2.2.2.2.2.2]; exact hc, h7.2.2.1⟩

private theorem step_close (maxReq : Nat) (hm : 1 ≤ maxReq) (f : BF Srv) (p : PF) (r : Rel f p) :
    StepOK (sftpOps maxReq) f p .close := by
  simp only [StepOK, sstep, pstep, SftpFile.close]
  by_cases hc : f.closed = true
  · rw [if_pos hc]
    refine ⟨?_, by simp [outOf, sameOut, eraseRet, eraseErr]⟩
    simp only [outOf]
    have hpc : p.closed = true := by rw [r.closed, hc]
    exact { r with closed := by simp [hc], dead := fun _ => r.dead hc,
                   content := fun h => r.content h, ppos := fun h => r.ppos h }
  · have hc' : f.closed = false := by simpa using hc
    rw [if_neg hc]
    obtain ⟨g1, g2, g3, g4, _⟩ := rel_after_flush maxReq hm f p r hc'
    unfold BufFile.close
    rcases hres : BufFile.flush (sftpOps maxReq) f with ⟨f1, r1⟩
    rw [hres] at g1 g2 g3 g4
    simp only at g1 g2 g3 g4
    subst g1
    refine ⟨?_, by simp [outOf, sameOut, eraseRet, eraseErr]⟩
    simp only [outOf]
    have hcont := g2.content g4
    rw [g3, overlay_nil] at hcont
    exact {
      closed := rfl, wr := g2.wr, papp := g2.papp, app := g2.app, sapp := g2.sapp,
      coh := g2.coh, clean := g2.clean, rbuf := g2.rbuf, pos0 := g2.pos0, rp := g2.rp, bs := g2.bs,
      unbuf := g2.unbuf,
      dead := fun _ => ⟨hcont, rfl, g3⟩,
      hopen := fun h => (by cases h),
      content := fun h => (by cases h),
      ppos := fun h => (by cases h) }

/-- dropping (empty) read-ahead and re-synchronising `_realpos` leaves a related state related -/
private theorem rel_norm {f : BF Srv} {p : PF} (r : Rel f p) : Rel { f with rbuf := [], realpos := f.pos } p :=
  { closed := r.closed, wr := r.wr, papp := r.papp, app := r.app, sapp := r.sapp, coh := r.coh, clean := r.clean,
    rbuf := rfl, pos0 := r.pos0, rp := rfl, bs := r.bs, unbuf := r.unbuf, dead := r.dead, hopen := r.hopen,
    content := r.content, ppos := r.ppos }

private theorem rel_wnil {f : BF Srv} {p : PF} (r : Rel f p) (hw : f.wbuf = []) : Rel { f with wbuf := [] } p :=
  { closed := r.closed, wr := r.wr, papp := r.papp, app := r.app, sapp := r.sapp, coh := r.coh, clean := r.clean,
    rbuf := r.rbuf, pos0 := r.pos0, rp := r.rp, bs := r.bs, unbuf := fun _ => rfl,
    dead := fun h => ⟨(r.dead h).1, (r.dead h).2.1, rfl⟩, hopen := r.hopen,
    content := fun h => (by have := r.content h; rw [hw] at this; exact this),
    ppos := fun h => (by have := r.ppos h; rw [hw] at this; exact this) }

/-- the FSETSTAT itself, on a flushed state with no read-ahead -/
private theorem truncate_core (g : BF Srv) (p : PF) (n : Int) (r : Rel g p) (hw : g.wbuf = [])
    (ht : g.closed = false → (g.wr = true ∧ ¬ (g.s.truncZero = true ∧ n > 0))) :
    let res : BF Srv × Except Err Unit :=
      if n < 0 then (g, .error (.stream eStruct))
      else if !g.s.hopen then (g, .error (.stream eServer))
      else ({ g with s := srvTruncate g.s n.toNat }, .ok ())
    Rel (outOf (fun _ => Out.unit) res).1 (pstep p (.truncate n)).1 ∧
    sameOut (.truncate n) (outOf (fun _ => Out.unit) res).2 (pstep p (.truncate n)).2 = true := by
  intro res
  simp only [res, pstep]
  by_cases hc : g.closed = true
  · have hpc : p.closed = true := by rw [r.closed, hc]
    have hh := (r.dead hc).2.1
    simp only [hpc, Bool.true_or, if_true]
    by_cases hn : n < 0
    · simp only [hn, if_true, outOf]; exact ⟨r, sameOut_err _ _⟩
    · simp only [hn, if_false, hh, Bool.not_false, if_true, outOf]; exact ⟨r, sameOut_err _ _⟩
  · have hc' : g.closed = false := by simpa using hc
    have hpc : p.closed = false := by rw [r.closed, hc']
    obtain ⟨hwr, hz⟩ := ht hc'
    have hpw : p.wr = true := by rw [r.wr, hwr]
    simp only [hpc, hpw, Bool.false_or, Bool.not_true]
    by_cases hn : n < 0
    · simp only [hn, if_true, outOf, decide_true]
      exact ⟨r, sameOut_err _ _⟩
    · have hho := r.hopen hc'
      simp only [hn, if_false, hho, Bool.not_true, Bool.false_eq_true, outOf, decide_false]
      refine ⟨?_, by simp [sameOut, eraseRet, eraseErr]⟩
      have hcont := r.content hc'
      rw [hw, overlay_nil] at hcont
      have hnew : (srvTruncate g.s n.toNat).content = p.content.take n.toNat ++ List.replicate (n.toNat - p.content.length) 0 := by
        simp only [srvTruncate]
        by_cases hz' : g.s.truncZero = true
        · have : n.toNat = 0 := by
            have : ¬ n > 0 := fun h => hz ⟨hz', h⟩
            omega
          simp [hz', this]
        · simp [hz', hcont]
      exact {
        closed := (by simp [hc']), wr := (by simp [hwr]), papp := r.papp, app := r.app, sapp := r.sapp,
        coh := r.coh,
        clean := (by simp [srvTruncate, r.clean.1, r.clean.2]),
        rbuf := r.rbuf, pos0 := r.pos0, rp := r.rp, bs := r.bs, unbuf := r.unbuf,
        dead := fun h => (by simp [hc'] at h),
        hopen := fun _ => hho,
        content := fun _ => (by simp only [hw, overlay_nil]; exact hnew.symm),
        ppos := fun h => r.ppos h }

private theorem step_truncate (maxReq : Nat) (hm : 1 ≤ maxReq) (f : BF Srv) (p : PF) (n : Int) (r : Rel f p)
    (ht : triggers (sftpOps maxReq) f (.truncate n) = []) : StepOK (sftpOps maxReq) f p (.truncate n) := by
  simp only [StepOK, sstep, SftpFile.truncate]
  by_cases hc : f.closed = true
  · obtain ⟨_, _, hwb⟩ := r.dead hc
    rw [flush_nil _ f hwb]
    exact truncate_core _ p n (rel_norm (rel_wnil r hwb)) rfl (fun h => by simp [hc] at h)
  · have hc' : f.closed = false := by simpa using hc
    simp only [triggers, hc', Bool.not_false, Bool.true_and, List.append_eq_nil_iff] at ht
    obtain ⟨⟨t2, t3⟩, _⟩ := ht
    have hwr : f.wr = true := by
      have := t_nil t2; simpa using this
    have hz : ¬ (f.s.truncZero = true ∧ n > 0) := by
      have := t_nil t3; simp [hwr] at this
      intro ⟨a, b⟩; exact absurd (this a) (by omega)
    obtain ⟨g1, g2, g3, g4, g5⟩ := rel_after_flush maxReq hm f p r hc'
    rcases hres : BufFile.flush (sftpOps maxReq) f with ⟨f1, r1⟩
    rw [hres] at g1 g2 g3 g4 g5
    simp only at g1 g2 g3 g4 g5
    subst g1
    have hwr1 : f1.wr = true := by rw [← g2.wr, r.wr]; exact hwr
    exact truncate_core _ p n (rel_norm g2) g3 (fun _ => ⟨hwr1, by rw [g5]; exact hz⟩)

private theorem step_seek (maxReq : Nat) (hm : 1 ≤ maxReq) (f : BF Srv) (p : PF) (off : Int) (wh : Nat)
    (r : Rel f p) (ht : triggers (sftpOps maxReq) f (.seek off wh) = []) :
    StepOK (sftpOps maxReq) f p (.seek off wh) := by
  simp only [triggers, List.append_eq_nil_iff] at ht
  have hc : f.closed = false := t_nil ht.1
  have hpc : p.closed = false := by rw [r.closed, hc]
  have hneg := t_nil ht.2
  obtain ⟨g1, g2, g3, g4, _⟩ := rel_after_flush maxReq hm f p r hc
  simp only [StepOK, sstep, pstep, SftpFile.seek, hpc, Bool.false_eq_true, if_false]
  rcases hres : BufFile.flush (sftpOps maxReq) f with ⟨f1, r1⟩
  rw [hres] at g1 g2 g3 g4 hneg
  simp only at g1 g2 g3 g4 hneg
  subst g1
  have hcont := g2.content g4
  rw [g3, overlay_nil] at hcont
  have hpos := g2.ppos g4
  rw [g3] at hpos
  simp only [List.length_nil, Int.natCast_zero, Int.add_zero] at hpos
  have hsz : getSize f1.s = (p.content.length : Int) := by
    simp [getSize, g2.hopen g4, hcont]
  have ht_eq : (if (wh == 0) = true then off else if (wh == 1) = true then (p.pos : Int) + off else (p.content.length : Int) + off)
      = (if (wh == 0) = true then off else if (wh == 1) = true then f1.pos + off else getSize f1.s + off) := by
    rw [hpos, hsz]
  have hge : ¬ (if (wh == 0) = true then off else if (wh == 1) = true then f1.pos + off else getSize f1.s + off) < 0 := by
    simp only [hc, Bool.not_false, Bool.true_and, decide_eq_false_iff_not] at hneg
    exact hneg
  simp only [ht_eq, hge, if_false, outOf]
  refine ⟨?_, by simp [sameOut, eraseRet, eraseErr]⟩
  generalize (if (wh == 0) = true then off else if (wh == 1) = true then f1.pos + off else getSize f1.s + off) = t at hge
  have ht0 : 0 ≤ t := by omega
  exact {
    closed := (by simp [g4]), wr := g2.wr, papp := g2.papp, app := g2.app, sapp := g2.sapp,
    coh := g2.coh, clean := g2.clean, rbuf := rfl, pos0 := ht0, rp := rfl, bs := g2.bs, unbuf := g2.unbuf,
    dead := fun h => (by rw [g4] at h; cases h),
    hopen := fun h => g2.hopen h,
    content := fun _ => (by simp only [g3, overlay_nil]; exact hcont),
    ppos := fun _ => (by simp only [g3, List.length_nil]; omega) }

/-- the spec state after `write(d)` on an open writable non-append file -/
private def pw (p : PF) (d : Bytes) : PF :=
  { p with content := overlay p.content p.pos d, pos := p.pos + d.length }

private theorem ppos_nat {f : BF Srv} {p : PF} (r : Rel f p) (hc : f.closed = false) :
    p.pos = f.pos.toNat + f.wbuf.length := by
  have := r.ppos hc; have := r.pos0; omega

/-- buffering `d` (no I/O) keeps the relation with the spec state after the write -/
private theorem rel_buffered (f : BF Srv) (p : PF) (d : Bytes) (r : Rel f p) (hc : f.closed = false)
    (hb : f.buffered = true) : Rel { f with wbuf := f.wbuf ++ d } (pw p d) := by
  have hp := ppos_nat r hc
  exact {
    closed := r.closed, wr := r.wr, papp := r.papp, app := r.app, sapp := r.sapp, coh := r.coh,
    clean := r.clean, rbuf := r.rbuf, pos0 := r.pos0, rp := r.rp, bs := r.bs,
    unbuf := fun h => (by simp [hb] at h),
    dead := fun h => (by simp [hc] at h),
    hopen := fun h => r.hopen h,
    content := fun _ => (by simp only [pw]; rw [r.content hc, hp, overlay_append]),
    ppos := fun _ => (by simp only [pw, List.length_append]; have := r.ppos hc; omega) }

/-- writing out the first `cut` buffered bytes and keeping the rest buffered keeps the relation -/
private theorem rel_partial_flush (maxReq : Nat) (hm : 1 ≤ maxReq) (f : BF Srv) (p : PF) (cut : Nat)
    (r : Rel f p) (hc : f.closed = false) (hb : f.buffered = true) (hcut : cut ≤ f.wbuf.length) :
    (writeAll (sftpOps maxReq) f (f.wbuf.take cut)).2 = .ok () ∧
    Rel { (writeAll (sftpOps maxReq) f (f.wbuf.take cut)).1 with wbuf := f.wbuf.drop cut } p := by
  obtain ⟨h1, h2, h3, h4, _, h6, h7, h8⟩ :=
    writeAll_sftp_noapp maxReq hm f (f.wbuf.take cut) (by rw [r.rp]; exact r.pos0) r.coh r.app r.sapp r.rbuf
  refine ⟨h1, ?_⟩
  obtain ⟨c1, c2, c3, c4, c5, c6, c7, c8, c9, c10, c11⟩ := h8
  obtain ⟨s1, s2, s3, s4, s5⟩ := h7
  have hlen : (f.wbuf.take cut).length = cut := by rw [List.length_take]; omega
  rw [hlen] at h3 h4
  have hcl : (writeAll (sftpOps maxReq) f (f.wbuf.take cut)).1.closed = false := by rw [c11]; exact hc
  exact {
    closed := (by simp only; rw [c11]; exact r.closed)
    wr := (by simp only; rw [c2]; exact r.wr)
    papp := r.papp
    app := (by simp only; rw [c3]; exact r.app)
    sapp := (by simp only; rw [s1]; exact r.sapp)
    coh := h6
    clean := (by simp only; rw [s4, s5]; exact r.clean)
    rbuf := (by simp only; rw [c9]; exact r.rbuf)
    pos0 := (by simp only; rw [h3]; have := r.pos0; omega)
    rp := (by simp only; rw [h4, h3, r.rp])
    bs := (by simp only; rw [c7]; exact r.bs)
    unbuf := fun h => (by simp only at h; rw [c5, hb] at h; cases h)
    dead := fun h => (by simp only at h; rw [hcl] at h; cases h)
    hopen := fun _ => (by simp only; rw [s2]; exact r.hopen hc)
    content := fun _ => (by
      simp only
      rw [h2, h3, r.rp, r.content hc]
      have : (f.pos + (cut : Int)).toNat = f.pos.toNat + (f.wbuf.take cut).length := by
        rw [hlen]; have := r.pos0; omega
      rw [this, overlay_append, List.take_append_drop])
    ppos := fun _ => (by
      simp only
      rw [h3, r.ppos hc, List.length_drop]; omega) }

private theorem step_write (maxReq : Nat) (hm : 1 ≤ maxReq) (f : BF Srv) (p : PF) (d : Bytes) (r : Rel f p) :
    StepOK (sftpOps maxReq) f p (.write d) := by
  simp only [StepOK, sstep, pstep]
  unfold BufFile.write
  by_cases hc : f.closed = true
  · have hpc : p.closed = true := by rw [r.closed, hc]
    simp only [hc, hpc, if_true, Bool.true_or, outOf]
    exact ⟨r, sameOut_err _ _⟩
  have hc' : f.closed = false := by simpa using hc
  have hpc : p.closed = false := by rw [r.closed, hc']
  rw [if_neg hc]
  by_cases hw' : f.wr = false
  · have hpw : p.wr = false := by rw [r.wr, hw']
    simp only [hw', hpw, hpc, Bool.not_false, if_true, Bool.false_or, outOf]
    exact ⟨r, sameOut_err _ _⟩
  have hw : f.wr = true := by simpa using hw'
  have hpw : p.wr = true := by rw [r.wr, hw]
  rw [if_neg (by simp [hw])]
  have hspec : (if (p.closed || !p.wr) = true then (p, PyFile.E) else
      if p.app = true then
        ({ p with content := p.content ++ d, pos := if d.isEmpty = true then p.pos else (p.content ++ d).length }, Out.pos d.length)
      else ({ p with content := overlay p.content p.pos d, pos := p.pos + d.length }, Out.pos d.length))
      = (pw p d, Out.pos d.length) := by
    simp [hpc, hpw, r.papp, pw]
  rw [hspec]
  have hso : ∀ m : BF Srv, sameOut (.write d) (outOf (fun _ => Out.unit) (m, Except.ok ())).2 (Out.pos d.length) = true := by
    intro m; simp [outOf, sameOut, eraseRet, eraseErr]
  by_cases hb : f.buffered = true
  · rw [if_neg (by simp [hb])]
    have r2 := rel_buffered f p d r hc' hb
    simp only
    by_cases hl : f.lineBuf = true
    · rw [if_pos hl]
      cases hq : rfindLF d with
      | none => exact ⟨r2, hso _⟩
      | some q =>
        simp only
        have hq1 := (rfindLF_spec d q hq).1
        have hcut : q + ((f.wbuf ++ d).length - d.length) + 1 ≤ (f.wbuf ++ d).length := by
          simp only [List.length_append]; omega
        obtain ⟨k1, k2⟩ := rel_partial_flush maxReq hm { f with wbuf := f.wbuf ++ d } (pw p d)
          (q + ((f.wbuf ++ d).length - d.length) + 1) r2 hc' hb hcut
        rcases hres : writeAll (sftpOps maxReq) { f with wbuf := f.wbuf ++ d }
          ((f.wbuf ++ d).take (q + ((f.wbuf ++ d).length - d.length) + 1)) with ⟨f3, r3⟩
        rw [hres] at k1 k2
        simp only at k1 k2
        subst k1
        exact ⟨k2, hso _⟩
    · rw [if_neg hl]
      by_cases hfull : (f.wbuf ++ d).length ≥ f.bufsize
      · rw [if_pos hfull]
        obtain ⟨g1, g2, _, _, _⟩ := rel_after_flush maxReq hm { f with wbuf := f.wbuf ++ d } (pw p d) r2 hc'
        rcases hres : BufFile.flush (sftpOps maxReq) { f with wbuf := f.wbuf ++ d } with ⟨f3, r3⟩
        rw [hres] at g1 g2
        simp only at g1 g2
        subst g1
        exact ⟨g2, hso _⟩
      · rw [if_neg hfull]
        exact ⟨r2, hso _⟩
  · have hb' : f.buffered = false := by simpa using hb
    rw [if_pos (by simp [hb'])]
    have hwb := r.unbuf hb'
    obtain ⟨h1, h2, h3, h4, _, h6, h7, h8⟩ :=
      writeAll_sftp_noapp maxReq hm f d (by rw [r.rp]; exact r.pos0) r.coh r.app r.sapp r.rbuf
    obtain ⟨c1, c2, c3, c4, c5, c6, c7, c8, c9, c10, c11⟩ := h8
    obtain ⟨s1, s2, s3, s4, s5⟩ := h7
    rcases hres : writeAll (sftpOps maxReq) f d with ⟨f3, r3⟩
    rw [hres] at h1 h2 h3 h4 h6 c1 c2 c3 c4 c5 c6 c7 c8 c9 c10 c11 s1 s2 s3 s4 s5
    simp only at h1 h2 h3 h4 h6 c1 c2 c3 c4 c5 c6 c7 c8 c9 c10 c11 s1 s2 s3 s4 s5
    subst h1
    refine ⟨?_, hso _⟩
    simp only [outOf]
    have hp := ppos_nat r hc'
    rw [hwb] at hp
    simp only [List.length_nil, Nat.add_zero] at hp
    have hcont := r.content hc'
    rw [hwb, overlay_nil] at hcont
    have hcl : f3.closed = false := by rw [c11]; exact hc'
    exact {
      closed := (by rw [c11]; exact r.closed)
      wr := (by rw [c2]; exact r.wr)
      papp := r.papp
      app := (by rw [c3]; exact r.app)
      sapp := (by rw [s1]; exact r.sapp)
      coh := h6
      clean := (by rw [s4, s5]; exact r.clean)
      rbuf := (by rw [c9]; exact r.rbuf)
      pos0 := (by rw [h3]; have := r.pos0; omega)
      rp := (by rw [h4, h3, r.rp])
      bs := (by rw [c7]; exact r.bs)
      unbuf := fun _ => (by rw [c10]; exact hwb)
      dead := fun h => (by rw [hcl] at h; cases h)
      hopen := fun _ => (by rw [s2]; exact r.hopen hc')
      content := fun _ => (by rw [c10, hwb, overlay_nil, h2, r.rp]; simp only [pw]; rw [hcont, hp])
      ppos := fun _ => (by rw [c10, hwb, h3]; simp only [pw, List.length_nil]; have := r.ppos hc'; rw [hwb] at this; simp at this; omega) }

/-- One call: on related states, a positioning/writing call that fires no defect trigger returns the same
    value (modulo `returns_none` and the exception class) and leaves related states. -/
theorem step_refines (maxReq : Nat) (hm : 1 ≤ maxReq) (f : BF Srv) (p : PF) (op : FOp) (r : Rel f p)
    (hop : WOp op) (ht : triggers (sftpOps maxReq) f op = []) : StepOK (sftpOps maxReq) f p op := by
  cases op with
  | read n => exact absurd hop (by simp [WOp])
  | readline n => exact absurd hop (by simp [WOp])
  | readlines h => exact absurd hop (by simp [WOp])
  | write d => exact step_write maxReq hm f p d r
  | seek off wh => exact step_seek maxReq hm f p off wh r ht
  | tell => exact step_tell _ f p r ht
  | flush => exact step_flush maxReq hm f p r ht
  | truncate n => exact step_truncate maxReq hm f p n r ht
  | close => exact step_close maxReq hm f p r

/-- **Refinement (partial).**  For every request-size limit, every buffer size / buffering mode, every file
    content and every program of write/seek/tell/flush/truncate/close calls on a file not opened in append mode:
    if no defect trigger fires along the run, SFTPFile returns what the local file returns at every call
    (modulo `returns_none`) and the two stay related — in particular the server file equals the local file
    once closed, and equals it up to the not-yet-flushed write buffer before.
    NOT covered by this theorem (tied by correspondence and oracle only): read/readline/readlines calls and
    append-mode files. -/
theorem refines_partial (maxReq : Nat) (hm : 1 ≤ maxReq) (f : BF Srv) (p : PF) (prog : List FOp) (r : Rel f p)
    (hops : ∀ op ∈ prog, WOp op) (ht : runTags (sftpOps maxReq) f prog = []) :
    sameOuts prog (srun (sftpOps maxReq) f prog).2 (prun p prog).2 = true ∧
    Rel (srun (sftpOps maxReq) f prog).1 (prun p prog).1 := by
  induction prog generalizing f p with
  | nil => exact ⟨rfl, r⟩
  | cons op ops ih =>
    simp only [runTags, List.append_eq_nil_iff] at ht
    obtain ⟨s1, s2⟩ := step_refines maxReq hm f p op r (hops op (by simp)) ht.1
    obtain ⟨i1, i2⟩ := ih _ _ s1 (fun o ho => hops o (by simp [ho])) ht.2
    simp only [srun, prun, sameOuts, s2, i1, Bool.and_self]
    exact ⟨trivial, i2⟩

/-- consequence for the bytes on the server: a closed file holds exactly what the local file holds -/
theorem closed_contents_equal (f : BF Srv) (p : PF) (r : Rel f p) (hc : f.closed = true) :
    f.s.content = p.content := (r.dead hc).1.symm

/-- non-vacuity: a freshly opened r+ file with line buffering is related to the freshly opened local file,
    and a disciplined program (write, seek back, overwrite, truncate, close) fires no trigger -/
def demoProg : List FOp :=
  [.write (str "X\nY"), .seek 1 0, .tell, .write (str "Z"), .flush, .truncate 4, .close]

example : ∀ op ∈ demoProg, WOp op := by simp [demoProg, WOp]

example :
    let f0 := (sftpOpen (some (str "abcdef")) "r+b".toList 1 8192 false).get (by decide)
    runTags (sftpOps 2) f0 demoProg = [] ∧
    (srun (sftpOps 2) f0 demoProg).1.s.content = str "XZY" ++ str "d" := by
  decide +kernel

/-! ## freshly opened files are related (non-append modes) -/

private theorem setFlags_fields (f : BF Srv) (mode : List Char) (sz : Int) (hna : mode.contains 'a' = false) :
    (setFlags f mode sz).s = f.s ∧ (setFlags f mode sz).closed = f.closed ∧ (setFlags f mode sz).rbuf = f.rbuf ∧
    (setFlags f mode sz).wbuf = f.wbuf ∧ (setFlags f mode sz).pos = f.pos ∧ (setFlags f mode sz).realpos = f.realpos ∧
    (setFlags f mode sz).app = f.app ∧
    (setFlags f mode sz).wr = (f.wr || mode.contains 'w' || mode.contains '+') ∧
    (setFlags f mode sz).bufsize = f.bufsize ∧ (setFlags f mode sz).buffered = f.buffered := by
  unfold setFlags
  simp only [hna, Bool.false_eq_true, if_false]
  (repeat' split) <;> simp_all <;> (rename_i h1 h2; rcases h1 with h | h <;> simp [h])

private theorem setBuf_fields (f : BF Srv) (bs : Int) (hd : 1 ≤ f.dflt) (hw : f.wbuf = []) :
    (setBuf f bs).s = f.s ∧ (setBuf f bs).closed = f.closed ∧ (setBuf f bs).rbuf = f.rbuf ∧
    (setBuf f bs).wbuf = [] ∧ (setBuf f bs).pos = f.pos ∧ (setBuf f bs).realpos = f.realpos ∧
    (setBuf f bs).app = f.app ∧ (setBuf f bs).wr = f.wr ∧ 1 ≤ (setBuf f bs).bufsize := by
  unfold setBuf
  simp only
  (repeat' split) <;> simp_all <;> omega

/-- the relation holds between what `SFTPClient.open` and the local `open` return, for any content `c`
    the two start from, any buffer size, any non-append mode string with the same writability -/
theorem rel_init (c : Bytes) (tz : Bool) (mode : List Char) (bs : Int) (dflt : Nat) (rd : Bool)
    (hd : 1 ≤ dflt) (hna : mode.contains 'a' = false) :
    Rel (setMode ({ s := { content := c, truncZero := tz }, dflt := dflt, bufsize := dflt } : BF Srv) mode bs
          (getSize { content := c, truncZero := tz }))
        { content := c, rd := rd, wr := (mode.contains 'w' || mode.contains '+') } := by
  unfold setMode
  obtain ⟨b1, b2, b3, b4, b5, b6, b7, b8, b9⟩ :=
    setBuf_fields ({ s := { content := c, truncZero := tz }, dflt := dflt, bufsize := dflt } : BF Srv) bs hd rfl
  obtain ⟨a1, a2, a3, a4, a5, a6, a7, a8, a9, a10⟩ := setFlags_fields
    (setBuf ({ s := { content := c, truncZero := tz }, dflt := dflt, bufsize := dflt } : BF Srv) bs) mode
    (getSize { content := c, truncZero := tz }) hna
  have hclosed : (setFlags (setBuf ({ s := { content := c, truncZero := tz }, dflt := dflt, bufsize := dflt } : BF Srv) bs)
      mode (getSize { content := c, truncZero := tz })).closed = false := by rw [a2, b2]
  exact {
    closed := (by rw [hclosed])
    wr := (by rw [a8, b8]; simp)
    papp := rfl
    app := (by rw [a7, b7])
    sapp := (by rw [a1, b1])
    coh := (by rw [a1, b1]; exact Or.inl rfl)
    clean := (by rw [a1, b1]; exact ⟨rfl, rfl⟩)
    rbuf := (by rw [a3, b3])
    pos0 := (by rw [a5, b5]; exact Int.le_refl 0)
    rp := (by rw [a6, b6, a5, b5])
    bs := (by rw [a9]; exact b9)
    unbuf := fun _ => (by rw [a4, b4])
    dead := fun h => (by rw [hclosed] at h; cases h)
    hopen := fun _ => (by rw [a1, b1])
    content := fun _ => (by rw [a4, b4, overlay_nil, a1, b1])
    ppos := fun _ => (by rw [a4, b4, a5, b5]; rfl) }

/-- e.g. `sftp.open(name, "r+b", bufsize)` vs `open(name, "r+b")` on an existing file, any buffer size -/
example (c : Bytes) (bs : Int) :
    ∃ f0 p0, sftpOpen (some c) "r+b".toList bs 8192 false = some f0 ∧ pyOpen (some c) "r+b".toList = some p0 ∧
      Rel f0 p0 := by
  refine ⟨_, _, rfl, rfl, ?_⟩
  exact rel_init c false "r+b".toList bs 8192 true (by decide) (by decide)

/-- … and `"wb"` on a new or existing file (truncated on both sides) -/
example (fs : Option Bytes) (bs : Int) :
    ∃ f0 p0, sftpOpen fs "wb".toList bs 8192 false = some f0 ∧ pyOpen fs "wb".toList = some p0 ∧ Rel f0 p0 := by
  cases fs <;> exact ⟨_, _, rfl, rfl, rel_init [] false "wb".toList bs 8192 false (by decide) (by decide)⟩

end PV.Props.C27
