/-
  C27 — Remote SFTP files behave like local Python binary files.
  Model: PV/Model/SftpFile.lean (SFTPFile + server handle) over PV/Model/BufFile.lean (BufferedFile).
  Spec: PV/Model/PyFile.lean (`pstep`), validated against real local files on every run.

  FULL STATEMENT (false of today's code — see the `_witness` theorems):
    ∀ mode bufsize content prog,  outputs (srun …) = outputs (prun …)  ∧  final contents equal.
  Proved here: `refines_partial` (the statement on programs of write/seek/tell/flush/truncate/close calls that
  fire no defect trigger, for every mode flag combination, buffer size, request-size limit and file content)
  and one `_witness` per defect tag (a concrete program on which the model — which the correspondence check
  ties to the real code — departs from the spec, with exactly that tag fired).
-/
import PV.Model.SftpFileLemmas
namespace PV.Props.C27
open PV PV.BufFile PV.SftpFile PV.PyFile PV.C27

/-- a concrete test program -/
structure Prog where
  mode : String
  bufsize : Int
  init : Option Bytes
  ops : List FOp
  truncZero : Bool := false

def str (s : String) : Bytes := s.toUTF8.toList

/-- what the property compares for one call -/
def sameOut (op : FOp) (m s : Out) : Bool := eraseErr m == eraseErr (eraseRet op s)

def sameOuts : List FOp → List Out → List Out → Bool
  | op :: ops, m :: ms, s :: ss => sameOut op m s && sameOuts ops ms ss
  | [], [], [] => true
  | _, _, _ => false

/-- `some true`: model and spec agree on every return value and on the file's bytes -/
def agrees (w : Prog) : Option Bool :=
  match sftpOpen w.init w.mode.toList w.bufsize 8192 w.truncZero, pyOpen w.init w.mode.toList with
  | some f0, some p0 =>
    let m := srun (sftpOps 32768) f0 w.ops
    let s := prun p0 w.ops
    some (sameOuts w.ops m.2 s.2 && m.1.s.content == s.1.content)
  | none, none => some true
  | _, _ => some false

def tagsOf (w : Prog) : List Tag :=
  match sftpOpen w.init w.mode.toList w.bufsize 8192 w.truncZero with
  | some f0 => openTags w.mode.toList ++ runTags (sftpOps 32768) f0 w.ops
  | none => []

/-! ## witnesses: one per defect tag (replayed on the real code by the check on every run) -/

def w_write_with_unread_rbuffer : Prog :=
  { mode := "r+b", bufsize := 0, init := some (str "ab\ncd\n"), ops := [.readline none, .write (str "X"), .close] }
def w_read_with_unflushed_wbuffer : Prog :=
  { mode := "r+b", bufsize := 16, init := some (str "abcdef"), ops := [.write (str "XY"), .read (some 2), .close] }
def w_tell_ignores_wbuffer : Prog :=
  { mode := "wb", bufsize := 16, init := none, ops := [.write (str "abc"), .tell, .close] }
def w_truncate_ignores_buffers : Prog :=
  { mode := "w+b", bufsize := 16, init := none, ops := [.write (str "abcdef"), .truncate 2, .close] }
def w_truncate_not_checked_writable : Prog :=
  { mode := "rb", bufsize := 0, init := some (str "abcdef"), ops := [.truncate 2, .close] }
def w_truncate_zeroes_file : Prog :=
  { mode := "r+b", bufsize := 0, init := some (str "abcdef"), ops := [.truncate 2, .close], truncZero := true }
def w_truncate_in_append_mode : Prog :=
  { mode := "ab", bufsize := 0, init := some (str "abcdef"), ops := [.truncate 2, .write (str "X"), .tell, .close] }
def w_negative_seek_accepted : Prog :=
  { mode := "rb", bufsize := 0, init := some (str "abc"), ops := [.seek (-1) 0, .close] }
def w_closed_file_call_accepted : Prog :=
  { mode := "rb", bufsize := 0, init := some (str "abc"), ops := [.close, .tell] }
def w_x_mode_not_writable : Prog :=
  { mode := "xb", bufsize := 0, init := none, ops := [.write (str "a"), .close] }
def w_readlines_hint_rounding : Prog :=
  { mode := "rb", bufsize := 0, init := some (str "a\nb\n"), ops := [.readlines (some 0), .close] }
def w_readline0_on_unreadable : Prog :=
  { mode := "wb", bufsize := 0, init := none, ops := [.readline (some 0), .close] }
def w_returns_none : Prog :=
  { mode := "wb", bufsize := 0, init := none, ops := [.write (str "a"), .close] }

/-- repaired in /repo: the program that used to diverge now refines the local file -/
theorem legacy_write_with_unread_rbuffer_witness :
    agrees w_write_with_unread_rbuffer = some true ∧ tagsOf w_write_with_unread_rbuffer = [] := by
  decide +kernel
/-- repaired in /repo: the program that used to diverge now refines the local file -/
theorem legacy_read_with_unflushed_wbuffer_witness :
    agrees w_read_with_unflushed_wbuffer = some true ∧ tagsOf w_read_with_unflushed_wbuffer = [] := by
  decide +kernel
theorem tell_ignores_wbuffer_witness :
    agrees w_tell_ignores_wbuffer = some false ∧ tagsOf w_tell_ignores_wbuffer = [.tell_ignores_wbuffer] := by
  decide +kernel
/-- repaired in /repo: the program that used to diverge now refines the local file -/
theorem legacy_truncate_ignores_buffers_witness :
    agrees w_truncate_ignores_buffers = some true ∧ tagsOf w_truncate_ignores_buffers = [] := by
  decide +kernel
theorem truncate_not_checked_writable_witness :
    agrees w_truncate_not_checked_writable = some false ∧
    tagsOf w_truncate_not_checked_writable = [.truncate_not_checked_writable] := by
  decide +kernel
theorem truncate_zeroes_file_witness :
    agrees w_truncate_zeroes_file = some false ∧ tagsOf w_truncate_zeroes_file = [.truncate_zeroes_file] := by
  decide +kernel
theorem truncate_in_append_mode_witness :
    agrees w_truncate_in_append_mode = some false ∧ tagsOf w_truncate_in_append_mode = [.truncate_in_append_mode] := by
  decide +kernel
theorem negative_seek_accepted_witness :
    agrees w_negative_seek_accepted = some false ∧ tagsOf w_negative_seek_accepted = [.negative_seek_accepted] := by
  decide +kernel
theorem closed_file_call_accepted_witness :
    agrees w_closed_file_call_accepted = some false ∧ tagsOf w_closed_file_call_accepted = [.closed_file_call_accepted] := by
  decide +kernel
theorem x_mode_not_writable_witness :
    agrees w_x_mode_not_writable = some false ∧ tagsOf w_x_mode_not_writable = [.x_mode_not_writable] := by
  decide +kernel
theorem readlines_hint_rounding_witness :
    agrees w_readlines_hint_rounding = some false ∧ tagsOf w_readlines_hint_rounding = [.readlines_hint_rounding] := by
  decide +kernel
theorem readline0_on_unreadable_witness :
    agrees w_readline0_on_unreadable = some false ∧ tagsOf w_readline0_on_unreadable = [.readline0_on_unreadable] := by
  decide +kernel

/-- write()/seek()/truncate() return None: without the erasure of exactly that, even the simplest program differs -/
theorem returns_none_witness :
    agrees w_returns_none = some true ∧ tagsOf w_returns_none = [] ∧
    (sstep (sftpOps 32768) ((sftpOpen none "wb".toList 0 8192 false).get (by decide)) (.write (str "a"))).2 = .unit ∧
    (pstep ((pyOpen none "wb".toList).get (by decide)) (.write (str "a"))).2 = .pos 1 := by
  decide +kernel

/-- former witnesses of repaired defects (regression programs for the harness) -/
def legacyWitnesses : List (String × Prog) :=
  [("write_with_unread_rbuffer", w_write_with_unread_rbuffer),
   ("read_with_unflushed_wbuffer", w_read_with_unflushed_wbuffer),
   ("truncate_ignores_buffers", w_truncate_ignores_buffers)]

def witnesses : List (String × Prog) :=
  [("tell_ignores_wbuffer", w_tell_ignores_wbuffer),
   ("truncate_not_checked_writable", w_truncate_not_checked_writable),
   ("truncate_zeroes_file", w_truncate_zeroes_file),
   ("truncate_in_append_mode", w_truncate_in_append_mode),
   ("negative_seek_accepted", w_negative_seek_accepted),
   ("closed_file_call_accepted", w_closed_file_call_accepted),
   ("x_mode_not_writable", w_x_mode_not_writable),
   ("readlines_hint_rounding", w_readlines_hint_rounding),
   ("readline0_on_unreadable", w_readline0_on_unreadable),
   ("returns_none", w_returns_none)]


/-! ## refinement -/

/-- calls covered by the proved refinement: every call the property names; `whence ∈ {0,1,2}` -/
def Covered : FOp → Prop
  | .seek _ wh => wh ≤ 2
  | _ => True

/-- Simulation relation between the SFTPFile model (client buffers + server file and handle) and the
    local-file spec.  The spec file is the server file with the not-yet-flushed write buffer applied at the
    caller's position (at the end, in append mode); the read-ahead buffer is a true slice of the server file. -/
structure Rel (f : BF Srv) (p : PF) : Prop where
  closed : p.closed = f.closed
  rd : p.rd = f.rd
  wr : p.wr = f.wr
  app : p.app = f.app
  w : WPre f
  nstale : f.s.stale = false
  bs : 1 ≤ f.bufsize
  dflt : 1 ≤ f.dflt
  unbuf : f.buffered = false → f.wbuf = []
  dead : f.closed = true → p.content = f.s.content ∧ f.s.hopen = false ∧ f.wbuf = []
  hopen : f.closed = false → f.s.hopen = true
  rbufOK : f.rbuf = (f.s.content.drop f.pos.toNat).take f.rbuf.length
  content : f.closed = false →
    p.content = (if f.app = true then f.s.content ++ f.wbuf else overlay f.s.content f.pos.toNat f.wbuf)
  ppos : f.closed = false →
    (p.pos : Int) = (if f.wbuf = [] then f.pos
                     else if f.app = true then ((f.s.content.length + f.wbuf.length : Nat) : Int)
                     else f.pos + f.wbuf.length)

/-- what one step of the refinement proof establishes -/
def StepOK (o : Ops Srv) (f : BF Srv) (p : PF) (op : FOp) : Prop :=
  Rel (sstep o f op).1 (pstep p op).1 ∧ sameOut op (sstep o f op).2 (pstep p op).2 = true

private theorem t_nil {b : Bool} {x : Tag} (h : (if b then [x] else ([] : List Tag)) = []) : b = false := by
  cases b <;> simp_all

private theorem sameOut_err (op : FOp) (e : Err) : sameOut op (.err e) PyFile.E = true := by
  cases op <;> simp [sameOut, eraseErr, eraseRet, PyFile.E]

/-- with an empty write buffer the spec file IS the server file and the positions coincide -/
private theorem rel_wnil_facts {f : BF Srv} {p : PF} (r : Rel f p) (hc : f.closed = false) (hw : f.wbuf = []) :
    p.content = f.s.content ∧ (p.pos : Int) = f.pos := by
  have h1 := r.content hc
  have h2 := r.ppos hc
  rw [hw] at h1 h2
  refine ⟨?_, by simpa using h2⟩
  by_cases ha : f.app = true
  · rw [if_pos ha] at h1; simpa using h1
  · rw [if_neg ha, overlay_nil] at h1; exact h1

private theorem rel_setw {f : BF Srv} {p : PF} (r : Rel f p) (hw : f.wbuf = []) : Rel { f with wbuf := [] } p :=
  { closed := r.closed, rd := r.rd, wr := r.wr, app := r.app,
    w := ⟨r.w.pos0, r.w.rp, r.w.coh, r.w.sapp, r.w.asize⟩,
    nstale := r.nstale, bs := r.bs, dflt := r.dflt, unbuf := fun _ => rfl,
    dead := fun h => ⟨(r.dead h).1, (r.dead h).2.1, rfl⟩, hopen := r.hopen, rbufOK := r.rbufOK,
    content := fun h => (by have := r.content h; rw [hw] at this; exact this),
    ppos := fun h => (by have := r.ppos h; rw [hw] at this; exact this) }

/-- the state after writing out `data` (a non-empty prefix situation is handled by the callers): generic
    constructor of the relation from the facts `writeAll_sftp` provides -/
private theorem rel_after_writeAll (maxReq : Nat) (hm : 1 ≤ maxReq) (f : BF Srv) (p : PF) (data keep : Bytes)
    (r : Rel f p) (hc : f.closed = false) (hne : data ≠ []) (hfw : f.wbuf = data ++ keep)
    (hk : keep ≠ [] → f.buffered = true) :
    (writeAll (sftpOps maxReq) f data).2 = .ok () ∧
    Rel { (writeAll (sftpOps maxReq) f data).1 with wbuf := keep } p ∧
    (writeAll (sftpOps maxReq) f data).1.closed = false ∧
    (writeAll (sftpOps maxReq) f data).1.s.truncZero = f.s.truncZero ∧
    (writeAll (sftpOps maxReq) f data).1.s.didRead = f.s.didRead := by
  obtain ⟨h1, h2, h3, h4, h5, h6, h7, h8, h9⟩ := writeAll_sftp maxReq hm f data r.w hne
  obtain ⟨c1, c2, c3, c4, c5, c6, c7, c8, c9, c10⟩ := h9
  obtain ⟨s1, s2, s3, s4, s5⟩ := h8
  have hcl : (writeAll (sftpOps maxReq) f data).1.closed = false := by rw [c10]; exact hc
  have hwne : f.wbuf ≠ [] := by rw [hfw]; simp [hne]
  have hcont := r.content hc
  have hpos := r.ppos hc
  rw [if_neg hwne] at hpos
  have hp0 := r.w.pos0
  refine ⟨h1, ?_, hcl, s3, s4⟩
  exact {
    closed := (by simp only; rw [c10]; exact r.closed)
    rd := (by simp only; rw [c1]; exact r.rd)
    wr := (by simp only; rw [c2]; exact r.wr)
    app := (by simp only; rw [c3]; exact r.app)
    w := ⟨(by simp only; rw [h3]; split <;> omega), (by simp only; rw [h4, h5]; simp),
          h7, (by simp only; rw [s1, c3]; exact r.w.sapp),
          (by
            intro ha
            simp only at ha ⊢
            rw [c3] at ha
            rw [h6 ha, h2, if_pos ha, List.length_append])⟩
    nstale := (by simp only; rw [s5]; exact r.nstale)
    bs := (by simp only; rw [c7]; exact r.bs)
    dflt := (by simp only; rw [c8]; exact r.dflt)
    unbuf := fun hb => (by
      simp only at hb ⊢
      rw [c5] at hb
      by_cases hk0 : keep = []
      · exact hk0
      · rw [hk hk0] at hb; cases hb)
    dead := fun h => (by simp only at h; rw [hcl] at h; cases h)
    hopen := fun _ => (by simp only; rw [s2]; exact r.hopen hc)
    rbufOK := (by simp only; rw [h5]; simp)
    content := fun _ => (by
      simp only
      rw [c3, h2, hcont, hfw]
      by_cases ha : f.app = true
      · simp only [ha, if_true, List.append_assoc]
      · simp only [ha, Bool.false_eq_true, if_false]
        rw [h3, if_neg ha]
        have : (f.pos + (data.length : Int)).toNat = f.pos.toNat + data.length := by omega
        rw [this, overlay_append])
    ppos := fun _ => (by
      simp only
      rw [c3, h3, h2, hpos, hfw]
      by_cases ha : f.app = true
      · simp only [ha, if_true, List.length_append]
        split
        · rename_i hk0; rw [hk0]; simp
        · push_cast; omega
      · simp only [ha, Bool.false_eq_true, if_false, List.length_append]
        split
        · rename_i hk0; rw [hk0]; simp
        · push_cast; omega) }

/-- flushing keeps the relation (the spec state does not move) -/
private theorem rel_after_flush (maxReq : Nat) (hm : 1 ≤ maxReq) (f : BF Srv) (p : PF) (r : Rel f p)
    (hc : f.closed = false) :
    (BufFile.flush (sftpOps maxReq) f).2 = .ok () ∧ Rel (BufFile.flush (sftpOps maxReq) f).1 p ∧
    (BufFile.flush (sftpOps maxReq) f).1.wbuf = [] ∧ (BufFile.flush (sftpOps maxReq) f).1.closed = false ∧
    (BufFile.flush (sftpOps maxReq) f).1.s.truncZero = f.s.truncZero ∧
    (BufFile.flush (sftpOps maxReq) f).1.s.didRead = f.s.didRead := by
  by_cases hw : f.wbuf = []
  · rw [flush_nil _ f hw]
    exact ⟨rfl, rel_setw r hw, rfl, hc, rfl, rfl⟩
  · obtain ⟨k1, k2, k3, k4, k5⟩ := rel_after_writeAll maxReq hm f p f.wbuf [] r hc hw (by simp) (fun h => absurd rfl h)
    unfold BufFile.flush
    rcases hres : writeAll (sftpOps maxReq) f f.wbuf with ⟨f1, r1⟩
    rw [hres] at k1 k2 k3 k4 k5
    simp only at k1 k2 k3 k4 k5
    subst k1
    exact ⟨rfl, k2, rfl, k3, k4, k5⟩

/-! ### read-type calls -/

private theorem pend_eq (maxReq : Nat) (hm : 1 ≤ maxReq) {f : BF Srv} {p : PF} (r : Rel f p) :
    pendG (sftpLaws maxReq hm) f = f.s.content.drop f.pos.toNat := by
  show f.rbuf ++ f.s.content.drop f.realpos.toNat = _
  have h1 := r.rbufOK
  have h2 : f.realpos.toNat = f.pos.toNat + f.rbuf.length := by
    have := r.w.rp; have := r.w.pos0; omega
  rw [h2, ← List.drop_drop]
  conv => lhs; lhs; rw [h1]
  exact List.take_append_drop _ _

private theorem rel_readpre (maxReq : Nat) (hm : 1 ≤ maxReq) {f : BF Srv} {p : PF} (r : Rel f p)
    (hc : f.closed = false) (hr : f.rd = true) (hw : f.wbuf = []) : ReadPre (sftpLaws maxReq hm) f :=
  { ok := ⟨by have := r.w.rp; have := r.w.pos0; omega, r.w.coh, r.nstale⟩,
    rp := r.w.rp, dflt := r.dflt, bs := r.bs, live := hc, rd := hr, wnil := hw }

/-- a read-type call that handed `out` to the caller moves both sides by `out.length` and nothing else -/
private theorem rel_after_read (maxReq : Nat) (hm : 1 ≤ maxReq) {f f' : BF Srv} {p : PF} {out : Bytes}
    (r : Rel f p) (hc : f.closed = false) (hw : f.wbuf = [])
    (h : ReadPost (sftpLaws maxReq hm) f f' out) : Rel f' { p with pos := p.pos + out.length } := by
  obtain ⟨c1, c2, c3, c4, c5, c6, c7, c8, c9, c10, c11⟩ := h.cli
  obtain ⟨e1, e2, e3, e4, e5⟩ := h.fr
  obtain ⟨k0, kc, ks⟩ := h.ok
  obtain ⟨hcont, hpos⟩ := rel_wnil_facts r hc hw
  have hcl : f'.closed = false := by rw [c11]; exact hc
  have hw' : f'.wbuf = [] := by rw [c9]; exact hw
  have hp0 := r.w.pos0
  have hpend := h.pend
  have hpe : pendG (sftpLaws maxReq hm) f = f.s.content.drop f.pos.toNat := pend_eq maxReq hm r
  -- the new read-ahead is a slice of the (unchanged) server file at the new position
  have hrest : f'.rbuf ++ f'.s.content.drop f'.realpos.toNat = f.s.content.drop (f.pos.toNat + out.length) := by
    have h1 : out ++ (f'.rbuf ++ f'.s.content.drop f'.realpos.toNat) = f.s.content.drop f.pos.toNat := by
      rw [← hpe, ← hpend]; rfl
    have h2 := congrArg (List.drop out.length) h1
    rw [List.drop_append_of_le_length (Nat.le_refl _), List.drop_length, List.nil_append, List.drop_drop] at h2
    rw [h2]
  have hpos' : f'.pos.toNat = f.pos.toNat + out.length := by rw [h.pos]; omega
  exact {
    closed := (by simp only; rw [c11]; exact r.closed)
    rd := (by simp only; rw [c1]; exact r.rd)
    wr := (by simp only; rw [c2]; exact r.wr)
    app := (by simp only; rw [c3]; exact r.app)
    w := ⟨by rw [h.pos]; omega, h.rp, kc, by rw [e2, c3]; exact r.w.sapp,
          fun ha => by rw [c10, e1]; exact r.w.asize (by rw [← c3]; exact ha)⟩
    nstale := ks
    bs := (by rw [c7]; exact r.bs)
    dflt := (by rw [c8]; exact r.dflt)
    unbuf := fun _ => hw'
    dead := fun hh => (by rw [hcl] at hh; cases hh)
    hopen := fun _ => (by rw [e3]; exact r.hopen hc)
    rbufOK := (by
      rw [e1, hpos', ← hrest, List.take_append_of_le_length (Nat.le_refl _), List.take_length])
    content := fun _ => (by
      simp only
      rw [hw', c3, e1, hcont]
      split
      · simp
      · rw [overlay_nil])
    ppos := fun _ => (by
      simp only
      rw [if_pos hw', h.pos]; push_cast; omega) }

private theorem sync_rel (maxReq : Nat) (hm : 1 ≤ maxReq) (f : BF Srv) (p : PF) (r : Rel f p) (hc : f.closed = false) :
    ∃ g, syncForRead (sftpOps maxReq) f = (g, .ok ()) ∧ Rel g p ∧ g.wbuf = [] ∧ g.closed = false ∧ g.rd = f.rd := by
  by_cases hw : f.wbuf = []
  · exact ⟨f, by simp [syncForRead, hw], r, hw, hc, rfl⟩
  · obtain ⟨g1, g2, g3, g4, _, _⟩ := rel_after_flush maxReq hm f p r hc
    have hs : syncForRead (sftpOps maxReq) f = BufFile.flush (sftpOps maxReq) f := by
      have : f.wbuf.isEmpty = false := by simpa using hw
      simp [syncForRead, this, sftpOps]
    rcases hres : BufFile.flush (sftpOps maxReq) f with ⟨f1, r1⟩
    rw [hres] at g1 g2 g3 g4
    simp only at g1 g2 g3 g4
    subst g1
    refine ⟨f1, by rw [hs, hres], g2, g3, g4, ?_⟩
    rw [← g2.rd, r.rd]

private theorem read_after_sync {o : Ops Srv} (f g : BF Srv) (size : Option Nat)
    (hc : f.closed = false) (hr : f.rd = true) (hs : syncForRead o f = (g, .ok ()))
    (hgc : g.closed = false) (hgr : g.rd = true) (hgw : g.wbuf = []) :
    BufFile.read o f size = BufFile.read o g size := by
  unfold BufFile.read
  rw [if_neg (by simp [hc]), if_neg (by simp [hr]), if_neg (by simp [hgc]), if_neg (by simp [hgr]), hs,
    syncForRead_wnil g hgw]

private theorem readline_after_sync {o : Ops Srv} (f g : BF Srv) (size : Option Nat)
    (hc : f.closed = false) (hr : f.rd = true) (hs : syncForRead o f = (g, .ok ()))
    (hgc : g.closed = false) (hgr : g.rd = true) (hgw : g.wbuf = []) :
    BufFile.readline o f size = BufFile.readline o g size := by
  unfold BufFile.readline
  rw [if_neg (by simp [hc]), if_neg (by simp [hr]), if_neg (by simp [hgc]), if_neg (by simp [hgr]), hs,
    syncForRead_wnil g hgw]

private theorem spec_rest {f : BF Srv} {p : PF} (maxReq : Nat) (hm : 1 ≤ maxReq) (r : Rel f p)
    (hc : f.closed = false) (hw : f.wbuf = []) :
    p.content.drop p.pos = pendG (sftpLaws maxReq hm) f := by
  obtain ⟨h1, h2⟩ := rel_wnil_facts r hc hw
  rw [pend_eq maxReq hm r, h1]
  congr 1
  have := r.w.pos0; omega

private theorem step_read (maxReq : Nat) (hm : 1 ≤ maxReq) (f : BF Srv) (p : PF) (n : Option Nat) (r : Rel f p) :
    StepOK (sftpOps maxReq) f p (.read n) := by
  simp only [StepOK, sstep, pstep]
  by_cases hc : f.closed = true
  · have hpc : p.closed = true := by rw [r.closed, hc]
    unfold BufFile.read
    simp only [hc, hpc, if_true, Bool.true_or, outOf]
    exact ⟨r, sameOut_err _ _⟩
  have hc' : f.closed = false := by simpa using hc
  have hpc : p.closed = false := by rw [r.closed, hc']
  by_cases hr : f.rd = false
  · have hpr : p.rd = false := by rw [r.rd, hr]
    unfold BufFile.read
    simp only [hc', hr, hpc, hpr, Bool.false_eq_true, if_false, Bool.not_false, if_true, Bool.false_or, outOf]
    exact ⟨r, sameOut_err _ _⟩
  have hr' : f.rd = true := by simpa using hr
  have hpr : p.rd = true := by rw [r.rd, hr']
  obtain ⟨g, hs, rg, gw, gc, grd⟩ := sync_rel maxReq hm f p r hc'
  have hgr : g.rd = true := by rw [grd]; exact hr'
  rw [read_after_sync f g n hc' hr' hs gc hgr gw]
  have pre := rel_readpre maxReq hm rg gc hgr gw
  have hrest := spec_rest maxReq hm rg gc gw
  rw [if_neg (by simp [hpc, hpr])]
  cases n with
  | none =>
    obtain ⟨h1, h2, _⟩ := read_none_gen (sftpLaws maxReq hm) g pre
    rcases hres : BufFile.read (sftpOps maxReq) g none with ⟨f1, r1⟩
    rw [hres] at h1 h2
    simp only at h1 h2
    subst h1
    simp only [outOf, hrest]
    exact ⟨rel_after_read maxReq hm rg gc gw h2, by simp [sameOut, eraseRet, eraseErr]⟩
  | some k =>
    obtain ⟨h1, h2⟩ := read_some_gen (sftpLaws maxReq hm) g k pre
    rcases hres : BufFile.read (sftpOps maxReq) g (some k) with ⟨f1, r1⟩
    rw [hres] at h1 h2
    simp only at h1 h2
    subst h1
    simp only [outOf, hrest]
    exact ⟨rel_after_read maxReq hm rg gc gw h2, by simp [sameOut, eraseRet, eraseErr]⟩


private theorem step_readline (maxReq : Nat) (hm : 1 ≤ maxReq) (f : BF Srv) (p : PF) (n : Option Nat) (r : Rel f p)
    (ht : triggers (sftpOps maxReq) f (.readline n) = []) : StepOK (sftpOps maxReq) f p (.readline n) := by
  simp only [StepOK, sstep, pstep]
  by_cases h0 : n = some 0
  · subst h0
    simp only [triggers] at ht
    have hlive := t_nil ht
    have hc' : f.closed = false := by
      cases hcc : f.closed <;> simp_all
    have hr' : f.rd = true := by
      cases hrr : f.rd <;> simp_all
    obtain ⟨g, hs, rg, gw, gc, grd⟩ := sync_rel maxReq hm f p r hc'
    have hgr : g.rd = true := by rw [grd]; exact hr'
    rw [readline_after_sync f g (some 0) hc' hr' hs gc hgr gw]
    have pre := rel_readpre maxReq hm rg gc hgr gw
    obtain ⟨h1, h2⟩ := readline_gen (sftpLaws maxReq hm) g (some 0) pre
    have hz : specLine (some 0) (pendG (sftpLaws maxReq hm) g) = [] := by simp [specLine, lineOf]
    rw [hz] at h1 h2
    rcases hres : BufFile.readline (sftpOps maxReq) g (some 0) with ⟨f1, r1⟩
    rw [hres] at h1 h2
    simp only at h1 h2
    subst h1
    simp only [beq_self_eq_true, if_true, outOf]
    exact ⟨by simpa using rel_after_read maxReq hm rg gc gw h2, by simp [sameOut, eraseRet, eraseErr]⟩
  · have hn0 : (n == some 0) = false := by simpa using h0
    simp only [hn0, Bool.false_eq_true, if_false]
    by_cases hc : f.closed = true
    · have hpc : p.closed = true := by rw [r.closed, hc]
      unfold BufFile.readline
      simp only [hc, hpc, if_true, Bool.true_or, outOf]
      exact ⟨r, sameOut_err _ _⟩
    have hc' : f.closed = false := by simpa using hc
    have hpc : p.closed = false := by rw [r.closed, hc']
    by_cases hr : f.rd = false
    · have hpr : p.rd = false := by rw [r.rd, hr]
      unfold BufFile.readline
      simp only [hc', hr, hpc, hpr, Bool.false_eq_true, if_false, Bool.not_false, if_true, Bool.false_or, outOf]
      exact ⟨r, sameOut_err _ _⟩
    have hr' : f.rd = true := by simpa using hr
    have hpr : p.rd = true := by rw [r.rd, hr']
    obtain ⟨g, hs, rg, gw, gc, grd⟩ := sync_rel maxReq hm f p r hc'
    have hgr : g.rd = true := by rw [grd]; exact hr'
    rw [readline_after_sync f g n hc' hr' hs gc hgr gw]
    have pre := rel_readpre maxReq hm rg gc hgr gw
    have hrest := spec_rest maxReq hm rg gc gw
    rw [if_neg (by simp [hpc, hpr])]
    obtain ⟨h1, h2⟩ := readline_gen (sftpLaws maxReq hm) g n pre
    rcases hres : BufFile.readline (sftpOps maxReq) g n with ⟨f1, r1⟩
    rw [hres] at h1 h2
    simp only at h1 h2
    subst h1
    simp only [outOf]
    rw [hrest]
    exact ⟨rel_after_read maxReq hm rg gc gw h2, by simp [sameOut, eraseRet, eraseErr]⟩

private theorem splitLines_of_LinesOf {P : Bytes} {ls : List Bytes} (h : LinesOf P ls []) :
    ∀ k, P.length ≤ k → splitLines k P = ls := by
  generalize hq : ([] : Bytes) = q at h
  induction h with
  | nil p =>
    subst hq
    intro k _
    cases k <;> simp [splitLines]
  | cons p l ls p' hl hne _ ih =>
    intro k hk
    have hpne : p ≠ [] := by
      intro hp; subst hp; exact hne (by rw [hl]; rfl)
    have hplen : 0 < p.length := List.length_pos_iff.2 hpne
    cases k with
    | zero => omega
    | succ k =>
      have he : p.isEmpty = false := by simpa using hpne
      have hll : 0 < l.length := List.length_pos_iff.2 hne
      simp only [splitLines, he, Bool.false_eq_true, if_false, ← hl]
      rw [ih hq k (by rw [List.length_drop]; omega)]

private theorem takeLines_none (ls : List Bytes) (t : Nat) : takeLines none ls t = ls := by
  induction ls generalizing t with
  | nil => rfl
  | cons l ls ih => simp [takeLines, ih]

private theorem step_readlines (maxReq : Nat) (hm : 1 ≤ maxReq) (f : BF Srv) (p : PF) (hint : Option Int) (r : Rel f p)
    (ht : triggers (sftpOps maxReq) f (.readlines hint) = []) : StepOK (sftpOps maxReq) f p (.readlines hint) := by
  simp only [StepOK, sstep, pstep, BufFile.readlines]
  by_cases hx : (f.closed || !f.rd) = true
  · -- the first readline raises on both sides
    have hpx : (p.closed || !p.rd) = true := by rw [r.closed, r.rd]; exact hx
    rw [if_pos hx, if_pos hpx]
    have : ∃ e, readlinesLoop (sftpOps maxReq) hint 1 f [] 0 = (f, .error e) := by
      rw [readlinesLoop]
      unfold BufFile.readline
      by_cases hc : f.closed = true
      · exact ⟨.closed, by simp [hc]⟩
      · have hc' : f.closed = false := by simpa using hc
        have hr : f.rd = false := by simpa [hc'] using hx
        exact ⟨.notReadable, by simp [hc', hr]⟩
    obtain ⟨e, he⟩ := this
    rw [he]
    exact ⟨r, sameOut_err _ _⟩
  · have hc' : f.closed = false := by
      cases hcc : f.closed <;> simp_all
    have hr' : f.rd = true := by
      cases hrr : f.rd <;> simp_all
    have hpc : p.closed = false := by rw [r.closed, hc']
    have hpr : p.rd = true := by rw [r.rd, hr']
    have hnone : hint = none := by
      cases hint with
      | none => rfl
      | some h =>
        simp [triggers, hc', hr'] at ht
    subst hnone
    rw [if_neg hx, if_neg (by simp [hpc, hpr])]
    obtain ⟨g, hs, rg, gw, gc, grd⟩ := sync_rel maxReq hm f p r hc'
    have hgr : g.rd = true := by rw [grd]; exact hr'
    rw [hs]
    simp only
    have pre := rel_readpre maxReq hm rg gc hgr gw
    have hrest := spec_rest maxReq hm rg gc gw
    have hfuel : (pendG (sftpLaws maxReq hm) g).length < g.rbuf.length + (sftpOps maxReq).bound g.s g.realpos + 1 := by
      show (g.rbuf ++ g.s.content.drop g.realpos.toNat).length < _
      simp [sftpOps]
    obtain ⟨new, k1, k2, k3, k4⟩ := readlinesLoop_gen (sftpLaws maxReq hm) none
      (g.rbuf.length + (sftpOps maxReq).bound g.s g.realpos + 1) g [] 0 pre hfuel
    have k4' := k4 rfl
    rcases hres : readlinesLoop (sftpOps maxReq) none (g.rbuf.length + (sftpOps maxReq).bound g.s g.realpos + 1) g [] 0
      with ⟨f1, r1⟩
    rw [hres] at k1 k2 k3 k4'
    simp only [List.nil_append] at k1 k2 k3 k4'
    subst k1
    rw [k4'] at k2
    have hsplit := splitLines_of_LinesOf k2 (pendG (sftpLaws maxReq hm) g).length (Nat.le_refl _)
    simp only [outOf]
    rw [hrest, hsplit, takeLines_none]
    exact ⟨rel_after_read maxReq hm rg gc gw k3, by simp [sameOut, eraseRet, eraseErr]⟩


/-! ### positioning and writing calls -/

private theorem step_tell (o : Ops Srv) (f : BF Srv) (p : PF) (r : Rel f p) (ht : triggers o f .tell = []) :
    StepOK o f p .tell := by
  simp only [triggers, List.append_eq_nil_iff] at ht
  have hc : f.closed = false := t_nil ht.1
  have hw : f.wbuf = [] := by
    have := t_nil ht.2
    simp [hc] at this
    simpa using this
  have hp := (rel_wnil_facts r hc hw).2
  have hpc : p.closed = false := by rw [r.closed, hc]
  simp only [StepOK, sstep, pstep, hpc, Bool.false_eq_true, if_false]
  refine ⟨r, ?_⟩
  simp [sameOut, eraseRet, eraseErr, BufFile.tell, hp]

private theorem step_flush (maxReq : Nat) (hm : 1 ≤ maxReq) (f : BF Srv) (p : PF) (r : Rel f p)
    (ht : triggers (sftpOps maxReq) f .flush = []) : StepOK (sftpOps maxReq) f p .flush := by
  simp only [triggers] at ht
  have hc : f.closed = false := t_nil ht
  have hpc : p.closed = false := by rw [r.closed, hc]
  obtain ⟨g1, g2, _, _, _, _⟩ := rel_after_flush maxReq hm f p r hc
  simp only [StepOK, sstep, pstep, hpc, Bool.false_eq_true, if_false]
  rcases hres : BufFile.flush (sftpOps maxReq) f with ⟨f1, r1⟩
  rw [hres] at g1 g2
  simp only at g1 g2
  subst g1
  exact ⟨g2, by simp [outOf, sameOut, eraseRet, eraseErr]⟩

private theorem step_close (maxReq : Nat) (hm : 1 ≤ maxReq) (f : BF Srv) (p : PF) (r : Rel f p) :
    StepOK (sftpOps maxReq) f p .close := by
  simp only [StepOK, sstep, pstep, SftpFile.close]
  by_cases hc : f.closed = true
  · rw [if_pos hc]
    refine ⟨?_, by simp [outOf, sameOut, eraseRet, eraseErr]⟩
    simp only [outOf]
    exact { r with closed := (by simp [hc]), dead := fun _ => r.dead hc,
                   content := fun h => r.content h, ppos := fun h => r.ppos h }
  · have hc' : f.closed = false := by simpa using hc
    rw [if_neg hc]
    obtain ⟨g1, g2, g3, g4, _, _⟩ := rel_after_flush maxReq hm f p r hc'
    unfold BufFile.close
    rcases hres : BufFile.flush (sftpOps maxReq) f with ⟨f1, r1⟩
    rw [hres] at g1 g2 g3 g4
    simp only at g1 g2 g3 g4
    subst g1
    refine ⟨?_, by simp [outOf, sameOut, eraseRet, eraseErr]⟩
    simp only [outOf]
    have hcont := (rel_wnil_facts g2 g4 g3).1
    exact {
      closed := rfl, rd := g2.rd, wr := g2.wr, app := g2.app,
      w := ⟨g2.w.pos0, g2.w.rp, g2.w.coh, g2.w.sapp, g2.w.asize⟩,
      nstale := g2.nstale, bs := g2.bs, dflt := g2.dflt, unbuf := g2.unbuf,
      dead := fun _ => ⟨hcont, rfl, g3⟩,
      hopen := fun h => (by cases h),
      rbufOK := g2.rbufOK,
      content := fun h => (by cases h),
      ppos := fun h => (by cases h) }

/-- dropping read-ahead and re-synchronising `_realpos` (what `seek` and `truncate` do after the flush) -/
private theorem rel_norm {f : BF Srv} {p : PF} (r : Rel f p) : Rel { f with rbuf := [], realpos := f.pos } p :=
  { closed := r.closed, rd := r.rd, wr := r.wr, app := r.app,
    w := ⟨r.w.pos0, (by simp), r.w.coh, r.w.sapp, r.w.asize⟩,
    nstale := r.nstale, bs := r.bs, dflt := r.dflt, unbuf := r.unbuf, dead := r.dead, hopen := r.hopen,
    rbufOK := (by simp), content := r.content, ppos := r.ppos }

private theorem step_seek (maxReq : Nat) (hm : 1 ≤ maxReq) (f : BF Srv) (p : PF) (off : Int) (wh : Nat)
    (r : Rel f p) (ht : triggers (sftpOps maxReq) f (.seek off wh) = []) :
    StepOK (sftpOps maxReq) f p (.seek off wh) := by
  simp only [triggers, List.append_eq_nil_iff] at ht
  have hc : f.closed = false := t_nil ht.1
  have hpc : p.closed = false := by rw [r.closed, hc]
  have hneg := t_nil ht.2
  obtain ⟨g1, g2, g3, g4, _, _⟩ := rel_after_flush maxReq hm f p r hc
  simp only [StepOK, sstep, pstep, SftpFile.seek, hpc, Bool.false_eq_true, if_false]
  rcases hres : BufFile.flush (sftpOps maxReq) f with ⟨f1, r1⟩
  rw [hres] at g1 g2 g3 g4 hneg
  simp only at g1 g2 g3 g4 hneg
  subst g1
  obtain ⟨hcont, hpos⟩ := rel_wnil_facts g2 g4 g3
  have hsz : getSize f1.s = (p.content.length : Int) := by
    simp [getSize, g2.hopen g4, hcont]
  have ht_eq : (if (wh == 0) = true then off else if (wh == 1) = true then (p.pos : Int) + off else (p.content.length : Int) + off)
      = (if (wh == 0) = true then off else if (wh == 1) = true then f1.pos + off else getSize f1.s + off) := by
    rw [hpos, hsz]
  have hge : ¬ (if (wh == 0) = true then off else if (wh == 1) = true then f1.pos + off else getSize f1.s + off) < 0 := by
    simp only [hc, Bool.not_false, Bool.true_and, decide_eq_false_iff_not] at hneg
    exact hneg
  simp only [ht_eq, hge, if_false, outOf]
  refine ⟨?_, by simp [sameOut, eraseRet, eraseErr]⟩
  generalize (if (wh == 0) = true then off else if (wh == 1) = true then f1.pos + off else getSize f1.s + off) = t at hge
  have ht0 : 0 ≤ t := by omega
  exact {
    closed := (by simp [g4]), rd := g2.rd, wr := g2.wr, app := g2.app,
    w := ⟨ht0, (by simp), g2.w.coh, g2.w.sapp, g2.w.asize⟩,
    nstale := g2.nstale, bs := g2.bs, dflt := g2.dflt, unbuf := g2.unbuf,
    dead := fun h => (by rw [g4] at h; cases h),
    hopen := fun h => g2.hopen h,
    rbufOK := (by simp),
    content := fun _ => (by
      simp only [g3]
      rw [hcont]
      split
      · simp
      · rw [overlay_nil]),
    ppos := fun _ => (by simp only [g3, if_true]; omega) }

/-- the FSETSTAT itself, on a flushed state with no read-ahead -/
private theorem truncate_core (g : BF Srv) (p : PF) (n : Int) (r : Rel g p) (hw : g.wbuf = []) (hrb : g.rbuf = [])
    (ht : g.closed = false → (g.wr = true ∧ ¬ (g.s.truncZero = true ∧ n > 0) ∧ g.app = false ∧ g.s.didRead = false)) :
    let res : BF Srv × Except Err Unit :=
      if n < 0 then (g, .error (.stream eStruct))
      else if !g.s.hopen then (g, .error (.stream eServer))
      else ({ g with s := srvTruncate g.s n.toNat }, .ok ())
    Rel (outOf (fun _ => Out.unit) res).1 (pstep p (.truncate n)).1 ∧
    sameOut (.truncate n) (outOf (fun _ => Out.unit) res).2 (pstep p (.truncate n)).2 = true := by
  intro res
  simp only [res, pstep]
  by_cases hc : g.closed = true
  · have hpc : p.closed = true := by rw [r.closed, hc]
    have hh := (r.dead hc).2.1
    rw [if_pos (show (p.closed || !p.wr || decide (n < 0)) = true by simp [hpc])]
    by_cases hn : n < 0
    · rw [if_pos hn]; exact ⟨r, sameOut_err _ _⟩
    · rw [if_neg hn, if_pos (show (!g.s.hopen) = true by simp [hh])]; exact ⟨r, sameOut_err _ _⟩
  · have hc' : g.closed = false := by simpa using hc
    have hpc : p.closed = false := by rw [r.closed, hc']
    obtain ⟨hwr, hz, happ, hdr⟩ := ht hc'
    have hpw : p.wr = true := by rw [r.wr, hwr]
    by_cases hn : n < 0
    · rw [if_pos hn, if_pos (show (p.closed || !p.wr || decide (n < 0)) = true by simp [hn])]
      exact ⟨r, sameOut_err _ _⟩
    · have hho := r.hopen hc'
      obtain ⟨hcont, hppos⟩ := rel_wnil_facts r hc' hw
      have hnew : (srvTruncate g.s n.toNat).content = p.content.take n.toNat ++ List.replicate (n.toNat - p.content.length) 0 := by
        simp only [srvTruncate]
        by_cases hz' : g.s.truncZero = true
        · have : n.toNat = 0 := by
            have : ¬ n > 0 := fun h => hz ⟨hz', h⟩
            omega
          simp [hz', this]
        · simp [hz', hcont]
      rw [if_neg hn, if_neg (show ¬ (!g.s.hopen) = true by simp [hho]),
        if_neg (show ¬ (p.closed || !p.wr || decide (n < 0)) = true by simp [hpc, hpw, hn])]
      refine ⟨?_, by simp [outOf, sameOut, eraseRet, eraseErr]⟩
      simp only [outOf]
      exact {
        closed := r.closed, rd := r.rd, wr := r.wr, app := r.app,
        w := ⟨r.w.pos0, r.w.rp, r.w.coh, r.w.sapp, fun h => (by simp only at h; rw [happ] at h; cases h)⟩,
        nstale := (by simp [srvTruncate, r.nstale, hdr]),
        bs := r.bs, dflt := r.dflt, unbuf := r.unbuf,
        dead := fun h => (by simp only at h; rw [hc'] at h; cases h),
        hopen := fun _ => hho,
        rbufOK := (by simp only; rw [hrb]; simp),
        content := fun _ => (by
          simp only
          rw [hw, happ, hnew]
          simp [overlay_nil]),
        ppos := fun _ => (by simp only; rw [if_pos hw]; exact hppos) }


private theorem step_truncate (maxReq : Nat) (hm : 1 ≤ maxReq) (f : BF Srv) (p : PF) (n : Int) (r : Rel f p)
    (ht : triggers (sftpOps maxReq) f (.truncate n) = []) : StepOK (sftpOps maxReq) f p (.truncate n) := by
  simp only [StepOK, sstep, SftpFile.truncate]
  by_cases hc : f.closed = true
  · obtain ⟨_, _, hwb⟩ := r.dead hc
    rw [flush_nil _ f hwb]
    exact truncate_core _ p n (rel_norm (rel_setw r hwb)) rfl rfl (fun h => by simp [hc] at h)
  · have hc' : f.closed = false := by simpa using hc
    simp only [triggers, hc', Bool.not_false, Bool.true_and, List.append_eq_nil_iff] at ht
    obtain ⟨⟨⟨t2, t3⟩, t4⟩, t5⟩ := ht
    have hwr : f.wr = true := by
      have := t_nil t2; simpa using this
    have hz : ¬ (f.s.truncZero = true ∧ n > 0) := by
      have := t_nil t3; simp [hwr] at this
      intro ⟨a, b⟩; exact absurd (this a) (by omega)
    have happ : f.app = false := t_nil t4
    have hdr : f.s.didRead = false := t_nil t5
    obtain ⟨g1, g2, g3, g4, g5, g6⟩ := rel_after_flush maxReq hm f p r hc'
    rcases hres : BufFile.flush (sftpOps maxReq) f with ⟨f1, r1⟩
    rw [hres] at g1 g2 g3 g4 g5 g6
    simp only at g1 g2 g3 g4 g5 g6
    subst g1
    have hwr1 : f1.wr = true := by rw [← g2.wr, r.wr]; exact hwr
    have happ1 : f1.app = false := by rw [← g2.app, r.app]; exact happ
    exact truncate_core _ p n (rel_norm g2) g3 rfl
      (fun _ => ⟨hwr1, by rw [g5]; exact hz, happ1, by rw [g6]; exact hdr⟩)

/-- the spec state after `write(d)` on an open writable file -/
private def pw (p : PF) (d : Bytes) : PF :=
  if p.app = true then
    { p with content := p.content ++ d, pos := if d.isEmpty = true then p.pos else (p.content ++ d).length }
  else { p with content := overlay p.content p.pos d, pos := p.pos + d.length }

private theorem pw_fields (p : PF) (d : Bytes) :
    (pw p d).closed = p.closed ∧ (pw p d).rd = p.rd ∧ (pw p d).wr = p.wr ∧ (pw p d).app = p.app := by
  unfold pw; split <;> exact ⟨rfl, rfl, rfl, rfl⟩

/-- buffering `d` (no I/O) keeps the relation with the spec state after the write; `b` is the buffering flag
    the intermediate state is given (the unbuffered path goes through here with a temporary `true`) -/
private theorem rel_buffered (f : BF Srv) (p : PF) (d : Bytes) (r : Rel f p) (hc : f.closed = false) :
    Rel { f with wbuf := f.wbuf ++ d, buffered := true } (pw p d) := by
  obtain ⟨q1, q2, q3, q4⟩ := pw_fields p d
  have hcont := r.content hc
  have hpos := r.ppos hc
  have hp0 := r.w.pos0
  have happ : p.app = f.app := r.app
  exact {
    closed := (by rw [q1]; exact r.closed), rd := (by rw [q2]; exact r.rd), wr := (by rw [q3]; exact r.wr),
    app := (by rw [q4]; exact r.app),
    w := ⟨r.w.pos0, r.w.rp, r.w.coh, r.w.sapp, r.w.asize⟩,
    nstale := r.nstale, bs := r.bs, dflt := r.dflt,
    unbuf := fun h => (by simp at h),
    dead := fun h => (by simp only at h; rw [hc] at h; cases h),
    hopen := fun h => r.hopen h,
    rbufOK := r.rbufOK,
    content := fun _ => (by
      simp only
      unfold pw
      by_cases ha : f.app = true
      · rw [if_pos (by rw [happ]; exact ha), if_pos ha]
        simp only
        rw [hcont, if_pos ha, List.append_assoc]
      · rw [if_neg (by rw [happ]; exact ha), if_neg ha]
        simp only
        rw [hcont, if_neg ha]
        have hpp : p.pos = f.pos.toNat + f.wbuf.length := by
          by_cases hw : f.wbuf = []
          · rw [if_pos hw] at hpos; rw [hw]; simp; omega
          · rw [if_neg hw, if_neg ha] at hpos; omega
        rw [hpp, overlay_append]),
    ppos := fun _ => (by
      simp only
      unfold pw
      by_cases ha : f.app = true
      · rw [if_pos (by rw [happ]; exact ha)]
        simp only
        rw [hcont, if_pos ha]
        by_cases hd : d = []
        · subst hd
          simp only [List.isEmpty_nil, if_true, List.append_nil]
          by_cases hw : f.wbuf = []
          · rw [if_pos hw] at hpos ⊢; exact hpos
          · rw [if_neg hw, if_pos ha] at hpos; rw [if_neg hw, if_pos ha]; exact hpos
        · have hde : d.isEmpty = false := by simpa using hd
          have hwd : f.wbuf ++ d ≠ [] := by simp [hd]
          rw [if_neg hwd, if_pos ha]
          simp only [hde, Bool.false_eq_true, if_false, List.length_append]
          push_cast; omega
      · rw [if_neg (by rw [happ]; exact ha)]
        simp only
        by_cases hw : f.wbuf = []
        · rw [if_pos hw] at hpos
          by_cases hd : d = []
          · subst hd; rw [hw]; simp; exact hpos
          · have hwd : f.wbuf ++ d ≠ [] := by simp [hd]
            rw [if_neg hwd, if_neg ha, hw]; simp only [List.nil_append]; push_cast; omega
        · rw [if_neg hw, if_neg ha] at hpos
          have hwd : f.wbuf ++ d ≠ [] := by simp [hw]
          rw [if_neg hwd, if_neg ha, List.length_append]; push_cast; omega) }

private theorem rel_unbuffer {f : BF Srv} {p : PF} (b : Bool) (r : Rel f p) (hw : f.wbuf = []) :
    Rel { f with buffered := b } p :=
  { closed := r.closed, rd := r.rd, wr := r.wr, app := r.app,
    w := ⟨r.w.pos0, r.w.rp, r.w.coh, r.w.sapp, r.w.asize⟩,
    nstale := r.nstale, bs := r.bs, dflt := r.dflt, unbuf := fun _ => hw, dead := r.dead, hopen := r.hopen,
    rbufOK := r.rbufOK, content := r.content, ppos := r.ppos }

private theorem step_write (maxReq : Nat) (hm : 1 ≤ maxReq) (f : BF Srv) (p : PF) (d : Bytes) (r : Rel f p) :
    StepOK (sftpOps maxReq) f p (.write d) := by
  simp only [StepOK, sstep, pstep]
  unfold BufFile.write
  by_cases hc : f.closed = true
  · have hpc : p.closed = true := by rw [r.closed, hc]
    rw [if_pos hc, if_pos (show (p.closed || !p.wr) = true by simp [hpc])]
    exact ⟨r, sameOut_err _ _⟩
  have hc' : f.closed = false := by simpa using hc
  have hpc : p.closed = false := by rw [r.closed, hc']
  rw [if_neg hc]
  by_cases hw' : f.wr = false
  · have hpw : p.wr = false := by rw [r.wr, hw']
    rw [if_pos (show (!f.wr) = true by simp [hw']), if_pos (show (p.closed || !p.wr) = true by simp [hpw])]
    exact ⟨r, sameOut_err _ _⟩
  have hw : f.wr = true := by simpa using hw'
  have hpw : p.wr = true := by rw [r.wr, hw]
  rw [if_neg (show ¬ (!f.wr) = true by simp [hw]), if_neg (show ¬ (p.closed || !p.wr) = true by simp [hpc, hpw])]
  have hspec : (if p.app = true then
        ({ p with content := p.content ++ d, pos := if d.isEmpty = true then p.pos else (p.content ++ d).length }, Out.pos d.length)
      else ({ p with content := overlay p.content p.pos d, pos := p.pos + d.length }, Out.pos d.length))
      = (pw p d, Out.pos d.length) := by
    unfold pw; split <;> rfl
  rw [hspec]
  have hso : ∀ m : BF Srv, sameOut (.write d) (outOf (fun _ => Out.unit) (m, Except.ok ())).2 (Out.pos d.length) = true := by
    intro m; simp [outOf, sameOut, eraseRet, eraseErr]
  have r2 := rel_buffered f p d r hc'
  by_cases hb : f.buffered = true
  · rw [if_neg (show ¬ (!f.buffered) = true by simp [hb])]
    have hf2 : ({ f with wbuf := f.wbuf ++ d, buffered := true } : BF Srv) = { f with wbuf := f.wbuf ++ d } := by
      cases f; simp_all
    rw [hf2] at r2
    simp only
    by_cases hl : f.lineBuf = true
    · rw [if_pos hl]
      cases hq : rfindLF d with
      | none => exact ⟨r2, hso _⟩
      | some q =>
        simp only
        have hq1 := (rfindLF_spec d q hq).1
        have hcut : q + ((f.wbuf ++ d).length - d.length) + 1 ≤ (f.wbuf ++ d).length := by
          simp only [List.length_append]; omega
        have hne : (f.wbuf ++ d).take (q + ((f.wbuf ++ d).length - d.length) + 1) ≠ [] := by
          intro h
          have := congrArg List.length h
          rw [List.length_take] at this
          simp only [List.length_append, List.length_nil] at this hcut
          omega
        obtain ⟨k1, k2, _, _, _⟩ := rel_after_writeAll maxReq hm { f with wbuf := f.wbuf ++ d } (pw p d)
          ((f.wbuf ++ d).take (q + ((f.wbuf ++ d).length - d.length) + 1))
          ((f.wbuf ++ d).drop (q + ((f.wbuf ++ d).length - d.length) + 1)) r2 hc' hne
          (List.take_append_drop _ _).symm (fun _ => hb)
        rcases hres : writeAll (sftpOps maxReq) { f with wbuf := f.wbuf ++ d }
          ((f.wbuf ++ d).take (q + ((f.wbuf ++ d).length - d.length) + 1)) with ⟨f3, r3⟩
        rw [hres] at k1 k2
        simp only at k1 k2
        subst k1
        exact ⟨k2, hso _⟩
    · rw [if_neg hl]
      by_cases hfull : (f.wbuf ++ d).length ≥ f.bufsize
      · rw [if_pos hfull]
        obtain ⟨g1, g2, _, _, _, _⟩ := rel_after_flush maxReq hm { f with wbuf := f.wbuf ++ d } (pw p d) r2 hc'
        rcases hres : BufFile.flush (sftpOps maxReq) { f with wbuf := f.wbuf ++ d } with ⟨f3, r3⟩
        rw [hres] at g1 g2
        simp only at g1 g2
        subst g1
        exact ⟨g2, hso _⟩
      · rw [if_neg hfull]
        exact ⟨r2, hso _⟩
  · have hb' : f.buffered = false := by simpa using hb
    rw [if_pos (show (!f.buffered) = true by simp [hb'])]
    have hwb := r.unbuf hb'
    by_cases hd : d = []
    · subst hd
      rw [writeAll_nil]
      refine ⟨?_, hso _⟩
      simp only [outOf]
      have h3 := rel_unbuffer false (rel_buffered f p [] r hc') (by simp [hwb])
      have hf3 : ({ ({ f with wbuf := f.wbuf ++ [], buffered := true } : BF Srv) with buffered := false } : BF Srv) = f := by
        cases f; simp_all
      rw [hf3] at h3
      exact h3
    · rw [hwb] at r2
      simp only [List.nil_append] at r2
      obtain ⟨k1, k2, _, _, _⟩ := rel_after_writeAll maxReq hm { f with wbuf := d, buffered := true } (pw p d) d [] r2 hc' hd
        (by simp) (fun h => absurd rfl h)
      rw [writeAll_irrelevant] at k1 k2
      rcases hres : writeAll (sftpOps maxReq) f d with ⟨f3, r3⟩
      rw [hres] at k1 k2
      simp only at k1 k2
      subst k1
      refine ⟨?_, hso _⟩
      simp only [outOf]
      have h3 := rel_unbuffer f.buffered k2 rfl
      have hcw : f3.wbuf = [] ∧ f3.buffered = f.buffered := by
        obtain ⟨_, _, _, _, _, _, _, _, c⟩ := writeAll_sftp maxReq hm f d r.w hd
        rw [hres] at c
        obtain ⟨_, _, _, _, c5, _, _, _, c9, _⟩ := c
        exact ⟨by rw [c9]; exact hwb, c5⟩
      have hf3 : ({ ({ ({ f3 with wbuf := d, buffered := true } : BF Srv) with wbuf := [] } : BF Srv) with
          buffered := f.buffered } : BF Srv) = f3 := by
        obtain ⟨e1, e2⟩ := hcw
        cases f3; simp_all
      rw [hf3] at h3
      exact h3

/-- One call: on related states, a call that fires no defect trigger returns the same value (modulo
    `returns_none` and the exception class) and leaves related states. -/
theorem step_refines (maxReq : Nat) (hm : 1 ≤ maxReq) (f : BF Srv) (p : PF) (op : FOp) (r : Rel f p)
    (ht : triggers (sftpOps maxReq) f op = []) : StepOK (sftpOps maxReq) f p op := by
  cases op with
  | read n => exact step_read maxReq hm f p n r
  | readline n => exact step_readline maxReq hm f p n r ht
  | readlines h => exact step_readlines maxReq hm f p h r ht
  | write d => exact step_write maxReq hm f p d r
  | seek off wh => exact step_seek maxReq hm f p off wh r ht
  | tell => exact step_tell _ f p r ht
  | flush => exact step_flush maxReq hm f p r ht
  | truncate n => exact step_truncate maxReq hm f p n r ht
  | close => exact step_close maxReq hm f p r


/-- **Refinement (partial).**  For every request-size limit, every buffer size / buffering mode, every file
    content, every mode (append included) and EVERY program of read / readline / readlines / write / seek / tell /
    flush / truncate / close calls: if no defect trigger fires along the run, SFTPFile returns what the local file
    returns at every call (modulo `returns_none` and the exception class) and the two stay related — the server
    file equals the local file once closed, and equals it up to the not-yet-flushed write buffer before.
    "Partial" = the hypothesis `runTags … = []`: the remaining triggers are the API-convention findings
    (tell with buffered writes, negative seek, calls on a closed file, truncate on a read-only / append-mode file,
    readlines with a hint, readline(0) on an unreadable file, mode "x") and one modelling exclusion
    (`unmodelled_server_readahead`). -/
theorem refines_partial (maxReq : Nat) (hm : 1 ≤ maxReq) (f : BF Srv) (p : PF) (prog : List FOp) (r : Rel f p)
    (_hops : ∀ op ∈ prog, Covered op) (ht : runTags (sftpOps maxReq) f prog = []) :
    sameOuts prog (srun (sftpOps maxReq) f prog).2 (prun p prog).2 = true ∧
    Rel (srun (sftpOps maxReq) f prog).1 (prun p prog).1 := by
  induction prog generalizing f p with
  | nil => exact ⟨rfl, r⟩
  | cons op ops ih =>
    simp only [runTags, List.append_eq_nil_iff] at ht
    obtain ⟨s1, s2⟩ := step_refines maxReq hm f p op r ht.1
    obtain ⟨i1, i2⟩ := ih _ _ s1 (fun o ho => _hops o (by simp [ho])) ht.2
    simp only [srun, prun, sameOuts, s2, i1, Bool.and_self]
    exact ⟨trivial, i2⟩

/-- consequence for the bytes on the server: a closed file holds exactly what the local file holds -/
theorem closed_contents_equal (f : BF Srv) (p : PF) (r : Rel f p) (hc : f.closed = true) :
    f.s.content = p.content := (r.dead hc).1.symm

/-! ## freshly opened files are related -/

private theorem setFlags_fields (f : BF Srv) (mode : List Char) (sz : Int) :
    (setFlags f mode sz).s = f.s ∧ (setFlags f mode sz).closed = f.closed ∧ (setFlags f mode sz).rbuf = f.rbuf ∧
    (setFlags f mode sz).wbuf = f.wbuf ∧
    (setFlags f mode sz).pos = (if mode.contains 'a' then sz else f.pos) ∧
    (setFlags f mode sz).realpos = (if mode.contains 'a' then sz else f.realpos) ∧
    (setFlags f mode sz).size = (if mode.contains 'a' then sz else f.size) ∧
    (setFlags f mode sz).app = (f.app || mode.contains 'a') ∧
    (setFlags f mode sz).rd = (f.rd || mode.contains 'r' || mode.contains '+') ∧
    (setFlags f mode sz).wr = (f.wr || mode.contains 'w' || mode.contains '+' || mode.contains 'a') ∧
    (setFlags f mode sz).bufsize = f.bufsize ∧ (setFlags f mode sz).buffered = f.buffered ∧
    (setFlags f mode sz).dflt = f.dflt := by
  unfold setFlags
  generalize mode.contains 'r' = br
  generalize mode.contains '+' = bp
  generalize mode.contains 'w' = bw
  generalize mode.contains 'a' = ba
  generalize mode.contains 'b' = bb
  cases br <;> cases bp <;> cases bw <;> cases ba <;> cases bb <;> simp

private theorem setBuf_fields (f : BF Srv) (bs : Int) (hd : 1 ≤ f.dflt) (hw : f.wbuf = []) :
    (setBuf f bs).s = f.s ∧ (setBuf f bs).closed = f.closed ∧ (setBuf f bs).rbuf = f.rbuf ∧
    (setBuf f bs).wbuf = [] ∧ (setBuf f bs).pos = f.pos ∧ (setBuf f bs).realpos = f.realpos ∧
    (setBuf f bs).size = f.size ∧
    (setBuf f bs).app = f.app ∧ (setBuf f bs).rd = f.rd ∧ (setBuf f bs).wr = f.wr ∧ 1 ≤ (setBuf f bs).bufsize ∧
    (setBuf f bs).dflt = f.dflt := by
  unfold setBuf
  simp only
  (repeat' split) <;> simp_all <;> omega

/-- The relation holds between what `SFTPClient.open` and the local `open` return: any content `c` the two
    start from, any buffer size, any mode string (`app` = the mode contains "a": server handle in O_APPEND,
    both positions at the end). -/
theorem rel_init (c : Bytes) (tz rb : Bool) (mode : List Char) (bs : Int) (dflt : Nat) (hd : 1 ≤ dflt) :
    Rel (setMode ({ s := { content := c, append := mode.contains 'a', truncZero := tz, rbuffered := rb }, dflt := dflt,
                    bufsize := dflt } : BF Srv) mode bs
          (getSize { content := c, append := mode.contains 'a', truncZero := tz, rbuffered := rb }))
        { content := c, pos := if mode.contains 'a' then c.length else 0,
          rd := (mode.contains 'r' || mode.contains '+'),
          wr := (mode.contains 'w' || mode.contains '+' || mode.contains 'a'),
          app := mode.contains 'a' } := by
  unfold setMode
  generalize hf0 : ({ s := { content := c, append := mode.contains 'a', truncZero := tz, rbuffered := rb }, dflt := dflt,
                      bufsize := dflt } : BF Srv) = f0
  have e0 : f0.s = { content := c, append := mode.contains 'a', truncZero := tz, rbuffered := rb } ∧ f0.dflt = dflt ∧ f0.wbuf = [] ∧
      f0.closed = false ∧ f0.rbuf = [] ∧ f0.pos = 0 ∧ f0.realpos = 0 ∧ f0.size = 0 ∧ f0.app = false ∧
      f0.rd = false ∧ f0.wr = false := by
    subst hf0; exact ⟨rfl, rfl, rfl, rfl, rfl, rfl, rfl, rfl, rfl, rfl, rfl⟩
  obtain ⟨z1, z2, z3, z4, z5, z6, z7, z8, z9, z10, z11⟩ := e0
  obtain ⟨b1, b2, b3, b4, b5, b6, b7, b8, b9, b10, b11, b12⟩ := setBuf_fields f0 bs (by rw [z2]; exact hd) z3
  have hsz : getSize ({ content := c, append := mode.contains 'a', truncZero := tz, rbuffered := rb } : Srv) = (c.length : Int) := by
    simp [getSize]
  rw [hsz]
  obtain ⟨a1, a2, a3, a4, a5, a6, a7, a8, a9, a10, a11, a12, a13⟩ := setFlags_fields (setBuf f0 bs) mode (c.length : Int)
  generalize setFlags (setBuf f0 bs) mode (c.length : Int) = g at a1 a2 a3 a4 a5 a6 a7 a8 a9 a10 a11 a12 a13
  rw [b1, z1] at a1
  rw [b2, z4] at a2
  rw [b3, z5] at a3
  rw [b4] at a4
  rw [b5, z6] at a5
  rw [b6, z7] at a6
  rw [b7, z8] at a7
  rw [b8, z9] at a8
  rw [b9, z10] at a9
  rw [b10, z11] at a10
  rw [b12, z2] at a13
  simp only [Bool.false_or] at a8 a9 a10
  have hcl : g.closed = false := a2
  exact {
    closed := (by rw [a2]), rd := (by rw [a9]), wr := (by rw [a10]), app := (by rw [a8]),
    w := ⟨(by rw [a5]; split <;> omega), (by rw [a6, a5, a3]; simp), (by rw [a1]; exact Or.inl rfl),
          (by rw [a1, a8]), (fun h => by rw [a8] at h; rw [a7, if_pos h, a1])⟩,
    nstale := (by rw [a1]),
    bs := (by rw [a11]; exact b11),
    dflt := (by rw [a13]; exact hd),
    unbuf := fun _ => a4,
    dead := fun h => (by rw [hcl] at h; cases h),
    hopen := fun _ => (by rw [a1]),
    rbufOK := (by rw [a3]; simp),
    content := fun _ => (by
      simp only
      rw [a4, a1]
      split
      · simp
      · rw [overlay_nil]),
    ppos := fun _ => (by
      simp only
      rw [if_pos a4, a5]
      split <;> simp) }

/-- e.g. `sftp.open(name, "r+b", bufsize)` vs `open(name, "r+b")` on an existing file, any buffer size -/
example (c : Bytes) (bs : Int) :
    ∃ f0 p0, sftpOpen (some c) "r+b".toList bs 8192 false = some f0 ∧ pyOpen (some c) "r+b".toList = some p0 ∧
      Rel f0 p0 :=
  ⟨_, _, rfl, rfl, rel_init c false true "r+b".toList bs 8192 (by decide)⟩

/-- … `"a+b"` (append and read) on an existing file … -/
example (c : Bytes) (bs : Int) :
    ∃ f0 p0, sftpOpen (some c) "a+b".toList bs 8192 false = some f0 ∧ pyOpen (some c) "a+b".toList = some p0 ∧
      Rel f0 p0 :=
  ⟨_, _, rfl, rfl, rel_init c false true "a+b".toList bs 8192 (by decide)⟩

/-- … and `"wb"` on a new or existing file (truncated on both sides) -/
example (fs : Option Bytes) (bs : Int) :
    ∃ f0 p0, sftpOpen fs "wb".toList bs 8192 false = some f0 ∧ pyOpen fs "wb".toList = some p0 ∧ Rel f0 p0 := by
  cases fs <;> exact ⟨_, _, rfl, rfl, rel_init [] false true "wb".toList bs 8192 (by decide)⟩

/-- non-vacuity: a disciplined program mixing reads, buffered writes, seeks, truncate and close on a line-buffered
    r+ file split into 2-byte requests fires no trigger -/
def demoProg : List FOp :=
  [.readline none, .write (str "X\nY"), .read (some 1), .seek 1 0, .tell, .write (str "Z"), .readlines none,
   .seek 0 2, .write (str "!"), .flush, .close]

example : ∀ op ∈ demoProg, Covered op := by simp [demoProg, Covered]

example :
    let f0 := (sftpOpen (some (str "ab\ncdef")) "r+b".toList 1 8192 false).get (by decide)
    runTags (sftpOps 2) f0 demoProg = [] ∧
    (srun (sftpOps 2) f0 demoProg).1.s.content = str "aZ\nX\nYf!" := by
  decide +kernel

end PV.Props.C27
