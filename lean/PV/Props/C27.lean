/-
  C27 — Remote SFTP files behave like local Python binary files.
  Model: PV/Model/SftpFile.lean (SFTPFile + server handle) over PV/Model/BufFile.lean (BufferedFile).
  Spec: PV/Model/PyFile.lean (`pstep`), validated against real local files on every run.

  FULL STATEMENT (false of today's code — see the `_witness` theorems):
    ∀ mode bufsize content prog,  outputs (srun …) = outputs (prun …)  ∧  final contents equal.
  Proved here: `refines_partial` (the statement on programs of write/seek/tell/flush/truncate/close calls that
  fire no defect trigger, for every mode flag combination, buffer size, request-size limit and file content)
  and one `_witness` per defect tag (a concrete program on which the model — which the correspondence check
  ties to the real code — departs from the spec, with exactly that tag fired).
-/
import PV.Model.SftpFileLemmas
namespace PV.Props.C27
open PV PV.BufFile PV.SftpFile PV.PyFile PV.C27

/-- a concrete test program -/
structure Prog where
  mode : String
  bufsize : Int
  init : Option Bytes
  ops : List FOp
  truncZero : Bool := false

def str (s : String) : Bytes := s.toUTF8.toList

/-- what the property compares for one call -/
def sameOut (op : FOp) (m s : Out) : Bool := eraseErr m == eraseErr (eraseRet op s)

def sameOuts : List FOp → List Out → List Out → Bool
  | op :: ops, m :: ms, s :: ss => sameOut op m s && sameOuts ops ms ss
  | [], [], [] => true
  | _, _, _ => false

/-- `some true`: model and spec agree on every return value and on the file's bytes -/
def agrees (w : Prog) : Option Bool :=
  match sftpOpen w.init w.mode.toList w.bufsize 8192 w.truncZero, pyOpen w.init w.mode.toList with
  | some f0, some p0 =>
    let m := srun (sftpOps 32768) f0 w.ops
    let s := prun p0 w.ops
    some (sameOuts w.ops m.2 s.2 && m.1.s.content == s.1.content)
  | none, none => some true
  | _, _ => some false

def tagsOf (w : Prog) : List Tag :=
  match sftpOpen w.init w.mode.toList w.bufsize 8192 w.truncZero with
  | some f0 => openTags w.mode.toList ++ runTags (sftpOps 32768) f0 w.ops
  | none => []

/-! ## witnesses: one per defect tag (replayed on the real code by the check on every run) -/

def w_write_with_unread_rbuffer : Prog :=
  { mode := "r+b", bufsize := 0, init := some (str "ab\ncd\n"), ops := [.readline none, .write (str "X"), .close] }
def w_read_with_unflushed_wbuffer : Prog :=
  { mode := "r+b", bufsize := 16, init := some (str "abcdef"), ops := [.write (str "XY"), .read (some 2), .close] }
def w_tell_ignores_wbuffer : Prog :=
  { mode := "wb", bufsize := 16, init := none, ops := [.write (str "abc"), .tell, .close] }
def w_truncate_ignores_buffers : Prog :=
  { mode := "w+b", bufsize := 16, init := none, ops := [.write (str "abcdef"), .truncate 2, .close] }
def w_truncate_not_checked_writable : Prog :=
  { mode := "rb", bufsize := 0, init := some (str "abcdef"), ops := [.truncate 2, .close] }
def w_truncate_zeroes_file : Prog :=
  { mode := "r+b", bufsize := 0, init := some (str "abcdef"), ops := [.truncate 2, .close], truncZero := true }
def w_truncate_in_append_mode : Prog :=
  { mode := "ab", bufsize := 0, init := some (str "abcdef"), ops := [.truncate 2, .write (str "X"), .tell, .close] }
def w_negative_seek_accepted : Prog :=
  { mode := "rb", bufsize := 0, init := some (str "abc"), ops := [.seek (-1) 0, .close] }
def w_closed_file_call_accepted : Prog :=
  { mode := "rb", bufsize := 0, init := some (str "abc"), ops := [.close, .tell] }
def w_x_mode_not_writable : Prog :=
  { mode := "xb", bufsize := 0, init := none, ops := [.write (str "a"), .close] }
def w_readlines_hint_rounding : Prog :=
  { mode := "rb", bufsize := 0, init := some (str "a\nb\n"), ops := [.readlines (some 0), .close] }
def w_readline0_on_unreadable : Prog :=
  { mode := "wb", bufsize := 0, init := none, ops := [.readline (some 0), .close] }
def w_returns_none : Prog :=
  { mode := "wb", bufsize := 0, init := none, ops := [.write (str "a"), .close] }

theorem write_with_unread_rbuffer_witness :
    agrees w_write_with_unread_rbuffer = some false ∧ tagsOf w_write_with_unread_rbuffer = [.write_with_unread_rbuffer] := by
  decide +kernel
theorem read_with_unflushed_wbuffer_witness :
    agrees w_read_with_unflushed_wbuffer = some false ∧ tagsOf w_read_with_unflushed_wbuffer = [.read_with_unflushed_wbuffer] := by
  decide +kernel
theorem tell_ignores_wbuffer_witness :
    agrees w_tell_ignores_wbuffer = some false ∧ tagsOf w_tell_ignores_wbuffer = [.tell_ignores_wbuffer] := by
  decide +kernel
theorem truncate_ignores_buffers_witness :
    agrees w_truncate_ignores_buffers = some false ∧ tagsOf w_truncate_ignores_buffers = [.truncate_ignores_buffers] := by
  decide +kernel
theorem truncate_not_checked_writable_witness :
    agrees w_truncate_not_checked_writable = some false ∧
    tagsOf w_truncate_not_checked_writable = [.truncate_not_checked_writable] := by
  decide +kernel
theorem truncate_zeroes_file_witness :
    agrees w_truncate_zeroes_file = some false ∧ tagsOf w_truncate_zeroes_file = [.truncate_zeroes_file] := by
  decide +kernel
theorem truncate_in_append_mode_witness :
    agrees w_truncate_in_append_mode = some false ∧ tagsOf w_truncate_in_append_mode = [.truncate_in_append_mode] := by
  decide +kernel
theorem negative_seek_accepted_witness :
    agrees w_negative_seek_accepted = some false ∧ tagsOf w_negative_seek_accepted = [.negative_seek_accepted] := by
  decide +kernel
theorem closed_file_call_accepted_witness :
    agrees w_closed_file_call_accepted = some false ∧ tagsOf w_closed_file_call_accepted = [.closed_file_call_accepted] := by
  decide +kernel
theorem x_mode_not_writable_witness :
    agrees w_x_mode_not_writable = some false ∧ tagsOf w_x_mode_not_writable = [.x_mode_not_writable] := by
  decide +kernel
theorem readlines_hint_rounding_witness :
    agrees w_readlines_hint_rounding = some false ∧ tagsOf w_readlines_hint_rounding = [.readlines_hint_rounding] := by
  decide +kernel
theorem readline0_on_unreadable_witness :
    agrees w_readline0_on_unreadable = some false ∧ tagsOf w_readline0_on_unreadable = [.readline0_on_unreadable] := by
  decide +kernel

/-- write()/seek()/truncate() return None: without the erasure of exactly that, even the simplest program differs -/
theorem returns_none_witness :
    agrees w_returns_none = some true ∧ tagsOf w_returns_none = [] ∧
    (sstep (sftpOps 32768) ((sftpOpen none "wb".toList 0 8192 false).get (by decide)) (.write (str "a"))).2 = .unit ∧
    (pstep ((pyOpen none "wb".toList).get (by decide)) (.write (str "a"))).2 = .pos 1 := by
  decide +kernel

def witnesses : List (String × Prog) :=
  [("write_with_unread_rbuffer", w_write_with_unread_rbuffer),
   ("read_with_unflushed_wbuffer", w_read_with_unflushed_wbuffer),
   ("tell_ignores_wbuffer", w_tell_ignores_wbuffer),
   ("truncate_ignores_buffers", w_truncate_ignores_buffers),
   ("truncate_not_checked_writable", w_truncate_not_checked_writable),
   ("truncate_zeroes_file", w_truncate_zeroes_file),
   ("truncate_in_append_mode", w_truncate_in_append_mode),
   ("negative_seek_accepted", w_negative_seek_accepted),
   ("closed_file_call_accepted", w_closed_file_call_accepted),
   ("x_mode_not_writable", w_x_mode_not_writable),
   ("readlines_hint_rounding", w_readlines_hint_rounding),
   ("readline0_on_unreadable", w_readline0_on_unreadable),
   ("returns_none", w_returns_none)]

end PV.Props.C27
