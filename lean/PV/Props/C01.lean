/-
  C01 — The encrypted packet layer delivers exactly the message stream that was sent.
  Model: PV/Model/Packet.lean (`sendMessage`, `readMessage` with the classic / etm / AEAD / no-cipher paths,
  `read_all` over a fragmenting socket, key / compressor / sequence-number switches).
  Helpers: PV/Model/PacketRoundtrip.lean, PV/Model/PacketFrag.lean.  Primitives are abstract (`Laws`).
-/
import PV.Model.PacketFrag
import PV.Model.PacketWrite
import PV.Model.PacketRekey
import PV.Generated.C03
namespace PV.Props.C01
open PV PV.Packet

/-- the payloads the op list asks the sender to send, in order -/
def sentData {p : Prims} : List (Op p) → List Bytes
  | [] => []
  | .msg d _ :: ops => d :: sentData ops
  | _ :: ops => sentData ops

private theorem msgsOf_data {p : Prims} (ops : List (Op p)) : ∀ (s : Sender p) (seq : Nat) res,
    sendAll s ops = .ok res → (msgsOf seq ops).map (fun m => m.cmd :: m.payload) = sentData ops := by
  induction ops with
  | nil => intro s seq res _; rfl
  | cons op ops ih =>
    intro s seq res hs
    cases op with
    | msg d rnd =>
      simp only [sendAll] at hs
      cases hsm : sendMessage s d rnd with
      | error e => rw [hsm] at hs; cases hs
      | ok o =>
        rw [hsm] at hs
        simp only at hs
        cases hsa : sendAll o.st ops with
        | error e => rw [hsa] at hs; cases hs
        | ok r1 =>
          have hd := (sendMessage_ok hsm).1
          cases d with
          | nil => exact absurd rfl hd
          | cons c body => simp [msgsOf, sentData, ih o.st _ r1 hsa]
    | setCipher b m sd co ci => simp only [sendAll] at hs; simpa [msgsOf, sentData] using ih _ seq res hs
    | setComp zo zi => simp only [sendAll] at hs; simpa [msgsOf, sentData] using ih _ seq res hs
    | resetSeq => simp only [sendAll] at hs; simpa [msgsOf, sentData] using ih _ 0 res hs
    | kexDone => simp only [sendAll] at hs; simpa [msgsOf, sentData] using ih _ seq res hs

/-- **One packet.** A receiver keyed like the sender (`PairedSt`: same framing parameters and sequence number,
cipher / AEAD / MAC / compressor states in correspondence) reads, from the sender's bytes followed by anything,
exactly the message sent (type byte, payload, sequence number), consumes exactly the sender's bytes, verifies
exactly what the sender authenticated, and is again keyed like the sender afterwards.  All four receive paths. -/
theorem single_packet {p : Prims} (W : Laws p) {s : Sender p} {r : Receiver p} (hp : PairedSt W s r)
    {d rnd : Bytes} {o : SendOut p} (hs : sendMessage s d rnd = .ok o) (t : Bytes) :
    ∃ o' c body, d = c :: body ∧ runBuf (readMessage r) (o.wire ++ t) = .ok o' t ∧
      o'.msg = ⟨c, body, s.seq⟩ ∧ o'.auth = o.auth ∧ PairedSt W o.st o'.st ∧ o'.raw = o.wire.length :=
  roundtrip1 W hp hs t

/-- **Any history.** For every list of operations (messages of any sizes, cipher switches to any paired suite,
compressor switches, sequence-number resets, end of the initial kex), if the sender got all of it onto the wire
then the receiver that mirrors the switches delivers exactly the sender's messages — same order, same type
bytes, same payloads, same sequence numbers, none lost, duplicated or merged — stops without error, has consumed
exactly the wire, and ends keyed like the sender. -/
theorem roundtrip {p : Prims} (W : Laws p) (ops : List (Op p)) (s : Sender p) (r : Receiver p)
    (hp : PairedSt W s r) (hok : ∀ op ∈ ops, OpOk W op)
    (s' : Sender p) (w : Bytes) (log : List Auth) (hs : sendAll s ops = .ok (s', w, log)) (t : Bytes) :
    (recvAll r ops (w ++ t)).msgs = msgsOf s.seq ops ∧
    (recvAll r ops (w ++ t)).msgs.map (fun m => m.cmd :: m.payload) = sentData ops ∧
    (recvAll r ops (w ++ t)).stop = none ∧ (recvAll r ops (w ++ t)).rest = t ∧
    ∃ r', (recvAll r ops (w ++ t)).st = some r' ∧ PairedSt W s' r' := by
  obtain ⟨h1, h2, h3, _, h5⟩ := roundtrip_seq W ops s r hp hok s' w log hs t
  exact ⟨h1, by rw [h1]; exact msgsOf_data ops s s.seq _ hs, h2, h3, h5⟩

/-- **Any fragmentation, any timeouts, any value of the need-rekey flag.** `read_all(n, check_rekey)` on a socket
whose `recv` returns arbitrary non-empty pieces, times out arbitrarily often, with `__need_rekey` having any value
at each timeout: either `NeedRekeyException` is raised — only when `check_rekey` is passed, with NOTHING consumed
from the stream — or exactly the next `n` bytes of the stream are returned (EOF iff the stream is shorter). -/
theorem read_all_any_chunking (data : Bytes) (sched : List Ev) (n : Int) (cr : Bool) :
    (∃ sc, readAll ⟨[], data, sched⟩ n cr = .rekey ⟨[], data, sc⟩ ∧ cr = true ∧ sc.length < sched.length) ∨
    ((n.toNat ≤ data.length →
      ∃ sc, readAll ⟨[], data, sched⟩ n cr = .ok (data.take n.toNat) ⟨[], data.drop n.toNat, sc⟩) ∧
     (data.length < n.toNat → readAll ⟨[], data, sched⟩ n cr = .err .eof)) :=
  readAll_spec data sched n cr

/-- `read_message`, called again after every `NeedRekeyException` as `Transport.run` does, returns what reading the
plain stream returns — whatever the fragmentation, the timeouts and the need-rekey flag (a pending rekey never costs
a byte of the stream). -/
theorem read_message_retry_any_schedule {p : Prims} (r : Receiver p) (data : Bytes) (sched : List Ev) :
    SimRes (readRetry r (sched.length + 1) ⟨[], data, sched⟩) (runBuf (readMessage r) data) :=
  readRetry_sim r data (sched.length + 1) sched (Nat.lt_succ_self _)

/-- **Any history over any fragmentation**: the statement of `roundtrip` for the receiver reading from a socket
with an arbitrary schedule of `recv` sizes, timeouts and need-rekey flag values (`sched : List Ev`). -/
theorem roundtrip_any_fragmentation {p : Prims} (W : Laws p) (ops : List (Op p)) (s : Sender p) (r : Receiver p)
    (hp : PairedSt W s r) (hok : ∀ op ∈ ops, OpOk W op)
    (s' : Sender p) (w : Bytes) (log : List Auth) (hs : sendAll s ops = .ok (s', w, log))
    (t : Bytes) (sched : List Ev) :
    (recvAllSock r ops ⟨[], w ++ t, sched⟩).1 = msgsOf s.seq ops ∧
    (recvAllSock r ops ⟨[], w ++ t, sched⟩).1.map (fun m => m.cmd :: m.payload) = sentData ops ∧
    (recvAllSock r ops ⟨[], w ++ t, sched⟩).2.1 = none := by
  obtain ⟨h1, h2, h3, _, _⟩ := roundtrip W ops s r hp hok s' w log hs t
  obtain ⟨e1, e2⟩ := recvAllSock_eq ops r (w ++ t) sched
  exact ⟨by rw [e1, h1], by rw [e1, h2], by rw [e2, h3]⟩

/-- a schedule that splits the first block around a timeout with the flag set (the situation in which a hoisted
`len(out) == 0` test would drop bytes): the model raises `NeedRekeyException` only at the leading timeout -/
example : (match readAll ⟨[], [1, 2, 3, 4, 5, 6, 7, 8], [.timeout true, .recv 2, .timeout true, .recv 9]⟩ 8 true with
    | .rekey s => (s.data.length, s.sched.length) | _ => (0, 0)) = (8, 3) ∧
    (match readAll ⟨[], [1, 2, 3, 4, 5, 6, 7, 8], [.recv 2, .timeout true, .recv 9]⟩ 8 true with
    | .ok b s => (b.length, s.sched.length) | _ => (0, 0)) = (8, 0) := by decide

/-- **Any behaviour of `send` on the write side.** The sender pushes every packet through `write_all` under an
arbitrary schedule of `send` outcomes per packet (short writes of any size, timeouts, EAGAIN, in any order).  If no
`write_all` raised, the bytes on the socket are the ones `roundtrip` is about, so the receiver — reading under any
fragmentation / timeout / need-rekey schedule — delivers exactly the messages sent. -/
theorem roundtrip_any_write_schedule {p : Prims} (W : Laws p) (ops : List (Op p)) (s : Sender p) (r : Receiver p)
    (hp : PairedSt W s r) (hok : ∀ op ∈ ops, OpOk W op) (wscheds : List (List SendEv))
    (s' : Sender p) (w : Bytes) (hs : sendAllW s ops wscheds = .ok (s', w)) (t : Bytes) (sched : List Ev) :
    (recvAllSock r ops ⟨[], w ++ t, sched⟩).1 = msgsOf s.seq ops ∧
    (recvAllSock r ops ⟨[], w ++ t, sched⟩).1.map (fun m => m.cmd :: m.payload) = sentData ops ∧
    (recvAllSock r ops ⟨[], w ++ t, sched⟩).2.1 = none := by
  obtain ⟨log, hl⟩ := sendAllW_eq ops s wscheds s' w hs
  exact roundtrip_any_fragmentation W ops s r hp hok s' w log hl t sched

/-- `write_all`: the bytes accepted by the socket are the packet (on return) or a proper prefix (on `EOFError`) -/
theorem write_all_any_schedule (sched : List SendEv) (out : Bytes) (it : Nat) (w : Bytes) :
    (∀ wr, writeAll sched out it w = .ok wr → wr = w ++ out) ∧
    (∀ wr, writeAll sched out it w = .eof wr → ∃ k, wr = w ++ out.take k ∧ k < out.length) :=
  writeAll_spec sched out it w

/-- **Rekey accounting: in-flight ≤ allowance ⇒ nothing is lost.** `read_message` counts packets and bytes; when its
own threshold (`REKEY_PACKETS` / `REKEY_BYTES`) is reached it requests a rekey, and from then on it tolerates
`REKEY_PACKETS_OVERFLOW_MAX` packets / `REKEY_BYTES_OVERFLOW_MAX` bytes before raising "Remote transport is ignoring
rekey requests".  For every history: if every key epoch of what the sender put on the wire (`sentAccts`: its packet
sizes between key switches) stays strictly below the allowance `L.ovPackets` / `L.ovBytes` — counting from the
overflow counters' current values — then the receiver WITH the accounting delivers exactly the messages sent and
stops without error, whatever the thresholds are and whenever the request is triggered. -/
theorem roundtrip_with_rekey_accounting {p : Prims} (W : Laws p) (L : Limits) (ops : List (Op p))
    (s : Sender p) (r : Receiver p) (k : RekeySt)
    (hp : PairedSt W s r) (hok : ∀ op ∈ ops, OpOk W op)
    (s' : Sender p) (w : Bytes) (log : List Auth) (hs : sendAll s ops = .ok (s', w, log)) (t : Bytes)
    (hInFlight : RunOk L k.ovPackets k.ovBytes (sentAccts s ops)) :
    recvAllK L r k ops (w ++ t) = (msgsOf s.seq ops, none) := by
  have hacc := accts_seq W ops s r hp hok s' w log hs t
  obtain ⟨k', hk'⟩ := accountAll_ok L (sentAccts s ops) k k.ovPackets k.ovBytes (Nat.le_refl _) (Nat.le_refl _) hInFlight
  rw [← hacc] at hk'
  rw [recvAllK_spec L ops r k (w ++ t) k' hk']
  obtain ⟨h1, h2, _⟩ := roundtrip_seq W ops s r hp hok s' w log hs t
  rw [h1, h2]

/-- the accounting never alters what is delivered before it raises: on ANY byte string, if the accounting of the
decoded packets does not raise, the deliveries and the stop reason are those of the receiver without accounting -/
theorem accounting_is_transparent {p : Prims} (L : Limits) (ops : List (Op p)) (r : Receiver p) (k k' : RekeySt)
    (buf : Bytes) (h : accountAll L k (recvAll r ops buf).accts = .ok k') :
    recvAllK L r k ops buf = ((recvAll r ops buf).msgs, (recvAll r ops buf).stop) :=
  recvAllK_spec L ops r k buf k' h

/-- the allowance and the thresholds the theorems are instantiated with are the constants shipped in
`class Packetizer` (regenerated from the source on every run) -/
theorem shipped_limits_eq_generated :
    (shippedLimits.rekeyPackets : Int) = PV.Generated.C03.rekey_packets ∧
    (shippedLimits.rekeyBytes : Int) = PV.Generated.C03.rekey_bytes ∧
    (shippedLimits.ovPackets : Int) = PV.Generated.C03.rekey_packets_overflow_max ∧
    (shippedLimits.ovBytes : Int) = PV.Generated.C03.rekey_bytes_overflow_max := by
  decide

/-- with the shipped allowance of 2^29 packets / bytes, 80 packets of 100 bytes in flight behind the receiver's
request are fine; an allowance of 64 packets does not cover 80 packets behind a request made after the 5th (the hypothesis is not vacuous either way) -/
example : RunOk shippedLimits 0 0 ((List.replicate 80 (Acct.pkt 100)) ++ [.switch] ++ List.replicate 80 (Acct.pkt 52)) ∧
    (match accountAll ⟨5, 1000000, 64, 1000000⟩ {} (List.replicate 80 (Acct.pkt 52)) with
     | .error e => e == .ignoringRekey
     | .ok _ => false) = true := by
  decide +kernel

/-- **Concurrent senders linearise** (facts read from the AST of `Packetizer.send_message` on every run): there is
ONE `__write_lock` region, entered by an unconditional blocking `acquire()` (no timeout / non-blocking argument whose
result could be ignored), left in a `finally`, and every access to the sender's shared per-direction state — the
stateful compressor, the sequence number, the cipher / MAC engines and IV, `_build_packet`, `write_all`, the rekey
counters — lies inside it.  Hence with any number of threads in `send_message` the wire is what the sequential
sender (`sendAll`, `sendAllW`) produces for the messages in lock order, and `roundtrip` applies to that order. -/
theorem send_message_linearises_generated :
    PV.Generated.C03.send_lock_acquire_unconditional = true ∧
    PV.Generated.C03.send_lock_released_in_finally = true ∧
    PV.Generated.C03.send_shared_state_outside_lock = 0 ∧
    0 < PV.Generated.C03.send_shared_state_inside_lock := by
  decide

/-- Every suite of the generated table meets the side conditions of `PairedSt` / `CiphPaired`:
block size ≥ 4, AES-GCM rows carry the 16-byte tag as MAC length. -/
theorem suites_meet_side_conditions :
    ∀ r ∈ PV.Generated.C03.outRows, 4 ≤ r.block ∧ (r.aead = true → r.macLen = 16) ∧ r.macLen ≤ 64 := by
  decide +kernel

/-! ## the hypotheses are satisfiable: toy primitives -/

/-- the toy primitives obey all laws (block size of a toy context: 8, 16, 24 or 32 depending on its key byte) -/
def toyLaws : Laws toyPrims where
  blk := fun st => 8 * (st.1 % 4 + 1)
  Paired := toyPaired
  ZPaired := fun a b => a = b
  tagLen := 16
  ciph := toyCipherLaws _ (fun _ _ => rfl)
  aead := toyAeadLaws
  comp := toyCompLaws

private def exOps : List (Op toyPrims) :=
  [.msg [20, 1, 2] [], .kexDone,
   .setCipher 16 12 false (.etm (1, 0) [7, 7]) (.etm (1, 0) [7, 7]),
   .msg [21] [9, 9, 9], .setComp (some (5 : Nat)) (some (5 : Nat)), .msg [94, 0, 0, 0, 1, 65, 66, 67] [1],
   .setCipher 16 16 false (.aead (3 : Nat) [0, 0, 0, 1, 255, 255, 255, 255, 255, 255, 255, 254]) (.aead (3 : Nat) [0, 0, 0, 1, 255, 255, 255, 255, 255, 255, 255, 254]),
   .resetSeq, .msg [5, 5] [],
   .setCipher 8 20 true (.classic (0, 3) [1]) (.classic (0, 3) [1]), .msg [6, 6, 6, 6, 6, 6, 6, 6, 6] [4, 4]]

/-- a concrete history with three key switches, a compressor switch and a sequence reset: the sender succeeds,
every switch is paired, and (by evaluation) the receiver returns the five messages -/
example : (∃ res, sendAll (p := toyPrims) {} exOps = .ok res) ∧ (∀ op ∈ exOps, OpOk toyLaws op) ∧
    PairedSt toyLaws ({} : Sender toyPrims) ({} : Receiver toyPrims) := by
  refine ⟨⟨_, rfl⟩, ?_, ⟨rfl, rfl, rfl, rfl, by decide, rfl, trivial⟩⟩
  intro op hop
  simp only [exOps, List.mem_cons, List.not_mem_nil, or_false] at hop
  rcases hop with h | h | h | h | h | h | h | h | h | h | h <;> subst h <;>
    first
    | trivial
    | exact ⟨by decide, rfl, rfl, rfl, toyMacOk _ _ (by decide)⟩
    | exact ⟨by decide, rfl, rfl, rfl⟩
    | rfl

/-- … and the model, evaluated on that history, delivers the five messages with the expected sequence numbers -/
example : (match sendAll (p := toyPrims) {} exOps with
    | .ok (_, w, _) => (recvAll ({} : Receiver toyPrims) exOps w).msgs.map (fun m => (m.cmd, m.seqno))
    | .error _ => []) = [(20, 0), (21, 1), (94, 2), (5, 0), (6, 1)] := by
  decide +kernel

end PV.Props.C01
