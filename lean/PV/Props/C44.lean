/-
  C44 — An auth strategy tries sources in order and reports every failure.
  Property theorems only.  Model: PV/Model/AuthStrategy.lean (AuthStrategy.authenticate).

  `auth : σ → S → Out ε ρ × S` is an arbitrary stateful `source.authenticate`; all theorems hold for
  every such program, every source list and every initial state.
-/
import PV.Model.AuthStrategy
namespace PV.Props.C44
open PV.AuthStrategy

variable {σ ε ρ S : Type}

/-! ## the specification `attempted`: shortest prefix ending in the first success, else everything -/

/-- `attempted` is a prefix -/
theorem attempted_prefix (ps : List (σ × Out ε ρ)) : attempted ps <+: ps := by
  induction ps with
  | nil => exact List.prefix_refl _
  | cons p ps ih =>
    simp only [attempted]
    split
    · exact ⟨ps, rfl⟩
    · exact (List.prefix_cons_inj p).mpr ih

/-- if some source succeeds, the attempts are failures followed by exactly one success (so no shorter
prefix ends in a success, and nothing after the first success is attempted) -/
theorem attempted_of_success (ps : List (σ × Out ε ρ)) (h : ps.any (·.2.isOk) = true) :
    ∃ pre p, attempted ps = pre ++ [p] ∧ p.2.isOk = true ∧ ∀ q ∈ pre, q.2.isOk = false := by
  induction ps with
  | nil => simp at h
  | cons p ps ih =>
    by_cases hp : p.2.isOk = true
    · exact ⟨[], p, by simp [attempted, hp], hp, by simp⟩
    · have h' : ps.any (·.2.isOk) = true := by
        simp only [List.any_cons, Bool.or_eq_true] at h
        rcases h with h | h
        · exact absurd h hp
        · exact h
      obtain ⟨pre, q, he, hq, hall⟩ := ih h'
      refine ⟨p :: pre, q, by simp [attempted, hp, he], hq, ?_⟩
      intro r hr
      simp only [List.mem_cons] at hr
      rcases hr with hr | hr
      · subst hr; simpa using hp
      · exact hall r hr

/-- if no source succeeds, every source is attempted -/
theorem attempted_of_failure (ps : List (σ × Out ε ρ)) (h : ps.any (·.2.isOk) = false) :
    attempted ps = ps := by
  induction ps with
  | nil => rfl
  | cons p ps ih =>
    simp only [List.any_cons, Bool.or_eq_false_iff] at h
    simp [attempted, h.1, ih h.2]

/-- the sources of the would-be trace are the source list itself, in order -/
theorem trace_sources (auth : σ → S → Out ε ρ × S) (srcs : List σ) (s : S) :
    (trace auth srcs s).map (·.1) = srcs := by
  induction srcs generalizing s with
  | nil => rfl
  | cons x xs ih => simp [trace, ih]

/-! ## the loop -/

private theorem loop_spec (auth : σ → S → Out ε ρ × S) (srcs : List σ) (l : Loop σ ε ρ S)
    (hl : l.succeeded = false) :
    (loop auth srcs l).overall = l.overall ++ attempted (trace auth srcs l.st) ∧
    (loop auth srcs l).calls = l.calls ++ (attempted (trace auth srcs l.st)).map (·.1) ∧
    (loop auth srcs l).pulled = l.pulled ++ (attempted (trace auth srcs l.st)).map (·.1) ∧
    (loop auth srcs l).succeeded = (trace auth srcs l.st).any (·.2.isOk) := by
  induction srcs generalizing l with
  | nil => simp [loop, trace, attempted, hl]
  | cons x xs ih =>
    by_cases hok : (auth x l.st).1.isOk = true
    · simp [loop, body, trace, attempted, hok, hl]
    · have hok' : (auth x l.st).1.isOk = false := by simpa using hok
      have hb : (body auth x l).succeeded = false := by simp [body, hl, hok']
      obtain ⟨h1, h2, h3, h4⟩ := ih (body auth x l) hb
      have hst : (body auth x l).st = (auth x l.st).2 := rfl
      simp only [loop, hb, Bool.false_eq_true, if_false, trace, attempted, hok', List.any_cons,
        Bool.false_or, List.map_cons]
      rw [h1, h2, h3, h4, hst]
      simp [body]

/-- **Main theorem.** For every source list, every stateful `source.authenticate` and every initial
state: `authenticate` returns (resp. raises `AuthFailure` with) exactly the shortest prefix of
(source, outcome) pairs that ends in the first success (resp. all of them when none succeeds) — each
source paired with the outcome of *its own* call, in production order. -/
theorem authenticate_spec (auth : σ → S → Out ε ρ × S) (srcs : List σ) (s : S) :
    authenticate auth srcs s =
      if (trace auth srcs s).any (·.2.isOk) then .returned (attempted (trace auth srcs s))
      else .authFailure (attempted (trace auth srcs s)) := by
  obtain ⟨h1, _, _, h4⟩ := loop_spec auth srcs (init s) rfl
  have h1' : (loop auth srcs (init s)).overall = attempted (trace auth srcs s) := by
    simpa [init] using h1
  have h4' : (loop auth srcs (init s)).succeeded = (trace auth srcs s).any (·.2.isOk) := by
    simpa [init] using h4
  simp only [authenticate, finish, h1', h4']

/-- The `source.authenticate` calls actually made, and the sources pulled from the `get_sources()`
generator, are exactly the attempted sources, in order (nothing is called twice, skipped, or pulled
after the first success). -/
theorem calls_are_attempts (auth : σ → S → Out ε ρ × S) (srcs : List σ) (s : S) :
    (loop auth srcs (init s)).calls = (authenticate auth srcs s).result.map (·.1) ∧
    (loop auth srcs (init s)).pulled = (authenticate auth srcs s).result.map (·.1) ∧
    (authenticate auth srcs s).result.map (·.1) <+: srcs := by
  obtain ⟨h1, h2, h3, _⟩ := loop_spec auth srcs (init s) rfl
  have hr : (authenticate auth srcs s).result = attempted (trace auth srcs s) := by
    rw [authenticate_spec]; split <;> rfl
  refine ⟨by rw [h2, hr]; rfl, by rw [h3, hr]; rfl, ?_⟩
  rw [hr]
  have := (attempted_prefix (trace auth srcs s)).map (·.1)
  rwa [trace_sources] at this

/-- Success: the result lists failures followed by the one success it stopped at. -/
theorem returned_shape (auth : σ → S → Out ε ρ × S) (srcs : List σ) (s : S)
    (r : List (σ × Out ε ρ)) (h : authenticate auth srcs s = .returned r) :
    ∃ pre p, r = pre ++ [p] ∧ p.2.isOk = true ∧ (∀ q ∈ pre, q.2.isOk = false) ∧
      r.map (·.1) <+: srcs := by
  have hc := (calls_are_attempts auth srcs s).2.2
  rw [authenticate_spec] at h
  rw [authenticate_spec] at hc
  by_cases hany : (trace auth srcs s).any (·.2.isOk) = true
  · simp only [hany, if_true, Final.returned.injEq] at h
    simp only [hany, if_true, Final.result] at hc
    obtain ⟨pre, p, he, hp, hall⟩ := attempted_of_success _ hany
    subst h
    exact ⟨pre, p, he, hp, hall, hc⟩
  · simp [hany] at h

/-- Failure: `AuthFailure.result` lists **every** source, each with the error it raised. -/
theorem failure_shape (auth : σ → S → Out ε ρ × S) (srcs : List σ) (s : S)
    (r : List (σ × Out ε ρ)) (h : authenticate auth srcs s = .authFailure r) :
    r.map (·.1) = srcs ∧ (∀ q ∈ r, q.2.isOk = false) ∧ r = trace auth srcs s := by
  rw [authenticate_spec] at h
  by_cases hany : (trace auth srcs s).any (·.2.isOk) = true
  · simp [hany] at h
  · have hany' : (trace auth srcs s).any (·.2.isOk) = false := by simpa using hany
    simp only [hany', Bool.false_eq_true, if_false, Final.authFailure.injEq] at h
    rw [attempted_of_failure _ hany'] at h
    subst h
    refine ⟨trace_sources auth srcs s, ?_, rfl⟩
    intro q hq
    have := List.any_eq_false.mp hany' q hq
    simpa using this

/-- It raises `AuthFailure` exactly when no source succeeds (in particular for the empty list). -/
theorem fails_iff_none_succeeds (auth : σ → S → Out ε ρ × S) (srcs : List σ) (s : S) :
    (∃ r, authenticate auth srcs s = .authFailure r) ↔ (trace auth srcs s).any (·.2.isOk) = false := by
  rw [authenticate_spec]
  by_cases hany : (trace auth srcs s).any (·.2.isOk) = true
  · simp [hany]
  · simp [hany]

/-! ## outcome vectors (the form the statement quantifies over): the i-th call yields `os[i]` -/

private theorem trace_scripted (d : ε) (srcs : List σ) (os : List (Out ε ρ))
    (h : srcs.length = os.length) : trace (scripted d) srcs os = srcs.zip os := by
  induction srcs generalizing os with
  | nil => rfl
  | cons x xs ih =>
    cases os with
    | nil => simp at h
    | cons o os => simp [trace, scripted, ih os (by simpa using h)]

/-- For every source list and every outcome vector of the same length. -/
theorem authenticate_outcome_vector (d : ε) (srcs : List σ) (os : List (Out ε ρ))
    (h : srcs.length = os.length) :
    authenticate (scripted d) srcs os =
      if os.any (·.isOk) then .returned (attempted (srcs.zip os))
      else .authFailure (srcs.zip os) := by
  rw [authenticate_spec, trace_scripted d srcs os h]
  have hany : (srcs.zip os).any (·.2.isOk) = os.any (·.isOk) := by
    induction srcs generalizing os with
    | nil => cases os with
      | nil => rfl
      | cons o os => simp at h
    | cons x xs ih =>
      cases os with
      | nil => simp at h
      | cons o os => simp [ih os (by simpa using h)]
  rw [hany]
  by_cases ho : os.any (·.isOk) = true
  · simp [ho]
  · have ho' : os.any (·.isOk) = false := by simpa using ho
    simp only [ho', Bool.false_eq_true, if_false]
    rw [attempted_of_failure _ (by rw [hany]; exact ho')]

/-! ## several `authenticate()` calls on the same strategy object

Model with object identity (`Obj.heap`): each call's outcome is the one-shot specification of *that call's* sources
(and the world state it starts from) for **every prior history**, the result object is a fresh one, and no result
object handed out by an earlier call is ever changed. -/

private theorem appendCell_last {α : Type} (pre : List (List α)) (c : List α) (x : α) :
    appendCell (pre ++ [c]) pre.length x = pre ++ [c ++ [x]] := by
  induction pre with
  | nil => rfl
  | cons p ps ih => simp [appendCell, ih]

private theorem heapLoop_spec (auth : σ → S → Out ε ρ × S) (pre : List (List (σ × Out ε ρ)))
    (srcs : List σ) (c : List (σ × Out ε ρ)) (s : S) :
    heapLoop auth pre.length srcs { heap := pre ++ [c], st := s } =
      ({ heap := pre ++ [c ++ attempted (trace auth srcs s)], st := stAfter auth srcs s },
       (trace auth srcs s).any (·.2.isOk)) := by
  induction srcs generalizing c s with
  | nil => simp [heapLoop, trace, attempted, stAfter]
  | cons x xs ih =>
    simp only [heapLoop, appendCell_last, trace, attempted, stAfter, List.any_cons]
    by_cases hok : (auth x s).1.isOk = true
    · simp [hok]
    · have hok' : (auth x s).1.isOk = false := by simpa using hok
      simp only [hok', Bool.false_eq_true, if_false, Bool.false_or]
      rw [ih]
      simp [List.append_assoc]

/-- **One call, any prior history.**  Whatever result objects already exist (`o.heap`) and whatever state the world
is in: the call allocates a new object, leaves every existing one untouched, and fills the new one with exactly the
one-shot result of this call's sources. -/
theorem authCall_spec (auth : σ → S → Out ε ρ × S) (srcs : List σ) (o : Obj σ ε ρ S) :
    authCall auth srcs o =
      ({ heap := o.heap ++ [attempted (trace auth srcs o.st)], st := stAfter auth srcs o.st },
       o.heap.length, (trace auth srcs o.st).any (·.2.isOk)) := by
  unfold authCall
  have := heapLoop_spec auth o.heap srcs [] o.st
  simp only [List.nil_append] at this
  simp only [this]

/-- the object handed out and the way the call ends are those of the one-shot `authenticate` on this call's sources -/
theorem authCall_eq_one_shot (auth : σ → S → Out ε ρ × S) (srcs : List σ) (o : Obj σ ε ρ S) :
    (let r := authCall auth srcs o
     if r.2.2 then Final.returned (r.1.heap.getD r.2.1 []) else Final.authFailure (r.1.heap.getD r.2.1 []))
      = authenticate auth srcs o.st := by
  rw [authCall_spec, authenticate_spec]
  simp

/-- **A whole history of calls on one strategy object.**  Afterwards the heap consists of the objects that existed
before — unchanged — followed by one object per call, the k-th holding exactly the one-shot result of the k-th
call's sources (run from the world state that call started in); the identities handed out are fresh and distinct. -/
theorem session_spec (auth : σ → S → Out ε ρ × S) (calls : List (List σ)) (o : Obj σ ε ρ S) :
    (session auth calls o).1.heap =
      o.heap ++ List.zipWith (fun srcs s => attempted (trace auth srcs s)) calls (statesOf auth calls o.st) ∧
    (session auth calls o).2 =
      List.zipWith (fun (i : Nat) (p : List σ × S) => (o.heap.length + i, (trace auth p.1 p.2).any (·.2.isOk)))
        (List.range calls.length) (calls.zip (statesOf auth calls o.st)) := by
  induction calls generalizing o with
  | nil => simp [session, statesOf]
  | cons srcs rest ih =>
    simp only [session, authCall_spec, statesOf]
    obtain ⟨h1, h2⟩ := ih { heap := o.heap ++ [attempted (trace auth srcs o.st)], st := stAfter auth srcs o.st }
    refine ⟨?_, ?_⟩
    · rw [h1]; simp [List.append_assoc]
    · rw [h2]
      simp only [List.length_cons, List.range_succ_eq_map, List.zip_cons_cons, List.zipWith_cons_cons,
        Nat.add_zero, List.zipWith_map_left, List.length_append, List.length_singleton]
      congr 2
      funext i p
      simp only [List.length_nil, Prod.mk.injEq, and_true]
      omega

/-- result objects handed out by earlier calls are never changed by later calls -/
theorem earlier_results_unchanged (auth : σ → S → Out ε ρ × S) (calls : List (List σ)) (o : Obj σ ε ρ S) :
    o.heap <+: (session auth calls o).1.heap := by
  rw [(session_spec auth calls o).1]
  exact List.prefix_append _ _

/-- two calls on a fresh strategy: the second result lists only the second call's attempts, the first is intact -/
example : (session (scripted 0) [["a", "b"], ["c", "d"]]
      (⟨[], [Out.err 1, Out.err 2, Out.err 3, Out.ok "yes"]⟩ : Obj String Nat String (List (Out Nat String)))).1.heap
    = [[("a", .err 1), ("b", .err 2)], [("c", .err 3), ("d", .ok "yes")]] := by decide

/-- the result has one entry per `source.authenticate` call — also when the same (or an equal) source is produced
more than once: entries are appended, never merged -/
theorem one_entry_per_call (auth : σ → S → Out ε ρ × S) (srcs : List σ) (s : S) :
    (authenticate auth srcs s).result.length = (loop auth srcs (init s)).calls.length := by
  rw [(calls_are_attempts auth srcs s).1, List.length_map]

/-- `[P, K, P]`: the re-tried source appears twice, in attempt order, the success last -/
example : authenticate (scripted 0) ["P", "K", "P", "Z"] [Out.err 1, Out.err 2, Out.ok "yes", Out.err 9]
    = .returned [("P", .err 1), ("K", .err 2), ("P", .ok "yes")] := by decide

/-! ## non-vacuity -/

/-- three sources: A raises, B succeeds, C is never tried -/
example : authenticate (scripted 0) ["a", "b", "c"] [Out.err 7, Out.ok "done", Out.err 9]
    = .returned [("a", .err 7), ("b", .ok "done")] := by decide
example : authenticate (scripted 0) ["a", "b"] [(Out.err 7 : Out Nat String), Out.err 8]
    = .authFailure [("a", .err 7), ("b", .err 8)] := by decide
example : authenticate (scripted 0) ([] : List String) ([] : List (Out Nat String)) = .authFailure [] := by
  decide
/-- a genuinely stateful source: succeeds only on the third call overall -/
example : authenticate (fun (x : Nat) (n : Nat) => (if n = 2 then Out.ok x else Out.err n, n + 1))
    [10, 11, 12, 13] 0 = .returned [(10, .err 0), (11, .err 1), (12, .ok 12)] := by decide

end PV.Props.C44
