/-
  C03 — Outgoing packets are framed and padded as RFC 4253 §6 requires.
  Model: PV/Model/Packet.lean (`buildPacket`, `sendMessage`).  The padding / length-field / zero-padding /
  sequence-number / read-size kernels and the cipher × MAC table come from PV/Generated/C03.lean, which the
  check regenerates from paramiko's source on every run.
-/
import PV.Model.PacketWrite
import PV.Generated.C03
namespace PV.Props.C03
open PV PV.Packet
namespace Gen
export PV.Generated.C03 (Row outRows inRows build_packet_padding build_packet_length_field build_packet_zero_pad
  send_next_seq read_next_seq read_remaining_etm read_remaining_aead read_bad_blocking read_classic_size
  write_all_retry_n write_all_zero_limit send_lock_acquire_unconditional send_lock_released_in_finally
  send_shared_state_outside_lock send_shared_state_inside_lock)
end Gen

/-! ## the model's kernels are the ones in the source (translated from the AST) -/

private theorem addlen_flags (etm aead : Bool) :
    ((if (etm || aead) then (4 : Int) else (8 : Int)) = ((if (etm || aead) then 4 else 8 : Nat) : Int)) := by
  cases etm <;> cases aead <;> rfl

/-- `padLen` (model) = `padding` of `Packetizer._build_packet` (generated), for every positive block size,
every payload length and both framings -/
theorem padding_eq_generated (b l : Nat) (etm aead : Bool) (hb : 0 < b) :
    ((padLen b (if (etm || aead) then 4 else 8) l : Nat) : Int) = Gen.build_packet_padding b l etm aead := by
  unfold Gen.build_packet_padding padLen
  simp only
  rw [addlen_flags]
  have h := Nat.mod_lt (l + (if (etm || aead) then 4 else 8)) hb
  have hc : (((l + (if (etm || aead) = true then 4 else 8 : Nat)) % b : Nat) : Int)
      = ((l : Int) + ((if (etm || aead) = true then 4 else 8 : Nat) : Int)) % (b : Int) := by
    rw [Int.natCast_emod, Int.natCast_add]
  rw [← hc]
  omega

/-- the length field written by the model is the one `struct.pack(">IB", …)` gets in the source -/
theorem length_field_eq_generated (b l : Nat) (etm aead : Bool) (hb : 0 < b) :
    ((l + padLen b (if (etm || aead) then 4 else 8) l + 1 : Nat) : Int)
      = Gen.build_packet_length_field b l etm aead := by
  have h := padding_eq_generated b l etm aead hb
  unfold Gen.build_packet_length_field
  unfold Gen.build_packet_padding at h
  simp only at h ⊢
  rw [← h]
  omega

theorem zero_pad_eq_generated (sdctr engineNone : Bool) :
    zeroPadCond sdctr engineNone = Gen.build_packet_zero_pad sdctr engineNone := rfl

theorem next_seq_eq_generated (n : Nat) :
    ((nextSeq n : Nat) : Int) = Gen.send_next_seq n ∧ ((nextSeq n : Nat) : Int) = Gen.read_next_seq n := by
  unfold nextSeq Gen.send_next_seq Gen.read_next_seq
  omega

theorem read_sizes_eq_generated (psize block macLen leftover : Nat) :
    remainingEtm psize block = Gen.read_remaining_etm psize block ∧
    remainingAead psize block macLen = Gen.read_remaining_aead psize block macLen ∧
    classicSize psize macLen leftover = Gen.read_classic_size psize macLen leftover ∧
    badBlocking psize leftover block = Gen.read_bad_blocking psize leftover block := by
  refine ⟨rfl, rfl, rfl, rfl⟩

/-- the two constants of the `write_all` loop the model uses are the ones in the source: after a timed-out /
EAGAIN `send` the loop continues with `n = 0` (assigned on every retried iteration), and the zero-return limit -/
theorem write_all_consts_eq_generated :
    ((retryN : Nat) : Int) = Gen.write_all_retry_n ∧ ((zeroLimit : Nat) : Int) = Gen.write_all_zero_limit := by
  decide

/-- packets of concurrent senders cannot interleave on the wire: `send_message` builds, encrypts, MACs and writes
each packet inside ONE `__write_lock` region entered by an unconditional blocking `acquire()` and left in a
`finally`, with no shared-state access outside it (facts read from the AST on every run) — so the wire is a
concatenation of whole packets, each framed as `send_framing` says -/
theorem one_write_lock_region_generated :
    Gen.send_lock_acquire_unconditional = true ∧ Gen.send_lock_released_in_finally = true ∧
    Gen.send_shared_state_outside_lock = 0 ∧ 0 < Gen.send_shared_state_inside_lock := by
  decide

/-! ## padding bounds and alignment: all payload lengths, all block sizes -/

/-- RFC 4253 §6: between 4 and 255 bytes of padding, for every payload length, every block size 8…252 and
either framing (`addlen`) -/
theorem pad_bounds (b a l : Nat) (hb8 : 8 ≤ b) (hb : b ≤ 252) :
    4 ≤ padLen b a l ∧ padLen b a l ≤ 255 := by
  have h1 := padLen_ge b a l (by omega)
  have h2 := padLen_le b a l
  omega

/-- classic framing: length field + body is a whole number of blocks -/
theorem classic_aligned (b l : Nat) (hb : 0 < b) : (4 + (l + padLen b 8 l + 1)) % b = 0 :=
  classic_total_mod b l hb

/-- encrypt-then-MAC and AES-GCM framing: the body without the length field is a whole number of blocks -/
theorem etm_aead_aligned (b l : Nat) (hb : 0 < b) : (l + padLen b 4 l + 1) % b = 0 :=
  etm_body_mod b l hb

example : padLen 16 8 1 = 10 ∧ padLen 16 4 11 = 4 ∧ padLen 8 8 0 = 11 ∧ padLen 252 4 248 = 255 := by decide

/-- `_build_packet` succeeds for every payload below 2^32 − 300 bytes and every block size 8…252, and the
packet is `length ‖ padlen ‖ payload ‖ padding` with `length = 1 + |payload| + padlen`, 4 ≤ padlen ≤ 255 -/
theorem build_packet_frame (b a : Nat) (z : Bool) (payload rnd : Bytes) (hb8 : 8 ≤ b) (hb : b ≤ 252)
    (hl : payload.length + 300 < 4294967296) :
    ∃ P padding, buildPacket b a z payload rnd = .ok P ∧
      4 ≤ padding.length ∧ padding.length ≤ 255 ∧
      P = be32 (payload.length + padding.length + 1) ++ [UInt8.ofNat padding.length] ++ payload ++ padding ∧
      beVal (P.take 4) = payload.length + padding.length + 1 ∧
      padding.length = padLen b a payload.length := by
  obtain ⟨P, hP⟩ := buildPacket_total b a z payload rnd hb8 hb hl
  obtain ⟨_, hB⟩ := buildPacket_ok hP
  obtain ⟨padding, hpl, hsh⟩ := hB.shape
  refine ⟨P, padding, hP, by rw [hpl]; exact hB.pad_ge, by rw [hpl]; exact hB.pad_le, by rw [hpl]; exact hsh, ?_, hpl⟩
  rw [hsh, hpl]
  simp only [List.append_assoc]
  rw [List.take_append_of_le_length (by simp [be32]), List.take_of_length_le (by simp [be32])]
  exact beVal_be32 _ hB.psize_lt

/-! ## what `send_message` puts on the wire -/

/-- the frame of RFC 4253 §6 for the payload `payload` (after compression) with padding `padding` -/
def body (payload padding : Bytes) : Bytes := [UInt8.ofNat padding.length] ++ payload ++ padding

/-- Every packet `send_message` writes: a padding of 4…255 bytes exists such that, with
`psize = 1 + |payload| + |padding|` (< 2^32),
* no cipher: wire = `psize ‖ body`, and 4 + psize is a multiple of the block size;
* classic: wire = `Enc(psize ‖ body) ‖ mac[:macLen]`, 4 + psize is a multiple of the block size, total length
  4 + psize + macLen;
* etm: wire = `psize ‖ Enc(body) ‖ mac[:macLen]`, psize is a multiple of the block size, total 4 + psize + macLen;
* aead: wire = `psize ‖ Seal(body, aad = psize)`, psize is a multiple of the block size, total 4 + psize + tagLen. -/
theorem send_framing {p : Prims} {blk : p.CSt → Nat} {Paired : p.CSt → p.CSt → Prop} {tagLen : Nat}
    (L : CipherLaws p blk Paired) (A : AeadLaws p tagLen)
    (s : Sender p) (data rnd : Bytes) (o : SendOut p) (h : sendMessage s data rnd = .ok o) :
    ∃ padding : Bytes, 4 ≤ padding.length ∧ padding.length ≤ 255 ∧
      let payload := (compOut s.comp data).2
      let psize := payload.length + padding.length + 1
      psize < 4294967296 ∧
      match s.ciph with
      | .plain => o.wire = be32 psize ++ body payload padding ∧ (4 + psize) % s.block = 0
      | .classic st mk => blk st = s.block → MacOk p mk s.macLen →
          o.wire = (p.enc st (be32 psize ++ body payload padding)).2
                    ++ (p.mac mk (be32 s.seq ++ (be32 psize ++ body payload padding))).take s.macLen ∧
          (4 + psize) % s.block = 0 ∧ o.wire.length = 4 + psize + s.macLen
      | .etm st mk => blk st = s.block → MacOk p mk s.macLen →
          o.wire = be32 psize ++ (p.enc st (body payload padding)).2
                    ++ (p.mac mk (be32 s.seq ++ (be32 psize ++ (p.enc st (body payload padding)).2))).take s.macLen ∧
          psize % s.block = 0 ∧ o.wire.length = 4 + psize + s.macLen
      | .aead k iv =>
          o.wire = be32 psize ++ p.aenc k iv (body payload padding) (be32 psize) ∧
          psize % s.block = 0 ∧ o.wire.length = 4 + psize + tagLen := by
  obtain ⟨_, _, P, c, a, hb, hen, _, _⟩ := sendMessage_ok h
  obtain ⟨hb0, hB⟩ := buildPacket_ok hb
  obtain ⟨padding, hpl, hsh⟩ := hB.shape
  refine ⟨padding, by rw [hpl]; exact hB.pad_ge, by rw [hpl]; exact hB.pad_le, ?_⟩
  simp only
  refine ⟨by rw [hpl]; exact hB.psize_lt, ?_⟩
  have hP : P = be32 ((compOut s.comp data).2.length + padding.length + 1)
      ++ body (compOut s.comp data).2 padding := by
    rw [hsh, ← hpl]; simp [body]
  have hPlen : P.length = 4 + ((compOut s.comp data).2.length + padding.length + 1) := by
    rw [hpl]; exact hB.len
  have hbody : (body (compOut s.comp data).2 padding).length
      = (compOut s.comp data).2.length + padding.length + 1 := by
    simp only [body, List.length_append, List.length_singleton]; omega
  have htake : P.take 4 = be32 ((compOut s.comp data).2.length + padding.length + 1) := by
    rw [hP, List.take_append_of_le_length (by simp [be32]), List.take_of_length_le (by simp [be32])]
  have hdrop : P.drop 4 = body (compOut s.comp data).2 padding := by
    rw [hP, List.drop_append_of_le_length (by simp [be32]), List.drop_of_length_le (by simp [be32])]
    simp
  unfold encrypt at hen
  cases hc : s.ciph with
  | plain =>
    rw [hc] at hen hb hB hpl
    simp only at hen
    simp only [OutC.addlen] at hpl hB
    have hw : o.wire = P := by
      have := Except.ok.inj hen; simp only [Prod.mk.injEq] at this; exact this.2.1.symm
    refine ⟨by rw [hw, hP], ?_⟩
    rw [hpl]; exact classic_total_mod _ _ hb0
  | classic st mk =>
    rw [hc] at hen hb hB hpl
    simp only at hen
    simp only [OutC.addlen] at hpl hB
    intro hblk hmac
    have hw : o.wire = (p.enc st P).2 ++ (p.mac mk (be32 s.seq ++ P)).take s.macLen := by
      have := Except.ok.inj hen; simp only [Prod.mk.injEq] at this; exact this.2.1.symm
    have hal : (4 + ((compOut s.comp data).2.length + padding.length + 1)) % s.block = 0 := by
      rw [hpl]; exact classic_total_mod _ _ hb0
    refine ⟨by rw [hw, hP], hal, ?_⟩
    rw [hw, List.length_append, L.enc_len st P (by rw [hblk, hPlen]; exact hal), hPlen,
      List.length_take, Nat.min_eq_left (hmac _)]
  | etm st mk =>
    rw [hc] at hen hb hB hpl
    simp only at hen
    simp only [OutC.addlen] at hpl hB
    intro hblk hmac
    have hw : o.wire = P.take 4 ++ (p.enc st (P.drop 4)).2
        ++ (p.mac mk (be32 s.seq ++ (P.take 4 ++ (p.enc st (P.drop 4)).2))).take s.macLen := by
      have := Except.ok.inj hen; simp only [Prod.mk.injEq] at this; exact this.2.1.symm
    have hal : ((compOut s.comp data).2.length + padding.length + 1) % s.block = 0 := by
      rw [hpl]; exact etm_body_mod _ _ hb0
    refine ⟨by rw [hw, htake, hdrop], hal, ?_⟩
    rw [hw, htake, hdrop, List.length_append, List.length_append,
      L.enc_len st _ (by rw [hblk, hbody]; exact hal), hbody, be32_length,
      List.length_take, Nat.min_eq_left (hmac _)]
  | aead k iv =>
    rw [hc] at hen hb hB hpl
    simp only at hen
    simp only [OutC.addlen] at hpl hB
    have hw : o.wire = P.take 4 ++ p.aenc k iv (P.drop 4) (P.take 4) := by
      cases hi : incIv iv with
      | error e => rw [hi] at hen; cases hen
      | ok iv' =>
        rw [hi] at hen
        have := Except.ok.inj hen; simp only [Prod.mk.injEq] at this; exact this.2.1.symm
    have hal : ((compOut s.comp data).2.length + padding.length + 1) % s.block = 0 := by
      rw [hpl]; exact etm_body_mod _ _ hb0
    refine ⟨by rw [hw, htake, hdrop], hal, ?_⟩
    rw [hw, htake, hdrop, List.length_append, A.aenc_len, hbody, be32_length]
    omega

/-- **What reaches the socket is the framed packet.** `write_all` under ANY schedule of `send` outcomes (short
writes of any size incl. 0, `socket.timeout`, `EAGAIN`, in any order): when it returns, the bytes the socket accepted
are exactly the packet handed to it — so `send_framing` describes the wire; when it raises `EOFError` they are a
proper prefix.  Nothing is skipped, repeated or reordered. -/
theorem wire_is_the_framed_packet (sched : List SendEv) (packet : Bytes) :
    (∀ wr, writeAll sched packet 0 [] = .ok wr → wr = packet) ∧
    (∀ wr, writeAll sched packet 0 [] = .eof wr → ∃ k, wr = packet.take k ∧ k < packet.length) := by
  obtain ⟨h1, h2⟩ := writeAll_spec sched packet 0 []
  exact ⟨fun wr h => by simpa using h1 wr h, fun wr h => by simpa using h2 wr h⟩

/-- a short write followed by a timeout and an EAGAIN (the schedule on which a stale `n` would skip bytes): the
model delivers the whole packet; a broken pipe after 3 bytes leaves a 3-byte prefix -/
example : writeAll [.accept 3, .timeout, .eagain, .accept 2, .accept 0, .accept 100] [1, 2, 3, 4, 5, 6, 7, 8] 0 []
      = .ok [1, 2, 3, 4, 5, 6, 7, 8] ∧
    writeAll [.accept 3, .timeout, .fail] [1, 2, 3, 4, 5, 6, 7, 8] 0 [] = .eof [1, 2, 3] := by decide

/-- the hypotheses of `send_framing` are satisfiable: the toy primitives obey the laws and a toy etm sender
with block size 16 and a 12-byte MAC sends a 4-byte message -/
example : (∃ o, sendMessage (p := toyPrims)
      { block := 16, macLen := 12, ciph := .etm (3, 0) [1, 2, 3], seq := 7, kexDone := true }
      [94, 1, 2, 3] [9, 9] = .ok o) ∧
    CipherLaws toyPrims (fun _ => 16) toyPaired ∧ AeadLaws toyPrims 16 ∧ MacOk toyPrims [1, 2, 3] 12 :=
  ⟨⟨_, rfl⟩, toyCipherLaws _ (fun _ _ => rfl), toyAeadLaws, toyMacOk _ _ (by decide)⟩

/-! ## every suite paramiko can negotiate (table regenerated from transport.py through the real
`_activate_outbound` / `_activate_inbound`) -/

def rowOk (r : Gen.Row) : Bool :=
  8 ≤ r.block && r.block ≤ 252 && r.block % 8 == 0 && 0 < r.macLen && !(r.etm && r.aead)
    && (!r.aead || (r.macLen == 16 && !r.hasMacEngine)) && (r.aead || r.hasMacEngine)

/-- block size 8…252 and a multiple of 8, a non-empty MAC/tag, never etm and aead at once, GCM ⇒ 16-byte tag
and no separate MAC -/
theorem suites_wellformed : (∀ r ∈ Gen.outRows, rowOk r = true) ∧ (∀ r ∈ Gen.inRows, rowOk r = true) := by
  decide +kernel

/-- both directions of one suite use the same framing parameters -/
theorem suites_directions_agree :
    Gen.outRows.map (fun r => (r.cipher, r.mac, r.block, r.macLen, r.etm, r.aead))
      = Gen.inRows.map (fun r => (r.cipher, r.mac, r.block, r.macLen, r.etm, r.aead)) := by
  decide +kernel

/-- For every negotiable suite and every payload length: padding 4…255 and the alignment the suite's framing
requires (length field included for classic, excluded for etm / GCM). -/
theorem every_suite_every_length :
    ∀ r ∈ Gen.outRows, ∀ l : Nat,
      let a := if (r.etm || r.aead) then 4 else 8
      4 ≤ padLen r.block a l ∧ padLen r.block a l ≤ 255 ∧
      (if (r.etm || r.aead) then (l + padLen r.block a l + 1) % r.block = 0
       else (4 + (l + padLen r.block a l + 1)) % r.block = 0) := by
  intro r hr l
  have hw := suites_wellformed.1 r hr
  simp only [rowOk, Bool.and_eq_true, decide_eq_true_eq] at hw
  obtain ⟨⟨⟨⟨⟨⟨h8, h252⟩, _⟩, _⟩, _⟩, _⟩, _⟩ := hw
  simp only
  have hb := pad_bounds r.block (if (r.etm || r.aead) then 4 else 8) l h8 h252
  refine ⟨hb.1, hb.2, ?_⟩
  by_cases hf : (r.etm || r.aead) = true
  · simp only [hf, if_true]; exact etm_body_mod _ _ (by omega)
  · simp only [hf]; exact classic_total_mod _ _ (by omega)

example : Gen.outRows.length = 72 ∧ Gen.inRows.length = 72 := by decide +kernel

end PV.Props.C03
