/-
  C38 — Peer protocol violations surface as SSH exceptions, not internal errors.  (partial)

  Proved: whatever class of exception the packet reader, a kex engine or any message handler raises in
  the transport thread, for whatever peer bytes, every API that reports the failure hands the
  application an SSHException, EOFError or socket error — because the generic clause of `run()`
  converts everything else.  Not proved (validated by structured fuzzing only): that code running on
  the *caller's* thread never raises an internal error from peer data, and which inputs make which
  handler fail.
-/
import PV.Model.Surface
import PV.Generated.C38
namespace PV.Props.C38
open PV.Surface

/-- no internal error class reaches the application through any reporting API, whatever was raised -/
theorem surfaced_is_allowed (api : Api) (raised : Exc) :
    ∀ e, observed true api raised = some e → e.allowed = true := by
  intro e h
  cases api <;> cases raised <;> simp [observed, surface, runCatch] at h <;> subst h <;> rfl

/-- an API that must raise always has something allowed to raise, even with nothing stored -/
theorem nothing_stored_is_ssh (api : Api) (h : api ≠ .getException) :
    surface api none = some .ssh := by
  cases api <;> simp_all [surface]

/-- classes that are already allowed pass through unchanged (EOF stays EOF, socket errors stay) -/
theorem allowed_preserved (raised : Exc) (h : raised.allowed = true) :
    runCatch true raised = raised := by
  cases raised <;> simp_all [runCatch, Exc.allowed]

/-- the old generic clause stored the exception as it was: an internal class escaped -/
theorem old_run_leaks_internal_witness (c : Nat) :
    observed false .getException (.internal c) = some (.internal c) ∧
    (Exc.internal c).allowed = false := by
  simp [observed, surface, runCatch, Exc.allowed]

/-- every place in the transport layer that stores into `saved_exception` (table regenerated from the
source on every run) stores an SSHException-family object, an EOFError/socket error caught as such, or
None — so the run() ladder modelled above is the only way an exception class gets chosen -/
theorem all_writers_store_allowed : ∀ s ∈ PV.Generated.C38.sites, s.safe = true := by decide

/-- the blocking `auth_*` calls read `self.auth_handler` repeatedly on the caller's thread while the transport
thread may be ending: no code resets it to None once the object exists (table regenerated from the source) -/
theorem auth_handler_never_cleared : ∀ s ∈ PV.Generated.C38.handlerSites, s.safe = true := by decide

/-- `channel_events` is shared by the transport thread (reply handlers) and the threads inside `open_channel`: every
mutation of it lies inside a `self.lock` region, so a reply arriving while a caller gives up cannot make either thread
raise KeyError (table regenerated from the source) -/
theorem channel_events_mutated_under_lock : ∀ s ∈ PV.Generated.C38.channelEventMutations, s.safe = true := by decide

/-- the table is not empty and contains the run() ladder -/
theorem run_ladder_in_table :
    (PV.Generated.C38.sites.filter fun s => s.file == "transport.py" && s.func == "run").length = 4 := by
  decide

example : observed true .startClient (.internal 7) = some .ssh := by decide
example : observed true .authWait .eof = some .ssh := by decide

end PV.Props.C38
