/-
  C02 — Tampered encrypted traffic is never accepted as different data.
  Same model as C01 (PV/Model/Packet.lean) with an ARBITRARY byte string as the wire.
  Helpers: PV/Model/PacketAuth.lean.  PARTIAL: unforgeability of the MAC / AEAD tag is the explicit hypothesis
  `hNoForge` of `prefix_of_sent_partial`; what is proved outright is that every delivery is preceded by a
  comparison of the complete tag over (sequence number ‖ length ‖ whole body).
-/
import PV.Model.PacketEpoch
import PV.Model.PacketTrunc
import PV.Generated.C03
namespace PV.Props.C02
open PV PV.Packet

/-- `util.constant_time_bytes_eq` accepts exactly equal byte strings (length test and every byte) -/
theorem tag_compare_is_equality (a b : Bytes) : ctEq a b = true ↔ a = b := ctEq_iff a b

example : ctEq [1, 2, 3, 4] [1, 2, 3] = false ∧ ctEq [1, 2, 3, 4] [1, 2, 3, 5] = false ∧ ctEq [1, 2] [1, 2] = true := by
  decide

/-- in the source (AST of `read_message`, regenerated on every run) each "Mismatched MAC" comparison is nested under
exactly one `if` — the test selecting the receive path (`self.__etm_in`, resp. `mac_size_in > 0 and not etm and not
aead`) — and never under a condition on the packet length; the model's branches (`readEtm`, `readClassic`) have the
same shape, so `accept_checks_tag_*` below hold for EVERY value of the length field -/
theorem mac_check_not_under_length_condition_generated :
    PV.Generated.C03.read_etm_mac_guard_depth = 1 ∧ PV.Generated.C03.read_classic_mac_guard_depth = 1 ∧
    PV.Generated.C03.read_mac_guards_are_the_mode_tests = true := by
  decide

/-- what the source MACs (AST of `compute_hmac`, `send_message`, `read_message`, regenerated on every run):
`compute_hmac` is ONE `HMAC(key, message, digest_class).digest()` over its whole `message` argument, the sender passes
`seqno ‖ (out | packet)` and both receive paths pass `seqno ‖ packet_size ‖ packet` — the complete packet, never a slice
or a prefix of it.  This is what `p.mac mk (be32 seq ++ …)` in the model (sender `encrypt`, receiver `readEtm` /
`readClassic`) stands for, for packets of every length. -/
theorem mac_covers_whole_packet_generated :
    PV.Generated.C03.compute_hmac_one_shot_over_whole_message = true ∧
    PV.Generated.C03.send_mac_input_is_seq_and_whole_packet = true ∧
    PV.Generated.C03.read_mac_input_is_seq_len_and_whole_packet = true := by
  decide

/-- **A rejection is final.** In the model a failed `read_message` leaves no receiver state behind (`Res.err`), so
`recvAll` delivers nothing after the first failure: the delivered list is exactly what was delivered before it. -/
theorem failure_is_absorbing {p : Prims} (r : Receiver p) (d rnd : Bytes) (ops : List (Op p)) (buf : Bytes) (e : Err)
    (h : runBuf (readMessage r) buf = .err e) :
    (recvAll r (.msg d rnd :: ops) buf).msgs = [] ∧ (recvAll r (.msg d rnd :: ops) buf).stop = some e := by
  simp only [recvAll, h, and_self]

/-- … and the real receiver has no state in which it could resynchronise behind a rejected packet (AST of
`class Packetizer`, regenerated on every run): the inbound sequence counter is written by `__init__`, `reset_seqno_in`
and ONE assignment in `read_message`, and that assignment comes after both "Mismatched MAC" checks and the AEAD
`decrypt` in statement order — a packet that fails authentication does not consume its sequence number, so every packet
behind it fails too (the oracle keeps reading after the first rejection and checks exactly that). -/
theorem seqno_stepped_only_after_authentication_generated :
    PV.Generated.C03.read_seqno_in_stepped_after_authentication = true ∧
    PV.Generated.C03.seqno_in_writers_are_init_reset_read = true := by
  decide

/-- **encrypt-then-MAC.** Whatever the bytes `buf` are: if `read_message` delivers, then `buf` starts with
`hdr ‖ more ‖ tag` where `hdr ‖ more` is the length field and the complete ciphertext body it announces, `tag` has
the full MAC length and *equals* `mac(key, seq_in ‖ hdr ‖ more)[:macLen]`; the message carries `seq_in`. -/
theorem accept_checks_tag_etm {p : Prims} (r : Receiver p) (st : p.CSt) (mk : p.MKey) (hc : r.ciph = .etm st mk)
    (buf rest : Bytes) (o : RecvOut p) (h : runBuf (readMessage r) buf = .ok o rest) :
    ∃ hdr more tag, buf = hdr ++ more ++ tag ++ rest ∧ hdr.length = r.block ∧ 4 ≤ hdr.length ∧
      (more.length : Int) = max ((beVal (hdr.take 4) : Int) - r.block + 4) 0 ∧
      tag.length = r.macLen ∧ tag = (p.mac mk (be32 r.seq ++ (hdr ++ more))).take r.macLen ∧
      o.auth = some ⟨r.seq, [], hdr ++ more⟩ ∧ o.msg.seqno = r.seq := by
  unfold readMessage at h
  obtain ⟨hdr, y, hw, hhl, h⟩ := runBuf_read_inv h
  rw [hc] at h
  obtain ⟨h4, more, tag, hy, htl, hml, htag, hf⟩ := readEtm_ok_inv h
  obtain ⟨ha, _, _, hsq, _⟩ := finish_ok_inv hf
  rw [mac_arg_eq _ hdr more h4] at htag
  rw [content_eq hdr more h4] at ha
  exact ⟨hdr, more, tag, by rw [hw, hy]; simp only [List.append_assoc], by simpa using hhl, h4, hml, htl, htag, ha, hsq⟩

/-- **classic (MAC over the plaintext).** If `read_message` delivers with a MAC configured, then `buf` starts with
`hdr ‖ c1 ‖ tag`, the blocking test passed, and the first `macLen` bytes of `tag` *equal*
`mac(key, seq_in ‖ Dec(hdr) ‖ Dec(c1))[:macLen]` — the whole decrypted packet including its length field. -/
theorem accept_checks_tag_classic {p : Prims} (r : Receiver p) (st : p.CSt) (mk : p.MKey)
    (hc : r.ciph = .classic st mk) (hm : 0 < r.macLen)
    (buf rest : Bytes) (o : RecvOut p) (h : runBuf (readMessage r) buf = .ok o rest) :
    ∃ hdr c1 tag, buf = hdr ++ c1 ++ tag ++ rest ∧ hdr.length = r.block ∧
      badBlocking (beVal ((p.dec st hdr).2.take 4)) ((p.dec st hdr).2.drop 4).length r.block = false ∧
      tag.take r.macLen
        = (p.mac mk (be32 r.seq ++ ((p.dec st hdr).2 ++ (p.dec (p.dec st hdr).1 c1).2))).take r.macLen ∧
      o.auth = some ⟨r.seq, [], (p.dec st hdr).2 ++ (p.dec (p.dec st hdr).1 c1).2⟩ ∧ o.msg.seqno = r.seq := by
  unfold readMessage at h
  obtain ⟨hdr, y, hw, hhl, h⟩ := runBuf_read_inv h
  rw [hc] at h
  obtain ⟨h4, hbb, c1, tag, hy, _, _, htag, hf⟩ := readClassic_ok_inv h hm
  obtain ⟨ha, _, _, hsq, _⟩ := finish_ok_inv hf
  rw [mac_arg_eq _ _ _ h4] at htag
  rw [content_eq _ _ h4] at ha
  exact ⟨hdr, c1, tag, by rw [hw, hy]; simp only [List.append_assoc], by simpa using hhl, hbb, htag, ha, hsq⟩

/-- **AES-GCM.** If `read_message` delivers, then `buf` starts with `hdr ‖ more`, and the AEAD `decrypt` with the
receiver's current nonce accepted `ciphertext ‖ tag = hdr[4:] ‖ more` with the length field as associated data. -/
theorem accept_checks_tag_aead {p : Prims} (r : Receiver p) (k : p.AKey) (iv : Bytes) (hc : r.ciph = .aead k iv)
    (buf rest : Bytes) (o : RecvOut p) (h : runBuf (readMessage r) buf = .ok o rest) :
    ∃ hdr more plain, buf = hdr ++ more ++ rest ∧ hdr.length = r.block ∧
      p.adec k iv (hdr.drop 4 ++ more) (hdr.take 4) = some plain ∧
      o.auth = some ⟨r.seq, iv, hdr ++ more⟩ ∧ o.msg.seqno = r.seq := by
  unfold readMessage at h
  obtain ⟨hdr, y, hw, hhl, h⟩ := runBuf_read_inv h
  rw [hc] at h
  obtain ⟨h4, more, plain, iv', hy, hd, _, hf⟩ := readAead_ok_inv h
  obtain ⟨ha, _, _, hsq, _⟩ := finish_ok_inv hf
  rw [← List.append_assoc, List.take_append_drop] at ha
  exact ⟨hdr, more, plain, by rw [hw, hy]; simp only [List.append_assoc], by simpa using hhl, hd, ha, hsq⟩

/-- **Delivered ⊑ sent (partial: no-forgery is a hypothesis).**
Sender and receiver keyed alike with an authenticating configuration (not "no cipher", classic with a non-empty
MAC), the sender put `ops` on the wire, the adversary hands the receiver ANY byte string `w`.  If — `hNoForge` —
every record the receiver's verifications accepted is the record the sender authenticated at the same position
(sequence number / nonce and the complete authenticated bytes), then the messages delivered are a prefix of the
messages sent (same type, payload, sequence number), and the receiver either stopped with an error / end of
data or delivered all of them.  FULL statement (not provable: it is a cryptographic property of HMAC / GCM, not
of paramiko): the same without `hNoForge`. -/
theorem prefix_of_sent_partial {p : Prims} (W : Laws p) (Bj : CipherBij p W.blk W.Paired) (ops : List (Op p))
    (s : Sender p) (r : Receiver p) (hp : PairedSt W s r) (hA : AuthCfg r.ciph r.macLen)
    (hok : ∀ op ∈ ops, OpOk W op ∧ OpAuth op)
    (s' : Sender p) (wire : Bytes) (log : List Auth) (hs : sendAll s ops = .ok (s', wire, log)) (w : Bytes)
    (hNoForge : ∀ (k : Nat) (e : Auth), (recvAll r ops w).auths[k]? = some e → log[k]? = some e) :
    (recvAll r ops w).msgs <+: msgsOf s.seq ops ∧
    ((∃ e, (recvAll r ops w).stop = some e) ∨ (recvAll r ops w).msgs = msgsOf s.seq ops) := by
  obtain ⟨h1, h2⟩ := prefix_seq W Bj ops s r hp hA hok s' wire log hs w hNoForge
  refine ⟨h1, ?_⟩
  cases hst : (recvAll r ops w).stop with
  | none => exact Or.inr (h2 hst)
  | some e => exact Or.inl ⟨e, rfl⟩

/-- **Set-membership form of the hypothesis** for one key epoch of a MAC mode (classic with a MAC, or
encrypt-then-MAC), message-only histories of at most 2^32 packets: it is enough that every record the receiver's
verifications accept was authenticated by the sender *at some time* (`hMem`, the usual shape of MAC
unforgeability).  Because the sequence number is part of every authenticated record (`accept_checks_tag_*`) and
numbers do not repeat within 2^32 packets, replayed, reordered or dropped packets then cannot verify, and the
delivered messages are a prefix of the sent ones. -/
theorem prefix_of_sent_membership_partial {p : Prims} (W : Laws p) (Bj : CipherBij p W.blk W.Paired)
    (ops : List (Op p)) (s : Sender p) (r : Receiver p) (hp : PairedSt W s r)
    (hm : MacModeIn r.ciph r.macLen) (hmo : MsgOnly ops) (hlen : ops.length ≤ 4294967296)
    (hlt : s.seq < 4294967296)
    (s' : Sender p) (wire : Bytes) (log : List Auth) (hs : sendAll s ops = .ok (s', wire, log)) (w : Bytes)
    (hMem : ∀ e ∈ (recvAll r ops w).auths, e ∈ log) :
    (recvAll r ops w).msgs <+: msgsOf s.seq ops ∧
    ((∃ e, (recvAll r ops w).stop = some e) ∨ (recvAll r ops w).msgs = msgsOf s.seq ops) := by
  have hA : AuthCfg r.ciph r.macLen := by
    cases hrc : r.ciph with
    | plain => rw [hrc] at hm; exact absurd hm (by simp [MacModeIn])
    | aead _ _ => trivial
    | etm _ _ => trivial
    | classic _ _ => rw [hrc] at hm; exact hm
  have hok : ∀ op ∈ ops, OpOk W op ∧ OpAuth op := by
    intro op hop
    obtain ⟨d, rnd, rfl⟩ := hmo op hop
    exact ⟨trivial, trivial⟩
  exact prefix_of_sent_partial W Bj ops s r hp hA hok s' wire log hs w
    (positional_of_membership W ops s r hp hm hmo hlen hlt s' wire log hs w hMem)

/-- **Truncation, unconditionally** (no cryptographic hypothesis): a receiver that is handed only the first `k`
bytes of the honest stream — the tail was deleted, or has not arrived yet — delivers a prefix of the sent messages
and then has either finished or stopped with EOF (it waits for more data); it never fails differently and never
delivers anything else.  Every history, every `k`. -/
theorem truncated_stream_prefix {p : Prims} (W : Laws p) (ops : List (Op p)) (s : Sender p) (r : Receiver p)
    (hp : PairedSt W s r) (hok : ∀ op ∈ ops, OpOk W op)
    (s' : Sender p) (wire : Bytes) (log : List Auth) (hs : sendAll s ops = .ok (s', wire, log))
    (t : Bytes) (k : Nat) :
    (recvAll r ops ((wire ++ t).take k)).msgs <+: msgsOf s.seq ops ∧
    ((recvAll r ops ((wire ++ t).take k)).stop = none ∨ (recvAll r ops ((wire ++ t).take k)).stop = some .eof) :=
  truncated_seq W ops s r hp hok s' wire log hs t k

/-- `hNoForge` is satisfiable: on the untampered wire (followed by anything) the receiver verifies exactly the
sender's records -/
theorem honest_stream_satisfies_noforge {p : Prims} (W : Laws p) (ops : List (Op p)) (s : Sender p) (r : Receiver p)
    (hp : PairedSt W s r) (hok : ∀ op ∈ ops, OpOk W op)
    (s' : Sender p) (wire : Bytes) (log : List Auth) (hs : sendAll s ops = .ok (s', wire, log)) (t : Bytes) :
    (recvAll r ops (wire ++ t)).auths = log :=
  (roundtrip_seq W ops s r hp hok s' wire log hs t).2.2.2.1

/-! ## non-vacuity: toy primitives, an authenticating configuration, a tampered stream -/

def toyLaws : Laws toyPrims where
  blk := fun st => 8 * (st.1 % 4 + 1)
  Paired := toyPaired
  ZPaired := fun a b => a = b
  tagLen := 16
  ciph := toyCipherLaws _ (fun _ _ => rfl)
  aead := toyAeadLaws
  comp := toyCompLaws

private def exS : Sender toyPrims := { block := 16, macLen := 12, ciph := .etm (1, 0) [7, 7], seq := 3, kexDone := true }
private def exR : Receiver toyPrims := { block := 16, macLen := 12, ciph := .etm (1, 0) [7, 7], seq := 3, kexDone := true }
private def exOps : List (Op toyPrims) := [.msg [20, 1, 2] [], .msg [21] [9], .msg [22, 5] []]

example : PairedSt toyLaws exS exR ∧ AuthCfg exR.ciph exR.macLen ∧ CipherBij toyPrims toyLaws.blk toyLaws.Paired ∧
    (∃ res, sendAll exS exOps = .ok res) :=
  ⟨⟨rfl, rfl, rfl, rfl, by decide, ⟨rfl, rfl, rfl, toyMacOk _ _ (by decide)⟩, trivial⟩, trivial,
   toyCipherBij _, ⟨_, rfl⟩⟩

/-- flip one bit in the second packet of the toy stream: the model delivers the first message only and stops with
`macMismatch`; dropping the second packet's last byte instead makes it wait (`eof`) -/
example : (match sendAll exS exOps with
    | .ok (_, w, _) =>
      let flipped := w.take 40 ++ [(w.getD 40 0) ^^^ 1] ++ w.drop 41
      let l := recvAll exR exOps flipped
      let l2 := recvAll exR exOps (w.take 50)
      (l.msgs.map (fun m => (m.cmd, m.seqno)), l.stop, l2.msgs.map (fun m => (m.cmd, m.seqno)), l2.stop)
    | .error _ => ([], none, [], none)) = ([(20, 3)], some .macMismatch, [(20, 3)], some .eof) := by
  decide +kernel

end PV.Props.C02
