/-
  C13 — Blocking calls return once the connection ends.  (partial: wake-up latency, OS signalling and
  the socket layer are outside the model; see DESIGN.md §8 C13.)

  Full statement: for every blocking API, every way the connection ends and every interleaving of the
  caller with the shutdown path (call made before, during or after the loss), the call returns or raises
  promptly.  Proved here for the model of PV/Model/Blocking.lean: every row of `apiTable`, both shutdown
  paths, every schedule of any length.
-/
import PV.Model.Blocking
import PV.Generated.C13
namespace PV.Props.C13
open PV.Blocking

/-- all states reachable from `init` in at most `n` steps (breadth first, duplicates removed) -/
def reach (api : Api) (l : Loss) : Nat → List St
  | 0 => [init]
  | n + 1 =>
    let r := reach api l n
    (r ++ r.flatMap fun s => [step api l s .caller, step api l s .loss]).eraseDups

/-- 14 rounds saturate every row (checked by `closed` below) -/
def R (api : Api) (l : Loss) : List St := reach api l 14

private theorem init_mem : ∀ api ∈ apiTable, ∀ l ∈ [Loss.remote, Loss.localClose], init ∈ R api l := by
  decide +kernel

private theorem closed : ∀ api ∈ apiTable, ∀ l ∈ [Loss.remote, Loss.localClose],
    ∀ s ∈ R api l, ∀ t ∈ [Tid.caller, Tid.loss], step api l s t ∈ R api l := by
  decide +kernel

private theorem prompt_on_R : ∀ api ∈ apiTable, ∀ l ∈ [Loss.remote, Loss.localClose],
    ∀ s ∈ R api l, lossFinished api l s = true → returnsPromptly api l s = true := by
  decide +kernel

private theorem loss_mem (l : Loss) : l ∈ [Loss.remote, Loss.localClose] := by
  cases l <;> simp

private theorem tid_mem (t : Tid) : t ∈ [Tid.caller, Tid.loss] := by
  cases t <;> simp

private theorem run_mem (api : Api) (hapi : api ∈ apiTable) (l : Loss) (s : St) (hs : s ∈ R api l)
    (sch : List Tid) : run api l s sch ∈ R api l := by
  induction sch generalizing s with
  | nil => exact hs
  | cons t ts ih =>
    exact ih _ (closed api hapi l (loss_mem l) s hs t (tid_mem t))

/-- **Every blocking call returns once the connection has ended** — for every API row, both shutdown
paths and every interleaving of the caller with the shutdown (so: calls made before, during and after
the loss): as soon as the shutdown path has run to its end, two more steps of the caller complete the
call. -/
theorem returns_after_loss (api : Api) (hapi : api ∈ apiTable) (l : Loss) (sch : List Tid)
    (hfin : lossFinished api l (run api l init sch) = true) :
    returnsPromptly api l (run api l init sch) = true :=
  prompt_on_R api hapi l (loss_mem l) _ (run_mem api hapi l init (init_mem api hapi l (loss_mem l)) sch) hfin

/-- …and it stays returned: `done` is absorbing under any further schedule -/
theorem done_is_final (api : Api) (l : Loss) (s : St) (h : s.pc = .done) (sch : List Tid) :
    (run api l s sch).pc = .done := by
  induction sch generalizing s with
  | nil => exact h
  | cons t ts ih =>
    apply ih
    cases t with
    | caller => simp [step, stepCaller, h]
    | loss =>
      simp only [step, stepLoss]
      split <;> simp_all

-- non-vacuity: a call blocked before a local close() — the shutdown finishes, the premise holds
example : lossFinished (pollRow "open_channel") .localClose
    (run (pollRow "open_channel") .localClose init [.caller, .loss]) = true := by decide
example : (run (pollRow "open_channel") .localClose init [.caller, .loss]).pc = .waiting := by decide

/-! ### the defects that were repaired: witnesses about the old rows -/

private theorem stuck_forever (api : Api) (l : Loss) (s : St) (hpc : s.pc = .waiting)
    (hw : wakeable api s = false) (hfin : lossFinished api l s = true) (sch : List Tid) :
    run api l s sch = s := by
  induction sch with
  | nil => rfl
  | cons t ts ih =>
    have : step api l s t = s := by
      cases t with
      | caller => simp [step, stepCaller, hpc, hw]
      | loss =>
        simp only [step, stepLoss]
        have : (api.prog l)[s.lossPc]? = none := by
          simp only [lossFinished, decide_eq_true_eq] at hfin
          exact List.getElem?_eq_none hfin
        simp [this]
    simp only [run, List.foldl_cons] at ih ⊢
    rw [this]; exact ih

/-- old `accept()`: blocked when the application calls `close()` — never woken, under any later schedule -/
theorem accept_old_hangs_on_local_close_witness (sch : List Tid) :
    (run acceptOld .localClose init ([.caller, .loss] ++ sch)).pc = .waiting := by
  have h := stuck_forever acceptOld .localClose (run acceptOld .localClose init [.caller, .loss])
    (by decide) (by decide) (by decide) sch
  simp only [run, List.foldl_append] at h ⊢
  rw [h]; decide

/-- old `accept()` called after the connection was lost (remote path): waits for a notify that already happened -/
theorem accept_old_hangs_after_loss_witness (sch : List Tid) :
    (run acceptOld .remote init ([.loss, .loss, .caller] ++ sch)).pc = .waiting := by
  have h := stuck_forever acceptOld .remote (run acceptOld .remote init [.loss, .loss, .caller])
    (by decide) (by decide) (by decide) sch
  simp only [run, List.foldl_append] at h ⊢
  rw [h]; decide

/-- old `ensure_session()`: polls for SERVICE_ACCEPT without looking at `active` — spins for ever -/
theorem ensure_session_old_spins_witness (n : Nat) :
    (run ensureSessionOld .remote init ([.caller, .loss] ++ List.replicate n .caller)).pc = .waiting := by
  have key : ∀ n, run ensureSessionOld .remote
      { active := false, flag := false, lossPc := 1, pc := .waiting, notified := false }
      (List.replicate n .caller) =
      { active := false, flag := false, lossPc := 1, pc := .waiting, notified := false } := by
    intro n
    induction n with
    | zero => rfl
    | succ k ih =>
      simp only [List.replicate_succ, run, List.foldl_cons] at ih ⊢
      exact ih
  simp only [run, List.foldl_append]
  have h0 : List.foldl (step ensureSessionOld .remote) init [.caller, .loss] =
      { active := false, flag := false, lossPc := 1, pc := .waiting, notified := false } := by decide
  rw [h0]
  have := key n
  simp only [run] at this
  rw [this]

/-- a channel request as it was, racing the loss: the openness check passes, the connection is lost (the event is
set for the last time), then `_event_pending()` clears it — the call waits for ever, under any later schedule -/
theorem channel_request_old_hangs_when_loss_races_the_call_witness (sch : List Tid) :
    (run channelRequestOld .remote init ([.caller, .loss, .loss, .loss, .caller] ++ sch)).pc = .waiting := by
  have h := stuck_forever channelRequestOld .remote
    (run channelRequestOld .remote init [.caller, .loss, .loss, .loss, .caller])
    (by decide) (by decide) (by decide) sch
  simp only [run, List.foldl_append] at h ⊢
  rw [h]; decide

/-- `accept()` with the wake-up issued before `active = False`: a call entered between the two parks for ever -/
theorem accept_notify_before_inactive_hangs_witness (sch : List Tid) :
    (run acceptNotifyFirst .remote init ([.loss, .caller, .loss] ++ sch)).pc = .waiting := by
  have h := stuck_forever acceptNotifyFirst .remote (run acceptNotifyFirst .remote init [.loss, .caller, .loss])
    (by decide) (by decide) (by decide) sch
  simp only [run, List.foldl_append] at h ⊢
  rw [h]; decide

/-! ### the rows take their wait shapes and wake-ups from the source: sanity of the generated tables -/

/-- every API the property names has a row, and no wait site was left unclassified -/
theorem every_api_has_a_row :
    ∀ n ∈ ["open_channel", "global_request", "renegotiate_keys", "start_client", "auth_wait_for_response",
           "send_user_message", "channel_request", "recv_exit_status", "recv", "send", "accept", "ensure_session"],
      ∃ api ∈ apiTable, api.name = n := by decide

theorem no_unclassified_wait_site :
    ∀ w ∈ PV.Generated.C13.waitShapes, w.kind ∈ ["poll", "event", "cvLoop", "cvOnce"] := by decide


/-- on both paths the transport is marked inactive, and on both `accept` waiters are notified after that -/
theorem accept_is_notified_after_inactive :
    srcProg "self.server_accept_cv" .remote = [.setInactive, .notify] ∧
    srcProg "self.server_accept_cv" .localClose = [.setInactive, .notify] := by
  decide

/-- both paths close every channel (flag + notify_all reach channel waiters) -/
theorem both_paths_close_channels :
    ∀ obj ∈ ["self._cv", "self.out_buffer_cv"],
      LAct.setFlag ∈ srcProg obj .remote ∧ LAct.notify ∈ srcProg obj .remote ∧
      LAct.setFlag ∈ srcProg obj .localClose ∧ LAct.notify ∈ srcProg obj .localClose := by decide

/-- closing a channel wakes every kind of channel waiter unconditionally (statements of `_set_closed` and
    `BufferedPipe.close` outside any condition, regenerated from the source) -/
theorem closing_a_channel_wakes_every_waiter :
    chanEffect "self.event" = [.setFlag] ∧ chanEffect "self.status_event" = [.setFlag] ∧
    chanEffect "self._cv" = [.setFlag, .notify] ∧ chanEffect "self.out_buffer_cv" = [.setFlag, .notify] := by decide

/-! ### any number of callers blocked on the same object (notify_all reaches every one) -/

private theorem table_clear_guarded : ∀ api ∈ apiTable, api.clear ≠ .unguarded := by decide

private theorem stepCaller_shared (api : Api) (hcl : api.clear ≠ .unguarded) (s : St) :
    (stepCaller api s).active = s.active ∧ (stepCaller api s).flag = s.flag ∧
    (stepCaller api s).lossPc = s.lossPc := by
  have hcl' : (api.clear == .unguarded) = false := by
    cases h : api.clear <;> simp_all
  unfold stepCaller
  split
  · exact ⟨rfl, rfl, rfl⟩
  · split
    · exact ⟨rfl, rfl, rfl⟩
    · split
      · exact ⟨rfl, rfl, rfl⟩
      · split <;> exact ⟨rfl, rfl, rfl⟩
  · simp only [hcl']
    exact ⟨rfl, rfl, rfl⟩
  · split
    · exact ⟨rfl, rfl, rfl⟩
    · split
      · exact ⟨rfl, rfl, rfl⟩
      · split
        · exact ⟨rfl, rfl, rfl⟩
        · split <;> exact ⟨rfl, rfl, rfl⟩

private theorem notifyAll_get (cs : List (Pc × Bool)) (i : Nat) :
    (notifyCallers true cs)[i]? = (cs[i]?).map fun c => (c.1, c.2 || (c.1 == .waiting)) := by
  induction cs generalizing i with
  | nil => simp [notifyCallers]
  | cons c rest ih =>
    obtain ⟨pc, nt⟩ := c
    cases i with
    | zero =>
      simp only [notifyCallers]
      split <;> simp_all
    | succ k =>
      simp only [notifyCallers]
      split <;> simp [ih]

/-- caller `i` of the many-caller system evolves exactly like the single caller of `run` under the
    projected schedule: with `notify_all`, callers do not interact -/
private theorem proj_run (api : Api) (hcl : api.clear ≠ .unguarded) (l : Loss) (i : Nat) (sch : List MTid) :
    ∀ (m : MSt) (c : Pc × Bool), m.cs[i]? = some c →
    ∃ c', (mrun api l true m sch).cs[i]? = some c' ∧
      (mrun api l true m sch).view c' = run api l (m.view c) (projSched i sch) := by
  induction sch with
  | nil => intro m c h; exact ⟨c, h, rfl⟩
  | cons t ts ih =>
    intro m c h
    cases t with
    | loss =>
      simp only [mrun, List.foldl_cons, projSched, run]
      have key : ∃ c', (mstepLoss api l true m).cs[i]? = some c' ∧
          (mstepLoss api l true m).view c' = stepLoss api l (m.view c) := by
        unfold mstepLoss stepLoss
        simp only [MSt.view]
        cases hp : (api.prog l)[m.lossPc]? with
        | none => exact ⟨c, h, rfl⟩
        | some a =>
          cases a with
          | setInactive => exact ⟨c, h, rfl⟩
          | setFlag => exact ⟨c, h, rfl⟩
          | notify =>
            refine ⟨(c.1, c.2 || (c.1 == .waiting)), ?_, rfl⟩
            simp [notifyAll_get, h]
      obtain ⟨c1, h1, hv⟩ := key
      obtain ⟨c2, h2, hv2⟩ := ih (mstepLoss api l true m) c1 h1
      refine ⟨c2, h2, ?_⟩
      simp only [mrun, run, step, mstep] at hv2 ⊢
      rw [hv2, hv]
    | caller j =>
      simp only [mrun, List.foldl_cons, projSched]
      by_cases hj : j = i
      · subst hj
        simp only [if_true, run, List.foldl_cons, step]
        have h1 : (mstep api l true m (.caller j)).cs[j]? =
            some ((stepCaller api (m.view c)).pc, (stepCaller api (m.view c)).notified) := by
          simp only [mstep, h]
          have hlt : j < m.cs.length := by
            rcases Nat.lt_or_ge j m.cs.length with hl | hl
            · exact hl
            · rw [List.getElem?_eq_none hl] at h; cases h
          simp [List.getElem?_set, hlt]
        have hv : (mstep api l true m (.caller j)).view
            ((stepCaller api (m.view c)).pc, (stepCaller api (m.view c)).notified) =
            stepCaller api (m.view c) := by
          obtain ⟨ha, hf, hl⟩ := stepCaller_shared api hcl (m.view c)
          simp only [mstep, h, MSt.view] at ha hf hl ⊢
          cases hs : stepCaller api { active := m.active, flag := m.flag, lossPc := m.lossPc, pc := c.1, notified := c.2 }
          simp_all
        obtain ⟨c2, h2, hv2⟩ := ih _ _ h1
        refine ⟨c2, h2, ?_⟩
        simp only [mrun, run] at hv2 ⊢
        rw [hv2, hv]
      · simp only [hj, if_false]
        have h1 : (mstep api l true m (.caller j)).cs[i]? = some c := by
          simp only [mstep]
          cases hc : m.cs[j]? with
          | none => exact h
          | some cj =>
            simp only
            rw [List.getElem?_set_ne (by omega)]
            exact h
        have hv : (mstep api l true m (.caller j)).view c = m.view c := by
          simp only [mstep]
          cases hc : m.cs[j]? <;> rfl
        obtain ⟨c2, h2, hv2⟩ := ih _ _ h1
        refine ⟨c2, h2, ?_⟩
        simp only [mrun] at hv2 ⊢
        rw [hv2, hv]

/-- **Every one of any number of callers** blocked on the same channel/transport object returns once the
shutdown path has finished, under every interleaving of all callers with the shutdown. -/
theorem all_callers_return (api : Api) (hapi : api ∈ apiTable) (l : Loss) (n i : Nat) (hi : i < n)
    (sch : List MTid)
    (hfin : (api.prog l).length ≤ (mrun api l true (minit n) sch).lossPc) :
    ∃ c, (mrun api l true (minit n) sch).cs[i]? = some c ∧
      returnsPromptly api l ((mrun api l true (minit n) sch).view c) = true := by
  have h0 : (minit n).cs[i]? = some (.start, false) := by
    simp [minit, List.getElem?_replicate, hi]
  obtain ⟨c, hc, hv⟩ := proj_run api (table_clear_guarded api hapi) l i sch (minit n) (.start, false) h0
  refine ⟨c, hc, ?_⟩
  have hinit : (minit n).view (.start, false) = init := rfl
  rw [hv, hinit]
  apply returns_after_loss api hapi l
  have : (run api l init (projSched i sch)).lossPc = (mrun api l true (minit n) sch).lossPc := by
    rw [← hinit, ← hv]; rfl
  simp only [lossFinished, decide_eq_true_eq, this]
  exact hfin

/-- the `send` row as it would be with `notify()` instead of `notify_all()` in `_set_closed` -/
def sendRow : Api :=
  { name := "send", wait := .cvLoop, precheck := false, loopChecksActive := false,
    prog := fun _ => [.setInactive, .setFlag, .notify] }

/-- with `notify()` (one waiter woken) the second of two blocked senders is never woken -/
theorem notify_one_strands_second_sender_witness :
    let m := mrun sendRow .remote false (minit 2) [.caller 0, .caller 1, .loss, .loss, .loss, .caller 0, .caller 1, .caller 1]
    m.lossPc = 3 ∧ m.cs[0]? = some (.done, true) ∧ m.cs[1]? = some (.waiting, false) := by
  decide

/-! ### no lock is left held by a call that has ended

The rows above treat the locks a call takes on its way (Channel.lock, Transport.lock, clear_to_send_lock, the
BufferedPipe lock, the SFTP client lock) as free once their holder has returned or raised.  That is a fact about
the code: every explicit `acquire()` in the files behind the blocking APIs is released on every path, exceptions
included (table regenerated from the AST on every run by pv/lib_lockdisc.py). -/

theorem locks_released_on_every_path : ∀ s ∈ PV.Generated.C13.lockSites, s.safe = true := by decide

/-- the shutdown paths take the channel lock, the transport lock and the pipe locks (`_unlink`, the accept
notify, `BufferedPipe.close`): the model lets the loss thread always make its next step, which needs that no caller
waits for the send gate (or sleeps, or joins) with one of those locks held — only `Condition.wait` on a condition
built over the very lock held, which releases it (table regenerated from the AST, helpers followed two levels) -/
theorem no_caller_waits_with_a_teardown_lock_held :
    ∀ s ∈ PV.Generated.C13.blockingUnderLock, s.safe = true := by decide

/-- both shutdown paths close the channels they find in the transport's channel map (`unlink_channels`), so the rows
above need every open channel to be in it: the only removals are a channel unlinking itself as it closes and the
refusal of an open that is still pending (table regenerated from the AST) -/
theorem open_channels_stay_in_the_map :
    ∀ s ∈ PV.Generated.C13.channelMapDeletes, s.safe = true := by decide

theorem channel_map_has_its_two_removals : PV.Generated.C13.channelMapDeletes.length ≥ 2 := by decide

/-- the transport thread's reads time out on the transport's own short period whatever timeout the application had
    put on the socket: a local `close()` is noticed within that period (the thread is not woken by it) -/
theorem transport_polls_its_own_socket_period : PV.Generated.C13.socketPollForced = true := by decide

theorem lock_table_covers_the_send_gate :
    (PV.Generated.C13.lockSites.filter fun s => s.lock == "self.clear_to_send_lock").length ≥ 4 := by decide

/-! ### ProxyCommand.recv at end of file -/

/-- repaired loop: whatever the child wrote before exiting, `recv` returns (possibly short / empty) -/
theorem proxy_recv_fixed_returns (size have_ : Nat) (reads : List Nat) :
    ∃ r, proxyRecv true size have_ reads (reads.length + 1) = some r := by
  induction reads generalizing have_ with
  | nil =>
    simp only [List.length_nil, Nat.zero_add, proxyRecv]
    by_cases h : size ≤ have_
    · exact ⟨have_, by simp [h]⟩
    · exact ⟨have_, by simp [h, proxyIter]⟩
  | cons g gs ih =>
    simp only [List.length_cons, proxyRecv]
    by_cases h : size ≤ have_
    · exact ⟨have_, by simp [h]⟩
    · simp only [h, if_false]
      cases hi : proxyIter true size have_ g with
      | some r => exact ⟨r, rfl⟩
      | none => exact ih (have_ + g)

/-- old loop: once the child is at EOF with the request unsatisfied, no number of iterations ends it -/
theorem proxy_recv_old_spins_witness (size have_ fuel : Nat) (h : have_ < size) :
    proxyRecv false size have_ [] fuel = none := by
  induction fuel with
  | zero => simp [proxyRecv]; omega
  | succ k ih =>
    simp only [proxyRecv]
    have : ¬ size ≤ have_ := by omega
    simp [this, proxyIter, ih]

end PV.Props.C13
