/-
  C13 — Blocking calls return once the connection ends.  (partial: wake-up latency, OS signalling and
  the socket layer are outside the model; see DESIGN.md §8 C13.)

  Full statement: for every blocking API, every way the connection ends and every interleaving of the
  caller with the shutdown path (call made before, during or after the loss), the call returns or raises
  promptly.  Proved here for the model of PV/Model/Blocking.lean: every row of `apiTable`, both shutdown
  paths, every schedule of any length.
-/
import PV.Model.Blocking
namespace PV.Props.C13
open PV.Blocking

/-- all states reachable from `init` in at most `n` steps (breadth first, duplicates removed) -/
def reach (api : Api) (l : Loss) : Nat → List St
  | 0 => [init]
  | n + 1 =>
    let r := reach api l n
    (r ++ r.flatMap fun s => [step api l s .caller, step api l s .loss]).eraseDups

/-- 10 rounds saturate every row (checked by `closed` below) -/
def R (api : Api) (l : Loss) : List St := reach api l 10

private theorem init_mem : ∀ api ∈ apiTable, ∀ l ∈ [Loss.remote, Loss.localClose], init ∈ R api l := by
  decide +kernel

private theorem closed : ∀ api ∈ apiTable, ∀ l ∈ [Loss.remote, Loss.localClose],
    ∀ s ∈ R api l, ∀ t ∈ [Tid.caller, Tid.loss], step api l s t ∈ R api l := by
  decide +kernel

private theorem prompt_on_R : ∀ api ∈ apiTable, ∀ l ∈ [Loss.remote, Loss.localClose],
    ∀ s ∈ R api l, lossFinished api l s = true → returnsPromptly api l s = true := by
  decide +kernel

private theorem loss_mem (l : Loss) : l ∈ [Loss.remote, Loss.localClose] := by
  cases l <;> simp

private theorem tid_mem (t : Tid) : t ∈ [Tid.caller, Tid.loss] := by
  cases t <;> simp

private theorem run_mem (api : Api) (hapi : api ∈ apiTable) (l : Loss) (s : St) (hs : s ∈ R api l)
    (sch : List Tid) : run api l s sch ∈ R api l := by
  induction sch generalizing s with
  | nil => exact hs
  | cons t ts ih =>
    exact ih _ (closed api hapi l (loss_mem l) s hs t (tid_mem t))

/-- **Every blocking call returns once the connection has ended** — for every API row, both shutdown
paths and every interleaving of the caller with the shutdown (so: calls made before, during and after
the loss): as soon as the shutdown path has run to its end, two more steps of the caller complete the
call. -/
theorem returns_after_loss (api : Api) (hapi : api ∈ apiTable) (l : Loss) (sch : List Tid)
    (hfin : lossFinished api l (run api l init sch) = true) :
    returnsPromptly api l (run api l init sch) = true :=
  prompt_on_R api hapi l (loss_mem l) _ (run_mem api hapi l init (init_mem api hapi l (loss_mem l)) sch) hfin

/-- …and it stays returned: `done` is absorbing under any further schedule -/
theorem done_is_final (api : Api) (l : Loss) (s : St) (h : s.pc = .done) (sch : List Tid) :
    (run api l s sch).pc = .done := by
  induction sch generalizing s with
  | nil => exact h
  | cons t ts ih =>
    apply ih
    cases t with
    | caller => simp [step, stepCaller, h]
    | loss =>
      simp only [step, stepLoss]
      split <;> simp_all

-- non-vacuity: a call blocked before a local close() — the shutdown finishes, the premise holds
example : lossFinished (pollRow "open_channel") .localClose
    (run (pollRow "open_channel") .localClose init [.caller, .loss]) = true := by decide
example : (run (pollRow "open_channel") .localClose init [.caller, .loss]).pc = .waiting := by decide

/-! ### the defects that were repaired: witnesses about the old rows -/

private theorem stuck_forever (api : Api) (l : Loss) (s : St) (hpc : s.pc = .waiting)
    (hw : wakeable api s = false) (hfin : lossFinished api l s = true) (sch : List Tid) :
    run api l s sch = s := by
  induction sch with
  | nil => rfl
  | cons t ts ih =>
    have : step api l s t = s := by
      cases t with
      | caller => simp [step, stepCaller, hpc, hw]
      | loss =>
        simp only [step, stepLoss]
        have : (api.prog l)[s.lossPc]? = none := by
          simp only [lossFinished, decide_eq_true_eq] at hfin
          exact List.getElem?_eq_none hfin
        simp [this]
    simp only [run, List.foldl_cons] at ih ⊢
    rw [this]; exact ih

/-- old `accept()`: blocked when the application calls `close()` — never woken, under any later schedule -/
theorem accept_old_hangs_on_local_close_witness (sch : List Tid) :
    (run acceptOld .localClose init ([.caller, .loss] ++ sch)).pc = .waiting := by
  have h := stuck_forever acceptOld .localClose (run acceptOld .localClose init [.caller, .loss])
    (by decide) (by decide) (by decide) sch
  simp only [run, List.foldl_append] at h ⊢
  rw [h]; decide

/-- old `accept()` called after the connection was lost (remote path): waits for a notify that already happened -/
theorem accept_old_hangs_after_loss_witness (sch : List Tid) :
    (run acceptOld .remote init ([.loss, .loss, .caller] ++ sch)).pc = .waiting := by
  have h := stuck_forever acceptOld .remote (run acceptOld .remote init [.loss, .loss, .caller])
    (by decide) (by decide) (by decide) sch
  simp only [run, List.foldl_append] at h ⊢
  rw [h]; decide

/-- old `ensure_session()`: polls for SERVICE_ACCEPT without looking at `active` — spins for ever -/
theorem ensure_session_old_spins_witness (n : Nat) :
    (run ensureSessionOld .remote init ([.caller, .loss] ++ List.replicate n .caller)).pc = .waiting := by
  have key : ∀ n, run ensureSessionOld .remote
      { active := false, flag := false, lossPc := 1, pc := .waiting, notified := false }
      (List.replicate n .caller) =
      { active := false, flag := false, lossPc := 1, pc := .waiting, notified := false } := by
    intro n
    induction n with
    | zero => rfl
    | succ k ih =>
      simp only [List.replicate_succ, run, List.foldl_cons] at ih ⊢
      exact ih
  simp only [run, List.foldl_append]
  have h0 : List.foldl (step ensureSessionOld .remote) init [.caller, .loss] =
      { active := false, flag := false, lossPc := 1, pc := .waiting, notified := false } := by decide
  rw [h0]
  have := key n
  simp only [run] at this
  rw [this]

/-! ### ProxyCommand.recv at end of file -/

/-- repaired loop: whatever the child wrote before exiting, `recv` returns (possibly short / empty) -/
theorem proxy_recv_fixed_returns (size have_ : Nat) (reads : List Nat) :
    ∃ r, proxyRecv true size have_ reads (reads.length + 1) = some r := by
  induction reads generalizing have_ with
  | nil =>
    simp only [List.length_nil, Nat.zero_add, proxyRecv]
    by_cases h : size ≤ have_
    · exact ⟨have_, by simp [h]⟩
    · exact ⟨have_, by simp [h, proxyIter]⟩
  | cons g gs ih =>
    simp only [List.length_cons, proxyRecv]
    by_cases h : size ≤ have_
    · exact ⟨have_, by simp [h]⟩
    · simp only [h, if_false]
      cases hi : proxyIter true size have_ g with
      | some r => exact ⟨r, rfl⟩
      | none => exact ih (have_ + g)

/-- old loop: once the child is at EOF with the request unsatisfied, no number of iterations ends it -/
theorem proxy_recv_old_spins_witness (size have_ fuel : Nat) (h : have_ < size) :
    proxyRecv false size have_ [] fuel = none := by
  induction fuel with
  | zero => simp [proxyRecv]; omega
  | succ k ih =>
    simp only [proxyRecv]
    have : ¬ size ≤ have_ := by omega
    simp [this, proxyIter, ih]

end PV.Props.C13
