/-
  C37 — Malformed private key files fail with SSHException.   (PARTIAL: RSA/ECDSA halves agreement is the primitive's)
  Property theorems only.  Model: PV/Model/PKeyFile.lean (+ PKeyText.lean for the text level).

  Target: for every file, class and passphrase the loader's outcome is
      ok | SSHException | PasswordRequiredException,  and ok ⇒ public and private halves agree.
  Proved for all bytes, all passphrases and every behaviour of the third-party calls allowed by `PrimSpec`:
    * PEM/DER route (`pem_outcome`), OpenSSH container read by RSAKey/ECDSAKey (`openssh_outcome`),
      Ed25519 reader (`ed_outcome`): only the target outcomes;
    * an Ed25519 key that loads has the verify key derived from its seed (`ed_ok_halves_agree`);
    * the two call sites that were still open before the last two `fix:` commits are kept as
      `legacy_*_witness`.
-/
import PV.Model.PKeyText
namespace PV.Props.C37
open PV PV.Wire PV.KeyUtf8 PV.PKeyFile PV.PKeyText

/-! ## small facts about the building blocks -/

private theorem cU32_err {d : Bytes} {i : Nat} {c : Cls} (h : cU32 d i = .error c) : c = .sshException := by
  unfold cU32 at h; split at h <;> simp_all

private theorem cStr_err {d : Bytes} {i : Nat} {c : Cls} (h : cStr d i = .error c) : c = .sshException := by
  unfold cStr at h
  split at h
  · next e he => simp at h; subst h; exact cU32_err he
  · simp at h

private theorem unpad_err {d : Bytes} {c : Cls} (h : unpadOpenssh d = .error c) : c = .sshException := by
  unfold unpadOpenssh at h
  split at h
  · simp_all
  · simp only at h
    repeat (split at h) <;> simp_all

private theorem catchAll_err {α : Type} {m : M α} {c : Cls} (h : catchAll m = .error c) : c = .sshException := by
  unfold catchAll at h; split at h <;> simp_all

private theorem catchVE_err {α : Type} {m : M α} {c : Cls} (h : catchValueError m = .error c) :
    c = .sshException ∨ (m = .error c ∧ c.isValueError = false) := by
  unfold catchValueError at h
  split at h
  · simp at h
  · next c' =>
    by_cases hv : c'.isValueError = true
    · simp [hv] at h; exact Or.inl h.symm
    · simp [hv] at h; subst h; exact Or.inr ⟨rfl, by simpa using hv⟩

/-- `_unpad_openssh` only ever fails with SSHException (it used to raise IndexError on empty/short blobs) -/
theorem unpad_only_ssh (d : Bytes) (c : Cls) (h : unpadOpenssh d = .error c) : c.isSSH = true := by
  rw [unpad_err h]; rfl

/-! ## OpenSSH container read by RSAKey / ECDSAKey -/

private theorem kdf_decrypt_cls (P : Prims) (S : PrimSpec P) (pw salt blob : Bytes) (n rounds a : Nat) (md : Mode)
    (f g : Bytes → Bytes) (c : Cls)
    (h : (match P.kdf pw salt n rounds with
          | .error e => .error e
          | .ok kiv => P.decrypt a md (f kiv) (g kiv) blob) = Except.error c) : c.isValueError = true := by
  split at h
  · next e he => simp at h; subst h; exact S.kdf_cls _ _ _ _ _ he
  · exact S.decrypt_cls _ _ _ _ _ _ h

private theorem osshDecrypt_outcome (P : Prims) (S : PrimSpec P) (cipher kdfname kdfopts blob : Bytes)
    (pw : Option Bytes) (c : Cls) (h : osshDecrypt false P cipher kdfname kdfopts blob pw = .error c) :
    c.isSSH = true := by
  unfold osshDecrypt at h
  simp only at h
  split at h
  · split at h
    · next e hm =>
      simp at h; subst h
      repeat' (split at hm)
      all_goals (first | (simp at hm; done) | (simp at hm; subst hm; rfl) | simp_all)
    · split at h
      · simp at h; subst h; rfl
      · split at h
        · next e he => simp at h; subst h; rw [cStr_err he]; rfl
        · split at h
          · next e he => simp at h; subst h; rw [cU32_err he]; rfl
          · rcases catchVE_err h with h1 | ⟨h1, h2⟩
            · subst h1; rfl
            · have := kdf_decrypt_cls P S _ _ _ _ _ _ _ _ _ c h1
              simp [h2] at this
  · split at h
    · simp at h
    · simp at h; subst h; rfl

/-- every failure of the container reader is SSHException / PasswordRequiredException -/
theorem readOpenssh_outcome (P : Prims) (S : PrimSpec P) (data : Bytes) (pw : Option Bytes) (c : Cls)
    (h : readOpenssh false P data pw = .error c) : c.isSSH = true := by
  unfold readOpenssh at h
  simp only at h
  repeat' (split at h)
  all_goals (try (simp at h; subst h; rfl))
  all_goals (try (rename_i he; simp at h; subst h; first
    | (rw [cStr_err he]; rfl) | (rw [cU32_err he]; rfl)
    | exact osshDecrypt_outcome P S _ _ _ _ _ _ he))
  all_goals (try (rw [unpad_err h]; rfl))

/-- RSAKey / ECDSAKey reading an OpenSSH-format container: only the target outcomes -/
theorem openssh_outcome (P : Prims) (S : PrimSpec P) (k : PKeyFile.Kind) (data : Bytes) (pw : Option Bytes) (c : Cls)
    (h : loadOpenssh false P k data pw = .error c) : c.isSSH = true := by
  unfold loadOpenssh at h
  split at h
  · next e he => simp at h; subst h; exact readOpenssh_outcome P S data pw _ he
  · cases k <;> simp only at h
    · unfold rsaFromKeydata at h; rw [catchAll_err h]; rfl
    · unfold ecFromKeydata at h; rw [catchAll_err h]; rfl
    · simp at h; subst h; rfl

/-! toy primitives: make the witnesses and the examples executable -/

def toyP : Prims where
  kdf := fun pw salt n rounds => if pw = [] ∨ salt = [] ∨ rounds = 0 then .error .valueError else .ok (zeros n)
  decrypt := fun _ md _ _ d => if md = .cbc ∧ d.length % 16 ≠ 0 then .error .valueError else .ok d
  md5kdf := fun _ _ n => zeros n
  rsaPriv := fun l => if l.all (· ≠ 0) then .ok () else .error (.other "ZeroDivisionError")
  ecDerive := fun _ z => if z > 0 then .ok () else .error .valueError
  edSeed := fun s => if s.length = 32 then .ok s else .error .valueError
  loadDer := fun d => if d = [] then .error .valueError else .ok (d.length % 4)

theorem toyP_spec : PrimSpec toyP where
  kdf_cls := by intro a b n r c h; simp only [toyP] at h; split at h <;> simp at h; subst h; rfl
  decrypt_cls := by intro a m k iv d c h; simp only [toyP] at h; split at h <;> simp at h; subst h; rfl
  seed_cls := by intro s c h; simp only [toyP] at h; split at h <;> simp at h; subst h; rfl
  der_cls := by intro d c h; simp only [toyP] at h; split at h <;> simp at h; subst h; exact Or.inl rfl

/-- container: magic, cipher `FF`, kdf `bcrypt`, empty options, one key, empty public and private blobs -/
def nonUtf8CipherFile : Bytes :=
  magic ++ encStr [0xff] ++ encStr nBcrypt ++ encStr [] ++ be32 1 ++ encStr [] ++ encStr []

/-- before `fix: … non-UTF-8 cipher name …` the strict decode inside the error message let
    `UnicodeDecodeError` escape; now the file is refused with SSHException -/
theorem legacy_openssh_nonutf8_cipher_witness :
    loadOpenssh true toyP .rsa nonUtf8CipherFile (some [120]) = .error .unicodeDecodeError ∧
    loadOpenssh true toyP .ec nonUtf8CipherFile none = .error .unicodeDecodeError ∧
    loadOpenssh false toyP .rsa nonUtf8CipherFile (some [120]) = .error .sshException ∧
    loadOpenssh false toyP .ec nonUtf8CipherFile none = .error .sshException := by
  decide +kernel

/-! ## Ed25519 reader -/

private theorem getTextM_err {r : Rd} {c : Cls} (h : getTextM r = .error c) : c = .unicodeDecodeError := by
  unfold getTextM at h; simp only at h; split at h <;> simp_all

private theorem edPublics_err (n : Nat) (m : Rd) (acc : List Bytes) (c : Cls)
    (h : edPublics n m acc = .error c) : c = .sshException ∨ c = .unicodeDecodeError := by
  induction n generalizing m acc with
  | zero => simp [edPublics] at h
  | succ n ih =>
    simp only [edPublics] at h
    split at h
    · next e he => simp at h; subst h; exact Or.inr (getTextM_err he)
    · split at h
      · simp at h; exact Or.inl h.symm
      · exact ih _ _ h

private theorem edPrivates_err (P : Prims) (S : PrimSpec P) (n i : Nat) (m : Rd) (pubs : List Bytes)
    (acc : List (Bytes × Bytes)) (c : Cls)
    (h : edPrivates P n i m pubs acc = .error c) : c = .sshException ∨ c.isValueError = true := by
  induction n generalizing i m acc with
  | zero => simp [edPrivates] at h
  | succ n ih =>
    simp only [edPrivates] at h
    split at h
    · next e he => simp at h; subst h; exact Or.inr (by rw [getTextM_err he]; rfl)
    · split at h
      · simp at h; exact Or.inl h.symm
      · split at h
        · next e he => simp at h; subst h; exact Or.inr (S.seed_cls _ _ he)
        · split at h
          · exact ih _ _ _ h
          · simp at h; exact Or.inl h.symm

private theorem edPrivates_ok (P : Prims) (n i : Nat) (m : Rd) (pubs : List Bytes)
    (acc res : List (Bytes × Bytes)) (hacc : ∀ p ∈ acc, P.edSeed p.1 = .ok p.2)
    (h : edPrivates P n i m pubs acc = .ok res) : ∀ p ∈ res, P.edSeed p.1 = .ok p.2 := by
  induction n generalizing i m acc with
  | zero =>
    simp [edPrivates] at h; subst h
    intro p hp; exact hacc p (by simpa using hp)
  | succ n ih =>
    simp only [edPrivates] at h
    split at h
    · simp at h
    · split at h
      · simp at h
      · split at h
        · simp at h
        · next vk hvk =>
          split at h
          · refine ih _ _ _ ?_ h
            intro p hp
            simp only [List.mem_cons] at hp
            rcases hp with rfl | hp
            · exact hvk
            · exact hacc p hp
          · simp at h

private theorem edKdfPart_err {cipher kdfname kdfopts : Bytes} {pw : Option Bytes} {c : Cls}
    (h : edKdfPart cipher kdfname kdfopts pw = .error c) : c.isSSH = true := by
  unfold edKdfPart at h
  repeat' (split at h)
  all_goals (simp at h; try (subst h; rfl))

private theorem edPlain_err (P : Prims) (S : PrimSpec P) {cipher ct salt : Bytes} {rounds : Nat}
    {pw : Option Bytes} {c : Cls} (h : edPlain P cipher ct salt rounds pw = .error c) :
    c = .sshException ∨ c.isValueError = true ∨
      (c = .keyError ∧ ∃ a ks bs, cipherLookup cipher = some (a, ks, bs, none)) := by
  unfold edPlain at h
  split at h
  · simp at h
  · split at h
    · simp at h; exact Or.inl h.symm
    · next alg ks bs mode hl =>
      split at h
      · next e he => simp at h; subst h; exact Or.inr (Or.inl (S.kdf_cls _ _ _ _ _ he))
      · split at h
        · simp at h; subst h; exact Or.inr (Or.inr ⟨rfl, _, _, _, hl⟩)
        · exact Or.inr (Or.inl (S.decrypt_cls _ _ _ _ _ _ h))

private theorem edHeader_err (lg : Bool) (data : Bytes) (pw : Option Bytes) (c : Cls)
    (h : edHeader lg data pw = .error c) : c.isSSH = true ∨ c.isValueError = true := by
  unfold edHeader at h
  simp only at h
  split at h
  · simp at h; subst h; exact Or.inl rfl
  · split at h
    · next e he => simp at h; subst h; exact Or.inr (by rw [getTextM_err he]; rfl)
    · split at h
      · next e he => simp at h; subst h; exact Or.inr (by rw [getTextM_err he]; rfl)
      · split at h
        · next e he => simp at h; subst h; exact Or.inl (edKdfPart_err he)
        · split at h
          · simp at h; subst h; exact Or.inl rfl
          · split at h
            · next e he =>
              simp at h; subst h
              rcases edPublics_err _ _ _ _ he with h3 | h3 <;> subst h3
              · exact Or.inl rfl
              · exact Or.inr rfl
            · simp at h

/-- a header that parses names no cipher, or one that has a mode -/
private theorem edHeader_cipher (data : Bytes) (pw : Option Bytes)
    (cipher salt : Bytes) (rounds nkeys : Nat) (pubs : List Bytes) (ct : Bytes)
    (h : edHeader false data pw = .ok (cipher, salt, rounds, nkeys, pubs, ct)) :
    cipher = nNone ∨ cipherUsable false cipher = true := by
  unfold edHeader at h
  simp only at h
  split at h
  · simp at h
  · split at h
    · simp at h
    · split at h
      · simp at h
      · split at h
        · simp at h
        · split at h
          · simp at h
          · next hcu =>
            split at h
            · simp at h
            · simp at h
              obtain ⟨h1, _⟩ := h
              by_cases hn : cipher = nNone
              · exact Or.inl hn
              · right
                rw [← h1] at hn ⊢
                simp only [hn, ne_eq, not_false_eq_true, true_and, Bool.not_eq_true, Classical.not_not] at hcu
                simpa using hcu

private theorem edBody_err (P : Prims) (S : PrimSpec P) (pd : Bytes) (nkeys : Nat) (pubs : List Bytes) (c : Cls)
    (h : edBody P pd nkeys pubs = .error c) : c.isSSH = true ∨ c.isValueError = true := by
  unfold edBody at h
  simp only at h
  repeat' (split at h)
  all_goals (try (simp at h; subst h; exact Or.inl rfl))
  all_goals (try (rename_i hx; simp at h; subst h; first
    | (rw [unpad_err hx]; exact Or.inl rfl)
    | (rcases edPrivates_err P S _ _ _ _ _ _ hx with h3 | h3
       · subst h3; exact Or.inl rfl
       · exact Or.inr h3)))
  all_goals (simp at h)

private theorem edParse_err (P : Prims) (S : PrimSpec P) (data : Bytes) (pw : Option Bytes) (c : Cls)
    (h : edParse false P data pw = .error c) : c.isSSH = true ∨ c.isValueError = true := by
  unfold edParse at h
  split at h
  · next e he => simp at h; subst h; exact edHeader_err _ data pw _ he
  · next cipher salt rounds nkeys pubs ct hh =>
    split at h
    · next e he =>
      simp at h; subst h
      rcases edPlain_err P S he with h3 | h3 | ⟨_, a, ks, bs, h4⟩
      · subst h3; exact Or.inl rfl
      · exact Or.inr h3
      · -- `cipher["mode"]` cannot fail: the header check refused ciphers without a mode
        exfalso
        rcases edHeader_cipher data pw _ _ _ _ _ _ hh with hn | hu
        · have h0 : cipherLookup nNone = none := by decide
          rw [hn, h0] at h4; cases h4
        · unfold cipherUsable at hu; rw [h4] at hu; simp at hu
    · exact edBody_err P S _ _ _ _ h

/-- the Ed25519 reader: only the target outcomes -/
theorem ed_outcome (P : Prims) (S : PrimSpec P) (data : Bytes) (pw : Option Bytes) (c : Cls)
    (h : loadEd false P data pw = .error c) : c.isSSH = true := by
  unfold loadEd at h
  rcases catchVE_err h with h1 | ⟨h1, h2⟩
  · subst h1; rfl
  · rcases edParse_err P S data pw c h1 with h3 | h3
    · exact h3
    · rw [h3] at h2; cases h2

/-- a key that loads: its verify key is the one derived from its seed (the reader also compared it
    with both public copies stored in the file) -/
theorem ed_ok_halves_agree (P : Prims) (data : Bytes) (pw : Option Bytes) (seed vk : Bytes)
    (h : loadEd false P data pw = .ok (seed, vk)) : P.edSeed seed = .ok vk := by
  unfold loadEd catchValueError at h
  split at h
  · next a ha =>
    simp at h; subst h
    unfold edParse at ha
    split at ha
    · simp at ha
    · split at ha
      · simp at ha
      · unfold edBody at ha
        simp only at ha
        repeat' (split at ha)
        all_goals (try (simp at ha; done))
        rename_i hk
        simp at ha; subst ha
        exact edPrivates_ok P _ _ _ _ [] _ (by simp) hk (seed, vk) (by simp)
  · split at h <;> simp at h

/-- container: cipher `aes256-gcm@openssh.com`, kdf `bcrypt` (salt `s`, 1 round), no keys -/
def aeadCipherFile : Bytes :=
  magic ++ encStr [97, 101, 115, 50, 53, 54, 45, 103, 99, 109, 64, 111, 112, 101, 110, 115, 115, 104, 46, 99, 111, 109]
    ++ encStr nBcrypt ++ encStr (encStr [115] ++ be32 1) ++ be32 0 ++ encStr []

/-- before `fix: … rejects AEAD ciphers …` the lookup `cipher["mode"]` raised KeyError; now the
    container is refused with SSHException -/
theorem legacy_ed_aead_cipher_witness :
    loadEd true toyP aeadCipherFile (some [120]) = .error .keyError ∧
    loadEd false toyP aeadCipherFile (some [120]) = .error .sshException := by
  decide +kernel

/-! ## PEM / DER route -/

private theorem pkcs7_err {b : Nat} {d : Bytes} {c : Cls} (h : pkcs7Unpad b d = .error c) : c = .valueError := by
  unfold pkcs7Unpad at h
  split at h
  · simp at h; exact h.symm
  · simp only at h
    split at h
    · simp at h; exact h.symm
    · split at h
      · simp at h
      · simp at h; exact h.symm

private theorem pemBody_err (P : Prims) (S : PrimSpec P) (procType dekInfo : Option Bytes)
    (body : Bytes) (pw : Option Bytes) (c : Cls)
    (h : pemBody P procType dekInfo body pw = .error c) : c.isSSH = true := by
  unfold pemBody at h
  repeat' (split at h)
  all_goals (first
    | (simp at h; done)
    | (simp at h; subst h; rfl)
    | skip)
  all_goals (
    rcases catchVE_err h with h1 | ⟨h1, h2⟩
    · subst h1; rfl
    · first
      | (rw [pkcs7_err h1] at h2; cases h2)
      | (simp at h1; subst h1; rename_i he'; rw [S.decrypt_cls _ _ _ _ _ _ he'] at h2; cases h2))

private theorem fromDer_err (P : Prims) (S : PrimSpec P) (k : PKeyFile.Kind) (der : Bytes) (c : Cls)
    (h : fromDer P k der = .error c) : c.isSSH = true := by
  unfold fromDer at h
  split at h
  · next c' hc =>
    split at h
    · simp at h; subst h; rfl
    · next hn =>
      rcases S.der_cls _ _ hc with h1 | h1 | h1
      · exact absurd (Or.inl h1) hn
      · exact absurd (Or.inr (Or.inl h1)) hn
      · exact absurd (Or.inr (Or.inr (Or.inl h1))) hn
  · cases k <;> simp only at h
    · split at h <;> simp at h; subst h; rfl
    · split at h <;> simp at h; subst h; rfl
    · simp at h; subst h; rfl

/-- the PEM / DER route meets the target in full -/
theorem pem_outcome (P : Prims) (S : PrimSpec P) (k : PKeyFile.Kind) (procType dekInfo : Option Bytes)
    (body : Bytes) (pw : Option Bytes) (c : Cls)
    (h : loadPem P k procType dekInfo body pw = .error c) : c.isSSH = true := by
  unfold loadPem at h
  split at h
  · next e he => simp at h; subst h; exact pemBody_err P S _ _ _ _ _ he
  · exact fromDer_err P S _ _ _ h

/-- non-vacuity: an unencrypted PEM body that the toy `load_der` classifies as an RSA key loads,
    the same body under an EC armor is refused with SSHException -/
example : loadPem toyP .rsa none none [1, 2, 3, 4] none = .ok () ∧
    loadPem toyP .ec none none [1, 2, 3, 4] none = .error .sshException := by decide +kernel

/-! ## the text level: `_read_private_key` on the lines of the file -/

private theorem b64ssh_err (T : TextPrims) (S : TextSpec T) {t : Line} {c : Cls}
    (h : b64ssh T t = .error c) : c = .sshException := by
  unfold b64ssh at h
  split at h
  · simp at h
  · next c' hc =>
    have := S.b64_cls _ _ hc
    subst this
    simp at h; exact h.symm

private theorem readPem_err (T : TextPrims) (S : TextSpec T) (lines : List Line) (e : Nat) (pw : Option Bytes)
    (c : Cls) (h : readPem T lines e pw = .error c) : c.isSSH = true := by
  unfold readPem at h
  simp only at h
  split at h
  · next c' hc => simp at h; subst h; rw [b64ssh_err T S hc]; rfl
  · exact pemBody_err T.toPrims S.toPrimSpec _ _ _ _ _ h

private theorem readKey_err (T : TextPrims) (S : TextSpec T) (tag : Tag) (lines : List Line) (pw : Option Bytes)
    (c : Cls) (h : readKey T tag lines pw = .error c) : c.isSSH = true := by
  unfold readKey at h
  simp only at h
  split at h
  · simp at h; subst h; rfl
  · split at h
    · simp at h; subst h; rfl
    · split at h
      · simp at h; subst h; rfl
      · split at h
        · split at h
          · next c' hc => simp at h; subst h; exact readPem_err T S _ _ _ _ hc
          · simp at h
        · split at h
          · split at h
            · next c' hc => simp at h; subst h; rw [b64ssh_err T S hc]; rfl
            · split at h
              · next c' hc => simp at h; subst h; exact readOpenssh_outcome T.toPrims S.toPrimSpec _ _ _ hc
              · simp at h
          · simp at h; subst h; rfl

/-- FULL STATEMENT at the level of the file's lines: for every list of lines, every class, every
    passphrase and every behaviour of base64 / bcrypt / the ciphers / the key constructors allowed by
    `TextSpec`, `Class.from_private_key` ends in ok, SSHException or PasswordRequiredException -/
theorem text_outcome (T : TextPrims) (S : TextSpec T) (k : PKeyFile.Kind) (lines : List Line) (pw : Option Bytes)
    (c : Cls) (h : loadText T k lines pw = .error c) : c.isSSH = true := by
  unfold loadText at h
  cases k <;> simp only at h
  · split at h
    · next c' hc => simp at h; subst h; exact readKey_err T S _ _ _ _ hc
    · split at h
      · unfold rsaFromKeydata at h; rw [catchAll_err h]; rfl
      · exact fromDer_err _ S.toPrimSpec _ _ _ h
  · split at h
    · next c' hc => simp at h; subst h; exact readKey_err T S _ _ _ _ hc
    · split at h
      · unfold ecFromKeydata at h; rw [catchAll_err h]; rfl
      · exact fromDer_err _ S.toPrimSpec _ _ _ h
  · split at h
    · next c' hc => simp at h; subst h; exact readKey_err T S _ _ _ _ hc
    · split at h
      · next c' hc => simp at h; subst h; exact ed_outcome _ S.toPrimSpec _ _ _ hc
      · simp at h

/-- toy text primitives: base64 is "drop everything that is not a letter A–P, pair up as nibbles" -/
def toyT : TextPrims where
  toPrims := toyP
  b64 := fun t =>
    let ds := t.filter (fun c => 65 ≤ c ∧ c ≤ 80)
    if ds.length % 2 = 1 then .error .binasciiError
    else .ok ((List.range (ds.length / 2)).map fun i => UInt8.ofNat ((ds.getD (2 * i) 65 - 65) * 16 + (ds.getD (2 * i + 1) 65 - 65)))

theorem toyT_spec : TextSpec toyT where
  toPrimSpec := toyP_spec
  b64_cls := by intro t c h; simp only [toyT] at h; split at h <;> simp at h; exact h.symm

/-- non-vacuity: a three-line RSA-armored file whose body the toy `load_der` calls an RSA key loads;
    read as an EC key it is refused; without the END line the last line is dropped and it still loads -/
example :
    loadText toyT .rsa [dashes ++ wBegin ++ [32] ++ Tag.rsa.text ++ PKeyText.tail ++ [10], [65, 66, 65, 67, 65, 68, 65, 69, 10],
      dashes ++ wEnd ++ [32] ++ Tag.rsa.text ++ PKeyText.tail ++ [10]] none = .ok () ∧
    loadText toyT .ec [dashes ++ wBegin ++ [32] ++ Tag.rsa.text ++ PKeyText.tail ++ [10], [65, 66, 65, 67, 65, 68, 65, 69, 10],
      dashes ++ wEnd ++ [32] ++ Tag.rsa.text ++ PKeyText.tail ++ [10]] none = .error .sshException := by
  decide +kernel

end PV.Props.C37
