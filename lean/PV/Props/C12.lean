/-
  C12 — Unrecognised message types get UNIMPLEMENTED and the session continues.
  Model: PV/Model/RunLoop.lean (the whole dispatch loop); tables: PV/Generated/C12.lean (read from the
  source on every run).  Property theorems only.
-/
import PV.Model.RunLoop
import PV.Generated.C12
namespace PV.Props.C12
open PV PV.RunLoop

/-- a session after the handshake: loop running, no kex step armed.  This includes the window of a
re-exchange in which our own KEXINIT is already out (`in_kex`, `local_kex_init` set, user sends blocked)
and the peer's has not been processed yet: `_send_kex_init` arms no expectation. -/
structure Established (s : St) : Prop where
  active : s.active = true
  noErr : s.err = none
  done : s.initialKexDone = true
  quiet : s.expected = []

/-- what the property demands of the loop for a packet of type `t` received as packet number
`s.seqIn`: counters move on, exactly one UNIMPLEMENTED carrying that number goes out (none for
type 3), and nothing else changes — in particular the session stays active. -/
def replied (s : St) (t : Nat) : St :=
  { s with
    seqIn := (s.seqIn + 1) % SEQ_MOD
    rx := s.rx ++ [t]
    seqOut := if t = MSG_UNIMPLEMENTED then s.seqOut else (s.seqOut + 1) % SEQ_MOD
    tx := if t = MSG_UNIMPLEMENTED then s.tx else s.tx ++ [⟨MSG_UNIMPLEMENTED, s.seqOut, s.seqIn⟩] }

private theorem unhandled_parts {T : Tables} {s : St} {t : Nat} (h : handled T s t = false) :
    t ≠ MSG_IGNORE ∧ t ≠ MSG_DISCONNECT ∧ t ≠ MSG_DEBUG ∧ (transportTable T s).contains t = false ∧
      T.channel.contains t = false ∧ (authTable T s).contains t = false := by
  simp only [handled, Bool.or_eq_false_iff, beq_eq_false_iff_ne] at h
  obtain ⟨⟨⟨⟨⟨h1, h2⟩, h3⟩, h4⟩, h5⟩, h6⟩ := h
  exact ⟨h1, h2, h3, h4, h5, h6⟩

/-- **Main theorem (all tables, all states, all payloads).**  If the fallback branch looks the debug
name up totally, then in every established session every packet whose type has no handler in the
current role/state — whatever its payload, whatever the rest of the world would answer (`x`) — is
answered by exactly one UNIMPLEMENTED carrying the packet's own sequence number (type 3: by nothing),
and the session state is otherwise untouched and active. -/
theorem unhandled_gets_unimplemented (T : Tables) (hT : T.namesTotal = true) (s : St) (hs : Established s)
    (t : Nat) (hun : handled T s t = false) (payload : Bytes) (x : Ext) :
    step T s (.recv t payload x) = replied s t := by
  obtain ⟨h1, h2, h3, h4, h5, h6⟩ := unhandled_parts hun
  obtain ⟨ha, he, hd, hq⟩ := hs
  have hseq : ¬ ((s.seqIn + 1) % SEQ_MOD = 0 ∧ ¬ s.initialKexDone = true) := by simp [hd]
  simp only [step, ha, he, Option.isNone_none, and_self, if_true, recv, body, afterExpected, bump, hseq, if_false, h1, h2, h3, hq, ne_eq,
    not_true_eq_false, dispatch, transportTable, authTable] at h4 h6 ⊢
  simp only [h4, h5, h6, Bool.false_eq_true, if_false, fallback, hT, not_true_eq_false, false_and]
  by_cases h3' : t = MSG_UNIMPLEMENTED
  · subst h3'; cases s; simp_all [replied]
  · simp only [h3', ne_eq, not_false_eq_true, if_true, if_false, St.send, he, Option.isSome_none,
      Bool.false_eq_true, hd, not_true_eq_false, and_false, replied]
    cases s; simp_all

/-- the session stays up and the reply is the *only* thing sent -/
theorem unhandled_session_continues (T : Tables) (hT : T.namesTotal = true) (s : St) (hs : Established s)
    (t : Nat) (hun : handled T s t = false) (payload : Bytes) (x : Ext) :
    let s' := step T s (.recv t payload x)
    Established s' ∧
      s'.tx = s.tx ++ (if t = MSG_UNIMPLEMENTED then [] else [⟨MSG_UNIMPLEMENTED, s.seqOut, s.seqIn⟩]) := by
  simp only
  rw [unhandled_gets_unimplemented T hT s hs t hun payload x]
  obtain ⟨ha, he, hd, hq⟩ := hs
  refine ⟨⟨ha, he, hd, hq⟩, ?_⟩
  by_cases h : t = MSG_UNIMPLEMENTED <;> simp [replied, h]

/-- UNIMPLEMENTED itself is never answered, in any state and whatever the tables say about it, unless
somebody registered a handler for it -/
theorem unimplemented_never_answered (T : Tables) (hT : T.namesTotal = true) (s : St) (hs : Established s)
    (hun : handled T s MSG_UNIMPLEMENTED = false) (payload : Bytes) (x : Ext) :
    (step T s (.recv MSG_UNIMPLEMENTED payload x)).tx = s.tx := by
  rw [unhandled_gets_unimplemented T hT s hs _ hun payload x]; simp [replied]

/-- the payload is never inspected on this path: two packets of the same unhandled type leave the
same state -/
theorem payload_irrelevant (T : Tables) (hT : T.namesTotal = true) (s : St) (hs : Established s)
    (t : Nat) (hun : handled T s t = false) (p₁ p₂ : Bytes) (x₁ x₂ : Ext) :
    step T s (.recv t p₁ x₁) = step T s (.recv t p₂ x₂) := by
  rw [unhandled_gets_unimplemented T hT s hs t hun, unhandled_gets_unimplemented T hT s hs t hun]

/-- the replies a run of unhandled packets must produce, from the counters at its start -/
def replies (seqIn seqOut : Nat) : List Nat → List Sent
  | [] => []
  | t :: ts =>
    (if t = MSG_UNIMPLEMENTED then [] else [⟨MSG_UNIMPLEMENTED, seqOut, seqIn⟩]) ++
      replies ((seqIn + 1) % SEQ_MOD) (if t = MSG_UNIMPLEMENTED then seqOut else (seqOut + 1) % SEQ_MOD) ts

/-- any run of unhandled packets, of any length: each one is answered, in order, with its own
sequence number; nothing else is sent; the session is still established at the end -/
theorem unhandled_run (T : Tables) (hT : T.namesTotal = true) (s : St) (hs : Established s)
    (pkts : List (Nat × Bytes × Ext)) (hun : ∀ p ∈ pkts, handled T s p.1 = false) :
    Established (run T s (pkts.map fun p => .recv p.1 p.2.1 p.2.2)) ∧
      (run T s (pkts.map fun p => .recv p.1 p.2.1 p.2.2)).tx
        = s.tx ++ replies s.seqIn s.seqOut (pkts.map (·.1)) := by
  induction pkts generalizing s with
  | nil => simp [run, hs, replies]
  | cons p ps ih =>
    have hp := hun p (by simp)
    have hstep := unhandled_gets_unimplemented T hT s hs p.1 hp p.2.1 p.2.2
    have hs' : Established (replied s p.1) := by
      obtain ⟨ha, he, hd, hq⟩ := hs; exact ⟨ha, he, hd, hq⟩
    have hun' : ∀ q ∈ ps, handled T (replied s p.1) q.1 = false := by
      intro q hq
      have h := hun q (by simp [hq])
      exact h
    obtain ⟨ih1, ih2⟩ := ih (replied s p.1) hs' hun'
    simp only [List.map_cons, run, List.foldl_cons] at ih1 ih2 ⊢
    rw [hstep]
    refine ⟨ih1, ?_⟩
    rw [ih2]
    by_cases h : p.1 = MSG_UNIMPLEMENTED <;> simp [replied, replies, h]

/-! ## the tables of the tree under test -/

/-- the fallback branch of the tree under test looks the name up totally (read from the AST of
`Transport.run`): with a bare `MSG_NAMES[ptype]` this is false and C12 does not hold -/
theorem names_lookup_total : Generated.C12.tables.namesTotal = true := by decide

/-- **C12 for the tree under test**: every established session, every type without a handler in
the current role/state, every payload. -/
theorem C12 (s : St) (hs : Established s) (t : Nat) (hun : handled Generated.C12.tables s t = false)
    (payload : Bytes) (x : Ext) :
    step Generated.C12.tables s (.recv t payload x) = replied s t :=
  unhandled_gets_unimplemented _ names_lookup_total s hs t hun payload x

/-- the role × class × auth-handler × (quiet | own KEXINIT of a re-exchange sent) situations -/
def situations : List (Bool × Bool × AuthH × Bool) :=
  [true, false].flatMap fun server => [true, false].flatMap fun srt =>
    [AuthH.none, .std, .only, .gssMic].flatMap fun a => [false, true].map fun inKex => (server, srt, a, inKex)

/-- a concrete established, authenticated session in a given situation -/
def sample (c : Bool × Bool × AuthH × Bool) : St :=
  { server := c.1, srt := c.2.1, advertiseStrict := true, serverSigAlgs := true, agreedStrict := true,
    initialKexDone := true, clearToSend := !c.2.2.2, inKex := c.2.2.2, localKexInit := c.2.2.2,
    authH := c.2.2.1, authenticated := true, chans := [0], seen := [0], seqIn := 7, seqOut := 9 }

/-- the executable model, evaluated on all 256 type numbers in all 32 situations (kernel-checked
table; half of the situations are inside a re-exchange): whenever the type has no handler, the step is exactly `replied` -/
theorem all_256_types_table :
    ∀ c ∈ situations, ∀ t ∈ List.range 256, handled Generated.C12.tables (sample c) t = false →
      step Generated.C12.tables (sample c) (.recv t [] default) = replied (sample c) t := by
  decide +kernel

/-- **"No handler in the current role" is also a matter of protocol direction.**  In the tree under test no dispatch
table gives a transport a handler for a message type that only ever travels the other way (a client for
SERVICE_REQUEST / USERAUTH_REQUEST / …, a server for SERVICE_ACCEPT / USERAUTH_SUCCESS / …): such types take the
fallback branch and get UNIMPLEMENTED.  (ServiceRequestingTransport registers SERVICE_ACCEPT in its per-instance
table whatever the role; it is a client-side class, so its server use is left out.  The gssapi-with-mic handler
is only ever installed by a server.) -/
theorem no_handler_against_protocol_direction :
    ∀ c ∈ situations, ¬ (c.1 = true ∧ c.2.1 = true) → ¬ (c.1 = false ∧ c.2.2.1 = AuthH.gssMic) →
      ∀ t ∈ wrongDirection c.1, handled Generated.C12.tables (sample c) t = false := by
  decide +kernel

/-- nobody registered a handler for UNIMPLEMENTED: in the tree under test it is never answered -/
theorem type3_unhandled_everywhere :
    ∀ c ∈ situations, handled Generated.C12.tables (sample c) MSG_UNIMPLEMENTED = false := by
  decide +kernel

/-- every type number without a debug name is unhandled in every situation (these are the inputs on
which a partial name lookup kills the transport) -/
theorem unnamed_types_unhandled :
    ∀ c ∈ situations, ∀ t ∈ List.range 256, Generated.C12.tables.names.contains t = false →
      handled Generated.C12.tables (sample c) t = false := by
  decide +kernel

/-- the defect this property exposed, as a statement about the model: with a *partial* name lookup
(`MSG_NAMES[ptype]`) an unhandled type without a debug name ends the session with KeyError and no
reply at all. -/
theorem partial_lookup_kills_session (T : Tables) (hT : T.namesTotal = false) (s : St) (hs : Established s)
    (t : Nat) (hun : handled T s t = false) (hname : T.names.contains t = false) (payload : Bytes) (x : Ext) :
    let s' := step T s (.recv t payload x)
    s'.active = false ∧ s'.err = some .keyError ∧ s'.tx = s.tx := by
  obtain ⟨h1, h2, h3, h4, h5, h6⟩ := unhandled_parts hun
  obtain ⟨ha, he, hd, hq⟩ := hs
  have hseq : ¬ ((s.seqIn + 1) % SEQ_MOD = 0 ∧ ¬ s.initialKexDone = true) := by simp [hd]
  simp only [step, ha, he, Option.isNone_none, and_self, if_true, recv, body, afterExpected, bump, hseq, if_false, h1, h2, h3, hq, ne_eq,
    not_true_eq_false, dispatch, transportTable, authTable] at h4 h6 ⊢
  simp only [h4, h5, h6, Bool.false_eq_true, if_false, fallback, hT, hname, not_false_eq_true, and_self,
    if_true, St.fail, and_true]

/-- the reply is built with fixed-width encoders only (AST of `Transport.run`, read on every run): the model's
UNIMPLEMENTED carries the sequence number as a number; on the wire it is a uint32 for every value up to 2^32 − 1, which
`Message.add()` (adaptive integers: 0xff + mpint from 0xff000000 up) would not give -/
theorem reply_uses_fixed_width_encoding : Generated.C12.runRepliesUseFixedWidth = true := by decide

/-- the numbers the model uses literally are the ones paramiko/common.py defines -/
theorem constants_match :
    Generated.C12.msgConsts.lookup "MSG_DISCONNECT" = some MSG_DISCONNECT ∧
    Generated.C12.msgConsts.lookup "MSG_IGNORE" = some MSG_IGNORE ∧
    Generated.C12.msgConsts.lookup "MSG_UNIMPLEMENTED" = some MSG_UNIMPLEMENTED ∧
    Generated.C12.msgConsts.lookup "MSG_DEBUG" = some MSG_DEBUG ∧
    Generated.C12.msgConsts.lookup "MSG_EXT_INFO" = some MSG_EXT_INFO ∧
    Generated.C12.msgConsts.lookup "MSG_KEXINIT" = some MSG_KEXINIT ∧
    Generated.C12.msgConsts.lookup "MSG_NEWKEYS" = some MSG_NEWKEYS ∧
    Generated.C12.msgConsts.lookup "MSG_GLOBAL_REQUEST" = some MSG_GLOBAL_REQUEST ∧
    Generated.C12.msgConsts.lookup "MSG_REQUEST_FAILURE" = some MSG_REQUEST_FAILURE ∧
    Generated.C12.msgConsts.lookup "MSG_CHANNEL_OPEN" = some MSG_CHANNEL_OPEN ∧
    Generated.C12.msgConsts.lookup "MSG_CHANNEL_OPEN_FAILURE" = some MSG_CHANNEL_OPEN_FAILURE := by
  decide +kernel

/-! ## non-vacuity -/

example : Established (sample (true, false, .std, false)) := ⟨rfl, rfl, rfl, rfl⟩
/-- … also in the middle of a re-exchange we started -/
example : Established (sample (true, false, .std, true)) ∧ (sample (true, false, .std, true)).inKex = true :=
  ⟨⟨rfl, rfl, rfl, rfl⟩, rfl⟩
example : (step Generated.C12.tables (sample (false, false, .std, true)) (.recv 200 [] default)).tx
    = [⟨MSG_UNIMPLEMENTED, 9, 7⟩] := by decide +kernel
example : situations.length = 32 := by decide
/-- type 200 at a server after authentication: unhandled, answered with UNIMPLEMENTED(7) -/
example : handled Generated.C12.tables (sample (true, false, .std, false)) 200 = false := by decide +kernel
example : (step Generated.C12.tables (sample (true, false, .std, false)) (.recv 200 [1, 2, 3] default)).tx
    = [⟨MSG_UNIMPLEMENTED, 9, 7⟩] := by decide +kernel
/-- type 62 (no debug name) at a client -/
example : (step Generated.C12.tables (sample (false, false, .std, false)) (.recv 62 [] default)).active = true := by
  decide +kernel
/-- the hypothesis of `partial_lookup_kills_session` is satisfiable: the same tables with a partial lookup -/
example : (step { Generated.C12.tables with namesTotal := false } (sample (true, false, .std, false))
    (.recv 200 [] default)).err = some .keyError := by decide +kernel
/-- handled types are not touched by the theorem: a channel message takes the channel branch -/
example : handled Generated.C12.tables (sample (true, false, .std, false)) 94 = true := by decide +kernel

end PV.Props.C12
