/-
  C29 — SFTP bulk transfers are exact or fail loudly.
  Property theorems only.  Model: PV/Model/SftpClient.lean (client request/response bookkeeping for write traffic,
  FIFO server answering every request once with a write-fault plan).  Invariant proofs: PV/Model/SftpClientInv.lean.

  Ghost counter `badSince[f]`: number of *pipelined* writes of file `f` the server has rejected since the last
  exception an operation on `f` raised (incremented by the server step `serveSlot`, reset by `resetBad` when a
  write / close / set_pipelined on `f` raises).
-/
import PV.Model.SftpClientPut
import PV.Model.SftpGetLemmas
import PV.Model.PrefetchSeq
import PV.Generated.C28
namespace PV.Props.C29
open PV PV.SftpClient

/-- **A rejected pipelined write surfaces no later than close().**  After *any* program (pipelined and plain
    writes on any files, other requests, set_pipelined, closes, the server running at any time — `Op.serve`), any
    write-fault plan and any fault plan for the other requests: if `close()` of a still-open file returns normally,
    then no pipelined write of that file has been rejected since the last exception raised on it. -/
theorem rejected_pipelined_write_surfaces_by_close (maxReq nfiles : Nat) (wfaults sfaults : List Nat)
    (ops : List Op) (hops : ∀ op ∈ ops, OpOK nfiles op) (f : Nat) (hf : f < nfiles)
    (hopen : (getFile (runOps (init maxReq nfiles wfaults sfaults) ops).1 f).closed = false)
    (hok : (stepOp (runOps (init maxReq nfiles wfaults sfaults) ops).1 (.close f)).2 = .ok) :
    (stepOp (runOps (init maxReq nfiles wfaults sfaults) ops).1 (.close f)).1.badSince.getD f 0 = 0 := by
  have hlen0 : (init maxReq nfiles wfaults sfaults).files.length = nfiles := by simp [init]
  obtain ⟨_, hg, hlen⟩ := runOps_good ops _ (init_good maxReq nfiles wfaults sfaults) (by rw [hlen0]; exact hops)
  have hf' : f < (runOps (init maxReq nfiles wfaults sfaults) ops).1.files.length := by rw [hlen, hlen0]; exact hf
  obtain ⟨_, hz⟩ := closeFile_good hg hf'
  simp only [stepOp] at hok ⊢
  rw [hok]
  exact (hz hopen hok).1

/-- **The client never waits for ever** (the client half of C30, proved on the same model): whatever mix of
    pipelined writes, plain writes, other requests, set_pipelined and closes the application issues, on any number
    of files, with the server answering whenever it likes — as long as it answers every request once, in order —
    no call ends in `hang` (= reading from the wire with nothing outstanding). -/
theorem client_never_hangs (maxReq nfiles : Nat) (wfaults sfaults : List Nat) (ops : List Op)
    (hops : ∀ op ∈ ops, OpOK nfiles op) :
    ∀ r ∈ (runOps (init maxReq nfiles wfaults sfaults) ops).2, r ≠ .hang := by
  have hlen0 : (init maxReq nfiles wfaults sfaults).files.length = nfiles := by simp [init]
  exact (runOps_good ops _ (init_good maxReq nfiles wfaults sfaults) (by rw [hlen0]; exact hops)).1

/-- the bookkeeping invariant holds after every program: every expected response is still on the wire, every
    request on the wire is expected by its owner, request numbers are unique, every outstanding pipelined write is
    listed in its file's `_reqs`, and a rejected pipelined write is either still unread or saved in its file. -/
theorem bookkeeping_invariant (maxReq nfiles : Nat) (wfaults sfaults : List Nat) (ops : List Op)
    (hops : ∀ op ∈ ops, OpOK nfiles op) : Good none none (runOps (init maxReq nfiles wfaults sfaults) ops).1 := by
  have hlen0 : (init maxReq nfiles wfaults sfaults).files.length = nfiles := by simp [init]
  exact (runOps_good ops _ (init_good maxReq nfiles wfaults sfaults) (by rw [hlen0]; exact hops)).2.1

/-! ## destination bytes (server side) -/

/-- what the server's file holds after a list of accepted positional writes -/
def applyWrites (c : Bytes) : List (Nat × Bytes) → Bytes
  | [] => c
  | (off, d) :: rest => applyWrites (writeAt c off d) rest

/-- the write requests `putfo` issues for the chunks it read: consecutive offsets -/
def contiguous (base : Nat) : List Bytes → List (Nat × Bytes)
  | [] => []
  | d :: rest => (base, d) :: contiguous (base + d.length) rest

private theorem writeAt_end (c d : Bytes) : writeAt c c.length d = c ++ d := by
  unfold writeAt zeros
  simp

/-- Accepted writes reproduce the source (server side, on its own): for every way of cutting the source into chunks
    (local short reads included), writing the chunks at consecutive offsets into the truncated file yields the
    chunks' concatenation. -/
theorem accepted_writes_reproduce_source (c : Bytes) (chunks : List Bytes) :
    applyWrites c (contiguous c.length chunks) = c ++ chunks.flatten := by
  induction chunks generalizing c with
  | nil => simp [applyWrites, contiguous]
  | cons d rest ih =>
    simp only [contiguous, applyWrites, List.flatten_cons]
    rw [writeAt_end]
    have := ih (c ++ d)
    rw [List.length_append] at this
    rw [this, List.append_assoc]

/-! ## the composition: put / putfo -/

/-- **put/putfo returned normally ⇒ destination bytes = source bytes.**
    `putfo` is: open for writing (empty file), `set_pipelined(True)`, one `write` per chunk read from the source (any
    chunking, empty chunks included), `close()`; the server answers whenever it likes (`Op.serve` anywhere in the
    body, and forced whenever the client waits).  Requests travel in FIFO order on the one channel and the server
    applies accepted writes in arrival order (`wire`).  For every write-fault plan, every plan for other requests,
    every request-size limit > 0, any number of other open files: if every call up to and including `close()`
    returned normally, the server's file holds exactly the concatenation of the chunks.
    The `file_size` argument of putfo does not occur in the model: in the code it is handed to the callback only, the
    loop ends when the source's read() returns nothing — so the theorem holds for every value of it (0, exact, too
    small, too large).
    (`put` is `putfo` over the local file; the optional `confirm` stat afterwards sends no write and can only raise.) -/
theorem putfo_normal_return_implies_destination_equals_source (maxReq nfiles : Nat) (hm : 0 < maxReq)
    (wfaults sfaults : List Nat) (f : Nat) (hf : f < nfiles) (body : List Op) (hbody : ∀ op ∈ body, PutOp f op)
    (hok : ∀ r ∈ (runOps (init maxReq nfiles wfaults sfaults) (.setPipelined f true :: (body ++ [.close f]))).2, r = .ok) :
    (runOps (init maxReq nfiles wfaults sfaults) (.setPipelined f true :: (body ++ [.close f]))).1.dest.getD f []
      = written body := by
  -- after set_pipelined(True)
  have hg0 := init_good maxReq nfiles wfaults sfaults
  have hlen0 : (init maxReq nfiles wfaults sfaults).files.length = nfiles := by simp [init]
  simp only [runOps] at hok ⊢
  obtain ⟨_, g1, g2, g3⟩ := stepOp_good (op := .setPipelined f true) hg0 (by rw [hlen0]; exact hf)
  have hs1 : (stepOp (init maxReq nfiles wfaults sfaults) (.setPipelined f true)).1 =
      setFile (init maxReq nfiles wfaults sfaults) f (fun x => { x with pipelined := true }) := by
    simp [stepOp]
  have hf1 : f < (stepOp (init maxReq nfiles wfaults sfaults) (.setPipelined f true)).1.files.length := by
    rw [g2, hlen0]; exact hf
  have hp1 : PutInv f [] ([] : Bytes).length false (stepOp (init maxReq nfiles wfaults sfaults) (.setPipelined f true)).1 := by
    rw [hs1]
    have hgf : getFile (setFile (init maxReq nfiles wfaults sfaults) f (fun x => { x with pipelined := true })) f
        = { getFile (init maxReq nfiles wfaults sfaults) f with pipelined := true } :=
      getFile_setFile_self (by rw [hlen0]; exact hf)
    have hnew : getFile (init maxReq nfiles wfaults sfaults) f = newFile := by
      simp [getFile, init, List.getD_eq_getElem?_getD, List.getElem?_replicate, hf]
    refine ⟨by simp [setFile, init, hf], by simp [setFile, init, hf], by simp [setFile, init, hf], ?_, ?_, ?_, ?_, ?_, ?_⟩
    · rw [hgf]
    · rw [hgf, hnew]; rfl
    · rw [hgf, hnew]; rfl
    · intro sl hsl; simp [setFile, init] at hsl
    · simp [setFile, init]
    · intro _
      simp [setFile, init, pend, pdata, contig, List.getD_eq_getElem?_getD, List.getElem?_replicate, hf]
  -- the body and the close
  rw [runOps_append] at hok ⊢
  simp only at hok ⊢
  have hres_body : ∀ r ∈ (runOps (stepOp (init maxReq nfiles wfaults sfaults) (.setPipelined f true)).1 body).2, r = .ok := by
    intro r hr
    exact hok r (List.mem_cons_of_mem _ (List.mem_append_left _ hr))
  obtain ⟨b1, b2, b3⟩ := body_run body _ [] g1 hf1 (by rw [g3]; exact hm) hp1 hbody hres_body
  simp only [List.nil_append] at b3
  generalize (runOps (stepOp (init maxReq nfiles wfaults sfaults) (.setPipelined f true)).1 body).1 = s2 at b1 b2 b3 hok ⊢
  have hclose : (stepOp s2 (.close f)).2 = .ok := by
    apply hok
    apply List.mem_cons_of_mem
    apply List.mem_append_right
    simp [runOps]
  simp only [runOps]
  simp only [stepOp] at hclose ⊢
  rw [hclose]
  obtain ⟨_, hz⟩ := closeFile_good b1 b2
  obtain ⟨hbad, hnone⟩ := hz b3.clo hclose
  have hp3 := putInv_closeFile b3 b2
  obtain ⟨⟨_, hgood, _, _, _⟩, _⟩ := closeFile_good b1 b2
  have hg3 := hgood hclose
  have hrej : (closeFile s2 f).1.rejTot.getD f 0 = 0 := by rw [hp3.same]; exact hbad
  obtain ⟨d1, _⟩ := hp3.data hrej
  have hpend : pend f (closeFile s2 f).1.wire = [] := by
    apply pend_nil_of
    intro sl hsl off d hk
    have hown := hg3.own sl hsl
    unfold OwnOK at hown
    cases ho : sl.owner with
    | none => rw [ho] at hown; cases hown
    | some g =>
      rw [ho] at hown
      obtain ⟨_, off', d', hk'⟩ := hown
      rw [hk] at hk'
      cases hk'
      exact hnone sl hsl ho
  rw [hpend] at d1
  simpa [pdata, resetBad] using d1

/-- **Request ids are allocated atomically** (source fact, read from the AST of `SFTPClient._async_request` on every
    run): every use of `self.request_number` — the id written into the packet, the registration in `_expecting`, the
    increment — lies inside the `self._lock` region.  The models above (one `asyncRequest` step = fresh id + packet +
    registration; `tAlloc`/`allocSync` in the prefetch model) rest on it: without it the prefetch thread and the
    thread running get()/getfo() can send two READs under one id, and the reader takes another chunk's bytes as its
    own — a byte-wrong download that returns normally. -/
theorem request_ids_allocated_under_lock : PV.Generated.C28.idReadUnderLock = true := by decide

/-! ## get / getfo under read faults (no prefetch; the prefetching path is C28's model) -/

/-- **getfo returned normally ⇒ local bytes = remote bytes**, for every plan of per-request server behaviour (each
    READ either fails with an error status or returns 1..n true bytes, EOF exactly at the end of the file), every
    request-size limit and chunk size > 0, every outcome of the initial stat and open, and **whatever size the
    server's STAT answer reports** (`reported`: smaller, exact or larger than the real content — it is only a
    progress hint): short reads are re-requested by `BufferedFile.read`, the loop ends only at a true end of file. -/
theorem getfo_normal_return_implies_local_equals_remote (remote : Bytes) (maxReq chunk statCode openCode : Nat)
    (plan : List SftpGet.RdOut) (fuel reported : Nat) (b : Bytes) (hm : 0 < maxReq) (hc : 0 < chunk)
    (h : SftpGet.getfo remote maxReq chunk statCode openCode plan fuel reported = .ok b) : b = remote :=
  SftpGet.getfo_ok_exact hm hc h

/-- the same for `get` (which additionally compares the local file's size with the byte count, raising
    IOError("size mismatch in get!") on a difference) -/
theorem get_normal_return_implies_local_equals_remote (remote : Bytes) (maxReq chunk statCode openCode : Nat)
    (plan : List SftpGet.RdOut) (fuel reported : Nat) (b : Bytes) (hm : 0 < maxReq) (hc : 0 < chunk)
    (h : SftpGet.get remote maxReq chunk statCode openCode plan fuel reported = .ok b) : b = remote := by
  unfold SftpGet.get at h
  cases hg : SftpGet.getfo remote maxReq chunk statCode openCode plan fuel reported with
  | ok b' =>
    simp only [hg] at h
    split at h
    · cases h
    · cases h
      exact SftpGet.getfo_ok_exact hm hc hg
  | raised c => simp [hg] at h
  | fuel => simp [hg] at h

/-- **A failed read raises**: whenever the transfer loop issues a read request and the server fails it with code
    `c`, the transfer raises `c` — whatever has been transferred before and whatever would follow. -/
theorem failed_read_raises (remote : Bytes) (maxReq chunk fuel c : Nat) (loc : Bytes) (rest : List SftpGet.RdOut)
    (hc : 0 < chunk) : SftpGet.transfer remote maxReq chunk (fuel + 1) loc (.fail c :: rest) = .raised c :=
  SftpGet.transfer_fail hc

/-- **A dropped session raises**: when the server hangs up instead of answering a read (channel closed, transport
    gone: the client reads EOF from the socket), the transfer raises (SSHException "Server connection dropped", code
    3000 in the model) — it does not end as if the file were over. -/
theorem dropped_session_raises (remote : Bytes) (maxReq chunk fuel : Nat) (loc : Bytes) (rest : List SftpGet.RdOut)
    (hc : 0 < chunk) : SftpGet.transfer remote maxReq chunk (fuel + 1) loc (.drop :: rest) = .raised 3000 :=
  SftpGet.transfer_drop hc

/-- a failing stat or open raises before anything is transferred -/
theorem failed_stat_or_open_raises (remote : Bytes) (maxReq chunk statCode openCode : Nat) (plan : List SftpGet.RdOut)
    (fuel reported : Nat) (h : statCode ≠ 0 ∨ openCode ≠ 0) :
    ∃ c, SftpGet.getfo remote maxReq chunk statCode openCode plan fuel reported = .raised c := by
  unfold SftpGet.getfo
  by_cases hs : statCode ≠ 0
  · exact ⟨statCode, by simp [hs]⟩
  · have ho : openCode ≠ 0 := by rcases h with h | h; exact absurd h hs; exact h
    exact ⟨openCode, by simp [hs, ho]⟩

/-- **getfo with prefetching returned normally ⇒ local bytes = remote bytes.**  On the concurrent model of C28
    (reader, prefetch threads, server; any schedule) extended with failing reads (`Act.serveFail c`: the server
    answers a request with error status `c`; a prefetch answer of that kind is saved and raised by the next
    `_check_exception`, a synchronous one raises at once): for every program that only prefetches and reads
    sequentially (what `getfo` does: `prefetch(size, cap)`, then `read(32768)` until a read comes back empty), any
    cap, any short reads, any failing requests — if no read raised and the last read (of positive size) returned
    nothing, the concatenation of everything read is exactly the remote file. -/
theorem getfo_with_prefetch_normal_return_implies_local_equals_remote (file : Bytes) (maxReq : Nat) (hm : 0 < maxReq)
    (bufsize : Nat) (acts : List Prefetch.Act) (hseq : ∀ a ∈ acts, Prefetch.seqAct a)
    (hnoraise : (Prefetch.run (Prefetch.init file maxReq bufsize) acts).raised = [])
    (pre : List Prefetch.Entry) (e : Prefetch.Entry) (w : Nat)
    (hout : (Prefetch.run (Prefetch.init file maxReq bufsize) acts).out = pre ++ [e])
    (hw : e.2.1 = some w) (hpos : 0 < w) (hempty : e.2.2 = []) :
    ((Prefetch.run (Prefetch.init file maxReq bufsize) acts).out.map (·.2.2)).flatten = file := by
  obtain ⟨hi, hs⟩ := Prefetch.run_inv_seq (Prefetch.init_inv file maxReq hm bufsize) (Prefetch.init_rb file maxReq bufsize)
    (Prefetch.init_seq file maxReq bufsize) acts hseq
  have hchain := (hs hnoraise).1
  have hout' := hi.base.out
  rw [Prefetch.run_file] at hout'
  exact Prefetch.sequential_reads_complete hchain hout' hout hw hpos hempty

/-- a failing synchronous read raises; a failing prefetch read is saved and raised by the read that waits for it
    (concrete schedule: the only chunk's request is failed with code 4, the waiting reader raises 4 and nothing is
    delivered). -/
example :
    let s := Prefetch.run (Prefetch.init [1, 2, 3, 4, 5, 6, 7, 8] 4)
      [.rOp (.prefetch 4 none), .tCheck 0, .tAlloc 0, .tSend 0, .tReg 0, .rOp (.read (some 4)), .serveFail 4, .rStep, .rStep]
    s.raised = [(0, 4)] ∧ s.out = [] := by decide

/-- non-vacuity: short reads are re-requested and the result is the whole file; a failing third request raises -/
example : SftpGet.getfo [0, 1, 2, 3, 4, 5, 6, 7, 8, 9, 10, 11] 4 5 0 0 [.data 2, .data 9, .data 1] 1000
    = .ok [0, 1, 2, 3, 4, 5, 6, 7, 8, 9, 10, 11] := by decide
example : SftpGet.getfo [0, 1, 2, 3, 4, 5, 6, 7, 8, 9, 10, 11] 4 5 0 0 [.data 2, .data 9, .fail 3] 1000
    = .raised 3 := by decide

/-- non-vacuity 1: a pipelined write is rejected (plan `[0, 3, 0]`), the ghost counter registers it, close raises the
    saved error and resets the counter. -/
example :
    let s := (runOps (init 4 1 [0, 3, 0] []) [.setPipelined 0 true, .write 0 [0, 1, 2, 3, 4, 5, 6, 7, 8, 9], .serve 3]).1
    s.badSince = [1] ∧ (stepOp s (.close 0)).2 = .raised 3 ∧ (stepOp s (.close 0)).1.badSince = [0] := by decide

/-- non-vacuity 2: the error is collected by another request's wait (stat) and still raised by close. -/
example :
    (runOps (init 4 1 [0, 4, 0] [0]) [.setPipelined 0 true, .write 0 [0, 1, 2, 3, 4, 5, 6, 7, 8, 9], .sync, .close 0]).2
      = [.ok, .ok, .ok, .raised 4] := by decide

/-- non-vacuity 3: nothing rejected ⇒ everything ok and the destination equals the source. -/
example :
    (runOps (init 4 1 [] []) [.setPipelined 0 true, .write 0 [0, 1, 2, 3, 4, 5, 6, 7, 8, 9], .close 0]).2 = [.ok, .ok, .ok] ∧
    (runOps (init 4 1 [] []) [.setPipelined 0 true, .write 0 [0, 1, 2, 3, 4, 5, 6, 7, 8, 9], .close 0]).1.dest
      = [[0, 1, 2, 3, 4, 5, 6, 7, 8, 9]] := by decide

end PV.Props.C29
