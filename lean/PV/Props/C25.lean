/-
  C25 — sendall either delivers all data or raises.
  Model: the `sendall` / `sendall_stderr` loop over `send` in PV/Model/ChanWindow.lean (thread states
  `loopHead`, `waiting … (some l)`, `hold … (Kont.loop …)`; actions `sendall`, `iter`, `wake`, `emit`), running
  concurrently with every other action of the channel.  Lemmas: PV/Model/ChanLoopLemmas.lean.
  `fixedCfg` = the repaired code (sendall raises when send returns 0); `oldCfg` = before the repair.
-/
import PV.Model.ChanLoopLemmas
import PV.Model.ChanNotifyLemmas
import PV.Generated.ChanLock
import PV.Generated.C25
namespace PV.Props.C25
open PV.Chan

private theorem lt_of_get {α : Type} (l : List α) (t : Nat) (x : α) (h : l[t]? = some x) : t < l.length :=
  (List.getElem?_eq_some_iff.1 h).1

private theorem out_thread (cfg : Cfg) (s s' : St) (t want : Nat) (ext : Bool) (lp : Option Loop) (old : TSt)
    (hr : s.thr[t]? = some old) (h : SendOutEff cfg s s' t want ext lp) :
    ∃ x, s'.thr[t]? = some x ∧ SendOut cfg want ext lp x := by
  obtain ⟨d, x, e, ho⟩ := h
  refine ⟨x, ?_, ho⟩
  rw [e]
  exact setThr_get _ t x (lt_of_get _ _ _ hr)

/-- **One iteration of the loop.**  The thread is at `while s:` with `l.rem > 0` bytes left and runs the lock
    region of `self.send(s)`, whatever state the channel is in and whatever the other threads did before:
    it raises (socket.error / socket.timeout), or goes to sleep waiting for window with the same remainder,
    or reserves `n` bytes with `0 < n ≤ remainder`.  It is never back at the loop head with the remainder
    unchanged. -/
theorem iteration_raises_or_shortens (s : St) (t : Nat) (l : Loop) (ext : Bool)
    (hr : s.thr[t]? = some (.loopHead l ext)) :
    ∃ x, (step fixedCfg s (.iter t)).thr[t]? = some x ∧
      (x = .idle .sockClosed ∨ x = .idle .timeout ∨ (∃ left, x = .waiting l.rem ext left (some l)) ∨
       ∃ n, 0 < n ∧ n ≤ l.rem ∧ x = .hold [mkData ext n] (.loop l ext n)) := by
  simp only [step, hr]
  obtain ⟨x, hx, ho⟩ := out_thread fixedCfg s _ t l.rem ext (some l) _ hr (sendRegion_out fixedCfg s t l.rem ext (some l))
  refine ⟨x, hx, ?_⟩
  cases ho with
  | sockClosed => exact .inl rfl
  | timeout => exact .inr (.inl rfl)
  | wait left => exact .inr (.inr (.inl ⟨left, rfl⟩))
  | zeroPlain h => cases h
  | zeroLoopOld l' _ h => cases h
  | granted n k h1 h2 hk => subst hk; exact .inr (.inr (.inr ⟨n, h1, h2, rfl⟩))

/-- the same after a wake-up inside `_wait_for_send_window` (window adjusted, channel closed, timeout or a
    spurious wake-up) -/
theorem wakeup_raises_or_shortens (s : St) (t dt : Nat) (l : Loop) (ext : Bool) (left : Option Nat)
    (hr : s.thr[t]? = some (.waiting l.rem ext left (some l))) :
    ∃ x, (step fixedCfg s (.wake t dt)).thr[t]? = some x ∧
      (x = .idle .sockClosed ∨ x = .idle .timeout ∨ (∃ left', x = .waiting l.rem ext left' (some l)) ∨
       ∃ n, 0 < n ∧ n ≤ l.rem ∧ x = .hold [mkData ext n] (.loop l ext n)) := by
  simp only [step, hr]
  obtain ⟨x, hx, ho⟩ := out_thread fixedCfg s _ t l.rem ext (some l) _ hr
    (wakeRegion_out fixedCfg s t dt l.rem ext left (some l))
  refine ⟨x, hx, ?_⟩
  cases ho with
  | sockClosed => exact .inl rfl
  | timeout => exact .inr (.inl rfl)
  | wait left => exact .inr (.inr (.inl ⟨left, rfl⟩))
  | zeroPlain h => cases h
  | zeroLoopOld l' _ h => cases h
  | granted n k h1 h2 hk => subst hk; exact .inr (.inr (.inr ⟨n, h1, h2, rfl⟩))

/-- writing the reserved bytes: exactly `n` bytes go to the transport, then the loop head is reached with a
    strictly smaller remainder — or, when nothing is left, `sendall` returns, having handed over `handed + n` -/
theorem write_then_shorter_or_done (cfg : Cfg) (s : St) (t n : Nat) (l : Loop) (ext : Bool)
    (hr : s.thr[t]? = some (.hold [mkData ext n] (.loop l ext n))) :
    (step cfg s (.emit t)).wire = s.wire ++ [mkData ext n] ∧
    (step cfg s (.emit t)).thr[t]? = some (if l.rem - n = 0 then .idle (.doneAll (l.handed + n) l.total)
      else .loopHead { rem := l.rem - n, handed := l.handed + n, total := l.total } ext) := by
  simp only [step, hr, holdOrDone, kontState]
  exact ⟨rfl, setThr_get _ t _ (lt_of_get _ _ _ hr)⟩

/-- **Closed or shut down for writing ⇒ raise.**  An iteration that starts after `close()`, `shutdown_write()`,
    a peer CLOSE, a failed request or transport loss raises `socket.error` instead of returning 0 bytes. -/
theorem iteration_after_shutdown_raises (s : St) (t : Nat) (l : Loop) (ext : Bool)
    (hr : s.thr[t]? = some (.loopHead l ext)) (h : s.closed = true ∨ s.eofSent = true) :
    (step fixedCfg s (.iter t)).thr[t]? = some (.idle .sockClosed) := by
  have hlt := lt_of_get _ _ _ hr
  simp only [step, hr, sendRegion]
  split
  · exact setThr_get _ t _ hlt
  · rename_i hc
    have he : s.eofSent = true := by
      rcases h with h | h
      · exact absurd h hc
      · exact h
    simp only [he, if_true, zeroResult, fixedCfg]
    exact setThr_get _ t _ hlt

/-- … and a writer that was asleep in `_wait_for_send_window` when that happened raises when it wakes up
    (or reports the timeout that expired meanwhile) -/
theorem wakeup_after_shutdown_raises (s : St) (t dt want : Nat) (l : Loop) (ext : Bool) (left : Option Nat)
    (hr : s.thr[t]? = some (.waiting want ext left (some l))) (h : s.closed = true ∨ s.eofSent = true) :
    (step fixedCfg s (.wake t dt)).thr[t]? = some (.idle .sockClosed) ∨
    (step fixedCfg s (.wake t dt)).thr[t]? = some (.idle .timeout) := by
  have hlt := lt_of_get _ _ _ hr
  have hce : (s.closed || s.eofSent) = true := by rcases h with h | h <;> simp [h]
  simp only [step, hr, wakeRegion, hce, if_true, zeroResult, fixedCfg]
  cases left with
  | none =>
    simp only
    split <;> exact .inl (setThr_get _ t _ hlt)
  | some v =>
    simp only
    split
    · exact .inr (setThr_get _ t _ hlt)
    · split <;> exact .inl (setThr_get _ t _ hlt)

private theorem loopinv_init (inWin peerWin peerMax nthr : Nat) (c : Bool) :
    LoopInv (init inWin peerWin peerMax nthr c) := by
  intro x hx
  simp only [init, List.mem_replicate] at hx
  rw [hx.2]; trivial

/-- **Returns only with nothing left.**  In every schedule (any threads, closes, peer messages, window
    adjustments interleaved in any way, either code version): whenever a `sendall` call has returned, the bytes
    that call handed to the transport equal the length it was given; and at every moment of a call in progress
    remainder + handed over = length. -/
theorem returns_only_when_all_sent (cfg : Cfg) (inWin peerWin peerMax nthr : Nat) (c : Bool) (sched : List Act)
    (t : Nat) :
    (∀ h tot, (run cfg (init inWin peerWin peerMax nthr c) sched).thr[t]? = some (.idle (.doneAll h tot)) → h = tot) ∧
    (∀ l ext, (run cfg (init inWin peerWin peerMax nthr c) sched).thr[t]? = some (.loopHead l ext) →
      0 < l.rem ∧ l.rem + l.handed = l.total) := by
  have hi := run_loopinv cfg _ sched (loopinv_init inWin peerWin peerMax nthr c)
  refine ⟨?_, ?_⟩
  · intro h tot hr; exact hi _ (getElem?_mem' _ _ _ hr)
  · intro l ext hr; exact hi _ (getElem?_mem' _ _ _ hr)

/-- entering `sendall` with n > 0 bytes: at the loop head with remainder n, nothing handed over yet -/
theorem sendall_enters (cfg : Cfg) (s : St) (t n : Nat) (ext : Bool) (r : Res)
    (hr : s.thr[t]? = some (.idle r)) (hn : n ≠ 0) :
    (step cfg s (.sendall t n ext)).thr[t]? = some (.loopHead { rem := n, handed := 0, total := n } ext) := by
  have hid : idleOf s t = true := by simp [idleOf, hr]
  simp only [step, hid, if_true, hn, if_false]
  exact setThr_get _ t _ (lt_of_get _ _ _ hr)

private theorem set_self {α : Type} (l : List α) (t : Nat) (x : α) (h : l[t]? = some x) : l.set t x = l := by
  induction l generalizing t with
  | nil => rfl
  | cons y ys ih =>
    cases t with
    | zero => simp only [List.getElem?_cons_zero, Option.some.injEq] at h; subst h; rfl
    | succ t => simp only [List.getElem?_cons_succ] at h; simp only [List.set_cons_succ, ih t h]

/-- **The defect (code before the repair).**  After `shutdown_write()` (EOF sent, channel not closed) an
    iteration of the loop changes NOTHING: same channel state, same thread state, same remainder — `sendall`
    spins forever.  (A repeated (state, remainder) pair is how the check detects it on the real code.) -/
theorem C25_witness (s : St) (t : Nat) (l : Loop) (ext : Bool)
    (hr : s.thr[t]? = some (.loopHead l ext)) (hc : s.closed = false) (he : s.eofSent = true) :
    step oldCfg s (.iter t) = s := by
  simp only [step, hr, sendRegion, hc, he, if_true, zeroResult, oldCfg, Bool.false_eq_true, if_false, setThr]
  rw [set_self _ _ _ hr]
  cases s
  simp_all

/-- non-vacuity of `C25_witness` and of the repaired behaviour on the same schedule -/
example :
    (run oldCfg (init 32768 32768 32768 2 false) [.shutdownWrite 1, .emit 1, .sendall 0 10 false, .iter 0, .iter 0]).thr
      = [.loopHead { rem := 10, handed := 0, total := 10 } false, .idle .none] ∧
    (run fixedCfg (init 32768 32768 32768 2 false) [.shutdownWrite 1, .emit 1, .sendall 0 10 false, .iter 0]).thr
      = [.idle .sockClosed, .idle .none] := by
  decide +kernel

/-- non-vacuity: a 10000-byte sendall through a 4096-byte packet limit and a 5000-byte window, blocked once,
    completed after an adjustment; and one interrupted by close() while asleep -/
example :
    (run fixedCfg (init 32768 5000 4096 2 false)
      [.sendall 0 10000 true, .iter 0, .emit 0, .iter 0, .emit 0, .iter 0, .adjust 6000, .wake 0 1, .emit 0,
       .iter 0, .emit 0]).thr[0]? = some (.idle (.doneAll 10000 10000)) ∧
    (run fixedCfg (init 32768 100 4096 2 false)
      [.sendall 0 500 false, .iter 0, .emit 0, .iter 0, .close 1, .wake 0 0]).thr[0]? = some (.idle .sockClosed) := by
  decide +kernel

/-! ## a blocked sendall is woken when window arrives (several senders parked on one channel) -/

/-- `_window_adjust` wakes ALL sleepers (every `out_buffer_cv.notify…` call site in `_window_adjust`, from the AST
    of channel.py on this run, is `notify_all`, and there is one) -/
theorem window_adjust_notifies_all :
    (PV.Generated.ChanLock.notifies.filter (·.caller == "_window_adjust")).all (·.all) = true ∧
    (PV.Generated.ChanLock.notifies.filter (·.caller == "_window_adjust")) ≠ [] := by
  decide

/-- **No sendall is left asleep with window available.**  Strict scheduling (a sleeper runs again only when the
    code notified it or its timeout expired), any number of threads blocked in sendall / sendall_stderr / send on
    the channel, every schedule: a sender that is asleep in `_wait_for_send_window` while `out_window_size > 0` has
    a notification pending — so it runs, and `wakeup_raises_or_shortens` applies: it raises or gets its bytes out.
    (With `notify()` in `_window_adjust` this is false: PV.Props.C20.notify_one_strands_second_sender_witness.) -/
theorem blocked_sendall_is_notified (n : NCfg) (hn : n.adjustAll = true) (cfg : Cfg)
    (inWin peerWin peerMax nthr : Nat) (c : Bool) (sched : List Act) (t : Nat) :
    isWaitingAt (nrun n cfg (ninit (init inWin peerWin peerMax nthr c)) sched).base t = true →
    0 < (nrun n cfg (ninit (init inWin peerWin peerMax nthr c)) sched).base.outWin →
    t ∈ (nrun n cfg (ninit (init inWin peerWin peerMax nthr c)) sched).sig := by
  intro hw ho
  have h0 : NoLost (ninit (init inWin peerWin peerMax nthr c)) := by
    intro u hu _
    simp only [ninit, isWaitingAt, init] at hu
    by_cases hlt : u < nthr
    · simp [hlt, TSt.isWaiting] at hu
    · simp [hlt] at hu
  have hi := nrun_nolost n hn cfg _ sched h0
  cases hm : decide (t ∈ (nrun n cfg (ninit (init inWin peerWin peerMax nthr c)) sched).sig) with
  | true => exact of_decide_eq_true hm
  | false =>
    have := hi t hw (of_decide_eq_false hm)
    omega

/-! ## transport loss: channels are closed before the transport starts dropping packets -/

/-- **In the tail of `Transport.run()` every channel is unlinked (closed) BEFORE the transport is marked inactive**
    (order of the statements after the except ladder, from the AST of transport.py on this run).
    `_send_user_message` silently drops a packet once `active` is false; that is safe only because by then
    `Channel._send` raises "Socket is closed" — the model's `unlink` action comes first.  With the order reversed a
    `sendall` in between returns normally for bytes the transport dropped. -/
theorem channels_unlinked_before_transport_inactive :
    "unlink_channels" ∈ PV.Generated.C25.runTail ∧ "set_inactive" ∈ PV.Generated.C25.runTail ∧
    PV.Generated.C25.runTail.idxOf "unlink_channels" < PV.Generated.C25.runTail.idxOf "set_inactive" := by
  decide

end PV.Props.C25
