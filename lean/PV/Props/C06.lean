/-
  C06 — Key exchange agrees on a secret and authenticates the server's host key.
  Property theorems only.  Model: PV/Model/Kex.lean; helpers: PV/Model/KexLemmas.lean.

  Level: partial.  Proved: what paramiko's own code contributes — both roles derive the same K, feed
  byte-identical input to the hash and publish the same (K, H); a client that completes has had
  `_verify_key(host key shown, H, signature)` succeed; the session id is the first H for any
  number of exchanges; the hash input determines every reply field.  Assumed (hypotheses, never
  axioms): the EC library's Diffie-Hellman law (`CurveLaws`), collision-freeness of the hash on
  the inputs compared, and unforgeability of the host-key signature (`Unforgeable`).
  Finite-field Diffie-Hellman is not assumed: it is proved (`dh_agree`).
-/
import PV.Model.KexLemmas
import PV.Model.Connect
import PV.Props.C39
namespace PV.Props.C06
open PV PV.Wire PV.Kex

/-! ## the shared secret -/

/-- finite-field DH: the client's `f^x_c mod p` is the server's `e^x_s mod p`, for every group -/
theorem dh_agree (g p xc xs : Nat) :
    powMod (powMod g xs p) xc p = powMod (powMod g xc p) xs p := dh_comm g xs xc p

/-- the same in ordinary notation -/
theorem dh_agree_pow (g p xc xs : Nat) : (g ^ xs % p) ^ xc % p = (g ^ xc % p) ^ xs % p := by
  have := dh_agree g p xc xs
  simpa [powMod_eq] using this

/-- group exchange computes with Python's three-argument `pow` on ints: same law -/
theorem dh_agree_gex (g p xc xs : Nat) :
    pyPow (pyPow (g : Int) xs p : Nat) xc p = pyPow (pyPow (g : Int) xc p : Nat) xs p := by
  simp only [pyPow_nat']
  exact dh_agree g p xc xs

/-- what is assumed of the curve library (ECDH / X25519) -/
structure CurveLaws (cv : Curve) : Prop where
  decode_pub : ∀ d, cv.decode (cv.pub d) = true
  comm : ∀ a b, cv.exchange a (cv.pub b) = cv.exchange b (cv.pub a)
  pub_len : ∀ d, (cv.pub d).length < 4294967296

private theorem toyQ_lt : toyQ < 256 ^ 16 := by decide
private theorem toyQ_lt32 : toyQ < 256 ^ 32 := by decide
private theorem toyQ_pos : 0 < toyQ := by decide

/-- the laws are satisfiable: both toy curves have them -/
theorem toyNist_laws : CurveLaws toyNist where
  decode_pub d := by
    have hlt := powMod_lt 3 d toyQ toyQ_pos
    have hv : beVal (beBytes 16 (powMod 3 d toyQ)) = powMod 3 d toyQ :=
      beVal_beBytes_of_lt 16 _ (Nat.lt_trans hlt toyQ_lt)
    simp [toyNist, hv, hlt]
  comm a b := by
    have ha := powMod_lt 3 a toyQ toyQ_pos
    have hb := powMod_lt 3 b toyQ toyQ_pos
    have hva : beVal (beBytes 16 (powMod 3 a toyQ)) = powMod 3 a toyQ :=
      beVal_beBytes_of_lt 16 _ (Nat.lt_trans ha toyQ_lt)
    have hvb : beVal (beBytes 16 (powMod 3 b toyQ)) = powMod 3 b toyQ :=
      beVal_beBytes_of_lt 16 _ (Nat.lt_trans hb toyQ_lt)
    simp [toyNist, hva, hvb, dh_comm 3 b a toyQ]
  pub_len d := by simp [toyNist]

theorem toyX_laws : CurveLaws toyX where
  decode_pub d := by simp [toyX]
  comm a b := by
    have ha := powMod_lt 3 a toyQ toyQ_pos
    have hb := powMod_lt 3 b toyQ toyQ_pos
    have hva : beVal (beBytes 32 (powMod 3 a toyQ)) = powMod 3 a toyQ :=
      beVal_beBytes_of_lt 32 _ (Nat.lt_trans ha toyQ_lt32)
    have hvb : beVal (beBytes 32 (powMod 3 b toyQ)) = powMod 3 b toyQ :=
      beVal_beBytes_of_lt 32 _ (Nat.lt_trans hb toyQ_lt32)
    have na : powMod 3 a toyQ ≠ toyQ + 1 := by omega
    have nb : powMod 3 b toyQ ≠ toyQ + 1 := by omega
    simp [toyX, hva, hvb, na, nb, dh_comm 3 b a toyQ]
  pub_len d := by simp [toyX]

/-! ## both roles hash the same bytes and publish the same (K, H) -/

/-- the two ends of one connection: the same version strings and KEXINIT payloads seen from
    opposite sides, the same hash -/
structure Mirror (c s : Env) : Prop where
  cm : c.serverMode = false
  sm : s.serverMode = true
  lv : s.localVersion = c.remoteVersion
  rv : s.remoteVersion = c.localVersion
  lk : s.localKexInit = c.remoteKexInit
  rk : s.remoteKexInit = c.localKexInit
  hash : s.hash = c.hash

private theorem inflate_mpintBody (z : Int) : inflate (mpintBody z) = z := by
  unfold mpintBody
  by_cases h : z = 0
  · subst h; rfl
  · simp only [h, if_false]; exact PV.Props.C39.inflate_deflate z

private theorem first_mpint (z : Int) (rest : Bytes) (h : (mpintBody z).length < 4294967296) :
    inflate ((rd (encMpint z ++ rest)).getString.1) = z := by
  rw [encMpint_eq, getString_head _ _ h]; exact inflate_mpintBody z

/-- Fixed groups (group1/14/16), any modulus: an undisturbed exchange.  The server's KEXDH_INIT
    handler and the client's KEXDH_REPLY handler hash the SAME bytes (`hin`, the RFC 4253 §8 input),
    call `_set_K_H` with the SAME `K` and `H`, and the client verifies the signature the server
    made over that `H` under the key it was shown; it activates iff that verification succeeds. -/
theorem grp_honest (c s : Env) (g : Group) (xc xs : Nat) (hm : Mirror c s)
    (hP : 0 < g.P) (he : 1 ≤ powMod g.G xc g.P) (hf : 1 ≤ powMod g.G xs g.P)
    (hk : s.hostKey.length < 4294967296) (hsig : ∀ H, (s.sign H).length < 4294967296)
    (hme : (mpintBody (powMod g.G xc g.P : Nat)).length < 4294967296)
    (hmf : (mpintBody (powMod g.G xs g.P : Nat)).length < 4294967296) :
    let e : Int := (powMod g.G xc g.P : Nat)
    let f : Int := (powMod g.G xs g.P : Nat)
    let K := powMod (powMod g.G xs g.P) xc g.P
    let hin := hashInGroup c.localVersion c.remoteVersion c.localKexInit c.remoteKexInit s.hostKey e f K
    let H := c.hash hin
    let reply := encStr s.hostKey ++ encMpint f ++ encStr (s.sign H)
    (grpStart c g xc).2 = [.send (30 :: encMpint e), .expect [31]] ∧
    (grpInit s g (grpStart s g xs).1 (encMpint e)).eff
        = [.hashed hin, .setKH K H, .send (31 :: reply), .activate] ∧
    (grpReply c g (grpStart c g xc).1 reply).eff
        = [.hashed hin, .setKH K H, .verifyKey s.hostKey (s.sign H)] ++
          (if c.verify s.hostKey H (s.sign H) then [.activate] else []) := by
  intro e f K hin H reply
  have hlte : powMod g.G xc g.P < g.P := powMod_lt _ _ _ hP
  have hltf : powMod g.G xs g.P < g.P := powMod_lt _ _ _ hP
  refine ⟨by simp [grpStart, hm.cm, e], ?_, ?_⟩
  · have hparse : inflate ((rd (encMpint e)).getString.1) = e := by
      have := first_mpint e [] hme
      rwa [List.append_nil] at this
    have hr : ¬ (e < 1 ∨ e > (g.P : Int) - 1) := by omega
    simp only [grpInit, hparse, hr, if_false, grpStart, hm.sm, if_true]
    simp [dh_comm g.G xc xs g.P, hin, H, K, reply, hashInGroup, hm.lv, hm.rv, hm.lk, hm.rk, hm.hash, f, e]
  · have hp3 := parse3 s.hostKey (mpintBody f) (s.sign H) hk hmf (hsig H)
    have hr : ¬ (f < 1 ∨ f > (g.P : Int) - 1) := by omega
    simp only [grpReply, reply, encMpint_eq, hp3.1, hp3.2.1, hp3.2.2, inflate_mpintBody, hr, if_false,
      grpStart, hm.cm, Bool.false_eq_true]
    have hh : encStr c.localVersion ++ encStr c.remoteVersion ++ encStr c.localKexInit ++
        encStr c.remoteKexInit ++ encStr s.hostKey ++ encStr (mpintBody ↑(powMod g.G xc g.P)) ++
        encStr (mpintBody f) ++ encStr (mpintBody ↑(powMod f.toNat xc g.P)) = hin := rfl
    rw [hh]
    have hK : powMod f.toNat xc g.P = K := rfl
    rw [hK]
    cases hv : c.verify s.hostKey H (s.sign H) <;> simp [H] at hv ⊢ <;> simp [hv, H]

/-- Group exchange, from the point where both sides hold the group: same sizes, same style, same
    `p`, `g` (see `gex_request_agrees` / `gex_group_agrees` for how they get there).  Same statement. -/
theorem gex_honest (c s : Env) (cs ss : GexSt) (p g : Nat) (xc xs : Nat) (hm : Mirror c s)
    (hcp : cs.p = some (p : Int)) (hcg : cs.g = some (g : Int)) (hcx : cs.x = some xc)
    (hce : cs.e = some ((pyPow (g : Int) xc p : Nat) : Int))
    (hsp : ss.p = some (p : Int)) (hsg : ss.g = some (g : Int))
    (hmin : ss.minBits = cs.minBits) (hpref : ss.prefBits = cs.prefBits) (hmax : ss.maxBits = cs.maxBits)
    (hold : ss.oldStyle = cs.oldStyle)
    (hp : 0 < p) (he : 1 ≤ pyPow (g : Int) xc p) (hf : 1 ≤ pyPow (g : Int) xs p)
    (hk : s.hostKey.length < 4294967296) (hsig : ∀ H, (s.sign H).length < 4294967296)
    (hme : (mpintBody (pyPow (g : Int) xc p : Nat)).length < 4294967296)
    (hmf : (mpintBody (pyPow (g : Int) xs p : Nat)).length < 4294967296) :
    let e : Int := (pyPow (g : Int) xc p : Nat)
    let f : Int := (pyPow (g : Int) xs p : Nat)
    let K := pyPow f xc p
    let hin := hashInGex c.localVersion c.remoteVersion c.localKexInit c.remoteKexInit s.hostKey
      cs.oldStyle cs.minBits cs.prefBits cs.maxBits p g e f K
    let H := c.hash hin
    let reply := encStr s.hostKey ++ encMpint f ++ encStr (s.sign H)
    (gexInit s ss (encMpint e) xs).eff = [.hashed hin, .setKH K H, .send (33 :: reply), .activate] ∧
    (gexReply c cs reply).eff
        = [.hashed hin, .setKH K H, .verifyKey s.hostKey (s.sign H)] ++
          (if c.verify s.hostKey H (s.sign H) then [.activate] else []) := by
  intro e f K hin H reply
  have hlte : pyPow (g : Int) xc p < p := by rw [pyPow_nat']; exact powMod_lt _ _ _ hp
  have hltf : pyPow (g : Int) xs p < p := by rw [pyPow_nat']; exact powMod_lt _ _ _ hp
  have hKK : pyPow e xs p = K := dh_agree_gex g p xc xs |>.symm ▸ rfl
  constructor
  · have hparse : inflate ((rd (encMpint e)).getString.1) = e := by
      have := first_mpint e [] hme
      rwa [List.append_nil] at this
    have h1 : ¬ e < 1 := by omega
    have h2 : ¬ e > (p : Int) - 1 := by omega
    simp only [gexInit, hparse, h1, if_false, hsp, hsg, h2, Int.toNat_natCast]
    simp [hKK, hin, H, reply, hashInGex, hm.lv, hm.rv, hm.lk, hm.rk, hm.hash, f, hmin, hpref,
      hmax, hold]
  · have hp3 := parse3 s.hostKey (mpintBody f) (s.sign H) hk hmf (hsig H)
    have h1 : ¬ f < 1 := by omega
    have h2 : ¬ f > (p : Int) - 1 := by omega
    simp only [gexReply, reply, encMpint_eq, hp3.1, hp3.2.1, hp3.2.2, inflate_mpintBody, h1, if_false,
      hcp, hcg, hcx, hce, h2, Int.toNat_natCast]
    have hh : encStr c.localVersion ++ encStr c.remoteVersion ++ encStr c.localKexInit ++
        encStr c.remoteKexInit ++ encStr s.hostKey ++ gexSizes cs.oldStyle cs.minBits cs.prefBits cs.maxBits ++
        encStr (mpintBody ↑p) ++ encStr (mpintBody ↑g) ++ encStr (mpintBody ↑(pyPow (↑g) xc p)) ++
        encStr (mpintBody f) ++ encStr (mpintBody ↑(pyPow f xc p)) = hin := by
      simp [hin, hashInGex, encMpint_eq, e, K]
    rw [hh]
    cases hv : c.verify s.hostKey H (s.sign H) <;> simp [H] at hv ⊢ <;> simp [hv, H, K]

/-- how the two sides get the same sizes: the server stores the request's three numbers
    unchanged whenever they are consistent and the preference lies within its own limits
    (paramiko's client always sends 1024 ≤ 2048 ≤ 8192), and answers with the pack's group -/
theorem gex_request_agrees (s : Env) (mn n mx g p : Nat)
    (hmn : mn < 4294967296) (hn : n < 4294967296) (hmx : mx < 4294967296)
    (h1 : mn ≤ n) (h2 : n ≤ mx) (h3 : 1024 ≤ n) (h4 : n ≤ 8192)
    (hpack : s.modulus mn n mx = some (g, p)) :
    (gexRequest s {} (be32 mn ++ be32 n ++ be32 mx)).eff = [.send (31 :: (encMpint p ++ encMpint g)), .expect [32]] ∧
    (gexRequest s {} (be32 mn ++ be32 n ++ be32 mx)).out
      = .ok { p := some (p : Int), g := some (g : Int), minBits := mn, prefBits := n, maxBits := mx } := by
  have i1 := getInt_exact [] (be32 n ++ be32 mx) mn hmn
  have i2 := getInt_exact (be32 mn) (be32 mx) n hn
  have i3 := getInt_exact (be32 mn ++ be32 n) [] mx hmx
  simp only [List.nil_append, List.length_nil, List.append_nil] at i1 i2 i3
  have e1 : be32 mn ++ be32 n ++ be32 mx = be32 mn ++ (be32 n ++ be32 mx) := List.append_assoc _ _ _
  have l1 : (be32 mn).length = 4 := by simp [be32]
  have l2 : (be32 mn ++ be32 n).length = 0 + 4 + 4 := by simp [be32]
  rw [l1] at i2
  rw [l2] at i3
  have hc : clampPref n 1024 8192 = n := by
    unfold clampPref
    have a : ¬ n > 8192 := by omega
    have b : ¬ n < 1024 := by omega
    simp [a, b]
  have a1 : ¬ mn > n := by omega
  have a2 : ¬ mx < n := by omega
  unfold gexRequest rd
  simp only
  rw [e1, i1]
  simp only
  rw [← e1, i2]
  simp only
  rw [i3]
  simp [hc, a1, a2, hpack]

/-- the client's view after KEXDH_GEX_GROUP: it stores exactly the `p`, `g` it was sent, keeps its
    own sizes, and answers with `e = g^x mod p` -/
theorem gex_group_agrees (c : Env) (cs : GexSt) (p g x : Nat)
    (hlo : 2 ^ 1023 ≤ p) (hhi : p < 2 ^ 8192)
    (hmp : (mpintBody (p : Int)).length < 4294967296) (hmg : (mpintBody (g : Int)).length < 4294967296) :
    (gexGroup c cs (encMpint p ++ encMpint g) x).eff
        = [.send (32 :: encMpint ((pyPow (g : Int) x p : Nat) : Int)), .expect [33]] ∧
    (gexGroup c cs (encMpint p ++ encMpint g) x).out
        = .ok { cs with p := some (p : Int), g := some (g : Int), x := some x,
                        e := some ((pyPow (g : Int) x p : Nat) : Int) } := by
  have hpos : 0 < p := Nat.lt_of_lt_of_le (Nat.two_pow_pos 1023) hlo
  have hne : p ≠ 0 := by omega
  have e1 : encMpint (p : Int) ++ encMpint (g : Int) = encStr (mpintBody p) ++ encStr (mpintBody g) ++ [] := by
    simp [encMpint_eq]
  have s1 := getString_exact [] (mpintBody (p : Int)) (encStr (mpintBody (g : Int)) ++ []) hmp
  have s2 := getString_exact (encStr (mpintBody (p : Int))) (mpintBody (g : Int)) [] hmg
  simp only [List.nil_append, List.length_nil, Nat.zero_add] at s1 s2
  have hb1 : ¬ bitLength (p : Int) < 1024 := by
    unfold bitLength
    have := (le_natBits p 1023 hne).mpr hlo
    simp only [Int.natAbs_natCast]; omega
  have hb2 : ¬ bitLength (p : Int) > 8192 := by
    unfold bitLength
    have := (natBits_le p 8192 hne).mpr hhi
    simp only [Int.natAbs_natCast]; omega
  have hp1 : ¬ ((p : Int) < 1) := by omega
  unfold gexGroup rd
  simp only
  rw [e1]
  rw [List.append_assoc, s1]
  simp only
  rw [← List.append_assoc, s2]
  simp [inflate_mpintBody, hb1, hb2, hp1]

/-- Group exchange from the very first message: paramiko's client request (1024, 2048, 8192), the
    server's group from its pack, the client's `e`, the server's reply — every message is the one
    the model of the other side produced; both sides end with the same hash input, `K` and `H`. -/
theorem gex_full_honest (c s : Env) (g p xc xs : Nat) (hm : Mirror c s)
    (hpack : s.modulus 1024 2048 8192 = some (g, p))
    (hlo : 2 ^ 1023 ≤ p) (hhi : p < 2 ^ 8192)
    (he : 1 ≤ pyPow (g : Int) xc p) (hf : 1 ≤ pyPow (g : Int) xs p)
    (hk : s.hostKey.length < 4294967296) (hsig : ∀ H, (s.sign H).length < 4294967296)
    (hmp : (mpintBody (p : Int)).length < 4294967296) (hmg : (mpintBody (g : Int)).length < 4294967296)
    (hme : (mpintBody (pyPow (g : Int) xc p : Nat)).length < 4294967296)
    (hmf : (mpintBody (pyPow (g : Int) xs p : Nat)).length < 4294967296) :
    let e : Int := (pyPow (g : Int) xc p : Nat)
    let f : Int := (pyPow (g : Int) xs p : Nat)
    let K := pyPow f xc p
    let hin := hashInGex c.localVersion c.remoteVersion c.localKexInit c.remoteKexInit s.hostKey
      false 1024 2048 8192 p g e f K
    let H := c.hash hin
    let reply := encStr s.hostKey ++ encMpint f ++ encStr (s.sign H)
    -- client → server: KEXDH_GEX_REQUEST
    (gexStart c {} false).2 = [.send (34 :: (be32 1024 ++ be32 2048 ++ be32 8192)), .expect [31]] ∧
    -- server → client: KEXDH_GEX_GROUP
    ∃ ss cs, (gexRequest s {} (be32 1024 ++ be32 2048 ++ be32 8192)).out = .ok ss ∧
      (gexRequest s {} (be32 1024 ++ be32 2048 ++ be32 8192)).eff
        = [.send (31 :: (encMpint p ++ encMpint g)), .expect [32]] ∧
    -- client → server: KEXDH_GEX_INIT
      (gexGroup c (gexStart c {} false).1 (encMpint p ++ encMpint g) xc).out = .ok cs ∧
      (gexGroup c (gexStart c {} false).1 (encMpint p ++ encMpint g) xc).eff = [.send (32 :: encMpint e), .expect [33]] ∧
    -- server → client: KEXDH_GEX_REPLY, and the client's treatment of it
      (gexInit s ss (encMpint e) xs).eff = [.hashed hin, .setKH K H, .send (33 :: reply), .activate] ∧
      (gexReply c cs reply).eff = [.hashed hin, .setKH K H, .verifyKey s.hostKey (s.sign H)] ++
          (if c.verify s.hostKey H (s.sign H) then [.activate] else []) := by
  intro e f K hin H reply
  have hpos : 0 < p := Nat.lt_of_lt_of_le (Nat.two_pow_pos 1023) hlo
  have hreq := gex_request_agrees s 1024 2048 8192 g p (by decide) (by decide) (by decide) (by decide)
    (by decide) (by decide) (by decide) hpack
  have hstart : gexStart c {} false = (({} : GexSt), [.send (34 :: (be32 1024 ++ be32 2048 ++ be32 8192)), .expect [31]]) := by
    simp [gexStart, hm.cm]
  have hgrp := gex_group_agrees c {} p g xc hlo hhi hmp hmg
  have hcore := gex_honest c s
    { ({} : GexSt) with p := some (p : Int), g := some (g : Int), x := some xc, e := some ((pyPow (g : Int) xc p : Nat) : Int) }
    { p := some (p : Int), g := some (g : Int), minBits := 1024, prefBits := 2048, maxBits := 8192 }
    p g xc xs hm rfl rfl rfl rfl rfl rfl rfl rfl rfl rfl hpos he hf hk hsig hme hmf
  refine ⟨by rw [hstart], _, _, hreq.2, hreq.1, ?_, ?_, hcore.1, hcore.2⟩
  · rw [hstart]; exact hgrp.2
  · rw [hstart]; exact hgrp.1

/-- ECDH over the NIST curves: same statement, from the library's DH law -/
theorem ec_honest (c s : Env) (cv : Curve) (hl : CurveLaws cv) (dc ds : Nat) (secret : Bytes) (hm : Mirror c s)
    (hx : cv.exchange ds (cv.pub dc) = .ok secret)
    (hk : s.hostKey.length < 4294967296) (hsig : ∀ H, (s.sign H).length < 4294967296) :
    let K := beVal secret
    let hin := hashInEcdh c.localVersion c.remoteVersion c.localKexInit c.remoteKexInit s.hostKey
      (cv.pub dc) (cv.pub ds) K
    let H := c.hash hin
    let reply := encStr s.hostKey ++ encStr (cv.pub ds) ++ encStr (s.sign H)
    (ecStart c cv dc).2 = [.send (30 :: encStr (cv.pub dc)), .expect [31]] ∧
    (ecInit s cv (ecStart s cv ds).1 (encStr (cv.pub dc))).eff
        = [.hashed hin, .setKH K H, .send (31 :: reply), .activate] ∧
    (ecReply c cv (ecStart c cv dc).1 reply).eff
        = [.hashed hin, .setKH K H, .verifyKey s.hostKey (s.sign H)] ++
          (if c.verify s.hostKey H (s.sign H) then [.activate] else []) := by
  intro K hin H reply
  refine ⟨by simp [ecStart, hm.cm], ?_, ?_⟩
  · have hparse : (rd (encStr (cv.pub dc))).getString.1 = cv.pub dc := by
      have := getString_head (cv.pub dc) [] (hl.pub_len dc)
      rw [List.append_nil] at this
      rw [this]
    simp only [ecInit, hparse, hl.decode_pub, ecStart, hm.sm, if_true, hx]
    simp [hin, H, K, reply, hashInEcdh, hm.lv, hm.rv, hm.lk, hm.rk, hm.hash]
  · have hp3 := parse3 s.hostKey (cv.pub ds) (s.sign H) hk (hl.pub_len ds) (hsig H)
    have hx' : cv.exchange dc (cv.pub ds) = .ok secret := by rw [hl.comm]; exact hx
    simp only [ecReply, reply, hp3.1, hp3.2.1, hp3.2.2, hl.decode_pub, ecStart, hm.cm, hx',
      Bool.false_eq_true, if_false]
    have hh : encStr c.localVersion ++ encStr c.remoteVersion ++ encStr c.localKexInit ++
        encStr c.remoteKexInit ++ encStr s.hostKey ++ encStr (cv.pub dc) ++ encStr (cv.pub ds) ++
        encMpint ↑(beVal secret) = hin := rfl
    rw [hh]
    cases hv : c.verify s.hostKey H (s.sign H) <;> simp [H] at hv ⊢ <;> simp [hv, H, K]

/-- X25519: same statement (the honest secret is not all-zero) -/
theorem cv_honest (c s : Env) (cv : Curve) (hl : CurveLaws cv) (dc ds : Nat) (secret : Bytes) (hm : Mirror c s)
    (hx : cv.exchange ds (cv.pub dc) = .ok secret) (hnz : secret ≠ zeros 32)
    (hk : s.hostKey.length < 4294967296) (hsig : ∀ H, (s.sign H).length < 4294967296) :
    let K := beVal secret
    let hin := hashInEcdh c.localVersion c.remoteVersion c.localKexInit c.remoteKexInit s.hostKey
      (cv.pub dc) (cv.pub ds) K
    let H := c.hash hin
    let reply := encStr s.hostKey ++ encStr (cv.pub ds) ++ encStr (s.sign H)
    (cvStart c cv dc).2 = [.send (30 :: encStr (cv.pub dc)), .expect [31]] ∧
    (cvInit s cv (cvStart s cv ds).1 (encStr (cv.pub dc))).eff
        = [.hashed hin, .setKH K H, .send (31 :: reply), .activate] ∧
    (cvReply c cv (cvStart c cv dc).1 reply).eff
        = [.hashed hin, .setKH K H, .verifyKey s.hostKey (s.sign H)] ++
          (if c.verify s.hostKey H (s.sign H) then [.activate] else []) := by
  intro K hin H reply
  refine ⟨by simp [cvStart, hm.cm], ?_, ?_⟩
  · have hparse : (rd (encStr (cv.pub dc))).getString.1 = cv.pub dc := by
      have := getString_head (cv.pub dc) [] (hl.pub_len dc)
      rw [List.append_nil] at this
      rw [this]
    have hxx : cvExchange cv ds (cv.pub dc) = .ok secret := by simp [cvExchange, hx, hnz]
    simp only [cvInit, hparse, hl.decode_pub, cvStart, hm.sm, if_true, hxx]
    simp [hin, H, K, reply, hashInEcdh, hm.lv, hm.rv, hm.lk, hm.rk, hm.hash]
  · have hp3 := parse3 s.hostKey (cv.pub ds) (s.sign H) hk (hl.pub_len ds) (hsig H)
    have hx' : cv.exchange dc (cv.pub ds) = .ok secret := by rw [hl.comm]; exact hx
    have hxx : cvExchange cv dc (cv.pub ds) = .ok secret := by simp [cvExchange, hx', hnz]
    simp only [cvReply, reply, hp3.1, hp3.2.1, hp3.2.2, hl.decode_pub, cvStart, hm.cm, hxx,
      Bool.false_eq_true, if_false]
    have hh : encStr c.localVersion ++ encStr c.remoteVersion ++ encStr c.localKexInit ++
        encStr c.remoteKexInit ++ encStr s.hostKey ++ encStr (cv.pub dc) ++ encStr (cv.pub ds) ++
        encMpint ↑(beVal secret) = hin := rfl
    rw [hh]
    cases hv : c.verify s.hostKey H (s.sign H) <;> simp [H] at hv ⊢ <;> simp [hv, H, K]

/-! ## completion implies a verified signature over H under the key that was shown -/

/-- what a completed client step looks like: hash, publish, verify — and the verification succeeded -/
def Verified (c : Env) (eff : List Effect) : Prop :=
  ∃ hin K hk sig, eff = [.hashed hin, .setKH K (c.hash hin), .verifyKey hk sig, .activate] ∧
    c.verify hk (c.hash hin) sig = true

theorem grp_completion_verified (c : Env) (g : Group) (st : GrpSt) (m : Bytes)
    (h : Effect.activate ∈ (grpReply c g st m).eff) : Verified c (grpReply c g st m).eff := by
  generalize hres : grpReply c g st m = r at h ⊢
  unfold grpReply at hres
  simp only at hres
  split at hres
  · subst hres; simp at h
  · split at hres
    · rename_i hv; subst hres; exact ⟨_, _, _, _, rfl, hv⟩
    · subst hres; simp at h

theorem gex_completion_verified (c : Env) (st : GexSt) (m : Bytes)
    (h : Effect.activate ∈ (gexReply c st m).eff) : Verified c (gexReply c st m).eff := by
  generalize hres : gexReply c st m = r at h ⊢
  unfold gexReply at hres
  simp only at hres
  split at hres
  · subst hres; simp at h
  · split at hres
    · split at hres
      · subst hres; simp at h
      · split at hres
        · rename_i hv; subst hres; exact ⟨_, _, _, _, rfl, hv⟩
        · subst hres; simp at h
    · subst hres; simp at h

theorem ec_completion_verified (c : Env) (cv : Curve) (st : EcSt) (m : Bytes)
    (h : Effect.activate ∈ (ecReply c cv st m).eff) : Verified c (ecReply c cv st m).eff := by
  generalize hres : ecReply c cv st m = r at h ⊢
  unfold ecReply at hres
  simp only at hres
  split at hres
  · subst hres; simp at h
  · split at hres
    · subst hres; simp at h
    · split at hres
      · subst hres; simp at h
      · split at hres
        · rename_i hv; subst hres; exact ⟨_, _, _, _, rfl, hv⟩
        · subst hres; simp at h

theorem cv_completion_verified (c : Env) (cv : Curve) (st : EcSt) (m : Bytes)
    (h : Effect.activate ∈ (cvReply c cv st m).eff) : Verified c (cvReply c cv st m).eff := by
  generalize hres : cvReply c cv st m = r at h ⊢
  unfold cvReply at hres
  simp only at hres
  split at hres
  · subst hres; simp at h
  · split at hres
    · subst hres; simp at h
    · split at hres
      · rename_i hv; subst hres; exact ⟨_, _, _, _, rfl, hv⟩
      · subst hres; simp at h

/-! ## … and this holds for EVERY exchange of a connection, behind `Transport.run()`'s gate -/
/-- the effects of the engine step that `Transport.run()` performs for one packet (empty when
    the packet does not reach the engine) -/
def stepEff (c : Env) (en : Engine) (s : Sess) (pkt : Nat × Bytes × Nat) : List Effect :=
  if s.dead.isSome then []
  else if s.expected = [] then []
  else if pkt.1 ∉ s.expected then []
  else if pkt.1 < 30 ∨ pkt.1 > 41 then []
  else (en.next c s.st pkt.1 pkt.2.1 pkt.2.2).eff

/-- the per-packet effect lists of a whole exchange -/
def stepEffs (c : Env) (en : Engine) : Sess → List (Nat × Bytes × Nat) → List (List Effect)
  | _, [] => []
  | s, p :: ps => stepEff c en s p :: stepEffs c en (Sess.feed c en s p) ps

/-- what a client may be waiting for while a group exchange is in progress -/
def ClientExpect (s : Sess) : Prop := ∀ t ∈ s.expected, t = 31 ∨ t = 33 ∨ t = 21

private theorem mapRes_eff {α β : Type} (f : α → β) (r : Res α) : (mapRes f r).eff = r.eff := rfl

private theorem gexRequest_no_activate (c : Env) (st : GexSt) (m : Bytes) :
    Effect.activate ∉ (gexRequest c st m).eff := by
  unfold gexRequest; simp only; split <;> simp

private theorem gexGroup_eff (c : Env) (st : GexSt) (m : Bytes) (x : Nat) :
    (gexGroup c st m x).eff = [] ∨ ∃ b, (gexGroup c st m x).eff = [.send b, .expect [33]] := by
  unfold gexGroup; simp only; split
  · exact Or.inl rfl
  · exact Or.inr ⟨_, rfl⟩

private theorem gexReply_eff (c : Env) (st : GexSt) (m : Bytes) :
    (gexReply c st m).eff = [] ∨ (∃ a k h hk sg, (gexReply c st m).eff = [.hashed a, .setKH k h, .verifyKey hk sg, .activate]) ∨
      (∃ a k h hk sg, (gexReply c st m).eff = [.hashed a, .setKH k h, .verifyKey hk sg]) := by
  unfold gexReply; simp only
  split
  · exact Or.inl rfl
  · split
    · split
      · exact Or.inl rfl
      · split
        · exact Or.inr (Or.inl ⟨_, _, _, _, _, rfl⟩)
        · exact Or.inr (Or.inr ⟨_, _, _, _, _, rfl⟩)
    · exact Or.inl rfl

/-- a client step that reaches NEWKEYS has verified — for every engine, from every state the
    run loop can be in (so: in the first exchange and in every re-exchange alike) -/
theorem step_completion_verified (c : Env) (en : Engine) (s : Sess) (pkt : Nat × Bytes × Nat)
    (hc : c.serverMode = false) (hexp : ClientExpect s)
    (h : Effect.activate ∈ stepEff c en s pkt) : Verified c (stepEff c en s pkt) := by
  unfold stepEff at h ⊢
  by_cases hd : s.dead.isSome = true
  · simp [hd] at h
  by_cases he : s.expected = []
  · simp [hd, he] at h
  by_cases hin : pkt.1 ∉ s.expected
  · simp [hd, he, hin] at h
  by_cases hr : pkt.1 < 30 ∨ pkt.1 > 41
  · simp [hd, he, hin, hr] at h
  simp only [hd, he, hin, hr, if_false] at h ⊢
  have hin' : pkt.1 ∈ s.expected := by simpa using hin
  have ht := hexp _ hin'
  cases en with
| grp g =>
  cases hst : s.st with
  | grp gs =>
    simp only [hst] at h ⊢
    simp only [Engine.next, mapRes_eff, grpNext, hc] at h ⊢
    by_cases h31 : pkt.1 = 31
    · simp only [h31] at h ⊢
      simp only [Bool.false_eq_true, false_and, if_false, not_false_eq_true, true_and, if_true] at h ⊢
      exact grp_completion_verified c g gs _ h
    · simp [h31] at h
  | gex _ => simp only [hst] at h; simp [Engine.next] at h
  | ec _ => simp only [hst] at h; simp [Engine.next] at h
| gex =>
  cases hst : s.st with
  | gex gs =>
    simp only [hst] at h ⊢
    simp only [Engine.next, mapRes_eff, gexNext] at h ⊢
    rcases ht with h31 | h33 | h21
    · simp only [h31] at h ⊢
      simp only [show (31 : Nat) ≠ 34 by decide, if_false, if_true] at h
      rcases gexGroup_eff c gs pkt.2.1 pkt.2.2 with e | ⟨b, e⟩ <;> rw [e] at h <;> simp at h
    · simp only [h33] at h ⊢
      simp only [show (33 : Nat) ≠ 34 by decide, show (33 : Nat) ≠ 31 by decide,
        show (33 : Nat) ≠ 32 by decide, if_false, if_true] at h ⊢
      exact gex_completion_verified c gs _ h
    · simp [h21] at h
  | grp _ => simp only [hst] at h; simp [Engine.next] at h
  | ec _ => simp only [hst] at h; simp [Engine.next] at h
| nist cv =>
  cases hst : s.st with
  | ec es =>
    simp only [hst] at h ⊢
    simp only [Engine.next, mapRes_eff, ecNext, hc] at h ⊢
    by_cases h31 : pkt.1 = 31
    · simp only [h31] at h ⊢
      simp only [Bool.false_eq_true, false_and, if_false, not_false_eq_true, true_and, if_true] at h ⊢
      exact ec_completion_verified c cv es _ h
    · simp [h31] at h
  | grp _ => simp only [hst] at h; simp [Engine.next] at h
  | gex _ => simp only [hst] at h; simp [Engine.next] at h
| c25519 cv =>
  cases hst : s.st with
  | ec es =>
    simp only [hst] at h ⊢
    simp only [Engine.next, mapRes_eff, cvNext, hc] at h ⊢
    by_cases h31 : pkt.1 = 31
    · simp only [h31] at h ⊢
      simp only [Bool.false_eq_true, false_and, if_false, not_false_eq_true, true_and, if_true] at h ⊢
      exact cv_completion_verified c cv es _ h
    · simp [h31] at h
  | grp _ => simp only [hst] at h; simp [Engine.next] at h
  | gex _ => simp only [hst] at h; simp [Engine.next] at h


private theorem grpReply_eff (c : Env) (g : Group) (st : GrpSt) (m : Bytes) :
    ((grpReply c g st m).eff = [] ∧ ∃ e, (grpReply c g st m).out = .error e) ∨
    (∃ a k h hk sg, (grpReply c g st m).eff = [.hashed a, .setKH k h, .verifyKey hk sg, .activate]) ∨
    (∃ e, (grpReply c g st m).out = .error e) := by
  unfold grpReply; simp only
  split
  · exact Or.inl ⟨rfl, _, rfl⟩
  · split
    · exact Or.inr (Or.inl ⟨_, _, _, _, _, rfl⟩)
    · exact Or.inr (Or.inr ⟨_, rfl⟩)

private theorem ecReply_eff (c : Env) (cv : Curve) (st : EcSt) (m : Bytes) :
    (∃ a k h hk sg, (ecReply c cv st m).eff = [.hashed a, .setKH k h, .verifyKey hk sg, .activate]) ∨
    (∃ e, (ecReply c cv st m).out = .error e) := by
  unfold ecReply; simp only
  split
  · exact Or.inr ⟨_, rfl⟩
  · split
    · exact Or.inr ⟨_, rfl⟩
    · split
      · exact Or.inr ⟨_, rfl⟩
      · split
        · exact Or.inl ⟨_, _, _, _, _, rfl⟩
        · exact Or.inr ⟨_, rfl⟩

private theorem cvReply_eff (c : Env) (cv : Curve) (st : EcSt) (m : Bytes) :
    (∃ a k h hk sg, (cvReply c cv st m).eff = [.hashed a, .setKH k h, .verifyKey hk sg, .activate]) ∨
    (∃ e, (cvReply c cv st m).out = .error e) := by
  unfold cvReply; simp only
  split
  · exact Or.inr ⟨_, rfl⟩
  · split
    · exact Or.inr ⟨_, rfl⟩
    · split
      · exact Or.inl ⟨_, _, _, _, _, rfl⟩
      · exact Or.inr ⟨_, rfl⟩

private theorem gexReply_ok_eff (c : Env) (st : GexSt) (m : Bytes) :
    (∃ a k h hk sg, (gexReply c st m).eff = [.hashed a, .setKH k h, .verifyKey hk sg, .activate]) ∨
    (∃ e, (gexReply c st m).out = .error e) := by
  unfold gexReply; simp only
  split
  · exact Or.inr ⟨_, rfl⟩
  · split
    · split
      · exact Or.inr ⟨_, rfl⟩
      · split
        · exact Or.inl ⟨_, _, _, _, _, rfl⟩
        · exact Or.inr ⟨_, rfl⟩
    · exact Or.inr ⟨_, rfl⟩

private theorem gexGroup_ok_eff (c : Env) (st : GexSt) (m : Bytes) (x : Nat) :
    (∃ b, (gexGroup c st m x).eff = [.send b, .expect [33]]) ∨ (∃ e, (gexGroup c st m x).out = .error e) := by
  unfold gexGroup; simp only; split
  · exact Or.inr ⟨_, rfl⟩
  · exact Or.inl ⟨_, rfl⟩

private theorem mapRes_out_ok {α β : Type} (f : α → β) (r : Res α) (b : β) (h : (mapRes f r).out = .ok b) :
    ∃ a, r.out = .ok a := by
  unfold mapRes at h
  cases hr : r.out with
  | ok a => exact ⟨a, rfl⟩
  | error e => rw [hr] at h; cases h

/-- on a client, a successful engine step for a packet of type 31 or 33 leaves the transport
    waiting for 33 or for NEWKEYS — never for a server-side message type -/
private theorem client_step_expected (c : Env) (en : Engine) (st st' : ESt) (t : Nat) (m : Bytes) (x : Nat)
    (hc : c.serverMode = false) (ht : t = 31 ∨ t = 33)
    (hok : (en.next c st t m x).out = .ok st') :
    ∀ t' ∈ expectedAfter [] (en.next c st t m x).eff, t' = 31 ∨ t' = 33 ∨ t' = 21 := by
  cases en with
  | grp g =>
    cases st with
    | grp gs =>
      simp only [Engine.next, grpNext, hc] at hok ⊢
      by_cases h31 : t = 31
      · simp only [h31, Bool.false_eq_true, false_and, if_false, not_false_eq_true, true_and, if_true] at hok ⊢
        obtain ⟨a, ha⟩ := mapRes_out_ok _ _ _ hok
        rcases grpReply_eff c g gs m with ⟨_, e, he⟩ | ⟨a', k, h, hk, sg, e⟩ | ⟨e, he⟩
        · rw [he] at ha; cases ha
        · rw [mapRes_eff, e]; simp [expectedAfter]
        · rw [he] at ha; cases ha
      · simp [h31, mapRes] at hok
    | gex _ => simp [Engine.next] at hok
    | ec _ => simp [Engine.next] at hok
  | gex =>
    cases st with
    | gex gs =>
      simp only [Engine.next, gexNext] at hok ⊢
      rcases ht with h31 | h33
      · simp only [h31, show (31 : Nat) ≠ 34 by decide, if_false, if_true] at hok ⊢
        obtain ⟨a, ha⟩ := mapRes_out_ok _ _ _ hok
        rcases gexGroup_ok_eff c gs m x with ⟨b, e⟩ | ⟨e, he⟩
        · rw [mapRes_eff, e]; simp [expectedAfter]
        · rw [he] at ha; cases ha
      · simp only [h33, show (33 : Nat) ≠ 34 by decide, show (33 : Nat) ≠ 31 by decide,
          show (33 : Nat) ≠ 32 by decide, if_false, if_true] at hok ⊢
        obtain ⟨a, ha⟩ := mapRes_out_ok _ _ _ hok
        rcases gexReply_ok_eff c gs m with ⟨a', k, h, hk, sg, e⟩ | ⟨e, he⟩
        · rw [mapRes_eff, e]; simp [expectedAfter]
        · rw [he] at ha; cases ha
    | grp _ => simp [Engine.next] at hok
    | ec _ => simp [Engine.next] at hok
  | nist cv =>
    cases st with
    | ec es =>
      simp only [Engine.next, ecNext, hc] at hok ⊢
      by_cases h31 : t = 31
      · simp only [h31, Bool.false_eq_true, false_and, if_false, not_false_eq_true, true_and, if_true] at hok ⊢
        obtain ⟨a, ha⟩ := mapRes_out_ok _ _ _ hok
        rcases ecReply_eff c cv es m with ⟨a', k, h, hk, sg, e⟩ | ⟨e, he⟩
        · rw [mapRes_eff, e]; simp [expectedAfter]
        · rw [he] at ha; cases ha
      · simp [h31, mapRes] at hok
    | grp _ => simp [Engine.next] at hok
    | gex _ => simp [Engine.next] at hok
  | c25519 cv =>
    cases st with
    | ec es =>
      simp only [Engine.next, cvNext, hc] at hok ⊢
      by_cases h31 : t = 31
      · simp only [h31, Bool.false_eq_true, false_and, if_false, not_false_eq_true, true_and, if_true] at hok ⊢
        obtain ⟨a, ha⟩ := mapRes_out_ok _ _ _ hok
        rcases cvReply_eff c cv es m with ⟨a', k, h, hk, sg, e⟩ | ⟨e, he⟩
        · rw [mapRes_eff, e]; simp [expectedAfter]
        · rw [he] at ha; cases ha
      · simp [h31, mapRes] at hok
    | grp _ => simp [Engine.next] at hok
    | gex _ => simp [Engine.next] at hok

theorem clientExpect_feed (c : Env) (en : Engine) (s : Sess) (pkt : Nat × Bytes × Nat)
    (hc : c.serverMode = false) (h : ClientExpect s) : ClientExpect (Sess.feed c en s pkt) := by
  unfold Sess.feed
  by_cases hd : s.dead.isSome = true
  · simpa [hd] using h
  by_cases he : s.expected = []
  · simpa [hd, he] using h
  by_cases hin : pkt.1 ∉ s.expected
  · simp only [hd, he, hin, if_true, if_false, Bool.false_eq_true]; exact h
  by_cases hr : pkt.1 < 30 ∨ pkt.1 > 41
  · simp only [hd, he, hin, hr, if_true, if_false, Bool.false_eq_true]
    intro t ht; cases ht
  simp only [hd, he, hin, hr, if_false, Bool.false_eq_true]
  have hin' : pkt.1 ∈ s.expected := by simpa using hin
  have ht : pkt.1 = 31 ∨ pkt.1 = 33 := by
    rcases h _ hin' with a | a | a
    · exact Or.inl a
    · exact Or.inr a
    · omega
  cases hout : (en.next c s.st pkt.1 pkt.2.1 pkt.2.2).out with
  | ok st' =>
    simp only
    exact client_step_expected c en s.st st' pkt.1 pkt.2.1 pkt.2.2 hc ht hout
  | error e =>
    simp only
    intro t ht'; cases ht'

theorem begin_clientExpect (c : Env) (en : Engine) (x : Nat) (hc : c.serverMode = false) :
    ClientExpect (Sess.begin c en x) := by
  cases en <;> simp [Sess.begin, Engine.start, grpStart, gexStart, ecStart, cvStart, hc, expectedAfter, ClientExpect]

/-- one exchange, any packets: every step that reaches NEWKEYS on the client has verified the
    signature over that exchange's H under the key shown in that exchange -/
theorem exchange_completions_verified (c : Env) (en : Engine) (hc : c.serverMode = false)
    (pkts : List (Nat × Bytes × Nat)) (s : Sess) (hs : ClientExpect s) :
    ∀ eff ∈ stepEffs c en s pkts, Effect.activate ∈ eff → Verified c eff := by
  induction pkts generalizing s with
  | nil => intro eff h; cases h
  | cons p ps ih =>
    intro eff h hact
    simp only [stepEffs, List.mem_cons] at h
    rcases h with rfl | h
    · exact step_completion_verified c en s p hc hs hact
    · exact ih (Sess.feed c en s p) (clientExpect_feed c en s p hc hs) eff h hact

/-- the whole connection: the first exchange and any number of re-exchanges (each starts a fresh
    engine, with its own randomness and packets): EVERY exchange that completes on the client has
    `verify(host key shown, H_i, sig_i)` — not only the first one -/
theorem every_exchange_verified (c : Env) (hc : c.serverMode = false)
    (exchanges : List (Engine × Nat × List (Nat × Bytes × Nat))) :
    ∀ ex ∈ exchanges, ∀ eff ∈ stepEffs c ex.1 (Sess.begin c ex.1 ex.2.1) ex.2.2,
      Effect.activate ∈ eff → Verified c eff := by
  intro ex _ eff h hact
  exact exchange_completions_verified c ex.1 hc ex.2.2 _ (begin_clientExpect c ex.1 ex.2.1 hc) eff h hact

/-! ## the key reported as the remote server key is the key that was verified — on every exchange -/

/-- after a completed client step the key PUBLISHED as the remote server key is the key whose
    signature over this exchange's H was verified — whatever key was on record before -/
theorem published_key_is_verified_key (c : Env) (eff : List Effect) (h : Verified c eff) :
    ∃ hin K hk sig, eff = [.hashed hin, .setKH K (c.hash hin), .verifyKey hk sig, .activate] ∧
      c.verify hk (c.hash hin) sig = true ∧ ∀ prev, publishedKey prev eff = some hk := by
  obtain ⟨hin, K, hk, sig, he, hv⟩ := h
  refine ⟨hin, K, hk, sig, he, hv, ?_⟩
  intro prev
  rw [he]
  simp [publishedKey]

private theorem publishedKey_append_completed (a : List Effect) (prev : Option Bytes) (x y : Effect) (hk sg : Bytes)
    (hx : ∀ k s, x ≠ .verifyKey k s) (hy : ∀ k s, y ≠ .verifyKey k s) :
    publishedKey prev (a ++ [x, y, .verifyKey hk sg, .activate]) = some hk := by
  induction a generalizing prev with
  | nil =>
    cases x <;> cases y <;> simp_all [publishedKey]
  | cons e r ih =>
    cases e with
    | verifyKey k s =>
      cases r with
      | nil =>
        simp only [List.cons_append, List.nil_append]
        have := ih (some k)
        simp only [List.nil_append] at this
        cases x <;> simp_all [publishedKey]
      | cons e2 r2 =>
        have := ih (some k)
        simp only [List.cons_append] at this ⊢
        simp only [publishedKey]
        exact this
    | send _ => simpa [publishedKey] using ih prev
    | expect _ => simpa [publishedKey] using ih prev
    | hashed _ => simpa [publishedKey] using ih prev
    | setKH _ _ => simpa [publishedKey] using ih prev
    | activate => simpa [publishedKey] using ih prev

/-- over a whole connection: whatever happened before (earlier exchanges with other keys, any
    traffic), once an exchange completes on the client the published key is THAT exchange's key -/
theorem published_key_follows_every_exchange (c : Env) (before eff : List Effect) (prev : Option Bytes)
    (h : Verified c eff) :
    ∃ hk sig hin, Effect.verifyKey hk sig ∈ eff ∧ c.verify hk (c.hash hin) sig = true ∧
      publishedKey prev (before ++ eff) = some hk := by
  obtain ⟨hin, K, hk, sig, he, hv⟩ := h
  refine ⟨hk, sig, hin, by rw [he]; simp, hv, ?_⟩
  rw [he]
  exact publishedKey_append_completed before prev _ _ hk sig (by intro k s h; cases h) (by intro k s h; cases h)

/-! ## NEWKEYS closes an exchange only if a verified secret is pending — for every message order -/

/-- what reaches a client transport during its life, in any order: the effects of an engine step
    (`ok` = the step did not raise), or SSH_MSG_NEWKEYS -/
inductive Ev
  | step (eff : List Effect) (ok : Bool)
  | newkeys

/-- client transport: `K` pending or not, exchanges verified, exchanges reported complete -/
structure Conn where
  pendingK : Bool := false
  verified : Nat := 0
  completed : Nat := 0
  dead : Bool := false
  deriving DecidableEq, Repr

def hasSetKH : List Effect → Bool
  | [] => false
  | .setKH _ _ :: _ => true
  | _ :: r => hasSetKH r

def hasActivate : List Effect → Bool
  | [] => false
  | .activate :: _ => true
  | _ :: r => hasActivate r

/-- `_set_K_H` makes a secret pending; `_parse_newkeys` runs `_activate_inbound()` unconditionally, which derives
    keys from the pending K (`_compute_key` raises when there is none: the session ends), then frees K and
    reports the exchange complete (completion_event) -/
def Conn.on (s : Conn) : Ev → Conn
  | .step eff ok =>
    if s.dead then s
    else if ¬ ok then { s with dead := true, pendingK := s.pendingK || hasSetKH eff }
    else { s with pendingK := s.pendingK || hasSetKH eff,
                  verified := s.verified + (if hasSetKH eff && hasActivate eff then 1 else 0) }
  | .newkeys =>
    if s.dead then s
    else if s.pendingK then { s with pendingK := false, completed := s.completed + 1 }
    else { s with dead := true }

/-- the client engines' steps: one that returns normally and called `_set_K_H` also reached
    `_activate_outbound`, i.e. passed `_verify_key` (the `*_completion_verified` theorems say what that means) -/
def ClientSteps (evs : List Ev) : Prop :=
  ∀ eff, Ev.step eff true ∈ evs → hasSetKH eff = true → hasActivate eff = true

private def Inv (s : Conn) : Prop :=
  s.completed ≤ s.verified ∧ (s.dead = false → s.completed + (if s.pendingK then 1 else 0) ≤ s.verified)

private theorem inv_on (s : Conn) (ev : Ev) (h : Inv s)
    (hev : ∀ eff, ev = .step eff true → hasSetKH eff = true → hasActivate eff = true) : Inv (s.on ev) := by
  obtain ⟨h1, h2⟩ := h
  cases ev with
  | newkeys =>
    unfold Conn.on
    by_cases hd : s.dead = true
    · simp only [hd, if_true]; exact ⟨h1, fun hh => by simp [hd] at hh⟩
    · have hd' : s.dead = false := by simpa using hd
      have h3 := h2 hd'
      simp only [hd', Bool.false_eq_true, if_false]
      by_cases hp : s.pendingK = true
      · simp only [hp, if_true] at h3 ⊢
        exact ⟨by simp; omega, fun _ => by simp; omega⟩
      · simp only [hp, if_false]
        exact ⟨h1, fun hh => by simp at hh⟩
  | step eff ok =>
    unfold Conn.on
    by_cases hd : s.dead = true
    · simp only [hd, if_true]; exact ⟨h1, fun hh => by simp [hd] at hh⟩
    · have hd' : s.dead = false := by simpa using hd
      have h3 := h2 hd'
      simp only [hd', Bool.false_eq_true, if_false]
      cases ok with
      | false => simp only [Bool.false_eq_true, not_false_eq_true, if_true]; exact ⟨h1, fun hh => by simp at hh⟩
      | true =>
        simp only [not_true_eq_false, if_false]
        cases hs : hasSetKH eff with
        | false =>
          simp only [Bool.or_false, Bool.false_and, Bool.false_eq_true, if_false, Nat.add_zero]
          exact ⟨h1, fun _ => h3⟩
        | true =>
          have ha := hev eff rfl hs
          simp only [ha, Bool.or_true, Bool.and_self, if_true]
          refine ⟨by simp only []; omega, fun _ => ?_⟩
          by_cases hp : s.pendingK = true <;> simp [hp] at h3 ⊢ <;> omega

/-- EVERY message order: engine steps and NEWKEYS messages interleaved in any way (NEWKEYS before
    any exchange, bare NEWKEYS after the client's own KEXINIT, two NEWKEYS in a row, …) — the number
    of exchanges the client reports complete never exceeds the number of exchanges in which it
    verified the server's signature; a NEWKEYS with no verified secret pending ends the session -/
theorem completed_le_verified (evs : List Ev) (hcs : ClientSteps evs) :
    (evs.foldl Conn.on {}).completed ≤ (evs.foldl Conn.on {}).verified := by
  have key : ∀ (l : List Ev) (s : Conn), Inv s → (∀ eff, Ev.step eff true ∈ l → hasSetKH eff = true → hasActivate eff = true) →
      Inv (l.foldl Conn.on s) := by
    intro l
    induction l with
    | nil => intro s hs _; exact hs
    | cons ev r ih =>
      intro s hs hl
      rw [List.foldl_cons]
      apply ih
      · exact inv_on s ev hs (fun eff he => hl eff (by rw [he]; exact List.mem_cons_self))
      · intro eff hm; exact hl eff (List.mem_cons_of_mem _ hm)
  exact (key evs {} ⟨Nat.le_refl _, fun _ => by simp⟩ hcs).1

/-- a NEWKEYS that arrives with no secret pending kills the session (it is never counted) -/
theorem bare_newkeys_ends_session (s : Conn) (ha : s.dead = false) (hp : s.pendingK = false) :
    (s.on .newkeys).dead = true ∧ (s.on .newkeys).completed = s.completed := by
  simp [Conn.on, ha, hp]

/-- the hypothesis `ClientSteps` is what the engine theorems give: a client step that returns
    normally and published a secret has the shape hash, `_set_K_H`, `_verify_key`, activate -/
theorem verified_step_is_client_step (c : Env) (eff : List Effect) (h : Verified c eff) :
    hasSetKH eff = true ∧ hasActivate eff = true := by
  obtain ⟨_, _, _, _, he, _⟩ := h
  rw [he]; simp [hasSetKH, hasActivate]

/-! ## the session identifier is the first exchange hash, for any number of exchanges -/

/-- `_set_K_H` never changes a session id that is set -/
theorem setKH_keeps_session_id (t : TSt) (k : Nat) (h sid : Bytes) (hs : t.sessionId = some sid) :
    (t.setKH k h).sessionId = some sid := by
  simp [TSt.setKH, hs]

/-- any number of further exchanges (rekeys), with any K and H: the session id stays -/
theorem session_id_stable (t : TSt) (sid : Bytes) (hs : t.sessionId = some sid) (khs : List (Nat × Bytes)) :
    (khs.foldl (fun t kh => t.setKH kh.1 kh.2) t).sessionId = some sid := by
  induction khs generalizing t with
  | nil => exact hs
  | cons kh r ih => exact ih (t.setKH kh.1 kh.2) (setKH_keeps_session_id t _ _ sid hs)

/-- first exchange on a fresh transport fixes it to that exchange's H; K and H follow the latest -/
theorem session_id_is_first_H (k : Nat) (h : Bytes) (khs : List (Nat × Bytes)) :
    (((k, h) :: khs).foldl (fun t kh => t.setKH kh.1 kh.2) ({} : TSt)).sessionId = some h := by
  rw [List.foldl_cons]
  exact session_id_stable _ h (by simp [TSt.setKH]) khs

theorem latest_K_H (t : TSt) (khs : List (Nat × Bytes)) (k : Nat) (h : Bytes) :
    ((khs ++ [(k, h)]).foldl (fun t kh => t.setKH kh.1 kh.2) t).K = some k ∧
    ((khs ++ [(k, h)]).foldl (fun t kh => t.setKH kh.1 kh.2) t).H = some h := by
  simp [List.foldl_append, TSt.setKH]

/-- the same over effect traces: whatever the engines of later exchanges do, the id set by the
    first trace survives -/
theorem session_id_stable_traces (t : TSt) (sid : Bytes) (hs : t.sessionId = some sid) (tr : List Effect) :
    (t.apply tr).sessionId = some sid := by
  induction tr generalizing t with
  | nil => exact hs
  | cons e r ih =>
    cases e with
    | setKH k h => exact ih _ (setKH_keeps_session_id t k h sid hs)
    | send _ => exact ih t hs
    | expect _ => exact ih t hs
    | hashed _ => exact ih t hs
    | verifyKey _ _ => exact ih t hs
    | activate => exact ih t hs

/-! ## the hash input determines every field: altering one changes the bytes that are hashed -/

private theorem mpintBody_inj (a b : Int) (h : mpintBody a = mpintBody b) : a = b := by
  have := congrArg inflate h
  rwa [inflate_mpintBody, inflate_mpintBody] at this

private theorem encMpint_append_inj (a b : Int) (x y : Bytes)
    (ha : (mpintBody a).length < 4294967296) (hb : (mpintBody b).length < 4294967296)
    (h : encMpint a ++ x = encMpint b ++ y) : a = b ∧ x = y := by
  rw [encMpint_eq, encMpint_eq] at h
  have := encStr_append_inj _ _ _ _ ha hb h
  exact ⟨mpintBody_inj a b this.1, this.2⟩

/-- size condition under which a value can be written as an SSH string at all -/
def Fits (b : Bytes) : Prop := b.length < 4294967296
def FitsZ (z : Int) : Prop := (mpintBody z).length < 4294967296

/-- RFC 4253 §8 input (fixed groups): injective in the host key, `e`, `f` and `K` (and everything else) -/
theorem hashInGroup_injective (vc vs ic is_ ks vc' vs' ic' is_' ks' : Bytes) (e f e' f' : Int) (K K' : Nat)
    (h1 : Fits vc) (h2 : Fits vs) (h3 : Fits ic) (h4 : Fits is_) (h5 : Fits ks)
    (h1' : Fits vc') (h2' : Fits vs') (h3' : Fits ic') (h4' : Fits is_') (h5' : Fits ks')
    (h6 : FitsZ e) (h7 : FitsZ f) (h8 : FitsZ K) (h6' : FitsZ e') (h7' : FitsZ f') (h8' : FitsZ K')
    (h : hashInGroup vc vs ic is_ ks e f K = hashInGroup vc' vs' ic' is_' ks' e' f' K') :
    vc = vc' ∧ vs = vs' ∧ ic = ic' ∧ is_ = is_' ∧ ks = ks' ∧ e = e' ∧ f = f' ∧ K = K' := by
  unfold hashInGroup at h
  simp only [List.append_assoc] at h
  obtain ⟨a1, h⟩ := encStr_append_inj _ _ _ _ h1 h1' h
  obtain ⟨a2, h⟩ := encStr_append_inj _ _ _ _ h2 h2' h
  obtain ⟨a3, h⟩ := encStr_append_inj _ _ _ _ h3 h3' h
  obtain ⟨a4, h⟩ := encStr_append_inj _ _ _ _ h4 h4' h
  obtain ⟨a5, h⟩ := encStr_append_inj _ _ _ _ h5 h5' h
  obtain ⟨a6, h⟩ := encMpint_append_inj _ _ _ _ h6 h6' h
  obtain ⟨a7, h⟩ := encMpint_append_inj _ _ _ _ h7 h7' h
  have h' : encMpint (K : Int) ++ [] = encMpint (K' : Int) ++ [] := by simpa using h
  obtain ⟨a8, _⟩ := encMpint_append_inj _ _ _ _ h8 h8' h'
  exact ⟨a1, a2, a3, a4, a5, a6, a7, by omega⟩

/-- RFC 5656 §4 input (ECDH / X25519): injective in the host key, both points and `K` -/
theorem hashInEcdh_injective (vc vs ic is_ ks qc qs vc' vs' ic' is_' ks' qc' qs' : Bytes) (K K' : Nat)
    (h1 : Fits vc) (h2 : Fits vs) (h3 : Fits ic) (h4 : Fits is_) (h5 : Fits ks) (h6 : Fits qc) (h7 : Fits qs)
    (h1' : Fits vc') (h2' : Fits vs') (h3' : Fits ic') (h4' : Fits is_') (h5' : Fits ks') (h6' : Fits qc')
    (h7' : Fits qs') (h8 : FitsZ K) (h8' : FitsZ K')
    (h : hashInEcdh vc vs ic is_ ks qc qs K = hashInEcdh vc' vs' ic' is_' ks' qc' qs' K') :
    vc = vc' ∧ vs = vs' ∧ ic = ic' ∧ is_ = is_' ∧ ks = ks' ∧ qc = qc' ∧ qs = qs' ∧ K = K' := by
  unfold hashInEcdh at h
  simp only [List.append_assoc] at h
  obtain ⟨a1, h⟩ := encStr_append_inj _ _ _ _ h1 h1' h
  obtain ⟨a2, h⟩ := encStr_append_inj _ _ _ _ h2 h2' h
  obtain ⟨a3, h⟩ := encStr_append_inj _ _ _ _ h3 h3' h
  obtain ⟨a4, h⟩ := encStr_append_inj _ _ _ _ h4 h4' h
  obtain ⟨a5, h⟩ := encStr_append_inj _ _ _ _ h5 h5' h
  obtain ⟨a6, h⟩ := encStr_append_inj _ _ _ _ h6 h6' h
  obtain ⟨a7, h⟩ := encStr_append_inj _ _ _ _ h7 h7' h
  have h' : encMpint (K : Int) ++ [] = encMpint (K' : Int) ++ [] := by simpa using h
  obtain ⟨a8, _⟩ := encMpint_append_inj _ _ _ _ h8 h8' h'
  exact ⟨a1, a2, a3, a4, a5, a6, a7, by omega⟩

/-! ## a man in the middle who alters the reply makes the client abort (under the crypto assumptions) -/

/-- the cryptographic assumption, stated for one exchange: the only (key, hash, signature) triple
    that verifies is the one the genuine server produced (unforgeability of the host-key scheme;
    and — through `H` — collision resistance of the exchange hash is what turns "different input"
    into "different H", see `altered_reply_aborts`) -/
def Unforgeable (c : Env) (hk H sig : Bytes) : Prop :=
  ∀ hk' H' sig', c.verify hk' H' sig' = true → hk' = hk ∧ H' = H ∧ sig' = sig

/-- Fixed groups: the client was going to hash `hin` (genuine `K_S`, `f`) and the genuine server
    signed `H = hash hin`.  If what arrives differs in the host key, in `f` or in the signature —
    and the hash does not collide on the two inputs — the client raises before `_activate_outbound`:
    no NEWKEYS, handshake aborted. -/
theorem altered_reply_aborts (c : Env) (g : Group) (st : GrpSt) (ks sig ks' sig' : Bytes) (f f' : Int)
    (hfit : Fits ks') (hfitf : FitsZ f') (hfits : Fits sig')
    (hin : Bytes) (hunf : Unforgeable c ks (c.hash hin) sig)
    (hcr : ∀ x, c.hash x = c.hash hin → x = hin)
    (hgenuine : 1 ≤ f ∧ f ≤ (g.P : Int) - 1 →
      hin = hashInGroup c.localVersion c.remoteVersion c.localKexInit c.remoteKexInit ks st.e f
              (powMod f.toNat st.x g.P))
    (halt : (ks', f', sig') ≠ (ks, f, sig))
    (hfitall : Fits c.localVersion ∧ Fits c.remoteVersion ∧ Fits c.localKexInit ∧ Fits c.remoteKexInit ∧
      Fits ks ∧ FitsZ st.e ∧ FitsZ f ∧ FitsZ (powMod f.toNat st.x g.P) ∧ FitsZ (powMod f'.toNat st.x g.P))
    (hfr : 1 ≤ f ∧ f ≤ (g.P : Int) - 1) :
    Effect.activate ∉ (grpReply c g st (encStr ks' ++ encMpint f' ++ encStr sig')).eff ∧
    ∃ e, (grpReply c g st (encStr ks' ++ encMpint f' ++ encStr sig')).out = .error e := by
  have hp3 := parse3 ks' (mpintBody f') sig' hfit hfitf hfits
  by_cases hr : f' < 1 ∨ f' > (g.P : Int) - 1
  · simp only [grpReply, encMpint_eq, hp3.1, hp3.2.1, hp3.2.2, inflate_mpintBody, hr, if_true]
    exact ⟨by simp, _, rfl⟩
  · simp only [grpReply, encMpint_eq, hp3.1, hp3.2.1, hp3.2.2, inflate_mpintBody, hr, if_false]
    split
    · rename_i hv
      exfalso
      obtain ⟨e1, e2, e3⟩ := hunf _ _ _ hv
      have e4 := hcr _ e2
      have hg := hgenuine hfr
      obtain ⟨b1, b2, b3, b4, b5, b6, b7, b8, b9⟩ := hfitall
      have e5 : hashInGroup c.localVersion c.remoteVersion c.localKexInit c.remoteKexInit ks' st.e f'
            (powMod f'.toNat st.x g.P) = hin := by
        rw [← e4]; simp [hashInGroup, encMpint_eq]
      rw [hg] at e5
      have := hashInGroup_injective _ _ _ _ _ _ _ _ _ _ _ _ _ _ _ _
        b1 b2 b3 b4 hfit b1 b2 b3 b4 b5 b6 hfitf b9 b6 b7 b8 e5
      apply halt
      rw [e1, e3, this.2.2.2.2.2.2.1]
    · simp

/-! ## `Transport.connect(hostkey=…)`: a pinned host key is compared before anything else happens -/

open PV.Connect in
/-- pinned key differs from the key the server showed (and GSS-API key exchange, which authenticates
    the host by other means, was not requested): `connect` raises — whatever credentials were or
    were not passed, so no auth_* call is made and the call does not return normally -/
theorem pinned_mismatch_raises (o : Opts) (hk server : HostKey) (startOk : Bool)
    (hpin : o.hostkey = some hk) (hgss : o.gssKex = false)
    (hdiff : server.name ≠ hk.name ∨ server.blob ≠ hk.blob) :
    connect o startOk server = .raised := by
  unfold connect
  cases startOk <;> simp [hpin, hgss, hdiff]

open PV.Connect in
/-- conversely: whenever `connect` goes on (authenticates or returns), either no key was pinned, or
    GSS-API key exchange was requested, or the server's key is exactly the pinned one -/
theorem proceeds_only_if_pin_ok (o : Opts) (server : HostKey) (startOk : Bool)
    (h : connect o startOk server ≠ .raised) :
    startOk = true ∧ (o.hostkey = none ∨ o.gssKex = true ∨ o.hostkey = some server) := by
  unfold connect at h
  cases startOk with
  | false => simp at h
  | true =>
    refine ⟨rfl, ?_⟩
    cases hk : o.hostkey with
    | none => exact Or.inl rfl
    | some k =>
      right
      rw [hk] at h
      simp only [Bool.not_true, Bool.false_eq_true, if_false] at h
      by_cases hg : o.gssKex = true
      · exact Or.inl hg
      · right
        by_cases hd : server.name ≠ k.name ∨ server.blob ≠ k.blob
        · simp [hg, hd] at h
        · have h1 : server.name = k.name := by
            by_cases a : server.name = k.name
            · exact a
            · exact absurd (Or.inl a) hd
          have h2 : server.blob = k.blob := by
            by_cases a : server.blob = k.blob
            · exact a
            · exact absurd (Or.inr a) hd
          cases server; cases k; simp_all

open PV.Connect in
/-- the check does not depend on the credentials: same verdict with and without them -/
theorem pin_check_independent_of_credentials (o o' : Opts) (server : HostKey) (startOk : Bool)
    (hk : o.hostkey = o'.hostkey) (hg : o.gssKex = o'.gssKex) :
    (connect o startOk server = .raised ↔ connect o' startOk server = .raised) := by
  unfold connect
  cases startOk
  · simp
  · rw [hk, hg]
    cases o'.hostkey with
    | none => simp [authStep]; constructor <;> (intro h; split at h <;> (try split at h) <;> (try split at h) <;> (try split at h) <;> cases h)
    | some k =>
      simp only [Bool.not_true, Bool.false_eq_true, if_false]
      by_cases hc : ¬ o'.gssKex = true ∧ (server.name ≠ k.name ∨ server.blob ≠ k.blob)
      · simp [hc]
      · simp only [hc, if_false]
        simp [authStep]; constructor <;> (intro h; split at h <;> (try split at h) <;> (try split at h) <;> (try split at h) <;> cases h)

/-! ## non-vacuity -/

private def cEnv : Env :=
  { serverMode := false, localVersion := [1], remoteVersion := [2], localKexInit := [3],
    remoteKexInit := [4], hostKey := [], hash := toyHash, sign := toySign [6] [],
    verify := toyVerify [6], modulus := fun _ _ _ => none }
private def sEnv : Env :=
  { serverMode := true, localVersion := [2], remoteVersion := [1], localKexInit := [4],
    remoteKexInit := [3], hostKey := [5], hash := toyHash, sign := toySign [6] [5],
    verify := toyVerify [6], modulus := fun _ _ _ => none }

example : Mirror cEnv sEnv := ⟨rfl, rfl, rfl, rfl, rfl, rfl, rfl⟩
/-- the toy verifier accepts the toy signature: the `if` of the honest-run theorems takes its true branch -/
example (hk H : Bytes) : toyVerify [6] hk H (toySign [6] hk H) = true := by simp [toyVerify]
/-- the ideal-world verifier satisfies `Unforgeable` -/
example (hk H sig : Bytes) :
    Unforgeable { cEnv with verify := fun a b c => a == hk && b == H && c == sig } hk H sig := by
  intro a b c h
  simp at h
  exact ⟨h.1.1, h.1.2, h.2⟩
/-- a hash without collisions exists (identity), so the collision-freeness hypothesis is satisfiable -/
example (hin : Bytes) : ∀ x, (fun b : Bytes => b) x = (fun b : Bytes => b) hin → x = hin := fun _ h => h
example : (({} : TSt).setKH 5 [1]).setKH 6 [2] = { K := some 6, H := some [2], sessionId := some [1] } := rfl

end PV.Props.C06
