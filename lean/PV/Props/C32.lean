/-
  C32 — SFTP check-file returns the correct hashes for the requested ranges.
  Property theorems only (helpers: PV/Model/CheckFileLemmas.lean).  Model: PV/Model/CheckFile.lean
  (`SFTPServer._check_file` as repaired).
-/
import PV.Model.CheckFileLemmas
namespace PV.Props.C32
open PV PV.CheckFile

/-- **check-file = specification.** For every streaming hash (`HashLaws`), every file, every handle read
policy that makes progress (short reads allowed) and does not fail, and every start / length / block size:
the server's answer is the specification's — "Block size too small" exactly when the effective block size
is below 256, otherwise the concatenation of `H` over the consecutive `block`-sized pieces of the requested
range clipped at end of file (`length = 0` ⇒ to EOF; `block = 0` ⇒ one block). -/
theorem checkFile_eq_spec (A : HashAlg) (H : Bytes → Bytes) (hl : HashLaws A H) (e : Env)
    (hp : e.Progress) (hre : ∀ off n, e.readErr off n = none) (hst : e.statErr = none)
    (start length bs : Nat) :
    checkFile A e start length bs = spec H e.content start length bs := by
  unfold checkFile spec
  simp only [hst, ite_self]
  by_cases hb : effBlock e.content.length start length bs < 256
  · simp [hb]
  · simp only [hb, if_false]
    have hbs : 1 ≤ (effBlock e.content.length start length bs).toNat := by omega
    have := outer_spec A H hl e hp hre (start + (effLength e.content.length start length).toNat)
      (effBlock e.content.length start length bs).toNat hbs
      ((effLength e.content.length start length).toNat + 1) start [] (by omega)
    rw [this]
    simp only [List.nil_append, range]
    have : start + (effLength e.content.length start length).toNat - start
        = (effLength e.content.length start length).toNat := by omega
    rw [this]

/-- **Termination ("answers promptly").** For EVERY handle — short reads, empty reads before EOF, reads or `stat`
failing with an error code at any point — and every start / length / block size, both `while` loops of
`_check_file` finish within their bounds (`blocklen + 1` reads per block, `length + 1` blocks): the answer is
never "out of fuel".  (The unrepaired code spins forever on an empty read.) -/
theorem terminates (A : HashAlg) (e : Env) (start length bs : Nat) :
    checkFile A e start length bs ≠ .noFuel := by
  unfold checkFile
  cases hs : (if length = 0 then e.statErr else none) with
  | some code => simp
  | none =>
    simp only
    by_cases hb : effBlock e.content.length start length bs < 256
    · simp [hb]
    · simp only [hb, if_false]
      have hbs : 1 ≤ (effBlock e.content.length start length bs).toNat := by omega
      have := outer_total A e (start + (effLength e.content.length start length).toNat)
        (effBlock e.content.length start length bs).toNat hbs
        ((effLength e.content.length start length).toNat + 1) start [] (by omega)
      cases ho : outer A e (start + (effLength e.content.length start length).toNat)
          (effBlock e.content.length start length bs).toNat
          ((effLength e.content.length start length).toNat + 1) start [] with
      | none => exact absurd ho this
      | some r => cases r <;> simp

/-- the complete request (`request`): an unknown handle or no known algorithm is refused before anything is read;
otherwise the reply is `checkFile`'s and names the first offered algorithm the server knows -/
theorem request_cases (A : HashAlg) (handle : Option Env) (known algs : List Bytes) (start length bs : Nat) :
    (handle = none → request A handle known algs start length bs = (.badHandle, [])) ∧
    (∀ e, handle = some e → selectAlg known algs = none →
      request A handle known algs start length bs = (.noAlg, [])) ∧
    (∀ e a, handle = some e → selectAlg known algs = some a →
      request A handle known algs start length bs = (checkFile A e start length bs, a) ∧ a ∈ known ∧ a ∈ algs) := by
  refine ⟨?_, ?_, ?_⟩
  · intro h; subst h; rfl
  · intro e h hs; subst h; simp [request, hs]
  · intro e a h hs; subst h
    refine ⟨by simp [request, hs], ?_⟩
    induction algs with
    | nil => simp [selectAlg] at hs
    | cons x r ih =>
      simp only [selectAlg] at hs
      by_cases hx : x ∈ known
      · simp only [hx, if_true, Option.some.injEq] at hs
        subst hs; exact ⟨hx, by simp⟩
      · simp only [hx, if_false] at hs
        have := ih hs
        exact ⟨this.1, by simp [this.2]⟩

/-- The blocks of the specification, by index: block `k` exists iff `k·bs` lies inside the range, and it is
the bytes `[k·bs, (k+1)·bs)` of the range (fewer for the last block). -/
theorem block_index (bs : Nat) (hbs : 1 ≤ bs) (d : Bytes) (k : Nat) :
    (blocksOf bs d)[k]? = if k * bs < d.length then some ((d.drop (k * bs)).take bs) else none := by
  induction k generalizing d with
  | zero =>
    by_cases hd : d = []
    · subst hd; simp [blocksOf_nil]
    · have : 0 < d.length := List.length_pos_iff.mpr hd
      rw [blocksOf_cons bs hbs d hd]
      simp [this]
  | succ k ih =>
    by_cases hd : d = []
    · subst hd; simp [blocksOf_nil]
    · rw [blocksOf_cons bs hbs d hd, List.getElem?_cons_succ, ih (d.drop bs)]
      have e1 : (k * bs < (d.drop bs).length) ↔ ((k + 1) * bs < d.length) := by
        simp only [List.length_drop, Nat.add_mul, Nat.one_mul]; omega
      have e2 : (d.drop bs).drop (k * bs) = d.drop ((k + 1) * bs) := by
        rw [List.drop_drop]; congr 1; simp only [Nat.add_mul, Nat.one_mul]; omega
      by_cases h : k * bs < (d.drop bs).length
      · simp only [h, if_true, e1.mp h, e2]
      · have h' : ¬ ((k + 1) * bs < d.length) := fun x => h (e1.mpr x)
        simp only [h, h', if_false]

/-- the blocks tile the range: concatenated they are the range itself -/
theorem blocks_concat (bs : Nat) (hbs : 1 ≤ bs) (d : Bytes) : (blocksOf bs d).flatten = d := by
  generalize hn : d.length = n
  induction n using Nat.strongRecOn generalizing d with
  | _ n ih =>
    by_cases hd : d = []
    · subst hd; rfl
    · have : 0 < d.length := List.length_pos_iff.mpr hd
      rw [blocksOf_cons bs hbs d hd, List.flatten_cons,
        ih (d.drop bs).length (by simp only [List.length_drop]; omega) (d.drop bs) rfl,
        List.take_append_drop]

/-- the requested range is the file from `start` up to `start + len`, clipped at end of file -/
theorem range_length (content : Bytes) (start : Nat) (len : Int) :
    (range content start len).length = min len.toNat (content.length - start) := by
  simp [range, List.length_take, List.length_drop]

/-! ## the hypotheses are satisfiable -/

theorem toy_laws : HashLaws toyAlg toyH :=
  ⟨⟨fun h => h, rfl, fun _ _ => rfl, fun _ => rfl⟩⟩

/-- a plain file: every read returns all the requested bytes that exist -/
def fullReads (content : Bytes) : Env := { content := content, short := fun _ n => n }

theorem fullReads_progress (content : Bytes) : (fullReads content).Progress := fun _ _ h => h

/-- a handle that returns at most 3 bytes per call still satisfies the hypothesis -/
example : ({ content := [1, 2, 3, 4, 5, 6, 7], short := fun _ _ => 3 } : Env).Progress :=
  fun _ _ _ => Nat.zero_lt_succ 2

/-- the theorem instantiated: toy hash, plain file of 600 bytes, range from 100 to EOF in 256-byte blocks -/
example : checkFile toyAlg (fullReads (List.replicate 600 7)) 100 0 256
    = spec toyH (List.replicate 600 7) 100 0 256 :=
  checkFile_eq_spec toyAlg toyH toy_laws _ (fullReads_progress _) (fun _ _ => rfl) rfl 100 0 256

/-- a 500-byte range in 256-byte blocks is exactly two blocks: bytes [0,256) and [256,500) -/
example (d : Bytes) (h : d.length = 500) :
    (blocksOf 256 d)[0]? = some (d.take 256) ∧ (blocksOf 256 d)[1]? = some ((d.drop 256).take 256) ∧
      (blocksOf 256 d)[2]? = none := by
  rw [block_index 256 (by decide), block_index 256 (by decide), block_index 256 (by decide)]
  simp [h]

example : checkFile toyAlg (fullReads (List.replicate 10 7)) 0 0 0 = .tooSmall := by decide

end PV.Props.C32
