/-
  C21 — Channel byte streams arrive intact, in order and on the right stream.
  Property theorems only.  Model: PV/Model/Mux.lean (dispatch by channel id + per-channel streams); the FIFOs
  themselves are the subject of C26 (PV/Model/BufferedPipe.lean).

  A history is any `List Act`: messages of the peer for any channel ids in any order, interleaved in any way with
  `recv` / `recv_stderr` (any sizes) and `set_combine_stderr` calls of the application.
-/
import PV.Model.Mux
import PV.Base.WireLemmas
namespace PV.Props.C21
open PV PV.Mux PV.Wire

/-! ## dispatch: a map of independent per-channel machines -/

private theorem setTab_other (m : Mux) (i c : Nat) (x : Chan) (h : c ≠ i) : (setTab m i x).tab c = m.tab c := by
  simp [setTab, h]
private theorem setTab_same (m : Mux) (i : Nat) (x : Chan) : (setTab m i x).tab i = some x := by simp [setTab]
private theorem setTab_alive (m : Mux) (i : Nat) (x : Chan) : (setTab m i x).alive = m.alive := rfl

private theorem deliver_frame (m : Mux) (a : Act) (c : Nat) (h : c ≠ a.chan) :
    (deliver m a).tab c = m.tab c ∨ ((deliver m a).alive = false ∧ (deliver m a).tab c = (m.tab c).map kill) := by
  unfold deliver
  cases hm : m.tab a.chan with
  | none => right; simp [die]
  | some ch =>
    simp only []
    split
    · left; exact setTab_other m _ c _ h
    · left; rfl

private theorem appCall_frame (m : Mux) (a : Act) (c : Nat) (h : c ≠ a.chan) : (appCall m a).tab c = m.tab c := by
  unfold appCall
  cases hm : m.tab a.chan with
  | none => rfl
  | some ch => exact setTab_other m _ c _ h

private theorem openChan_frame (m : Mux) (i c : Nat) (h : c ≠ i) : (openChan m i).tab c = m.tab c := by
  unfold openChan
  cases hm : m.tab i with
  | none => exact setTab_other m _ c _ h
  | some ch =>
    simp only []
    split
    · rfl
    · exact setTab_other m _ c _ h

/-- a message or call for channel `a.chan` leaves every other channel untouched — unless it is a message for an id
that was never used, which ends the run loop: then every channel is unlinked and closed (buffers untouched) -/
theorem dispatch_frame (m : Mux) (a : Act) (c : Nat) (h : c ≠ a.chan) :
    (step m a).tab c = m.tab c ∨ ((step m a).alive = false ∧ (step m a).tab c = (m.tab c).map kill) := by
  have hd := deliver_frame m a c h
  have ha := appCall_frame m a c h
  cases a <;> simp only [step, Act.arrival, Bool.false_eq_true, if_false, if_true] <;>
    first
      | (split <;> first | exact hd | exact Or.inl rfl)
      | exact Or.inl ha
      | (split <;> first | exact Or.inl (openChan_frame m _ c h) | exact Or.inl rfl)

/-- a message for a channel that is no longer registered ("dead channel") is dropped: nothing changes anywhere -/
theorem dead_channel_drops (m : Mux) (a : Act) (ch : Chan) (ha : a.arrival = true)
    (hc : m.tab a.chan = some ch) (hl : ch.linked = false) : step m a = m := by
  have hd : deliver m a = m := by unfold deliver; simp [hc, hl]
  cases a <;> simp [Act.arrival] at ha <;> simp only [step, Act.arrival, if_true] <;> split <;> first | exact hd | rfl

/-- once the run loop has ended nothing is delivered any more -/
theorem dead_transport_delivers_nothing (m : Mux) (a : Act) (ha : a.arrival = true) (hd : m.alive = false) :
    step m a = m := by
  cases a <;> simp [Act.arrival] at ha <;> simp [step, Act.arrival, hd]

/-- a message for an id that was never used ends the run loop; every channel is closed and unlinked, and nothing is
delivered to any of them (see `kill_keeps_data`) -/
theorem unknown_channel_kills_transport (m : Mux) (a : Act) (ha : a.arrival = true) (hal : m.alive = true)
    (hc : m.tab a.chan = none) :
    (step m a).alive = false ∧ ∀ c, (step m a).tab c = (m.tab c).map kill := by
  have hd : deliver m a = die m := by unfold deliver; simp [hc]
  cases a <;> simp [Act.arrival] at ha <;> simp [step, Act.arrival, hal, hd, die]

theorem kill_keeps_data (ch : Chan) :
    (kill ch).out = ch.out ∧ (kill ch).err = ch.err ∧ (kill ch).outRead = ch.outRead ∧ (kill ch).errRead = ch.errRead ∧
      (kill ch).closed = true ∧ (kill ch).linked = false := by simp [kill]

/-- a channel opened under a free (or dead) id starts empty: nothing of a previous channel with that id leaks -/
theorem reopened_channel_starts_empty (m : Mux) (c : Nat) (hal : m.alive = true)
    (hfree : ∀ ch, m.tab c = some ch → ch.linked = false) : (step m (.open c)).tab c = some {} := by
  simp only [step, hal, if_true]
  unfold openChan
  cases h : m.tab c with
  | none => exact setTab_same m c {}
  | some ch => simp [hfree ch h, setTab]

/-- a live id is never handed out again -/
theorem open_live_id_is_noop (m : Mux) (c : Nat) (ch : Chan) (h : m.tab c = some ch) (hl : ch.linked = true) :
    step m (.open c) = m := by
  simp only [step]
  split
  · unfold openChan; simp [h, hl]
  · rfl

private theorem chanStep_linked (ch : Chan) (a : Act) (h : ch.linked = true) (ha : staysLinked a.chan [a] = true) :
    (chanStep ch a).linked = true := by
  cases a <;> simp [staysLinked, Act.chan] at ha <;> simp only [chanStep] <;> (repeat' split) <;> simp_all

/-- the arrivals of a history only address ids that are in use -/
def KnownIds (m : Mux) (acts : List Act) : Prop := ∀ a ∈ acts, a.arrival = true → (m.tab a.chan).isSome = true

private theorem setTab_some (m : Mux) (i j : Nat) (x : Chan) (h : (m.tab j).isSome = true) :
    ((setTab m i x).tab j).isSome = true := by
  unfold setTab
  simp only []
  split <;> simp [h]

private theorem step_keeps_some (m : Mux) (a : Act) (i : Nat) (h : (m.tab i).isSome = true) :
    ((step m a).tab i).isSome = true := by
  have hd : ((deliver m a).tab i).isSome = true := by
    unfold deliver
    cases hm : m.tab a.chan with
    | none =>
      simp only [die]
      cases hi : m.tab i with
      | none => simp [hi] at h
      | some x => simp
    | some ch =>
      simp only []
      split
      · exact setTab_some m _ i _ h
      · exact h
  have hap : ((appCall m a).tab i).isSome = true := by
    unfold appCall
    cases hm : m.tab a.chan with
    | none => exact h
    | some ch => exact setTab_some m _ i _ h
  have ho : ∀ c, ((openChan m c).tab i).isSome = true := by
    intro c
    unfold openChan
    cases hm : m.tab c with
    | none => exact setTab_some m _ i _ h
    | some ch =>
      simp only []
      split
      · exact h
      · exact setTab_some m _ i _ h
  cases a <;> simp only [step, Act.arrival, Bool.false_eq_true, if_false, if_true] <;>
    first
      | (split <;> first | exact hd | exact h)
      | exact hap
      | (split <;> first | exact ho _ | exact h)

private theorem staysLinked_cons (c : Nat) (a : Act) (rest : List Act) :
    staysLinked c (a :: rest) = (staysLinked c [a] && staysLinked c rest) := by
  cases a <;> simp [staysLinked]

private theorem step_on_linked (m : Mux) (a : Act) (ch : Chan) (h : m.tab a.chan = some ch) (hl : ch.linked = true)
    (hal : m.alive = true) (hs : staysLinked a.chan [a] = true) :
    (step m a).tab a.chan = some (chanStep ch a) ∧ (step m a).alive = true := by
  have hd : deliver m a = setTab m a.chan (chanStep ch a) := by unfold deliver; simp [h, hl]
  have hap : appCall m a = setTab m a.chan (chanStep ch a) := by unfold appCall; simp [h]
  cases a <;> simp [staysLinked, Act.chan] at hs <;>
    simp only [step, Act.arrival, Bool.false_eq_true, if_false, if_true, hal] <;>
    first
      | (rw [hd]; exact ⟨setTab_same _ _ _, hal⟩)
      | (rw [hap]; exact ⟨setTab_same _ _ _, hal⟩)

private theorem step_off_channel (m : Mux) (a : Act) (c : Nat) (ch : Chan) (h : m.tab c = some ch) (hne : c ≠ a.chan)
    (hal : m.alive = true) (hka : a.arrival = true → (m.tab a.chan).isSome = true) :
    (step m a).tab c = some ch ∧ (step m a).alive = true := by
  have hd : a.arrival = true → ((deliver m a).tab c = some ch ∧ (deliver m a).alive = true) := by
    intro ha
    have hs := hka ha
    unfold deliver
    cases hm : m.tab a.chan with
    | none => simp [hm] at hs
    | some x =>
      simp only []
      split
      · exact ⟨by rw [setTab_other m _ c _ hne]; exact h, hal⟩
      · exact ⟨h, hal⟩
  have hap : (appCall m a).tab c = some ch ∧ (appCall m a).alive = true := by
    refine ⟨by rw [appCall_frame m a c hne]; exact h, ?_⟩
    unfold appCall
    cases hm : m.tab a.chan with
    | none => exact hal
    | some x => exact hal
  have ho : ∀ i, c ≠ i → ((openChan m i).tab c = some ch ∧ (openChan m i).alive = true) := by
    intro i hi
    refine ⟨by rw [openChan_frame m i c hi]; exact h, ?_⟩
    unfold openChan
    cases hm : m.tab i with
    | none => exact hal
    | some x => simp only []; split <;> exact hal
  cases a <;> simp only [Act.chan] at hne <;>
    simp only [step, Act.arrival, Bool.false_eq_true, if_false, if_true, hal] <;>
    first
      | exact hd rfl
      | exact hap
      | exact ho _ hne

/-- **Refinement to a map of per-channel machines**: while the run loop lives (the peer addresses only ids in use)
and channel `c` stays registered, what any history does to `c` is what the sub-history addressed to `c` does to it
alone — whatever happens on the other channels in between (data, closes, dead-channel traffic, re-opened ids). -/
theorem run_proj (m : Mux) (acts : List Act) (c : Nat) (ch : Chan) (h : m.tab c = some ch) (hl : ch.linked = true)
    (hal : m.alive = true) (hk : KnownIds m acts) (hs : staysLinked c acts = true) :
    (run m acts).tab c = some (runChan ch (acts.filter (fun a => a.chan == c))) ∧ (run m acts).alive = true := by
  induction acts generalizing m ch with
  | nil => simpa [run, runChan] using ⟨h, hal⟩
  | cons a rest ih =>
    rw [staysLinked_cons] at hs
    simp only [Bool.and_eq_true] at hs
    have hk' : KnownIds (step m a) rest := by
      intro x hx hax
      exact step_keeps_some m a x.chan (hk x (by simp [hx]) hax)
    simp only [run, List.foldl_cons] at ih ⊢
    by_cases hc : a.chan = c
    · have e : (a :: rest).filter (fun a => a.chan == c) = a :: rest.filter (fun a => a.chan == c) := by simp [hc]
      rw [e]
      subst hc
      have hstep := step_on_linked m a ch h hl hal hs.1
      have := ih (step m a) (chanStep ch a) hstep.1 (chanStep_linked ch a hl hs.1) hstep.2 hk' hs.2
      simpa [runChan] using this
    · have e : (a :: rest).filter (fun a => a.chan == c) = rest.filter (fun a => a.chan == c) := by simp [hc]
      rw [e]
      have hstep := step_off_channel m a c ch h (fun e => hc e.symm) hal (hk a (by simp))
      exact ih (step m a) ch hstep.1 hl hstep.2 hk' hs.2

/-! ### the association-list table the driver executes is the same transition system -/

private theorem lookup_cons (l : List (Nat × Chan)) (c i : Nat) (x : Chan) :
    lookup ((c, x) :: l) i = if i = c then some x else lookup l i := by
  unfold lookup
  by_cases h : i = c
  · subst h; simp
  · have : (c == i) = false := by simp; exact fun e => h e.symm
    simp [List.find?_cons, this, h]

private theorem lookup_map_kill (l : List (Nat × Chan)) (i : Nat) :
    lookup (l.map (fun p : Nat × Chan => (p.1, kill p.2))) i = (lookup l i).map kill := by
  unfold lookup
  induction l with
  | nil => rfl
  | cons p rest ih =>
    by_cases h : p.1 = i
    · simp [List.find?_cons, h]
    · have : (p.1 == i) = false := by simpa using h
      simpa [List.find?_cons, this] using ih

private theorem toMux_cons (l : List (Nat × Chan)) (al : Bool) (c : Nat) (x : Chan) :
    ({ l := (c, x) :: l, alive := al } : Table).toMux = setTab ({ l := l, alive := al } : Table).toMux c x := by
  simp only [Table.toMux, setTab, Mux.mk.injEq, and_true]
  funext i
  exact lookup_cons l c i x

private theorem toMux_alive (t : Table) : t.toMux.alive = t.alive := rfl

theorem table_refines (t : Table) (a : Act) : (stepL t a).toMux = step t.toMux a := by
  obtain ⟨l, al⟩ := t
  have hd : al = true → a.arrival = true →
      (match lookup l a.chan with
        | none => ({ l := l.map (fun p : Nat × Chan => (p.1, kill p.2)), alive := false } : Table)
        | some ch => if ch.linked then { l := (a.chan, chanStep ch a) :: l, alive := al } else { l := l, alive := al }).toMux
      = deliver ({ l := l, alive := al } : Table).toMux a := by
    intro _ _
    unfold deliver
    simp only [Table.toMux]
    cases hm : lookup l a.chan with
    | none =>
      simp only [die, Mux.mk.injEq, and_true]
      funext i; exact lookup_map_kill l i
    | some ch =>
      simp only []
      split
      · exact toMux_cons l al _ _
      · rfl
  have hap : (match lookup l a.chan with
        | none => ({ l := l, alive := al } : Table)
        | some ch => { l := (a.chan, chanStep ch a) :: l, alive := al }).toMux
      = appCall ({ l := l, alive := al } : Table).toMux a := by
    unfold appCall
    simp only [Table.toMux]
    cases hm : lookup l a.chan with
    | none => rfl
    | some ch => exact toMux_cons l al _ _
  have ho : ∀ c, (match lookup l c with
        | some ch => if ch.linked then ({ l := l, alive := al } : Table) else { l := (c, {}) :: l, alive := al }
        | none => { l := (c, {}) :: l, alive := al }).toMux
      = openChan ({ l := l, alive := al } : Table).toMux c := by
    intro c
    unfold openChan
    simp only [Table.toMux]
    cases hm : lookup l c with
    | none => exact toMux_cons l al _ _
    | some ch =>
      simp only []
      split
      · rfl
      · exact toMux_cons l al _ _
  cases al <;> cases a <;>
    simp only [stepL, step, Act.arrival, toMux_alive, Bool.false_eq_true, if_false, if_true] <;>
    first
      | rfl
      | exact hd rfl rfl
      | exact hap
      | exact ho _

theorem table_fresh (k : Nat) : (freshL k).toMux = fresh k := by
  simp only [freshL, fresh, Table.toMux, Mux.mk.injEq, and_true]
  funext c
  induction k with
  | zero => simp [freshList, lookup]
  | succ n ih =>
    rw [freshList, lookup_cons, ih]
    by_cases h1 : c = n
    · subst h1; simp
    · by_cases h2 : c < n
      · have : c < n + 1 := by omega
        simp [h1, h2, this]
      · have : ¬ c < n + 1 := by omega
        simp [h1, h2, this]

/-! ## per channel: streams without combining -/

private theorem readBuf_conserve (buf : Bytes) (closed : Bool) (n : Nat) :
    (readBuf buf closed n).1.bytes ++ (readBuf buf closed n).2 = buf := by
  unfold readBuf
  split
  · split <;> simp [Res.bytes]
  · simp [Res.bytes]

private theorem plain_step (c : Nat) (ch : Chan) (a : Act) (ha : a.chan = c)
    (hn : neverCombines c [a] = true) (hc : ch.combine = false) (hp : ch.pending = []) :
    let s := chanStep ch a
    s.outRead ++ s.out = ch.outRead ++ ch.out ++ sentOut c [a] ∧
    s.errRead ++ s.err = ch.errRead ++ ch.err ++ sentErr c [a] ∧ s.combine = false ∧ s.pending = [] := by
  cases a with
  | data c' d => simp only [Act.chan] at ha; subst ha; simp [chanStep, sentOut, sentErr, hc, hp]
  | ext c' code d =>
    simp only [Act.chan] at ha; subst ha
    by_cases h1 : code = 1
    · subst h1; simp [chanStep, sentOut, sentErr, hc, hp]
    · simp [chanStep, sentOut, sentErr, hc, hp, h1]
  | eof c' => simp [chanStep, sentOut, sentErr, hc, hp]
  | exitStatus c' v => simp [chanStep, sentOut, sentErr, hc, hp]
  | recv c' n =>
    have := readBuf_conserve ch.out (ch.eof || ch.closed) n
    simp only [chanStep, sentOut, sentErr, hc, hp, List.append_nil]
    refine ⟨?_, trivial, trivial, trivial⟩
    rw [List.append_assoc, this]
  | recvErr c' n =>
    have := readBuf_conserve ch.err (ch.eof || ch.closed) n
    simp only [chanStep, sentOut, sentErr, hc, hp, List.append_nil]
    refine ⟨trivial, ?_, trivial, trivial⟩
    rw [List.append_assoc, this]
  | setCombine c' b =>
    simp only [Act.chan] at ha; subst ha
    simp [neverCombines] at hn
    subst hn
    simp [chanStep, sentOut, sentErr, hc, hp]
  | setCombineOldA c' =>
    simp only [Act.chan] at ha; subst ha
    simp [neverCombines] at hn
  | setCombineOldB c' => simp [chanStep, sentOut, sentErr, hc, hp]
  | close c' => simp [chanStep, sentOut, sentErr, hc, hp]
  | remoteClose c' => simp [chanStep, sentOut, sentErr, hc, hp]
  | «open» c' => simp [chanStep, sentOut, sentErr, hc, hp]

private theorem sentOut_cons (c : Nat) (a : Act) (rest : List Act) :
    sentOut c (a :: rest) = sentOut c [a] ++ sentOut c rest := by
  cases a <;> simp [sentOut]
private theorem sentErr_cons (c : Nat) (a : Act) (rest : List Act) :
    sentErr c (a :: rest) = sentErr c [a] ++ sentErr c rest := by
  cases a <;> simp [sentErr]
private theorem sentBoth_cons (c : Nat) (a : Act) (rest : List Act) :
    sentBoth c (a :: rest) = sentBoth c [a] ++ sentBoth c rest := by
  cases a <;> simp [sentBoth]
private theorem neverCombines_cons (c : Nat) (a : Act) (rest : List Act) :
    neverCombines c (a :: rest) = (neverCombines c [a] && neverCombines c rest) := by
  cases a <;> simp [neverCombines]
private theorem keepsCombining_cons (c : Nat) (a : Act) (rest : List Act) :
    keepsCombining c (a :: rest) = (keepsCombining c [a] && keepsCombining c rest) := by
  cases a <;> simp [keepsCombining]

/-- **Streams intact (one channel).**  As long as combining is never switched on: what was read from stdout plus
what is still buffered there is exactly what the peer wrote to stdout, in order — and likewise for stderr —
whatever the chunking of the writes and reads. -/
theorem plain_streams (c : Nat) (h : List Act) (ch : Chan) (hall : ∀ a ∈ h, a.chan = c)
    (hn : neverCombines c h = true) (hc : ch.combine = false) (hp : ch.pending = []) :
    let s := runChan ch h
    s.outRead ++ s.out = ch.outRead ++ ch.out ++ sentOut c h ∧
    s.errRead ++ s.err = ch.errRead ++ ch.err ++ sentErr c h := by
  induction h generalizing ch with
  | nil => simp [runChan, sentOut, sentErr]
  | cons a rest ih =>
    rw [neverCombines_cons] at hn
    simp only [Bool.and_eq_true] at hn
    obtain ⟨h1, h2, h3, h4⟩ := plain_step c ch a (hall a (by simp)) hn.1 hc hp
    have := ih (chanStep ch a) (fun x hx => hall x (by simp [hx])) hn.2 h3 h4
    simp only [runChan, List.foldl_cons] at this ⊢
    rw [sentOut_cons, sentErr_cons, this.1, this.2, h1, h2]
    simp [List.append_assoc]

/-! ## per channel: combined stderr -/

/-- **Switching on** moves everything still buffered on stderr to the end of the stdout stream, atomically:
nothing is lost, stderr is empty afterwards ("including data buffered before combining was switched on"). -/
theorem switch_on_moves_buffered_stderr (c : Nat) (ch : Chan) (hc : ch.combine = false) :
    let s := chanStep ch (.setCombine c true)
    s.combine = true ∧ s.outRead ++ s.out = ch.outRead ++ ch.out ++ ch.err ∧ s.err = [] ∧
      s.outRead = ch.outRead ∧ s.errRead = ch.errRead := by
  simp [chanStep, hc, List.append_assoc]

private theorem combined_step (c : Nat) (ch : Chan) (a : Act) (ha : a.chan = c)
    (hk : keepsCombining c [a] = true) (hc : ch.combine = true) (he : ch.err = []) (hp : ch.pending = []) :
    let s := chanStep ch a
    s.outRead ++ s.out = ch.outRead ++ ch.out ++ sentBoth c [a] ∧ s.err = [] ∧ s.errRead = ch.errRead ∧
      s.combine = true ∧ s.pending = [] := by
  cases a with
  | data c' d => simp only [Act.chan] at ha; subst ha; simp [chanStep, sentBoth, hc, he, hp]
  | ext c' code d =>
    simp only [Act.chan] at ha; subst ha
    by_cases h1 : code = 1
    · subst h1; simp [chanStep, sentBoth, hc, he, hp]
    · simp [chanStep, sentBoth, hc, he, hp, h1]
  | eof c' => simp [chanStep, sentBoth, hc, he, hp]
  | exitStatus c' v => simp [chanStep, sentBoth, hc, he, hp]
  | recv c' n =>
    have := readBuf_conserve ch.out (ch.eof || ch.closed) n
    simp only [chanStep, sentBoth, hc, he, hp, List.append_nil]
    refine ⟨?_, trivial, trivial, trivial, trivial⟩
    rw [List.append_assoc, this]
  | recvErr c' n =>
    simp only [chanStep, sentBoth, hc, he, hp, List.append_nil]
    refine ⟨trivial, ?_, ?_, trivial, trivial⟩
    · simp [readBuf]; split <;> rfl
    · simp [readBuf]; split <;> simp [Res.bytes]
  | setCombine c' b =>
    simp only [Act.chan] at ha; subst ha
    simp [keepsCombining] at hk
    subst hk
    simp [chanStep, sentBoth, hc, he, hp]
  | setCombineOldA c' => simp [keepsCombining] at hk
  | setCombineOldB c' => simp [keepsCombining] at hk
  | close c' => simp [chanStep, sentBoth, hc, he, hp]
  | remoteClose c' => simp [chanStep, sentBoth, hc, he, hp]
  | «open» c' => simp [chanStep, sentBoth, hc, he, hp]

/-- **Combined stream.**  While combining stays on, the stdout stream (read ++ buffered) grows by exactly what the
peer writes to *either* stream, in arrival order; nothing ever shows up on stderr. -/
theorem combined_stream (c : Nat) (h : List Act) (ch : Chan) (hall : ∀ a ∈ h, a.chan = c)
    (hk : keepsCombining c h = true) (hc : ch.combine = true) (he : ch.err = []) (hp : ch.pending = []) :
    let s := runChan ch h
    s.outRead ++ s.out = ch.outRead ++ ch.out ++ sentBoth c h ∧ s.err = [] ∧ s.errRead = ch.errRead := by
  induction h generalizing ch with
  | nil => simp [runChan, sentBoth, he]
  | cons a rest ih =>
    rw [keepsCombining_cons] at hk
    simp only [Bool.and_eq_true] at hk
    obtain ⟨h1, h2, h3, h4, h5⟩ := combined_step c ch a (hall a (by simp)) hk.1 hc he hp
    have := ih (chanStep ch a) (fun x hx => hall x (by simp [hx])) hk.2 h4 h2 h5
    simp only [runChan, List.foldl_cons] at this ⊢
    rw [sentBoth_cons, this.1, this.2.1, this.2.2, h1, h3]
    simp [List.append_assoc]

/-- combining switched on at any moment of any history: from then on (while it stays on) the stdout stream is
`what it was ++ the stderr data buffered at that moment ++ everything that arrives afterwards on both streams` -/
theorem combined_from_switch (c : Nat) (ch : Chan) (post : List Act) (hall : ∀ a ∈ post, a.chan = c)
    (hk : keepsCombining c post = true) (hc : ch.combine = false) (hp : ch.pending = []) :
    let s := runChan ch (.setCombine c true :: post)
    s.outRead ++ s.out = ch.outRead ++ ch.out ++ ch.err ++ sentBoth c post ∧ s.err = [] ∧ s.errRead = ch.errRead := by
  obtain ⟨h1, h2, h3, _, h5⟩ := switch_on_moves_buffered_stderr c ch hc
  have hp' : (chanStep ch (.setCombine c true)).pending = [] := by simp [chanStep, hc, hp]
  have := combined_stream c post (chanStep ch (.setCombine c true)) hall hk h1 h3 hp'
  simp only [runChan, List.foldl_cons] at this ⊢
  rw [this.1, this.2.1, this.2.2, h2, h5]
  simp

/-! ## exit status -/

private theorem exit_step (c : Nat) (ch : Chan) (a : Act) (ha : a.chan = c) :
    (chanStep ch a).exit = (match lastExit c [a] with | some v => some v | none => ch.exit) := by
  cases a <;> simp only [Act.chan] at ha <;> (try subst ha) <;> simp [chanStep, lastExit] <;>
    (repeat' split) <;> simp_all

/-- **Exit status.**  The status reported is the one the peer sent last for that channel (and none if none was sent). -/
theorem exit_status_is_the_one_sent (c : Nat) (h : List Act) (ch : Chan) (hall : ∀ a ∈ h, a.chan = c) :
    (runChan ch h).exit = (match lastExit c h with | some v => some v | none => ch.exit) := by
  induction h generalizing ch with
  | nil => simp [runChan, lastExit]
  | cons a rest ih =>
    have h1 := exit_step c ch a (hall a (by simp))
    have := ih (chanStep ch a) (fun x hx => hall x (by simp [hx]))
    simp only [runChan, List.foldl_cons] at this ⊢
    rw [this, h1]
    cases a <;> simp [lastExit] <;> (repeat' split) <;> simp_all

/-- **Exit status on the wire.**  For every status in the uint32 range, what `_handle_request` reads out of the request
`send_exit_status` wrote is that status (the field is four fixed bytes: no value, 0xFF000000 … 0xFFFFFFFF included,
is encoded differently). -/
theorem exit_status_wire_roundtrip (v : Nat) (hv : v < 4294967296) :
    handleRequestExit (exitStatusBody v) = some v := by
  have hbody : exitStatusBody v = [] ++ be32 11 ++ (exitStatusName ++ [0] ++ be32 v) := by
    simp [exitStatusBody, encodeAll, encode, encStr, exitStatusName, List.append_assoc]
  unfold handleRequestExit Rd.getString Rd.getInt
  rw [hbody]
  have h1 := getBytes_exact [] (be32 11) (exitStatusName ++ [0] ++ be32 v)
  simp only [List.length_nil, be32, beBytes_length] at h1
  simp only [be32, h1]
  have hv11 : beVal (beBytes 4 11) = 11 := by decide
  simp only [hv11]
  have h2 := getBytes_exact (beBytes 4 11) exitStatusName ([0] ++ beBytes 4 v)
  have e2 : ([] : Bytes) ++ beBytes 4 11 ++ (exitStatusName ++ [0] ++ beBytes 4 v)
      = beBytes 4 11 ++ exitStatusName ++ ([0] ++ beBytes 4 v) := by simp [List.append_assoc]
  have l1 : (beBytes 4 11).length = 4 := by simp
  have l2 : exitStatusName.length = 11 := by decide
  rw [l1, l2] at h2
  rw [e2]
  simp only [Nat.zero_add, h2]
  have h3 := getBytes_exact (beBytes 4 11 ++ exitStatusName) [0] (beBytes 4 v)
  have l3 : (beBytes 4 11 ++ exitStatusName).length = 15 := by simp [l2]
  rw [l3] at h3
  have e3 : beBytes 4 11 ++ exitStatusName ++ ([0] ++ beBytes 4 v) = beBytes 4 11 ++ exitStatusName ++ [0] ++ beBytes 4 v := by
    simp [List.append_assoc]
  rw [e3]
  simp only [List.length_singleton] at h3
  simp only [h3, if_true]
  have h4 := getBytes_exact (beBytes 4 11 ++ exitStatusName ++ [0]) (beBytes 4 v) []
  have l4 : (beBytes 4 11 ++ exitStatusName ++ [0]).length = 16 := by simp [l2]
  rw [l4] at h4
  simp only [beBytes_length, List.append_nil] at h4
  rw [h4]
  simp only []
  exact congrArg some (beVal_beBytes_of_lt 4 v (by simpa using hv))

-- the boundary values of the uint32 range, as bytes on the wire
example : exitStatusRequest 7 4294967295 =
    [98, 0, 0, 0, 7, 0, 0, 0, 11, 101, 120, 105, 116, 45, 115, 116, 97, 116, 117, 115, 0, 255, 255, 255, 255] := by decide
example : (exitStatusBody 4278190081).drop 16 = [255, 0, 0, 1] := by decide

/-! ## the whole transport: any number of channels -/

private theorem filter_all (c : Nat) (acts : List Act) : ∀ a ∈ acts.filter (fun a => a.chan == c), a.chan = c := by
  intro a ha
  simp at ha
  exact ha.2

private theorem sentOut_filter (c : Nat) (acts : List Act) :
    sentOut c (acts.filter (fun a => a.chan == c)) = sentOut c acts := by
  induction acts with
  | nil => rfl
  | cons a rest ih =>
    by_cases h : a.chan = c
    · have : (a :: rest).filter (fun a => a.chan == c) = a :: rest.filter (fun a => a.chan == c) := by simp [h]
      rw [this, sentOut_cons, sentOut_cons c a rest, ih]
    · have : (a :: rest).filter (fun a => a.chan == c) = rest.filter (fun a => a.chan == c) := by simp [h]
      rw [this, ih, sentOut_cons c a rest]
      cases a <;> simp_all [sentOut, Act.chan]

private theorem sentErr_filter (c : Nat) (acts : List Act) :
    sentErr c (acts.filter (fun a => a.chan == c)) = sentErr c acts := by
  induction acts with
  | nil => rfl
  | cons a rest ih =>
    by_cases h : a.chan = c
    · have : (a :: rest).filter (fun a => a.chan == c) = a :: rest.filter (fun a => a.chan == c) := by simp [h]
      rw [this, sentErr_cons, sentErr_cons c a rest, ih]
    · have : (a :: rest).filter (fun a => a.chan == c) = rest.filter (fun a => a.chan == c) := by simp [h]
      rw [this, ih, sentErr_cons c a rest]
      cases a <;> simp_all [sentErr, Act.chan]

private theorem neverCombines_filter (c : Nat) (acts : List Act) (h : neverCombines c acts = true) :
    neverCombines c (acts.filter (fun a => a.chan == c)) = true := by
  induction acts with
  | nil => rfl
  | cons a rest ih =>
    rw [neverCombines_cons] at h
    simp only [Bool.and_eq_true] at h
    by_cases hc : a.chan = c
    · have : (a :: rest).filter (fun a => a.chan == c) = a :: rest.filter (fun a => a.chan == c) := by simp [hc]
      rw [this, neverCombines_cons]
      simp [h.1, ih h.2]
    · have : (a :: rest).filter (fun a => a.chan == c) = rest.filter (fun a => a.chan == c) := by simp [hc]
      rw [this]; exact ih h.2

/-- **C21, streams.**  `k` channels open on one transport; any history of messages for them (data, EOF, exit status,
CLOSE of *other* channels, traffic for channels that are already dead), reads of any sizes, local closes and anything
else happening on the other channels: for every channel `c` that stays registered and never switches combining on,
stdout read ++ buffered = what the peer wrote to `c`'s stdout, and the same for stderr. -/
theorem streams_intact (k : Nat) (acts : List Act) (c : Nat) (hc : c < k)
    (hk : KnownIds (fresh k) acts) (hs : staysLinked c acts = true) (hn : neverCombines c acts = true) :
    ∃ s, (run (fresh k) acts).tab c = some s ∧
      s.outRead ++ s.out = sentOut c acts ∧ s.errRead ++ s.err = sentErr c acts := by
  have h0 : (fresh k).tab c = some {} := by simp [fresh, hc]
  refine ⟨_, (run_proj (fresh k) acts c {} h0 rfl rfl hk hs).1, ?_⟩
  have := plain_streams c (acts.filter (fun a => a.chan == c)) {} (filter_all c acts)
    (neverCombines_filter c acts hn) rfl rfl
  simp only [sentOut_filter, sentErr_filter] at this
  simpa using this

/-- **After the peer's CLOSE** (the channel is unlinked) nothing the peer still sends under that id reaches the old
channel object: whatever was buffered stays readable, nothing is added — and a channel later opened under the same id
starts empty (`reopened_channel_starts_empty`). -/
theorem late_data_is_dropped (m : Mux) (c : Nat) (ch : Chan) (late : List Act) (h : m.tab c = some ch)
    (hl : ch.linked = false) (hlate : ∀ a ∈ late, a.arrival = true ∧ a.chan = c) : run m late = m := by
  induction late generalizing m with
  | nil => rfl
  | cons a rest ih =>
    have ha := hlate a (by simp)
    have hstep : step m a = m := dead_channel_drops m a ch ha.1 (by rw [ha.2]; exact h) hl
    simp only [run, List.foldl_cons, hstep]
    exact ih m h (fun x hx => hlate x (by simp [hx]))

/-! ## non-vacuity and the race that was fixed -/

-- three channels, interleaved traffic, chunked reads; channel 1 combines from the start
example :
    let m := run (fresh 3) [.setCombine 1 true, .data 0 [1, 2], .ext 1 1 [9], .data 1 [7], .ext 0 1 [5], .data 2 [3],
      .recv 0 1, .ext 1 1 [8], .exitStatus 2 3, .recv 1 10, .recvErr 0 4]
    (m.tab 0).map (fun s => (s.outRead, s.out, s.errRead)) = some ([1], [2], [5]) ∧
    (m.tab 1).map (fun s => (s.outRead, s.err)) = some ([9, 7, 8], []) ∧
    (m.tab 2).map (fun s => s.exit) = some (some 3) ∧ m.alive = true := by decide

-- local close, late data, the peer's CLOSE, dead-channel traffic, a re-opened id, and an unknown id ending the run loop
example :
    let m := run (fresh 2) [.data 0 [1], .close 0, .data 0 [2], .remoteClose 0, .data 0 [3], .data 1 [9], .open 0,
      .data 0 [4], .recv 0 9, .data 5 [0], .data 1 [8], .recv 1 9, .recv 1 9]
    (m.tab 0).map (fun s => (s.outRead, s.out)) = some ([4], []) ∧
    (m.tab 1).map (fun s => (s.outRead, s.out, s.closed, s.last)) = some ([9], [], true, some (.data [])) ∧
    m.alive = false := by decide

-- data that arrives between the local close() and the peer's CLOSE still lands in that channel (and is readable)
example :
    ((run (fresh 1) [.data 0 [1], .close 0, .data 0 [2], .remoteClose 0, .data 0 [3], .recv 0 9]).tab 0).map
      (fun s => (s.outRead, s.linked)) = some ([1, 2], false) := by decide

/-- the old `set_combine_stderr(True)`: it emptied stderr (`A`) under the lock, a stderr message `B` arrived, and only
then `A` was fed into stdout: the application reads `B A`. -/
theorem race_witness_before_fix :
    (runChan {} [.ext 0 1 [65], .setCombineOldA 0, .ext 0 1 [66], .setCombineOldB 0, .recv 0 10]).outRead = [66, 65] := by
  decide

/-- the same history with the current (atomic) `set_combine_stderr` -/
theorem race_history_after_fix :
    (runChan {} [.ext 0 1 [65], .setCombine 0 true, .ext 0 1 [66], .recv 0 10]).outRead = [65, 66] := by decide

end PV.Props.C21
