/-
  C21 — Channel byte streams arrive intact, in order and on the right stream.
  Property theorems only.  Model: PV/Model/Mux.lean (dispatch by channel id + per-channel streams); the FIFOs
  themselves are the subject of C26 (PV/Model/BufferedPipe.lean).

  A history is any `List Act`: messages of the peer for any channel ids in any order, interleaved in any way with
  `recv` / `recv_stderr` (any sizes) and `set_combine_stderr` calls of the application.
-/
import PV.Model.Mux
namespace PV.Props.C21
open PV PV.Mux

/-! ## dispatch: a map of independent per-channel machines -/

/-- a message or call for channel `a.chan` leaves every other channel untouched -/
theorem dispatch_frame (m : Mux) (a : Act) (c : Nat) (h : c ≠ a.chan) : step m a c = m c := by
  unfold step
  cases m a.chan with
  | none => rfl
  | some ch => simp [h]

private theorem step_same (m : Mux) (a : Act) (ch : Chan) (h : m a.chan = some ch) :
    step m a a.chan = some (chanStep ch a) := by
  unfold step; simp [h]

/-- **Refinement to a map of per-channel machines**: what any history does to channel `c` is what the sub-history
addressed to `c` does to it alone, whatever happens on the other channels in between. -/
theorem run_proj (m : Mux) (acts : List Act) (c : Nat) (ch : Chan) (h : m c = some ch) :
    run m acts c = some (runChan ch (acts.filter (fun a => a.chan == c))) := by
  induction acts generalizing m ch with
  | nil => simpa [run, runChan] using h
  | cons a rest ih =>
    simp only [run, List.foldl_cons] at ih ⊢
    by_cases hc : a.chan = c
    · have h' : m a.chan = some ch := by rw [hc]; exact h
      have := step_same m a ch h'
      rw [hc] at this
      have e : (a :: rest).filter (fun a => a.chan == c) = a :: rest.filter (fun a => a.chan == c) := by
        simp [hc]
      rw [e]
      simpa [runChan] using ih (step m a) (chanStep ch a) this
    · have hne : c ≠ a.chan := fun e => hc e.symm
      have := dispatch_frame m a c hne
      have e : (a :: rest).filter (fun a => a.chan == c) = rest.filter (fun a => a.chan == c) := by
        simp [hc]
      rw [e]
      exact ih (step m a) ch (by rw [this]; exact h)

/-- a channel id that is not open receives nothing and no channel is created by traffic -/
theorem unknown_channel_ignored (m : Mux) (a : Act) (h : m a.chan = none) : step m a = m := by
  unfold step; simp [h]

/-- the list-indexed table the driver executes is the same transition system as the abstract channel map -/
theorem table_refines (l : Table) (a : Act) : (stepL l a).toMux = step l.toMux a := by
  funext c
  unfold stepL step Table.toMux
  cases h : (l[a.chan]?).join with
  | none => rfl
  | some ch =>
    simp only []
    by_cases hc : c = a.chan
    · subst hc
      have hlt : a.chan < l.length := by
        cases h2 : l[a.chan]? with
        | none => simp [h2] at h
        | some _ => exact (List.getElem?_eq_some_iff.mp h2).1
      simp [hlt]
    · have : a.chan ≠ c := fun e => hc e.symm
      simp [this, hc]

theorem table_fresh (k : Nat) : (freshL k).toMux = fresh k := by
  funext c
  unfold freshL fresh Table.toMux
  by_cases h : c < k
  · simp [h]
  · simp [h]

/-! ## per channel: streams without combining -/

private theorem readBuf_conserve (buf : Bytes) (closed : Bool) (n : Nat) :
    (readBuf buf closed n).1.bytes ++ (readBuf buf closed n).2 = buf := by
  unfold readBuf
  split
  · split <;> simp [Res.bytes]
  · simp [Res.bytes]

private theorem plain_step (c : Nat) (ch : Chan) (a : Act) (ha : a.chan = c)
    (hn : neverCombines c [a] = true) (hc : ch.combine = false) (hp : ch.pending = []) :
    let s := chanStep ch a
    s.outRead ++ s.out = ch.outRead ++ ch.out ++ sentOut c [a] ∧
    s.errRead ++ s.err = ch.errRead ++ ch.err ++ sentErr c [a] ∧ s.combine = false ∧ s.pending = [] := by
  cases a with
  | data c' d => simp only [Act.chan] at ha; subst ha; simp [chanStep, sentOut, sentErr, hc, hp]
  | ext c' code d =>
    simp only [Act.chan] at ha; subst ha
    by_cases h1 : code = 1
    · subst h1; simp [chanStep, sentOut, sentErr, hc, hp]
    · simp [chanStep, sentOut, sentErr, hc, hp, h1]
  | eof c' => simp [chanStep, sentOut, sentErr, hc, hp]
  | exitStatus c' v => simp [chanStep, sentOut, sentErr, hc, hp]
  | recv c' n =>
    have := readBuf_conserve ch.out ch.eof n
    simp only [chanStep, sentOut, sentErr, hc, hp, List.append_nil]
    refine ⟨?_, trivial, trivial, trivial⟩
    rw [List.append_assoc, this]
  | recvErr c' n =>
    have := readBuf_conserve ch.err ch.eof n
    simp only [chanStep, sentOut, sentErr, hc, hp, List.append_nil]
    refine ⟨trivial, ?_, trivial, trivial⟩
    rw [List.append_assoc, this]
  | setCombine c' b =>
    simp only [Act.chan] at ha; subst ha
    simp [neverCombines] at hn
    subst hn
    simp [chanStep, sentOut, sentErr, hc, hp]
  | setCombineOldA c' =>
    simp only [Act.chan] at ha; subst ha
    simp [neverCombines] at hn
  | setCombineOldB c' => simp [chanStep, sentOut, sentErr, hc, hp]

private theorem sentOut_cons (c : Nat) (a : Act) (rest : List Act) :
    sentOut c (a :: rest) = sentOut c [a] ++ sentOut c rest := by
  cases a <;> simp [sentOut]
private theorem sentErr_cons (c : Nat) (a : Act) (rest : List Act) :
    sentErr c (a :: rest) = sentErr c [a] ++ sentErr c rest := by
  cases a <;> simp [sentErr]
private theorem sentBoth_cons (c : Nat) (a : Act) (rest : List Act) :
    sentBoth c (a :: rest) = sentBoth c [a] ++ sentBoth c rest := by
  cases a <;> simp [sentBoth]
private theorem neverCombines_cons (c : Nat) (a : Act) (rest : List Act) :
    neverCombines c (a :: rest) = (neverCombines c [a] && neverCombines c rest) := by
  cases a <;> simp [neverCombines]
private theorem keepsCombining_cons (c : Nat) (a : Act) (rest : List Act) :
    keepsCombining c (a :: rest) = (keepsCombining c [a] && keepsCombining c rest) := by
  cases a <;> simp [keepsCombining]

/-- **Streams intact (one channel).**  As long as combining is never switched on: what was read from stdout plus
what is still buffered there is exactly what the peer wrote to stdout, in order — and likewise for stderr —
whatever the chunking of the writes and reads. -/
theorem plain_streams (c : Nat) (h : List Act) (ch : Chan) (hall : ∀ a ∈ h, a.chan = c)
    (hn : neverCombines c h = true) (hc : ch.combine = false) (hp : ch.pending = []) :
    let s := runChan ch h
    s.outRead ++ s.out = ch.outRead ++ ch.out ++ sentOut c h ∧
    s.errRead ++ s.err = ch.errRead ++ ch.err ++ sentErr c h := by
  induction h generalizing ch with
  | nil => simp [runChan, sentOut, sentErr]
  | cons a rest ih =>
    rw [neverCombines_cons] at hn
    simp only [Bool.and_eq_true] at hn
    obtain ⟨h1, h2, h3, h4⟩ := plain_step c ch a (hall a (by simp)) hn.1 hc hp
    have := ih (chanStep ch a) (fun x hx => hall x (by simp [hx])) hn.2 h3 h4
    simp only [runChan, List.foldl_cons] at this ⊢
    rw [sentOut_cons, sentErr_cons, this.1, this.2, h1, h2]
    simp [List.append_assoc]

/-! ## per channel: combined stderr -/

/-- **Switching on** moves everything still buffered on stderr to the end of the stdout stream, atomically:
nothing is lost, stderr is empty afterwards ("including data buffered before combining was switched on"). -/
theorem switch_on_moves_buffered_stderr (c : Nat) (ch : Chan) (hc : ch.combine = false) :
    let s := chanStep ch (.setCombine c true)
    s.combine = true ∧ s.outRead ++ s.out = ch.outRead ++ ch.out ++ ch.err ∧ s.err = [] ∧
      s.outRead = ch.outRead ∧ s.errRead = ch.errRead := by
  simp [chanStep, hc, List.append_assoc]

private theorem combined_step (c : Nat) (ch : Chan) (a : Act) (ha : a.chan = c)
    (hk : keepsCombining c [a] = true) (hc : ch.combine = true) (he : ch.err = []) (hp : ch.pending = []) :
    let s := chanStep ch a
    s.outRead ++ s.out = ch.outRead ++ ch.out ++ sentBoth c [a] ∧ s.err = [] ∧ s.errRead = ch.errRead ∧
      s.combine = true ∧ s.pending = [] := by
  cases a with
  | data c' d => simp only [Act.chan] at ha; subst ha; simp [chanStep, sentBoth, hc, he, hp]
  | ext c' code d =>
    simp only [Act.chan] at ha; subst ha
    by_cases h1 : code = 1
    · subst h1; simp [chanStep, sentBoth, hc, he, hp]
    · simp [chanStep, sentBoth, hc, he, hp, h1]
  | eof c' => simp [chanStep, sentBoth, hc, he, hp]
  | exitStatus c' v => simp [chanStep, sentBoth, hc, he, hp]
  | recv c' n =>
    have := readBuf_conserve ch.out ch.eof n
    simp only [chanStep, sentBoth, hc, he, hp, List.append_nil]
    refine ⟨?_, trivial, trivial, trivial, trivial⟩
    rw [List.append_assoc, this]
  | recvErr c' n =>
    simp only [chanStep, sentBoth, hc, he, hp, List.append_nil]
    refine ⟨trivial, ?_, ?_, trivial, trivial⟩
    · simp [readBuf]; split <;> rfl
    · simp [readBuf]; split <;> simp [Res.bytes]
  | setCombine c' b =>
    simp only [Act.chan] at ha; subst ha
    simp [keepsCombining] at hk
    subst hk
    simp [chanStep, sentBoth, hc, he, hp]
  | setCombineOldA c' => simp [keepsCombining] at hk
  | setCombineOldB c' => simp [keepsCombining] at hk

/-- **Combined stream.**  While combining stays on, the stdout stream (read ++ buffered) grows by exactly what the
peer writes to *either* stream, in arrival order; nothing ever shows up on stderr. -/
theorem combined_stream (c : Nat) (h : List Act) (ch : Chan) (hall : ∀ a ∈ h, a.chan = c)
    (hk : keepsCombining c h = true) (hc : ch.combine = true) (he : ch.err = []) (hp : ch.pending = []) :
    let s := runChan ch h
    s.outRead ++ s.out = ch.outRead ++ ch.out ++ sentBoth c h ∧ s.err = [] ∧ s.errRead = ch.errRead := by
  induction h generalizing ch with
  | nil => simp [runChan, sentBoth, he]
  | cons a rest ih =>
    rw [keepsCombining_cons] at hk
    simp only [Bool.and_eq_true] at hk
    obtain ⟨h1, h2, h3, h4, h5⟩ := combined_step c ch a (hall a (by simp)) hk.1 hc he hp
    have := ih (chanStep ch a) (fun x hx => hall x (by simp [hx])) hk.2 h4 h2 h5
    simp only [runChan, List.foldl_cons] at this ⊢
    rw [sentBoth_cons, this.1, this.2.1, this.2.2, h1, h3]
    simp [List.append_assoc]

/-- combining switched on at any moment of any history: from then on (while it stays on) the stdout stream is
`what it was ++ the stderr data buffered at that moment ++ everything that arrives afterwards on both streams` -/
theorem combined_from_switch (c : Nat) (ch : Chan) (post : List Act) (hall : ∀ a ∈ post, a.chan = c)
    (hk : keepsCombining c post = true) (hc : ch.combine = false) (hp : ch.pending = []) :
    let s := runChan ch (.setCombine c true :: post)
    s.outRead ++ s.out = ch.outRead ++ ch.out ++ ch.err ++ sentBoth c post ∧ s.err = [] ∧ s.errRead = ch.errRead := by
  obtain ⟨h1, h2, h3, _, h5⟩ := switch_on_moves_buffered_stderr c ch hc
  have hp' : (chanStep ch (.setCombine c true)).pending = [] := by simp [chanStep, hc, hp]
  have := combined_stream c post (chanStep ch (.setCombine c true)) hall hk h1 h3 hp'
  simp only [runChan, List.foldl_cons] at this ⊢
  rw [this.1, this.2.1, this.2.2, h2, h5]
  simp

/-! ## exit status -/

private theorem exit_step (c : Nat) (ch : Chan) (a : Act) (ha : a.chan = c) :
    (chanStep ch a).exit = (match lastExit c [a] with | some v => some v | none => ch.exit) := by
  cases a <;> simp only [Act.chan] at ha <;> (try subst ha) <;> simp [chanStep, lastExit] <;>
    (repeat' split) <;> simp_all

/-- **Exit status.**  The status reported is the one the peer sent last for that channel (and none if none was sent). -/
theorem exit_status_is_the_one_sent (c : Nat) (h : List Act) (ch : Chan) (hall : ∀ a ∈ h, a.chan = c) :
    (runChan ch h).exit = (match lastExit c h with | some v => some v | none => ch.exit) := by
  induction h generalizing ch with
  | nil => simp [runChan, lastExit]
  | cons a rest ih =>
    have h1 := exit_step c ch a (hall a (by simp))
    have := ih (chanStep ch a) (fun x hx => hall x (by simp [hx]))
    simp only [runChan, List.foldl_cons] at this ⊢
    rw [this, h1]
    cases a <;> simp [lastExit] <;> (repeat' split) <;> simp_all

/-! ## the whole transport: any number of channels -/

private theorem filter_all (c : Nat) (acts : List Act) : ∀ a ∈ acts.filter (fun a => a.chan == c), a.chan = c := by
  intro a ha
  simp at ha
  exact ha.2

private theorem sentOut_filter (c : Nat) (acts : List Act) :
    sentOut c (acts.filter (fun a => a.chan == c)) = sentOut c acts := by
  induction acts with
  | nil => rfl
  | cons a rest ih =>
    by_cases h : a.chan = c
    · have : (a :: rest).filter (fun a => a.chan == c) = a :: rest.filter (fun a => a.chan == c) := by simp [h]
      rw [this, sentOut_cons, sentOut_cons c a rest, ih]
    · have : (a :: rest).filter (fun a => a.chan == c) = rest.filter (fun a => a.chan == c) := by simp [h]
      rw [this, ih, sentOut_cons c a rest]
      cases a <;> simp_all [sentOut, Act.chan]

private theorem sentErr_filter (c : Nat) (acts : List Act) :
    sentErr c (acts.filter (fun a => a.chan == c)) = sentErr c acts := by
  induction acts with
  | nil => rfl
  | cons a rest ih =>
    by_cases h : a.chan = c
    · have : (a :: rest).filter (fun a => a.chan == c) = a :: rest.filter (fun a => a.chan == c) := by simp [h]
      rw [this, sentErr_cons, sentErr_cons c a rest, ih]
    · have : (a :: rest).filter (fun a => a.chan == c) = rest.filter (fun a => a.chan == c) := by simp [h]
      rw [this, ih, sentErr_cons c a rest]
      cases a <;> simp_all [sentErr, Act.chan]

private theorem neverCombines_filter (c : Nat) (acts : List Act) (h : neverCombines c acts = true) :
    neverCombines c (acts.filter (fun a => a.chan == c)) = true := by
  induction acts with
  | nil => rfl
  | cons a rest ih =>
    rw [neverCombines_cons] at h
    simp only [Bool.and_eq_true] at h
    by_cases hc : a.chan = c
    · have : (a :: rest).filter (fun a => a.chan == c) = a :: rest.filter (fun a => a.chan == c) := by simp [hc]
      rw [this, neverCombines_cons]
      simp [h.1, ih h.2]
    · have : (a :: rest).filter (fun a => a.chan == c) = rest.filter (fun a => a.chan == c) := by simp [hc]
      rw [this]; exact ih h.2

/-- **C21, streams.**  `k` channels open on one transport; any history of messages for any of them (and for unknown
ids), reads of any sizes and anything happening on the other channels: for every channel `c` that never switches
combining on, stdout read ++ buffered = what the peer wrote to `c`'s stdout, and the same for stderr. -/
theorem streams_intact (k : Nat) (acts : List Act) (c : Nat) (hc : c < k) (hn : neverCombines c acts = true) :
    ∃ s, run (fresh k) acts c = some s ∧
      s.outRead ++ s.out = sentOut c acts ∧ s.errRead ++ s.err = sentErr c acts := by
  have h0 : fresh k c = some {} := by simp [fresh, hc]
  refine ⟨_, run_proj (fresh k) acts c {} h0, ?_⟩
  have := plain_streams c (acts.filter (fun a => a.chan == c)) {} (filter_all c acts)
    (neverCombines_filter c acts hn) rfl rfl
  simp only [sentOut_filter, sentErr_filter] at this
  simpa using this

/-! ## non-vacuity and the race that was fixed -/

-- three channels, interleaved traffic, chunked reads; channel 1 combines from the start
example :
    let m := run (fresh 3) [.setCombine 1 true, .data 0 [1, 2], .ext 1 1 [9], .data 1 [7], .ext 0 1 [5], .data 2 [3],
      .recv 0 1, .ext 1 1 [8], .exitStatus 2 3, .recv 1 10, .recvErr 0 4, .data 7 [1]]
    (m 0).map (fun s => (s.outRead, s.out, s.errRead)) = some ([1], [2], [5]) ∧
    (m 1).map (fun s => (s.outRead, s.err)) = some ([9, 7, 8], []) ∧
    (m 2).map (fun s => s.exit) = some (some 3) ∧ m 7 = none := by decide

/-- the old `set_combine_stderr(True)`: it emptied stderr (`A`) under the lock, a stderr message `B` arrived, and only
then `A` was fed into stdout: the application reads `B A`. -/
theorem race_witness_before_fix :
    (runChan {} [.ext 0 1 [65], .setCombineOldA 0, .ext 0 1 [66], .setCombineOldB 0, .recv 0 10]).outRead = [66, 65] := by
  decide

/-- the same history with the current (atomic) `set_combine_stderr` -/
theorem race_history_after_fix :
    (runChan {} [.ext 0 1 [65], .setCombine 0 true, .ext 0 1 [66], .recv 0 10]).outRead = [65, 66] := by decide

end PV.Props.C21
