/-
  C04 — Session keys follow RFC 4253 key derivation and match across the two peers.
  Property theorems only.  Model: PV/Model/KeyDerive.lean (helpers: KeyDeriveLemmas.lean);
  tables regenerated from paramiko/transport.py on every run: PV/Generated/C04.lean.

  Every theorem quantifies over *every* hash with a fixed positive digest length (`HashLaws`),
  every shared secret `K : Int`, exchange hash `H`, session id, letter byte and length `n : Nat`
  (no bound: 1..512 of the statement is a special case).
-/
import PV.Model.KeyDeriveLemmas
import PV.Model.AeadNonceLemmas
import PV.Generated.C04
namespace PV.Props.C04
open PV PV.Wire PV.KeyDerive PV.AeadNonce

variable (h : Hash) (K : Int) (H sid : Bytes) (X : UInt8)

private theorem le_succ_mul {n s : Nat} (hs : 0 < s) : n ≤ (n + 1) * s :=
  Nat.le_trans (Nat.le_succ n) (Nat.le_mul_of_pos_right _ hs)

/-- What `_compute_key` returns before truncation is `K1 ‖ … ‖ K(j+1)` for some `j`, it covers
    `n` bytes, and no block is computed that is not needed. -/
private theorem computeKey_stream (hl : HashLaws h) (n : Nat) :
    ∃ j, computeKey h K H sid X n = (rfcStream h K H sid X (j + 1)).take n ∧
      n ≤ (j + 1) * h.size ∧ (j = 0 ∨ j * h.size < n) := by
  obtain ⟨j, _, he, hd, hm⟩ := extend_inv h K H sid X n n 0
  refine ⟨j, ?_, ?_, ?_⟩
  · unfold computeKey
    simp only [← rfcStream_one h K H sid X]
    rw [he]
  · rcases hd with hd | hd
    · rwa [rfcStream_length h K H sid X hl] at hd
    · rw [hd]; simpa using le_succ_mul hl.size_pos
  · rcases hm with hm | hm
    · exact Or.inl hm
    · rw [rfcStream_length h K H sid X hl] at hm; exact Or.inr hm

/-- **RFC 4253 §7.2.**  For every hash with a positive digest length and every requested length,
    `Transport._compute_key` returns exactly the first `n` bytes of `K1 ‖ K2 ‖ K3 ‖ …` with
    `K1 = HASH(K ‖ H ‖ X ‖ session_id)`, `K(i+1) = HASH(K ‖ H ‖ K1 ‖ … ‖ Ki)`. -/
theorem computeKey_eq_rfcKey (hl : HashLaws h) (n : Nat) :
    computeKey h K H sid X n = rfcKey h K H sid X n := by
  obtain ⟨j, he, hj, _⟩ := computeKey_stream h K H sid X hl n
  rw [he, rfcKey]
  exact rfcStream_take_eq h K H sid X hl hj (le_succ_mul hl.size_pos)

/-- The specification does not depend on how many blocks are generated, as long as they cover
    `n` bytes (so `rfcKey`'s own choice of `n + 1` blocks is immaterial). -/
theorem rfcKey_blocks_irrelevant (hl : HashLaws h) (n k : Nat) (hk : n ≤ k * h.size) :
    (rfcStream h K H sid X k).take n = rfcKey h K H sid X n :=
  rfcStream_take_eq h K H sid X hl hk (le_succ_mul hl.size_pos)

/-- "extended to the needed length": exactly `n` bytes come back, for every `n`. -/
theorem computeKey_length (hl : HashLaws h) (n : Nat) :
    (computeKey h K H sid X n).length = n := by
  rw [computeKey_eq_rfcKey h K H sid X hl, rfcKey, List.length_take,
    rfcStream_length h K H sid X hl]
  exact Nat.min_eq_left (le_succ_mul hl.size_pos)

/-- The loop runs exactly as long as needed: the number of blocks hashed is the least `j + 1`
    with `n ≤ (j + 1) * digest_size` (no key material beyond the needed block is produced). -/
theorem computeKey_blocks_minimal (hl : HashLaws h) (n : Nat) :
    ∃ j, computeKey h K H sid X n = (rfcStream h K H sid X (j + 1)).take n ∧
      n ≤ (j + 1) * h.size ∧ (j = 0 ∨ j * h.size < n) :=
  computeKey_stream h K H sid X hl n

/-- Prefix monotonicity: a shorter request yields a prefix of a longer one. -/
theorem computeKey_prefix (hl : HashLaws h) {m n : Nat} (hmn : m ≤ n) :
    computeKey h K H sid X m = (computeKey h K H sid X n).take m := by
  rw [computeKey_eq_rfcKey h K H sid X hl, computeKey_eq_rfcKey h K H sid X hl, rfcKey, rfcKey,
    List.take_take, Nat.min_eq_left hmn]
  exact rfcStream_take_eq h K H sid X hl (le_succ_mul hl.size_pos)
    (Nat.le_trans hmn (le_succ_mul hl.size_pos))

/-- The first block is `HASH(mpint(K) ‖ H ‖ X ‖ session_id)` itself. -/
theorem computeKey_first_block (hl : HashLaws h) {n : Nat} (hn : h.size ≤ n) :
    (computeKey h K H sid X n).take h.size = h.digest (firstInput K H sid X) := by
  rw [← computeKey_prefix h K H sid X hl hn, computeKey_eq_rfcKey h K H sid X hl,
    ← rfcKey_blocks_irrelevant h K H sid X hl h.size 1 (by simp), rfcStream_one]
  rw [List.take_of_length_le (by rw [hl.digest_len]; exact Nat.le_refl _)]

/-! ## the two peers -/

/-- the peer's view of the same direction -/
def _root_.PV.KeyDerive.Dir.flip : Dir → Dir
  | .inbound => .outbound
  | .outbound => .inbound

/-- Letter selection is role-symmetric: what one side uses outbound the other uses inbound. -/
theorem letters_peer (serverMode : Bool) (d : Dir) :
    letters serverMode d = letters (!serverMode) d.flip := by
  cases serverMode <;> cases d <;> rfl

/-- A client's outbound IV, key and MAC key (and everything derived from them that is handed to
    the packetizer) equal the server's inbound ones, for every cipher/MAC description. -/
theorem client_out_eq_server_in (ci : CipherInfo) (mi : MacInfo) :
    activate h K H sid false .outbound ci mi = activate h K H sid true .inbound ci mi := rfl

theorem server_out_eq_client_in (ci : CipherInfo) (mi : MacInfo) :
    activate h K H sid true .outbound ci mi = activate h K H sid false .inbound ci mi := rfl

/-- `true` iff (role, direction) is the client-to-server stream -/
def c2s (serverMode : Bool) (d : Dir) : Bool :=
  match serverMode, d with
  | false, .outbound => true
  | true, .inbound => true
  | _, _ => false

/-- Both roles use the RFC's letters: client→server IV `A`, key `C`, integrity key `E`;
    server→client `B`, `D`, `F` — and each value is the RFC derivation of the needed length. -/
theorem activate_rfc (hl : HashLaws h) (serverMode : Bool) (d : Dir) (ci : CipherInfo) (mi : MacInfo) :
    let k := activate h K H sid serverMode d ci mi
    k.iv = rfcKey h K H sid (if c2s serverMode d then 65 else 66) ci.ivSize ∧
    k.key = rfcKey h K H sid (if c2s serverMode d then 67 else 68) ci.keySize ∧
    k.macKey = rfcKey h K H sid (if c2s serverMode d then 69 else 70) mi.digestSize := by
  cases serverMode <;> cases d <;>
    simp [activate, letters, c2s, computeKey_eq_rfcKey h K H sid _ hl]

/-- IV, key and MAC key have the lengths the cipher / MAC tables ask for
    (MAC key length = the hash's natural digest size, not the truncated tag size). -/
theorem activate_lengths (hl : HashLaws h) (serverMode : Bool) (d : Dir) (ci : CipherInfo) (mi : MacInfo) :
    let k := activate h K H sid serverMode d ci mi
    k.iv.length = ci.ivSize ∧ k.key.length = ci.keySize ∧ k.macKey.length = mi.digestSize := by
  cases serverMode <;> cases d <;>
    simp [activate, letters, computeKey_length h K H sid _ hl]

/-! ## independently negotiated directions (local ≠ remote algorithms) -/

/-- the algorithm of the direction being activated -/
def dirCipher (d : Dir) (n : Negotiated) : CipherInfo :=
  match d with | .inbound => n.remoteCipher | .outbound => n.localCipher

def dirMac (d : Dir) (n : Negotiated) : MacInfo :=
  match d with | .inbound => n.remoteMac | .outbound => n.localMac

/-- Per direction, with that direction's negotiated algorithms — also when the other direction
    negotiated a cipher / MAC with different key, IV or digest sizes: RFC letters, RFC derivation,
    and exactly the sizes the direction's own cipher and MAC need. -/
theorem activateDir_rfc (hl : HashLaws h) (serverMode : Bool) (d : Dir) (n : Negotiated) :
    let k := activateDir h K H sid serverMode d n
    k.iv = rfcKey h K H sid (if c2s serverMode d then 65 else 66) (dirCipher d n).ivSize ∧
    k.key = rfcKey h K H sid (if c2s serverMode d then 67 else 68) (dirCipher d n).keySize ∧
    k.macKey = rfcKey h K H sid (if c2s serverMode d then 69 else 70) (dirMac d n).digestSize ∧
    k.iv.length = (dirCipher d n).ivSize ∧ k.key.length = (dirCipher d n).keySize ∧
    k.macKey.length = (dirMac d n).digestSize ∧ k.blockSizeArg = (dirCipher d n).blockSize := by
  cases d
  · have h1 := activate_rfc h K H sid hl serverMode .inbound n.remoteCipher n.remoteMac
    have h2 := activate_lengths h K H sid hl serverMode .inbound n.remoteCipher n.remoteMac
    exact ⟨h1.1, h1.2.1, h1.2.2, h2.1, h2.2.1, h2.2.2, rfl⟩
  · have h1 := activate_rfc h K H sid hl serverMode .outbound n.localCipher n.localMac
    have h2 := activate_lengths h K H sid hl serverMode .outbound n.localCipher n.localMac
    exact ⟨h1.1, h1.2.1, h1.2.2, h2.1, h2.2.1, h2.2.2, rfl⟩

/-- **Peers match with asymmetric negotiation.**  If the two peers agree per direction (what C05
    proves: a client's `local_*` is the server's `remote_*` and vice versa) then client-out =
    server-in and server-out = client-in — no relation between the two directions is needed. -/
theorem peers_match_asymmetric (nc ns : Negotiated)
    (h1 : nc.localCipher = ns.remoteCipher) (h2 : nc.localMac = ns.remoteMac)
    (h3 : nc.remoteCipher = ns.localCipher) (h4 : nc.remoteMac = ns.localMac) :
    activateDir h K H sid false .outbound nc = activateDir h K H sid true .inbound ns ∧
    activateDir h K H sid true .outbound ns = activateDir h K H sid false .inbound nc := by
  simp only [activateDir, h1, h2, h3, h4]
  exact ⟨client_out_eq_server_in h K H sid _ _, server_out_eq_client_in h K H sid _ _⟩

/-! ## the two directions never share a key -/

/-- The hashed first-block messages for two different letters are different byte strings. -/
theorem firstInput_injective {Y : UInt8} (heq : firstInput K H sid X = firstInput K H sid Y) :
    X = Y := by
  unfold firstInput at heq
  rw [List.append_assoc, List.append_assoc] at heq
  have := List.append_cancel_left heq
  simpa using this

/-- The six derivation inputs (letters `A`–`F`) are pairwise distinct byte strings. -/
theorem six_inputs_pairwise_distinct :
    List.Pairwise (· ≠ ·) (([65, 66, 67, 68, 69, 70] : List UInt8).map (firstInput K H sid)) := by
  rw [List.pairwise_map]
  have hp : List.Pairwise (· ≠ ·) ([65, 66, 67, 68, 69, 70] : List UInt8) := by decide
  exact hp.imp fun hne heq => hne (firstInput_injective K H sid _ heq)

/-- Within one role the inbound and outbound letters are disjoint, and the three letters of one
    direction are distinct: no derivation input is used twice. -/
theorem letters_disjoint (serverMode : Bool) :
    let i := letters serverMode .inbound
    let o := letters serverMode .outbound
    List.Pairwise (· ≠ ·) [i.1, i.2.1, i.2.2, o.1, o.2.1, o.2.2] := by
  cases serverMode <;> decide

/-- With a collision-free hash (explicit hypothesis — the idealisation of collision resistance),
    keys derived for different letters differ as soon as they contain the whole first block. -/
theorem keys_differ_of_collision_free (hl : HashLaws h)
    (hinj : ∀ x y, h.digest x = h.digest y → x = y) {Y : UInt8} (hXY : X ≠ Y)
    {n : Nat} (hn : h.size ≤ n) :
    computeKey h K H sid X n ≠ computeKey h K H sid Y n := by
  intro heq
  have h1 := computeKey_first_block h K H sid X hl hn
  have h2 := computeKey_first_block h K H sid Y hl hn
  rw [heq, h2] at h1
  exact hXY (firstInput_injective K H sid Y (hinj _ _ h1)).symm

/-! ## the tables of the source (regenerated on every run) -/

/-- Every kex method paramiko offers specifies a hash with a positive digest length
    (so `HashLaws.size_pos` holds for every kex hash algorithm). -/
theorem kex_hashes_positive : ∀ p ∈ PV.Generated.C04.kexHashSizes, 0 < p.2 := by decide +kernel

/-- For every cipher / MAC paramiko offers a non-empty IV, key and MAC key is derived. -/
theorem table_sizes_positive :
    (∀ ci ∈ PV.Generated.C04.cipherTable, 0 < ci.ivSize ∧ 0 < ci.keySize ∧ 0 < ci.blockSize) ∧
    (∀ mi ∈ PV.Generated.C04.macTable, 0 < mi.digestSize ∧ mi.size ≤ mi.digestSize) := by
  decide +kernel

/-! ## the session identifier over a connection's whole life -/

/-- **AST-derived fact** (regenerated from paramiko/*.py on every run): apart from `= None` in
    `__init__`, `self.session_id` is assigned exactly once in the package — `self.session_id = h` in
    `_set_K_H`, directly under `if self.session_id is None:`. -/
theorem session_id_guard_generated : PV.Generated.C04.sessionIdGuarded = true := by decide

private theorem run_keeps_sid (exs : List (Int × Bytes)) (s : KexState) (sid : Bytes)
    (h : s.sessionId = some sid) : (runExchanges true s exs).sessionId = some sid := by
  induction exs generalizing s with
  | nil => exact h
  | cons e rest ih =>
    apply ih
    simp [setKH, h]

/-- **`session_id` is the first exchange hash, forever.**  After any number of key exchanges
    (initial kex followed by any list of re-keys) `K` and `H` are those of the last exchange and
    `session_id` is the exchange hash of the *first* one. -/
theorem session_id_is_first_exchange_hash (k1 : Int) (h1 : Bytes) (rekeys : List (Int × Bytes)) :
    let s := runExchanges PV.Generated.C04.sessionIdGuarded KexState.init ((k1, h1) :: rekeys)
    s.sessionId = some h1 ∧
    s.K = some ((((k1, h1) :: rekeys).getLast (by simp)).1) ∧
    s.H = some ((((k1, h1) :: rekeys).getLast (by simp)).2) := by
  rw [session_id_guard_generated]
  refine ⟨run_keeps_sid rekeys _ h1 (by simp [setKH, KexState.init]), ?_, ?_⟩
  · have : ∀ (l : List (Int × Bytes)) (s : KexState) (hne : l ≠ []),
        (runExchanges true s l).K = some (l.getLast hne).1 := by
      intro l
      induction l with
      | nil => intro s hne; exact absurd rfl hne
      | cons e rest ih =>
        intro s hne
        cases rest with
        | nil => simp [runExchanges, setKH]
        | cons e2 r2 =>
          have := ih (setKH true s e.1 e.2) (by simp)
          simpa [runExchanges] using this
    exact this _ _ (by simp)
  · have : ∀ (l : List (Int × Bytes)) (s : KexState) (hne : l ≠ []),
        (runExchanges true s l).H = some (l.getLast hne).2 := by
      intro l
      induction l with
      | nil => intro s hne; exact absurd rfl hne
      | cons e rest ih =>
        intro s hne
        cases rest with
        | nil => simp [runExchanges, setKH]
        | cons e2 r2 =>
          have := ih (setKH true s e.1 e.2) (by simp)
          simpa [runExchanges] using this
    exact this _ _ (by simp)

/-- **Keys of every exchange use the first exchange hash as session id**: after the n-th exchange
    (any n ≥ 1) `_compute_key` yields RFC 4253 §7.2 with the *current* `K`, `H` and `session_id = H₁`. -/
theorem keys_after_rekeys (hl : HashLaws h) (k1 : Int) (h1 : Bytes) (rekeys : List (Int × Bytes)) (n : Nat) :
    stateKey h (runExchanges PV.Generated.C04.sessionIdGuarded KexState.init ((k1, h1) :: rekeys)) X n
      = some (rfcKey h ((((k1, h1) :: rekeys).getLast (by simp)).1)
                (((k1, h1) :: rekeys).getLast (by simp)).2 h1 X n) := by
  obtain ⟨e1, e2, e3⟩ := session_id_is_first_exchange_hash k1 h1 rekeys
  simp only [stateKey, e1, e2, e3, computeKey_eq_rfcKey h _ _ _ X hl]

/-- what the unguarded assignment does: from the second re-key on the session id is a later hash -/
theorem unguarded_session_id_witness :
    (runExchanges false KexState.init [(1, [1]), (2, [2]), (3, [3])]).sessionId = some [3] ∧
    (runExchanges true KexState.init [(1, [1]), (2, [2]), (3, [3])]).sessionId = some [1] := by decide

/-! ## the IV that is actually used on the wire (AES-GCM) -/

/-- **AST-derived fact** (regenerated from paramiko/packet.py on every run): in `send_message` and in
    `read_message` the AEAD engine is called with the stored IV *before* the statement
    `self.__iv = self._inc_iv_counter(self.__iv)`. -/
theorem aead_order_generated :
    PV.Generated.C04.aeadSendUseFirst = true ∧ PV.Generated.C04.aeadRecvUseFirst = true := by decide

/-- every AEAD row of `_cipher_info` asks for a 12-byte IV (4 fixed + 8 counter bytes) -/
theorem aead_rows_iv12 : ∀ ci ∈ PV.Generated.C04.cipherTable, ci.aead = true → ci.ivSize = 12 := by
  decide +kernel

/-- **Nonce sequence.**  With the statement order of the source, packet `k` (k = 0, 1, 2, …) after the
    keys were installed is sealed (send) / opened (receive) with nonce `fixed ‖ (counter + k)` of the
    installed IV — packet 0 with the installed IV itself (RFC 5647 section 7.1). -/
theorem aead_nonce_sequence (iv : Bytes) (n : Nat) (h12 : iv.length = 12)
    (hc : beVal (iv.drop 4) + n < 18446744073709551616) :
    trace PV.Generated.C04.aeadSendUseFirst n iv = (List.range n).map (fun k => some (rfcNonce iv k)) ∧
    trace PV.Generated.C04.aeadRecvUseFirst n iv = (List.range n).map (fun k => some (rfcNonce iv k)) := by
  rw [aead_order_generated.1, aead_order_generated.2]
  exact ⟨trace_rfc n iv h12 hc, trace_rfc n iv h12 hc⟩

/-- the statement-order fact of the site that handles direction `d` -/
def siteUseFirst : Dir → Bool
  | .outbound => PV.Generated.C04.aeadSendUseFirst
  | .inbound => PV.Generated.C04.aeadRecvUseFirst

/-- **The IV used on the wire is the derived IV.**  For every AEAD cipher of the table, either role,
    either direction: the nonces of the packets protected under new keys are
    `rfcNonce (RFC 4253 §7.2 IV for the direction's letter, 12 bytes) k`, k counting from 0. -/
theorem aead_wire_nonces (hl : HashLaws h) (serverMode : Bool) (d : Dir) (nz : Negotiated) (n : Nat)
    (hci : dirCipher d nz ∈ PV.Generated.C04.cipherTable) (ha : (dirCipher d nz).aead = true)
    (hc : beVal ((rfcKey h K H sid (if c2s serverMode d then 65 else 66) 12).drop 4) + n < 18446744073709551616) :
    let iv := (activateDir h K H sid serverMode d nz).iv
    (activateDir h K H sid serverMode d nz).ivArg = some iv ∧
    iv = rfcKey h K H sid (if c2s serverMode d then 65 else 66) 12 ∧
    trace (siteUseFirst d) n iv = (List.range n).map (fun k => some (rfcNonce iv k)) := by
  have h12 := aead_rows_iv12 _ hci ha
  obtain ⟨r1, _, _, l1, _, _, _⟩ := activateDir_rfc h K H sid hl serverMode d nz
  rw [h12] at r1 l1
  have hseq := aead_nonce_sequence (activateDir h K H sid serverMode d nz).iv n l1 (by rw [r1]; exact hc)
  refine ⟨?_, r1, ?_⟩
  · cases d <;> simp [activateDir, activate, dirCipher] at ha ⊢ <;> simp [ha]
  · cases d
    · exact hseq.2
    · exact hseq.1

/-- what "increment before use" would do: the installed IV is never used (packet 0 gets IV+1) -/
theorem increment_first_witness :
    trace false 2 [1, 2, 3, 4, 0, 0, 0, 0, 0, 0, 0, 255]
      = [some [1, 2, 3, 4, 0, 0, 0, 0, 0, 0, 1, 0], some [1, 2, 3, 4, 0, 0, 0, 0, 0, 0, 1, 1]] ∧
    trace true 2 [1, 2, 3, 4, 0, 0, 0, 0, 0, 0, 0, 255]
      = [some [1, 2, 3, 4, 0, 0, 0, 0, 0, 0, 0, 255], some [1, 2, 3, 4, 0, 0, 0, 0, 0, 0, 1, 0]] := by
  decide +kernel

/-! ## non-vacuity -/

example : HashLaws (toyHash 3) := toyHash_laws 3 (by decide)

/-- a derivation that needs four blocks of the 3-byte toy hash -/
example : (computeKey (toyHash 3) 1234567 [1, 2, 3] [9, 9] 65 10).length = 10 := by decide +kernel

example : computeKey (toyHash 3) 1234567 [1, 2, 3] [9, 9] 65 10
    = rfcKey (toyHash 3) 1234567 [1, 2, 3] [9, 9] 65 10 := by decide +kernel

example : computeKey (toyHash 3) 1234567 [1, 2, 3] [9, 9] 65 10
    ≠ computeKey (toyHash 3) 1234567 [1, 2, 3] [9, 9] 66 10 := by decide +kernel

/-- asymmetric negotiation (16-byte key / 16-byte IV one way, 32-byte key / 12-byte IV the other):
    the inbound key of a client has the *remote* cipher's 32 bytes, not the local cipher's 16 -/
example :
    let a : CipherInfo := { name := "a", blockSize := 16, keySize := 16, ivSize := 16, aead := false }
    let b : CipherInfo := { name := "b", blockSize := 16, keySize := 32, ivSize := 12, aead := true }
    let m : MacInfo := { name := "m", digestSize := 20, size := 12 }
    let n : Negotiated := { localCipher := a, remoteCipher := b, localMac := m, remoteMac := m }
    (activateDir (toyHash 5) 77 [1] [2] false .inbound n).key.length = 32 ∧
    (activateDir (toyHash 5) 77 [1] [2] false .inbound n).iv.length = 12 ∧
    (activateDir (toyHash 5) 77 [1] [2] false .outbound n).key.length = 16 := by decide +kernel

end PV.Props.C04
