/-
  C05 — Algorithm negotiation picks the client's first mutually supported algorithm.
  Property theorems only.  Model: PV/Model/Negotiate.lean (helpers: NegotiateLemmas.lean);
  tables regenerated from paramiko/transport.py on every run: PV/Generated/C05.lean.
-/
import PV.Model.NegotiateLemmas
import PV.Generated.C05
namespace PV.Props.C05
open PV PV.Wire PV.Negotiate

/-- the agreed algorithms in wire order (client→server before server→client), role independent -/
structure View where
  kex : Name
  hostKey : Name
  encC2S : Name
  encS2C : Name
  macC2S : Name
  macS2C : Name
  compC2S : Name
  compS2C : Name
  deriving DecidableEq, Repr

/-- a transport's `local_*` is client→server on a client and server→client on a server -/
def view (server : Bool) (a : Agreed) : View :=
  if server then
    { kex := a.kex, hostKey := a.hostKey, encC2S := a.remoteCipher, encS2C := a.localCipher,
      macC2S := a.remoteMac, macS2C := a.localMac, compC2S := a.remoteComp, compS2C := a.localComp }
  else
    { kex := a.kex, hostKey := a.hostKey, encC2S := a.localCipher, encS2C := a.remoteCipher,
      macC2S := a.localMac, macS2C := a.remoteMac, compC2S := a.localComp, compS2C := a.remoteComp }

/-- eight optional choices → a full agreement, or nothing if any category has no choice -/
def allSome (k hk e1 e2 m1 m2 z1 z2 : Option Name) : Option View :=
  match k, hk, e1, e2, m1, m2, z1, z2 with
  | some k, some hk, some e1, some e2, some m1, some m2, some z1, some z2 =>
    some { kex := k, hostKey := hk, encC2S := e1, encS2C := e2, macC2S := m1, macS2C := m2,
           compC2S := z1, compS2C := z2 }
  | _, _, _, _, _, _, _, _ => none

/-- **Specification (RFC 4253 §7.1)** on the two KEXINITs: in every category the first name of the
    client's list that the server's list contains; markers are not kex algorithms. -/
def spec (kc ks : KexInit) : Option View :=
  allSome (firstCommon (stripMarkers kc.kex) (stripMarkers ks.kex)) (firstCommon kc.keys ks.keys)
    (firstCommon kc.cEnc ks.cEnc) (firstCommon kc.sEnc ks.sEnc)
    (firstCommon kc.cMac ks.cMac) (firstCommon kc.sMac ks.sMac)
    (firstCommon kc.cComp ks.cComp) (firstCommon kc.sComp ks.sComp)

/-- negotiation succeeds with the specified tuple, or fails with `IncompatiblePeer` -/
def outcome : Option View → Except Err View
  | some v => .ok v
  | none => .error .incompatible

/-- the host key algorithms a side accepts: a server only those it holds a key for -/
def ownKeys (s : Side) : List Name :=
  if s.serverMode then s.availableServerKeys else s.preferredKeys

private theorem availableServerKeys_sub {s : Side} {a : Name} (h : a ∈ s.availableServerKeys) :
    a ∈ s.preferredKeys ∧ a ∈ s.serverKeys := by
  simpa [Side.availableServerKeys] using h

/-- core: `negotiate` = the role-aware first-common rule against the side's own accepted lists -/
private theorem negotiate_core (info : Info) (s : Side) (hw : s.wf info = true)
    (kl : List Name) (p : KexInit) (ext : Option Name) :
    (negotiate info s kl p ext).map (view s.serverMode) = outcome (
      allSome (fc s.serverMode s.preferredKex kl) (fc s.serverMode (ownKeys s) p.keys)
        (fc s.serverMode s.preferredCiphers p.cEnc) (fc s.serverMode s.preferredCiphers p.sEnc)
        (fc s.serverMode s.preferredMacs p.cMac) (fc s.serverMode s.preferredMacs p.sMac)
        (fc s.serverMode s.preferredComp p.cComp) (fc s.serverMode s.preferredComp p.sComp)) := by
  unfold negotiate
  simp only [firstOr_agree, agree_len0, agree_headD]
  have hwk : ∀ x ∈ s.prefKex, x ∈ info.kex := by
    have : s.prefKex.all info.kex.contains = true := by
      simp only [Side.wf, Bool.and_eq_true] at hw; exact hw.1.1.1.1
    simpa using this
  cases h1 : fc s.serverMode s.preferredKex kl with
  | none => simp [allSome, outcome, Except.map]
  | some kex =>
    have hk : info.kex.contains kex = true := by
      have := (fc_some h1).1
      simpa using hwk _ (mem_filterAlg.mp this).1
    simp only [hk, Bool.not_true, Bool.false_eq_true, if_false]
    cases hsm : s.serverMode
    · simp only [ownKeys, hsm, Bool.false_eq_true, if_false, Bool.false_and]
      cases h2 : fc false s.preferredKeys p.keys <;>
      cases h3 : fc false s.preferredCiphers p.cEnc <;>
      cases h4 : fc false s.preferredCiphers p.sEnc <;>
      cases h5 : fc false s.preferredMacs p.cMac <;>
      cases h6 : fc false s.preferredMacs p.sMac <;>
      cases h7 : fc false s.preferredComp p.cComp <;>
      cases h8 : fc false s.preferredComp p.sComp <;>
      simp [allSome, outcome, Except.map, view]
    · simp only [ownKeys, hsm, if_true, Bool.true_and]
      cases h2 : fc true s.availableServerKeys p.keys with
      | none => simp [allSome, outcome, Except.map]
      | some hostKey =>
        have hsk : s.serverKeys.contains hostKey = true := by
          have := (availableServerKeys_sub (fc_some h2).1).2
          simpa using this
        simp only [hsk, Bool.not_true, Bool.false_eq_true, if_false]
        cases h3 : fc true s.preferredCiphers p.cEnc <;>
        cases h4 : fc true s.preferredCiphers p.sEnc <;>
        cases h5 : fc true s.preferredMacs p.cMac <;>
        cases h6 : fc true s.preferredMacs p.sMac <;>
        cases h7 : fc true s.preferredComp p.cComp <;>
        cases h8 : fc true s.preferredComp p.sComp <;>
        simp [allSome, outcome, Except.map, view]

/-- what a successful `_send_kex_init` does, in closed form -/
private theorem send_spec {info : Info} {s s1 : Side} {k : KexInit}
    (h : sendKexInit info s = .ok (s1, k)) :
    s1 = { s with prefKex := if s.mustDropGex then s.prefKex.filter (fun k => !isGex k) else s.prefKex } ∧
    k = { kex := (if s.serverMode then s1.preferredKex else s1.preferredKex ++ [extInfoC]) ++
                 (if s.advertiseStrict then [strictMarker s.serverMode] else []),
          keys := ownKeys s1,
          cEnc := s1.preferredCiphers, sEnc := s1.preferredCiphers,
          cMac := s1.preferredMacs, sMac := s1.preferredMacs,
          cComp := s1.preferredComp, sComp := s1.preferredComp } := by
  unfold sendKexInit at h
  by_cases hm : s.mustDropGex = true
  · have hsm : s.serverMode = true := by
      simp only [Side.mustDropGex, Bool.and_eq_true] at hm; exact hm.1.1
    simp only [hm, if_true, setKex] at h
    by_cases hv : (List.filter (fun n => !info.kex.contains n)
        (List.filter (fun k => !isGex k) s.prefKex)).length > 0
    · rw [if_pos hv] at h; cases h
    · rw [if_neg hv] at h
      injection h with h
      injection h with h1 h2
      subst h1 h2
      refine ⟨by simp [hm], ?_⟩
      by_cases hs : s.advertiseStrict = true <;> simp [ownKeys, hsm, hs]
  · simp only [hm, Bool.false_eq_true, if_false] at h
    injection h with h
    injection h with h1 h2
    subst h1 h2
    refine ⟨by simp [hm], ?_⟩
    by_cases hs : s.advertiseStrict = true <;> by_cases hsm : s.serverMode = true <;>
      simp [ownKeys, hsm, hs]

private theorem all_mem {l t : List Name} (h : l.all t.contains = true) : ∀ x ∈ l, x ∈ t := by
  simpa using h

private theorem wf_parts {info : Info} {s : Side} (hw : s.wf info = true) :
    (∀ x ∈ s.prefKex, x ∈ info.kex) ∧ (s.prefKeys.all info.keys.contains = true) ∧
    (∀ x ∈ s.prefCiphers, x ∈ info.ciphers) ∧ (∀ x ∈ s.prefMacs, x ∈ info.macs) ∧
    (∀ x ∈ s.prefComp, x ∈ info.compression) := by
  simp only [Side.wf, Bool.and_eq_true] at hw
  exact ⟨all_mem hw.1.1.1.1, hw.1.1.1.2, all_mem hw.1.1.2, all_mem hw.1.2, all_mem hw.2⟩

private theorem info_parts {info : Info} (hi : infoOK info = true) :
    (∀ x ∈ info.kex, nameOK x = true) ∧ (∀ x ∈ info.keys, nameOK x = true ∧ nameOK (cert x) = true) ∧
    (∀ x ∈ info.ciphers, nameOK x = true) ∧ (∀ x ∈ info.macs, nameOK x = true) ∧
    (∀ x ∈ info.compression, nameOK x = true) := by
  simp only [infoOK, Bool.and_eq_true, List.all_eq_true] at hi
  exact ⟨hi.1.1.1.1, hi.1.1.1.2, hi.1.1.2, hi.1.2, hi.2⟩

/-- every name a well-formed side accepts (and hence advertises) is a real algorithm name -/
private theorem accepted_names_ok {info : Info} {s : Side} (hi : infoOK info = true) (hw : s.wf info = true) :
    (∀ a ∈ s.preferredKex, nameOK a = true) ∧ (∀ a ∈ s.preferredKeys, nameOK a = true) ∧
    (∀ a ∈ s.preferredCiphers, nameOK a = true) ∧ (∀ a ∈ s.preferredMacs, nameOK a = true) ∧
    (∀ a ∈ s.preferredComp, nameOK a = true) := by
  obtain ⟨w1, w2, w3, w4, w5⟩ := wf_parts hw
  obtain ⟨i1, i2, i3, i4, i5⟩ := info_parts hi
  refine ⟨fun a ha => i1 a (w1 a (mem_filterAlg.mp ha).1), ?_,
    fun a ha => i3 a (w3 a (mem_filterAlg.mp ha).1), fun a ha => i4 a (w4 a (mem_filterAlg.mp ha).1),
    fun a ha => i5 a (w5 a (mem_filterAlg.mp ha).1)⟩
  intro a ha
  rcases preferredKeys_sub w2 ha with h | ⟨b, hb, rfl⟩
  · exact (i2 a h).1
  · exact (i2 b hb).2

private theorem wf_send {info : Info} {s s1 : Side} {k : KexInit} (hw : s.wf info = true)
    (h : sendKexInit info s = .ok (s1, k)) : s1.wf info = true := by
  obtain ⟨h1, _⟩ := send_spec h
  obtain ⟨w1, w2, w3, w4, w5⟩ := wf_parts hw
  subst h1
  simp only [Side.wf, Bool.and_eq_true, List.all_eq_true]
  refine ⟨⟨⟨⟨?_, by simpa using w2⟩, by simpa using w3⟩, by simpa using w4⟩, by simpa using w5⟩
  intro x hx
  split at hx
  · simpa using w1 x (List.mem_filter.mp hx).1
  · simpa using w1 x hx

/-! ## the advertised lists are the accepted lists -/

/-- After `_send_kex_init` (any role, with or without moduli) the KEXINIT carries exactly the lists
    `_parse_kex_init` will accept, plus marker pseudo-algorithms in the kex list only.
    (Before the repair the kex list of a moduli-less server still held the group-exchange methods.) -/
theorem advertised_eq_accepted {info : Info} {s s1 : Side} {k : KexInit}
    (hi : infoOK info = true) (hw : s.wf info = true) (h : sendKexInit info s = .ok (s1, k)) :
    stripMarkers k.kex = s1.preferredKex ∧ k.keys = ownKeys s1 ∧
    k.cEnc = s1.preferredCiphers ∧ k.sEnc = s1.preferredCiphers ∧
    k.cMac = s1.preferredMacs ∧ k.sMac = s1.preferredMacs ∧
    k.cComp = s1.preferredComp ∧ k.sComp = s1.preferredComp := by
  have hw1 := wf_send hw h
  obtain ⟨_, hk⟩ := send_spec h
  have hnm : ∀ a ∈ s1.preferredKex, isMarker a = false :=
    fun a ha => (nameOK_iff.mp ((accepted_names_ok hi hw1).1 a ha)).2.2
  subst hk
  refine ⟨?_, rfl, rfl, rfl, rfl, rfl, rfl, rfl⟩
  have e1 : stripMarkers [extInfoC] = [] := by decide
  have e2 : ∀ b, stripMarkers [strictMarker b] = [] := by intro b; cases b <;> decide
  have e3 : stripMarkers [extInfoC, strictMarker false] = [] := by decide
  by_cases hsm : s.serverMode = true <;> by_cases hst : s.advertiseStrict = true <;>
    simp [hsm, hst, stripMarkers_append, stripMarkers_id hnm, e1, e2, e3]

/-- the strict-kex sequence check cannot fire: KEXINIT is the first packet, or this is a rekey -/
def SeqOK (s : Side) (seqno : Nat) : Prop := seqno = 0 ∨ s.initialKexDone = true

private theorem map_lift (s1 : Side) (b : Bool) (x : Except Err Agreed) :
    (match x with | .error e => (.error e : Except Err (Side × Agreed)) | .ok a => .ok (s1, a)).map
      (fun (r : Side × Agreed) => view b r.2) = x.map (view b) := by
  cases x <;> rfl

/-- **Main theorem (one side against any peer).**  Let a well-formed transport of either role send
    its KEXINIT `k`, then receive *any* KEXINIT `p` (unknown names, empty lists, duplicates, markers
    anywhere).  Then `_parse_kex_init` ends in exactly one of two ways: it agrees, in every
    category, on the first name of the client's list that the server's list contains (client's
    list = `k` for a client, `p` for a server), or it raises `IncompatiblePeer` — the latter exactly
    when some category has no common name. -/
theorem follows_rfc {info : Info} {s s1 : Side} {k : KexInit}
    (hi : infoOK info = true) (hw : s.wf info = true) (hsend : sendKexInit info s = .ok (s1, k))
    (p : KexInit) (seqno : Nat) (hseq : SeqOK s1 seqno) :
    (parseKexInit info s1 p seqno).map (fun r => view s1.serverMode r.2)
      = outcome (if s1.serverMode then spec p k else spec k p) := by
  have hw1 := wf_send hw hsend
  obtain ⟨a1, a2, a3, a4, a5, a6, a7, a8⟩ := advertised_eq_accepted hi hw hsend
  unfold parseKexInit
  have hcond : ((scanMarkers s1 p.kex none s1.agreedStrict).2 && !s1.initialKexDone && seqno != 0) = false := by
    rcases hseq with h | h <;> simp [h]
  simp only [hcond, Bool.false_eq_true, if_false]
  refine Eq.trans (map_lift _ _ _) ?_
  have hcore := negotiate_core info { s1 with agreedStrict := (scanMarkers s1 p.kex none s1.agreedStrict).2 }
    hw1 (stripMarkers p.kex) p (scanMarkers s1 p.kex none s1.agreedStrict).1
  rw [hcore]
  cases hsm : s1.serverMode
  · simp only [spec, fc, ownKeys, hsm, a1, a2, a3, a4, a5, a6, a7, a8, Bool.false_eq_true, if_false]
    rfl
  · simp only [spec, fc, ownKeys, hsm, a1, a2, a3, a4, a5, a6, a7, a8, if_true]
    rfl

/-- `spec` fails exactly when some category has no common algorithm. -/
theorem spec_none_iff (kc ks : KexInit) :
    spec kc ks = none ↔
      (firstCommon (stripMarkers kc.kex) (stripMarkers ks.kex) = none ∨ firstCommon kc.keys ks.keys = none ∨
       firstCommon kc.cEnc ks.cEnc = none ∨ firstCommon kc.sEnc ks.sEnc = none ∨
       firstCommon kc.cMac ks.cMac = none ∨ firstCommon kc.sMac ks.sMac = none ∨
       firstCommon kc.cComp ks.cComp = none ∨ firstCommon kc.sComp ks.sComp = none) := by
  unfold spec
  cases firstCommon (stripMarkers kc.kex) (stripMarkers ks.kex) <;> cases firstCommon kc.keys ks.keys <;>
  cases firstCommon kc.cEnc ks.cEnc <;> cases firstCommon kc.sEnc ks.sEnc <;>
  cases firstCommon kc.cMac ks.cMac <;> cases firstCommon kc.sMac ks.sMac <;>
  cases firstCommon kc.cComp ks.cComp <;> cases firstCommon kc.sComp ks.sComp <;> simp [allSome]

/-- **`IncompatiblePeer` exactly when some category has no common algorithm** (and no other error
    is possible once the strict-kex sequence check is out of the way). -/
theorem incompatible_iff {info : Info} {s s1 : Side} {k : KexInit}
    (hi : infoOK info = true) (hw : s.wf info = true) (hsend : sendKexInit info s = .ok (s1, k))
    (p : KexInit) (seqno : Nat) (hseq : SeqOK s1 seqno) :
    (parseKexInit info s1 p seqno = .error .incompatible ↔
      (if s1.serverMode then spec p k else spec k p) = none) ∧
    (∀ e, parseKexInit info s1 p seqno = .error e → e = .incompatible) := by
  have h := follows_rfc hi hw hsend p seqno hseq
  cases hx : parseKexInit info s1 p seqno with
  | error e =>
    rw [hx] at h
    cases ho : (if s1.serverMode then spec p k else spec k p) with
    | none =>
      rw [ho] at h
      have : e = .incompatible := by simpa [Except.map, outcome] using h
      subst this
      exact ⟨⟨fun _ => rfl, fun _ => rfl⟩, fun e he => (by injection he with he; exact he.symm)⟩
    | some v => rw [ho] at h; simp [Except.map, outcome] at h
  | ok r =>
    rw [hx] at h
    cases ho : (if s1.serverMode then spec p k else spec k p) with
    | none => rw [ho] at h; simp [Except.map, outcome] at h
    | some v => exact ⟨⟨fun h' => (by cases h'), fun h' => (by cases h')⟩, fun e he => (by cases he)⟩

/-! ## two paramiko peers -/

private theorem ok_names {l : List Name} (h : ∀ a ∈ l, nameOK a = true) :
    ([] : Name) ∉ l ∧ ∀ a ∈ l, (44 : UInt8) ∉ a := by
  refine ⟨fun hm => ?_, fun a ha => (nameOK_iff.mp (h a ha)).2.1⟩
  exact (nameOK_iff.mp (h _ hm)).1 rfl

/-- names on a well-formed side's KEXINIT: real names, or (kex list only) the two markers -/
private theorem sent_names {info : Info} {s s1 : Side} {k : KexInit}
    (hi : infoOK info = true) (hw : s.wf info = true) (h : sendKexInit info s = .ok (s1, k)) :
    (∀ a ∈ k.kex, (44 : UInt8) ∉ a) ∧ (∀ a ∈ stripMarkers k.kex, nameOK a = true) ∧
    (∀ a ∈ k.keys, nameOK a = true) ∧
    (∀ a ∈ k.cEnc, nameOK a = true) ∧ (∀ a ∈ k.sEnc, nameOK a = true) ∧
    (∀ a ∈ k.cMac, nameOK a = true) ∧ (∀ a ∈ k.sMac, nameOK a = true) ∧
    (∀ a ∈ k.cComp, nameOK a = true) ∧ (∀ a ∈ k.sComp, nameOK a = true) := by
  have hw1 := wf_send hw h
  obtain ⟨a1, a2, a3, a4, a5, a6, a7, a8⟩ := advertised_eq_accepted hi hw h
  obtain ⟨n1, n2, n3, n4, n5⟩ := accepted_names_ok hi hw1
  have hkeys : ∀ a ∈ ownKeys s1, nameOK a = true := by
    intro a ha
    unfold ownKeys at ha
    split at ha
    · exact n2 a (availableServerKeys_sub ha).1
    · exact n2 a ha
  refine ⟨?_, by rw [a1]; exact n1, by rw [a2]; exact hkeys, by rw [a3]; exact n3, by rw [a4]; exact n3,
    by rw [a5]; exact n4, by rw [a6]; exact n4, by rw [a7]; exact n5, by rw [a8]; exact n5⟩
  intro a ha
  by_cases hm : isMarker a = true
  · obtain ⟨_, hk⟩ := send_spec h
    rw [hk] at ha
    have hnm : ∀ b ∈ s1.preferredKex, isMarker b = false :=
      fun b hb => (nameOK_iff.mp (n1 b hb)).2.2
    simp only [List.mem_append] at ha
    have hc1 : (44 : UInt8) ∉ extInfoC := by decide
    have hc2 : ∀ b, (44 : UInt8) ∉ strictMarker b := by intro b; cases b <;> decide
    rcases ha with ha | ha
    · split at ha
      · exact absurd hm (by simp [hnm a ha])
      · rcases List.mem_append.mp ha with ha | ha
        · exact absurd hm (by simp [hnm a ha])
        · simp at ha; subst ha; exact hc1
    · split at ha
      · simp at ha; subst ha; exact hc2 _
      · simp at ha
  · have : a ∈ stripMarkers k.kex := stripMarkers_mem.mpr ⟨ha, by simpa using hm⟩
    rw [a1] at this
    exact (nameOK_iff.mp (n1 a this)).2.1

private theorem fcw_right {c s : List Name} (hc : ∀ a ∈ c, nameOK a = true) (hs : ∀ a ∈ s, nameOK a = true) :
    firstCommon c (viaWire s) = firstCommon c s :=
  firstCommon_viaWire_right (ok_names hc).1 (ok_names hs).2

private theorem fcw_left {c s : List Name} (hc : ∀ a ∈ c, nameOK a = true) (hs : ∀ a ∈ s, nameOK a = true) :
    firstCommon (viaWire c) s = firstCommon c s :=
  firstCommon_viaWire_left (ok_names hs).1 (ok_names hc).2

private theorem fc_strip_right {c s : List Name} (hc : ∀ a ∈ stripMarkers c, nameOK a = true)
    (hs : ∀ a ∈ s, (44 : UInt8) ∉ a) :
    firstCommon (stripMarkers c) (stripMarkers (viaWire s)) = firstCommon (stripMarkers c) (stripMarkers s) := by
  rw [stripMarkers_viaWire hs]
  by_cases h : s = []
  · subst h
    simp only [if_true]
    have e : stripMarkers ([] : List Name) = [] := rfl
    rw [e, firstCommon_nil_right, firstCommon_eq_none]
    intro a ha hmem
    simp at hmem
    exact (ok_names hc).1 (hmem ▸ ha)
  · simp [h]

private theorem fc_strip_left {c s : List Name} (hs : ∀ a ∈ stripMarkers s, nameOK a = true)
    (hc : ∀ a ∈ c, (44 : UInt8) ∉ a) :
    firstCommon (stripMarkers (viaWire c)) (stripMarkers s) = firstCommon (stripMarkers c) (stripMarkers s) := by
  rw [stripMarkers_viaWire hc]
  by_cases h : c = []
  · subst h
    simp only [if_true]
    have e : stripMarkers ([] : List Name) = [] := rfl
    rw [e, firstCommon_nil_left, firstCommon_eq_none]
    intro a ha
    simp at ha
    exact ha ▸ (ok_names hs).1
  · simp [h]

/-- **Both peers agree.**  A well-formed paramiko client and a well-formed paramiko server that
    exchange their KEXINITs over the wire compute the same tuple — the RFC choice on the two lists
    as sent — or both raise `IncompatiblePeer`. -/
theorem peers_agree {info : Info} {c c1 s s1 : Side} {kc ks : KexInit}
    (hi : infoOK info = true) (hwc : c.wf info = true) (hws : s.wf info = true)
    (hc : c.serverMode = false) (hs : s.serverMode = true)
    (hsc : sendKexInit info c = .ok (c1, kc)) (hss : sendKexInit info s = .ok (s1, ks))
    (nc ns : Nat) (hqc : SeqOK c1 nc) (hqs : SeqOK s1 ns) :
    (parseKexInit info c1 ks.viaWire nc).map (fun r => view false r.2) = outcome (spec kc ks) ∧
    (parseKexInit info s1 kc.viaWire ns).map (fun r => view true r.2) = outcome (spec kc ks) := by
  have hc1 : c1.serverMode = false := by rw [(send_spec hsc).1]; exact hc
  have hs1 : s1.serverMode = true := by rw [(send_spec hss).1]; exact hs
  have h1 := follows_rfc hi hwc hsc ks.viaWire nc hqc
  have h2 := follows_rfc hi hws hss kc.viaWire ns hqs
  rw [hc1] at h1
  rw [hs1] at h2
  simp only [Bool.false_eq_true, if_false] at h1
  simp only [if_true] at h2
  obtain ⟨c0, c1', c2, c3, c4, c5, c6, c7, c8⟩ := sent_names hi hwc hsc
  obtain ⟨s0, s1', s2, s3, s4, s5, s6, s7, s8⟩ := sent_names hi hws hss
  refine ⟨h1.trans ?_, h2.trans ?_⟩
  · congr 1
    simp only [spec, KexInit.viaWire, fc_strip_right c1' s0, fcw_right c2 s2, fcw_right c3 s3, fcw_right c4 s4,
      fcw_right c5 s5, fcw_right c6 s6, fcw_right c7 s7, fcw_right c8 s8]
  · congr 1
    simp only [spec, KexInit.viaWire, fc_strip_left s1' c0, fcw_left c2 s2, fcw_left c3 s3, fcw_left c4 s4,
      fcw_left c5 s5, fcw_left c6 s6, fcw_left c7 s7, fcw_left c8 s8]

/-! ## never a disabled algorithm, never a marker (no well-formedness needed) -/

/-- inversion: every agreed name was chosen by the first-common rule from the side's own accepted list -/
private theorem negotiate_ok {info : Info} {s : Side} {kl : List Name} {p : KexInit} {ext : Option Name}
    {a : Agreed} (h : negotiate info s kl p ext = .ok a) :
    fc s.serverMode s.preferredKex kl = some a.kex ∧
    fc s.serverMode (ownKeys s) p.keys = some a.hostKey ∧
    fc s.serverMode s.preferredCiphers (if s.serverMode then p.sEnc else p.cEnc) = some a.localCipher ∧
    fc s.serverMode s.preferredCiphers (if s.serverMode then p.cEnc else p.sEnc) = some a.remoteCipher ∧
    fc s.serverMode s.preferredMacs (if s.serverMode then p.sMac else p.cMac) = some a.localMac ∧
    fc s.serverMode s.preferredMacs (if s.serverMode then p.cMac else p.sMac) = some a.remoteMac ∧
    fc s.serverMode s.preferredComp (if s.serverMode then p.sComp else p.cComp) = some a.localComp ∧
    fc s.serverMode s.preferredComp (if s.serverMode then p.cComp else p.sComp) = some a.remoteComp := by
  unfold negotiate at h
  simp only [firstOr_agree, agree_len0, agree_headD] at h
  unfold ownKeys
  cases h1 : fc s.serverMode s.preferredKex kl <;> rw [h1] at h <;> simp only [] at h
  · cases h
  split at h
  · cases h
  cases h2 : fc s.serverMode (if s.serverMode = true then s.availableServerKeys else s.preferredKeys) p.keys <;>
    rw [h2] at h <;> simp only [] at h
  · cases h
  split at h
  · cases h
  cases h3 : fc s.serverMode s.preferredCiphers (if s.serverMode = true then p.sEnc else p.cEnc) <;>
  cases h4 : fc s.serverMode s.preferredCiphers (if s.serverMode = true then p.cEnc else p.sEnc) <;>
  cases h5 : fc s.serverMode s.preferredMacs (if s.serverMode = true then p.sMac else p.cMac) <;>
  cases h6 : fc s.serverMode s.preferredMacs (if s.serverMode = true then p.cMac else p.sMac) <;>
  cases h7 : fc s.serverMode s.preferredComp (if s.serverMode = true then p.sComp else p.cComp) <;>
  cases h8 : fc s.serverMode s.preferredComp (if s.serverMode = true then p.cComp else p.sComp) <;>
  simp [h3, h4, h5, h6, h7, h8] at h <;>
  (subst h; simp)

private theorem parse_ok {info : Info} {s s' : Side} {p : KexInit} {seqno : Nat} {a : Agreed}
    (h : parseKexInit info s p seqno = .ok (s', a)) :
    ∃ s0 ext, s0.serverMode = s.serverMode ∧ s0.preferredKex = s.preferredKex ∧ ownKeys s0 = ownKeys s ∧
      s0.preferredCiphers = s.preferredCiphers ∧ s0.preferredMacs = s.preferredMacs ∧
      s0.preferredComp = s.preferredComp ∧ negotiate info s0 (stripMarkers p.kex) p ext = .ok a := by
  unfold parseKexInit at h
  simp only [] at h
  split at h
  · cases h
  · split at h
    · cases h
    · rename_i a' hn
      injection h with h
      injection h with _ h2
      subst h2
      exact ⟨_, _, rfl, rfl, rfl, rfl, rfl, rfl, hn⟩

/-- **Never a disabled algorithm.**  Whatever the configuration (well-formed or not) and whatever
    the peer sent: no agreed name is listed in the local `disabled_algorithms` of its category —
    including the `-cert-v01@openssh.com` host key variants. -/
theorem never_disabled {info : Info} {s s' : Side} {p : KexInit} {seqno : Nat} {a : Agreed}
    (h : parseKexInit info s p seqno = .ok (s', a)) :
    a.kex ∉ s.disKex ∧ a.hostKey ∉ s.disKeys ∧
    a.localCipher ∉ s.disCiphers ∧ a.remoteCipher ∉ s.disCiphers ∧
    a.localMac ∉ s.disMacs ∧ a.remoteMac ∉ s.disMacs ∧
    a.localComp ∉ s.disComp ∧ a.remoteComp ∉ s.disComp := by
  obtain ⟨s0, ext, e0, e1, e2, e3, e4, e5, hn⟩ := parse_ok h
  obtain ⟨n1, n2, n3, n4, n5, n6, n7, n8⟩ := negotiate_ok hn
  rw [e1] at n1; rw [e2] at n2; rw [e3] at n3 n4; rw [e4] at n5 n6; rw [e5] at n7 n8
  refine ⟨(mem_filterAlg.mp (fc_some n1).1).2, ?_, (mem_filterAlg.mp (fc_some n3).1).2,
    (mem_filterAlg.mp (fc_some n4).1).2, (mem_filterAlg.mp (fc_some n5).1).2,
    (mem_filterAlg.mp (fc_some n6).1).2, (mem_filterAlg.mp (fc_some n7).1).2,
    (mem_filterAlg.mp (fc_some n8).1).2⟩
  have hk := (fc_some n2).1
  unfold ownKeys at hk
  split at hk
  · exact mem_preferredKeys (availableServerKeys_sub hk).1
  · exact mem_preferredKeys hk

/-- **Markers are never selected (kex).**  For every configuration and every peer KEXINIT, with
    `ext-info-*` / `kex-strict-*` names in any position and any number: the agreed kex algorithm is
    not a marker, and it is a name the peer really listed. -/
theorem kex_never_marker {info : Info} {s s' : Side} {p : KexInit} {seqno : Nat} {a : Agreed}
    (h : parseKexInit info s p seqno = .ok (s', a)) :
    isMarker a.kex = false ∧ a.kex ∈ p.kex ∧ a.kex ∈ s.preferredKex := by
  obtain ⟨s0, ext, _, e1, _, _, _, _, hn⟩ := parse_ok h
  obtain ⟨n1, _⟩ := negotiate_ok hn
  rw [e1] at n1
  have := fc_some n1
  exact ⟨(stripMarkers_mem.mp this.2).2, (stripMarkers_mem.mp this.2).1, this.1⟩

/-- **No marker in any category** for a well-formed side: every agreed name is a real algorithm
    name of the tables (non-empty, comma-free, not `ext-info-*` / `kex-strict-*`). -/
theorem no_marker_selected {info : Info} {s s' : Side} {p : KexInit} {seqno : Nat} {a : Agreed}
    (hi : infoOK info = true) (hw : s.wf info = true) (h : parseKexInit info s p seqno = .ok (s', a)) :
    nameOK a.kex = true ∧ nameOK a.hostKey = true ∧ nameOK a.localCipher = true ∧
    nameOK a.remoteCipher = true ∧ nameOK a.localMac = true ∧ nameOK a.remoteMac = true ∧
    nameOK a.localComp = true ∧ nameOK a.remoteComp = true := by
  obtain ⟨s0, ext, e0, e1, e2, e3, e4, e5, hn⟩ := parse_ok h
  obtain ⟨n1, n2, n3, n4, n5, n6, n7, n8⟩ := negotiate_ok hn
  rw [e1] at n1; rw [e2] at n2; rw [e3] at n3 n4; rw [e4] at n5 n6; rw [e5] at n7 n8
  obtain ⟨o1, o2, o3, o4, o5⟩ := accepted_names_ok hi hw
  refine ⟨o1 _ (fc_some n1).1, ?_, o3 _ (fc_some n3).1, o3 _ (fc_some n4).1, o4 _ (fc_some n5).1,
    o4 _ (fc_some n6).1, o5 _ (fc_some n7).1, o5 _ (fc_some n8).1⟩
  have hk := (fc_some n2).1
  unfold ownKeys at hk
  split at hk
  · exact o2 _ (availableServerKeys_sub hk).1
  · exact o2 _ hk

/-- **Nothing disabled is even offered.**  Every name on a KEXINIT paramiko sends is absent from the
    local `disabled_algorithms` of its category; the only exceptions are the two marker
    pseudo-algorithms of the kex list (governed by `strict_kex`, not by `disabled_algorithms`). -/
theorem advertised_never_disabled {info : Info} {s s1 : Side} {k : KexInit}
    (h : sendKexInit info s = .ok (s1, k)) :
    (∀ a ∈ k.kex, a ∈ s.disKex → a = extInfoC ∨ a = strictMarker s.serverMode) ∧
    (∀ a ∈ k.keys, a ∉ s.disKeys) ∧
    (∀ a ∈ k.cEnc, a ∉ s.disCiphers) ∧ (∀ a ∈ k.sEnc, a ∉ s.disCiphers) ∧
    (∀ a ∈ k.cMac, a ∉ s.disMacs) ∧ (∀ a ∈ k.sMac, a ∉ s.disMacs) ∧
    (∀ a ∈ k.cComp, a ∉ s.disComp) ∧ (∀ a ∈ k.sComp, a ∉ s.disComp) := by
  obtain ⟨hs1, hk⟩ := send_spec h
  have d1 : s1.disKex = s.disKex := by rw [hs1]
  have d2 : s1.disKeys = s.disKeys := by rw [hs1]
  have d3 : s1.disCiphers = s.disCiphers := by rw [hs1]
  have d4 : s1.disMacs = s.disMacs := by rw [hs1]
  have d5 : s1.disComp = s.disComp := by rw [hs1]
  have c : ∀ a ∈ s1.preferredCiphers, a ∉ s.disCiphers := fun a ha => d3 ▸ (mem_filterAlg.mp ha).2
  have m : ∀ a ∈ s1.preferredMacs, a ∉ s.disMacs := fun a ha => d4 ▸ (mem_filterAlg.mp ha).2
  have z : ∀ a ∈ s1.preferredComp, a ∉ s.disComp := fun a ha => d5 ▸ (mem_filterAlg.mp ha).2
  have kx : ∀ a ∈ s1.preferredKex, a ∉ s.disKex := fun a ha => d1 ▸ (mem_filterAlg.mp ha).2
  rw [hk]
  refine ⟨?_, ?_, c, c, m, m, z, z⟩
  · intro a ha hd
    simp only [List.mem_append] at ha
    rcases ha with ha | ha
    · split at ha
      · exact absurd hd (kx a ha)
      · rcases List.mem_append.mp ha with ha | ha
        · exact absurd hd (kx a ha)
        · simp at ha; exact Or.inl ha
    · split at ha
      · simp at ha; exact Or.inr ha
      · simp at ha
  · intro a ha
    have ha' : a ∈ ownKeys s1 := ha
    unfold ownKeys at ha'
    split at ha'
    · exact d2 ▸ mem_preferredKeys (availableServerKeys_sub ha').1
    · exact d2 ▸ mem_preferredKeys ha'

private theorem filter_gex_nil (l dis : List Name) :
    (filterAlg (l.filter fun k => !isGex k) dis).filter isGex = [] := by
  rw [List.filter_eq_nil_iff]
  intro a ha
  have := (List.mem_filter.mp (mem_filterAlg.mp ha).1).2
  simpa using this

/-- **The adjustment is stable**: a second `_send_kex_init` (rekey) from the state the first one
    left changes nothing and advertises the same lists. -/
theorem send_idempotent {info : Info} {s s1 : Side} {k : KexInit}
    (h : sendKexInit info s = .ok (s1, k)) : sendKexInit info s1 = .ok (s1, k) := by
  obtain ⟨hs1, hk⟩ := send_spec h
  have hm1 : s1.mustDropGex = false := by
    by_cases hm : s.mustDropGex = true
    · have hp : s1.prefKex = s.prefKex.filter (fun k => !isGex k) := by rw [hs1]; simp [hm]
      unfold Side.mustDropGex Side.preferredKex
      rw [hp, filter_gex_nil]; simp
    · rw [hs1]
      simp only [hm, Bool.false_eq_true, if_false]
  have e1 : s1.serverMode = s.serverMode := by rw [hs1]
  have e2 : s1.advertiseStrict = s.advertiseStrict := by rw [hs1]
  unfold sendKexInit
  simp only [hm1, Bool.false_eq_true, if_false]
  rw [hk, e1, e2]
  by_cases hst : s.advertiseStrict = true <;> by_cases hsm : s.serverMode = true <;>
    simp [hst, hsm, ownKeys, e1]

/-- `SecurityOptions.kex = x` keeps the well-formedness invariant (and refuses foreign names). -/
theorem setKex_wf {info : Info} {s s' : Side} {x : List Name} (hw : s.wf info = true)
    (h : setKex info s x = .ok s') : s'.wf info = true ∧ s'.prefKex = x := by
  unfold setKex at h
  split at h
  · cases h
  · rename_i hx
    injection h with h
    subst h
    obtain ⟨_, w2, w3, w4, w5⟩ := wf_parts hw
    have hx' : ∀ a ∈ x, a ∈ info.kex := by
      intro a ha
      have hlen : (x.filter fun n => !info.kex.contains n).length = 0 := by omega
      have := List.filter_eq_nil_iff.mp (List.eq_nil_of_length_eq_zero hlen) a ha
      simpa using this
    refine ⟨?_, rfl⟩
    simp only [Side.wf, Bool.and_eq_true, List.all_eq_true]
    exact ⟨⟨⟨⟨fun a ha => by simpa using hx' a ha, by simpa using w2⟩, by simpa using w3⟩,
      by simpa using w4⟩, by simpa using w5⟩

/-! ## SecurityOptions assignments, including the ones that raise -/

/-- `ValueError` is raised exactly when the tuple holds a name outside the category's table, and a
    raising assignment leaves the transport exactly as it was (no half-updated state). -/
theorem setPref_raise (info : Info) (s : Side) (c : Cat) (x : List Name) :
    ((setPref info s c x).2 = true ↔ ∃ n ∈ x, n ∉ info.table c) ∧
    ((setPref info s c x).2 = true → (setPref info s c x).1 = s) := by
  unfold setPref
  by_cases h : (x.filter fun n => !(info.table c).contains n).length > 0
  · simp only [h, if_true, true_iff, forall_const, and_true]
    have hne : (x.filter fun n => !(info.table c).contains n) ≠ [] := by
      intro he; rw [he] at h; simp at h
    obtain ⟨n, hn⟩ := List.exists_mem_of_ne_nil _ hne
    have := List.mem_filter.mp hn
    exact ⟨n, this.1, by simpa using this.2⟩
  · simp only [h, if_false, Bool.false_eq_true, false_iff, false_imp_iff, and_true]
    rintro ⟨n, hn, hnt⟩
    apply h
    have : n ∈ x.filter fun n => !(info.table c).contains n := List.mem_filter.mpr ⟨hn, by simpa using hnt⟩
    exact List.length_pos_of_mem this

/-- A successful assignment stores the tuple in its category and nowhere else. -/
theorem setPref_ok (info : Info) (s : Side) (c : Cat) (x : List Name)
    (h : (setPref info s c x).2 = false) :
    (setPref info s c x).1 = s.withPref c x ∧ (∀ n ∈ x, n ∈ info.table c) := by
  unfold setPref at h ⊢
  by_cases hc : (x.filter fun n => !(info.table c).contains n).length > 0
  · rw [if_pos hc] at h; simp at h
  · rw [if_neg hc]
    refine ⟨rfl, ?_⟩
    intro n hn
    apply Classical.byContradiction
    intro hm
    apply hc
    have : n ∈ x.filter fun n => !(info.table c).contains n := List.mem_filter.mpr ⟨hn, by simpa using hm⟩
    exact List.length_pos_of_mem this

/-- Every assignment — accepted or refused — keeps the invariant "preference lists only hold names
    of the tables". -/
theorem setPref_wf {info : Info} {s : Side} (hw : s.wf info = true) (c : Cat) (x : List Name) :
    (setPref info s c x).1.wf info = true := by
  cases hr : (setPref info s c x).2
  · obtain ⟨h1, h2⟩ := setPref_ok info s c x hr
    rw [h1]
    obtain ⟨w1, w2, w3, w4, w5⟩ := wf_parts hw
    have w2' : ∀ n ∈ s.prefKeys, n ∈ info.keys := all_mem w2
    cases c <;>
      simp only [Side.wf, Side.withPref, Bool.and_eq_true, List.all_eq_true, Info.table] at h2 ⊢ <;>
      exact ⟨⟨⟨⟨fun a ha => by simpa using (by first | exact h2 a ha | exact w1 a ha),
        fun a ha => by simpa using (by first | exact h2 a ha | exact w2' a ha)⟩,
        fun a ha => by simpa using (by first | exact h2 a ha | exact w3 a ha)⟩,
        fun a ha => by simpa using (by first | exact h2 a ha | exact w4 a ha)⟩,
        fun a ha => by simpa using (by first | exact h2 a ha | exact w5 a ha)⟩
  · rw [(setPref_raise info s c x).2 hr]; exact hw

/-- **All histories of assignments**: whatever sequence of `SecurityOptions` assignments an
    application performs (any categories, any tuples, any number refused and caught), the
    transport stays well-formed — so every theorem of this file applies to it. -/
theorem wf_after_setters {info : Info} (ops : List (Cat × List Name)) {s : Side} (hw : s.wf info = true) :
    (applySetters info s ops).wf info = true := by
  induction ops generalizing s with
  | nil => exact hw
  | cons op rest ih => exact ih (setPref_wf hw op.1 op.2)

/-- the model's kex setter used inside `_send_kex_init` is the same `_set` -/
theorem setKex_eq_setPref (info : Info) (s : Side) (x : List Name) :
    setKex info s x = if (setPref info s .kex x).2 then .error .valueError else .ok (setPref info s .kex x).1 := by
  unfold setKex setPref
  by_cases h : (x.filter fun n => !info.kex.contains n).length > 0
  · have h' : (x.filter fun n => !(info.table .kex).contains n).length > 0 := h
    rw [if_pos h, if_pos h']; rfl
  · have h' : ¬ (x.filter fun n => !(info.table .kex).contains n).length > 0 := h
    rw [if_neg h, if_neg h']; rfl

/-- a name of category `c`'s table (host keys: or the cert variant of one) -/
def inTable (info : Info) (c : Cat) (a : Name) : Prop :=
  a ∈ info.table c ∨ (c = .keys ∧ ∃ b ∈ info.keys, a = cert b)

/-- **Only table names are ever agreed on.**  For a well-formed transport and any peer KEXINIT,
    every agreed algorithm is a name of the corresponding `*_info` table — in particular never a
    name whose assignment `SecurityOptions` refused, whatever the peer advertises. -/
theorem agreed_in_tables {info : Info} {s s' : Side} {p : KexInit} {seqno : Nat} {a : Agreed}
    (hw : s.wf info = true) (h : parseKexInit info s p seqno = .ok (s', a)) :
    inTable info .kex a.kex ∧ inTable info .keys a.hostKey ∧
    inTable info .ciphers a.localCipher ∧ inTable info .ciphers a.remoteCipher ∧
    inTable info .macs a.localMac ∧ inTable info .macs a.remoteMac ∧
    inTable info .compression a.localComp ∧ inTable info .compression a.remoteComp := by
  obtain ⟨s0, ext, e0, e1, e2, e3, e4, e5, hn⟩ := parse_ok h
  obtain ⟨n1, n2, n3, n4, n5, n6, n7, n8⟩ := negotiate_ok hn
  rw [e1] at n1; rw [e2] at n2; rw [e3] at n3 n4; rw [e4] at n5 n6; rw [e5] at n7 n8
  obtain ⟨w1, w2, w3, w4, w5⟩ := wf_parts hw
  refine ⟨Or.inl (w1 _ (mem_filterAlg.mp (fc_some n1).1).1), ?_,
    Or.inl (w3 _ (mem_filterAlg.mp (fc_some n3).1).1), Or.inl (w3 _ (mem_filterAlg.mp (fc_some n4).1).1),
    Or.inl (w4 _ (mem_filterAlg.mp (fc_some n5).1).1), Or.inl (w4 _ (mem_filterAlg.mp (fc_some n6).1).1),
    Or.inl (w5 _ (mem_filterAlg.mp (fc_some n7).1).1), Or.inl (w5 _ (mem_filterAlg.mp (fc_some n8).1).1)⟩
  have hk := (fc_some n2).1
  have hpk : a.hostKey ∈ s.preferredKeys := by
    unfold ownKeys at hk
    split at hk
    · exact (availableServerKeys_sub hk).1
    · exact hk
  rcases preferredKeys_sub w2 hpk with h | ⟨b, hb, hab⟩
  · exact Or.inl h
  · exact Or.inr ⟨rfl, b, hb, hab⟩

/-- **Only table names are ever advertised** (plus the two markers in the kex list). -/
theorem advertised_in_tables {info : Info} {s s1 : Side} {k : KexInit}
    (hi : infoOK info = true) (hw : s.wf info = true) (h : sendKexInit info s = .ok (s1, k)) :
    (∀ a ∈ stripMarkers k.kex, inTable info .kex a) ∧ (∀ a ∈ k.keys, inTable info .keys a) ∧
    (∀ a ∈ k.cEnc, inTable info .ciphers a) ∧ (∀ a ∈ k.sEnc, inTable info .ciphers a) ∧
    (∀ a ∈ k.cMac, inTable info .macs a) ∧ (∀ a ∈ k.sMac, inTable info .macs a) ∧
    (∀ a ∈ k.cComp, inTable info .compression a) ∧ (∀ a ∈ k.sComp, inTable info .compression a) := by
  have hw1 := wf_send hw h
  obtain ⟨a1, a2, a3, a4, a5, a6, a7, a8⟩ := advertised_eq_accepted hi hw h
  obtain ⟨w1, w2, w3, w4, w5⟩ := wf_parts hw1
  rw [a1, a2, a3, a4, a5, a6, a7, a8]
  refine ⟨fun a ha => Or.inl (w1 _ (mem_filterAlg.mp ha).1), ?_,
    fun a ha => Or.inl (w3 _ (mem_filterAlg.mp ha).1), fun a ha => Or.inl (w3 _ (mem_filterAlg.mp ha).1),
    fun a ha => Or.inl (w4 _ (mem_filterAlg.mp ha).1), fun a ha => Or.inl (w4 _ (mem_filterAlg.mp ha).1),
    fun a ha => Or.inl (w5 _ (mem_filterAlg.mp ha).1), fun a ha => Or.inl (w5 _ (mem_filterAlg.mp ha).1)⟩
  intro a ha
  have hpk : a ∈ s1.preferredKeys := by
    unfold ownKeys at ha
    split at ha
    · exact (availableServerKeys_sub ha).1
    · exact ha
  rcases preferredKeys_sub w2 hpk with h | ⟨b, hb, rfl⟩
  · exact Or.inl h
  · exact Or.inr ⟨rfl, b, hb, rfl⟩

/-! ## histories on one transport: reads, `disabled_algorithms` changes, assignments, (re)negotiation -/

/-- Reading `preferred_*` / `get_security_options()` never changes what the transport will do:
    a history with its reads removed ends in the same state. -/
theorem reads_are_noops (info : Info) (s : Side) (ops : List Op) :
    applyOps info s ops = applyOps info s (ops.filter fun o => !o.isRead) := by
  induction ops generalizing s with
  | nil => rfl
  | cons op rest ih =>
    cases op with
    | read c => simpa [applyOps, applyOp, Op.isRead] using ih s
    | setPref c x => simpa [applyOps, Op.isRead] using ih _
    | setDisabled c x => simpa [applyOps, Op.isRead] using ih _

private theorem withDis_wf {info : Info} {s : Side} (hw : s.wf info = true) (c : Cat) (x : List Name) :
    (s.withDis c x).wf info = true := by
  cases c <;> exact hw

/-- every history keeps the transport well-formed -/
theorem wf_after_ops {info : Info} (ops : List Op) {s : Side} (hw : s.wf info = true) :
    (applyOps info s ops).wf info = true := by
  induction ops generalizing s with
  | nil => exact hw
  | cons op rest ih =>
    cases op with
    | read c => exact ih hw
    | setPref c x => exact ih (setPref_wf hw c x)
    | setDisabled c x => exact ih (withDis_wf hw c x)

/-- The offered lists are a pure function of (preferences, disabled sets) *at that moment*:
    `preferred_<c>` = the current preference list minus the currently disabled names (host keys: plus
    the non-disabled cert variants) — whatever was read, assigned or disabled earlier. -/
theorem preferred_pure (s : Side) (c : Cat) :
    (∀ a ∈ s.preferred c, a ∉ s.dis c) ∧
    (c ≠ .keys → s.preferred c = filterAlg (s.pref c) (s.dis c)) ∧
    (∀ a, a ∈ s.pref c → a ∉ s.dis c → a ∈ s.preferred c) := by
  cases c
  · exact ⟨fun a ha => (mem_filterAlg.mp ha).2, fun _ => rfl, fun a h1 h2 => mem_filterAlg.mpr ⟨h1, h2⟩⟩
  · refine ⟨fun a ha => mem_preferredKeys ha, fun h => absurd rfl h, fun a h1 h2 => ?_⟩
    show a ∈ s.preferredKeys
    unfold Side.preferredKeys
    exact List.mem_append_left _ (mem_filterAlg.mpr ⟨h1, h2⟩)
  · exact ⟨fun a ha => (mem_filterAlg.mp ha).2, fun _ => rfl, fun a h1 h2 => mem_filterAlg.mpr ⟨h1, h2⟩⟩
  · exact ⟨fun a ha => (mem_filterAlg.mp ha).2, fun _ => rfl, fun a h1 h2 => mem_filterAlg.mpr ⟨h1, h2⟩⟩
  · exact ⟨fun a ha => (mem_filterAlg.mp ha).2, fun _ => rfl, fun a h1 h2 => mem_filterAlg.mpr ⟨h1, h2⟩⟩

/-- **History independence.**  Two histories on a transport that end with the same preference lists
    and the same disabled sets advertise the same KEXINIT and negotiate identically with every peer
    (initial kex or rekey) — earlier reads, earlier `disabled_algorithms` values and refused
    assignments leave no trace. -/
theorem history_independent (info : Info) (s : Side) (h1 h2 : List Op)
    (hp : ∀ c, (applyOps info s h1).pref c = (applyOps info s h2).pref c)
    (hd : ∀ c, (applyOps info s h1).dis c = (applyOps info s h2).dis c) :
    applyOps info s h1 = applyOps info s h2 := by
  have inv : ∀ (ops : List Op) (t : Side),
      (applyOps info t ops).serverMode = t.serverMode ∧ (applyOps info t ops).serverKeys = t.serverKeys ∧
      (applyOps info t ops).hasModuli = t.hasModuli ∧ (applyOps info t ops).advertiseStrict = t.advertiseStrict ∧
      (applyOps info t ops).agreedStrict = t.agreedStrict ∧
      (applyOps info t ops).initialKexDone = t.initialKexDone := by
    intro ops
    induction ops with
    | nil => intro t; exact ⟨rfl, rfl, rfl, rfl, rfl, rfl⟩
    | cons op rest ih =>
      intro t
      have h := ih (applyOp info t op)
      have e : (applyOp info t op).serverMode = t.serverMode ∧ (applyOp info t op).serverKeys = t.serverKeys ∧
          (applyOp info t op).hasModuli = t.hasModuli ∧ (applyOp info t op).advertiseStrict = t.advertiseStrict ∧
          (applyOp info t op).agreedStrict = t.agreedStrict ∧
          (applyOp info t op).initialKexDone = t.initialKexDone := by
        cases op with
        | read c => exact ⟨rfl, rfl, rfl, rfl, rfl, rfl⟩
        | setDisabled c x => cases c <;> exact ⟨rfl, rfl, rfl, rfl, rfl, rfl⟩
        | setPref c x =>
          simp only [applyOp, setPref]
          split
          · exact ⟨rfl, rfl, rfl, rfl, rfl, rfl⟩
          · cases c <;> exact ⟨rfl, rfl, rfl, rfl, rfl, rfl⟩
      simp only [applyOps]
      exact ⟨h.1.trans e.1, h.2.1.trans e.2.1, h.2.2.1.trans e.2.2.1, h.2.2.2.1.trans e.2.2.2.1,
        h.2.2.2.2.1.trans e.2.2.2.2.1, h.2.2.2.2.2.trans e.2.2.2.2.2⟩
  obtain ⟨a1, a2, a3, a4, a5, a6⟩ := inv h1 s
  obtain ⟨b1, b2, b3, b4, b5, b6⟩ := inv h2 s
  have p1 := hp .kex; have p2 := hp .keys; have p3 := hp .ciphers; have p4 := hp .macs; have p5 := hp .compression
  have d1 := hd .kex; have d2 := hd .keys; have d3 := hd .ciphers; have d4 := hd .macs; have d5 := hd .compression
  simp only [Side.pref, Side.dis] at p1 p2 p3 p4 p5 d1 d2 d3 d4 d5
  cases hA : applyOps info s h1
  cases hB : applyOps info s h2
  rw [hA] at a1 a2 a3 a4 a5 a6 p1 p2 p3 p4 p5 d1 d2 d3 d4 d5
  rw [hB] at b1 b2 b3 b4 b5 b6 p1 p2 p3 p4 p5 d1 d2 d3 d4 d5
  simp only at a1 a2 a3 a4 a5 a6 b1 b2 b3 b4 b5 b6 p1 p2 p3 p4 p5 d1 d2 d3 d4 d5
  subst a1 a2 a3 a4 a5 a6 p1 p2 p3 p4 p5 d1 d2 d3 d4 d5
  simp [b1, b2, b3, b4, b5, b6]

/-- **Nothing disabled at the time of the negotiation is offered or agreed** — after any history of
    reads, `disabled_algorithms` changes and assignments, for the initial key exchange and for every
    re-negotiation (`s` may itself be the state a previous negotiation left), against any peer. -/
theorem history_never_disabled {info : Info} (s : Side) (ops : List Op) {s1 s2 : Side} {k p : KexInit}
    {seqno : Nat} {a : Agreed}
    (hsend : sendKexInit info (applyOps info s ops) = .ok (s1, k))
    (hparse : parseKexInit info s1 p seqno = .ok (s2, a)) :
    let now := applyOps info s ops
    (∀ x ∈ k.kex, x ∈ now.disKex → x = extInfoC ∨ x = strictMarker now.serverMode) ∧
    (∀ x ∈ k.keys, x ∉ now.disKeys) ∧
    (∀ x ∈ k.cEnc, x ∉ now.disCiphers) ∧ (∀ x ∈ k.sEnc, x ∉ now.disCiphers) ∧
    (∀ x ∈ k.cMac, x ∉ now.disMacs) ∧ (∀ x ∈ k.sMac, x ∉ now.disMacs) ∧
    (∀ x ∈ k.cComp, x ∉ now.disComp) ∧ (∀ x ∈ k.sComp, x ∉ now.disComp) ∧
    a.kex ∉ now.disKex ∧ a.hostKey ∉ now.disKeys ∧
    a.localCipher ∉ now.disCiphers ∧ a.remoteCipher ∉ now.disCiphers ∧
    a.localMac ∉ now.disMacs ∧ a.remoteMac ∉ now.disMacs ∧
    a.localComp ∉ now.disComp ∧ a.remoteComp ∉ now.disComp := by
  intro now
  obtain ⟨q1, q2, q3, q4, q5, q6, q7, q8⟩ := advertised_never_disabled hsend
  obtain ⟨r1, r2, r3, r4, r5, r6, r7, r8⟩ := never_disabled hparse
  have hs1 := (send_spec hsend).1
  have e1 : s1.disKex = now.disKex := by rw [hs1]
  have e2 : s1.disKeys = now.disKeys := by rw [hs1]
  have e3 : s1.disCiphers = now.disCiphers := by rw [hs1]
  have e4 : s1.disMacs = now.disMacs := by rw [hs1]
  have e5 : s1.disComp = now.disComp := by rw [hs1]
  rw [e1] at r1; rw [e2] at r2; rw [e3] at r3 r4; rw [e4] at r5 r6; rw [e5] at r7 r8
  exact ⟨q1, q2, q3, q4, q5, q6, q7, q8, r1, r2, r3, r4, r5, r6, r7, r8⟩

/-! ## the tables of the source (regenerated on every run) -/

/-- every name of `_kex_info`, `_key_info` (and its cert variant), `_cipher_info`, `_mac_info`,
    `_compression_info` is non-empty, comma-free and not a marker pseudo-algorithm -/
theorem generated_info_ok : infoOK PV.Generated.C05.info = true := by decide +kernel

/-- a transport with the class-level preference tuples, no disabled algorithms -/
def defaultSide (server : Bool) (serverKeys : List Name) (hasModuli : Bool) : Side :=
  { serverMode := server, prefKex := PV.Generated.C05.preferredKex, prefKeys := PV.Generated.C05.preferredKeys,
    prefCiphers := PV.Generated.C05.preferredCiphers, prefMacs := PV.Generated.C05.preferredMacs,
    prefComp := PV.Generated.C05.preferredCompression,
    disKex := [], disKeys := [], disCiphers := [], disMacs := [], disComp := [],
    serverKeys := serverKeys, hasModuli := hasModuli, advertiseStrict := true, agreedStrict := false,
    initialKexDone := false }

/-- the class-level preference tuples (also with the GSS kex names prepended, `gss_kex=True`) only
    hold names of the tables: the default configuration is well-formed -/
theorem default_wf (server : Bool) (serverKeys : List Name) (hasModuli : Bool) :
    (defaultSide server serverKeys hasModuli).wf PV.Generated.C05.info = true ∧
    ({ defaultSide server serverKeys hasModuli with
        prefKex := PV.Generated.C05.preferredGssKex ++ PV.Generated.C05.preferredKex } : Side).wf
      PV.Generated.C05.info = true := by
  have h1 : PV.Generated.C05.preferredKex.all PV.Generated.C05.info.kex.contains = true := by decide +kernel
  have h1' : (PV.Generated.C05.preferredGssKex ++ PV.Generated.C05.preferredKex).all
      PV.Generated.C05.info.kex.contains = true := by decide +kernel
  have h2 : PV.Generated.C05.preferredKeys.all PV.Generated.C05.info.keys.contains = true := by decide +kernel
  have h3 : PV.Generated.C05.preferredCiphers.all PV.Generated.C05.info.ciphers.contains = true := by
    decide +kernel
  have h4 : PV.Generated.C05.preferredMacs.all PV.Generated.C05.info.macs.contains = true := by decide +kernel
  have h5 : PV.Generated.C05.preferredCompression.all PV.Generated.C05.info.compression.contains = true := by
    decide +kernel
  constructor <;> simp only [Side.wf, defaultSide, h1, h1', h2, h3, h4, h5, Bool.and_self]

/-! ## the repaired defect, and non-vacuity -/

/-- `"diffie-hellman-group-exchange-sha256"` -/
def gex256 : Name := gexPrefix ++ [50, 53, 54]
/-- `"ssh-ed25519"` -/
def ed25519 : Name := [115, 115, 104, 45, 101, 100, 50, 53, 53, 49, 57]

/-- a client that prefers group exchange -/
def gexFirstClient : Side :=
  { defaultSide false [] false with
    prefKex := gex256 :: PV.Generated.C05.preferredKex.filter (fun n => n != gex256) }

/-- a server with one host key, default preferences and **no moduli file** -/
def modulilessServer : Side := defaultSide true [ed25519] false

/-- `_send_kex_init` as it was before commit 857cd48: the kex list is built *before* the
    group-exchange methods are dropped from `_preferred_kex` (kept only for the witness below). -/
def sendKexInitStale (info : Info) (s : Side) : Except Err (Side × KexInit) :=
  match sendKexInit info s with
  | .error e => .error e
  | .ok (s1, k) =>
    let kexAlgos := if s.serverMode then s.preferredKex else s.preferredKex ++ [extInfoC]
    .ok (s1, { k with kex := if s1.advertiseStrict then kexAlgos ++ [strictMarker s1.serverMode] else kexAlgos })

private def bothViews (send : Info → Side → Except Err (Side × KexInit)) : Option (Except Err View × Except Err View) :=
  match sendKexInit PV.Generated.C05.info gexFirstClient, send PV.Generated.C05.info modulilessServer with
  | .ok (c1, kc), .ok (s1, ks) =>
    some ((parseKexInit PV.Generated.C05.info c1 ks.viaWire 0).map (fun r => view false r.2),
          (parseKexInit PV.Generated.C05.info s1 kc.viaWire 0).map (fun r => view true r.2))
  | _, _ => none

/-- **Witness of the repaired defect**: with the old ordering the moduli-less server advertised
    group exchange, the client chose it, the server chose something else — the peers disagreed. -/
theorem stale_advertisement_witness :
    (match bothViews sendKexInitStale with
     | some (.ok vc, .ok vs) => vc.kex == gex256 && vs.kex != gex256
     | _ => false) = true := by decide +kernel

/-- non-vacuity of `peers_agree` on the same pair with the repaired `_send_kex_init`: both sides
    succeed, agree, and the agreed method is neither group exchange nor a marker -/
example :
    (match bothViews sendKexInit with
     | some (.ok vc, .ok vs) => vc == vs && vc.kex != gex256 && !isMarker vc.kex
     | _ => false) = true := by decide +kernel

example : gexFirstClient.wf PV.Generated.C05.info = true ∧ modulilessServer.wf PV.Generated.C05.info = true := by
  decide +kernel

private def noCipherClient : Side :=
  { defaultSide false [] false with disCiphers := PV.Generated.C05.preferredCiphers }

/-- non-vacuity of `incompatible_iff`: a client with every cipher disabled is refused by both peers -/
example :
    (match sendKexInit PV.Generated.C05.info noCipherClient,
           sendKexInit PV.Generated.C05.info modulilessServer with
     | .ok (c1, kc), .ok (s1, ks) =>
       (match parseKexInit PV.Generated.C05.info c1 ks.viaWire 0, parseKexInit PV.Generated.C05.info s1 kc.viaWire 0 with
        | .error .incompatible, .error .incompatible => true
        | _, _ => false)
     | _, _ => false) = true := by decide +kernel

private def markerPeer : KexInit :=
  { kex := [strictMarker true, extInfoC, strictMarker true, gex256, extInfoC],
    keys := [ed25519], cEnc := PV.Generated.C05.preferredCiphers,
    sEnc := PV.Generated.C05.preferredCiphers, cMac := PV.Generated.C05.preferredMacs,
    sMac := PV.Generated.C05.preferredMacs, cComp := PV.Generated.C05.preferredCompression,
    sComp := PV.Generated.C05.preferredCompression }

/-- non-vacuity of `kex_never_marker`: a peer that lists markers first, in the middle and twice -/
example :
    (match parseKexInit PV.Generated.C05.info gexFirstClient markerPeer 0 with
     | .ok (s', a) => a.kex == gex256 && s'.agreedStrict && a.remoteExtInfo == some extInfoC
     | .error _ => false) = true := by decide +kernel

end PV.Props.C05
