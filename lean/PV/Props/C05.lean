import PV.Model.Negotiate
import PV.Generated.C05
namespace PV.Props.C05
open PV PV.Negotiate

theorem placeholder : firstCommon [] [] = none := rfl

end PV.Props.C05
