/-
  C18 — A client refuses server-initiated actions it did not enable.
  Property theorems only.  Model: PV/Model/ClientRefuse.lean.
-/
import PV.Model.ClientRefuse
namespace PV.Props.C18
open PV PV.ClientRefuse

/-! ## global requests -/

/-- **Global requests.** Whatever the client has enabled, whatever the request says: the client never answers
REQUEST_SUCCESS (it answers REQUEST_FAILURE, or nothing when no reply was asked for) and its state is unchanged. -/
theorem global_request_always_refused (s : St) (kind : Bytes) (want : Bool) :
    (handle s (.globalRequest kind want)).1 = s ∧
    (handle s (.globalRequest kind want)).2 = (if want then .requestFailure else .none) := ⟨rfl, rfl⟩

/-! ## channel opens -/

/-- the handler that gates a channel kind -/
def enabled (s : St) (kind : Bytes) : Bool :=
  (kind = kAgent && s.agent) || (kind = kX11 && s.x11) || (kind = kFwd && s.fwd)

/-- **Channel open, one message.** A server-opened channel is accepted only if its kind is one of x11 / auth-agent /
forwarded-tcpip *and* the matching handler is installed at that moment; every other open — any other kind (session,
direct-tcpip, unknown …) or a forwardable kind that is not enabled — is answered CHANNEL_OPEN_FAILURE,
administratively prohibited, and nothing is created. -/
theorem channel_open_gated (s : St) (kind : Bytes) (chanid : Nat) :
    (enabled s kind = true → (handle s (.channelOpen kind chanid)).2 = .openSuccess chanid) ∧
    (enabled s kind = false → handle s (.channelOpen kind chanid) = (s, .openFailure chanid 1)) := by
  constructor
  · intro h
    simp only [enabled, Bool.or_eq_true, Bool.and_eq_true, decide_eq_true_eq] at h
    simp only [handle]
    rw [if_pos (by rcases h with (h | h) | h <;> simp [h])]
  · intro h
    simp only [handle]
    rw [if_neg]
    intro hc
    have : enabled s kind = true := by
      simp only [enabled, Bool.or_eq_true, Bool.and_eq_true, decide_eq_true_eq]
      rcases hc with h1 | h1 | h1
      · exact Or.inl (Or.inl h1)
      · exact Or.inl (Or.inr h1)
      · exact Or.inr h1
    rw [this] at h; cases h

/-- the handlers are installed only by the client's own actions -/
def EnabledBy (hist : List Event) (kind : Bytes) : Prop :=
  (kind = kX11 ∧ Event.act (.requestX11 true) ∈ hist) ∨
  (kind = kAgent ∧ Event.act .requestForwardAgent ∈ hist) ∨
  (kind = kFwd ∧ ∃ pre post, hist = pre ++ [Event.act (.requestPortForward true)] ++ post ∧
      Event.act .cancelPortForward ∉ post)

private theorem kinds_distinct : kX11 ≠ kAgent ∧ kX11 ≠ kFwd ∧ kAgent ≠ kFwd := by decide +kernel

/-- invariant tying the handler flags to the client's own history -/
private def Inv (hist : List Event) (s : St) : Prop :=
  (s.x11 = true → Event.act (.requestX11 true) ∈ hist) ∧
  (s.agent = true → Event.act .requestForwardAgent ∈ hist) ∧
  (s.fwd = true → ∃ pre post, hist = pre ++ [Event.act (.requestPortForward true)] ++ post ∧
      Event.act .cancelPortForward ∉ post)

private theorem inv_step (hist : List Event) (s : St) (e : Event) (h : Inv hist s) : Inv (hist ++ [e]) (step s e).1 := by
  obtain ⟨h1, h2, h3⟩ := h
  have ext : ∀ s' : St, s'.x11 = s.x11 → s'.agent = s.agent → s'.fwd = s.fwd → ∀ e' : Event,
      e' ≠ .act .cancelPortForward → Inv (hist ++ [e']) s' := by
    intro s' a b c e' hne
    refine ⟨fun hx => List.mem_append_left _ (h1 (a ▸ hx)), fun hx => List.mem_append_left _ (h2 (b ▸ hx)), ?_⟩
    intro hx
    obtain ⟨pre, post, hp, hn⟩ := h3 (c ▸ hx)
    refine ⟨pre, post ++ [e'], by rw [hp]; simp [List.append_assoc], ?_⟩
    intro hm
    rcases List.mem_append.mp hm with hm | hm
    · exact hn hm
    · exact hne (List.mem_singleton.mp hm).symm
  cases e with
  | msg m =>
    cases m with
    | globalRequest k w => exact ext _ rfl rfl rfl _ (by intro h; cases h)
    | channelOpen k c =>
      simp only [step, handle]
      split
      · exact ext _ rfl rfl rfl _ (by intro h; cases h)
      · exact ext _ rfl rfl rfl _ (by intro h; cases h)
    | channelRequest k w => exact ext _ rfl rfl rfl _ (by intro h; cases h)
  | act a =>
    cases a with
    | requestX11 g =>
      cases g with
      | false => exact ext _ rfl rfl rfl _ (by intro h; cases h)
      | true =>
        have := ext s rfl rfl rfl (.act (.requestX11 true)) (by intro h; cases h)
        exact ⟨fun _ => List.mem_append_right _ (List.mem_singleton.mpr rfl), this.2.1, this.2.2⟩
    | requestForwardAgent =>
      have := ext s rfl rfl rfl (.act .requestForwardAgent) (by intro h; cases h)
      exact ⟨this.1, fun _ => List.mem_append_right _ (List.mem_singleton.mpr rfl), this.2.2⟩
    | requestPortForward g =>
      cases g with
      | false => exact ext _ rfl rfl rfl _ (by intro h; cases h)
      | true =>
        have := ext s rfl rfl rfl (.act (.requestPortForward true)) (by intro h; cases h)
        exact ⟨this.1, this.2.1, fun _ => ⟨hist, [], by simp, by simp⟩⟩
    | otherRequest g => exact ext _ rfl rfl rfl _ (by intro h; cases h)
    | cancelPortForward =>
      refine ⟨fun hx => List.mem_append_left _ (h1 hx), fun hx => List.mem_append_left _ (h2 hx), ?_⟩
      intro hx
      simp [step, perform] at hx

private theorem inv_run (hist : List Event) (s : St) (h : Inv hist s) (es : List Event) :
    Inv (hist ++ es) (run s es).1 := by
  induction es generalizing hist s with
  | nil => simpa [run] using h
  | cons e es ih =>
    simp only [run]
    have := ih (hist ++ [e]) _ (inv_step hist s e h)
    simpa [List.append_assoc] using this

/-- **Channel open, all histories.** After any history of client actions and server messages on a fresh client
transport, a server-opened channel is accepted only if the client itself enabled that kind before: x11 after a
granted `request_x11`, auth-agent after `request_forward_agent`, forwarded-tcpip after a granted
`request_port_forward` that has not been followed by `cancel_port_forward`.  Everything else gets
CHANNEL_OPEN_FAILURE (administratively prohibited). -/
theorem accepted_only_if_enabled_by_client (es : List Event) (kind : Bytes) (chanid : Nat) :
    (handle (run init es).1 (.channelOpen kind chanid)).2 = .openSuccess chanid → EnabledBy es kind := by
  intro h
  have hi : Inv es (run init es).1 := by
    have := inv_run [] init ⟨by simp [init], by simp [init], by simp [init]⟩ es
    simpa using this
  obtain ⟨h1, h2, h3⟩ := hi
  simp only [handle] at h
  split at h
  · rename_i hc
    rcases hc with ⟨hk, hs⟩ | ⟨hk, hs⟩ | ⟨hk, hs⟩
    · exact Or.inr (Or.inl ⟨hk, h2 hs⟩)
    · exact Or.inl ⟨hk, h1 hs⟩
    · exact Or.inr (Or.inr ⟨hk, h3 hs⟩)
  · cases h

theorem never_enabled_means_refused (es : List Event) (kind : Bytes) (chanid : Nat) (h : ¬ EnabledBy es kind) :
    (handle (run init es).1 (.channelOpen kind chanid)).2 = .openFailure chanid 1 := by
  have := accepted_only_if_enabled_by_client es kind chanid
  simp only [handle] at this ⊢
  split
  · rename_i hc
    rw [if_pos hc] at this
    exact absurd (this rfl) h
  · rfl

/-! ## channel requests -/

/-- **Channel requests.** A client-side channel never approves a request to run something or to allocate a
terminal (or any other request a server is entitled to receive, or any unknown one): the only requests it answers
with CHANNEL_SUCCESS are the status notifications exit-status and xon-xoff; state is never changed. -/
theorem channel_request_never_approved (s : St) (key : Bytes) (want : Bool)
    (h : key ≠ str "exit-status" ∧ key ≠ str "xon-xoff") :
    handle s (.channelRequest key want) = (s, if want then .channelFailure else .none) := by
  have : approves key = false := by simp [approves, h.1, h.2]
  simp [handle, this]

theorem exec_shell_subsystem_pty_never_approved (s : St) (want : Bool) :
    ∀ key ∈ [str "exec", str "shell", str "subsystem", str "pty-req", str "env", str "x11-req",
              str "auth-agent-req@openssh.com", str "window-change"],
      (handle s (.channelRequest key want)).2 ≠ .channelSuccess := by
  have hk : ∀ key ∈ [str "exec", str "shell", str "subsystem", str "pty-req", str "env", str "x11-req",
      str "auth-agent-req@openssh.com", str "window-change"], approves key = false := by decide +kernel
  intro key hkey
  simp only [handle, hk key hkey]
  cases want <;> simp

/-! ## non-vacuity -/

example : (handle init (.channelOpen kX11 3)).2 = .openFailure 3 1 := by decide +kernel
example : (handle (run init [.act (.requestX11 true)]).1 (.channelOpen kX11 3)).2 = .openSuccess 3 := by decide +kernel
example : (handle (run init [.act (.requestPortForward true), .act .cancelPortForward]).1 (.channelOpen kFwd 3)).2
    = .openFailure 3 1 := by decide +kernel
example : (handle (run init [.act (.requestPortForward true), .act .cancelPortForward,
    .act (.requestPortForward true)]).1 (.channelOpen kFwd 3)).2 = .openSuccess 3 := by decide +kernel
example : (handle (run init [.act .requestForwardAgent]).1 (.channelOpen (str "session") 0)).2 = .openFailure 0 1 := by
  decide +kernel
example : (handle init (.channelRequest (str "exit-status") true)).2 = .channelSuccess := by decide +kernel
-- an earlier granted request on the channel, then an x11 request that ends without CHANNEL_SUCCESS: still refused
example : (handle (run init [.act (.otherRequest true), .act (.requestX11 false)]).1 (.channelOpen kX11 3)).2
    = .openFailure 3 1 := by decide +kernel

end PV.Props.C18
