/-
  C30 — Every SFTP request completes with exactly one well-formed response.
  Property theorems only.  Server: PV/Model/SftpServer.lean over the table generated from the source
  (PV/Generated/C30.lean: command numbers, CMD_NAMES keys, the branches of `_process` and — from the AST — every
  packet type a responder call in each branch can emit).  Client: PV/Model/SftpClient.lean (invariant proofs in
  PV/Model/SftpClientInv.lean).
-/
import PV.Model.SftpServer
import PV.Model.SftpClientInv
import PV.Model.ClientLockLemmas
import PV.Model.ListdirIter
namespace PV.Props.C30
open PV PV.SftpServer PV.Generated.C30

def allHk : List HandleKind := [.file, .folder, .none]
def allExt : List ExtTag := [.checkFile, .posixRename, .other]
def allCf : List CfCase := [.badHandle, .noAlg, .statFails, .smallBlock, .readFails, .ok]

private theorem mem_allHk (x : HandleKind) : x ∈ allHk := by cases x <;> decide
private theorem mem_allExt (x : ExtTag) : x ∈ allExt := by cases x <;> decide
private theorem mem_allCf (x : CfCase) : x ∈ allCf := by cases x <;> decide
private theorem mem_allBool (x : Bool) : x ∈ allBool := by cases x <;> decide

private theorem dispatch_unhandled (t : Nat) (a : Abs) (h : t ∉ handled) : dispatch t a = status sftpOpUnsupported := by
  simp only [handled, List.mem_cons, List.not_mem_nil, or_false, not_or] at h
  unfold dispatch
  simp only [cmdOpen, cmdClose, cmdRead, cmdWrite, cmdRemove, cmdRename, cmdMkdir, cmdRmdir, cmdOpendir,
    cmdReaddir, cmdStat, cmdLstat, cmdFstat, cmdSetstat, cmdFsetstat, cmdReadlink, cmdSymlink, cmdRealpath,
    cmdExtended]
  simp [h]

private theorem dispatch_valid_table :
    ∀ c ∈ handled, ∀ hk ∈ allHk, ∀ ok ∈ allBool, ∀ rs ∈ allBool, ∀ ext ∈ allExt, ∀ em ∈ allBool, ∀ cf ∈ allCf,
      validFor c (dispatch c ⟨hk, ok, rs, ext, em, cf⟩).1 = true := by decide +kernel

private theorem dispatch_valid (t : Nat) (a : Abs) : validFor t (dispatch t a).1 = true := by
  by_cases h : t ∈ handled
  · obtain ⟨hk, ok, rs, ext, em, cf⟩ := a
    exact dispatch_valid_table t h hk (mem_allHk hk) ok (mem_allBool ok) rs (mem_allBool rs) ext (mem_allExt ext)
      em (mem_allBool em) cf (mem_allCf cf)
  · rw [dispatch_unhandled t a h]; simp [validFor, status]

/-- **Exactly one response, same id, valid type** — for every command byte 0..255 and beyond, every request id,
    every handle kind, every callback outcome (result, error code, exception), every extended tag, every exit of
    check-file. -/
theorem one_response_same_id_valid_type (t id : Nat) (a : Abs) :
    ∃ ty code, serve t id a = [(ty, id, code)] ∧ validFor t ty = true := by
  unfold serve
  split
  · exact ⟨_, _, rfl, by simp [validFor]⟩
  · split
    · exact ⟨_, _, rfl, by simp [validFor]⟩
    · exact ⟨_, _, rfl, dispatch_valid t a⟩

/-- Failures are reported with STATUS: unknown command numbers, commands without a branch, and any exception
    raised while a request is processed. -/
theorem failures_answer_with_status (t id : Nat) (a : Abs) (h : t ∉ handled ∨ a.raises = true) :
    ∃ code, serve t id a = [(cmdStatus, id, code)] := by
  unfold serve
  split
  · exact ⟨_, rfl⟩
  · split
    · exact ⟨_, rfl⟩
    · rename_i hn hr
      rcases h with h | h
      · refine ⟨.fixed sftpOpUnsupported, ?_⟩
        have : dispatch t a = status sftpOpUnsupported := dispatch_unhandled t a h
        rw [this]; rfl
      · exact absurd h hr

/-- Every packet type that a responder call in a branch of the *source* of `_process` (or of a helper it calls)
    can emit is valid for that branch's command (table regenerated from the AST on every run). -/
theorem source_branches_emit_valid_types :
    ∀ p ∈ branchTypes, ∀ ty ∈ p.2, validFor p.1 ty = true := by decide +kernel

/-- **Exactly one send on every control-flow path of the source**: for every branch of `_process`, the final else
    and every helper a branch may call, each path through the statements (loops taken zero times or once, `break`
    and for-else honoured, early `return`s) calls a responder exactly once (table regenerated from the AST on every
    run).  Exceptions are the dispatcher model's `raises` case. -/
theorem source_paths_send_exactly_once :
    (∀ p ∈ branchSendCounts, p.2 = [1]) ∧ elseSendCounts = [1] ∧ (∀ h ∈ helperSendCounts, h = [1]) ∧
    branchSendCounts.map (·.1) = handled := by decide +kernel

/-- **Exactly one send on every exception path of the source**: when any statement of a branch of `_process` (or of
    a helper it calls) raises, the responder calls already made on that path, those of every enclosing `finally`
    block, and the catch-all `_send_status(request_number, SFTP_FAILURE)` in `start_subsystem` add up to exactly one
    — nothing is sent before a statement that can still raise, and no `finally` block answers on its own.  This is
    what the dispatcher model's `raises` case (a single STATUS FAILURE) stands on. -/
theorem source_exception_paths_send_exactly_once :
    ∀ p ∈ branchExcSendCounts, p.2 = [1] ∨ p.2 = [] := by decide +kernel

/-- **The READDIR answer is well-formed by construction**: in `_read_folder` the entry count written into the NAME
    packet and the entries that follow come from the same list — one (filename, longname, attributes) triple per
    element, with nothing in the loop that could drop or add an entry (read from the AST every run).  An entry that
    cannot be encoded therefore raises before anything is sent and is answered by the catch-all (model: `raises`). -/
theorem source_readdir_count_matches_entries : readdirCountMatchesEntries = true := by decide

/-- **The request id comes back as it went out, for every 32-bit value**: no response builder of the source uses
    `Message.add()` / `add_adaptive_int()` — which encode an integer ≥ 0xff000000 as `ff` + mpint — so the id (and
    every count and status code) is a plain 4-byte field (read from the AST every run).  The dispatcher model's
    "same id" (`one_response_same_id_valid_type`, all `id : Nat`) stands on this for ids near 2^32. -/
theorem source_responses_use_fixed_width_fields : responsesUseFixedWidthFields = true := by decide

theorem source_else_branch_emits_status : ∀ ty ∈ elseTypes, ty = cmdStatus := by decide +kernel

/-- The hand-written dispatcher only emits, for each command, a packet type that the source's branch for that
    command contains (model ⊆ AST table), for every abstract input. -/
theorem model_within_source_table (c : Nat) (hc : c ∈ handled) (a : Abs) :
    (branchTypes.lookup c).any (fun ts => ts.contains (dispatch c a).1) = true := by
  have table : ∀ c ∈ handled, ∀ hk ∈ allHk, ∀ ok ∈ allBool, ∀ rs ∈ allBool, ∀ ext ∈ allExt, ∀ em ∈ allBool,
      ∀ cf ∈ allCf, (branchTypes.lookup c).any (fun ts => ts.contains (dispatch c ⟨hk, ok, rs, ext, em, cf⟩).1) = true := by
    decide +kernel
  obtain ⟨hk, ok, rs, ext, em, cf⟩ := a
  exact table c hc hk (mem_allHk hk) ok (mem_allBool ok) rs (mem_allBool rs) ext (mem_allExt ext)
    em (mem_allBool em) cf (mem_allCf cf)

/-- **The client never waits for ever** when its server answers every request: any program interleaving pipelined
    writes, plain writes, other requests (stat/listdir/…), set_pipelined and closes on any number of files, the
    server answering at any time. -/
theorem client_never_waits_forever (maxReq nfiles : Nat) (wfaults sfaults : List Nat) (ops : List SftpClient.Op)
    (hops : ∀ op ∈ ops, SftpClient.OpOK nfiles op) :
    ∀ r ∈ (SftpClient.runOps (SftpClient.init maxReq nfiles wfaults sfaults) ops).2, r ≠ .hang := by
  have hlen0 : (SftpClient.init maxReq nfiles wfaults sfaults).files.length = nfiles := by simp [SftpClient.init]
  exact (SftpClient.runOps_good ops _ (SftpClient.init_good maxReq nfiles wfaults sfaults)
    (by rw [hlen0]; exact hops)).1

/-- **Every answer for an outstanding request completes exactly that request, in whatever order answers arrive**:
    the model's `asyncResponse` removes the answered number from the file's `_reqs` wherever it stands, and
    `client_never_waits_forever` quantifies over programs in which answered requests overtake each other
    (`Op.deliver k`).  That the code does the same — `if num in self._reqs: self._reqs.remove(num)`, membership in
    the whole collection, not a comparison with the oldest entry — is read from the AST of
    `SFTPFile._async_response` on every run. -/
theorem source_write_status_matched_by_id : writeStatusMatchedById = true := by decide

/-! ## listdir_iter: read-ahead rounds -/

/-- the rounds model instantiated with what the AST of `SFTPClient.listdir_iter` says about the batch list -/
def listdirCfg (readAheads perReply : Nat) : ListdirIter.Cfg := ⟨readAheads, perReply, listdirIterResetsBatch⟩

/-- **listdir_iter ends and yields every entry exactly once**: for every `read_aheads` ≥ 1, every batch size of the
    server's answers ≥ 1 and every directory size, each round awaits exactly the answers to the requests it sent
    (the pending set is empty again after the round), so the iteration never waits for an answer that is not coming,
    and it stops at the EOF status having yielded all `entries` entries and nothing else.  Depends on the source fact
    that the list of awaited ids is re-initialised inside the round loop (read from the AST every run). -/
theorem listdir_iter_complete (readAheads perReply entries fuel : Nat) (hk : 0 < readAheads) (hp : 0 < perReply)
    (hf : entries < fuel) :
    ListdirIter.listdirIter (listdirCfg readAheads perReply) entries fuel = .done entries := by
  have hsrc : listdirIterResetsBatch = true := by decide
  have := ListdirIter.run_complete (listdirCfg readAheads perReply) hsrc hk hp fuel entries 0 0 hf
  simpa [ListdirIter.listdirIter] using this

/-- why the source fact matters: without the reset (40 entries, `read_aheads` = 2, 16 per answer) the second round
    awaits four answers for two requests: the iteration hangs (having yielded only what it read so far). -/
theorem listdir_iter_without_reset_hangs_witness :
    ListdirIter.listdirIter ⟨2, 16, false⟩ 40 100 = .hang 40 := by decide

/-! ## the client's lock under channel back-pressure -/

/-- the lock/back-pressure model instantiated with what the AST of `SFTPClient._async_request` says about where the
    packet is sent (`sendUnderLock` is false iff `_send_packet` is called outside the `self._lock` region) -/
def srcCfg (capReq ta capAns tb : Nat) : ClientLock.Cfg := ⟨capReq, ta, capAns, tb, sendUnderLock⟩

/-- **No deadlock under back-pressure.**  A background sender (prefetch thread), the reader and the server over a
    flow-controlled channel: for all window sizes and adjustment thresholds (threshold ≤ window, as in paramiko),
    any number of requests and any schedule — as long as not everything has been sent, answered and collected, some
    party can move: the sender never blocks in `send()` while it holds `_lock`, so the reader can always take the
    lock for the packet it has read, which re-opens the windows.  Depends on the source fact "the packet is sent
    outside the lock region" (regenerated from the AST every run). -/
theorem client_never_blocks_under_backpressure (capReq ta capAns tb n : Nat)
    (hc : ClientLock.CfgOK (srcCfg capReq ta capAns tb)) (acts : List ClientLock.Act)
    (hnd : ¬ ClientLock.Done (ClientLock.run (srcCfg capReq ta capAns tb) (ClientLock.init (srcCfg capReq ta capAns tb) n) acts)) :
    ∃ a, (ClientLock.step (srcCfg capReq ta capAns tb)
      (ClientLock.run (srcCfg capReq ta capAns tb) (ClientLock.init (srcCfg capReq ta capAns tb) n) acts) a).isSome = true := by
  have hsrc : sendUnderLock = false := by decide
  have hns : (srcCfg capReq ta capAns tb).sendUnderLock = false := hsrc
  exact ClientLock.not_done_enabled hc hns (ClientLock.run_wf hns (ClientLock.init_wf hc n) acts) hnd

/-- …and every step uses up work (8 per request not yet issued, 5 per request queued at the server, 4 for the answer
    the server holds, 3 per queued answer, 1–2 for lock phases): the session finishes within `mu` steps. -/
theorem backpressure_steps_decrease_work (capReq ta capAns tb n : Nat)
    (hc : ClientLock.CfgOK (srcCfg capReq ta capAns tb)) (acts : List ClientLock.Act) (a : ClientLock.Act) (s' : ClientLock.St)
    (h : ClientLock.step (srcCfg capReq ta capAns tb)
      (ClientLock.run (srcCfg capReq ta capAns tb) (ClientLock.init (srcCfg capReq ta capAns tb) n) acts) a = some s') :
    ClientLock.mu s' < ClientLock.mu
      (ClientLock.run (srcCfg capReq ta capAns tb) (ClientLock.init (srcCfg capReq ta capAns tb) n) acts) := by
  have hsrc : sendUnderLock = false := by decide
  have hns : (srcCfg capReq ta capAns tb).sendUnderLock = false := hsrc
  exact ClientLock.step_decreases hns (ClientLock.run_wf hns (ClientLock.init_wf hc n) acts) h

/-- why the source fact matters: with the packet sent while the lock is held (windows 3 and 2 packets, thresholds 2,
    8 requests) this schedule ends in a state where nothing is done and nobody can move — the sender sits in
    `send()` holding the lock, the server cannot deliver its answer, the reader has a packet and waits for the lock. -/
theorem send_under_lock_deadlocks_witness :
    let cfg : ClientLock.Cfg := ⟨3, 2, 2, 2, true⟩
    let s := ClientLock.run cfg (ClientLock.init cfg 8)
      [.sAcquire, .sSend, .sAcquire, .sSend, .sAcquire, .sSend, .sAcquire, .srvTake, .srvSend, .srvTake, .sSend,
       .sAcquire, .sSend, .sAcquire, .srvSend, .srvTake, .rRecv]
    ClientLock.stuck cfg s = true ∧ s.remaining = 3 ∧ s.lock = some .sender ∧ s.rpc = .needLock := by decide

/-- non-vacuity: the same schedule with the send outside the lock is not stuck -/
example :
    let cfg : ClientLock.Cfg := ⟨3, 2, 2, 2, false⟩
    ClientLock.stuck cfg (ClientLock.run cfg (ClientLock.init cfg 8)
      [.sAcquire, .sRelease, .sSend, .sAcquire, .sRelease, .sSend, .sAcquire, .sRelease, .sSend, .sAcquire, .srvTake,
       .srvSend, .srvTake, .rRecv]) = false := by decide

/-- non-vacuity: FSETSTAT on an unknown handle (answered with packet type 5 before the fix) -/
example : serve cmdFsetstat 7 ⟨.none, true, false, .other, false, .ok⟩ = [(cmdStatus, 7, .fixed sftpBadMessage)] := by
  decide

example : serve 77 9 ⟨.none, true, false, .other, false, .ok⟩ = [(cmdStatus, 9, .fixed sftpFailure)] := by decide

end PV.Props.C30
