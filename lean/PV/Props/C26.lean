/-
  C26 — Channel receive buffers are lossless FIFOs with correct close and timeout rules.
  Property theorems only (helpers: PV/Model/BufferedPipeLemmas.lean).  Model: PV/Model/BufferedPipe.lean.

  A *schedule* is any `List Act` (feed / read-entry / wake-up of a waiting reader / empty / close / set_event, by any
  number of threads, in any order, of any length): the theorems below are stated for every schedule.
-/
import PV.Model.BufferedPipeLemmas
namespace PV.Props.C26
open PV PV.BufferedPipe

/-! ## lossless FIFO -/

/-- **FIFO.** After every schedule: everything handed out by `read`/`empty` (in the order it was handed out)
followed by what is still buffered is exactly everything that was fed, in order. -/
theorem fifo (acts : List Act) :
    takenOf (run init acts).log ++ (run init acts).buf = fedOfActs acts := by
  have := run_taken true init acts
  simpa [run, runG, init, takenOf, step] using this

/-- the ghost log records the feeds of the schedule faithfully (so `fifo` is not about a doctored log) -/
theorem log_records_feeds (acts : List Act) : fedOf (run init acts).log = fedOfActs acts := by
  have := run_fed true init acts
  simpa [run, runG, init, fedOf, step] using this

/-- the same equation from any state reached earlier: nothing is lost or duplicated by a continuation -/
theorem fifo_from (s : St) (acts : List Act) :
    takenOf (run s acts).log ++ (run s acts).buf = takenOf s.log ++ s.buf ++ fedOfActs acts :=
  run_taken true s acts

/-! ## what a single step hands out -/

private theorem newEvents_snoc (s : St) (s' : St) (e : List Ev) (h : s'.log = s.log ++ e) :
    newEvents s s' = e := by
  simp [newEvents, h]

private theorem newEvents_self (s : St) : newEvents s s = [] := by simp [newEvents]

private theorem deliver_new (s : St) (tid n : Nat) :
    (deliver s tid n).log = s.log ++ [.got tid (.data (s.buf.take n))] := by
  unfold deliver
  split
  · rename_i h; simp [List.take_of_length_le h]
  · simp

private theorem take_eq_nil {n : Nat} {b : Bytes} (hn : 1 ≤ n) (h : b.take n = []) : b = [] := by
  cases b with
  | nil => rfl
  | cons x xs =>
    cases n with
    | zero => omega
    | succ k => simp at h

private theorem wakeWith_log (s : St) (w : Waiter) (e : Int) :
    (wakeWith true s w e).log = s.log ∨
    ((wakeWith true s w e).log = s.log ++ [.got w.tid .timeout] ∧ s.buf = [] ∧ s.closed = false ∧
        (wakeWith true s w e).buf = []) ∨
    ((wakeWith true s w e).log = s.log ++ [.got w.tid (.data (s.buf.take w.n))] ∧
        (s.buf ≠ [] ∨ s.closed = true)) := by
  unfold wakeWith
  simp only []
  split
  · split
    · rename_i h
      right; right
      refine ⟨by rw [deliver_new]; simp, ?_⟩
      simp at h
      rcases h with h | h
      · left; exact h
      · right; exact h
    · rename_i h
      right; left
      simp at h
      exact ⟨by simp [raiseTimeout], h.1, h.2, by simp [raiseTimeout, h.1]⟩
  · split
    · left; simp
    · rename_i h
      right; right
      refine ⟨by rw [deliver_new]; simp, ?_⟩
      simp at h
      by_cases hb : s.buf = []
      · right; exact h hb
      · left; exact hb

/-- A `read` (entry region or wake-up) that hands out the empty string does so only when the pipe is closed and
drained.  Stated for an arbitrary state `s` whose parked readers asked for ≥ 1 byte — in particular for every
state reachable by a schedule of reads with sizes ≥ 1 (`read_empty_only_closed_drained`). -/
theorem read_empty_step (s : St) (a : Act) (tid : Nat) (hs : WaitersOk s) (ha : a.sizeOk)
    (h : Ev.got tid (.data []) ∈ newEvents s (step s a)) : s.closed = true ∧ s.buf = [] := by
  cases a with
  | feed d => simp [step, stepG, newEvents] at h
  | read t n to =>
    simp only [Act.sizeOk] at ha
    simp only [step, stepG] at h
    split at h
    · simp [newEvents_self] at h
    · split at h
      · rename_i hb
        split at h
        · rename_i hc
          exact ⟨hc, by simpa using hb⟩
        · split at h
          · simp [newEvents, raiseTimeout] at h
          · simp [newEvents] at h
      · rename_i hb
        rw [newEvents_snoc s _ _ (deliver_new s t n)] at h
        simp only [List.mem_singleton, Ev.got.injEq, Res.data.injEq] at h
        have := take_eq_nil ha h.2.symm
        simp [this] at hb
  | wake t e =>
    simp only [step, stepG] at h
    split at h
    · simp [newEvents_self] at h
    · rename_i w hf
      have hw : 1 ≤ w.n := hs w (findWaiter_mem s t w hf)
      rcases wakeWith_log s w e with h1 | ⟨h1, _⟩ | ⟨h1, h2⟩
      · have : newEvents s (wakeWith true s w e) = [] := by simp [newEvents, h1]
        simp [this] at h
      · rw [newEvents_snoc s _ _ h1] at h; simp at h
      · rw [newEvents_snoc s _ _ h1] at h
        simp only [List.mem_singleton, Ev.got.injEq, Res.data.injEq] at h
        have hb := take_eq_nil hw h.2.symm
        rcases h2 with h2 | h2
        · exact absurd hb h2
        · exact ⟨h2, hb⟩
  | empty t =>
    simp only [step, stepG] at h
    split at h
    · simp [newEvents_self] at h
    · simp [newEvents] at h
  | close => simp [step, stepG, newEvents] at h
  | setEvent => simp [step, stepG, newEvents] at h

/-- **Empty result ⇒ closed and drained**, for every schedule prefix `pre` and every next action `a`. -/
theorem read_empty_only_closed_drained (pre : List Act) (a : Act) (tid : Nat)
    (hok : ∀ x ∈ pre ++ [a], x.sizeOk)
    (h : Ev.got tid (.data []) ∈ newEvents (run init pre) (step (run init pre) a)) :
    (run init pre).closed = true ∧ (run init pre).buf = [] := by
  have hw : WaitersOk (run init pre) :=
    waitersOk_run true init pre (by intro w hw; simp [init] at hw) (fun x hx => hok x (by simp [hx]))
  exact read_empty_step _ a tid hw (hok a (by simp)) h

/-- conversely, once closed and drained every `read` returns the empty string at once (any size, any timeout) -/
theorem closed_drained_read_returns_empty (s : St) (tid n : Nat) (t : Option Int)
    (hc : s.closed = true) (hb : s.buf = []) (hw : isWaiting s tid = false) :
    newEvents s (step s (.read tid n t)) = [.got tid (.data [])] ∧ (step s (.read tid n t)).buf = [] := by
  simp [step, stepG, hw, hb, hc, newEvents]

/-- a parked reader is released with the empty string by `close` + wake-up (no timeout needed) -/
theorem closed_drained_wake_returns_empty (s : St) (w : Waiter) (e : Int)
    (hf : findWaiter s w.tid = some w) (hc : s.closed = true) (hb : s.buf = []) (hn : ¬ isExpired (w.timeout.map (· - e)) = true) :
    newEvents s (step s (.wake w.tid e)) = [.got w.tid (.data [])] := by
  simp only [step, stepG, hf]
  apply newEvents_snoc
  unfold wakeWith
  simp [hn, hb, hc, deliver_new]

/-! ## timeouts -/

/-- **A timeout is raised only if no data was available, and it leaves the buffer untouched** (which is empty:
nothing that was fed before the raise is lost — see `fifo`).  Any state, any action. -/
theorem timeout_only_without_data (s : St) (a : Act) (tid : Nat)
    (h : Ev.got tid .timeout ∈ newEvents s (step s a)) :
    s.buf = [] ∧ s.closed = false ∧ (step s a).buf = s.buf := by
  cases a with
  | feed d => simp [step, stepG, newEvents] at h
  | read t n to =>
    simp only [step, stepG] at h ⊢
    split at h
    · simp [newEvents_self] at h
    · split at h
      · rename_i hw hb
        split at h
        · simp [newEvents] at h
        · rename_i hc
          split at h
          · rename_i ht
            simp at hb hc
            simp [hw, hb, hc, ht, raiseTimeout]
          · simp [newEvents] at h
      · rw [newEvents_snoc s _ _ (deliver_new s t n)] at h
        simp at h
  | wake t e =>
    simp only [step, stepG] at h ⊢
    split at h
    · simp [newEvents_self] at h
    · rename_i w hf
      rcases wakeWith_log s w e with h1 | ⟨h1, h2, h3, h4⟩ | ⟨h1, _⟩
      · have : newEvents s (wakeWith true s w e) = [] := by simp [newEvents, h1]
        simp [this] at h
      · exact ⟨h2, h3, by rw [h4, h2]⟩
      · rw [newEvents_snoc s _ _ h1] at h; simp at h
  | empty t =>
    simp only [step, stepG] at h
    split at h
    · simp [newEvents_self] at h
    · simp [newEvents] at h
  | close => simp [step, stepG, newEvents] at h
  | setEvent => simp [step, stepG, newEvents] at h

/-- **Deadline clause.**  A parked reader whose wait ends while data is buffered gets that data — also when the
wake-up comes at or after its deadline (`elapsed ≥ remaining`).  This is the clause that was false before
`fix: BufferedPipe.read …` (see `deadline_witness_before_fix`). -/
theorem wake_with_data_delivers (s : St) (w : Waiter) (e : Int)
    (hf : findWaiter s w.tid = some w) (hb : s.buf ≠ []) :
    newEvents s (step s (.wake w.tid e)) = [.got w.tid (.data (s.buf.take w.n))] := by
  simp only [step, stepG, hf]
  have hne : s.buf.isEmpty = false := by simpa using hb
  apply newEvents_snoc
  unfold wakeWith
  simp only [hne]
  split <;> simp [deliver_new]

/-- the code before the fix: reader 1 waits with 5 ticks left, `feed(b"A")` arrives, the wait returns with
`elapsed = 5 ≥ remaining`: PipeTimeout is raised although `A` is buffered. -/
theorem deadline_witness_before_fix :
    let s := runG false init [.read 1 10 (some 5), .feed [65], .wake 1 5]
    s.log = [.fed [65], .got 1 .timeout] ∧ s.buf = [65] := by decide

/-- the same schedule on the current code -/
theorem deadline_witness_after_fix :
    (run init [.read 1 10 (some 5), .feed [65], .wake 1 5]).log = [.fed [65], .got 1 (.data [65])] := by decide

/-! ## empty() -/

/-- `empty()` returns the whole buffer and leaves it empty -/
theorem empty_returns_everything (s : St) (tid : Nat) (hw : isWaiting s tid = false) :
    newEvents s (step s (.empty tid)) = [.emptied tid s.buf] ∧ (step s (.empty tid)).buf = [] := by
  simp [step, stepG, hw, newEvents]

/-! ## the attached event (what `Channel.fileno()` hangs the descriptor on) -/

/-- **Event tracks the buffer.**  Once an event is attached (`set_event`, as `fileno()` does), at every lock-free
point of every schedule: `event.is_set()` ⇔ the pipe is closed or holds data.  (True since `feed` leaves the event
alone for empty data; before that fix an empty feed broke it — C24's `empty_feed_witness`.) -/
theorem event_tracks_buffer (acts : List Act) (b : Bool) (h : (run init acts).event = some b) :
    b = ((run init acts).closed || !(run init acts).buf.isEmpty) :=
  evOk_run init acts (by intro b hb; simp [init] at hb) b h

/-- the same from the moment of attachment on, whatever happened before -/
theorem event_tracks_buffer_after_set_event (s : St) (acts : List Act) (b : Bool)
    (h : (run (step s .setEvent) acts).event = some b) :
    b = ((run (step s .setEvent) acts).closed || !(run (step s .setEvent) acts).buf.isEmpty) :=
  evOk_run _ acts (by intro b hb; simp [step, stepG] at hb; subst hb; simp [step, stepG]) b h

-- an event is really attached and really toggles: set by data, cleared by the draining read, set for good by close
example :
    ((run init [.setEvent, .feed [1, 2]]).event, (run init [.setEvent, .feed [1, 2], .read 1 5 none]).event,
      (run init [.setEvent, .feed [], .close, .read 1 5 none]).event) = (some true, some false, some true) := by decide

/-! ## non-vacuity -/

-- three threads: reader 1 parks, reader 2 parks with a deadline, feed, partial read by 2, the rest by `empty`, close,
-- reader 1 released with the empty string
example :
    let s := run init [.read 1 4 none, .read 2 2 (some 7), .feed [1, 2, 3], .wake 2 3, .empty 3, .close, .wake 1 0]
    s.log = [.fed [1, 2, 3], .got 2 (.data [1, 2]), .emptied 3 [3], .closedEv, .got 1 (.data [])] ∧
      takenOf s.log = [1, 2, 3] ∧ s.buf = [] := by decide

example : WaitersOk (run init [.read 1 4 none, .read 2 2 (some 7)]) := by
  intro w hw
  simp [run, step, stepG, init, isWaiting] at hw
  rcases hw with h | h <;> subst h <;> decide

-- a timeout that really occurs (nonblocking read on an empty open pipe), and an expiry with nothing buffered
example : (run init [.read 1 4 (some 0)]).log = [.got 1 .timeout] := by decide
example : (run init [.read 1 4 (some 5), .wake 1 9]).log = [.got 1 .timeout] := by decide

end PV.Props.C26
