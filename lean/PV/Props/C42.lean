/-
  C42 — Buffered file wrappers preserve stream content and line structure.
  Property theorems only (helpers: PV/Model/BufFileLemmas.lean).  Model: PV/Model/BufFile.lean —
  paramiko/file.py `BufferedFile` over `chanOps`, a stream that answers every `_read` with an
  ARBITRARY non-empty short chunk and accepts an ARBITRARY non-empty prefix on every `_write`
  (the grant lists `rg`/`wg` are universally quantified: "however the stream delivers its bytes").
  Binary and text mode (text mode only decodes the returned line); universal newlines ('U') excluded.

  `pending f` = read-ahead buffer ++ bytes the stream has not delivered yet = what the caller has
  still to receive.  `f.s.out` = bytes the stream has accepted.
-/
import PV.Model.BufFileLemmas
import PV.Model.BufFileULemmas
import PV.Model.ChanFile
import PV.Model.ChanX
namespace PV.Props.C42
open PV PV.BufFile

/-- State invariant: `_set_mode` establishes it, every operation keeps it. -/
def Good (f : BF Chan) : Prop := WF f ∧ WInv f

/-! ## single calls: the result does not depend on the chunking -/

/-- `read(n)` returns exactly the next `n` bytes of the stream (fewer only at EOF), whatever the chunking. -/
theorem read_n_exact (f : BF Chan) (n : Nat) (hc : f.closed = false) (hr : f.rd = true) :
    (read chanOps f (some n)).2 = .ok ((pending f).take n) ∧
    pending (read chanOps f (some n)).1 = (pending f).drop n :=
  ⟨(read_some_chan f n hc hr).1, (read_some_chan f n hc hr).2.1⟩

/-- `read()` returns everything up to EOF and leaves nothing behind. -/
theorem read_all_exact (f : BF Chan) (hg : Good f) (hc : f.closed = false) (hr : f.rd = true) :
    (read chanOps f none).2 = .ok (pending f) ∧ pending (read chanOps f none).1 = [] :=
  ⟨(read_none_chan f hg.1.1 hc hr).1, (read_none_chan f hg.1.1 hc hr).2.1⟩

/-- `readline(size)` returns the first line of what is pending, cut at `size`; the rest stays pending. -/
theorem readline_exact (f : BF Chan) (size : Option Nat) (hg : Good f) (hc : f.closed = false) (hr : f.rd = true) :
    (readline chanOps f size).2 = .ok (specLine size (pending f)) ∧
    pending (readline chanOps f size).1 = (pending f).drop (specLine size (pending f)).length :=
  ⟨(readline_chan f size hg.1.2 hc hr).1, (readline_chan f size hg.1.2 hc hr).2.1⟩

/-- Shape of a line: it ends at its only LF, or it has no LF and then it was cut by the size limit
    or the stream is exhausted. -/
theorem readline_ends_at_newline_or_limit_or_eof (f : BF Chan) (size : Option Nat) (l : Bytes)
    (hg : Good f) (hc : f.closed = false) (hr : f.rd = true)
    (h : (readline chanOps f size).2 = .ok l) :
    (∀ sz, size = some sz → l.length ≤ sz) ∧
    ((∃ body, l = body ++ [LF] ∧ body.contains LF = false) ∨
     (l.contains LF = false ∧ (size = some l.length ∨ pending (readline chanOps f size).1 = []))) := by
  obtain ⟨h1, h2⟩ := readline_exact f size hg hc hr
  rw [h1] at h
  injection h with h
  subst h
  refine ⟨?_, ?_⟩
  · intro sz hs; subst hs
    simp only [specLine]
    exact Nat.le_trans (lineOf_length_le _) (by simp [List.length_take]; omega)
  · cases size with
    | none =>
      simp only [specLine] at h2 ⊢
      rcases lineOf_shape (pending f) with ⟨body, hb, hn⟩ | ⟨he, hn⟩
      · exact Or.inl ⟨body, hb, hn⟩
      · refine Or.inr ⟨by rw [he]; exact hn, Or.inr ?_⟩
        rw [h2, he]; simp
    | some sz =>
      simp only [specLine] at h2 ⊢
      rcases lineOf_shape ((pending f).take sz) with ⟨body, hb, hn⟩ | ⟨he, hn⟩
      · exact Or.inl ⟨body, hb, hn⟩
      · refine Or.inr ⟨by rw [he]; exact hn, ?_⟩
        rw [h2, he, List.length_take]
        by_cases hle : sz ≤ (pending f).length
        · left; rw [Nat.min_eq_left hle]
        · right; rw [List.drop_of_length_le (by omega)]

/-- `list(f)` / a `for` loop: exactly the successive lines of the stream, nothing left. -/
theorem iteration_exact (f : BF Chan) (hg : Good f) (hc : f.closed = false) (hr : f.rd = true) :
    ∃ ls, (iterAll chanOps f).2 = .ok ls ∧ LinesOf (pending f) ls [] ∧ ls.flatten = pending f ∧
      pending (iterAll chanOps f).1 = [] := by
  unfold iterAll
  rw [if_neg (by simp [hc])]
  obtain ⟨new, g1, g2, g3, _⟩ := iterLoop_chan (f.rbuf.length + chanOps.bound f.s f.realpos + 1) f []
    hg.1.2 hc hr (by simp [pending])
  exact ⟨new, by simpa using g1, g2, by simpa using g2.flatten_append, g3⟩

/-- A successful `write` under any buffering mode: accepted-or-buffered bytes grow by exactly `data`,
    in order; nothing is held back when unbuffered; nothing up to the last LF is held back when line
    buffered; less than `bufsize` is held back when sized. -/
theorem write_law (f : BF Chan) (data : Bytes) (hg : Good f) (hc : f.closed = false) (hw : f.wr = true) :
    (write chanOps f data).2 = .ok () ∧
    (write chanOps f data).1.s.out ++ (write chanOps f data).1.wbuf = f.s.out ++ f.wbuf ++ data ∧
    WInv (write chanOps f data).1 := by
  obtain ⟨h1, h2, _, _, _, h6⟩ := write_chan f data hg.1.2 hc hw hg.2
  exact ⟨h1, h2, h6⟩

/-- `flush()` pushes the whole write buffer to the stream, whatever partial writes the stream makes. -/
theorem flush_delivers (f : BF Chan) :
    (flush chanOps f).2 = .ok () ∧ (flush chanOps f).1.s.out = f.s.out ++ f.wbuf ∧ (flush chanOps f).1.wbuf = [] :=
  ⟨(flush_chan f).1, (flush_chan f).2.1, (flush_chan f).2.2.1⟩

theorem close_delivers (f : BF Chan) :
    (close chanOps f).2 = .ok () ∧ (close chanOps f).1.s.out = f.s.out ++ f.wbuf ∧ (close chanOps f).1.wbuf = [] ∧
    (close chanOps f).1.closed = true :=
  ⟨(close_chan f).1, (close_chan f).2.1, (close_chan f).2.2.1, (close_chan f).2.2.2.2.2⟩

/-! ## `_set_mode` establishes the invariant -/

private theorem setFlags_same (f : BF Chan) (mode : List Char) (sz : Int) :
    (setFlags f mode sz).wbuf = f.wbuf ∧ (setFlags f mode sz).dflt = f.dflt ∧
    (setFlags f mode sz).bufsize = f.bufsize ∧ (setFlags f mode sz).buffered = f.buffered ∧
    (setFlags f mode sz).lineBuf = f.lineBuf := by
  unfold setFlags
  simp only
  (repeat' split) <;> exact ⟨rfl, rfl, rfl, rfl, rfl⟩

theorem setMode_good (f0 : BF Chan) (mode : List Char) (bufsize sz : Int) (hd : 1 ≤ f0.dflt) (hw : f0.wbuf = []) :
    Good (setMode f0 mode bufsize sz) ∧
    ((setMode f0 mode bufsize sz).buffered = false ↔ bufsize ≤ 0) ∧
    ((setMode f0 mode bufsize sz).lineBuf = true ↔ bufsize = 1) := by
  obtain ⟨e1, e2, e3, e4, e5⟩ := setFlags_same (setBuf f0 bufsize) mode sz
  have hb : (setBuf f0 bufsize).wbuf = [] ∧ (setBuf f0 bufsize).dflt = f0.dflt ∧
      1 ≤ (setBuf f0 bufsize).bufsize ∧
      ((setBuf f0 bufsize).buffered = false ↔ bufsize ≤ 0) ∧
      ((setBuf f0 bufsize).lineBuf = true ↔ bufsize = 1) := by
    unfold setBuf
    simp only
    by_cases h0 : bufsize < 0
    · have h1 : ¬ ((0 : Int) == 1) = true := by decide
      simp only [h0, if_true, h1, if_false, show ¬ ((0 : Int) > 1) by decide]
      exact ⟨hw, by triv, hd, by simp; omega, by simp; omega⟩
    · simp only [h0, if_false]
      by_cases h1 : bufsize = 1
      · subst h1
        simp only [show ((1 : Int) == 1) = true by decide, if_true]
        exact ⟨hw, by triv, hd, by simp, by simp⟩
      · have h1' : ¬ (bufsize == 1) = true := by simpa using h1
        simp only [h1', if_false]
        by_cases h2 : bufsize > 1
        · simp only [h2, if_true]
          exact ⟨hw, by triv, by simp; omega, by simp; omega, by simp; omega⟩
        · simp only [h2, if_false]
          exact ⟨hw, by triv, hd, by simp; omega, by simp; omega⟩
  obtain ⟨b1, b2, b3, b4, b5⟩ := hb
  unfold setMode
  refine ⟨⟨⟨by rw [e2, b2]; exact hd, by rw [e3]; exact b3⟩, ?_⟩, by rw [e4]; exact b4, by rw [e5]; exact b5⟩
  unfold WInv
  rw [e1, b1]
  exact ⟨fun _ => rfl, fun _ _ => rfl, fun _ _ => by rw [e3]; exact b3⟩

/-! ## whole programs -/

/-- bytes the caller handed over in an operation that returned normally -/
def sentBy : Op → Out → Bytes
  | .write d, .unit => d
  | .writelines ds, .unit => ds.flatten
  | _, _ => []

/-- a step never fails because of the stream or the loop bounds -/
def Benign : Out → Prop
  | .err .closed => True
  | .err .notReadable => True
  | .err .notWritable => True
  | .err _ => False
  | _ => True

private theorem winv_of_same {f f' : BF Chan} (h1 : wside f' = wside f) (h2 : cfg f' = cfg f) (h : WInv f) :
    WInv f' := by
  simp only [wside, Prod.mk.injEq] at h1
  simp only [cfg, Cfg.mk.injEq] at h2
  obtain ⟨_, _, hw⟩ := h1
  obtain ⟨_, _, _, hb, hl, hs, _⟩ := h2
  unfold WInv at *
  rw [hw, hb, hl, hs]; exact h

private theorem wf_of_cfg {f f' : BF Chan} (h2 : cfg f' = cfg f) (h : WF f) : WF f' := by
  simp only [cfg, Cfg.mk.injEq] at h2
  obtain ⟨_, _, _, _, _, hs, hd⟩ := h2
  unfold WF at *
  rw [hs, hd]; exact h

private theorem pending_of_rside {f f' : BF Chan} (h : rside f' = rside f) : pending f' = pending f := by
  simp only [rside, Prod.mk.injEq] at h
  simp only [pending, h.1, h.2.1]

private theorem out_of_wside {f f' : BF Chan} (h : wside f' = wside f) :
    f'.s.out ++ f'.wbuf = f.s.out ++ f.wbuf := by
  simp only [wside, Prod.mk.injEq] at h
  rw [h.1, h.2.2]

/-- what one step guarantees -/
def StepLaw (f : BF Chan) (op : Op) (r : BF Chan × Out) : Prop :=
  Good r.1 ∧ cfg r.1 = cfg f ∧ Benign r.2 ∧
  r.2.got ++ pending r.1 = pending f ∧
  r.1.s.out ++ r.1.wbuf = f.s.out ++ f.wbuf ++ sentBy op r.2 ∧
  (f.closed = true → r.1.closed = true)

private theorem readlike {f f1 : BF Chan} {op : Op} {o : Out} (hg : Good f)
    (h3 : wside f1 = wside f) (h4 : cfg f1 = cfg f) (h5 : f1.closed = f.closed)
    (hb : Benign o) (hgot : o.got ++ pending f1 = pending f) (hs : sentBy op o = []) :
    StepLaw f op (f1, o) :=
  ⟨⟨wf_of_cfg h4 hg.1, winv_of_same h3 h4 hg.2⟩, h4, hb, hgot, by rw [hs, out_of_wside h3]; simp,
    fun h => by rw [h5]; exact h⟩

private theorem unchanged {f : BF Chan} {op : Op} {e : Err} (hg : Good f) (hb : Benign (.err e)) :
    StepLaw f op (f, .err e) :=
  ⟨hg, rfl, hb, by simp [Out.got], by cases op <;> simp [sentBy], fun h => h⟩

private theorem err_kind_read (f : BF Chan) (size : Option Nat) (e : Err)
    (h : (BufFile.read chanOps f size).2 = .error e) (hx : f.closed = true ∨ f.rd = false) : Benign (.err e) := by
  unfold BufFile.read at h
  rcases hx with hx | hx
  · simp [hx] at h; subst h; trivial
  · by_cases hc : f.closed = true <;> simp [hx, hc] at h <;> subst h <;> trivial

private theorem err_kind_readline (f : BF Chan) (size : Option Nat) (e : Err)
    (h : (readline chanOps f size).2 = .error e) (hx : f.closed = true ∨ f.rd = false) : Benign (.err e) := by
  unfold readline at h
  rcases hx with hx | hx
  · simp [hx] at h; subst h; trivial
  · by_cases hc : f.closed = true <;> simp [hx, hc] at h <;> subst h <;> trivial

private theorem err_kind_write (f : BF Chan) (d : Bytes) (e : Err)
    (h : (write chanOps f d).2 = .error e) (hx : f.closed = true ∨ f.wr = false) : Benign (.err e) := by
  unfold write at h
  rcases hx with hx | hx
  · simp [hx] at h; subst h; trivial
  · by_cases hc : f.closed = true <;> simp [hx, hc] at h <;> subst h <;> trivial

private theorem usable (f : BF Chan) (b : Bool) (hb : b = f.rd ∨ b = f.wr) :
    (f.closed = false ∧ b = true) ∨ (f.closed = true ∨ b = false) := by
  cases hc : f.closed <;> cases hbb : b <;> simp

private theorem step_read (f : BF Chan) (size : Option Nat) (hg : Good f) :
    StepLaw f (.read size) (step chanOps f (.read size)) := by
  simp only [step]
  rcases usable f f.rd (Or.inl rfl) with ⟨hc, hr⟩ | hx
  · cases size with
    | none =>
      obtain ⟨h1, h2, h3, h4, h5⟩ := read_none_chan f hg.1.1 hc hr
      rcases hres : read chanOps f none with ⟨f1, r1⟩
      rw [hres] at h1 h2 h3 h4 h5
      simp only at h1 h2 h3 h4 h5
      subst h1
      exact readlike hg h3 h4 h5 trivial (by simp [outOf, Out.got, h2]) rfl
    | some n =>
      obtain ⟨h1, h2, h3, h4, h5⟩ := read_some_chan f n hc hr
      rcases hres : read chanOps f (some n) with ⟨f1, r1⟩
      rw [hres] at h1 h2 h3 h4 h5
      simp only at h1 h2 h3 h4 h5
      subst h1
      exact readlike hg h3 h4 h5 trivial (by simp [outOf, Out.got, h2]) rfl
  · obtain ⟨h1, e, h2⟩ := read_err_chan f size hx
    have hk := err_kind_read f size e h2 hx
    rcases hres : read chanOps f size with ⟨f1, r1⟩
    rw [hres] at h1 h2
    simp only at h1 h2
    subst h1 h2
    exact unchanged hg hk

private theorem step_readline (f : BF Chan) (size : Option Nat) (hg : Good f) :
    StepLaw f (.readline size) (step chanOps f (.readline size)) := by
  simp only [step]
  rcases usable f f.rd (Or.inl rfl) with ⟨hc, hr⟩ | hx
  · obtain ⟨h1, h2, h3, h4, h5⟩ := readline_chan f size hg.1.2 hc hr
    rcases hres : readline chanOps f size with ⟨f1, r1⟩
    rw [hres] at h1 h2 h3 h4 h5
    simp only at h1 h2 h3 h4 h5
    subst h1
    refine readlike hg h3 h4 h5 trivial ?_ rfl
    simp only [outOf, Out.got, h2]
    exact prefix_append_drop _ _ (specLine_prefix size (pending f))
  · obtain ⟨h1, e, h2⟩ := readline_err_chan f size hx
    have hk := err_kind_readline f size e h2 hx
    rcases hres : readline chanOps f size with ⟨f1, r1⟩
    rw [hres] at h1 h2
    simp only at h1 h2
    subst h1 h2
    exact unchanged hg hk

private theorem step_next (f : BF Chan) (hg : Good f) : StepLaw f .next (step chanOps f .next) := by
  simp only [step]
  rcases usable f f.rd (Or.inl rfl) with ⟨hc, hr⟩ | hx
  · obtain ⟨h1, h2, h3, h4, h5⟩ := next_chan f hg.1.2 hc hr
    rcases hres : next chanOps f with ⟨f1, r1⟩
    rw [hres] at h1 h2 h3 h4 h5
    simp only at h1 h2 h3 h4 h5
    subst h1
    by_cases he : (lineOf (pending f)).isEmpty = true
    · have hnil : lineOf (pending f) = [] := by simpa using he
      refine readlike hg h3 h4 h5 (by simp [outOf, he]; trivial) ?_ (by simp [outOf, he, sentBy])
      simp [outOf, he, Out.got, h2, hnil]
    · refine readlike hg h3 h4 h5 (by simp [outOf, he]; trivial) ?_ (by simp [outOf, he, sentBy])
      simp only [outOf, he, Bool.false_eq_true, if_false, Out.got, h2]
      exact prefix_append_drop _ _ (lineOf_prefix (pending f))
  · obtain ⟨h1, e, h2⟩ := next_err_chan f hx
    have hk : Benign (.err e) := by
      have := readline_err_chan f none hx
      obtain ⟨_, e', h3⟩ := this
      have hk' := err_kind_readline f none e' h3 hx
      unfold next at h2
      rcases hr : readline chanOps f none with ⟨f2, r2⟩
      rw [hr] at h2 h3
      simp only at h3
      subst h3
      simp only at h2
      injection h2 with h2
      subst h2; exact hk'
    rcases hres : next chanOps f with ⟨f1, r1⟩
    rw [hres] at h1 h2
    simp only at h1 h2
    subst h1 h2
    exact unchanged hg hk

private theorem step_readlines (f : BF Chan) (hint : Option Int) (hg : Good f) :
    StepLaw f (.readlines hint) (step chanOps f (.readlines hint)) := by
  simp only [step, readlines]
  rcases usable f f.rd (Or.inl rfl) with ⟨hc, hr⟩ | hx
  · rw [if_neg (by simp [hc, hr]), syncForRead_chan]
    simp only
    obtain ⟨new, g1, g2, g3, g4, g5, _⟩ := readlinesLoop_chan hint
      (f.rbuf.length + chanOps.bound f.s f.realpos + 1) f [] 0 hg.1.2 hc hr (by simp [pending])
    rcases hres : readlinesLoop chanOps hint (f.rbuf.length + chanOps.bound f.s f.realpos + 1) f [] 0 with ⟨f1, r1⟩
    rw [hres] at g1 g2 g3 g4 g5
    simp only at g1 g2 g3 g4 g5
    subst g1
    exact readlike hg g3 g4 g5 trivial (by simpa [outOf, Out.got] using g2.flatten_append) rfl
  · -- the first `readline` raises; nothing has changed
    rw [if_pos (by rcases hx with h | h <;> simp [h])]
    obtain ⟨h1, e, h2⟩ := readline_err_chan f none hx
    have hk := err_kind_readline f none e h2 hx
    have : readlinesLoop chanOps hint 1 f [] 0 = (f, .error e) := by
      rw [readlinesLoop]
      rcases hres : readline chanOps f none with ⟨f1, r1⟩
      rw [hres] at h1 h2
      simp only at h1 h2
      subst h1 h2
      rfl
    rw [this]
    exact unchanged hg hk

private theorem step_iter (f : BF Chan) (hg : Good f) : StepLaw f .iter (step chanOps f .iter) := by
  simp only [step, iterAll]
  by_cases hc : f.closed = true
  · rw [if_pos hc]; exact unchanged hg trivial
  · have hc' : f.closed = false := by simpa using hc
    rw [if_neg hc]
    by_cases hr : f.rd = true
    · obtain ⟨new, g1, g2, g3, g4, g5, g6⟩ := iterLoop_chan
        (f.rbuf.length + chanOps.bound f.s f.realpos + 1) f [] hg.1.2 hc' hr (by simp [pending])
      rcases hres : iterLoop chanOps (f.rbuf.length + chanOps.bound f.s f.realpos + 1) f [] with ⟨f1, r1⟩
      rw [hres] at g1 g3 g4 g5 g6
      simp only at g1 g3 g4 g5 g6
      subst g1
      refine readlike hg g4 g5 g6 trivial ?_ rfl
      have := g2.flatten_append
      simp only [outOf, Out.got, g3, List.nil_append]
      simpa using this
    · have hx : f.closed = true ∨ f.rd = false := Or.inr (by simpa using hr)
      obtain ⟨h1, e, h2⟩ := next_err_chan f hx
      obtain ⟨_, e', h3⟩ := readline_err_chan f none hx
      have hk' := err_kind_readline f none e' h3 hx
      have : iterLoop chanOps (f.rbuf.length + chanOps.bound f.s f.realpos + 1) f [] = (f, .error e') := by
        rw [iterLoop]
        unfold next
        rcases hres : readline chanOps f none with ⟨f1, r1⟩
        have h1' := (readline_err_chan f none hx).1
        rw [hres] at h1' h3
        simp only at h1' h3
        subst h1' h3
        rfl
      rw [this]
      exact unchanged hg hk'

private theorem step_write (f : BF Chan) (d : Bytes) (hg : Good f) :
    StepLaw f (.write d) (step chanOps f (.write d)) := by
  simp only [step]
  rcases usable f f.wr (Or.inr rfl) with ⟨hc, hw⟩ | hx
  · obtain ⟨h1, h2, h3, h4, h5, h6⟩ := write_chan f d hg.1.2 hc hw hg.2
    rcases hres : write chanOps f d with ⟨f1, r1⟩
    rw [hres] at h1 h2 h3 h4 h5 h6
    simp only at h1 h2 h3 h4 h5 h6
    subst h1
    exact ⟨⟨wf_of_cfg h4 hg.1, h6⟩, h4, trivial, by simpa [outOf, Out.got] using pending_of_rside h3,
      by simpa [outOf, sentBy] using h2, fun h => by show f1.closed = true; rw [h5]; exact h⟩
  · obtain ⟨h1, e, h2⟩ := write_err_chan f d hx
    have hk := err_kind_write f d e h2 hx
    rcases hres : write chanOps f d with ⟨f1, r1⟩
    rw [hres] at h1 h2
    simp only at h1 h2
    subst h1 h2
    exact unchanged hg hk

private theorem writelines_law (f : BF Chan) (ds : List Bytes) (hg : Good f) :
    Good (writelines chanOps f ds).1 ∧ cfg (writelines chanOps f ds).1 = cfg f ∧
    pending (writelines chanOps f ds).1 = pending f ∧
    (f.closed = true → (writelines chanOps f ds).1.closed = true) ∧
    (((writelines chanOps f ds).2 = .ok () ∧
        (writelines chanOps f ds).1.s.out ++ (writelines chanOps f ds).1.wbuf = f.s.out ++ f.wbuf ++ ds.flatten) ∨
     (∃ e, (writelines chanOps f ds).2 = .error e ∧ Benign (.err e) ∧
        (writelines chanOps f ds).1.s.out ++ (writelines chanOps f ds).1.wbuf = f.s.out ++ f.wbuf)) := by
  induction ds generalizing f with
  | nil => exact ⟨hg, rfl, rfl, fun h => h, Or.inl ⟨rfl, by simp [writelines]⟩⟩
  | cons d ds ih =>
    rw [writelines]
    rcases usable f f.wr (Or.inr rfl) with ⟨hc, hw⟩ | hx
    · obtain ⟨h1, h2, h3, h4, h5, h6⟩ := write_chan f d hg.1.2 hc hw hg.2
      rcases hres : write chanOps f d with ⟨f1, r1⟩
      rw [hres] at h1 h2 h3 h4 h5 h6
      simp only at h1 h2 h3 h4 h5 h6
      subst h1
      simp only
      obtain ⟨i1, i2, i3, i4, i5⟩ := ih f1 ⟨wf_of_cfg h4 hg.1, h6⟩
      refine ⟨i1, by rw [i2, h4], by rw [i3, pending_of_rside h3], fun h => i4 (by rw [h5]; exact h), ?_⟩
      rcases i5 with ⟨j1, j2⟩ | ⟨e, j1, j2, j3⟩
      · exact Or.inl ⟨j1, by rw [j2, h2]; simp⟩
      · -- a later element failed although this one was accepted: impossible here (flags do not change)
        exfalso
        have hc1 : f1.closed = false := by rw [h5]; exact hc
        have hw1 : f1.wr = true := by
          have : f1.wr = f.wr := by simp [cfg] at h4; exact h4.2.1
          rw [this]; exact hw
        clear j3 j2
        -- every write on an open writable file succeeds, so writelines succeeds
        have key : ∀ (g : BF Chan) (es : List Bytes), Good g → g.closed = false → g.wr = true →
            (writelines chanOps g es).2 = .ok () := by
          intro g es
          induction es generalizing g with
          | nil => intros; rfl
          | cons x xs ihx =>
            intro gg gc gw
            rw [writelines]
            obtain ⟨k1, _, _, k4, k5, k6⟩ := write_chan g x gg.1.2 gc gw gg.2
            rcases hr2 : write chanOps g x with ⟨g1, q1⟩
            rw [hr2] at k1 k4 k5 k6
            simp only at k1 k4 k5 k6
            subst k1
            simp only
            refine ihx g1 ⟨wf_of_cfg k4 gg.1, k6⟩ (by rw [k5]; exact gc) ?_
            have : g1.wr = g.wr := by simp [cfg] at k4; exact k4.2.1
            rw [this]; exact gw
        rw [key f1 ds ⟨wf_of_cfg h4 hg.1, h6⟩ hc1 hw1] at j1
        cases j1
    · obtain ⟨h1, e, h2⟩ := write_err_chan f d hx
      have hk := err_kind_write f d e h2 hx
      rcases hres : write chanOps f d with ⟨f1, r1⟩
      rw [hres] at h1 h2
      simp only at h1 h2
      subst h1 h2
      exact ⟨hg, rfl, rfl, fun h => h, Or.inr ⟨e, rfl, hk, rfl⟩⟩

private theorem step_writelines (f : BF Chan) (ds : List Bytes) (hg : Good f) :
    StepLaw f (.writelines ds) (step chanOps f (.writelines ds)) := by
  simp only [step]
  obtain ⟨i1, i2, i3, i4, i5⟩ := writelines_law f ds hg
  rcases hres : writelines chanOps f ds with ⟨f1, r1⟩
  rw [hres] at i1 i2 i3 i4 i5
  simp only at i1 i2 i3 i4 i5
  rcases i5 with ⟨j1, j2⟩ | ⟨e, j1, j2, j3⟩
  · subst j1
    exact ⟨i1, i2, trivial, by simpa [outOf, Out.got] using i3, by simpa [outOf, sentBy] using j2, i4⟩
  · subst j1
    exact ⟨i1, i2, j2, by simpa [outOf, Out.got] using i3, by simpa [outOf, sentBy] using j3, i4⟩

private theorem good_flushed {f f1 : BF Chan} (hg : Good f) (h5 : cfg f1 = cfg f) (h3 : f1.wbuf = []) : Good f1 := by
  have hw := wf_of_cfg h5 hg.1
  exact ⟨hw, fun _ => h3, fun _ _ => by rw [h3]; rfl, fun _ _ => by rw [h3]; exact hw.2⟩

private theorem step_flush (f : BF Chan) (hg : Good f) : StepLaw f .flush (step chanOps f .flush) := by
  simp only [step]
  obtain ⟨h1, h2, h3, h4, h5, h6⟩ := flush_chan f
  rcases hres : flush chanOps f with ⟨f1, r1⟩
  rw [hres] at h1 h2 h3 h4 h5 h6
  simp only at h1 h2 h3 h4 h5 h6
  subst h1
  exact ⟨good_flushed hg h5 h3, h5, trivial, by simpa [outOf, Out.got] using pending_of_rside h4,
    by simp [outOf, sentBy, h2, h3], fun h => by show f1.closed = true; rw [h6]; exact h⟩

private theorem step_close (f : BF Chan) (hg : Good f) : StepLaw f .close (step chanOps f .close) := by
  simp only [step]
  obtain ⟨h1, h2, h3, h4, h5, h6⟩ := close_chan f
  rcases hres : close chanOps f with ⟨f1, r1⟩
  rw [hres] at h1 h2 h3 h4 h5 h6
  simp only at h1 h2 h3 h4 h5 h6
  subst h1
  exact ⟨good_flushed hg h5 h3, h5, trivial, by simpa [outOf, Out.got] using pending_of_rside h4,
    by simp [outOf, sentBy, h2, h3], fun _ => h6⟩

/-- Every single call keeps the invariant, hands the caller a prefix of what was pending, and moves
    exactly the bytes of a successful write towards the stream. -/
theorem step_law (f : BF Chan) (op : Op) (hg : Good f) : StepLaw f op (step chanOps f op) := by
  cases op with
  | read n => exact step_read f n hg
  | readline n => exact step_readline f n hg
  | readlines h => exact step_readlines f h hg
  | next => exact step_next f hg
  | iter => exact step_iter f hg
  | write d => exact step_write f d hg
  | writelines ds => exact step_writelines f ds hg
  | flush => exact step_flush f hg
  | close => exact step_close f hg
  | tell => exact ⟨hg, rfl, trivial, by simp [step, Out.got], by simp [step, sentBy], fun h => h⟩

/-- all bytes handed to the caller by a run, in call order -/
def gotAll (outs : List Out) : Bytes := (outs.map Out.got).flatten
/-- all bytes accepted from the caller by a run, in call order -/
def sentAll : List Op → List Out → Bytes
  | op :: ops, o :: os => sentBy op o ++ sentAll ops os
  | _, _ => []

/-- **Stream preservation, for every program, every chunking of reads and of writes, every mode and
    buffer size.**  After any sequence of calls: what the caller received, followed by what is still
    pending, is exactly the byte stream (nothing lost, duplicated or reordered); what the stream has
    accepted, followed by the write buffer, is exactly what was written, in order; the buffering
    invariant holds (unbuffered: nothing held back; line buffered: nothing up to the last LF held
    back; sized: less than `bufsize` held back); and no call failed for any reason other than
    "closed" / "not open for reading" / "not open for writing". -/
theorem stream_preserved (f : BF Chan) (prog : List Op) (hg : Good f) :
    gotAll (run chanOps f prog).2 ++ pending (run chanOps f prog).1 = pending f ∧
    (run chanOps f prog).1.s.out ++ (run chanOps f prog).1.wbuf
      = f.s.out ++ f.wbuf ++ sentAll prog (run chanOps f prog).2 ∧
    Good (run chanOps f prog).1 ∧
    (∀ o ∈ (run chanOps f prog).2, Benign o) := by
  induction prog generalizing f with
  | nil => simp [run, gotAll, sentAll, hg]
  | cons op ops ih =>
    obtain ⟨s1, _, s3, s4, s5, _⟩ := step_law f op hg
    obtain ⟨i1, i2, i3, i4⟩ := ih (step chanOps f op).1 s1
    simp only [run]
    refine ⟨?_, ?_, i3, ?_⟩
    · simp only [gotAll, List.map_cons, List.flatten_cons, List.append_assoc] at i1 ⊢
      rw [i1, s4]
    · rw [i2, s5]; simp [sentAll, List.append_assoc]
    · intro o ho
      rcases List.mem_cons.1 ho with h | h
      · subst h; exact s3
      · exact i4 o h

/-- Reading to the end returns the whole stream: a program whose last call is `read()` has received,
    in order, every byte the stream held. -/
theorem read_to_eof_complete (f : BF Chan) (prog : List Op) (hg : Good f)
    (hopen : (run chanOps f prog).1.closed = false) (hr : f.rd = true) :
    gotAll (run chanOps f (prog ++ [.read none])).2 = pending f := by
  have hrun : ∀ (g : BF Chan) (p q : List Op),
      run chanOps g (p ++ q) = ((run chanOps (run chanOps g p).1 q).1, (run chanOps g p).2 ++ (run chanOps (run chanOps g p).1 q).2) := by
    intro g p q
    induction p generalizing g with
    | nil => simp [run]
    | cons a p ih => simp [run, ih]
  have hcfg : ∀ (g : BF Chan) (p : List Op), Good g → cfg (run chanOps g p).1 = cfg g := by
    intro g p
    induction p generalizing g with
    | nil => intro _; rfl
    | cons a p ih =>
      intro gg
      obtain ⟨s1, s2, _⟩ := step_law g a gg
      simp only [run]
      rw [ih _ s1, s2]
  obtain ⟨p1, _, p3, _⟩ := stream_preserved f prog hg
  rw [hrun]
  have hr' : (run chanOps f prog).1.rd = true := by
    have := hcfg f prog hg
    simp [cfg] at this
    rw [this.1]; exact hr
  obtain ⟨r1, r2, _⟩ := read_none_chan (run chanOps f prog).1 p3.1.1 hopen hr'
  simp only [run, step, gotAll, List.map_append, List.flatten_append, List.map_cons, List.map_nil,
    List.flatten_cons, List.flatten_nil, List.append_nil]
  rcases hres : BufFile.read chanOps (run chanOps f prog).1 none with ⟨f1, q1⟩
  rw [hres] at r1
  simp only at r1
  subst r1
  simp only [outOf, Out.got]
  exact p1

/-- Written data reaches the stream complete and in order by `flush` (and by `close`). -/
theorem flush_complete (f : BF Chan) (prog : List Op) (hg : Good f) (h0 : f.s.out = [] ∧ f.wbuf = []) :
    (step chanOps (run chanOps f prog).1 .flush).1.s.out = sentAll prog (run chanOps f prog).2 ∧
    (step chanOps (run chanOps f prog).1 .close).1.s.out = sentAll prog (run chanOps f prog).2 := by
  obtain ⟨_, p2, _, _⟩ := stream_preserved f prog hg
  rw [h0.1, h0.2] at p2
  simp only [List.nil_append] at p2
  constructor
  · simp only [step]
    obtain ⟨h1, h2, _⟩ := flush_chan (run chanOps f prog).1
    rcases hres : flush chanOps (run chanOps f prog).1 with ⟨f1, r1⟩
    rw [hres] at h1 h2
    simp only at h1 h2
    subst h1
    simp only [outOf]; rw [h2, p2]
  · simp only [step]
    obtain ⟨h1, h2, _⟩ := close_chan (run chanOps f prog).1
    rcases hres : close chanOps (run chanOps f prog).1 with ⟨f1, r1⟩
    rw [hres] at h1 h2
    simp only at h1 h2
    subst h1
    simp only [outOf]; rw [h2, p2]

/-- Line buffering: after every call of every program the stream has received everything written
    through the last newline (the bytes still buffered contain no LF); unbuffered: everything. -/
theorem line_buffered_pushes_each_newline (f : BF Chan) (prog : List Op) (hg : Good f) :
    ((run chanOps f prog).1.buffered = true → (run chanOps f prog).1.lineBuf = true →
        (run chanOps f prog).1.wbuf.contains LF = false) ∧
    ((run chanOps f prog).1.buffered = false → (run chanOps f prog).1.wbuf = []) := by
  obtain ⟨_, _, p3, _⟩ := stream_preserved f prog hg
  exact ⟨p3.2.2.1, p3.2.1⟩

/-! ## non-vacuity: concrete non-trivial runs (short reads of 1–3 bytes, short writes of 1–2 bytes) -/

def demoFile (mode : String) (bufsize : Int) : BF Chan :=
  setMode { s := { inp := "ab\ncd\nef".toUTF8.toList, rg := [0, 2, 0, 1], wg := [0, 1, 0] } } mode.toList bufsize 0

example : Good (demoFile "r+b" 1) := (setMode_good _ _ _ _ (by decide) rfl).1

example :
    ((run chanOps (demoFile "rb" 0) [.readline none, .read (some 1), .readline (some 1), .next, .read none]).2.map Out.got)
      = ["ab\n".toUTF8.toList, "c".toUTF8.toList, "d".toUTF8.toList, "\n".toUTF8.toList, "ef".toUTF8.toList] := by
  decide +kernel

example :
    let r := run chanOps (demoFile "wb" 1) [.write "xy\nz".toUTF8.toList]
    r.1.s.out = "xy\n".toUTF8.toList ∧ r.1.wbuf = "z".toUTF8.toList := by
  decide +kernel

/-! ## universal-newline mode ('U'): line structure does not depend on the chunking

  `upend u` = what a U-mode caller has still to receive: read-ahead ++ undelivered stream, minus a leading LF
  when the previous line ended in a bare CR that was the last byte available (`_at_trailing_cr`).
  `uSplit p` = (first line of `p` with its CR / CRLF / LF terminator translated to LF, rest of `p`). -/

/-- `readline()` in U mode returns the first universal-newline line of what is pending and leaves exactly the
    rest pending — for every chunking, wherever a CR happened to be the last byte of a chunk. -/
theorem universal_readline_exact (u : UF Chan) (hb : 1 ≤ u.f.bufsize) (hc : u.f.closed = false) (hr : u.f.rd = true) :
    (readlineU chanOps u none).2 = .ok (uSplit (upend u)).1 ∧
    upend (readlineU chanOps u none).1 = (uSplit (upend u)).2 :=
  ⟨(readlineU_chan u hb hc hr).1, (readlineU_chan u hb hc hr).2.1⟩

/-- a line returned in U mode ends in LF and contains no other CR or LF, or it is the unterminated tail -/
theorem universal_line_shape (p : Bytes) :
    (∃ body, (uSplit p).1 = body ++ [LF] ∧ body.any isNL = false) ∨ ((uSplit p).1 = p ∧ p.any isNL = false) := by
  unfold uSplit
  cases h : p.findIdx? isNL with
  | none =>
    right
    refine ⟨rfl, ?_⟩
    cases hq : p.any isNL with
    | false => rfl
    | true =>
      have := List.findIdx?_isSome (xs := p) (p := isNL)
      rw [hq, h] at this; cases this
  | some i =>
    left
    obtain ⟨hlt, _, hmin⟩ := List.findIdx?_eq_some_iff_getElem.1 h
    refine ⟨p.take i, rfl, ?_⟩
    cases hq : (p.take i).any isNL with
    | false => rfl
    | true =>
      obtain ⟨x, hx, hxx⟩ := List.any_eq_true.1 hq
      obtain ⟨j, hj, hjx⟩ := List.getElem_of_mem hx
      rw [List.length_take] at hj
      have hji : j < i := by omega
      have := hmin j hji
      rw [List.getElem_take] at hjx
      rw [hjx] at this
      exact absurd hxx this

/-- `list(f)` / a `for` loop in U mode: the result is a function of the pending bytes and the flag only. -/
theorem universal_iteration_exact (u : UF Chan) (hb : 1 ≤ u.f.bufsize) (hc : u.f.closed = false) (hr : u.f.rd = true) :
    (iterAllU chanOps u).2 = .ok (uLines (u.f.rbuf.length + u.f.s.inp.length + 2) (upend u)) ∧
    upend (iterAllU chanOps u).1 = [] := by
  unfold iterAllU
  rw [if_neg (by simp [hc])]
  have hlen : (upend u).length < linesFuel chanOps u.f := by
    unfold upend eff linesFuel
    simp only [chanOps_bound]
    split
    · simp only [List.length_tail, List.length_append]; omega
    · simp only [List.length_append]; omega
  obtain ⟨g1, g2, _⟩ := iterLoopU_chan (linesFuel chanOps u.f) u [] hb hc hr hlen
  refine ⟨?_, g2⟩
  rw [g1]; simp [linesFuel]

/-- **Chunk independence in U mode.**  Two freshly opened U-mode files over the same byte stream, with ANY two
    ways of chunking the reads, iterate to the same list of lines. -/
theorem universal_lines_independent_of_chunking (f1 f2 : BF Chan) (inp : Bytes)
    (h1 : f1.s.inp = inp ∧ f1.rbuf = [] ∧ 1 ≤ f1.bufsize ∧ f1.closed = false ∧ f1.rd = true)
    (h2 : f2.s.inp = inp ∧ f2.rbuf = [] ∧ 1 ≤ f2.bufsize ∧ f2.closed = false ∧ f2.rd = true) :
    (iterAllU chanOps { f := f1 }).2 = (iterAllU chanOps { f := f2 }).2 := by
  obtain ⟨a1, a2, a3, a4, a5⟩ := h1
  obtain ⟨b1, b2, b3, b4, b5⟩ := h2
  rw [(universal_iteration_exact { f := f1 } a3 a4 a5).1, (universal_iteration_exact { f := f2 } b3 b4 b5).1]
  simp [upend, eff, a1, a2, b1, b2]

def okLines : Except Err (List Bytes) → Option (List Bytes)
  | .ok ls => some ls
  | .error _ => none

/-- non-vacuity: the case from the field — CR is the last byte of the first chunk, the next chunk does not
    start with LF, an empty line follows later; chunked 4 + rest and unchunked give one, two, (empty), three -/
example :
    let inp := "one\rtwo\n\nthree\n".toUTF8.toList
    let f (rg : List Nat) : BF Chan := setMode { s := { inp := inp, rg := rg, wg := [] } } "rbU".toList 0 0
    okLines (iterAllU chanOps { f := f [3] }).2
      = some ["one\n".toUTF8.toList, "two\n".toUTF8.toList, "\n".toUTF8.toList, "three\n".toUTF8.toList] ∧
    okLines (iterAllU chanOps { f := f [] }).2 = okLines (iterAllU chanOps { f := f [3] }).2 := by
  decide +kernel

/-! ## the channel file classes (ChannelFile / ChannelStderrFile / ChannelStdinFile)

  Their `_read` / `_write` are an instance of the stream above (recv may be short, sendall takes everything), so
  every theorem of this file applies to them unchanged.  What `ChannelStdinFile` adds is the order of `close()`:
  flush first, EOF (`shutdown_write`) afterwards.  `atEof` records what the channel had received when the first
  EOF went out. -/

/-- `ChannelStdinFile.close()`: everything still buffered reaches the channel BEFORE the EOF, whatever the
    buffering mode; the file is closed and exactly one more `shutdown_write()` has been made. -/
theorem stdin_close_delivers_before_eof (c : CF) (hs : c.stdin = true) (hn : c.atEof = none) :
    (closeC c).2 = .ok () ∧ (closeC c).1.atEof = some (c.f.s.out ++ c.f.wbuf) ∧
    (closeC c).1.f.s.out = c.f.s.out ++ c.f.wbuf ∧ (closeC c).1.f.wbuf = [] ∧
    (closeC c).1.f.closed = true ∧ (closeC c).1.eofs = c.eofs + 1 := by
  unfold closeC
  obtain ⟨h1, h2, h3, _, _, h6⟩ := close_chan c.f
  rcases hres : close chanOps c.f with ⟨f1, r1⟩
  rw [hres] at h1 h2 h3 h6
  simp only at h1 h2 h3 h6
  subst h1
  simp only [hs, if_true, hn]
  exact ⟨by triv, by rw [h2], h2, h3, h6, by triv⟩

/-- the plain channel files never half-close the channel -/
theorem plain_close_sends_no_eof (c : CF) (hs : c.stdin = false) :
    (closeC c).1.eofs = c.eofs ∧ (closeC c).1.atEof = c.atEof := by
  unfold closeC
  rcases close chanOps c.f with ⟨f1, r1⟩
  cases r1 <;> simp [hs]

private theorem runC_no_close (c : CF) (prog : List Op) (h : ∀ op ∈ prog, op ≠ .close) :
    runC c prog = ({ c with f := (run chanOps c.f prog).1 }, (run chanOps c.f prog).2) := by
  induction prog generalizing c with
  | nil => rfl
  | cons op ops ih =>
    have hop : op ≠ .close := h op (by simp)
    have hstep : stepC c op = ({ c with f := (step chanOps c.f op).1 }, (step chanOps c.f op).2) := by
      cases op <;> first | rfl | exact absurd rfl hop
    simp only [runC, run, hstep]
    rw [ih _ (fun o ho => h o (by simp [ho]))]

private theorem closeC_atEof (c : CF) (x : Bytes) (h : c.atEof = some x) : (closeC c).1.atEof = some x := by
  unfold closeC
  rcases close chanOps c.f with ⟨f1, r1⟩
  cases r1 with
  | error e => exact h
  | ok u =>
    by_cases hs : c.stdin = true
    · simp only [hs, if_true, h]
    · simp only [hs, Bool.false_eq_true, if_false]; exact h

private theorem stepC_close_fst (c : CF) : (stepC c .close).1 = (closeC c).1 := by
  simp only [stepC]
  rcases closeC c with ⟨c1, r1⟩
  cases r1 <;> rfl

private theorem atEof_sticky (c : CF) (x : Bytes) (h : c.atEof = some x) (prog : List Op) :
    (runC c prog).1.atEof = some x := by
  induction prog generalizing c with
  | nil => exact h
  | cons op ops ih =>
    simp only [runC]
    apply ih
    cases op with
    | close => rw [stepC_close_fst]; exact closeC_atEof c x h
    | _ => exact h

/-- **ChannelStdinFile, whole programs.**  For every buffering mode and every program of calls that ends in
    `close()` (directly or by leaving a `with` block), whatever is done with the file afterwards (a second close,
    late writes): the bytes the channel had received when the EOF went out are exactly the bytes written, in order. -/
theorem stdin_eof_after_all_data (f : BF Chan) (prog rest : List Op) (hg : Good f)
    (h0 : f.s.out = [] ∧ f.wbuf = []) (hnc : ∀ op ∈ prog, op ≠ .close) :
    (runC { f := f, stdin := true } (prog ++ [.close] ++ rest)).1.atEof
      = some (sentAll prog (run chanOps f prog).2) := by
  have hrun : ∀ (c : CF) (p q : List Op), runC c (p ++ q) = ((runC (runC c p).1 q).1, (runC c p).2 ++ (runC (runC c p).1 q).2) := by
    intro c p q
    induction p generalizing c with
    | nil => simp [runC]
    | cons a p ih => simp [runC, ih]
  rw [List.append_assoc, hrun, runC_no_close _ prog hnc]
  simp only
  rw [hrun]
  simp only
  apply atEof_sticky
  obtain ⟨_, p2, _, _⟩ := stream_preserved f prog hg
  rw [h0.1, h0.2] at p2
  simp only [List.nil_append] at p2
  have hc := stdin_close_delivers_before_eof { f := (run chanOps f prog).1, stdin := true } rfl rfl
  simp only [runC]
  rw [stepC_close_fst, hc.2.1, p2]

/-- non-vacuity: a line-buffered stdin wrapper with a partial line pending, closed twice, then written to -/
example :
    let f : BF Chan := setMode { s := { inp := [], rg := [], wg := [] } } "wb".toList 1 0
    let r := runC { f := f, stdin := true } [.write "ab\ncd".toUTF8.toList, .close, .close, .write [65]]
    r.1.atEof = some "ab\ncd".toUTF8.toList ∧ r.1.eofs = 2 ∧ r.1.f.s.out = "ab\ncd".toUTF8.toList := by
  decide +kernel

/-! ## a stream whose `_read` may raise (socket.timeout …) at arbitrary points; the caller retries

  `chanOpsX`: short reads as before, plus `fails` — one flag per `_read` call, a raising call delivers nothing. -/

/-- bytes the caller has still to receive from a raising stream -/
def pendingX (f : BF ChanX) : Bytes := f.rbuf ++ f.s.c.inp

private theorem chanOpsX_read_fail (s : ChanX) (rp : Int) (n : Nat) (rest : List Bool) (h : s.fails = true :: rest) :
    chanOpsX.read s rp n = ({ s with fails := rest }, .error (.stream eTimeout)) := by
  simp [chanOpsX, h]

private theorem chanOpsX_read_ok (s : ChanX) (rp : Int) (n : Nat) (h : ∀ rest, s.fails ≠ true :: rest) :
    chanOpsX.read s rp n =
      ({ c := { s.c with inp := s.c.inp.drop (grant s.c.rg n), rg := s.c.rg.tail }, fails := s.fails.tail },
       .ok (s.c.inp.take (grant s.c.rg n))) := by
  cases hf : s.fails with
  | nil => simp [chanOpsX, hf]
  | cons b rest =>
    cases b with
    | true => exact absurd hf (h rest)
    | false => simp [chanOpsX, hf]

private theorem readFillLoopX (n fuel : Nat) (f : BF ChanX) (hf : f.s.c.inp.length < fuel) :
    pendingX (readFillLoop chanOpsX n fuel f).1 = pendingX f ∧
    ((readFillLoop chanOpsX n fuel f).2 = .ok () →
      (n ≤ (readFillLoop chanOpsX n fuel f).1.rbuf.length ∨ (readFillLoop chanOpsX n fuel f).1.s.c.inp = [])) := by
  induction fuel generalizing f with
  | zero => omega
  | succ fuel ih =>
    rw [readFillLoop]
    by_cases hlt : f.rbuf.length < n
    · rw [if_pos hlt]
      simp only
      generalize hw : (if f.buffered = true then max f.bufsize (n - f.rbuf.length) else n - f.rbuf.length) = want
      have hwant : 1 ≤ want := by subst hw; split <;> omega
      have hk := grant_pos f.s.c.rg want hwant
      cases hfl : f.s.fails with
      | cons b rest =>
        cases b with
        | true =>
          rw [chanOpsX_read_fail f.s f.realpos want rest hfl]
          exact ⟨rfl, fun h => by cases h⟩
        | false =>
          rw [chanOpsX_read_ok f.s f.realpos want (by intro r h; rw [hfl] at h; cases h), hfl]
          simp only [List.tail_cons]
          by_cases he : (f.s.c.inp.take (grant f.s.c.rg want)).isEmpty = true
          · have hnil := (take_isEmpty_iff _ _ hk).1 he
            simp only [he, if_true]
            exact ⟨by simp [pendingX, hnil], fun _ => Or.inr (by simp [hnil])⟩
          · simp only [he]
            have hne : f.s.c.inp ≠ [] := fun h => he ((take_isEmpty_iff _ _ hk).2 h)
            have hlen : 0 < f.s.c.inp.length := List.length_pos_iff.2 hne
            have := ih
              { f with s := { c := { f.s.c with inp := f.s.c.inp.drop (grant f.s.c.rg want), rg := f.s.c.rg.tail },
                              fails := rest },
                       rbuf := f.rbuf ++ f.s.c.inp.take (grant f.s.c.rg want),
                       realpos := f.realpos + (f.s.c.inp.take (grant f.s.c.rg want)).length }
              (by simp; omega)
            simp only [Bool.false_eq_true, if_false]
            refine ⟨?_, this.2⟩
            rw [this.1]; simp [pendingX, List.append_assoc]
      | nil =>
        rw [chanOpsX_read_ok f.s f.realpos want (by intro r h; rw [hfl] at h; cases h), hfl]
        simp only [List.tail_nil]
        by_cases he : (f.s.c.inp.take (grant f.s.c.rg want)).isEmpty = true
        · have hnil := (take_isEmpty_iff _ _ hk).1 he
          simp only [he, if_true]
          exact ⟨by simp [pendingX, hnil], fun _ => Or.inr (by simp [hnil])⟩
        · simp only [he]
          have hne : f.s.c.inp ≠ [] := fun h => he ((take_isEmpty_iff _ _ hk).2 h)
          have hlen : 0 < f.s.c.inp.length := List.length_pos_iff.2 hne
          have := ih
            { f with s := { c := { f.s.c with inp := f.s.c.inp.drop (grant f.s.c.rg want), rg := f.s.c.rg.tail },
                            fails := [] },
                     rbuf := f.rbuf ++ f.s.c.inp.take (grant f.s.c.rg want),
                     realpos := f.realpos + (f.s.c.inp.take (grant f.s.c.rg want)).length }
            (by simp; omega)
          simp only [Bool.false_eq_true, if_false]
          refine ⟨?_, this.2⟩
          rw [this.1]; simp [pendingX, List.append_assoc]
    · rw [if_neg hlt]
      exact ⟨rfl, fun _ => Or.inl (by show n ≤ f.rbuf.length; omega)⟩

/-- **read(n) over a raising stream.**  For every chunking and every placement of raising fetches: a call that
    returns hands out exactly the next `n` pending bytes; a call that raises returns nothing and leaves EVERY byte
    it had already fetched ahead of the caller (in the read-ahead) — so a caller that retries after a timeout
    sees the stream in order, nothing lost, nothing duplicated. -/
theorem read_n_keeps_data_on_exception (f : BF ChanX) (n : Nat) :
    (∀ out, (BufFile.read chanOpsX f (some n)).2 = .ok out →
        out = (pendingX f).take n ∧ pendingX (BufFile.read chanOpsX f (some n)).1 = (pendingX f).drop n) ∧
    (∀ e, (BufFile.read chanOpsX f (some n)).2 = .error e → pendingX (BufFile.read chanOpsX f (some n)).1 = pendingX f) := by
  unfold BufFile.read
  by_cases hc : f.closed = true
  · simp [hc]
  rw [if_neg hc]
  by_cases hr : (!f.rd) = true
  · simp [hr]
  rw [if_neg hr]
  have hsync : syncForRead chanOpsX f = (f, .ok ()) := by simp [syncForRead, chanOpsX]
  rw [hsync]
  simp only
  by_cases hle : n ≤ f.rbuf.length
  · rw [if_pos hle]
    refine ⟨fun out h => ?_, fun e h => (by cases h)⟩
    injection h with h
    subst h
    simp [pendingX, take_append_or _ _ _ (Or.inl hle), drop_append_or _ _ _ (Or.inl hle)]
  · rw [if_neg hle]
    obtain ⟨h1, h2⟩ := readFillLoopX n (chanOpsX.bound f.s f.realpos + 1) f (by simp [chanOpsX])
    rcases hres : readFillLoop chanOpsX n (chanOpsX.bound f.s f.realpos + 1) f with ⟨f1, r1⟩
    rw [hres] at h1 h2
    simp only at h1 h2
    cases r1 with
    | error e =>
      simp only
      exact ⟨fun out h => (by cases h), fun _ _ => h1⟩
    | ok u =>
      simp only
      have h3 := h2 rfl
      refine ⟨fun out h => ?_, fun e h => (by cases h)⟩
      injection h with h
      subst h
      rw [← h1]
      simp [pendingX, take_append_or _ _ _ h3, drop_append_or _ _ _ h3]

private theorem readAllLoopX (fuel : Nat) (f : BF ChanX) (acc : Bytes) (hd : 1 ≤ f.dflt)
    (hf : f.s.c.inp.length < fuel) :
    (∀ out, (readAllLoop chanOpsX fuel f acc).2 = .ok out →
        out = acc ++ f.s.c.inp ∧ (readAllLoop chanOpsX fuel f acc).1.s.c.inp = [] ∧
        (readAllLoop chanOpsX fuel f acc).1.rbuf = f.rbuf) ∧
    (∀ e, (readAllLoop chanOpsX fuel f acc).2 = .error e →
        (readAllLoop chanOpsX fuel f acc).1.rbuf ++ (readAllLoop chanOpsX fuel f acc).1.s.c.inp = acc ++ f.s.c.inp) := by
  induction fuel generalizing f acc with
  | zero => omega
  | succ fuel ih =>
    rw [readAllLoop]
    have hk := grant_pos f.s.c.rg f.dflt hd
    by_cases hfail : ∃ rest, f.s.fails = true :: rest
    · obtain ⟨rest, hfl⟩ := hfail
      rw [chanOpsX_read_fail f.s f.realpos f.dflt rest hfl]
      exact ⟨fun out h => (by cases h), fun e _ => rfl⟩
    · rw [chanOpsX_read_ok f.s f.realpos f.dflt (fun rest h => hfail ⟨rest, h⟩)]
      simp only
      by_cases he : (f.s.c.inp.take (grant f.s.c.rg f.dflt)).isEmpty = true
      · have hnil := (take_isEmpty_iff _ _ hk).1 he
        rw [if_pos he]
        refine ⟨fun out h => ?_, fun e h => (by cases h)⟩
        injection h with h
        subst h
        simp [hnil]
      · rw [if_neg he]
        have hne : f.s.c.inp ≠ [] := fun h => he ((take_isEmpty_iff _ _ hk).2 h)
        have hlen : 0 < f.s.c.inp.length := List.length_pos_iff.2 hne
        have := ih
          { f with s := { c := { f.s.c with inp := f.s.c.inp.drop (grant f.s.c.rg f.dflt), rg := f.s.c.rg.tail },
                          fails := f.s.fails.tail },
                   realpos := f.realpos + (f.s.c.inp.take (grant f.s.c.rg f.dflt)).length,
                   pos := f.pos + (f.s.c.inp.take (grant f.s.c.rg f.dflt)).length }
          (acc ++ f.s.c.inp.take (grant f.s.c.rg f.dflt)) hd (by simp; omega)
        simp only [List.append_assoc, List.take_append_drop] at this
        exact this

/-- **read() over a raising stream** (the code repaired in /repo 3937ccc): a call that returns hands out
    everything that was pending; a call that raises returns nothing and leaves EVERY byte it had fetched (and the
    old read-ahead) ahead of the caller. -/
theorem read_all_keeps_data_on_exception (f : BF ChanX) (hd : 1 ≤ f.dflt) :
    (∀ out, (BufFile.read chanOpsX f none).2 = .ok out →
        out = pendingX f ∧ pendingX (BufFile.read chanOpsX f none).1 = []) ∧
    (∀ e, (BufFile.read chanOpsX f none).2 = .error e → pendingX (BufFile.read chanOpsX f none).1 = pendingX f) := by
  unfold BufFile.read
  by_cases hc : f.closed = true
  · simp [hc]
  rw [if_neg hc]
  by_cases hr : (!f.rd) = true
  · simp [hr]
  rw [if_neg hr]
  have hsync : syncForRead chanOpsX f = (f, .ok ()) := by simp [syncForRead, chanOpsX]
  rw [hsync]
  simp only
  obtain ⟨h1, h2⟩ := readAllLoopX (chanOpsX.bound f.s f.realpos + 1)
    { f with rbuf := [], pos := f.pos + f.rbuf.length } f.rbuf hd (by simp [chanOpsX])
  refine ⟨fun out h => ?_, fun e h => ?_⟩
  · obtain ⟨a1, a2, a3⟩ := h1 out h
    exact ⟨a1, by simp only [pendingX]; rw [a3, a2]; rfl⟩
  · exact h2 e h

private theorem readlineLoopX_err (size : Option Nat) (fuel : Nat) (f : BF ChanX) (line : Bytes)
    (hb : 1 ≤ f.bufsize) (hf : f.s.c.inp.length < fuel) :
    ∀ e, (readlineLoop chanOpsX size fuel f line).2 = .error e →
      (readlineLoop chanOpsX size fuel f line).1.rbuf ++ (readlineLoop chanOpsX size fuel f line).1.s.c.inp
        = line ++ f.s.c.inp := by
  induction fuel generalizing f line with
  | zero => omega
  | succ fuel ih =>
    rw [readlineLoop]
    cases hl : rlLimit size f.bufsize line with
    | none => intro e h; cases h
    | some n =>
      simp only
      have hn : 1 ≤ n := by
        cases size with
        | none => simp [rlLimit] at hl; omega
        | some sz =>
          simp only [rlLimit] at hl
          split at hl
          · cases hl
          · injection hl with hl; omega
      by_cases hc : line.contains LF = true
      · rw [if_pos hc]; intro e h; cases h
      · rw [if_neg hc]
        have hk := grant_pos f.s.c.rg n hn
        by_cases hfail : ∃ rest, f.s.fails = true :: rest
        · obtain ⟨rest, hfl⟩ := hfail
          rw [chanOpsX_read_fail f.s f.realpos n rest hfl]
          intro e _; rfl
        · rw [chanOpsX_read_ok f.s f.realpos n (fun rest h => hfail ⟨rest, h⟩)]
          simp only
          by_cases he : (f.s.c.inp.take (grant f.s.c.rg n)).isEmpty = true
          · rw [if_pos he]; intro e h; cases h
          · rw [if_neg he]
            have hne : f.s.c.inp ≠ [] := fun h => he ((take_isEmpty_iff _ _ hk).2 h)
            have hlen : 0 < f.s.c.inp.length := List.length_pos_iff.2 hne
            have := ih
              { f with s := { c := { f.s.c with inp := f.s.c.inp.drop (grant f.s.c.rg n), rg := f.s.c.rg.tail },
                              fails := f.s.fails.tail },
                       realpos := f.realpos + (f.s.c.inp.take (grant f.s.c.rg n)).length }
              (line ++ f.s.c.inp.take (grant f.s.c.rg n)) hb (by simp; omega)
            simp only [List.append_assoc, List.take_append_drop] at this
            exact this

/-- **readline() / __next__ over a raising stream** (repaired code): a call that raises because a fetch raised
    returns nothing and leaves every byte it had fetched, and the old read-ahead, ahead of the caller. -/
theorem readline_keeps_data_on_exception (f : BF ChanX) (size : Option Nat) (hb : 1 ≤ f.bufsize)
    (hc : f.closed = false) (hr : f.rd = true) :
    ∀ e, (readline chanOpsX f size).2 = .error e → pendingX (readline chanOpsX f size).1 = pendingX f := by
  unfold readline
  rw [if_neg (by simp [hc]), if_neg (by simp [hr])]
  have hsync : syncForRead chanOpsX f = (f, .ok ()) := by simp [syncForRead, chanOpsX]
  rw [hsync]
  simp only
  intro e h
  have hl := readlineLoopX_err size (chanOpsX.bound f.s f.realpos + 1) f f.rbuf hb (by simp [chanOpsX])
  rcases hres : readlineLoop chanOpsX size (chanOpsX.bound f.s f.realpos + 1) f f.rbuf with ⟨f1, r1⟩
  rw [hres] at h hl
  cases r1 with
  | error e1 =>
    simp only [readlinePost] at h ⊢
    exact hl e1 rfl
  | ok v =>
    exfalso
    cases v with
    | eof l => simp [readlinePost] at h
    | brk l tr =>
      simp only [readlinePost] at h
      split at h <;> cases h

/-- a raising stream for the witnesses: `abcdefgh` in 1-byte pieces, the third fetch raises -/
def wX (mode : String) : BF ChanX :=
  setMode { s := { c := { inp := "abcdefgh".toUTF8.toList, rg := [0, 0, 0, 0], wg := [] },
                   fails := [false, false, true] } } mode.toList 0 0

def okBytes : Except Err Bytes → Option Bytes
  | .ok b => some b
  | .error _ => none

/-- … read(4), retried after the exception, still returns `abcd` -/
example :
    let r1 := BufFile.read chanOpsX (wX "rb") (some 4)
    okBytes r1.2 = none ∧ okBytes (BufFile.read chanOpsX r1.1 (some 4)).2 = some "abcd".toUTF8.toList := by
  decide +kernel

/-- repaired in /repo 3937ccc: `read()` retried after the exception returns the whole stream -/
example :
    let r1 := BufFile.read chanOpsX (wX "rb") none
    okBytes r1.2 = none ∧ okBytes (BufFile.read chanOpsX r1.1 none).2 = some "abcdefgh".toUTF8.toList := by
  decide +kernel

/-- … and so does `readline()` -/
example :
    let r1 := readline chanOpsX (wX "rb") none
    okBytes r1.2 = none ∧ okBytes (readline chanOpsX r1.1 none).2 = some "abcdefgh".toUTF8.toList := by
  decide +kernel

/-- LEGACY (before 3937ccc): `read()` kept what it had fetched in a local; when a later fetch raised, those
    bytes were gone — the retried read() started at `c`. -/
theorem legacy_read_all_drops_data_on_exception_witness :
    let r1 := readAllOld chanOpsX (wX "rb")
    okBytes r1.2 = none ∧ okBytes (readAllOld chanOpsX r1.1).2 = some "cdefgh".toUTF8.toList := by
  decide +kernel

/-- LEGACY (before 3937ccc): the same for `readline()` (and `__next__`) -/
theorem legacy_readline_drops_data_on_exception_witness :
    let r1 := readlineOld chanOpsX (wX "rb") none
    okBytes r1.2 = none ∧ okBytes (readlineOld chanOpsX r1.1 none).2 = some "cdefgh".toUTF8.toList := by
  decide +kernel

end PV.Props.C42
