/-
  C31 — SFTP attribute changes have their local-filesystem meaning.
  Property theorems only.  Model: PV/Model/SetAttr.lean (client attribute construction, wire round trip via the
  C33 model, `SFTPServer.set_file_attr` as a sequence of OS calls, as repaired).  Partial: the OS calls
  themselves are parameters (`OS`); what is assumed about them is stated as `OSLaws`.
-/
import PV.Props.C33
import PV.Model.SetAttr
import PV.Model.CanonLemmas
import PV.Model.HandleProgLemmas
namespace PV.Props.C31
open PV PV.Wire PV.SftpAttr PV.SetAttr PV.Generated.C33

/-- what is assumed of the operating system: only `truncate` touches the contents, and it keeps the leading
bytes and pads with zeros (POSIX truncate(2)) -/
structure OSLaws (os : OS) : Prop where
  chmod_content : ∀ f m, (os.chmod f m).content = f.content
  chown_content : ∀ f u g, (os.chown f u g).content = f.content
  utime_content : ∀ f a t, (os.utime f a t).content = f.content
  truncate_content : ∀ f n, (os.truncate f n).content = truncated f.content n

private theorem op_wf (op : Op) (h : op.InRange) : op.attrs.WF := by
  cases op <;> simp only [Op.InRange] at h <;>
    refine ⟨?_, ?_, ?_, ?_, ?_, ?_, rfl, rfl, by simp [Op.attrs, Attrs.empty], by simp [Op.attrs, Attrs.empty],
      by simp [Op.attrs, Attrs.empty]⟩ <;>
    simp [Op.attrs, Attrs.empty] <;> omega

/-- **Pass-through.** For every client operation (`chmod`, `chown`, `utime`, `truncate`, by path or by handle) with
in-range arguments: the request encodes, the server decodes it, and `set_file_attr` makes exactly one OS
call — the matching one, with exactly the client's arguments. -/
theorem client_op_calls (op : Op) (h : op.InRange) : endToEnd op = .ok [op.call] := by
  have hwf := op_wf op h
  obtain ⟨bs, hbs⟩ := PV.Props.C33.pack_total op.attrs hwf
  have hrt := PV.Props.C33.roundtrip op.attrs hwf [] [] bs hbs
  simp only [List.nil_append, List.append_nil, List.length_nil, Nat.zero_add] at hrt
  obtain ⟨f1, f2, f3, f4, _, _, _⟩ := PV.Props.C33.flags_exact op.attrs
  unfold endToEnd serverCalls
  simp only [hbs, bind, Except.bind, hrt]
  unfold calls
  simp only [f1, f2, f3, f4]
  cases op <;> rfl

/-- **Same effect as the OS call**, whatever the OS does: the file state after the server handled the client's
operation is the state after the corresponding `os.chmod` / `os.chown` / `os.utime` / `os.truncate`. -/
theorem client_op_effect (os : OS) (f : FileSt) (op : Op) (h : op.InRange) :
    ∃ cs, endToEnd op = .ok cs ∧ os.run f cs = os.apply f op.call :=
  ⟨[op.call], client_op_calls op h, rfl⟩

/-- the server never hands `None` to an OS call, whatever bytes the request carries -/
theorem server_calls_total (wire : Bytes) : ∃ cs, serverCalls wire = .ok cs := by
  unfold serverCalls unpack
  simp only
  unfold calls
  generalize (Rd.getInt { content := wire, pos := 0 }).1 = flags
  cases h1 : has flags FLAG_PERMISSIONS <;> cases h2 : has flags FLAG_UIDGID <;>
    cases h3 : has flags FLAG_AMTIME <;> cases h4 : has flags FLAG_SIZE <;>
    simp [bind, Except.bind, pure, Except.pure]

private theorem run_content_of_no_truncate (os : OS) (hl : OSLaws os) (cs : List Call) (f : FileSt)
    (h : ∀ c ∈ cs, ∀ n, c ≠ Call.truncate n) : (os.run f cs).content = f.content := by
  induction cs generalizing f with
  | nil => rfl
  | cons c r ih =>
    simp only [OS.run, List.foldl_cons]
    have := ih (os.apply f c) (fun c' hc' => h c' (by simp [hc']))
    simp only [OS.run] at this
    rw [this]
    cases c with
    | chmod m => exact hl.chmod_content f m
    | chown u g => exact hl.chown_content f u g
    | utime a t => exact hl.utime_content f a t
    | truncate n => exact absurd rfl (h _ (by simp) n)

/-- **Truncation keeps the leading bytes and pads with zeros** — for every attribute block a SETSTAT/FSETSTAT can
carry (any combination of groups): if it carries a size `n` the contents become `take n c ++ zeros (n - |c|)`,
otherwise they are untouched. -/
theorem contents_after (os : OS) (hl : OSLaws os) (f : FileSt) (flags : Nat) (a : Attrs) (cs : List Call)
    (h : calls flags a = .ok cs) :
    (os.run f cs).content =
      if has flags FLAG_SIZE then (match a.size with | some n => truncated f.content n | none => f.content)
      else f.content := by
  unfold calls at h
  -- the first three groups never truncate
  cases h1 : has flags FLAG_PERMISSIONS <;> cases h2 : has flags FLAG_UIDGID <;>
    cases h3 : has flags FLAG_AMTIME <;> cases h4 : has flags FLAG_SIZE <;>
    simp only [h1, h2, h3, h4, if_true, if_false, Bool.false_eq_true] at h ⊢ <;>
    (cases hm : a.mode <;> cases hu : a.uid <;> cases hg : a.gid <;> cases ha : a.atime <;>
      cases ht : a.mtime <;> cases hs : a.size <;>
      simp only [hm, hu, hg, ha, ht, hs, bind, Except.bind, pure, Except.pure, List.append_nil,
        List.nil_append, reduceCtorEq, Except.ok.injEq] at h <;>
      (try subst h) <;>
      simp [OS.run, OS.apply, hl.chmod_content, hl.chown_content, hl.utime_content, hl.truncate_content])

/-- the client's `truncate(size)`: contents' = take size c ++ zeros (size - |c|) -/
theorem truncate_contents (os : OS) (hl : OSLaws os) (f : FileSt) (n : Nat) (h : n < 18446744073709551616) :
    ∃ cs, endToEnd (.truncate n) = .ok cs ∧ (os.run f cs).content = f.content.take n ++ zeros (n - f.content.length) := by
  refine ⟨_, client_op_calls (.truncate n) h, ?_⟩
  simp [OS.run, OS.apply, Op.call, hl.truncate_content, truncated]

/-- … and `chmod` / `chown` / `utime` leave the contents alone -/
theorem other_ops_keep_contents (os : OS) (hl : OSLaws os) (f : FileSt) (op : Op) (h : op.InRange)
    (hop : ∀ n, op ≠ .truncate n) :
    ∃ cs, endToEnd op = .ok cs ∧ (os.run f cs).content = f.content := by
  refine ⟨_, client_op_calls op h, ?_⟩
  cases op with
  | truncate n => exact absurd rfl (hop n)
  | chmod m => simp [OS.run, OS.apply, Op.call, hl.chmod_content]
  | chown u g => simp [OS.run, OS.apply, Op.call, hl.chown_content]
  | utime a t => simp [OS.run, OS.apply, Op.call, hl.utime_content]

/-! ## by-path operations name the file relative to the client's working directory -/

/-- **Which file.** For each of the four by-path operations alike, the SETSTAT request names `_adjust_cwd(path)` and
carries exactly the matching call (the operation kind does not influence the path). -/
theorem by_path_request (cwd : Option Bytes) (path : Bytes) (op : Op) (h : op.InRange) :
    byPath cwd path op = (adjustCwd cwd path, .ok [op.call]) := by
  simp [byPath, client_op_calls op h]

/-- an absolute path is sent as it is; without `chdir` every path is -/
theorem adjust_absolute (cwd : Option Bytes) (path : Bytes) (h : path.head? = some 47) :
    adjustCwd cwd path = path := by
  cases cwd <;> simp [adjustCwd, h]

theorem adjust_none (path : Bytes) : adjustCwd none path = path := rfl

/-- a relative path is appended to the working directory with exactly one separator -/
theorem adjust_relative (c path : Bytes) (h : path.head? ≠ some 47) :
    adjustCwd (some c) path = if c = [47] then 47 :: path else c ++ 47 :: path := by
  by_cases hc : c = [47]
  · subst hc; simp [adjustCwd, h]
  · simp [adjustCwd, h, hc]

private theorem joinSlash_snoc (comps : List Bytes) (name : Bytes) (hne : comps ≠ []) :
    PV.Canon.joinSlash (comps ++ [name]) = PV.Canon.joinSlash comps ++ 47 :: name := by
  induction comps with
  | nil => exact absurd rfl hne
  | cons c r ih =>
    cases r with
    | nil => simp [PV.Canon.joinSlash, PV.Canon.slash]
    | cons d r' =>
      have := ih (by simp)
      simp only [List.cons_append, PV.Canon.joinSlash] at this ⊢
      rw [this]; simp [PV.Canon.slash]

/-- **Under the working directory.** With a canonical working directory (what `chdir` stores: the server's
`canonicalize`) other than the root and a plain name, the server-side canonical path of the request is
`cwd/name` — never a same-named file elsewhere. -/
theorem relative_name_resolves_under_cwd (root : Bytes) (comps : List Bytes) (name : Bytes)
    (hroot : root = [PV.Canon.slash] ∨ root = [PV.Canon.slash, PV.Canon.slash])
    (hc : ∀ c ∈ comps, PV.Canon.Proper c) (hne : comps ≠ []) (hn : PV.Canon.Proper name) :
    PV.Canon.canonicalize (adjustCwd (some (root ++ PV.Canon.joinSlash comps)) name)
      = root ++ PV.Canon.joinSlash comps ++ 47 :: name := by
  have hrel : name.head? ≠ some 47 := by
    cases name with
    | nil => simp
    | cons x xs =>
      have : x ≠ PV.Canon.slash := fun e => hn.2.2.2 (by simp [e])
      simpa [PV.Canon.slash] using this
  have hcne : root ++ PV.Canon.joinSlash comps ≠ [47] := by
    cases comps with
    | nil => exact absurd rfl hne
    | cons c r =>
      have hcp := hc c (by simp)
      cases c with
      | nil => exact absurd rfl hcp.1
      | cons x xs =>
        rcases hroot with e | e <;> subst e <;> cases r <;> simp [PV.Canon.joinSlash, PV.Canon.slash]
  rw [adjust_relative _ _ hrel]
  simp only [hcne, if_false]
  -- the request path is the normal form root ++ join (comps ++ [name])
  have hjoin := joinSlash_snoc comps name hne
  have hall : ∀ c ∈ comps ++ [name], PV.Canon.Proper c := by
    intro c hcm
    simp only [List.mem_append, List.mem_singleton] at hcm
    rcases hcm with hcm | hcm
    · exact hc c hcm
    · subst hcm; exact hn
  have hform : root ++ PV.Canon.joinSlash comps ++ 47 :: name
      = root ++ PV.Canon.joinSlash (comps ++ [name]) := by rw [hjoin]; simp [List.append_assoc]
  rw [hform]
  have habs : PV.Canon.isabs (root ++ PV.Canon.joinSlash (comps ++ [name])) = true := by
    rcases hroot with e | e <;> subst e <;> simp [PV.Canon.isabs, PV.Canon.slash]
  unfold PV.Canon.canonicalize
  simp only [habs, if_true]
  exact PV.Canon.normpath_normal root (comps ++ [name]) hroot hall

/-! ## attribute operations on an open handle with write buffering -/

/-- **Buffering is invisible.** For every open mode (append or not), every buffer size, every initial file and
position and every program of writes, `truncate`s and `chmod`/`chown`/`utime` calls on the handle: the served file,
once the pending data is written (which `close` does), is exactly what the local file object produces for the same
program (every write taking effect at once, at the position or — in append mode — at the end of file). -/
theorem handle_program_local_meaning (file : Bytes) (p0 : Nat) (append : Bool) (bufsize : Nat)
    (prog : List PV.HandleProg.Op) :
    PV.HandleProg.settled
      (PV.HandleProg.run { file := file, realpos := p0, wbuf := [], append := append, bufsize := bufsize } prog).1
      = (PV.HandleProg.refRun { file := file, pos := p0, append := append } prog).file := by
  have h := PV.HandleProg.run_inv prog
    { file := file, realpos := p0, wbuf := [], append := append, bufsize := bufsize }
    { file := file, pos := p0, append := append }
    ⟨by simp [PV.HandleProg.settled, PV.HandleProg.apply], by simp, rfl, fun _ => rfl⟩
  exact h.1.symm

/-- `close` (and `flush`) leaves nothing pending and makes the served file the settled one -/
theorem close_settles (s : PV.HandleProg.St) :
    (PV.HandleProg.step s .close).1.file = PV.HandleProg.settled s ∧ (PV.HandleProg.step s .close).1.wbuf = [] :=
  ⟨(PV.HandleProg.flush_settled s).1, (PV.HandleProg.flush_settled s).2.1⟩

/-- **Truncate on a handle.** The resize applies to the file INCLUDING everything written through the handle so
far (the buffer is flushed first, the FSETSTAT goes out after the WRITE): contents' = take n c ++ zeros (n − |c|)
where `c` is the settled file; nothing stays pending. -/
theorem handle_truncate (s : PV.HandleProg.St) (n : Nat) :
    (PV.HandleProg.step s (.truncate n)).1.file = PV.HandleProg.truncated (PV.HandleProg.settled s) n ∧
      (PV.HandleProg.step s (.truncate n)).1.wbuf = [] ∧
      (PV.HandleProg.step s (.truncate n)).2 = (PV.HandleProg.flush s).2 ++ [PV.HandleProg.Ev.T n] := by
  obtain ⟨f1, f2, _⟩ := PV.HandleProg.flush_settled s
  simp [PV.HandleProg.step, f1, f2]

/-! ## the hypotheses are satisfiable; the classic case -/

theorem toy_laws : OSLaws toyOS := ⟨fun _ _ => rfl, fun _ _ _ => rfl, fun _ _ _ => rfl, fun _ _ => rfl⟩

example : (Op.truncate 5).InRange := by simp [Op.InRange]

/-- truncating "hello world" to 5 keeps "hello" (the unrepaired code produced five NULs) -/
example : (toyOS.run ⟨[104, 101, 108, 108, 111, 32, 119, 111, 114, 108, 100], 420, 0, 0, 1, 2⟩
    [Call.truncate 5]).content = [104, 101, 108, 108, 111] := by decide

example : truncated [1, 2] 4 = [1, 2, 0, 0] := by decide

/-- after `chdir("/sub")`, `truncate("f", …)` names `/sub/f`, not `/f` -/
example : adjustCwd (some [47, 115, 117, 98]) [102] = [47, 115, 117, 98, 47, 102] := by decide

/-- append mode, 4096-byte buffer: "AAAAAAAA", write "bbbb", truncate 16, close ↦ "AAAAAAAAbbbb" + 4 zeros,
with the WRITE on the wire before the FSETSTAT -/
example : PV.HandleProg.run ⟨[65, 65, 65, 65, 65, 65, 65, 65], 8, [], true, 4096⟩
    [.write [98, 98, 98, 98], .truncate 16, .close]
    = (⟨[65, 65, 65, 65, 65, 65, 65, 65, 98, 98, 98, 98, 0, 0, 0, 0], 12, [], true, 4096⟩,
       [.W 8 4, .T 16]) := by decide

end PV.Props.C31
