/-
  C28 — Prefetched and vectored SFTP reads return exactly the file's bytes.
  Property theorems only.  Model: PV/Model/Prefetch.lean (reader, prefetch threads, short-reading server; one
  action = one atomic region; `run s acts` = the state after the schedule `acts`, any length, any interleaving).
  Invariant proofs: PV/Model/PrefetchInv.lean (content), PV/Model/PrefetchLive.lean (everything a waiting party depends
  on is in flight), PV/Model/PrefetchUniq.lean (request numbers are fresh and in flight at most once).
-/
import PV.Model.PrefetchUniq
import PV.Model.PrefetchCtx
import PV.Generated.C28
namespace PV.Props.C28
open PV PV.Prefetch

/-- Every prefetch buffer holds true file content at its offset — after any schedule of any operations
    (any chunk lists: overlapping, unordered, beyond EOF; any caps; any short reads `serve k`; failing requests;
    unbuffered or buffered file, `bufsize`). -/
theorem buffers_hold_file_content (file : Bytes) (maxReq : Nat) (hm : 0 < maxReq) (bufsize : Nat) (acts : List Act) :
    ∀ e ∈ (run (init file maxReq bufsize) acts).bufs, e.2 = slice file e.1 e.2.length := by
  intro e he
  have hi := (run_inv (init_inv file maxReq hm bufsize) (init_rb file maxReq bufsize) acts).1
  have hf : (run (init file maxReq bufsize) acts).file = file := run_file _ _
  have := hi.base.bufs e he
  rw [hf] at this
  exact this

/-- **Reads are exact.**  Every completed `read(n)` that was issued at file position `p` (`_pos`: read-ahead in
    `_rbuffer` accounted for) returned `file[p : p+n]` (Python slicing: truncated at end of file), and every
    completed `read()` returned `file[p:]` — for every schedule, every program of prefetch/readv/seek/read, every
    cap, every short-read choice, failing requests, unbuffered and buffered files. -/
theorem reads_exact (file : Bytes) (maxReq : Nat) (hm : 0 < maxReq) (bufsize : Nat) (acts : List Act) :
    ∀ e ∈ (run (init file maxReq bufsize) acts).out,
      e.2.2 = (match e.2.1 with | some n => slice file e.1 n | none => file.drop e.1) := by
  intro e he
  have hi := (run_inv (init_inv file maxReq hm bufsize) (init_rb file maxReq bufsize) acts).1
  have := hi.base.out e he
  rw [run_file] at this
  exact this

/-- The read-ahead bookkeeping of BufferedFile: after any schedule `_rbuffer` holds the file's bytes at `_pos`, and
    between calls `_realpos = _pos + len(_rbuffer)`. -/
theorem read_ahead_consistent (file : Bytes) (maxReq : Nat) (hm : 0 < maxReq) (bufsize : Nat) (acts : List Act) :
    RbOK (run (init file maxReq bufsize) acts) :=
  (run_inv (init_inv file maxReq hm bufsize) (init_rb file maxReq bufsize) acts).2

/-- **readv blocks are exact** (with `reads_exact`): one step of readv's final loop — `seek(off); read(n)`, the
    model's `readAt off n` — starts a read at exactly `off` whatever read-ahead was buffered before (or has already
    completed it: the new `out` entry is for `(off, n)`), -/
theorem readv_block_starts_at_its_offset (s s' : St) (off : Nat) (want : Option Nat)
    (h : step s (.rOp (.readAt off want)) = some s') : Continues off want s s' := by
  simp only [step] at h
  cases hpc : s.pc with
  | idle =>
    simp only [hpc] at h; cases h
    exact continues_frame (s := { s with realpos := off, pos := off, rbuf := [] }) rfl rfl
      (advance_continues _ _ { start := off, want := want, acc := [], size := 0 })
  | _ => simp [hpc] at h

/-- …and a running read keeps its start position and requested size through every later step of the reader until
    it completes (its entry in `out` is `(start, want, bytes)`, and `reads_exact` says `bytes = file[start :
    start+want]`) or raises. -/
theorem running_read_keeps_its_start (s s' : St) (c : RCtx) (hc : pcCtx s.pc = some c)
    (h : step s .rStep = some s') : Continues c.start c.want s s' :=
  rStep_continues hc h

/-- non-vacuity (read-ahead): a buffered file (`bufsize` 4) reads 1 byte — 4 are fetched, 3 stay in `_rbuffer`,
    `_pos` = 1, `_realpos` = 4 — and a readv block that starts exactly where the read-ahead ended (offset 4 =
    `_realpos`) still returns file[4:6], not the buffered bytes at `_pos`. -/
example :
    let s := run (init [10, 11, 12, 13, 14, 15, 16, 17] 8 4)
      [.rOp (.read (some 1)), .rStep, .rStep, .serve 4, .rStep]
    s.out = [(0, some 1, [10])] ∧ s.pos = 1 ∧ s.rbuf = [11, 12, 13] ∧ s.realpos = 4 ∧
    (run s [.rOp (.readAt 4 (some 2)), .rStep, .rStep, .serve 2, .rStep]).out
      = [(0, some 1, [10]), (4, some 2, [14, 15])] := by decide

/-- the theorem instantiated at paramiko's real request size (generated from the source) -/
theorem reads_exact_paramiko (file : Bytes) (bufsize : Nat) (acts : List Act) :
    ∀ e ∈ (run (init file PV.Generated.C28.maxRequestSize bufsize) acts).out,
      e.2.2 = (match e.2.1 with | some n => slice file e.1 n | none => file.drop e.1) :=
  reads_exact file _ (by decide) bufsize acts

/-- non-vacuity: a concrete schedule in which a capped readv with a beyond-EOF chunk first (the input that hung
    before the fix) completes both reads with the right bytes. -/
example :
    (run (init [10, 11, 12, 13, 14, 15, 16, 17] 4)
      [.rOp (.readv [(20, 3), (2, 3)] (some 1)), .tCheck 0, .tAlloc 0, .tSend 0, .tReg 0, .serve 3,
       .rOp (.seek 20), .rOp (.read (some 3)), .rStep, .rStep, .rStep, .rStep, .serve 3, .rStep,
       .rOp (.seek 2), .rOp (.read (some 3)), .rStep, .rStep, .serve 2, .rStep, .rStep, .rStep, .serve 9, .rStep]).out
      = [(20, some 3, []), (2, some 3, [12, 13, 14])] := by decide


/-! ## no hang -/

/-- Request numbers are never reused while in flight.  The model's allocation step (`tAlloc`, `allocSync`) takes a
    fresh number *and* makes it the id of the packet in one atomic action; that this is what the code does is read
    from the AST of `SFTPClient._async_request` on every run (`idReadUnderLock`: every use of `self.request_number`
    — the id written into the message, the registration in `_expecting`, the increment — lies inside the
    `self._lock` region) and is part of this theorem.  Then, after any schedule: every request number occurs at most
    once among the requests on the wire, the queued responses and the response being dispatched; a registered
    extent is keyed by the number of a request that is still in flight; and an answer whose extent is not registered
    yet belongs to a prefetch thread that is between "packet sent" and "extent registered". -/
theorem request_numbers_unique (file : Bytes) (maxReq bufsize : Nat) (acts : List Act) (hcaps : ∀ a ∈ acts, actOK a) :
    PV.Generated.C28.idReadUnderLock = true ∧
    Live (run (init file maxReq bufsize) acts) ∧ Uniq (run (init file maxReq bufsize) acts) :=
  ⟨by decide, run_live_uniq (init_live file maxReq bufsize) (init_uniq file maxReq bufsize) acts hcaps⟩

/-- The model's locked regions (`tCheck`, `tReg`, the locked part of `_async_response`) are single atomic actions that
    never wait for the lock themselves; that the code does not ask for `_prefetch_lock` — a plain, non-re-entrant
    `threading.Lock` — while holding it (no `with self._prefetch_lock:` block calls its own method or another one
    that takes the lock) is read from the AST of `SFTPFile` on every run.  The no-hang theorems below stand on it. -/
theorem prefetch_lock_never_reentered : PV.Generated.C28.prefetchLockNotReentered = true := by decide

/-- **A blocked reader is never stuck.**  After any schedule of any program whose caps are `None` or ≥ 1: whenever
    the reader cannot take its next step — it waits for a response packet (inside `_read_prefetch` or inside a
    synchronous read) and none is queued, **or** it spins in `_async_response` because the answer in hand arrived
    before `_prefetch_thread` registered its extent — some other task (the server or a prefetch thread) is enabled.
    Before the fix this failed: a STATUS answer left its extent behind, so with nothing in flight the reader
    waited and a capped prefetch thread spun. -/
theorem waiting_reader_not_stuck (file : Bytes) (maxReq bufsize : Nat) (acts : List Act)
    (hcaps : ∀ a ∈ acts, actOK a) (hb : ReaderBlocked (run (init file maxReq bufsize) acts)) :
    ∃ a, nonReader a ∧ (step (run (init file maxReq bufsize) acts) a).isSome = true := by
  obtain ⟨hl, hu⟩ := run_live_uniq (init_live file maxReq bufsize) (init_uniq file maxReq bufsize) acts hcaps
  exact blocked_not_stuck hl hu hb

/-- The other tasks cannot keep running for ever without the reader: every non-reader action strictly decreases
    the measure `mu` (7 per chunk still to be requested, 2 per request on the wire, 1 per queued response). -/
theorem nonreader_actions_decrease_measure (s s' : St) (a : Act) (hn : nonReader a) (h : step s a = some s') :
    mu s' < mu s :=
  nonReader_step_decreases hn h

/-- **Bounded wait.**  From any reachable state, let the server and the prefetch threads run (any interleaving,
    every action enabled when taken): that takes at most `mu` steps, and once none of them can move the reader is
    not blocked — so under any fair schedule a blocked reader proceeds. -/
theorem bounded_wait (file : Bytes) (maxReq bufsize : Nat) (acts : List Act) (hcaps : ∀ a ∈ acts, actOK a)
    (others : List Act) (ho : ∀ a ∈ others, nonReader a) (s' : St)
    (hrun : runStrict (run (init file maxReq bufsize) acts) others = some s') :
    others.length ≤ mu (run (init file maxReq bufsize) acts) ∧
    ((∀ a, nonReader a → step s' a = none) → ¬ ReaderBlocked s') := by
  constructor
  · have := nonReader_run_bounded ho hrun
    omega
  · intro hnone hb
    obtain ⟨hl0, hu0⟩ := run_live_uniq (init_live file maxReq bufsize) (init_uniq file maxReq bufsize) acts hcaps
    obtain ⟨hl, hu⟩ := runStrict_live_uniq hl0 hu0 (fun a ha => nonReader_actOK (ho a ha)) hrun
    obtain ⟨a, ha, hen⟩ := blocked_not_stuck hl hu hb
    rw [hnone a ha] at hen
    cases hen

/-- **cap = 0** (`max_concurrent_requests=0`, outside the property's range None, 1..8 and excluded by `actOK`): the
    code's test `len(self._prefetch_extents) < 0` never holds, so the prefetch thread never sends anything while
    `_start_prefetch` has cleared `_prefetch_done`: the first read outside the buffers waits for a response with
    nothing outstanding and nothing enabled.  The model does exactly that (and so does the real code: the lockstep
    run replays this case every time). -/
theorem cap_zero_starves_witness :
    let s := run (init [1, 2, 3, 4, 5, 6, 7, 8] 4) [.rOp (.readv [(2, 3)] (some 0)), .rOp (.seek 2), .rOp (.read (some 3))]
    ReaderBlocked s ∧ (step s (.serve 1)).isSome = false ∧ (step s (.tCheck 0)).isSome = false ∧
    (step s (.tAlloc 0)).isSome = false ∧ (step s (.tSend 0)).isSome = false ∧ (step s (.tReg 0)).isSome = false := by
  refine ⟨⟨by decide, by decide⟩, by decide, by decide, by decide, by decide, by decide⟩

/-- non-vacuity: a reachable state in which the reader does wait for a response (capped readv, first chunk beyond
    EOF, nothing answered yet), and the enabled peer the theorem promises. -/
example :
    ReaderBlocked (run (init [1, 2, 3, 4, 5, 6, 7, 8] 4)
      [.rOp (.readv [(20, 3), (2, 3)] (some 1)), .tCheck 0, .tAlloc 0, .tSend 0, .tReg 0,
       .rOp (.seek 20), .rOp (.read (some 3))]) ∧
    (step (run (init [1, 2, 3, 4, 5, 6, 7, 8] 4)
      [.rOp (.readv [(20, 3), (2, 3)] (some 1)), .tCheck 0, .tAlloc 0, .tSend 0, .tReg 0,
       .rOp (.seek 20), .rOp (.read (some 3))]) (.serve 1)).isSome = true := by
  refine ⟨⟨by decide, by decide⟩, by decide⟩

/-- non-vacuity of the spin case: the answer is in the reader's hands (`dispPf`) while the thread has sent the
    request but not registered the extent; the reader is blocked and `tReg` is the enabled peer. -/
example :
    ReaderBlocked (run (init [1, 2, 3, 4, 5, 6, 7, 8] 4)
      [.rOp (.readv [(2, 3)] none), .tCheck 0, .tAlloc 0, .tSend 0, .serve 3, .rOp (.seek 2), .rOp (.read (some 3)),
       .rStep]) ∧
    (step (run (init [1, 2, 3, 4, 5, 6, 7, 8] 4)
      [.rOp (.readv [(2, 3)] none), .tCheck 0, .tAlloc 0, .tSend 0, .serve 3, .rOp (.seek 2), .rOp (.read (some 3)),
       .rStep]) (.tReg 0)).isSome = true := by
  refine ⟨⟨by decide, by decide⟩, by decide⟩

end PV.Props.C28
