import PV.Model.Prefetch
namespace PV.Props.C28
open PV PV.Prefetch
theorem placeholder : True := trivial
end PV.Props.C28
