/-
  C28 — Prefetched and vectored SFTP reads return exactly the file's bytes.
  Property theorems only.  Model: PV/Model/Prefetch.lean (reader, prefetch threads, short-reading server; one
  action = one atomic region; `run s acts` = the state after the schedule `acts`, any length, any interleaving).
  Invariant proofs: PV/Model/PrefetchInv.lean, PV/Model/PrefetchLive.lean.
-/
import PV.Model.PrefetchLive
import PV.Generated.C28
namespace PV.Props.C28
open PV PV.Prefetch

/-- Every prefetch buffer holds true file content at its offset — after any schedule of any operations
    (any chunk lists: overlapping, unordered, beyond EOF; any caps; any short reads `serve k`). -/
theorem buffers_hold_file_content (file : Bytes) (maxReq : Nat) (hm : 0 < maxReq) (acts : List Act) :
    ∀ e ∈ (run (init file maxReq) acts).bufs, e.2 = slice file e.1 e.2.length := by
  intro e he
  have hi := run_inv (init_inv file maxReq hm) acts
  have hf : (run (init file maxReq) acts).file = file := run_file _ _
  have := hi.base.bufs e he
  rw [hf] at this
  exact this

/-- **Reads are exact.**  Every completed `read(n)` that started at position `p` returned `file[p : p+n]`
    (Python slicing: truncated at end of file), and every completed `read()` returned `file[p:]` —
    for every schedule, every program of prefetch/readv/seek/read, every cap, every short-read choice. -/
theorem reads_exact (file : Bytes) (maxReq : Nat) (hm : 0 < maxReq) (acts : List Act) :
    ∀ e ∈ (run (init file maxReq) acts).out,
      e.2.2 = (match e.2.1 with | some n => slice file e.1 n | none => file.drop e.1) := by
  intro e he
  have hi := run_inv (init_inv file maxReq hm) acts
  have := hi.base.out e he
  rw [run_file] at this
  exact this

/-- the theorem instantiated at paramiko's real request size (generated from the source) -/
theorem reads_exact_paramiko (file : Bytes) (acts : List Act) :
    ∀ e ∈ (run (init file PV.Generated.C28.maxRequestSize) acts).out,
      e.2.2 = (match e.2.1 with | some n => slice file e.1 n | none => file.drop e.1) :=
  reads_exact file _ (by decide) acts

/-- non-vacuity: a concrete schedule in which a capped readv with a beyond-EOF chunk first (the input that hung
    before the fix) completes both reads with the right bytes. -/
example :
    (run (init [10, 11, 12, 13, 14, 15, 16, 17] 4)
      [.rOp (.readv [(20, 3), (2, 3)] (some 1)), .tCheck 0, .tAlloc 0, .tSend 0, .tReg 0, .serve 3,
       .rOp (.seek 20), .rOp (.read (some 3)), .rStep, .rStep, .rStep, .rStep, .serve 3, .rStep,
       .rOp (.seek 2), .rOp (.read (some 3)), .rStep, .rStep, .serve 2, .rStep, .rStep, .rStep, .serve 9, .rStep]).out
      = [(20, some 3, []), (2, some 3, [12, 13, 14])] := by decide


/-! ## no hang -/

/-- **A reader that waits for a response is never stuck** (partial: see below).  After any schedule of any
    program whose caps are `None` or ≥ 1: if the reader is blocked waiting for a response packet (inside
    `_read_prefetch` or inside a synchronous read) and none is queued, then some other task — the server or a
    prefetch thread — is enabled.  Before the fix this failed: a STATUS answer left its extent behind, so with
    nothing in flight the reader waited and a capped prefetch thread spun.
    Partial because one other blocking point of the reader is not covered: the spin in `_async_response` that waits
    for `_prefetch_thread` to register the extent of an answer that has already arrived (the thread is between
    "packet sent" and "extent registered" then; showing that it is *that* thread needs request-number uniqueness,
    which is not part of the invariant). -/
theorem waiting_reader_not_stuck_partial (file : Bytes) (maxReq : Nat) (acts : List Act)
    (hcaps : ∀ a ∈ acts, actOK a) (hw : WaitsForResponse (run (init file maxReq) acts)) :
    ∃ a, nonReader a ∧ (step (run (init file maxReq) acts) a).isSome = true :=
  waiting_not_stuck (run_live (init_live file maxReq) acts hcaps) hw

/-- The other tasks cannot keep running for ever without the reader: every non-reader action strictly decreases
    the measure `mu` (7 per chunk still to be requested, 2 per request on the wire, 1 per queued response). -/
theorem nonreader_actions_decrease_measure (s s' : St) (a : Act) (hn : nonReader a) (h : step s a = some s') :
    mu s' < mu s :=
  nonReader_step_decreases hn h

/-- **Bounded wait.**  From any reachable state, let the server and the prefetch threads run (any interleaving,
    every action enabled when taken): that takes at most `mu` steps, and once none of them can move the reader is
    not waiting for a response — so under any fair schedule a waiting reader gets its answer. -/
theorem bounded_wait_partial (file : Bytes) (maxReq : Nat) (acts : List Act) (hcaps : ∀ a ∈ acts, actOK a)
    (others : List Act) (ho : ∀ a ∈ others, nonReader a) (s' : St)
    (hrun : runStrict (run (init file maxReq) acts) others = some s') :
    others.length ≤ mu (run (init file maxReq) acts) ∧
    ((∀ a, nonReader a → step s' a = none) → ¬ WaitsForResponse s') := by
  constructor
  · have := nonReader_run_bounded ho hrun
    omega
  · intro hnone hw
    have hl := runStrict_live (run_live (init_live file maxReq) acts hcaps)
      (fun a ha => nonReader_actOK (ho a ha)) hrun
    obtain ⟨a, ha, hen⟩ := waiting_not_stuck hl hw
    rw [hnone a ha] at hen
    cases hen

/-- non-vacuity: a reachable state in which the reader does wait for a response (capped readv, first chunk beyond
    EOF, nothing answered yet), and the enabled peer the theorem promises. -/
example :
    WaitsForResponse (run (init [1, 2, 3, 4, 5, 6, 7, 8] 4)
      [.rOp (.readv [(20, 3), (2, 3)] (some 1)), .tCheck 0, .tAlloc 0, .tSend 0, .tReg 0,
       .rOp (.seek 20), .rOp (.read (some 3))]) ∧
    (step (run (init [1, 2, 3, 4, 5, 6, 7, 8] 4)
      [.rOp (.readv [(20, 3), (2, 3)] (some 1)), .tCheck 0, .tAlloc 0, .tSend 0, .tReg 0,
       .rOp (.seek 20), .rOp (.read (some 3))]) (.serve 1)).isSome = true := by
  refine ⟨⟨by decide, Or.inl ⟨⟨20, some 3, [], 3⟩, by decide⟩⟩, by decide⟩

end PV.Props.C28
