/-
  C19 — Channel senders never exceed the peer's window or maximum packet size.
  Model: PV/Model/ChanWindow.lean (one Channel object at lock-region granularity; schedules = lists of
  atomic regions); helper lemmas: PV/Model/ChanWindowLemmas.lean.
  The theorems hold for BOTH code versions the model can mirror (`cfg` is universally quantified).
-/
import PV.Model.ChanWindowLemmas
import PV.Generated.C19
import PV.Generated.ChanLock
namespace PV.Props.C19
open PV.Chan

/-- the clamp constants of the model are the ones in paramiko/common.py (regenerated on every run), and the
    4096-byte floor of the statement is that minimum -/
theorem constants_eq_generated :
    MIN_PACKET_SIZE = PV.Generated.C19.MIN_PACKET_SIZE ∧ MAX_WINDOW_SIZE = PV.Generated.C19.MAX_WINDOW_SIZE ∧
    PV.Generated.C19.MIN_PACKET_SIZE = 4096 ∧ PV.Generated.C19.MAX_WINDOW_SIZE = 4294967295 := by
  decide

/-- **`out_window_size` is only touched under `self.lock`** once the channel is open: every read and every write
    in class Channel (table generated from the AST of channel.py on this run; helpers documented "you are holding
    the lock" count only if every call site is locked) — except the constructor, `_set_remote_channel` (runs before
    the channel is active) and the read-only `__repr__`.  This is what makes "reserve" and "adjust" atomic regions
    of the model; a read outside the lock that feeds a later locked write is a lost update. -/
theorem window_accesses_locked :
    ∀ a ∈ PV.Generated.ChanLock.windowAccesses,
      a.1 ≠ "__init__" → a.1 ≠ "_set_remote_channel" → a.1 ≠ "__repr__" → a.2.2 = true := by
  decide

/-- **`in_window_sofar` is written only by `_check_add_window`** (and set to 0 by the constructor and `_set_window`):
    the methods of class Channel that assign it, from the AST of channel.py on this run.  The credit bound
    `adjust_le_consumed` (Σ adjusts ≤ bytes handed to the application) speaks about the code only together with this:
    nothing else — e.g. moving buffered stderr bytes into the stdout buffer in `set_combine_stderr` — may credit. -/
theorem sofar_written_only_by_check_add_window :
    ∀ w ∈ PV.Generated.C19.sofar_writers, w = "__init__" ∨ w = "_set_window" ∨ w = "_check_add_window" := by
  decide

/-- the clamp the model applies to the peer-advertised maximum packet size (`sanitizePkt` in `init`) is in the
    source where the model has it: `_set_remote_channel` stores `_sanitize_packet_size(max_packet_size)`, which is
    `clamp_value(MIN_PACKET_SIZE, max_packet_size, MAX_WINDOW_SIZE)` (facts read from the AST on every run) -/
theorem clamp_is_in_the_source :
    PV.Generated.C19.remote_max_packet_sanitised = true ∧ PV.Generated.C19.sanitise_is_clamp_min_max = true ∧
    PV.Generated.C19.peer_open_passes_parsed_values = true := by
  decide

private theorem winv_init (inWin peerWin peerMax nthr : Nat) (c : Bool) :
    WInv (init inWin peerWin peerMax nthr c) := by
  have : ∀ n, heldDataAll (List.replicate n (TSt.idle Res.none)) = 0 := by
    intro n; induction n with
    | zero => rfl
    | succ n ih => simp only [List.replicate_succ, heldDataAll, sumBy] at *; simp [TSt.heldData, ih]
  simp [WInv, init, dataSum, this]

private theorem pkt_init (inWin peerWin peerMax nthr : Nat) (c : Bool) :
    PktInv (init inWin peerWin peerMax nthr c) := by
  refine ⟨by simp [init], ?_⟩
  intro x hx
  simp only [init, List.mem_replicate] at hx
  rw [hx.2]
  exact okHeld_of_not_hold _ _ (by intro ms k h; cases h)

private theorem ainv_init (inWin peerWin peerMax nthr : Nat) (c : Bool) :
    AInv (init inWin peerWin peerMax nthr c) := by
  have : ∀ n, heldAdjAll (List.replicate n (TSt.idle Res.none)) = 0 := by
    intro n; induction n with
    | zero => rfl
    | succ n ih => simp only [List.replicate_succ, heldAdjAll, sumBy] at *; simp [TSt.heldAdj, ih]
  simp [AInv, init, adjSum, this]

/-- **Window equation, every schedule.**  After any list of atomic regions executed by any number of
    threads (sends, sendalls, wake-ups, wire writes, reads, closes, peer messages in any order):
    bytes on the wire + bytes reserved by threads that have not written yet + remaining window
    + bytes whose `_send_user_message` raised (a failed send returns NOTHING to the window — the reservation is
    consumed or lost, never handed back larger than it was)
    = initial window + every WINDOW_ADJUST received. -/
theorem window_equation (cfg : Cfg) (inWin peerWin peerMax nthr : Nat) (c : Bool) (sched : List Act) :
    let s := run cfg (init inWin peerWin peerMax nthr c) sched
    dataSum s.wire + heldDataAll s.thr + s.outWin + s.leaked = peerWin + adjustsIn sched := by
  intro s
  have h := run_winv cfg _ sched (winv_init inWin peerWin peerMax nthr c)
  have g := run_granted cfg (init inWin peerWin peerMax nthr c) sched
  simp only [WInv] at h
  show dataSum (run cfg _ sched).wire + _ + _ + _ = _
  rw [h, g]; rfl

/-- **Clause 1.**  The data bytes sent (CHANNEL_DATA and CHANNEL_EXTENDED_DATA together) never exceed the
    window the peer granted initially plus all adjustments it has sent — at every point of every schedule. -/
theorem sent_le_granted (cfg : Cfg) (inWin peerWin peerMax nthr : Nat) (c : Bool) (sched : List Act) :
    dataSum (run cfg (init inWin peerWin peerMax nthr c) sched).wire ≤ peerWin + adjustsIn sched := by
  have := window_equation cfg inWin peerWin peerMax nthr c sched
  simp only at this
  omega

/-- **Clause 2.**  Every data message ever written is non-empty and at most `out_max_packet_size - 64`
    bytes long; when the peer's maximum packet size is at least the 4096-byte floor (and fits the uint32
    field) that is below the peer's own limit. -/
theorem data_msg_le_peer_max (cfg : Cfg) (inWin peerWin peerMax nthr : Nat) (c : Bool) (sched : List Act)
    (m : Msg) (hm : m ∈ (run cfg (init inWin peerWin peerMax nthr c) sched).wire) (hd : m.isData = true) :
    1 ≤ m.dataLen ∧ m.dataLen ≤ sanitizePkt peerMax - 64 ∧
    (4096 ≤ peerMax → peerMax ≤ 4294967295 → m.dataLen + 64 ≤ peerMax) := by
  have h := run_pkt cfg _ sched (pkt_init inWin peerWin peerMax nthr c)
  have hp := run_maxPkt cfg (init inWin peerWin peerMax nthr c) sched
  have := h.1 m hm hd
  rw [hp] at this
  have e : (init inWin peerWin peerMax nthr c).maxPkt = sanitizePkt peerMax := rfl
  rw [e] at this
  refine ⟨this.1, this.2, ?_⟩
  intro h1 h2
  rw [sanitizePkt_id peerMax h1 h2] at this
  omega

/-- **Clause 3.**  The window a receiver has granted back (WINDOW_ADJUST written), plus what it has
    computed but not yet written, plus `in_window_sofar`, never exceeds the bytes its application has
    consumed (plus extended data of unknown type it threw away); and nothing the peer delivered is lost:
    consumed + discarded + still buffered = received. -/
theorem adjust_le_consumed (cfg : Cfg) (inWin peerWin peerMax nthr : Nat) (c : Bool) (sched : List Act) :
    let s := run cfg (init inWin peerWin peerMax nthr c) sched
    adjSum s.wire + heldAdjAll s.thr + s.inSofar ≤ s.consumed + s.discarded ∧
    s.consumed + s.discarded + s.inBuf + s.errBuf = s.recvd :=
  run_ainv cfg _ sched (ainv_init inWin peerWin peerMax nthr c)

/-- under the code as it was before the C20 repair nothing is ever discarded-and-credited, so the bound is
    against the application's reads alone -/
theorem adjust_le_recvd (cfg : Cfg) (inWin peerWin peerMax nthr : Nat) (c : Bool) (sched : List Act) :
    adjSum (run cfg (init inWin peerWin peerMax nthr c) sched).wire ≤
      (run cfg (init inWin peerWin peerMax nthr c) sched).recvd := by
  have := adjust_le_consumed cfg inWin peerWin peerMax nthr c sched
  simp only at this
  omega

/-- the three invariants are inductive from ANY state satisfying them, not only from `init` -/
theorem invariants_inductive (cfg : Cfg) (s : St) (sched : List Act) (h : WInv s ∧ PktInv s ∧ AInv s) :
    WInv (run cfg s sched) ∧ PktInv (run cfg s sched) ∧ AInv (run cfg s sched) :=
  ⟨run_winv cfg s sched h.1, run_pkt cfg s sched h.2.1, run_ainv cfg s sched h.2.2⟩

/-- a failed `_send_user_message` (SSHException while the transport stays alive): the call raises, nothing is
    written, the reservation is not returned to the window, the remaining messages of that call are dropped -/
theorem failed_send_returns_nothing (cfg : Cfg) (s : St) (t : Nat) (m : Msg) (ms : List Msg) (k : Kont)
    (hr : s.thr[t]? = some (.hold (m :: ms) k)) :
    (step cfg s (.emitFail t)).outWin = s.outWin ∧ (step cfg s (.emitFail t)).wire = s.wire ∧
    (step cfg s (.emitFail t)).leaked = s.leaked + dataSum (m :: ms) ∧
    (step cfg s (.emitFail t)).thr[t]? = some (.idle .sshError) := by
  have hlt : t < s.thr.length := (List.getElem?_eq_some_iff.1 hr).1
  simp only [step, hr]
  exact ⟨rfl, rfl, rfl, by simp [setThr, hlt]⟩

/-- the window limit on a message is positive in every reachable state: `out_max_packet_size` is what
    `_set_remote_channel` got from `_sanitize_packet_size`, at least 4096 whatever the peer advertised -/
theorem max_packet_clamped (cfg : Cfg) (inWin peerWin peerMax nthr : Nat) (c : Bool) (sched : List Act) :
    4096 ≤ (run cfg (init inWin peerWin peerMax nthr c) sched).maxPkt ∧
    (run cfg (init inWin peerWin peerMax nthr c) sched).maxPkt = sanitizePkt peerMax := by
  rw [run_maxPkt]
  exact ⟨sanitizePkt_ge peerMax, rfl⟩

/-- non-vacuity: a send of 6000 bytes is cut to 4032 by the packet limit, its write FAILS, a later send gets
    only what is left of the window (968), not the 6000 that were asked for -/
example :
    let s := run fixedCfg (init 32768 5000 4096 2 false)
      [.send 0 6000 false, .emitFail 0, .send 1 6000 true, .emit 1, .send 0 10 false]
    s.wire = [.ext 968] ∧ s.outWin = 0 ∧ s.leaked = 4032 ∧ s.granted = 5000 ∧
    s.thr = [.waiting 10 false none none, .idle (.ret 968)] := by
  decide +kernel

/-- non-vacuity: two writer threads race for a 5000-byte window with a 4096-byte packet limit; a third
    thread reads and acknowledges.  The schedule interleaves reservations, a window adjustment and the
    wire writes out of order. -/
example :
    let s := run fixedCfg (init 32768 5000 4096 3 false)
      [.send 0 6000 false, .send 1 6000 true, .feed 4000, .emit 1, .adjust 100, .recv 2 4000 false,
       .send 1 50 false, .check 2, .emit 0, .emit 2, .emit 1]
    s.wire = [.ext 968, .data 4032, .adjust 4000, .data 50] ∧ s.outWin = 50 ∧ s.granted = 5100 ∧
    s.consumed = 4000 ∧ s.inSofar = 0 := by
  decide +kernel

end PV.Props.C19
