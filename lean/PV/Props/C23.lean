/-
  C23 — Live channel IDs are unique within a transport.
  Model: PV/Model/ChanIds.lean; generated kernel: PV/Generated/C23.lean (translated from the source of
  Transport._next_channel on every run).
-/
import PV.Model.ChanIds
import PV.Generated.C23
import PV.Generated.ChanLock
namespace PV.Props.C23
open PV.ChanIds

/-! ## the model is the translated source -/

private theorem loop1_eq_scan (live : Nat → Bool) (fuel c : Nat) :
    PV.Generated.C23.loop1 live fuel c c = (scan live fuel c).map fun id => (id, id) := by
  induction fuel generalizing c with
  | zero => simp [PV.Generated.C23.loop1, scan]
  | succ n ih =>
    simp only [PV.Generated.C23.loop1, scan]
    split
    · exact ih _
    · simp

/-- The hand-written `nextChannel` equals the kernel translated from `Transport._next_channel`
    (result pair in the generated order: new counter, chanid). -/
theorem model_eq_generated (live : Nat → Bool) (c : Nat) :
    PV.Generated.C23.next_channel live M c = (nextChannel live c).map fun r => (r.2, r.1) := by
  unfold PV.Generated.C23.next_channel nextChannel
  simp only [loop1_eq_scan]
  cases scan live M c <;> simp [M]

/-! ## `_next_channel` alone -/

/-- the scan only returns ids that are not live, below 2^24 when it started below 2^24 -/
theorem scan_sound (live : Nat → Bool) (fuel c id : Nat) (h : scan live fuel c = some id) :
    live id = false ∧ (c < M → id < M) := by
  induction fuel generalizing c with
  | zero => simp [scan] at h
  | succ n ih =>
    simp only [scan] at h
    split at h
    · have := ih _ h
      exact ⟨this.1, fun _ => this.2 (Nat.mod_lt _ (by decide))⟩
    · cases h; simp_all

private theorem scan_finds (live : Nat → Bool) :
    ∀ (k fuel c : Nat), k < fuel → live ((c + k) % M) = false → c < M → (scan live fuel c).isSome := by
  intro k
  induction k with
  | zero =>
    intro fuel c hk hl hc
    cases fuel with
    | zero => omega
    | succ f =>
      have : (c + 0) % M = c := by simpa using Nat.mod_eq_of_lt hc
      rw [this] at hl
      simp [scan, hl]
  | succ k ih =>
    intro fuel c hk hl hc
    cases fuel with
    | zero => omega
    | succ f =>
      simp only [scan]
      split
      · apply ih f ((c + 1) % M) (by omega) _ (Nat.mod_lt _ (by decide))
        have : ((c + 1) % M + k) % M = (c + (k + 1)) % M := by
          unfold M; omega
        rw [this]; exact hl
      · rfl

private theorem pigeon : ∀ (n : Nat) (l : List Nat), l.length < n → ∃ x, x < n ∧ x ∉ l := by
  intro n
  induction n with
  | zero => intro l h; omega
  | succ n ih =>
    intro l h
    by_cases hn : n ∈ l
    · have hlen : (l.erase n).length < n := by
        rw [List.length_erase_of_mem hn]
        have : 0 < l.length := List.length_pos_of_mem hn
        omega
      obtain ⟨x, hx, hxl⟩ := ih (l.erase n) hlen
      refine ⟨x, by omega, fun hmem => hxl ?_⟩
      exact (List.mem_erase_of_ne (by omega)).2 hmem
    · exact ⟨n, by omega, hn⟩

/-- sufficient fuel: with a counter below 2^24 and some id below 2^24 not live, 2^24 iterations of the
    `while` loop are enough (the loop of the real code terminates) -/
theorem scan_complete (live : Nat → Bool) (c x : Nat) (hc : c < M) (hx : x < M) (hl : live x = false) :
    (scan live M c).isSome := by
  apply scan_finds live ((x + M - c) % M) M c (Nat.mod_lt _ (by decide)) _ hc
  have : (c + (x + M - c) % M) % M = x := by unfold M at *; omega
  rw [this]; exact hl

/-- `_next_channel` terminates whenever fewer than 2^24 ids are live -/
theorem nextChannel_total (s : St) (hc : s.counter < M) (hlen : s.live.length < M) :
    (nextChannel (isLive s) s.counter).isSome := by
  obtain ⟨x, hx, hxl⟩ := pigeon M s.live hlen
  have hl : isLive s x = false := by simp [isLive, hxl]
  have := scan_complete (isLive s) s.counter x hc hx hl
  unfold nextChannel
  cases h : scan (isLive s) M s.counter with
  | none => simp [h] at this
  | some id => simp

/-- the id `_next_channel` returns is not in the channel map and fits in 24 bits; so does the new counter -/
theorem nextChannel_fresh (s : St) (id c' : Nat) (hc : s.counter < M)
    (h : nextChannel (isLive s) s.counter = some (id, c')) :
    id ∉ s.live ∧ id < M ∧ c' < M ∧ c' = (id + 1) % M := by
  unfold nextChannel at h
  cases hs : scan (isLive s) M s.counter with
  | none => simp [hs] at h
  | some i =>
    simp only [hs, Option.some.injEq, Prod.mk.injEq] at h
    obtain ⟨h1, h2⟩ := h
    subst h1
    have := scan_sound _ _ _ _ hs
    refine ⟨by simpa [isLive] using this.1, this.2 hc, ?_, h2.symm⟩
    rw [← h2]; exact Nat.mod_lt _ (by decide)

example : nextChannel (isLive { init 16777214 with live := [16777214, 16777215, 0, 1, 3] }) 16777214 = some (2, 3) := by
  decide +kernel

/-! ## every history of opens, peer opens and closes -/

/-- inductive invariant -/
def Inv (s : St) : Prop :=
  s.counter < M ∧ s.ticks % M = s.counter ∧ s.live.Nodup ∧ (∀ id ∈ s.live, id < M) ∧
  (∀ p tp, s.pending = some (p, tp) → p = tp % M ∧ tp < s.ticks ∧ p < M ∧ (s.ticks - tp ≤ M → p ∉ s.live)) ∧
  (s.late = false → s.collisions = 0)

private theorem inv_init (c : Nat) (hc : c < M) : Inv (init c) := by
  refine ⟨hc, Nat.mod_eq_of_lt hc, List.nodup_nil, ?_, ?_, ?_⟩ <;> simp [init]

private theorem put_fresh (s : St) (id : Nat) (h : id ∉ s.live) :
    put s id = { s with live := id :: s.live, openIds := id :: s.openIds } := by
  simp [put, h]

private theorem alloc_arith (ticks c id : Nat) (hc : c < M) (hid : id < M) (ht : ticks % M = c) :
    (ticks + advance c id) % M = (id + 1) % M ∧ (ticks + advance c id - 1) % M = id ∧
    ticks < ticks + advance c id := by
  unfold advance M at *
  omega

private theorem stamp_ne (tp tq : Nat) (h1 : tp < tq) (h2 : tq - tp < M) : tp % M ≠ tq % M := by
  unfold M at *; omega

private theorem step_inv (s : St) (a : Act) (h : Inv s) : Inv (step s a) := by
  obtain ⟨hc, ht, hnd, hlt, hp, hcol⟩ := h
  cases a with
  | openLocal =>
    simp only [step]
    cases hn : nextChannel (isLive s) s.counter with
    | none => exact ⟨hc, ht, hnd, hlt, hp, hcol⟩
    | some r =>
      obtain ⟨id, c'⟩ := r
      obtain ⟨hfresh, hid, hc', hc'eq⟩ := nextChannel_fresh s id c' hc hn
      obtain ⟨a1, a2, a3⟩ := alloc_arith s.ticks s.counter id hc hid ht
      simp only
      rw [put_fresh _ _ (by simpa using hfresh)]
      refine ⟨hc', by simp only; rw [a1, hc'eq], List.nodup_cons.2 ⟨hfresh, hnd⟩, ?_, ?_, hcol⟩
      · intro i hi
        simp only [List.mem_cons] at hi
        rcases hi with rfl | hi
        · exact hid
        · exact hlt i hi
      · intro p tp hpend
        obtain ⟨e1, e2, e3, e4⟩ := hp p tp hpend
        refine ⟨e1, by simp only; omega, e3, ?_⟩
        intro hle
        simp only at hle
        simp only [List.mem_cons, not_or]
        refine ⟨?_, e4 (by omega)⟩
        have := stamp_ne tp (s.ticks + advance s.counter id - 1) (by omega) (by omega)
        rw [a2, ← e1] at this
        exact this
  | peerAlloc =>
    simp only [step]
    cases hpd : s.pending with
    | some _ => exact ⟨hc, ht, hnd, hlt, hp, hcol⟩
    | none =>
      simp only
      cases hn : nextChannel (isLive s) s.counter with
      | none =>
        refine ⟨hc, ht, hnd, hlt, ?_, hcol⟩
        intro p tp hpend
        simp at hpend
      | some r =>
        obtain ⟨id, c'⟩ := r
        obtain ⟨hfresh, hid, hc', hc'eq⟩ := nextChannel_fresh s id c' hc hn
        obtain ⟨a1, a2, a3⟩ := alloc_arith s.ticks s.counter id hc hid ht
        refine ⟨hc', by simp only; rw [a1, hc'eq], hnd, hlt, ?_, hcol⟩
        intro p tp hpend
        simp only [Option.some.injEq, Prod.mk.injEq] at hpend
        obtain ⟨rfl, rfl⟩ := hpend
        exact ⟨a2.symm, by simp only; omega, hid, fun _ => hfresh⟩
  | peerPut =>
    simp only [step]
    cases hpd : s.pending with
    | none => exact ⟨hc, ht, hnd, hlt, hp, hcol⟩
    | some r =>
      obtain ⟨p, tp⟩ := r
      obtain ⟨e1, e2, e3, e4⟩ := hp p tp hpd
      simp only
      by_cases hmem : p ∈ s.live
      · have : put { s with pending := none, late := s.late || decide (s.ticks - tp > M) } p =
            { s with pending := none, late := s.late || decide (s.ticks - tp > M),
                     collisions := s.collisions + 1, openIds := p :: s.openIds } := by simp [put, hmem]
        rw [this]
        refine ⟨hc, ht, hnd, hlt, by simp, ?_⟩
        intro hl
        simp only [Bool.or_eq_false_iff, decide_eq_false_iff_not] at hl
        exact absurd hmem (e4 (by omega))
      · rw [put_fresh _ _ (by simpa using hmem)]
        refine ⟨hc, ht, List.nodup_cons.2 ⟨hmem, hnd⟩, ?_, by simp, ?_⟩
        · intro i hi
          simp only [List.mem_cons] at hi
          rcases hi with rfl | hi
          · exact e3
          · exact hlt i hi
        · intro hl
          simp only [Bool.or_eq_false_iff] at hl
          exact hcol hl.1
  | peerReject =>
    exact ⟨hc, ht, hnd, hlt, by simp [step], hcol⟩
  | delete id =>
    refine ⟨hc, ht, hnd.erase id, fun i hi => hlt i (List.mem_of_mem_erase hi), ?_, hcol⟩
    intro p tp hpend
    obtain ⟨e1, e2, e3, e4⟩ := hp p tp hpend
    exact ⟨e1, e2, e3, fun hle hm => e4 hle (List.mem_of_mem_erase hm)⟩
  | peerFailure id pending =>
    cases pending with
    | false => exact ⟨hc, ht, hnd, hlt, hp, hcol⟩
    | true =>
      refine ⟨hc, ht, hnd.erase id, fun i hi => hlt i (List.mem_of_mem_erase hi), ?_, hcol⟩
      intro p tp hpend
      obtain ⟨e1, e2, e3, e4⟩ := hp p tp hpend
      exact ⟨e1, e2, e3, fun hle hm => e4 hle (List.mem_of_mem_erase hm)⟩
  | peerSuccess id => exact ⟨hc, ht, hnd, hlt, hp, hcol⟩

/-- the invariant holds after every history of local opens, peer opens (allocate / register / reject),
    deletions (close, open failure, unlink, weak reference dying) — started from any state satisfying it -/
theorem inv_run (s : St) (h : List Act) (hi : Inv s) : Inv (run s h) := by
  induction h generalizing s with
  | nil => exact hi
  | cons a as ih => exact ih _ (step_inv s a hi)

/-- **Uniqueness.** For every history from a fresh transport whose counter starts anywhere below 2^24
    (e.g. just before the wrap): no registration ever overwrites a live channel — unless a peer-opened
    channel was registered more than 2^24 counter advances after its id was allocated (`late`, i.e. ≥ 2^24
    other allocations squeezed between the two lock regions of one `_parse_channel_open`). -/
theorem no_collision (c : Nat) (hc : c < M) (h : List Act) (hl : (run (init c) h).late = false) :
    (run (init c) h).collisions = 0 :=
  (inv_run _ h (inv_init c hc)).2.2.2.2.2 hl

/-- live ids are pairwise distinct and fit in 24 bits, and so does the counter, after every history -/
theorem live_distinct_24bit (c : Nat) (hc : c < M) (h : List Act) :
    (run (init c) h).live.Nodup ∧ (∀ id ∈ (run (init c) h).live, id < M) ∧ (run (init c) h).counter < M := by
  obtain ⟨h1, _, h3, h4, _⟩ := inv_run _ h (inv_init c hc)
  exact ⟨h3, h4, h1⟩

/-- an id that `_parse_channel_open` holds between its two lock regions is not handed out again and is not
    live, for every history that advanced the counter at most 2^24 times since it was allocated -/
theorem pending_id_reserved (c : Nat) (hc : c < M) (h : List Act) (p tp : Nat)
    (hp : (run (init c) h).pending = some (p, tp)) (hle : (run (init c) h).ticks - tp ≤ M) :
    p ∉ (run (init c) h).live ∧ p < M :=
  let ⟨_, _, _, _, h5, _⟩ := inv_run _ h (inv_init c hc)
  ⟨(h5 p tp hp).2.2.2 hle, (h5 p tp hp).2.2.1⟩

/-- allocation never hangs while fewer than 2^24 channels are live -/
theorem never_hung_step (s : St) (a : Act) (hi : Inv s) (hlen : s.live.length < M) (hh : s.hung = false) :
    (step s a).hung = false := by
  have tot := nextChannel_total s hi.1 hlen
  cases a with
  | openLocal =>
    simp only [step]
    cases hn : nextChannel (isLive s) s.counter with
    | none => simp [hn] at tot
    | some r => simp only [put]; split <;> exact hh
  | peerAlloc =>
    simp only [step]
    cases s.pending with
    | some _ => exact hh
    | none =>
      cases hn : nextChannel (isLive s) s.counter with
      | none => simp [hn] at tot
      | some r => exact hh
  | peerPut =>
    simp only [step]
    cases s.pending with
    | none => exact hh
    | some r => simp only [put]; split <;> exact hh
  | peerReject => exact hh
  | delete id => exact hh
  | peerFailure id pending => cases pending <;> exact hh
  | peerSuccess id => exact hh

/-! ## the counter only moves forward -/

/-- **Only `_next_channel` (and the constructor) ever assign `_channel_counter`** (generated from the AST of
    transport.py on this run): nothing "hands an id back" by moving the counter. -/
theorem counter_written_only_by_next_channel :
    ∀ w ∈ PV.Generated.C23.counter_writers, w = "__init__" ∨ w = "_next_channel" := by
  decide

private theorem step_ticks_mono (s : St) (a : Act) : s.ticks ≤ (step s a).ticks := by
  cases a with
  | openLocal =>
    simp only [step]
    cases nextChannel (isLive s) s.counter with
    | none => exact Nat.le_refl _
    | some r => simp only [put]; split <;> simp
  | peerAlloc =>
    simp only [step]
    cases s.pending with
    | some _ => exact Nat.le_refl _
    | none =>
      cases nextChannel (isLive s) s.counter with
      | none => exact Nat.le_refl _
      | some r => simp
  | peerPut =>
    simp only [step]
    cases s.pending with
    | none => exact Nat.le_refl _
    | some r => simp only [put]; split <;> simp
  | peerReject => exact Nat.le_refl _
  | delete id => exact Nat.le_refl _
  | peerFailure id pending => cases pending <;> exact Nat.le_refl _
  | peerSuccess id => exact Nat.le_refl _

/-- **The counter never moves backwards**: in every history — including refused local opens
    (`peerFailure id true`) and refused peer opens (`peerReject`) — the number of counter advances only grows, and
    the counter is that number mod 2^24.  This is what `pending_id_reserved` rests on: an id that
    `_parse_channel_open` holds between allocation and registration can only be reached again by going all the way
    round. -/
theorem counter_never_moves_backwards (c : Nat) (hc : c < M) (h1 h2 : List Act) :
    (run (init c) h1).ticks ≤ (run (init c) (h1 ++ h2)).ticks ∧
    (run (init c) (h1 ++ h2)).counter = (run (init c) (h1 ++ h2)).ticks % M := by
  refine ⟨?_, ((inv_run _ (h1 ++ h2) (inv_init c hc)).2.1).symm⟩
  have : ∀ (as : List Act) (s : St), s.ticks ≤ (run s as).ticks := by
    intro as
    induction as with
    | nil => intro s; exact Nat.le_refl _
    | cons a as ih => intro s; exact Nat.le_trans (step_ticks_mono s a) (ih _)
  have e : run (init c) (h1 ++ h2) = run (run (init c) h1) h2 := by simp [run, List.foldl_append]
  rw [e]; exact this h2 _

/-- the model's `delete id` for a peer CLOSE removes the entry of the channel that was closed: in the source every
    `transport._unlink_channel(…)` call of class Channel passes `self.chanid`, the key of the channel map (AST of
    channel.py on this run; table shared with C22) -/
theorem unlink_uses_the_local_id :
    PV.Generated.ChanLock.unlinkArgs ≠ [] ∧ ∀ a ∈ PV.Generated.ChanLock.unlinkArgs, a = "self.chanid" := by
  decide

/-- **An entry leaves the channel map only through the close paths of the channel registered under it**: in class
    Channel `transport._unlink_channel(…)` is called from `_handle_close` and `_unlink` only — never from a finaliser,
    which runs for an object that may have been unlinked long ago while its id has since been given to another
    channel — and every `self._channels.delete(…)` in transport.py is inside `_unlink_channel` or guarded by "this
    open is still pending" (AST tables of channel.py / transport.py on this run).  These are the model's `delete`
    and `peerFailure id true`; garbage collection of a dead object is not an action that touches the map. -/
theorem entries_removed_only_by_close_paths :
    PV.Generated.ChanLock.unlinkCallers ≠ [] ∧
    (∀ c ∈ PV.Generated.ChanLock.unlinkCallers, c = "_handle_close" ∨ c = "_unlink") ∧
    PV.Generated.C23.mapDeletes ≠ [] ∧ (∀ d ∈ PV.Generated.C23.mapDeletes, d.2 = true) := by
  decide

/-! ## open channels stay registered -/

/-- every open Channel object is in the map under its id -/
def OpenInv (s : St) : Prop := ∀ id ∈ s.openIds, id ∈ s.live

private theorem open_put (s : St) (id : Nat) (h : OpenInv s) : OpenInv (put s id) := by
  unfold put
  split
  · rename_i hc
    intro x hx
    simp only [List.mem_cons] at hx
    rcases hx with rfl | hx
    · simpa using hc
    · exact h x hx
  · intro x hx
    simp only [List.mem_cons] at hx ⊢
    rcases hx with rfl | hx
    · exact .inl rfl
    · exact .inr (h x hx)

private theorem open_remove (s : St) (id : Nat) (h : OpenInv s) : OpenInv (remove s id) := by
  intro x hx
  simp only [remove, List.mem_filter, bne_iff_ne, ne_eq] at hx
  exact (List.mem_erase_of_ne hx.2).2 (h x hx.1)

private theorem step_open (s : St) (a : Act) (h : OpenInv s) : OpenInv (step s a) := by
  cases a with
  | openLocal =>
    simp only [step]
    cases nextChannel (isLive s) s.counter with
    | none => exact h
    | some r => exact open_put _ r.1 h
  | peerAlloc =>
    simp only [step]
    cases s.pending with
    | some _ => exact h
    | none =>
      cases nextChannel (isLive s) s.counter with
      | none => exact h
      | some r => exact h
  | peerPut =>
    simp only [step]
    cases s.pending with
    | none => exact h
    | some r => exact open_put _ r.1 h
  | peerReject => exact h
  | delete id => exact open_remove s id h
  | peerFailure id pending =>
    cases pending with
    | false => exact h
    | true => exact open_remove s id h
  | peerSuccess id => exact h

/-- **Every open channel stays in the channel map**, for every history of opens, peer opens, closes and of
    peer-sent CHANNEL_OPEN_FAILURE / CHANNEL_OPEN_CONFIRMATION messages naming ANY id (established, pending or
    unknown): a failure only removes a channel whose open is still pending. -/
theorem open_channels_registered (c : Nat) (h : List Act) :
    ∀ id ∈ (run (init c) h).openIds, id ∈ (run (init c) h).live := by
  have : ∀ (as : List Act) (s : St), OpenInv s → OpenInv (run s as) := by
    intro as
    induction as with
    | nil => intro s hs; exact hs
    | cons a as ih => intro s hs; exact ih _ (step_open s a hs)
  exact this h _ (by intro id hid; simp [init] at hid)

/-- … hence **allocation never returns the id of an open channel**, wherever the counter has wrapped to -/
theorem alloc_never_returns_open_id (c : Nat) (hc : c < M) (h : List Act) (id c' : Nat)
    (ha : nextChannel (isLive (run (init c) h)) (run (init c) h).counter = some (id, c')) :
    id ∉ (run (init c) h).openIds := by
  have hi := inv_run _ h (inv_init c hc)
  have hf := (nextChannel_fresh _ id c' hi.1 ha).1
  exact fun hm => hf (open_channels_registered c h id hm)

/-- what goes wrong if an open channel is missing from the map (e.g. an OPEN_FAILURE that deletes an established
    channel's entry): the counter wraps onto its id and `_next_channel` hands it out again -/
theorem unregistered_open_channel_is_reallocated_witness :
    let s : St := { init 16777215 with openIds := [16777215] }
    nextChannel (isLive s) s.counter = some (16777215, 0) ∧ 16777215 ∈ s.openIds := by
  decide +kernel

/-- non-vacuity: a history across the wrap (counter starts at 2^24 - 2) with a peer open whose callback
    window contains two local opens, a close and a re-open; no collision, not late, ids as expected. -/
example :
    let s := run (init 16777214) [.openLocal, .peerAlloc, .openLocal, .openLocal, .delete 0, .peerPut,
                                  .openLocal, .delete 16777214, .openLocal]
    s.live = [3, 2, 16777215, 1] ∧ s.counter = 4 ∧ s.late = false ∧ s.collisions = 0 ∧ s.hung = false := by
  decide +kernel

/-! ## the atomic regions of the model are the ones the source locks -/

/-- **Every call of `_next_channel` holds the transport lock** (call sites generated from the AST of transport.py
    on this run): allocation (and, in `open_channel`, registration) is one atomic region, as `openLocal` /
    `peerAlloc` of the model assume.  `no_collision` is a statement about the code only together with this. -/
theorem next_channel_sites_locked :
    PV.Generated.C23.next_channel_sites ≠ [] ∧ ∀ s ∈ PV.Generated.C23.next_channel_sites, s.2 = true := by
  decide

private theorem gotIds_set_got (l : List APc) (t id : Nat) (old : APc) (h : l[t]? = some old)
    (ho : ∀ i, old ≠ .got i) : ∀ x, x ∈ gotIds (l.set t (.got id)) ↔ x = id ∨ x ∈ gotIds l := by
  induction l generalizing t with
  | nil => simp at h
  | cons y ys ih =>
    intro x
    cases t with
    | zero =>
      simp only [List.getElem?_cons_zero, Option.some.injEq] at h
      subst h
      cases y with
      | got i => exact absurd rfl (ho i)
      | ready b => simp [gotIds]
      | looked i => simp [gotIds]
    | succ t =>
      simp only [List.getElem?_cons_succ] at h
      have := ih t h x
      cases y with
      | got i => simp only [List.set_cons_succ, gotIds, List.mem_cons, this]; constructor <;> (intro h; rcases h with h | h | h <;> simp [h])
      | ready b => simpa [gotIds] using this
      | looked i => simpa [gotIds] using this

private theorem gotIds_nodup_set (l : List APc) (t id : Nat) (old : APc) (h : l[t]? = some old)
    (ho : ∀ i, old ≠ .got i) (hn : (gotIds l).Nodup) (hid : id ∉ gotIds l) :
    (gotIds (l.set t (.got id))).Nodup := by
  induction l generalizing t with
  | nil => simp at h
  | cons y ys ih =>
    cases t with
    | zero =>
      simp only [List.getElem?_cons_zero, Option.some.injEq] at h
      subst h
      cases y with
      | got i => exact absurd rfl (ho i)
      | ready b => exact List.nodup_cons.2 ⟨hid, hn⟩
      | looked i => exact List.nodup_cons.2 ⟨hid, hn⟩
    | succ t =>
      simp only [List.getElem?_cons_succ] at h
      cases y with
      | got i =>
        have hn' : i ∉ gotIds ys ∧ (gotIds ys).Nodup := List.nodup_cons.1 hn
        have hid' : id ≠ i ∧ id ∉ gotIds ys := by
          have : id ∉ i :: gotIds ys := hid
          simpa [List.mem_cons, not_or] using this
        show (i :: gotIds (ys.set t (.got id))).Nodup
        refine List.nodup_cons.2 ⟨?_, ih t h hn'.2 hid'.2⟩
        rw [gotIds_set_got ys t id old h ho]
        intro hc
        rcases hc with hc | hc
        · exact hid'.1 hc.symm
        · exact hn'.1 hc
      | ready b => exact ih t h hn hid
      | looked i => exact ih t h hn hid

private def AInv (s : ASt) : Prop :=
  (gotIds s.thr).Nodup ∧ (∀ id ∈ gotIds s.thr, id ∈ s.live) ∧ ∀ p ∈ s.thr, ∀ i, p ≠ .looked i ∧ p ≠ .ready false

private theorem astep_inv (s : ASt) (t : Nat) (h : AInv s) : AInv (astep s t) := by
  obtain ⟨h1, h2, h3⟩ := h
  unfold astep
  split
  · rename_i hr
    split
    · rename_i id c' hn
      have hfresh : id ∉ s.live := by
        unfold nextChannel at hn
        split at hn
        · cases hn
        · rename_i i hs
          simp only [Option.some.injEq, Prod.mk.injEq] at hn
          have := (scan_sound _ _ _ _ hs).1
          rw [← hn.1]; simpa using this
      have hnot : id ∉ gotIds s.thr := fun hm => hfresh (h2 id hm)
      refine ⟨gotIds_nodup_set _ t id _ hr (by intro i h; cases h) h1 hnot, ?_, ?_⟩
      · intro x hx
        rw [gotIds_set_got _ t id _ hr (by intro i h; cases h)] at hx
        rcases hx with rfl | hx
        · exact List.mem_cons_self ..
        · exact List.mem_cons_of_mem _ (h2 x hx)
      · intro p hp i
        rcases List.mem_or_eq_of_mem_set hp with hp | rfl
        · exact h3 p hp i
        · exact ⟨(by intro h; cases h), (by intro h; cases h)⟩
    · exact ⟨h1, h2, h3⟩
  · rename_i hr
    exact absurd rfl (h3 _ (List.mem_of_getElem? hr) 0).2
  · rename_i id hr
    exact absurd rfl (h3 _ (List.mem_of_getElem? hr) id).1
  · exact ⟨h1, h2, h3⟩

/-- **If every caller holds the lock, concurrent allocations never return the same id** — any number of
    threads, any interleaving of their steps, any starting counter and set of live ids. -/
theorem locked_allocations_distinct (counter : Nat) (live : List Nat) (n : Nat) (sched : List Nat) :
    (gotIds (arun { counter := counter, live := live, thr := List.replicate n (.ready true) } sched).thr).Nodup := by
  have h0 : AInv { counter := counter, live := live, thr := List.replicate n (.ready true) } := by
    have : ∀ k, gotIds (List.replicate k (APc.ready true)) = [] := by
      intro k; induction k with
      | zero => rfl
      | succ k ih => simpa [List.replicate_succ, gotIds] using ih
    refine ⟨(by rw [this]; exact List.nodup_nil), (by rw [this]; intro id h; cases h), ?_⟩
    intro p hp i
    simp only [List.mem_replicate] at hp
    rw [hp.2]; exact ⟨(by intro h; cases h), (by intro h; cases h)⟩
  have : ∀ (sch : List Nat) (s : ASt), AInv s → AInv (arun s sch) := by
    intro sch
    induction sch with
    | nil => intro s h; exact h
    | cons t ts ih => intro s h; exact ih _ (astep_inv s t h)
  exact (this sched _ h0).1

/-- … and one caller without the lock is enough for two channels with the same id: the unlocked caller looks
    its id up, a locked caller allocates and registers that very id, the unlocked one then registers it too. -/
theorem unlocked_allocation_collision_witness :
    gotIds (arun { counter := 16777215, live := [], thr := [.ready false, .ready true] } [0, 1, 0]).thr
      = [16777215, 16777215] := by
  decide +kernel

end PV.Props.C23
