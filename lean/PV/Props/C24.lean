/-
  C24 — A channel's pollable descriptor is readable exactly when recv would not block.
  Property theorems only.  Models: PV/Model/Pipe.lean (statement granularity, pipe.py as generated data),
  PV/Model/PipeAtomic.lean (atomic pipe calls); helpers: PV/Model/PipeAtomicLemmas.lean.

  Shape of the argument
   1. `model_eq_generated`: the instruction lists the proofs are about are the ones regenerated from pipe.py.
   2. `call_*`: what a pipe.py call does when it runs alone, obtained by *running the statement-level interpreter* on
      those lists for every consistent pipe state (no hand-written summary of pipe.py enters the proof).
   3. `readable_iff_at_quiescence`: with pipe calls atomic (what the locks of pipe.py provide: one lock around each
      PosixPipe method, one lock shared by both OrPipe halves) every schedule of feeds, reads, empties, EOF, close
      and fileno() by any number of threads ends, whenever it is quiescent, in a state where select() says
      "readable" iff stdout or stderr holds data or the channel saw EOF or was closed.
   4. `race_witness_unlocked`: at statement granularity the same operations on pipe.py *without* the locks reach a
      quiescent state with stdout data buffered and the descriptor not readable (the defect that was fixed);
      `empty_feed_witness`: before `BufferedPipe.feed` ignored empty data, a zero-length feed left the descriptor
      readable with nothing to read.
-/
import PV.Model.PipeAtomicLemmas
import PV.Generated.C24
namespace PV.Props.C24
open PV.Pipe PV.PipeAtomic

/-- the hand-written instruction lists are exactly what the generator extracts from paramiko/pipe.py -/
theorem model_eq_generated : fixedCode = PV.Generated.C24.code := by decide

/-! ## pipe.py calls, executed alone by the interpreter, on every consistent pipe state -/

theorem or_set_alone (i : Bool) (p : PSt) (h : PInv p) :
    callAtomic PV.Generated.C24.code p (orObj i) .set
      = canon (if i then p.s1 else true) (if i then true else p.s2) p.pForever := by
  rw [← model_eq_generated]; exact call_set_spec p h i

theorem or_clear_alone (i : Bool) (p : PSt) (h : PInv p) :
    callAtomic PV.Generated.C24.code p (orObj i) .clear
      = canon (if i then p.s1 else false) (if i then false else p.s2) p.pForever := by
  rw [← model_eq_generated]; exact call_clear_spec p h i

theorem set_forever_alone (p : PSt) (h : PInv p) :
    callAtomic PV.Generated.C24.code p .pipe .setForever = canon p.s1 p.s2 true := by
  rw [← model_eq_generated]; exact call_forever_spec p h

/-! ## the property, for every schedule -/

/-- the pipe objects are consistent after every schedule: flag = s1 ∨ s2 ∨ forever, one byte in the OS pipe iff
the flag is up, every pipe.py lock free -/
theorem pipe_consistent (acts : List PipeAtomic.Act) : PInv (PipeAtomic.run true {} acts).p :=
  (inv_run {} acts inv_init).pipe

/-- **C24.** After `fileno()`, at every quiescent point of every schedule:
`select()` reports the descriptor readable ⇔ stdout or stderr holds unread data, or EOF was received, or the
channel is closed. -/
theorem readable_iff_at_quiescence (acts : List PipeAtomic.Act) :
    let a := PipeAtomic.run true {} acts
    PipeAtomic.quiescent a = true → a.hasPipe = true →
      PipeAtomic.readable a = PipeAtomic.shouldBeReadable a := by
  intro a hq hp
  exact inv_quiescent a (inv_run {} acts inv_init) hq hp

/-- the same from any state satisfying the invariant (e.g. any state reached earlier) -/
theorem readable_iff_from (a0 : ASt) (h0 : Inv a0) (acts : List PipeAtomic.Act) :
    let a := PipeAtomic.run true a0 acts
    PipeAtomic.quiescent a = true → a.hasPipe = true →
      PipeAtomic.readable a = PipeAtomic.shouldBeReadable a := by
  intro a hq hp
  exact inv_quiescent a (inv_run a0 acts h0) hq hp

/-! ## non-vacuity: schedules that reach quiescent states of every kind -/

-- fileno, then stdout data, EOF while a stderr feed is in flight, everything drained: readable because of EOF
example :
    let a := PipeAtomic.run true {} [.cstart .fileno, .bstep false, .bstep true, .bstart false .feed, .bstep false,
      .bstart true .feed, .cstart .eof, .bstep false, .bstep true, .cstep, .bstep true, .cstep, .bstart false .drain, .bstep false]
    PipeAtomic.quiescent a = true ∧ a.hasPipe = true ∧ a.eof = true ∧ a.b1.ne = false ∧ a.b2.ne = true ∧
      PipeAtomic.readable a = true := by decide

-- data arrives and is drained again: not readable
example :
    let a := PipeAtomic.run true {} [.cstart .fileno, .bstep false, .bstep true, .bstart true .feed, .bstep true,
      .bstart true .drain, .bstep true]
    PipeAtomic.quiescent a = true ∧ a.hasPipe = true ∧ PipeAtomic.readable a = false ∧
      PipeAtomic.shouldBeReadable a = false := by decide

-- combining switched on before fileno(), off afterwards, then stderr data through `_feed_extended`: it lands in the
-- stderr buffer, whose event fileno() attached regardless of the combine flag — readable
example :
    let a := PipeAtomic.run true {} [.cstart .combineOn, .bstep true, .cstart .fileno, .bstep false, .bstep true,
      .cstart .combineOff, .cstart .feedErr, .bstep true]
    PipeAtomic.quiescent a = true ∧ a.hasPipe = true ∧ a.combine = false ∧ a.b2.ne = true ∧ a.b1.ne = false ∧
      PipeAtomic.readable a = true := by decide

-- stderr data buffered, then combining switched on: the data moves to stdout, the descriptor stays readable
example :
    let a := PipeAtomic.run true {} [.cstart .fileno, .bstep false, .bstep true, .cstart .feedErr, .bstep true,
      .cstart .combineOn, .bstep true, .bstep false]
    PipeAtomic.quiescent a = true ∧ a.b2.ne = false ∧ a.b1.ne = true ∧ PipeAtomic.readable a = true := by decide

/-! ## witnesses: the defects that were fixed -/

/-- pipe.py without locks: stdout data is buffered, nothing is running, and the descriptor is NOT readable -/
theorem race_witness_unlocked :
    let s := Pipe.run unlockedCode true (Pipe.init 3) raceSchedule
    Pipe.quiescent s = true ∧ s.hasPipe = true ∧ s.ne1 = true ∧ Pipe.readable s = false := by decide +kernel

/-- the same schedule on the current pipe.py (thread 2 simply waits at the shared OrPipe lock): consistent -/
theorem race_schedule_fixed :
    let s := Pipe.run fixedCode true (Pipe.init 3) (raceSchedule ++ List.replicate 12 (.step 2))
    Pipe.quiescent s = true ∧ s.ne1 = true ∧ Pipe.readable s = true := by decide +kernel

/-- before `fix: BufferedPipe.feed …`: a zero-length feed raises the event although nothing can be read -/
theorem empty_feed_witness :
    let a := PipeAtomic.run false {} [.cstart .fileno, .bstep false, .bstep true, .bstart false .feedEmpty, .bstep false]
    PipeAtomic.quiescent a = true ∧ a.hasPipe = true ∧ PipeAtomic.readable a = true ∧
      PipeAtomic.shouldBeReadable a = false := by decide

end PV.Props.C24
