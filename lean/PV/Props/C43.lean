/-
  C43 — Group-exchange modulus selection honours the client's size range.
  Property theorems only.  Model: PV/Model/Primes.lean; kernels generated from the source AST:
  PV/Generated/C43.lean (get_modulus selection, KexGex clamps, KexGex class constants).
-/
import PV.Model.Primes
namespace PV.Props.C43
open PV.Primes

/-! ## the hand-written selection is what the source says -/

/-- the selection kernel translated from the AST of `ModulusPack.get_modulus` is `pickSize` -/
theorem pickSize_eq_generated (bs : List Int) (mn pf mx : Int) :
    PV.Generated.C43.getModulusGood bs mn pf mx = pickSize bs mn pf mx := by
  simp only [PV.Generated.C43.getModulusGood, pickSize]
  have h1 : (fun good b => if b ≥ pf ∧ b ≥ mn ∧ b ≤ mx ∧ (b < good ∨ good = -1) then b else good)
      = pass1 mn pf mx := by funext g b; rfl
  have h2 : (fun good b => if b ≥ mn ∧ b ≤ mx ∧ b > good then b else good) = pass2 mn mx := by
    funext g b; rfl
  rw [h1, h2]

/-! ## the two passes -/

private theorem fold1 (mn pf mx : Int) (bs : List Int) (hb : ∀ b ∈ bs, 0 ≤ b) :
    ∀ good : Int, (good = -1 ∨ 0 ≤ good) →
      ((bs.foldl (pass1 mn pf mx) good = -1 ∨ 0 ≤ bs.foldl (pass1 mn pf mx) good) ∧
       (good ≠ -1 → bs.foldl (pass1 mn pf mx) good ≠ -1 ∧ bs.foldl (pass1 mn pf mx) good ≤ good) ∧
       (bs.foldl (pass1 mn pf mx) good = good ∨
          (bs.foldl (pass1 mn pf mx) good ∈ bs ∧ bs.foldl (pass1 mn pf mx) good ≥ pf ∧
           bs.foldl (pass1 mn pf mx) good ≥ mn ∧ bs.foldl (pass1 mn pf mx) good ≤ mx)) ∧
       (∀ b ∈ bs, b ≥ pf → b ≥ mn → b ≤ mx →
          bs.foldl (pass1 mn pf mx) good ≠ -1 ∧ bs.foldl (pass1 mn pf mx) good ≤ b)) := by
  induction bs with
  | nil => intro good hg; simpa using hg
  | cons b bs ih =>
    intro good hg
    have hb0 : 0 ≤ b := hb b (by simp)
    have hbs : ∀ c ∈ bs, 0 ≤ c := fun c hc => hb c (by simp [hc])
    simp only [List.foldl_cons]
    generalize hg' : pass1 mn pf mx good b = g'
    have hg'cases : (g' = b ∧ b ≥ pf ∧ b ≥ mn ∧ b ≤ mx ∧ (b < good ∨ good = -1)) ∨
        (g' = good ∧ ¬ (b ≥ pf ∧ b ≥ mn ∧ b ≤ mx ∧ (b < good ∨ good = -1))) := by
      rw [← hg']; unfold pass1
      by_cases hc : b ≥ pf ∧ b ≥ mn ∧ b ≤ mx ∧ (b < good ∨ good = -1)
      · left; exact ⟨if_pos hc, hc⟩
      · right; exact ⟨if_neg hc, hc⟩
    have hg'ok : g' = -1 ∨ 0 ≤ g' := by
      rcases hg'cases with ⟨h, _⟩ | ⟨h, _⟩
      · right; omega
      · rw [h]; exact hg
    obtain ⟨i1, i2, i3, i4⟩ := ih hbs g' hg'ok
    generalize bs.foldl (pass1 mn pf mx) g' = r at i1 i2 i3 i4
    refine ⟨i1, ?_, ?_, ?_⟩
    · intro hgood
      have : g' ≠ -1 ∧ g' ≤ good := by
        rcases hg'cases with ⟨h, _, _, _, h5⟩ | ⟨h, _⟩
        · omega
        · omega
      have := i2 this.1
      omega
    · rcases i3 with h | ⟨hm, hp⟩
      · rcases hg'cases with ⟨h', c1, c2, c3, _⟩ | ⟨h', _⟩
        · right; rw [h, h']; exact ⟨by simp, c1, c2, c3⟩
        · left; rw [h, h']
      · right; exact ⟨by simp [hm], hp⟩
    · intro c hc c1 c2 c3
      simp only [List.mem_cons] at hc
      rcases hc with hc | hc
      · subst hc
        have : g' ≠ -1 ∧ g' ≤ c := by
          rcases hg'cases with ⟨h, _⟩ | ⟨h, hn⟩
          · omega
          · have : ¬ (c < good ∨ good = -1) := fun hx => hn ⟨c1, c2, c3, hx⟩
            omega
        have := i2 this.1
        omega
      · exact i4 c hc c1 c2 c3

private theorem fold2 (mn mx : Int) (bs : List Int) :
    ∀ good : Int,
      (good ≤ bs.foldl (pass2 mn mx) good ∧
       (bs.foldl (pass2 mn mx) good = good ∨
          (bs.foldl (pass2 mn mx) good ∈ bs ∧ bs.foldl (pass2 mn mx) good ≥ mn ∧
           bs.foldl (pass2 mn mx) good ≤ mx)) ∧
       (∀ b ∈ bs, b ≥ mn → b ≤ mx → b ≤ bs.foldl (pass2 mn mx) good)) := by
  induction bs with
  | nil => intro good; simp
  | cons b bs ih =>
    intro good
    simp only [List.foldl_cons]
    generalize hg' : pass2 mn mx good b = g'
    have hc : (g' = b ∧ b ≥ mn ∧ b ≤ mx ∧ b > good) ∨ (g' = good ∧ ¬ (b ≥ mn ∧ b ≤ mx ∧ b > good)) := by
      rw [← hg']; unfold pass2
      by_cases hc : b ≥ mn ∧ b ≤ mx ∧ b > good
      · left; exact ⟨if_pos hc, hc⟩
      · right; exact ⟨if_neg hc, hc⟩
    obtain ⟨i1, i2, i3⟩ := ih g'
    generalize bs.foldl (pass2 mn mx) g' = r at i1 i2 i3
    refine ⟨?_, ?_, ?_⟩
    · rcases hc with ⟨h, _⟩ | ⟨h, _⟩ <;> omega
    · rcases i2 with h | ⟨hm, hq⟩
      · rcases hc with ⟨h', c1, c2, _⟩ | ⟨h', _⟩
        · right; rw [h, h']; exact ⟨by simp, c1, c2⟩
        · left; rw [h, h']
      · right; exact ⟨by simp [hm], hq⟩
    · intro c hcm c1 c2
      simp only [List.mem_cons] at hcm
      rcases hcm with hcm | hcm
      · subst hcm
        rcases hc with ⟨h, _⟩ | ⟨h, hn⟩
        · omega
        · have : ¬ c > good := fun hx => hn ⟨c1, c2, hx⟩
          omega
      · exact i3 c hcm c1 c2

/-! ## the statement, for the selection -/

/-- a size is *in range* / *in range and at least the preferred size* -/
def InRange (mn mx b : Int) : Prop := mn ≤ b ∧ b ≤ mx
def Preferred (mn pf mx b : Int) : Prop := mn ≤ b ∧ b ≤ mx ∧ pf ≤ b

/-- the selected size is always one of the available sizes -/
theorem pickSize_mem (bs : List Int) (hne : bs ≠ []) (hb : ∀ b ∈ bs, 0 ≤ b) (mn pf mx : Int) :
    pickSize bs mn pf mx ∈ bs := by
  obtain ⟨_, _, a3, _⟩ := fold1 mn pf mx bs hb (-1) (Or.inl rfl)
  obtain ⟨_, b2, _⟩ := fold2 mn mx bs (-1)
  unfold pickSize
  simp only
  by_cases h1 : bs.foldl (pass1 mn pf mx) (-1) = -1
  · simp only [h1, if_true]
    by_cases h2 : bs.foldl (pass2 mn mx) (-1) = -1
    · simp only [h2, if_true]
      cases bs with
      | nil => exact absurd rfl hne
      | cons x xs =>
        split
        · rw [List.getLastD_cons]; exact List.getLastD_mem_cons
        · simp
    · simp only [h2, if_false]
      rcases b2 with h | ⟨h, _⟩
      · exact absurd h h2
      · exact h
  · simp only [h1, if_false]
    rcases a3 with h | ⟨h, _⟩
    · exact absurd h h1
    · exact h

/-- **Clause 1.** If some available size is in `[min, max]` and at least the preferred size, the selected
size is the smallest such size. -/
theorem pickSize_preferred (bs : List Int) (hb : ∀ b ∈ bs, 0 ≤ b) (mn pf mx : Int)
    (h : ∃ b ∈ bs, Preferred mn pf mx b) :
    pickSize bs mn pf mx ∈ bs ∧ Preferred mn pf mx (pickSize bs mn pf mx) ∧
      ∀ b ∈ bs, Preferred mn pf mx b → pickSize bs mn pf mx ≤ b := by
  obtain ⟨b0, hb0, p1, p2, p3⟩ := h
  obtain ⟨_, _, a3, a4⟩ := fold1 mn pf mx bs hb (-1) (Or.inl rfl)
  have hne := (a4 b0 hb0 p3 p1 p2).1
  unfold pickSize
  simp only [hne, if_false]
  rcases a3 with h | ⟨hm, q1, q2, q3⟩
  · exact absurd h hne
  · refine ⟨hm, ⟨q2, q3, q1⟩, ?_⟩
    intro b hbm ⟨r1, r2, r3⟩
    exact (a4 b hbm r3 r1 r2).2

/-- **Clause 2.** Otherwise, if some available size is in `[min, max]`, the selected size is the largest
in-range size. -/
theorem pickSize_largest (bs : List Int) (hb : ∀ b ∈ bs, 0 ≤ b) (mn pf mx : Int)
    (hno : ¬ ∃ b ∈ bs, Preferred mn pf mx b) (h : ∃ b ∈ bs, InRange mn mx b) :
    pickSize bs mn pf mx ∈ bs ∧ InRange mn mx (pickSize bs mn pf mx) ∧
      ∀ b ∈ bs, InRange mn mx b → b ≤ pickSize bs mn pf mx := by
  obtain ⟨b0, hb0, p1, p2⟩ := h
  obtain ⟨_, _, a3, _⟩ := fold1 mn pf mx bs hb (-1) (Or.inl rfl)
  obtain ⟨_, b2, b3⟩ := fold2 mn mx bs (-1)
  have h1 : bs.foldl (pass1 mn pf mx) (-1) = -1 := by
    rcases a3 with h | ⟨hm, q1, q2, q3⟩
    · exact h
    · exact absurd ⟨_, hm, q2, q3, q1⟩ hno
  have h2 : bs.foldl (pass2 mn mx) (-1) ≠ -1 := by
    have := b3 b0 hb0 p1 p2
    have := hb b0 hb0
    omega
  unfold pickSize
  simp only [h1, if_true, h2, if_false]
  rcases b2 with h | ⟨hm, q1, q2⟩
  · exact absurd h h2
  · exact ⟨hm, ⟨q1, q2⟩, fun b hbm ⟨r1, r2⟩ => b3 b hbm r1 r2⟩

/-! ## the old first pass (before the fix) and why `KexGex` never triggered the defect -/

/-- first pass as it was before the fix (no `b ≥ min`) -/
def pass1Old (prefer max : Int) (good b : Int) : Int :=
  if b ≥ prefer ∧ b ≤ max ∧ (b < good ∨ good = -1) then b else good

def pickSizeOld (bitsizes : List Int) (min prefer max : Int) : Int :=
  let good := bitsizes.foldl (pass1Old prefer max) (-1)
  let good := if good = -1 then bitsizes.foldl (pass2 min max) good else good
  if good = -1 then
    let good := bitsizes.headD 0
    if min > good then bitsizes.getLastD 0 else good
  else good

/-- the defect: a size below `min` was selected although an in-range size existed -/
theorem old_first_pass_witness : pickSizeOld [1024, 2048] 1500 1000 3000 = 1024 ∧
    pickSize [1024, 2048] 1500 1000 3000 = 2048 := by decide

/-- whenever `min ≤ prefer` (always the case for the triple `KexGex` passes on) the old and the fixed
selection agree: the fix changes nothing on the key-exchange path -/
theorem pickSizeOld_eq_of_le (bs : List Int) (mn pf mx : Int) (h : mn ≤ pf) :
    pickSizeOld bs mn pf mx = pickSize bs mn pf mx := by
  have : pass1Old pf mx = pass1 mn pf mx := by
    funext g b
    unfold pass1Old pass1
    by_cases hc : b ≥ pf ∧ b ≤ mx ∧ (b < g ∨ g = -1)
    · have : b ≥ pf ∧ b ≥ mn ∧ b ≤ mx ∧ (b < g ∨ g = -1) := ⟨hc.1, by omega, hc.2.1, hc.2.2⟩
      rw [if_pos hc, if_pos this]
    · have : ¬ (b ≥ pf ∧ b ≥ mn ∧ b ≤ mx ∧ (b < g ∨ g = -1)) := fun hx => hc ⟨hx.1, hx.2.2.1, hx.2.2.2⟩
      rw [if_neg hc, if_neg this]
  unfold pickSizeOld pickSize
  rw [this]

/-! ## `_parse_modulus` / `read_file`: what gets into the pack -/

/-- the statement's "primality-testing and bit-length requirements" on a moduli line's fields -/
def MeetsRequirements (f : Fields) : Prop :=
  f.modType ≥ 2 ∧ f.tests ≥ 4 ∧ ¬ (f.tests.toNat.testBit 2 = true ∧ f.tests < 8 ∧ f.tries < 100) ∧
    ((bitLength f.modulus : Int) = f.size ∨ (bitLength f.modulus : Int) = f.size + 1)

/-- a line is kept exactly when its fields meet the requirements; it is filed under the modulus' bit length -/
theorem classify_added_iff (f : Fields) (bl : Nat) (g m : Int) :
    classify f = .added bl g m ↔
      MeetsRequirements f ∧ bl = bitLength f.modulus ∧ m = f.modulus ∧
        g = (if f.generator = 0 then 2 else f.generator) := by
  unfold classify MeetsRequirements
  by_cases h1 : failsBasic f = true
  · simp only [h1, if_true]
    constructor
    · intro h; cases h
    · rintro ⟨⟨a, b, c, _⟩, _⟩
      simp only [failsBasic, Bool.or_eq_true, Bool.and_eq_true, decide_eq_true_eq] at h1
      rcases h1 with (h1 | h1) | ⟨⟨h1, h2⟩, h3⟩
      · omega
      · omega
      · exact absurd ⟨h1, h2, h3⟩ c
  · simp only [h1, Bool.false_eq_true, if_false]
    have hb : f.modType ≥ 2 ∧ f.tests ≥ 4 ∧ ¬ (f.tests.toNat.testBit 2 = true ∧ f.tests < 8 ∧ f.tries < 100) := by
      simp only [failsBasic, Bool.or_eq_true, Bool.and_eq_true, decide_eq_true_eq, not_or, not_and] at h1
      refine ⟨by omega, by omega, ?_⟩
      rintro ⟨a, b, c⟩
      exact h1.2 ⟨a, b⟩ c
    by_cases h2 : failsBitLength f = true
    · simp only [h2, if_true]
      constructor
      · intro h; cases h
      · rintro ⟨⟨_, _, _, d⟩, _⟩
        simp only [failsBitLength, Bool.and_eq_true, bne_iff_ne, ne_eq] at h2
        rcases d with d | d
        · exact absurd d h2.1
        · exact absurd d h2.2
    · simp only [h2, Bool.false_eq_true, if_false, Verdict.added.injEq]
      have hbl : (bitLength f.modulus : Int) = f.size ∨ (bitLength f.modulus : Int) = f.size + 1 := by
        simp only [failsBitLength, Bool.and_eq_true, bne_iff_ne, ne_eq, not_and, Decidable.not_not] at h2
        by_cases h3 : (bitLength f.modulus : Int) = f.size
        · exact Or.inl h3
        · exact Or.inr (h2 h3)
      constructor
      · rintro ⟨a, b, c⟩
        exact ⟨⟨hb.1, hb.2.1, hb.2.2, hbl⟩, a.symm, c.symm, b.symm⟩
      · rintro ⟨_, a, c, b⟩
        exact ⟨a.symm, b.symm, c.symm⟩

/-- `line` (a physical line of the moduli file) contributes the group `(g, m)` under size `bl` -/
def LineOffers (line : List Char) (bl : Nat) (g m : Int) : Prop :=
  ∃ c rest f, strip line = c :: rest ∧ (c == '#') = false ∧ parseFields (strip line) = some f ∧
    classify f = .added bl g m

/-- every offered line meets the requirements, and `bl` is its modulus' bit length -/
theorem lineOffers_meets (line : List Char) (bl : Nat) (g m : Int) (h : LineOffers line bl g m) :
    ∃ f, parseFields (strip line) = some f ∧ MeetsRequirements f ∧ f.modulus = m ∧ bitLength m = bl := by
  obtain ⟨c, rest, f, _, _, hp, hc⟩ := h
  obtain ⟨hm, hbl, hmod, _⟩ := (classify_added_iff f bl g m).mp hc
  exact ⟨f, hp, hm, hmod.symm, by rw [hmod, hbl]⟩

/-- `(g, m)` is stored under key `k` -/
def MemD (d : PackDict) (k : Nat) (x : Group) : Prop := ∃ l, (k, l) ∈ d ∧ x ∈ l

private theorem dictAppend_mem (d : PackDict) (bl : Nat) (x : Group) (k : Nat) (y : Group) :
    MemD (dictAppend d bl x) k y ↔ MemD d k y ∨ (k = bl ∧ y = x) := by
  induction d with
  | nil =>
    simp only [dictAppend, MemD, List.mem_singleton, Prod.mk.injEq, List.not_mem_nil, false_and,
      exists_false, false_or]
    constructor
    · rintro ⟨l, ⟨h1, h2⟩, h3⟩; subst h2; simp at h3; exact ⟨h1, h3⟩
    · rintro ⟨h1, h2⟩; exact ⟨[x], ⟨h1, rfl⟩, by simp [h2]⟩
  | cons e rest ih =>
    obtain ⟨k0, v0⟩ := e
    simp only [dictAppend]
    by_cases hk : k0 = bl
    · subst hk
      simp only [if_true, MemD, List.mem_cons, Prod.mk.injEq]
      constructor
      · rintro ⟨l, (⟨h1, h2⟩ | h1), h3⟩
        · subst h2
          simp only [List.mem_append, List.mem_singleton] at h3
          rcases h3 with h3 | h3
          · left; exact ⟨v0, Or.inl ⟨h1, rfl⟩, h3⟩
          · right; exact ⟨h1, h3⟩
        · left; exact ⟨l, Or.inr h1, h3⟩
      · rintro (⟨l, (⟨h1, h2⟩ | h1), h3⟩ | ⟨h1, h2⟩)
        · subst h2; exact ⟨l ++ [x], Or.inl ⟨h1, rfl⟩, by simp [h3]⟩
        · exact ⟨l, Or.inr h1, h3⟩
        · exact ⟨v0 ++ [x], Or.inl ⟨h1, rfl⟩, by simp [h2]⟩
    · simp only [hk, if_false]
      have ih' := ih
      simp only [MemD] at ih' ⊢
      simp only [List.mem_cons, Prod.mk.injEq]
      constructor
      · rintro ⟨l, (⟨h1, h2⟩ | h1), h3⟩
        · left; exact ⟨l, Or.inl ⟨h1, h2⟩, h3⟩
        · rcases ih'.mp ⟨l, h1, h3⟩ with ⟨l', h4, h5⟩ | h4
          · left; exact ⟨l', Or.inr h4, h5⟩
          · right; exact h4
      · rintro (⟨l, (⟨h1, h2⟩ | h1), h3⟩ | h4)
        · exact ⟨l, Or.inl ⟨h1, h2⟩, h3⟩
        · obtain ⟨l', h4, h5⟩ := ih'.mpr (Or.inl ⟨l, h1, h3⟩)
          exact ⟨l', Or.inr h4, h5⟩
        · obtain ⟨l', h5, h6⟩ := ih'.mpr (Or.inr h4)
          exact ⟨l', Or.inr h5, h6⟩

private theorem dictAppend_nonempty (d : PackDict) (bl : Nat) (x : Group)
    (h : ∀ e ∈ d, e.2 ≠ []) : ∀ e ∈ dictAppend d bl x, e.2 ≠ [] := by
  induction d with
  | nil => intro e he; simp [dictAppend] at he; subst he; simp
  | cons e0 rest ih =>
    obtain ⟨k0, v0⟩ := e0
    intro e he
    simp only [dictAppend] at he
    by_cases hk : k0 = bl
    · simp only [hk, if_true, List.mem_cons] at he
      rcases he with he | he
      · subst he; simp
      · exact h e (by simp [he])
    · simp only [hk, if_false, List.mem_cons] at he
      rcases he with he | he
      · subst he; exact h _ (by simp)
      · exact ih (fun e' he' => h e' (by simp [he'])) e he

private theorem readLine_mem (p : Pack) (line : List Char) (k : Nat) (y : Group) :
    MemD (p.readLine line).pack k y ↔ MemD p.pack k y ∨ LineOffers line k y.1 y.2 := by
  unfold Pack.readLine LineOffers
  simp only
  cases hs : strip line with
  | nil => simp
  | cons c rest =>
    simp only
    by_cases hc : (c == '#') = true
    · simp only [hc, if_true]
      constructor
      · intro h; exact Or.inl h
      · rintro (h | ⟨c', rest', f, h1, h2, _⟩)
        · exact h
        · simp only [List.cons.injEq] at h1
          rw [← h1.1, hc] at h2
          cases h2
    · have hc' : (c == '#') = false := by simpa using hc
      simp only [hc', Bool.false_eq_true, if_false, Pack.parseModulus]
      cases hp : parseFields (c :: rest) with
      | none =>
        simp only [Option.map_none]
        constructor
        · intro h; exact Or.inl h
        · rintro (h | ⟨_, _, f, _, _, h3, _⟩)
          · exact h
          · cases h3
      | some f =>
        simp only [Option.map_some, Pack.addFields]
        cases hv : classify f with
        | discarded m why =>
          simp only
          constructor
          · intro h; exact Or.inl h
          · rintro (h | ⟨_, _, f', _, _, h3, h4⟩)
            · exact h
            · simp only [Option.some.injEq] at h3
              subst h3
              rw [hv] at h4
              cases h4
        | added bl g m =>
          simp only
          rw [dictAppend_mem]
          constructor
          · rintro (h | ⟨h1, h2⟩)
            · exact Or.inl h
            · right
              refine ⟨c, rest, f, rfl, hc', rfl, ?_⟩
              rw [h1, h2]; exact hv
          · rintro (h | ⟨_, _, f', _, _, h3, h4⟩)
            · exact Or.inl h
            · simp only [Option.some.injEq] at h3
              subst h3
              rw [hv] at h4
              simp only [Verdict.added.injEq] at h4
              right
              exact ⟨h4.1.symm, by rw [h4.2.1, h4.2.2]⟩

private theorem readLine_nonempty (p : Pack) (line : List Char) (h : ∀ e ∈ p.pack, e.2 ≠ []) :
    ∀ e ∈ (p.readLine line).pack, e.2 ≠ [] := by
  unfold Pack.readLine
  simp only
  cases strip line with
  | nil => exact h
  | cons c rest =>
    simp only
    split
    · exact h
    · simp only [Pack.parseModulus]
      cases parseFields (c :: rest) with
      | none => exact h
      | some f =>
        simp only [Option.map_some, Pack.addFields]
        cases classify f with
        | discarded m why => exact h
        | added bl g m => exact dictAppend_nonempty _ _ _ h

private theorem foldl_readLine (lines : List (List Char)) (k : Nat) (y : Group) :
    ∀ p : Pack, (MemD (lines.foldl Pack.readLine p).pack k y ↔
      MemD p.pack k y ∨ ∃ line ∈ lines, LineOffers line k y.1 y.2) := by
  induction lines with
  | nil => intro p; simp
  | cons l ls ih =>
    intro p
    simp only [List.foldl_cons]
    rw [ih (p.readLine l), readLine_mem]
    simp only [List.mem_cons, exists_eq_or_imp]
    constructor
    · rintro ((h | h) | h)
      · exact Or.inl h
      · exact Or.inr (Or.inl h)
      · exact Or.inr (Or.inr h)
    · rintro (h | h | h)
      · exact Or.inl (Or.inl h)
      · exact Or.inl (Or.inr h)
      · exact Or.inr h

private theorem foldl_nonempty (lines : List (List Char)) :
    ∀ p : Pack, (∀ e ∈ p.pack, e.2 ≠ []) → ∀ e ∈ (lines.foldl Pack.readLine p).pack, e.2 ≠ [] := by
  induction lines with
  | nil => intro p h; exact h
  | cons l ls ih => intro p h; exact ih _ (readLine_nonempty p l h)

/-- **What `read_file` stores**: a group is in the pack under size `k` exactly when some line of the file that
meets the requirements offers it with bit length `k` (whatever was loaded before). -/
theorem readFile_mem_iff (old : Pack) (lines : List (List Char)) (k : Nat) (g m : Int) :
    MemD (old.readFile lines).pack k (g, m) ↔ ∃ line ∈ lines, LineOffers line k g m := by
  unfold Pack.readFile
  rw [foldl_readLine]
  simp [MemD]

/-- every size list in a pack built by `read_file` is non-empty -/
theorem readFile_nonempty (old : Pack) (lines : List (List Char)) :
    ∀ e ∈ (old.readFile lines).pack, e.2 ≠ [] := by
  unfold Pack.readFile
  exact foldl_nonempty lines _ (by simp)

/-! ## `get_modulus` -/

/-- the law assumed of `_roll_random(n)`: an index into a list of length `n` -/
def RollLaw (roll : Nat → Nat) : Prop := ∀ n, 0 < n → roll n < n

/-- the law is satisfiable: the deterministic stand-in used by the harness and the driver -/
theorem rollLaw_mod (k : Nat) : RollLaw (fun n => k % n) := fun _ hn => Nat.mod_lt _ hn

/-- `sorted(self.pack.keys())` as integers -/
def sizesOf (d : PackDict) : List Int := (sortedKeys d).map Int.ofNat

private theorem mem_insertSorted (a x : Nat) (l : List Nat) : x ∈ insertSorted a l ↔ x = a ∨ x ∈ l := by
  induction l with
  | nil => simp [insertSorted]
  | cons b l ih =>
    simp only [insertSorted]
    split
    · simp
    · simp only [List.mem_cons, ih]
      constructor
      · rintro (h | h | h)
        · exact Or.inr (Or.inl h)
        · exact Or.inl h
        · exact Or.inr (Or.inr h)
      · rintro (h | h | h)
        · exact Or.inr (Or.inl h)
        · exact Or.inl h
        · exact Or.inr (Or.inr h)

private theorem length_insertSorted (a : Nat) (l : List Nat) : (insertSorted a l).length = l.length + 1 := by
  induction l with
  | nil => rfl
  | cons b l ih =>
    simp only [insertSorted]
    split
    · simp
    · simp [ih]

private theorem mem_sortNat (x : Nat) (l : List Nat) : x ∈ sortNat l ↔ x ∈ l := by
  induction l with
  | nil => simp [sortNat]
  | cons a l ih =>
    have : sortNat (a :: l) = insertSorted a (sortNat l) := rfl
    rw [this, mem_insertSorted, ih]; simp

private theorem length_sortNat (l : List Nat) : (sortNat l).length = l.length := by
  induction l with
  | nil => rfl
  | cons a l ih =>
    have : sortNat (a :: l) = insertSorted a (sortNat l) := rfl
    rw [this, length_insertSorted, ih]; simp

private theorem mem_sizesOf (d : PackDict) (b : Int) :
    b ∈ sizesOf d ↔ ∃ k l, (k, l) ∈ d ∧ (k : Int) = b := by
  simp only [sizesOf, sortedKeys, List.mem_map, mem_sortNat]
  constructor
  · rintro ⟨k, ⟨⟨k', l⟩, h1, h2⟩, h3⟩
    simp only at h2
    subst h2
    exact ⟨k', l, h1, h3⟩
  · rintro ⟨k, l, h1, h2⟩
    exact ⟨k, ⟨(k, l), h1, rfl⟩, h2⟩

theorem getModulus_empty (roll : Nat → Nat) (p : Pack) (h : p.pack = []) (mn pf mx : Int) :
    p.getModulus roll mn pf mx = .error .noModuli := by
  simp [Pack.getModulus, sortedKeys, sortNat, h]

/-- `get_modulus` on a non-empty pack returns a stored group whose size is the one `pickSize` selects; the
`KeyError`/`IndexError` paths are unreachable. -/
theorem getModulus_ok (roll : Nat → Nat) (hroll : RollLaw roll) (p : Pack)
    (hwf : ∀ e ∈ p.pack, e.2 ≠ []) (hne : p.pack ≠ []) (mn pf mx : Int) :
    ∃ k x, p.getModulus roll mn pf mx = .ok x ∧ MemD p.pack k x ∧
      (k : Int) = pickSize (sizesOf p.pack) mn pf mx := by
  have hlen : (sortedKeys p.pack).length ≠ 0 := by
    simp only [sortedKeys, length_sortNat, List.length_map]
    intro h; exact hne (List.eq_nil_of_length_eq_zero h)
  have hsz_ne : sizesOf p.pack ≠ [] := by
    intro h
    have := congrArg List.length h
    simp only [sizesOf, List.length_map, List.length_nil] at this
    exact hlen this
  have hsz_nonneg : ∀ b ∈ sizesOf p.pack, (0 : Int) ≤ b := by
    intro b hb
    obtain ⟨k, _, _, h⟩ := (mem_sizesOf _ _).mp hb
    rw [← h]; exact Int.natCast_nonneg k
  have hmem := pickSize_mem (sizesOf p.pack) hsz_ne hsz_nonneg mn pf mx
  obtain ⟨k, l, hkl, hk⟩ := (mem_sizesOf _ _).mp hmem
  unfold Pack.getModulus
  simp only [hlen, if_false]
  rw [pickSize_eq_generated]
  change ∃ k x, (match dictGet p.pack (pickSize (sizesOf p.pack) mn pf mx) with
    | none => Except.error Err.internal
    | some l => match l[roll l.length]? with
      | none => Except.error Err.internal
      | some x => Except.ok x) = Except.ok x ∧ _
  generalize pickSize (sizesOf p.pack) mn pf mx = good at hk ⊢
  unfold dictGet
  cases hf : List.find? (fun e => decide ((e.1 : Int) = good)) p.pack with
  | none =>
    have := List.find?_eq_none.mp hf (k, l) hkl
    simp [hk] at this
  | some e =>
    have he := List.mem_of_find?_eq_some hf
    have hp := List.find?_some hf
    simp only [decide_eq_true_eq] at hp
    have hnon := hwf e he
    have hpos : 0 < e.2.length := List.length_pos_iff.mpr hnon
    have hr := hroll e.2.length hpos
    simp only [Option.map_some]
    rw [List.getElem?_eq_getElem hr]
    exact ⟨e.1, e.2[roll e.2.length], rfl, ⟨e.2, he, List.getElem_mem hr⟩, hp⟩

/-! ## the statement, end to end: moduli file → `read_file` → `get_modulus` -/

/-- size `b` is available: some line of the file that meets the requirements has a modulus of `b` bits -/
def Avail (lines : List (List Char)) (b : Nat) : Prop := ∃ line ∈ lines, ∃ g m, LineOffers line b g m

private theorem mem_sizesOf_readFile (old : Pack) (lines : List (List Char)) (b : Int) :
    b ∈ sizesOf (old.readFile lines).pack ↔ ∃ k, Avail lines k ∧ (k : Int) = b := by
  rw [mem_sizesOf]
  constructor
  · rintro ⟨k, l, hkl, hk⟩
    have hne := readFile_nonempty old lines (k, l) hkl
    cases l with
    | nil => exact absurd rfl hne
    | cons x xs =>
      obtain ⟨g, m⟩ := x
      have : MemD (old.readFile lines).pack k (g, m) := ⟨(g, m) :: xs, hkl, by simp⟩
      obtain ⟨line, hl, ho⟩ := (readFile_mem_iff old lines k g m).mp this
      exact ⟨k, ⟨line, hl, g, m, ho⟩, hk⟩
  · rintro ⟨k, ⟨line, hl, g, m, ho⟩, hk⟩
    obtain ⟨l, hkl, _⟩ := (readFile_mem_iff old lines k g m).mpr ⟨line, hl, ho⟩
    exact ⟨k, l, hkl, hk⟩

/-- **C43, full statement.** For every moduli file (`lines`), whatever the pack held before, every request
`(min, prefer, max)` — inverted and out-of-range ones included — and every `_roll_random` obeying its law:
if the file has at least one valid line, `get_modulus` returns a group `(g, m)` that a valid line of the file
offers (so it meets the primality-testing and bit-length requirements and `m` has `k` bits), and
 * if some available size lies in `[min, max]` and is `≥ prefer`, `k` is the smallest such size;
 * otherwise, if some available size lies in `[min, max]`, `k` is the largest in-range size. -/
theorem get_modulus_statement (roll : Nat → Nat) (hroll : RollLaw roll) (old : Pack)
    (lines : List (List Char)) (mn pf mx : Int) (hav : ∃ b, Avail lines b) :
    ∃ k g m, (old.readFile lines).getModulus roll mn pf mx = .ok (g, m) ∧
      (∃ line ∈ lines, LineOffers line k g m) ∧
      ((∃ b, Avail lines b ∧ Preferred mn pf mx b) →
        Preferred mn pf mx k ∧ ∀ b, Avail lines b → Preferred mn pf mx b → (k : Int) ≤ b) ∧
      ((¬ ∃ b, Avail lines b ∧ Preferred mn pf mx b) → (∃ b, Avail lines b ∧ InRange mn mx b) →
        InRange mn mx k ∧ ∀ b, Avail lines b → InRange mn mx b → (b : Int) ≤ k) := by
  have hwf := readFile_nonempty old lines
  have hne : (old.readFile lines).pack ≠ [] := by
    obtain ⟨b, line, hl, g, m, ho⟩ := hav
    obtain ⟨l, hkl, _⟩ := (readFile_mem_iff old lines b g m).mpr ⟨line, hl, ho⟩
    intro h; rw [h] at hkl; simp at hkl
  obtain ⟨k, ⟨g, m⟩, hget, hmem, hk⟩ := getModulus_ok roll hroll _ hwf hne mn pf mx
  have hnonneg : ∀ b ∈ sizesOf (old.readFile lines).pack, (0 : Int) ≤ b := by
    intro b hb
    obtain ⟨k', _, h⟩ := (mem_sizesOf_readFile old lines b).mp hb
    rw [← h]; exact Int.natCast_nonneg k'
  refine ⟨k, g, m, hget, (readFile_mem_iff old lines k g m).mp hmem, ?_, ?_⟩
  · rintro ⟨b, hb, hp⟩
    have hex : ∃ c ∈ sizesOf (old.readFile lines).pack, Preferred mn pf mx c :=
      ⟨(b : Int), (mem_sizesOf_readFile old lines _).mpr ⟨b, hb, rfl⟩, hp⟩
    obtain ⟨_, h2, h3⟩ := pickSize_preferred _ hnonneg mn pf mx hex
    rw [hk]
    refine ⟨h2, ?_⟩
    intro c hc hpc
    exact h3 (c : Int) ((mem_sizesOf_readFile old lines _).mpr ⟨c, hc, rfl⟩) hpc
  · intro hno ⟨b, hb, hr⟩
    have hno' : ¬ ∃ c ∈ sizesOf (old.readFile lines).pack, Preferred mn pf mx c := by
      rintro ⟨c, hc, hpc⟩
      obtain ⟨k', hk', hkc⟩ := (mem_sizesOf_readFile old lines c).mp hc
      exact hno ⟨k', hk', by rw [hkc]; exact hpc⟩
    have hex : ∃ c ∈ sizesOf (old.readFile lines).pack, InRange mn mx c :=
      ⟨(b : Int), (mem_sizesOf_readFile old lines _).mpr ⟨b, hb, rfl⟩, hr⟩
    obtain ⟨_, h2, h3⟩ := pickSize_largest _ hnonneg mn pf mx hno' hex
    rw [hk]
    refine ⟨h2, ?_⟩
    intro c hc hrc
    exact h3 (c : Int) ((mem_sizesOf_readFile old lines _).mpr ⟨c, hc, rfl⟩) hrc

/-- **Never offered**: whatever `get_modulus` returns from a file comes from a line whose fields meet the
primality-testing and bit-length requirements. -/
theorem offered_meets_requirements (roll : Nat → Nat) (hroll : RollLaw roll) (old : Pack)
    (lines : List (List Char)) (mn pf mx : Int) (g m : Int)
    (h : (old.readFile lines).getModulus roll mn pf mx = .ok (g, m)) :
    ∃ line ∈ lines, ∃ f, parseFields (strip line) = some f ∧ MeetsRequirements f ∧ f.modulus = m := by
  by_cases hne : (old.readFile lines).pack = []
  · rw [getModulus_empty roll _ hne] at h; cases h
  · obtain ⟨k, x, hget, hmem, _⟩ := getModulus_ok roll hroll _ (readFile_nonempty old lines) hne mn pf mx
    rw [hget] at h
    simp only [Except.ok.injEq] at h
    subst h
    obtain ⟨line, hl, ho⟩ := (readFile_mem_iff old lines k g m).mp hmem
    obtain ⟨f, hp, hm, hmod, _⟩ := lineOffers_meets line k g m ho
    exact ⟨line, hl, f, hp, hm, hmod⟩

/-- a file without any valid line: `SSHException("no moduli available")` -/
theorem no_valid_line (roll : Nat → Nat) (old : Pack) (lines : List (List Char)) (mn pf mx : Int)
    (h : ¬ ∃ b, Avail lines b) : (old.readFile lines).getModulus roll mn pf mx = .error .noModuli := by
  apply getModulus_empty
  cases hp : (old.readFile lines).pack with
  | nil => rfl
  | cons e rest =>
    exfalso
    obtain ⟨k, l⟩ := e
    have hmem : (k, l) ∈ (old.readFile lines).pack := by rw [hp]; simp
    have := (mem_sizesOf_readFile old lines (k : Int)).mp ((mem_sizesOf _ _).mpr ⟨k, l, hmem, rfl⟩)
    obtain ⟨k', hk', _⟩ := this
    exact h ⟨k', hk'⟩

/-! ## the `KexGex` path: every wire triple -/

private theorem gexClamp_closed (lo hi a b c : Int) :
    PV.Generated.C43.gexClamp lo hi a b c =
      (let p1 := if b > hi then hi else b
       let p := if p1 < lo then lo else p1
       (if a > p then p else a, p, if c < p then p else c)) := by
  unfold PV.Generated.C43.gexClamp
  by_cases h1 : b > hi
  · simp only [h1, if_true]
    by_cases h2 : hi < lo
    · simp only [h2, if_true]
      by_cases h3 : a > lo <;> by_cases h4 : c < lo <;> simp [h3, h4]
    · simp only [h2, if_false]
      by_cases h3 : a > hi <;> by_cases h4 : c < hi <;> simp [h3, h4]
  · simp only [h1, if_false]
    by_cases h2 : b < lo
    · simp only [h2, if_true]
      by_cases h3 : a > lo <;> by_cases h4 : c < lo <;> simp [h3, h4]
    · simp only [h2, if_false]
      by_cases h3 : a > b <;> by_cases h4 : c < b <;> simp [h3, h4]

/-- `_parse_kexdh_gex_request`: for **every** wire triple the triple handed to `get_modulus` is ordered,
its preferred size is the client's clamped into the server's [1024, 8192], min/max are widened to contain it. -/
theorem gexTriple_spec (a b c : Int) :
    (gexTriple a b c).1 ≤ (gexTriple a b c).2.1 ∧ (gexTriple a b c).2.1 ≤ (gexTriple a b c).2.2 ∧
    1024 ≤ (gexTriple a b c).2.1 ∧ (gexTriple a b c).2.1 ≤ 8192 ∧
    (gexTriple a b c).2.1 = (if b > 8192 then 8192 else if b < 1024 then 1024 else b) ∧
    (gexTriple a b c).1 = (if a > (gexTriple a b c).2.1 then (gexTriple a b c).2.1 else a) ∧
    (gexTriple a b c).2.2 = (if c < (gexTriple a b c).2.1 then (gexTriple a b c).2.1 else c) := by
  have hcl := gexClamp_closed 1024 8192 a b c
  simp only [gexTriple, PV.Generated.C43.kexMinBits, PV.Generated.C43.kexMaxBits, hcl]
  generalize hp : (if (if b > 8192 then 8192 else b) < (1024 : Int) then 1024 else if b > 8192 then 8192 else b) = p
  have hpv : p = (if b > 8192 then 8192 else if b < 1024 then 1024 else b) := by
    rw [← hp]; by_cases h1 : b > 8192 <;> by_cases h2 : b < 1024 <;> simp [h1, h2] <;> omega
  have hp1 : 1024 ≤ p ∧ p ≤ 8192 := by
    rw [hpv]; by_cases h1 : b > 8192 <;> by_cases h2 : b < 1024 <;> simp [h1, h2] <;> omega
  refine ⟨?_, ?_, hp1.1, hp1.2, hpv, trivial, trivial⟩
  · by_cases h : a > p <;> simp [h] <;> omega
  · by_cases h : c < p <;> simp [h] <;> omega

/-- a consistent request inside the server's limits is passed on unchanged -/
theorem gexTriple_id (a b c : Int) (h1 : a ≤ b) (h2 : b ≤ c) (h3 : 1024 ≤ b) (h4 : b ≤ 8192) :
    gexTriple a b c = (a, b, c) := by
  obtain ⟨_, _, _, _, e2, e1, e3⟩ := gexTriple_spec a b c
  have hb : (gexTriple a b c).2.1 = b := by rw [e2]; split <;> (try split) <;> omega
  rw [hb] at e1 e3
  have ha : (gexTriple a b c).1 = a := by rw [e1]; split <;> omega
  have hc : (gexTriple a b c).2.2 = c := by rw [e3]; split <;> omega
  ext <;> simp [ha, hb, hc]

/-- `_parse_kexdh_gex_request_old` -/
theorem gexTripleOld_spec (b : Int) :
    gexTripleOld b = (1024, (if b > 8192 then 8192 else if b < 1024 then 1024 else b), 8192) ∧
    1024 ≤ (gexTripleOld b).2.1 ∧ (gexTripleOld b).2.1 ≤ 8192 := by
  simp only [gexTripleOld, PV.Generated.C43.gexClampOld, PV.Generated.C43.kexMinBits,
    PV.Generated.C43.kexMaxBits]
  by_cases h1 : b > 8192 <;> by_cases h2 : b < 1024 <;> simp [h1, h2] <;> omega

/-- **KexGex, every wire triple**: the server's answer to a group-exchange request obeys the statement with
respect to the (ordered) triple `gexTriple a b c` it derives from the wire values — with the old first pass
as well as with the fixed one (`pickSizeOld_eq_of_le`). -/
theorem gex_request_statement (roll : Nat → Nat) (hroll : RollLaw roll) (old : Pack)
    (lines : List (List Char)) (a b c : Int) (hav : ∃ s, Avail lines s) :
    let t := gexTriple a b c
    ∃ k g m, (old.readFile lines).gexRequest roll a b c = .ok (g, m) ∧
      (∃ line ∈ lines, LineOffers line k g m) ∧
      ((∃ s, Avail lines s ∧ Preferred t.1 t.2.1 t.2.2 s) →
        Preferred t.1 t.2.1 t.2.2 k ∧ ∀ s, Avail lines s → Preferred t.1 t.2.1 t.2.2 s → (k : Int) ≤ s) ∧
      ((¬ ∃ s, Avail lines s ∧ Preferred t.1 t.2.1 t.2.2 s) → (∃ s, Avail lines s ∧ InRange t.1 t.2.2 s) →
        InRange t.1 t.2.2 k ∧ ∀ s, Avail lines s → InRange t.1 t.2.2 s → (s : Int) ≤ k) := by
  exact get_modulus_statement roll hroll old lines _ _ _ hav

/-- the fix leaves the key-exchange path untouched: for every wire triple the old selection equals the new -/
theorem gex_unaffected_by_fix (bs : List Int) (a b c : Int) :
    pickSizeOld bs (gexTriple a b c).1 (gexTriple a b c).2.1 (gexTriple a b c).2.2
      = pickSize bs (gexTriple a b c).1 (gexTriple a b c).2.1 (gexTriple a b c).2.2 :=
  pickSizeOld_eq_of_le _ _ _ _ (gexTriple_spec a b c).1

/-! ## history independence: several requests on one ModulusPack -/

/-- **Every answer depends on its own request only.**  For every pack and every history of requests on the same
object, the k-th answer is the one-shot answer to the k-th request (so `get_modulus_statement` applies to each of
them), and the object is unchanged. -/
theorem getSession_spec (p : Pack) (reqs : List Request) :
    p.getSession reqs =
      (p, reqs.map fun r => p.getModulus (fun n => r.2.2.2 % n) r.1 r.2.1 r.2.2.1) := by
  induction reqs with
  | nil => rfl
  | cons r rs ih => simp [Pack.getSession, Pack.getStep, ih]

/-- sizes {1024, 8192}: (2048, 2048, 4096) has nothing in range (closest offered), the following
(1024, 2048, 4096) on the same object must still be answered with the in-range 1024-bit group -/
example : (Pack.getSession ⟨[(1024, [(2, 11)]), (8192, [(2, 13)])], []⟩ [(2048, 2048, 4096, 0), (1024, 2048, 4096, 0)]).2
    = [.ok (2, 13), .ok (2, 11)] := by rfl

/-! ## non-vacuity -/

/-- a two-line moduli file: an 8-bit and a 12-bit group, plus a comment and a line failing the tests field -/
def demoFile : List (List Char) :=
  ["# comment".toList, "20240101000000 2 6 100 7 2 FF".toList, "20240101000000 2 6 100 12 5 0x0fff".toList,
   "20240101000000 2 2 100 9 2 1FF".toList]

example : LineOffers "20240101000000 2 6 100 7 2 FF".toList 8 2 255 :=
  ⟨'2', "0240101000000 2 6 100 7 2 FF".toList, ⟨2, 6, 100, 7, 2, 255⟩, by decide, by decide, by decide, by decide⟩
example : Avail demoFile 8 :=
  ⟨"20240101000000 2 6 100 7 2 FF".toList, by simp [demoFile], 2, 255,
    ⟨'2', "0240101000000 2 6 100 7 2 FF".toList, ⟨2, 6, 100, 7, 2, 255⟩, by decide, by decide, by decide, by decide⟩⟩
example : (Pack.empty.readFile demoFile).pack = [(8, [(2, 255)]), (12, [(5, 4095)])] := by decide
example : (Pack.empty.readFile demoFile).getModulus (fun n => 0 % n) 9 10 16 = .ok (5, 4095) := by rfl
example : (Pack.empty.readFile demoFile).getModulus (fun n => 0 % n) 1 20 16 = .ok (5, 4095) := by rfl
example : gexTriple 4096 2048 8192 = (2048, 2048, 8192) := by decide
example : gexTriple 1024 1000000 2000 = (1024, 8192, 8192) := by decide
/-- the defect fixed by `b >= min` in the first pass: with the old first pass the request
(min 1500, prefer 1000, max 3000) over sizes {1024, 2048} selected 1024; now 2048 -/
example : pickSize [1024, 2048] 1500 1000 3000 = 2048 := by decide
example : pickSize [1024, 2048, 4096] 1024 2000 8192 = 2048 := by decide
example : pickSize [1024, 2048, 4096] 1024 5000 4500 = 4096 := by decide

end PV.Props.C43
