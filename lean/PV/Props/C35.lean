/-
  C35 — Signatures verify exactly when they are genuine, for every key object.
  Property theorems only.  Model: PV/Model/Sig.lean (helpers: PV/Model/SigLemmas.lean).

  What is proved (for every primitive scheme `S`, every key, all data and all signature bytes):
    * totality — `verify_ssh_sig` answers `True`/`False` and never raises (`*_verify_total`);
    * completeness — what `sign_ssh_data` produces verifies under the signing object and under every
      other object holding the same public key, whatever route built either of them
      (`*_sign_verify`, `*_routes`), given the primitive's own law `verify pk m (sign sk m)`;
    * exactness — `True` is answered iff the blob declares a known algorithm name and the primitive
      accepted exactly (public key, hash named by the declared algorithm, the data, the signature as
      carried) (`*_accept_iff`), hence under a symbolic unforgeability hypothesis only genuine
      signatures are accepted (`*_accept_genuine`).
  Not proved here (the primitive's): that the primitive rejects altered data/signatures/other keys.
  The four defects present before the `fix:` commits are kept as `legacy_*_witness`.
-/
import PV.Model.SigLemmas
namespace PV.Props.C35
open PV PV.Wire PV.Sig PV.KeyUtf8

/-! ## totality: verification never raises -/

/-- RSA.  `hrsa` = cryptography's RSA `verify` leaves only by returning or by `InvalidSignature`. -/
theorem rsa_verify_total (S : Scheme) (hrsa : ∀ pk h d s, S.rsaVerify pk h d s ≠ .valueError)
    (k : RsaKey S) (data blob : Bytes) : ∃ b, rsaVerifyBlob S k data blob = .ok b := by
  unfold rsaVerifyBlob
  cases hg : getText { content := blob, pos := 0 } with
  | error e =>
    have : e = .unicodeDecodeError := by
      unfold getText at hg; simp only at hg; split at hg <;> simp_all
    subst this; exact ⟨false, rfl⟩
  | ok p =>
    obtain ⟨alg, r1⟩ := p
    simp only
    cases ha : rsaAlg alg with
    | none => exact ⟨false, rfl⟩
    | some hw =>
      obtain ⟨h, w⟩ := hw
      simp only
      cases hv : S.rsaVerify k.pubKey h data (rsaPad (S.rsaBits k.pubKey) (r1.getString).1) with
      | accept => exact ⟨true, rfl⟩
      | invalidSignature => exact ⟨false, rfl⟩
      | valueError => exact absurd hv (hrsa _ _ _ _)

example : ∃ b, rsaVerifyBlob toy (.pub (3, 1024)) [1, 2] [0, 0, 0, 1, 0xff] = .ok b :=
  rsa_verify_total toy (by intro pk h d s; simp only [toy]; split <;> simp) _ _ _

/-- ECDSA: whatever the primitive does (accept / InvalidSignature / ValueError), a Bool comes back. -/
theorem ec_verify_total (S : Scheme) (k : EcKey S) (data blob : Bytes) :
    ∃ b, ecVerifyBlob S k data blob = .ok b := by
  unfold ecVerifyBlob
  cases hg : getText { content := blob, pos := 0 } with
  | error e =>
    have : e = .unicodeDecodeError := by
      unfold getText at hg; simp only at hg; split at hg <;> simp_all
    subst this; exact ⟨false, rfl⟩
  | ok p =>
    obtain ⟨alg, r1⟩ := p
    simp only
    split
    · exact ⟨false, rfl⟩
    · exact ⟨_, rfl⟩

/-- Ed25519, for every object the constructor can build (`WF`: at least one half present). -/
theorem ed_verify_total (S : Scheme) (k : EdKey S) (hk : k.WF) (data blob : Bytes) :
    ∃ b, edVerifyBlob S k data blob = .ok b := by
  unfold edVerifyBlob
  cases hg : getText { content := blob, pos := 0 } with
  | error e =>
    have : e = .unicodeDecodeError := by
      unfold getText at hg; simp only at hg; split at hg <;> simp_all
    subst this; exact ⟨false, rfl⟩
  | ok p =>
    obtain ⟨alg, r1⟩ := p
    simp only
    split
    · exact ⟨false, rfl⟩
    · have : ∃ vk, k.verifyKey = .ok vk := by
        unfold EdKey.verifyKey
        cases hs : k.signing with
        | some sk => exact ⟨_, rfl⟩
        | none =>
          cases hv : k.verifying with
          | some pk => exact ⟨_, rfl⟩
          | none => unfold EdKey.WF at hk; simp [hs, hv] at hk
      obtain ⟨vk, hvk⟩ := this
      rw [hvk]
      exact ⟨_, rfl⟩

/-- every route of the statement builds a well-formed Ed25519 object -/
theorem ed_routes_wf (S : Scheme) (sk : S.EdSK) (r : Route) (k : EdKey S)
    (h : edOfRoute S sk r = some k) : k.WF := by
  cases r <;> simp [edOfRoute] at h <;> subst h <;> simp [EdKey.WF]

/-! ## completeness: genuine signatures verify, for every pair of construction routes -/

private theorem valid_names :
    utf8Valid nSshRsa = true ∧ utf8Valid nRsa256 = true ∧ utf8Valid nRsa512 = true ∧
    utf8Valid nEc256 = true ∧ utf8Valid nEc384 = true ∧ utf8Valid nEc521 = true ∧
    utf8Valid nEd = true := by decide

/-- the six names `RSAKey.HASHES` knows: (hash, name on the wire) per RFC 8332 -/
theorem rsa_hash_table :
    rsaAlg nSshRsa = some (.sha1, nSshRsa) ∧ rsaAlg (nSshRsa ++ certSuffix) = some (.sha1, nSshRsa) ∧
    rsaAlg nRsa256 = some (.sha256, nRsa256) ∧ rsaAlg (nRsa256 ++ certSuffix) = some (.sha256, nRsa256) ∧
    rsaAlg nRsa512 = some (.sha512, nRsa512) ∧ rsaAlg (nRsa512 ++ certSuffix) = some (.sha512, nRsa512) := by
  decide

/-- a name is known iff it is one of the six; the wire name is always one of the three plain ones
    and maps to the same hash -/
theorem rsaAlg_some (name : Bytes) (h : Hash) (w : Bytes) (hs : rsaAlg name = some (h, w)) :
    (name, h, w) ∈ rsaTable ∧ rsaAlg w = some (h, w) ∧ utf8Valid w = true ∧ w.length < 4294967296 := by
  unfold rsaAlg at hs
  cases hf : rsaTable.find? (fun e => e.1 == name) with
  | none => simp [hf] at hs
  | some e =>
    simp only [hf, Option.map_some, Option.some.injEq] at hs
    have hmem := List.mem_of_find?_eq_some hf
    have hname : e.1 = name := by
      have := List.find?_some hf
      simpa using this
    obtain ⟨n, h', w'⟩ := e
    simp only at hs hname
    cases hs
    subst hname
    refine ⟨hmem, ?_⟩
    simp only [rsaTable, List.mem_cons, Prod.mk.injEq, List.not_mem_nil, or_false] at hmem
    rcases hmem with ⟨_, rfl, rfl⟩ | ⟨_, rfl, rfl⟩ | ⟨_, rfl, rfl⟩ | ⟨_, rfl, rfl⟩ | ⟨_, rfl, rfl⟩ | ⟨_, rfl, rfl⟩ <;>
      decide

/-- RSA: a signature made by a private-key object verifies under every object with the same public
    key, for `algorithm=None` and for each of the six algorithm names. -/
theorem rsa_sign_verify (S : Scheme) (L : Laws S) (sk : S.RsaSK) (verifier : RsaKey S)
    (hv : verifier.pubKey = S.rsaPub sk) (data : Bytes) (alg : Option Bytes)
    (halg : (rsaAlg (alg.getD nSshRsa)).isSome = true) :
    ∃ blob, rsaSignBlob S (.priv sk) data alg = .ok blob ∧
      rsaVerifyBlob S verifier data blob = .ok true := by
  unfold rsaSignBlob
  cases ha : rsaAlg (alg.getD nSshRsa) with
  | none => simp [ha] at halg
  | some hw =>
    obtain ⟨h, w⟩ := hw
    obtain ⟨_, hw2, hwv, hwl⟩ := rsaAlg_some _ h w ha
    refine ⟨_, rfl, ?_⟩
    unfold rsaVerifyBlob
    rw [getText_head w _ hwl hwv]
    simp only [hw2]
    have h2 := getString_second w (S.rsaSign sk h data) [] (L.rsa_len sk h data)
    simp only [List.append_nil] at h2
    rw [h2, hv]
    have hfull := L.rsa_full sk h data
    have hpad : rsaPad (S.rsaBits (S.rsaPub sk)) (S.rsaSign sk h data) = S.rsaSign sk h data := by
      unfold rsaPad
      have : ¬ S.rsaBits (S.rsaPub sk) > (S.rsaSign sk h data).length * 8 := by omega
      simp [this]
    simp only [hpad, L.rsa_ok]

/-- … in particular for every (signer route, verifier route) pair of the statement -/
theorem rsa_routes (S : Scheme) (L : Laws S) (sk : S.RsaSK) (rs rv : Route) (hs : rs ≠ .publicBytes)
    (data : Bytes) (alg : Option Bytes) (halg : (rsaAlg (alg.getD nSshRsa)).isSome = true) :
    ∃ blob, rsaSignBlob S (rsaOfRoute S sk rs) data alg = .ok blob ∧
      rsaVerifyBlob S (rsaOfRoute S sk rv) data blob = .ok true := by
  have hsig : rsaOfRoute S sk rs = .priv sk := by cases rs <;> simp_all [rsaOfRoute]
  rw [hsig]
  exact rsa_sign_verify S L sk _ (by cases rv <;> rfl) data alg halg

private theorem curve_name_ok (c : Curve) : utf8Valid c.name = true ∧ c.name.length < 4294967296 := by
  cases c <;> decide

/-- ECDSA (all three curves): signer holds the private key; verifier is any object on the same curve
    with the matching public key. -/
theorem ec_sign_verify (S : Scheme) (L : Laws S) (sk : S.EcSK) (signer verifier : EcKey S)
    (hs : signer.signing = some sk) (hc : verifier.curve = signer.curve)
    (hv : verifier.verifying = S.ecPub sk) (data : Bytes) :
    ∃ blob, ecSignBlob S signer data = .ok blob ∧ ecVerifyBlob S verifier data blob = .ok true := by
  unfold ecSignBlob
  rw [hs]
  refine ⟨_, rfl, ?_⟩
  obtain ⟨hnv, hnl⟩ := curve_name_ok signer.curve
  unfold ecVerifyBlob
  rw [getText_head _ _ hnl hnv]
  simp only [hc, ne_eq, not_true_eq_false, if_false]
  have hlen := L.ec_len sk signer.curve.hash data
  have hsl := sigEncode_length ((S.ecSign sk signer.curve.hash data).1 : Int) ((S.ecSign sk signer.curve.hash data).2 : Int)
  have h2 := getString_second signer.curve.name
    (sigEncode ((S.ecSign sk signer.curve.hash data).1 : Int) ((S.ecSign sk signer.curve.hash data).2 : Int)) []
    (by omega)
  simp only [List.append_nil] at h2
  rw [h2]
  simp only
  rw [sigDecode_sigEncode _ _ (by omega) (by omega), hv]
  simp only [L.ec_ok, caught]

theorem ec_routes (S : Scheme) (L : Laws S) (c : Curve) (sk : S.EcSK) (rs rv : Route)
    (hs : rs ≠ .publicBytes) (data : Bytes) :
    ∃ blob, ecSignBlob S (ecOfRoute S c sk rs) data = .ok blob ∧
      ecVerifyBlob S (ecOfRoute S c sk rv) data blob = .ok true := by
  apply ec_sign_verify S L sk
  · cases rs <;> simp_all [ecOfRoute]
  · cases rs <;> cases rv <;> rfl
  · cases rv <;> rfl

/-- Ed25519: signer holds a signing key; verifier is any object whose verify key is the matching
    public key — a key loaded from the same private file (only `_signing_key` set) included. -/
theorem ed_sign_verify (S : Scheme) (L : Laws S) (sk : S.EdSK) (signer verifier : EdKey S)
    (hs : signer.signing = some sk) (hv : verifier.verifyKey = .ok (S.edPub sk)) (data : Bytes) :
    ∃ blob, edSignBlob S signer data = .ok blob ∧ edVerifyBlob S verifier data blob = .ok true := by
  unfold edSignBlob
  rw [hs]
  refine ⟨_, rfl, ?_⟩
  unfold edVerifyBlob
  rw [getText_head nEd _ (by decide) valid_names.2.2.2.2.2.2]
  simp only [ne_eq, not_true_eq_false, if_false, hv]
  have h2 := getString_second nEd (S.edSign sk data) [] (L.ed_len sk data)
  simp only [List.append_nil] at h2
  rw [h2]
  simp only [L.ed_ok, caught]

theorem ed_routes (S : Scheme) (L : Laws S) (sk : S.EdSK) (rv : Route) (signer verifier : EdKey S)
    (hs : edOfRoute S sk .privateFile = some signer) (hv : edOfRoute S sk rv = some verifier)
    (data : Bytes) :
    ∃ blob, edSignBlob S signer data = .ok blob ∧ edVerifyBlob S verifier data blob = .ok true := by
  apply ed_sign_verify S L sk
  · simp [edOfRoute] at hs; subst hs; rfl
  · cases rv <;> simp [edOfRoute] at hv <;> subst hv <;> rfl

/-! ## the toy scheme satisfies the laws (the hypotheses above are satisfiable) -/

private theorem toyDigest_lt (seed : Nat) (b : Bytes) : toyDigest seed b < 4294967291 := by
  unfold toyDigest
  generalize hs : seed % 4294967291 = s0
  have h0 : s0 < 4294967291 := by omega
  clear hs
  induction b generalizing s0 with
  | nil => simpa using h0
  | cons x xs ih => simp only [List.foldl_cons]; exact ih _ (Nat.mod_lt _ (by decide))

private theorem natBytes_len_le (n k : Nat) (h : n < 256 ^ k) : (natBytes n).length ≤ k := by
  induction k generalizing n with
  | zero =>
    have : n = 0 := by simpa using h
    subst this; simp [natBytes_zero]
  | succ k ih =>
    by_cases hn : n = 0
    · subst hn; simp [natBytes_zero]
    · rw [natBytes_pos n hn]
      have : n / 256 < 256 ^ k := by
        rw [Nat.pow_succ] at h; omega
      have := ih _ this
      simp; omega

private theorem deflate_small (n : Nat) (h : n < 4294967296) : (deflate (n : Int)).length ≤ 5 := by
  unfold deflate
  simp only [Int.natCast_nonneg, if_true, Int.toNat_natCast]
  unfold deflatePos
  split
  · simp
  · have hl := natBytes_len_le n 4 (by simpa using h)
    cases hq : natBytes n with
    | nil => simp [signPad]
    | cons b r =>
      rw [hq] at hl
      simp only [signPad]
      split <;> simp at hl ⊢ <;> omega

theorem toy_laws : Laws toy where
  rsa_ok := by intro sk h d; simp [toy]
  rsa_full := by
    intro sk h d
    simp only [toy, toyRsaSig, beBytes_length]
    omega
  rsa_len := by
    intro sk h d
    simp only [toy, toyRsaSig, beBytes_length]
    omega
  ec_ok := by
    intro sk h d
    simp only [toy]
    have : ¬ (((toyEcSig (toyPub sk) h d).1 : Int) < 0 ∨ ((toyEcSig (toyPub sk) h d).2 : Int) < 0) := by omega
    simp [this]
  ec_len := by
    intro sk h d
    simp only [toy, toyEcSig]
    have h1 := toyDigest_lt (toyPub sk * 1000 + h.id) d
    have h2 := toyDigest_lt (toyPub sk * 1000 + 500 + h.id) d
    have a := deflate_small (toyDigest (toyPub sk * 1000 + h.id) d + 1) (by omega)
    have b := deflate_small (toyDigest (toyPub sk * 1000 + 500 + h.id) d + 1) (by omega)
    simp only [Int.natCast_add, Int.cast_ofNat_Int] at a b ⊢
    omega
  ed_ok := by intro sk d; simp [toy, toyEdSig]
  ed_len := by intro sk d; simp [toy, toyEdSig]

/-! non-vacuity: the laws hold for the toy scheme, so the completeness theorems apply to it -/

example : ∃ blob, rsaSignBlob toy (rsaOfRoute toy (5, 1024) .privateFile) [1, 2, 3] (some nRsa512) = .ok blob ∧
    rsaVerifyBlob toy (rsaOfRoute toy (5, 1024) .publicBytes) [1, 2, 3] blob = .ok true :=
  rsa_routes toy toy_laws (5, 1024) .privateFile .publicBytes (by decide) _ _ (by decide)

example : ∃ blob, ecSignBlob toy (ecOfRoute toy .p521 (9 : Nat) .generated) [7] = .ok blob ∧
    ecVerifyBlob toy (ecOfRoute toy .p521 (9 : Nat) .publicBytes) [7] blob = .ok true :=
  ec_routes toy toy_laws .p521 (9 : Nat) .generated .publicBytes (by decide) _

example : ∃ blob, edSignBlob toy ⟨some (4 : Nat), none⟩ [7] = .ok blob ∧
    edVerifyBlob toy ⟨some (4 : Nat), none⟩ [7] blob = .ok true :=
  ed_routes toy toy_laws (4 : Nat) .privateFile _ _ rfl rfl _

/-! ## exactness: `True` iff the primitive accepted exactly (pub, hash of declared algo, data, sig) -/

theorem rsa_accept_iff (S : Scheme) (k : RsaKey S) (data blob : Bytes) :
    rsaVerifyBlob S k data blob = .ok true ↔
      ∃ alg r1 h w, getText { content := blob, pos := 0 } = .ok (alg, r1) ∧ rsaAlg alg = some (h, w) ∧
        S.rsaVerify k.pubKey h data (rsaPad (S.rsaBits k.pubKey) (r1.getString).1) = .accept := by
  unfold rsaVerifyBlob
  cases hg : getText { content := blob, pos := 0 } with
  | error e =>
    constructor
    · intro h; cases e <;> simp at h
    · rintro ⟨_, _, _, _, h, _⟩; cases h
  | ok p =>
    obtain ⟨alg, r1⟩ := p
    simp only
    cases ha : rsaAlg alg with
    | none =>
      constructor
      · intro h; cases h
      · rintro ⟨_, _, _, _, h, ha', _⟩; cases h; rw [ha] at ha'; cases ha'
    | some hw =>
      obtain ⟨h, w⟩ := hw
      simp only
      cases hv : S.rsaVerify k.pubKey h data (rsaPad (S.rsaBits k.pubKey) (r1.getString).1) with
      | accept => exact ⟨fun _ => ⟨alg, r1, h, w, rfl, ha, hv⟩, fun _ => rfl⟩
      | invalidSignature =>
        constructor
        · intro h; cases h
        · rintro ⟨_, _, _, _, hh, ha', hv'⟩; cases hh; rw [ha] at ha'; cases ha'; rw [hv] at hv'; cases hv'
      | valueError =>
        constructor
        · intro h; cases h
        · rintro ⟨_, _, _, _, hh, ha', hv'⟩; cases hh; rw [ha] at ha'; cases ha'; rw [hv] at hv'; cases hv'

theorem ec_accept_iff (S : Scheme) (k : EcKey S) (data blob : Bytes) :
    ecVerifyBlob S k data blob = .ok true ↔
      ∃ r1, getText { content := blob, pos := 0 } = .ok (k.curve.name, r1) ∧
        S.ecVerify k.verifying k.curve.hash data (sigDecode (r1.getString).1).1
          (sigDecode (r1.getString).1).2 = .accept := by
  unfold ecVerifyBlob
  cases hg : getText { content := blob, pos := 0 } with
  | error e =>
    constructor
    · intro h; cases e <;> simp at h
    · rintro ⟨_, h, _⟩; cases h
  | ok p =>
    obtain ⟨alg, r1⟩ := p
    simp only
    by_cases hn : alg = k.curve.name
    · subst hn
      simp only [ne_eq, not_true_eq_false, if_false]
      cases hv : S.ecVerify k.verifying k.curve.hash data (sigDecode (r1.getString).1).1
          (sigDecode (r1.getString).1).2 with
      | accept => exact ⟨fun _ => ⟨r1, rfl, hv⟩, fun _ => rfl⟩
      | invalidSignature =>
        constructor
        · intro h; simp [caught] at h
        · rintro ⟨_, hh, hv'⟩; cases hh; rw [hv] at hv'; cases hv'
      | valueError =>
        constructor
        · intro h; simp [caught] at h
        · rintro ⟨_, hh, hv'⟩; cases hh; rw [hv] at hv'; cases hv'
    · simp only [ne_eq, hn, not_false_eq_true, if_true]
      constructor
      · intro h; cases h
      · rintro ⟨_, hh, _⟩; cases hh; exact absurd rfl hn

theorem ed_accept_iff (S : Scheme) (k : EdKey S) (data blob : Bytes) :
    edVerifyBlob S k data blob = .ok true ↔
      ∃ r1 vk, getText { content := blob, pos := 0 } = .ok (nEd, r1) ∧ k.verifyKey = .ok vk ∧
        S.edVerify vk data (r1.getString).1 = .accept := by
  unfold edVerifyBlob
  cases hg : getText { content := blob, pos := 0 } with
  | error e =>
    constructor
    · intro h; cases e <;> simp at h
    · rintro ⟨_, _, h, _⟩; cases h
  | ok p =>
    obtain ⟨alg, r1⟩ := p
    simp only
    by_cases hn : alg = nEd
    · subst hn
      simp only [ne_eq, not_true_eq_false, if_false]
      cases hk : k.verifyKey with
      | error e =>
        constructor
        · intro h; cases h
        · rintro ⟨_, _, _, h, _⟩; cases h
      | ok vk =>
        simp only
        cases hv : S.edVerify vk data (r1.getString).1 with
        | accept => exact ⟨fun _ => ⟨r1, vk, rfl, rfl, hv⟩, fun _ => rfl⟩
        | invalidSignature =>
          constructor
          · intro h; simp [caught] at h
          · rintro ⟨_, _, hh, hk', hv'⟩; cases hh; cases hk'; rw [hv] at hv'; cases hv'
        | valueError =>
          constructor
          · intro h; simp [caught] at h
          · rintro ⟨_, _, hh, hk', hv'⟩; cases hh; cases hk'; rw [hv] at hv'; cases hv'
    · simp only [ne_eq, hn, not_false_eq_true, if_true]
      constructor
      · intro h; cases h
      · rintro ⟨_, _, hh, _⟩; cases hh; exact absurd rfl hn

/-- the declared algorithm fixes the hash: a blob naming `rsa-sha2-512` is checked with SHA-512 … -/
theorem rsa_declared_hash (S : Scheme) (k : RsaKey S) (data blob alg : Bytes) (r1 : Rd) (h : Hash) (w : Bytes)
    (hg : getText { content := blob, pos := 0 } = .ok (alg, r1)) (ha : rsaAlg alg = some (h, w))
    (hacc : rsaVerifyBlob S k data blob = .ok true) :
    S.rsaVerify k.pubKey h data (rsaPad (S.rsaBits k.pubKey) (r1.getString).1) = .accept := by
  obtain ⟨alg', r1', h', w', hg', ha', hv⟩ := (rsa_accept_iff S k data blob).mp hacc
  rw [hg] at hg'
  cases hg'
  rw [ha] at ha'
  cases ha'
  exact hv

/-- Symbolic unforgeability lifted through the wrapper: if the primitive only accepts signatures
    the key owner made (`Genuine`), `verify_ssh_sig` only accepts blobs carrying such a signature
    for exactly this data and the hash its algorithm name declares. -/
theorem rsa_accept_genuine (S : Scheme) (Genuine : S.RsaPK → Hash → Bytes → Bytes → Prop)
    (huf : ∀ pk h d s, S.rsaVerify pk h d s = .accept → Genuine pk h d s)
    (k : RsaKey S) (data blob : Bytes) (hacc : rsaVerifyBlob S k data blob = .ok true) :
    ∃ alg r1 h w, getText { content := blob, pos := 0 } = .ok (alg, r1) ∧ rsaAlg alg = some (h, w) ∧
      Genuine k.pubKey h data (rsaPad (S.rsaBits k.pubKey) (r1.getString).1) := by
  obtain ⟨alg, r1, h, w, hg, ha, hv⟩ := (rsa_accept_iff S k data blob).mp hacc
  exact ⟨alg, r1, h, w, hg, ha, huf _ _ _ _ hv⟩

theorem ec_accept_genuine (S : Scheme) (Genuine : S.EcPK → Hash → Bytes → Int → Int → Prop)
    (huf : ∀ pk h d r s, S.ecVerify pk h d r s = .accept → Genuine pk h d r s)
    (k : EcKey S) (data blob : Bytes) (hacc : ecVerifyBlob S k data blob = .ok true) :
    ∃ r1, getText { content := blob, pos := 0 } = .ok (k.curve.name, r1) ∧
      Genuine k.verifying k.curve.hash data (sigDecode (r1.getString).1).1 (sigDecode (r1.getString).1).2 := by
  obtain ⟨r1, hg, hv⟩ := (ec_accept_iff S k data blob).mp hacc
  exact ⟨r1, hg, huf _ _ _ _ _ hv⟩

theorem ed_accept_genuine (S : Scheme) (Genuine : S.EdPK → Bytes → Bytes → Prop)
    (huf : ∀ pk d s, S.edVerify pk d s = .accept → Genuine pk d s)
    (k : EdKey S) (data blob : Bytes) (hacc : edVerifyBlob S k data blob = .ok true) :
    ∃ r1 vk, getText { content := blob, pos := 0 } = .ok (nEd, r1) ∧ k.verifyKey = .ok vk ∧
      Genuine vk data (r1.getString).1 := by
  obtain ⟨r1, vk, hg, hk, hv⟩ := (ed_accept_iff S k data blob).mp hacc
  exact ⟨r1, vk, hg, hk, huf _ _ _ hv⟩

/-- the toy scheme is (trivially) unforgeable in this symbolic sense w.r.t. "is the toy signature" -/
example : ∀ pk d s, toy.edVerify pk d s = .accept → s = toyEdSig pk d := by
  intro pk d s h
  simp only [toy] at h
  split at h
  · cases h
  · split at h
    · assumption
    · cases h

/-! ## the four defects repaired by `fix:` commits (behaviour of the code before them) -/

/-- a signature blob whose algorithm name is the single byte FF: every `verify_ssh_sig` raised
    `UnicodeDecodeError` out of its first `get_text()`; now all three answer `False` -/
theorem legacy_nonutf8_witness :
    Legacy.textGuard [0, 0, 0, 1, 0xff] = .error .unicodeDecodeError ∧
    rsaVerifyBlob toy (.pub (3, 1024)) [] [0, 0, 0, 1, 0xff] = .ok false ∧
    ecVerifyBlob toy ⟨.p256, none, (3 : Nat)⟩ [] [0, 0, 0, 1, 0xff] = .ok false ∧
    edVerifyBlob toy ⟨none, some (3 : Nat)⟩ [] [0, 0, 0, 1, 0xff] = .ok false := by
  decide

/-- `ecdsa-sha2-nistp256` signature whose `r` is the mpint `FF` (= -1): `ValueError` escaped -/
def ecNegBlob : Bytes := encStr nEc256 ++ encStr (encStr [0xff] ++ encStr [1])

theorem legacy_ecdsa_negative_witness :
    Legacy.ecVerifyBlob toy ⟨.p256, none, (3 : Nat)⟩ [] ecNegBlob = .error .valueError ∧
    ecVerifyBlob toy ⟨.p256, none, (3 : Nat)⟩ [] ecNegBlob = .ok false := by
  decide

/-- an `ssh-ed25519` signature of 63 bytes: nacl's `ValueError` escaped -/
def edShortBlob : Bytes := encStr nEd ++ encStr (zeros 63)

theorem legacy_ed25519_length_witness :
    Legacy.edVerifyBlob toy ⟨none, some (3 : Nat)⟩ [] edShortBlob = .error .valueError ∧
    edVerifyBlob toy ⟨none, some (3 : Nat)⟩ [] edShortBlob = .ok false := by
  decide

/-- an Ed25519 key loaded from a private key file (`_verifying_key is None`) could not verify even
    its own signature: `AttributeError`; now it answers `True` -/
theorem legacy_ed25519_private_file_witness :
    ∃ k blob, edOfRoute toy (4 : Nat) .privateFile = some k ∧ edSignBlob toy k [7] = .ok blob ∧
      Legacy.edVerifyBlob toy k [7] blob = .error .attributeError ∧
      edVerifyBlob toy k [7] blob = .ok true := by
  refine ⟨_, _, rfl, rfl, ?_, ?_⟩ <;> decide +kernel

end PV.Props.C35
