/-
  C40 — SSH config lookup follows OpenSSH first-obtained-value semantics.
  Property theorems only.  Model: PV/Model/Config.lean (helpers: PV/Model/ConfigLemmas.lean);
  token table / replacement order generated from config.py: PV/Generated/C40.lean.

  Fragment: the first-obtained theorems are proved for configs all of whose blocks are `Host` blocks or `Match`
  blocks with pass-invariant criteria (all / originalhost / localuser / canonical, negations included) — `Static`.
  `Match host` / `user` / `final` (verdict depends on the options obtained so far and on the pass) are modelled and
  tied by correspondence only; `Match exec` and hostname canonicalisation are not modelled.
-/
import PV.Model.ConfigLemmas
namespace PV.Props.C40
open PV.Config

/-! ## Host patterns: "some pattern matches and no negated pattern does" -/

private theorem patternLoop_iff (t : String) (ps : List String) (m : Bool) :
    patternLoop t ps m = true ↔
      (m = true ∨ ∃ p ∈ ps, fnmatch t p = true) ∧
      ¬ ∃ p ∈ ps, startsWithChar p '!' = true ∧ fnmatch t (dropFirst p) = true := by
  induction ps generalizing m with
  | nil => simp [patternLoop]
  | cons p ps ih =>
    simp only [patternLoop]
    by_cases hneg : (startsWithChar p '!' && fnmatch t (dropFirst p)) = true
    · simp only [hneg, if_true, Bool.false_eq_true, false_iff]
      rintro ⟨_, h2⟩
      simp only [Bool.and_eq_true] at hneg
      exact h2 ⟨p, by simp, hneg⟩
    · simp only [hneg, Bool.false_eq_true, if_false]
      have hneg' : ¬ (startsWithChar p '!' = true ∧ fnmatch t (dropFirst p) = true) := by
        simpa [Bool.and_eq_true] using hneg
      by_cases hpos : fnmatch t p = true
      · simp only [hpos, if_true]
        rw [ih]
        constructor
        · rintro ⟨_, h2⟩
          refine ⟨Or.inr ⟨p, by simp, hpos⟩, ?_⟩
          rintro ⟨q, hq, hq2⟩
          simp only [List.mem_cons] at hq
          rcases hq with hq | hq
          · subst hq; exact hneg' hq2
          · exact h2 ⟨q, hq, hq2⟩
        · rintro ⟨_, h2⟩
          refine ⟨Or.inl rfl, ?_⟩
          rintro ⟨q, hq, hq2⟩
          exact h2 ⟨q, by simp [hq], hq2⟩
      · simp only [hpos, Bool.false_eq_true, if_false]
        rw [ih]
        constructor
        · rintro ⟨h1, h2⟩
          refine ⟨?_, ?_⟩
          · rcases h1 with h1 | ⟨q, hq, hq2⟩
            · exact Or.inl h1
            · exact Or.inr ⟨q, by simp [hq], hq2⟩
          · rintro ⟨q, hq, hq2⟩
            simp only [List.mem_cons] at hq
            rcases hq with hq | hq
            · subst hq; exact hneg' hq2
            · exact h2 ⟨q, hq, hq2⟩
        · rintro ⟨h1, h2⟩
          refine ⟨?_, ?_⟩
          · rcases h1 with h1 | ⟨q, hq, hq2⟩
            · exact Or.inl h1
            · simp only [List.mem_cons] at hq
              rcases hq with hq | hq
              · subst hq; exact absurd hq2 hpos
              · exact Or.inr ⟨q, hq, hq2⟩
          · rintro ⟨q, hq, hq2⟩
            exact h2 ⟨q, by simp [hq], hq2⟩

/-- **A `Host` block applies exactly when some pattern matches and no negated pattern does.** -/
theorem host_applies_iff (patterns : List String) (target : String) :
    patternMatches patterns target = true ↔
      (∃ p ∈ patterns, fnmatch target p = true) ∧
      ¬ ∃ p ∈ patterns, startsWithChar p '!' = true ∧ fnmatch target (dropFirst p) = true := by
  unfold patternMatches
  rw [patternLoop_iff]
  simp

/-- `*` matches every name; a pattern without `*` and `?` matches only itself -/
theorem glob_star (n : List Char) : globMatch ['*'] n = true := by
  have : ∀ n : List Char, starMatch (fun m : List Char => m.isEmpty) n = true := by
    intro n
    induction n with
    | nil => simp [starMatch]
    | cons c cs ih => simp [starMatch, ih]
  simp [globMatch, this]

theorem glob_literal (p n : List Char) (hp : ∀ c ∈ p, c ≠ '*' ∧ c ≠ '?') :
    globMatch p n = true ↔ p = n := by
  induction p generalizing n with
  | nil => cases n <;> simp [globMatch]
  | cons a as ih =>
    have ha := hp a (by simp)
    have has : ∀ c ∈ as, c ≠ '*' ∧ c ≠ '?' := fun c hc => hp c (by simp [hc])
    have h1 : (a == '*') = false := by simpa using ha.1
    have h2 : (a == '?') = false := by simpa using ha.2
    cases n with
    | nil => simp [globMatch, h1]
    | cons c cs =>
      simp only [globMatch, h1, h2, Bool.false_eq_true, if_false, Bool.false_or, Bool.and_eq_true, beq_iff_eq,
        ih cs has, List.cons.injEq]

example : fnmatch "web1.example.com" "*.example.com" = true := by decide
example : fnmatch "web10" "web?" = false := by decide
example : patternMatches ["web*", "!web2"] "web2" = false ∧ patternMatches ["web*", "!web2"] "web1" = true := by
  decide

/-! ## inside one block: the first value of a keyword counts (`ProxyCommand none` included) -/

/-- the option lines of one block, parsed -/
def blockConfig (kvs : List (String × String)) : Dict := kvs.foldl (fun c kv => addKV c kv.1 kv.2) []

/-- what a line contributes for an ordinary (single-valued) keyword -/
def scalarVal (k v : String) : Val :=
  if k == "proxycommand" && lower v == "none" then .none else .str (unquote v)

private theorem addKV_get_other (cfg : Dict) (key value k : String) (h : k ≠ lower key) :
    (addKV cfg key value).get k = cfg.get k := by
  unfold addKV
  simp only
  split
  · split
    · rfl
    · exact Dict.get_set_other _ _ _ _ h
  · split
    · split <;> exact Dict.get_set_other _ _ _ _ h
    · split
      · rfl
      · exact Dict.get_set_other _ _ _ _ h

private theorem addKV_get_scalar (cfg : Dict) (key value : String) (hk : listKeys.contains (lower key) = false) :
    (addKV cfg key value).get (lower key) =
      if cfg.has (lower key) then cfg.get (lower key) else some (scalarVal (lower key) value) := by
  unfold addKV scalarVal
  simp only [hk, Bool.false_eq_true, if_false]
  split
  · split
    · rfl
    · exact Dict.get_set_same _ _ _
  · split
    · rfl
    · exact Dict.get_set_same _ _ _

private theorem foldl_addKV_scalar (kvs : List (String × String)) (acc : Dict) (k : String)
    (hk : listKeys.contains k = false) :
    (kvs.foldl (fun c kv => addKV c kv.1 kv.2) acc).get k =
      match acc.get k with
      | some v => some v
      | none => (kvs.find? (fun kv => lower kv.1 == k)).map (fun kv => scalarVal k kv.2) := by
  induction kvs generalizing acc with
  | nil => simp only [List.foldl_nil, List.find?_nil, Option.map_none]; cases acc.get k <;> rfl
  | cons kv rest ih =>
    simp only [List.foldl_cons, ih]
    by_cases hkey : lower kv.1 = k
    · subst hkey
      rw [addKV_get_scalar _ _ _ hk]
      simp only [List.find?_cons, BEq.rfl, Option.map_some, Dict.has]
      split <;> split <;> simp_all
    · have hne : k ≠ lower kv.1 := fun e => hkey e.symm
      rw [addKV_get_other _ _ _ _ hne]
      have : (lower kv.1 == k) = false := by simpa using hkey
      simp only [List.find?_cons, this]

/-- **Within a block the first value of a keyword is the one that counts** — for every ordinary keyword, including
`ProxyCommand` whose value `none` (any case) is stored as `None` only when it is the first ProxyCommand of the block
(the defect fixed in 080715c: a later `ProxyCommand none` used to overwrite an earlier command). -/
theorem block_first_value (kvs : List (String × String)) (k : String) (hk : listKeys.contains k = false) :
    (blockConfig kvs).get k = (kvs.find? (fun kv => lower kv.1 == k)).map (fun kv => scalarVal k kv.2) := by
  unfold blockConfig
  rw [foldl_addKV_scalar kvs [] k hk]; rfl

private theorem addKV_get_list (cfg : Dict) (key value : String) (hk : listKeys.contains (lower key) = true) :
    (addKV cfg key value).get (lower key) = some (.list (listOf (cfg.get (lower key)) ++ [unquote value])) := by
  have hpc : (lower key == "proxycommand") = false := by
    simp only [listKeys, List.contains_cons, List.contains_nil, Bool.or_false, Bool.or_eq_true, beq_iff_eq] at hk
    rcases hk with h | h | h <;> rw [h] <;> decide
  unfold addKV
  simp only [hpc, Bool.false_and, Bool.false_eq_true, if_false, hk, if_true]
  cases hc : cfg.get (lower key) with
  | none => simp [Dict.get_set_same, listOf]
  | some v =>
    cases v with
    | list l => simp [Dict.get_set_same, listOf]
    | str s => simp [Dict.get_set_same, listOf]
    | none => simp [Dict.get_set_same, listOf]

private theorem foldl_addKV_list (kvs : List (String × String)) (acc : Dict) (k : String)
    (hk : listKeys.contains k = true) :
    (kvs.foldl (fun c kv => addKV c kv.1 kv.2) acc).get k =
      if (kvs.filter (fun kv => lower kv.1 == k)).isEmpty then acc.get k
      else some (.list (listOf (acc.get k) ++ (kvs.filter (fun kv => lower kv.1 == k)).map (fun kv => unquote kv.2))) := by
  induction kvs generalizing acc with
  | nil => simp
  | cons kv rest ih =>
    simp only [List.foldl_cons, ih]
    by_cases hkey : lower kv.1 = k
    · subst hkey
      rw [addKV_get_list _ _ _ hk]
      simp only [List.filter_cons, BEq.rfl, if_true, List.isEmpty_cons, Bool.false_eq_true, if_false, listOf,
        List.map_cons, List.append_assoc, List.singleton_append]
      split
      · rename_i he
        rw [List.isEmpty_iff] at he
        simp [he]
      · rfl
    · have hne : k ≠ lower kv.1 := fun e => hkey e.symm
      rw [addKV_get_other _ _ _ _ hne]
      have : (lower kv.1 == k) = false := by simpa using hkey
      simp only [List.filter_cons, this, Bool.false_eq_true, if_false]

/-- the multi-valued keywords (IdentityFile, LocalForward, RemoteForward) keep every value of the block, in order -/
theorem block_list_values (kvs : List (String × String)) (k : String) (hk : listKeys.contains k = true) :
    (blockConfig kvs).get k =
      if (kvs.filter (fun kv => lower kv.1 == k)).isEmpty then none
      else some (.list ((kvs.filter (fun kv => lower kv.1 == k)).map (fun kv => unquote kv.2))) := by
  unfold blockConfig
  rw [foldl_addKV_list kvs [] k hk]
  simp [Dict.get_nil, listOf]

example : blockConfig [("ProxyCommand", "ssh gw"), ("User", "\"bob\""), ("PROXYCOMMAND", "None"), ("user", "eve")]
    = [("proxycommand", .str "ssh gw"), ("user", .str "bob")] := by decide
example : blockConfig [("ProxyCommand", "NONE"), ("proxycommand", "ssh gw"), ("IdentityFile", "a"), ("identityfile", "a")]
    = [("proxycommand", .none), ("identityfile", .list ["a", "a"])] := by decide

/-! ## parsed configs have duplicate-free keys (hypothesis of the lookup theorems) -/

private theorem addKV_nodup (cfg : Dict) (key value : String) (h : NodupKeys cfg) : NodupKeys (addKV cfg key value) := by
  unfold addKV
  simp only
  split
  · split
    · exact h
    · exact h.set _ _
  · split
    · split <;> exact h.set _ _
    · split
      · exact h
      · exact h.set _ _

private theorem parseLoop_nodup (lines : List Line) (st st' : ParseState) (h : parseLoop lines st = .ok st')
    (hd : ∀ b ∈ st.done, NodupKeys b.config) (hc : NodupKeys st.context.config) :
    (∀ b ∈ st'.done, NodupKeys b.config) ∧ NodupKeys st'.context.config := by
  induction lines generalizing st with
  | nil =>
    simp only [parseLoop, Except.ok.injEq] at h
    subst h; exact ⟨hd, hc⟩
  | cons l ls ih =>
    simp only [parseLoop] at h
    cases hs : parseStep st l with
    | error e => rw [hs] at h; cases h
    | ok st1 =>
      rw [hs] at h
      have hdone : ∀ b ∈ st.done ++ [st.context], NodupKeys b.config := by
        intro b hb
        simp only [List.mem_append, List.mem_singleton] at hb
        rcases hb with hb | hb
        · exact hd b hb
        · subst hb; exact hc
      cases l with
      | host ps =>
        simp only [parseStep, Except.ok.injEq] at hs
        subst hs
        exact ih _ h hdone NodupKeys.nil
      | mtch toks =>
        simp only [parseStep] at hs
        cases hm : getMatches toks with
        | error e => rw [hm] at hs; cases hs
        | ok ms =>
          rw [hm] at hs
          simp only [Except.ok.injEq] at hs
          subst hs
          exact ih _ h hdone NodupKeys.nil
      | kv k v =>
        simp only [parseStep, Except.ok.injEq] at hs
        subst hs
        exact ih _ h hd (addKV_nodup _ _ _ hc)

theorem parse_nodup (lines : List Line) (blocks : List Block) (h : parse lines = .ok blocks) :
    ∀ b ∈ blocks, NodupKeys b.config := by
  unfold parse at h
  cases hl : parseLoop lines { done := [], context := { host := some ["*"], crits := none, config := [] } } with
  | error e => rw [hl] at h; cases h
  | ok st =>
    rw [hl] at h
    simp only [Except.ok.injEq] at h
    subst h
    obtain ⟨h1, h2⟩ := parseLoop_nodup lines _ st hl (by simp) NodupKeys.nil
    intro b hb
    simp only [List.mem_append, List.mem_singleton] at hb
    rcases hb with hb | hb
    · exact h1 b hb
    · subst hb; exact h2

/-! ## first-obtained value, for configs whose blocks are Host blocks or pass-invariant Match blocks -/

/-- a Match criterion whose verdict depends neither on the options obtained so far nor on the pass -/
def StaticCrit (c : Crit) : Prop :=
  c.type = "all" ∨ c.type = "originalhost" ∨ c.type = "localuser" ∨ c.type = "canonical"

/-- a Host block, or a Match block with pass-invariant criteria only -/
def StaticBlock (b : Block) : Prop := ∀ c ∈ b.crits.getD [], StaticCrit c

/-- whether a static block applies to `hostname` (evaluated with no options, first pass) -/
def applies (env : Env) (hostname : String) (canonical : Bool) (b : Block) : Bool :=
  match blockApplies env b hostname canonical false [] with
  | .ok r => r
  | .error _ => false

private theorem doesMatchLoop_static (env : Env) (target : String) (canonical final : Bool) (options : Dict)
    (cs : List Crit) (hs : ∀ c ∈ cs, StaticCrit c) (m : Bool) :
    doesMatchLoop env target canonical final options cs m = doesMatchLoop env target canonical false [] cs m ∧
    ∃ r, doesMatchLoop env target canonical false [] cs m = .ok r := by
  induction cs generalizing m with
  | nil => exact ⟨rfl, m, rfl⟩
  | cons c cs ih =>
    have hc := hs c (by simp)
    have ih' := fun m => ih (fun c' hc' => hs c' (by simp [hc'])) m
    rcases hc with h | h | h | h
    · simp [doesMatchLoop, h]
    · simp only [doesMatchLoop, h]
      simp only [show ("originalhost" == "canonical") = false by decide, show ("originalhost" == "final") = false by decide,
        show ("originalhost" == "all") = false by decide, show ("originalhost" == "host") = false by decide,
        Bool.false_and, Bool.false_eq_true, if_false, BEq.rfl, if_true]
      split
      · exact ⟨rfl, false, rfl⟩
      · exact ih' true
    · simp only [doesMatchLoop, h]
      simp only [show ("localuser" == "canonical") = false by decide, show ("localuser" == "final") = false by decide,
        show ("localuser" == "all") = false by decide, show ("localuser" == "host") = false by decide,
        show ("localuser" == "originalhost") = false by decide, show ("localuser" == "user") = false by decide,
        Bool.false_and, Bool.false_eq_true, if_false, BEq.rfl, if_true]
      split
      · exact ⟨rfl, false, rfl⟩
      · exact ih' true
    · simp only [doesMatchLoop, h]
      simp only [show ("canonical" == "final") = false by decide,
        show ("canonical" == "all") = false by decide, show ("canonical" == "host") = false by decide,
        show ("canonical" == "originalhost") = false by decide, show ("canonical" == "user") = false by decide,
        show ("canonical" == "localuser") = false by decide, show ("canonical" == "exec") = false by decide,
        Bool.true_and, Bool.false_eq_true, if_false, BEq.rfl, if_true]
      split
      · exact ⟨rfl, false, rfl⟩
      · exact ih' true

/-- applicability of a static block is the same in both passes and whatever has been obtained so far -/
theorem blockApplies_static (env : Env) (b : Block) (hb : StaticBlock b) (hostname : String)
    (canonical final : Bool) (options : Dict) :
    blockApplies env b hostname canonical final options = .ok (applies env hostname canonical b) := by
  unfold applies blockApplies
  split
  · rfl
  · obtain ⟨h1, r, h2⟩ := doesMatchLoop_static env hostname canonical final options (b.crits.getD []) hb false
    unfold doesMatch
    rw [h1, h2]

/-- one `_lookup` pass over static blocks merges the configs of exactly the applying blocks, in file order -/
theorem lookupPass_static (env : Env) (hostname : String) (canonical final : Bool) (blocks : List Block)
    (hs : ∀ b ∈ blocks, StaticBlock b) (opts : Dict) :
    lookupPass env hostname canonical final blocks opts =
      .ok (mergeAll opts ((blocks.filter (applies env hostname canonical)).map (·.config))) := by
  induction blocks generalizing opts with
  | nil => rfl
  | cons b bs ih =>
    have ihb := ih (fun b' hb' => hs b' (by simp [hb']))
    simp only [lookupPass, blockApplies_static env b (hs b (by simp))]
    cases ha : applies env hostname canonical b with
    | true => simp only [List.filter_cons, ha, if_true, List.map_cons, mergeAll, List.foldl_cons]; exact ihb _
    | false => simp only [List.filter_cons, ha, Bool.false_eq_true, if_false]; exact ihb _

/-- the configs of the blocks that apply to `hostname`, in file order -/
def applicable (env : Env) (hostname : String) (blocks : List Block) : List Dict :=
  (blocks.filter (applies env hostname false)).map (·.config)

/-- the statement's rule for an ordinary option: the value from the first applying block that has it -/
def firstObtained (cfgs : List Dict) (k : String) : Option Val := cfgs.findSome? (fun c => c.get k)

/-- the statement's rule for IdentityFile: every file named by an applying block, first occurrences only -/
def identityFiles (cfgs : List Dict) : List String :=
  extendDedup [] (cfgs.flatMap fun c => listOf (c.get "identityfile"))

theorem identityFiles_nodup (cfgs : List Dict) : (identityFiles cfgs).Nodup :=
  nodup_extendDedup _ _ List.nodup_nil

theorem mem_identityFiles (cfgs : List Dict) (x : String) :
    x ∈ identityFiles cfgs ↔ ∃ c ∈ cfgs, x ∈ listOf (c.get "identityfile") := by
  simp [identityFiles, mem_extendDedup]

/-- **First obtained value.**  For a config of static blocks (canonicalisation not requested), the options dict
that `lookup` expands holds, for every ordinary key, the value of the first applying block (file order) that
has the key; `hostname` defaults to the looked-up name; `identityfile` is the duplicate-free accumulation over all
applying blocks.  (Both passes and the HostName default included.) -/
theorem lookup_first_obtained (env : Env) (blocks : List Block) (hostname : String)
    (hs : ∀ b ∈ blocks, StaticBlock b) (hn : ∀ b ∈ blocks, NodupKeys b.config)
    (hcanon1 : firstObtained (applicable env hostname blocks) "canonicalizehostname" ≠ some (.str "yes"))
    (hcanon2 : firstObtained (applicable env hostname blocks) "canonicalizehostname" ≠ some (.str "always"))
    (hcanon3 : firstObtained (applicable env hostname blocks) "canonicalizemaxdots" = none) :
    ∃ opts, lookupOptions env blocks hostname = .ok opts ∧ NodupKeys opts ∧
      (∀ k, k ≠ "identityfile" → k ≠ "hostname" → opts.get k = firstObtained (applicable env hostname blocks) k) ∧
      opts.get "hostname" = some ((firstObtained (applicable env hostname blocks) "hostname").getD (.str hostname)) ∧
      opts.get "identityfile" =
        (if (applicable env hostname blocks).all (fun c => (c.get "identityfile").isNone) then none
         else some (.list (identityFiles (applicable env hostname blocks)))) := by
  have hnA : ∀ c ∈ applicable env hostname blocks, NodupKeys c := by
    intro c hc
    simp only [applicable, List.mem_map, List.mem_filter] at hc
    obtain ⟨b, ⟨hb, _⟩, rfl⟩ := hc
    exact hn b hb
  -- pass 1
  have hp1 := lookupPass_static env hostname false false blocks hs []
  have hp2 := fun o => lookupPass_static env hostname false true blocks hs o
  change lookupPass env hostname false false blocks [] = .ok (mergeAll [] (applicable env hostname blocks)) at hp1
  generalize hA : applicable env hostname blocks = A at *
  have hg1 : ∀ k, k ≠ "identityfile" → (mergeAll [] A).get k = firstObtained A k := by
    intro k hk
    rw [mergeAll_get [] A k hk hnA]; rfl
  have hid1 := mergeAll_get_identityfile [] A hnA
  have hnd1 : NodupKeys (mergeAll [] A) := mergeAll_nodup _ _ NodupKeys.nil
  -- HostName default
  generalize ho1 : mergeAll [] A = o1 at *
  let o1' := if o1.has "hostname" then o1 else o1.set "hostname" (.str hostname)
  have hnd1' : NodupKeys o1' := by
    simp only [o1']; split
    · exact hnd1
    · exact hnd1.set _ _
  have hg1' : ∀ k, k ≠ "hostname" → o1'.get k = o1.get k := by
    intro k hk
    simp only [o1']; split
    · rfl
    · exact Dict.get_set_other _ _ _ _ hk
  have hh1' : o1'.get "hostname" = some ((firstObtained A "hostname").getD (.str hostname)) := by
    have := hg1 "hostname" (by decide)
    simp only [o1']
    cases hh : o1.get "hostname" with
    | none =>
      have : o1.has "hostname" = false := by simp [Dict.has, hh]
      simp only [this, Bool.false_eq_true, if_false, Dict.get_set_same]
      rw [← hg1 "hostname" (by decide), hh]; rfl
    | some v =>
      have : o1.has "hostname" = true := by simp [Dict.has, hh]
      simp only [this, if_true, hh]
      rw [← hg1 "hostname" (by decide), hh]; rfl
  -- canonicalisation is off
  have hc1 : canonRequested o1' = false := by
    unfold canonRequested
    rw [hg1' _ (by decide), hg1 _ (by decide)]
    cases hv : firstObtained A "canonicalizehostname" with
    | none => rfl
    | some v =>
      cases v with
      | none => rfl
      | list l => rfl
      | str s =>
        have h1 : s ≠ "yes" := fun e => hcanon1 (by rw [hv, e])
        have h2 : s ≠ "always" := fun e => hcanon2 (by rw [hv, e])
        simp [h1, h2]
  have hc2 : o1'.has "canonicalizemaxdots" = false := by
    simp only [Dict.has]
    rw [hg1' _ (by decide), hg1 _ (by decide), hcanon3]; rfl
  -- pass 2
  refine ⟨mergeAll o1' A, ?_, mergeAll_nodup _ _ hnd1', ?_, ?_, ?_⟩
  · unfold lookupOptions
    rw [hp1]
    simp only
    rw [show (if o1.has "hostname" then o1 else o1.set "hostname" (.str hostname)) = o1' from rfl]
    rw [hc1, hc2]
    simp only [Bool.or_self, Bool.false_eq_true, if_false]
    rw [hp2 o1', ← hA]; rfl
  · intro k hk hk2
    rw [mergeAll_get o1' A k hk hnA, hg1' k hk2, hg1 k hk]
    unfold firstObtained
    split <;> simp_all
  · rw [mergeAll_get o1' A "hostname" (by decide) hnA, hh1']
  · rw [mergeAll_get_identityfile o1' A hnA, hg1' _ (by decide), hid1]
    by_cases hall : A.all (fun c => (c.get "identityfile").isNone) = true
    · simp [hall, Dict.get_nil]
    · simp only [hall, Bool.false_eq_true, if_false, listOf, Dict.get_nil]
      congr 2
      apply extendDedup_of_subset
      intro x hx
      exact (mem_extendDedup _ _ _).mpr (Or.inr hx)

/-- **The statement, from the config text's logical lines to the options `lookup` expands**: for every config
that parses into static blocks and every hostname (canonicalisation not requested). -/
theorem lookupLines_first_obtained (env : Env) (lines : List Line) (blocks : List Block) (hostname : String)
    (hp : parse lines = .ok blocks) (hs : ∀ b ∈ blocks, StaticBlock b)
    (hcanon1 : firstObtained (applicable env hostname blocks) "canonicalizehostname" ≠ some (.str "yes"))
    (hcanon2 : firstObtained (applicable env hostname blocks) "canonicalizehostname" ≠ some (.str "always"))
    (hcanon3 : firstObtained (applicable env hostname blocks) "canonicalizemaxdots" = none) :
    ∃ opts, lookupLines env lines hostname = .ok (expandVariables env opts hostname) ∧
      (∀ k, k ≠ "identityfile" → k ≠ "hostname" → opts.get k = firstObtained (applicable env hostname blocks) k) ∧
      opts.get "hostname" = some ((firstObtained (applicable env hostname blocks) "hostname").getD (.str hostname)) ∧
      opts.get "identityfile" =
        (if (applicable env hostname blocks).all (fun c => (c.get "identityfile").isNone) then none
         else some (.list (identityFiles (applicable env hostname blocks)))) := by
  obtain ⟨opts, h1, _, h3, h4, h5⟩ :=
    lookup_first_obtained env blocks hostname hs (parse_nodup lines blocks hp) hcanon1 hcanon2 hcanon3
  refine ⟨opts, ?_, h3, h4, h5⟩
  simp only [lookupLines, hp, lookup, h1]

/-! ### non-vacuity: a static config with a negated pattern, a Match block and repeated keys -/

def demoLines : List Line :=
  [.kv "User" "global", .host ["web*", "!web2"], .kv "User" "deploy", .kv "IdentityFile" "k1", .kv "IdentityFile" "k1",
   .mtch ["originalhost", "web1,db"], .kv "Port" "2222", .kv "IdentityFile" "k2", .kv "User" "late",
   .host ["*"], .kv "IdentityFile" "k1", .kv "ProxyCommand" "ssh gw", .kv "ProxyCommand" "none"]

def demoEnv : Env := { localUser := "lu", localHost := "lh", fqdn := "lh.example", home := "/home/lu", hashC := fun s => s }

def demoBlocks : List Block :=
  [⟨some ["*"], none, [("user", .str "global")]⟩,
   ⟨some ["web*", "!web2"], none, [("user", .str "deploy"), ("identityfile", .list ["k1", "k1"])]⟩,
   ⟨none, some [⟨"originalhost", some "web1,db", false⟩],
     [("port", .str "2222"), ("identityfile", .list ["k2"]), ("user", .str "late")]⟩,
   ⟨some ["*"], none, [("identityfile", .list ["k1"]), ("proxycommand", .str "ssh gw")]⟩]

example : parse demoLines = .ok demoBlocks := by rfl
example : ∀ b ∈ demoBlocks, StaticBlock b := by
  intro b hb
  simp only [demoBlocks, List.mem_cons, List.not_mem_nil, or_false] at hb
  rcases hb with rfl | rfl | rfl | rfl <;> simp [StaticBlock, StaticCrit]
example : (applicable demoEnv "web1" demoBlocks).length = 4 ∧ (applicable demoEnv "web2" demoBlocks).length = 2 := by
  decide
example : lookupLines demoEnv demoLines "web1" = .ok
    [("user", .str "global"), ("identityfile", .list ["k1", "k2"]), ("port", .str "2222"),
     ("proxycommand", .str "ssh gw"), ("hostname", .str "web1")] := by rfl
example : lookupLines demoEnv demoLines "web2" = .ok
    [("user", .str "global"), ("identityfile", .list ["k1"]), ("proxycommand", .str "ssh gw"),
     ("hostname", .str "web2")] := by rfl

/-! ## every config (Match host / user / final included): first obtained in visiting order

`Match host`, `Match user` and `Match final` are evaluated against the options obtained *so far* and depend on the
pass, so "the first block that applies" has to be read dynamically: `appliedIn` lists the configs of the blocks that
apply **at the moment they are visited**.  The theorem below holds for every config without `Match exec`. -/

/-- the configs of the blocks that apply when `_lookup` visits them (options evolve as blocks are merged) -/
def appliedIn (env : Env) (hostname : String) (canonical final : Bool) : List Block → Dict → Except Err (List Dict)
  | [], _ => .ok []
  | b :: bs, opts =>
    match blockApplies env b hostname canonical final opts with
    | .error e => .error e
    | .ok true =>
      match appliedIn env hostname canonical final bs (mergeBlock opts b.config) with
      | .error e => .error e
      | .ok cfgs => .ok (b.config :: cfgs)
    | .ok false => appliedIn env hostname canonical final bs opts

/-- a `_lookup` pass merges exactly the configs of the blocks that applied when visited, in order -/
theorem lookupPass_eq_applied (env : Env) (hostname : String) (canonical final : Bool) (blocks : List Block)
    (opts : Dict) :
    lookupPass env hostname canonical final blocks opts =
      match appliedIn env hostname canonical final blocks opts with
      | .error e => .error e
      | .ok cfgs => .ok (mergeAll opts cfgs) := by
  induction blocks generalizing opts with
  | nil => rfl
  | cons b bs ih =>
    simp only [lookupPass, appliedIn]
    cases hb : blockApplies env b hostname canonical final opts with
    | error e => rfl
    | ok r =>
      cases r with
      | false => simp only; exact ih opts
      | true =>
        simp only
        rw [ih]
        cases appliedIn env hostname canonical final bs (mergeBlock opts b.config) with
        | error e => rfl
        | ok cfgs => rfl

private theorem appliedIn_mem (env : Env) (hostname : String) (canonical final : Bool) (blocks : List Block)
    (opts : Dict) (cfgs : List Dict) (h : appliedIn env hostname canonical final blocks opts = .ok cfgs) :
    ∀ c ∈ cfgs, ∃ b ∈ blocks, c = b.config := by
  induction blocks generalizing opts cfgs with
  | nil =>
    simp only [appliedIn, Except.ok.injEq] at h
    subst h; simp
  | cons b bs ih =>
    simp only [appliedIn] at h
    cases hb : blockApplies env b hostname canonical final opts with
    | error e => rw [hb] at h; cases h
    | ok r =>
      rw [hb] at h
      cases r with
      | false =>
        simp only at h
        intro c hc
        obtain ⟨b', hb', he⟩ := ih opts cfgs h c hc
        exact ⟨b', by simp [hb'], he⟩
      | true =>
        simp only at h
        cases hr : appliedIn env hostname canonical final bs (mergeBlock opts b.config) with
        | error e => rw [hr] at h; cases h
        | ok cfgs' =>
          rw [hr] at h
          simp only [Except.ok.injEq] at h
          subst h
          intro c hc
          simp only [List.mem_cons] at hc
          rcases hc with hc | hc
          · exact ⟨b, by simp, hc⟩
          · obtain ⟨b', hb', he⟩ := ih _ cfgs' hr c hc
            exact ⟨b', by simp [hb'], he⟩

/-- the options after the first pass and the HostName default -/
def afterFirstPass (a1 : List Dict) (hostname : String) : Dict :=
  let o1 := mergeAll [] a1
  if o1.has "hostname" then o1 else o1.set "hostname" (.str hostname)

/-- **First obtained, every config.**  Let `a1` be the configs of the blocks that apply when the first pass visits
them and `a2` those of the second (`final`) pass, which starts from the first pass' options plus the HostName
default.  Then for every ordinary key the dict that `lookup` expands holds the value of the first config that has the
key in the order  `a1`, the default `HostName = <looked-up name>`, `a2`;  `identityfile` is the duplicate-free
accumulation over `a1 ++ a2`.  Holds for all Match criteria except `exec` (for which the model has no verdict). -/
theorem lookup_first_obtained_visiting (env : Env) (blocks : List Block) (hostname : String)
    (hn : ∀ b ∈ blocks, NodupKeys b.config) (a1 a2 : List Dict)
    (h1 : appliedIn env hostname false false blocks [] = .ok a1)
    (hcanon : canonRequested (afterFirstPass a1 hostname) = false)
    (hdots : (afterFirstPass a1 hostname).has "canonicalizemaxdots" = false)
    (h2 : appliedIn env hostname false true blocks (afterFirstPass a1 hostname) = .ok a2) :
    ∃ opts, lookupOptions env blocks hostname = .ok opts ∧
      (∀ k, k ≠ "identityfile" →
        opts.get k = firstObtained (a1 ++ [[("hostname", .str hostname)]] ++ a2) k) ∧
      opts.get "identityfile" =
        (if (a1 ++ a2).all (fun c => (c.get "identityfile").isNone) then none
         else some (.list (identityFiles (a1 ++ a2)))) := by
  have hn1 : ∀ c ∈ a1, NodupKeys c := by
    intro c hc
    obtain ⟨b, hb, he⟩ := appliedIn_mem env hostname false false blocks [] a1 h1 c hc
    rw [he]; exact hn b hb
  have hn2 : ∀ c ∈ a2, NodupKeys c := by
    intro c hc
    obtain ⟨b, hb, he⟩ := appliedIn_mem env hostname false true blocks _ a2 h2 c hc
    rw [he]; exact hn b hb
  refine ⟨mergeAll (afterFirstPass a1 hostname) a2, ?_, ?_, ?_⟩
  · unfold lookupOptions
    rw [lookupPass_eq_applied, h1]
    simp only
    rw [show (if (mergeAll [] a1).has "hostname" then mergeAll [] a1
          else (mergeAll [] a1).set "hostname" (.str hostname)) = afterFirstPass a1 hostname from rfl]
    rw [hcanon, hdots]
    simp only [Bool.or_self, Bool.false_eq_true, if_false]
    rw [lookupPass_eq_applied, h2]
  · intro k hk
    rw [mergeAll_get _ a2 k hk hn2]
    have ho1 : ∀ k', k' ≠ "identityfile" → (mergeAll [] a1).get k' = firstObtained a1 k' := by
      intro k' hk'
      rw [mergeAll_get [] a1 k' hk' hn1]; rfl
    unfold firstObtained
    rw [List.findSome?_append, List.findSome?_append]
    by_cases hkh : k = "hostname"
    · subst hkh
      have := ho1 "hostname" (by decide)
      unfold firstObtained at this
      unfold afterFirstPass
      simp only
      cases hv : (mergeAll [] a1).get "hostname" with
      | none =>
        have hh : (mergeAll [] a1).has "hostname" = false := by simp [Dict.has, hv]
        rw [hv] at this
        simp [hh, Dict.get_set_same, ← this, Dict.get_cons]
      | some v =>
        have hh : (mergeAll [] a1).has "hostname" = true := by simp [Dict.has, hv]
        rw [hv] at this
        simp [hh, hv, ← this]
    · have hget : (afterFirstPass a1 hostname).get k = (mergeAll [] a1).get k := by
        unfold afterFirstPass
        simp only
        split
        · rfl
        · exact Dict.get_set_other _ _ _ _ hkh
      rw [hget, ho1 k hk]
      unfold firstObtained
      cases List.findSome? (fun c => c.get k) a1 with
      | some v => simp
      | none => simp [Dict.get_cons, hkh, Dict.get_nil]
  · rw [mergeAll_get_identityfile _ a2 hn2]
    have hget : (afterFirstPass a1 hostname).get "identityfile" = (mergeAll [] a1).get "identityfile" := by
      unfold afterFirstPass
      simp only
      split
      · rfl
      · exact Dict.get_set_other _ _ _ _ (by decide)
    rw [hget, mergeAll_get_identityfile [] a1 hn1]
    have hflat : ∀ l : List Dict, l.all (fun c => (c.get "identityfile").isNone) = true →
        (l.flatMap fun c => listOf (c.get "identityfile")) = [] := by
      intro l hl
      rw [List.flatMap_eq_nil_iff]
      intro c hc
      have := List.all_eq_true.mp hl c hc
      simp only [Option.isNone_iff_eq_none] at this
      simp [this, listOf]
    have hext : ∀ (a l1 l2 : List String), extendDedup (extendDedup a l1) l2 = extendDedup a (l1 ++ l2) := by
      intro a l1 l2; simp [extendDedup, List.foldl_append]
    simp only [List.all_append, Dict.get_nil, listOf, identityFiles, List.flatMap_append]
    simp only [listOf] at hflat
    by_cases hA1 : a1.all (fun c => (c.get "identityfile").isNone) = true
    · by_cases hA2 : a2.all (fun c => (c.get "identityfile").isNone) = true
      · simp [hA1, hA2]
      · simp [hA1, hA2, hflat a1 hA1, listOf]
    · by_cases hA2 : a2.all (fun c => (c.get "identityfile").isNone) = true
      · simp [hA1, hA2, hflat a2 hA2, listOf]
      · simp [hA1, hA2, listOf, hext]

/-- `Match [!]host P` is tested against the HostName obtained **so far** (else the looked-up name) -/
theorem match_host_applies (env : Env) (hostname : String) (canonical final : Bool) (opts cfg : Dict)
    (param : String) (neg : Bool) :
    blockApplies env ⟨none, some [⟨"host", some param, neg⟩], cfg⟩ hostname canonical final opts =
      .ok (patternMatchesStr param (orElse (strOf (opts.get "hostname")) hostname) != neg) := by
  simp only [blockApplies, Option.getD_none, patternMatches, patternLoop, Bool.false_eq_true, if_false,
    Option.getD_some, doesMatch, doesMatchLoop,
    show ("host" == "canonical") = false by decide, show ("host" == "final") = false by decide,
    show ("host" == "all") = false by decide, BEq.rfl, if_true, Bool.false_and, shouldFail]
  cases neg <;> cases patternMatchesStr param (orElse (strOf (opts.get "hostname")) hostname) <;> simp

/-- `Match [!]user P` is tested against the User obtained **so far** (else the local user) -/
theorem match_user_applies (env : Env) (hostname : String) (canonical final : Bool) (opts cfg : Dict)
    (param : String) (neg : Bool) :
    blockApplies env ⟨none, some [⟨"user", some param, neg⟩], cfg⟩ hostname canonical final opts =
      .ok (patternMatchesStr param (orElse (strOf (opts.get "user")) env.localUser) != neg) := by
  simp only [blockApplies, Option.getD_none, patternMatches, patternLoop, Bool.false_eq_true, if_false,
    Option.getD_some, doesMatch, doesMatchLoop,
    show ("user" == "canonical") = false by decide, show ("user" == "final") = false by decide,
    show ("user" == "all") = false by decide, show ("user" == "host") = false by decide,
    show ("user" == "originalhost") = false by decide, BEq.rfl, if_true, Bool.false_and, shouldFail]
  cases neg <;> cases patternMatchesStr param (orElse (strOf (opts.get "user")) env.localUser) <;> simp

/-- `Match final` applies in the second pass only (`Match !final` in the first only) -/
theorem match_final_applies (env : Env) (hostname : String) (canonical final : Bool) (opts cfg : Dict) (neg : Bool) :
    blockApplies env ⟨none, some [⟨"final", none, neg⟩], cfg⟩ hostname canonical final opts = .ok (final != neg) := by
  simp only [blockApplies, Option.getD_none, patternMatches, patternLoop, Bool.false_eq_true, if_false,
    Option.getD_some, doesMatch, doesMatchLoop,
    show ("final" == "canonical") = false by decide, BEq.rfl, if_true, Bool.false_and, shouldFail]
  cases neg <;> cases final <;> simp

/-! ### non-vacuity: a `Match host` block that applies only once HostName is known, and a `Match final` block -/

def dynBlocks : List Block :=
  [⟨some ["*"], none, []⟩,
   ⟨none, some [⟨"host", some "*.example.com", false⟩], [("user", .str "corp")]⟩,
   ⟨some ["web1"], none, [("hostname", .str "web1.example.com"), ("user", .str "late")]⟩,
   ⟨none, some [⟨"final", none, false⟩], [("port", .str "2222"), ("user", .str "final")]⟩]

example : appliedIn demoEnv "web1" false false dynBlocks [] =
    .ok [[], [("hostname", .str "web1.example.com"), ("user", .str "late")]] := by rfl
example : appliedIn demoEnv "web1" false true dynBlocks (afterFirstPass
      [[], [("hostname", .str "web1.example.com"), ("user", .str "late")]] "web1") =
    .ok [[], [("user", .str "corp")], [("hostname", .str "web1.example.com"), ("user", .str "late")],
         [("port", .str "2222"), ("user", .str "final")]] := by rfl
/-- so `user` is "late" (obtained in pass 1) although the `Match host` block stands earlier in the file -/
example : lookupOptions demoEnv dynBlocks "web1" =
    .ok [("hostname", .str "web1.example.com"), ("user", .str "late"), ("port", .str "2222")] := by rfl

/-! ## token expansion: HostName first, every other option sees the expanded HostName -/

/-- the options with HostName expanded (what every other option's `%h` refers to) -/
def withExpandedHostname (env : Env) (cfg : Dict) (target : String) : Dict :=
  match cfg.get "hostname" with
  | some v => cfg.set "hostname" (expandVal env cfg target "hostname" v)
  | none => cfg

/-- HostName admits exactly `%h`, which stands for the looked-up name -/
theorem tokenize_hostname (env : Env) (cfg : Dict) (target value : String) :
    tokenize env cfg target "hostname" value
      = String.ofList (replaceAll "%h".toList target.toList value.toList) := by
  simp [tokenize, allowedTokens, PV.Generated.C40.tokensByConfigKey, PV.Generated.C40.replacementOrder, List.lookup]

/-- **Expansion.**  Whatever the order of the options in the dict: `hostname` is expanded against the looked-up
name, and every other option `k` is expanded by `_tokenize` against the options *with the expanded HostName*
(so `%h` is never replaced by an unexpanded HostName — the defect fixed in 35b26ba); `None` stays `None`,
list values are expanded element-wise, keys without documented tokens are untouched. -/
theorem expandVariables_get (env : Env) (cfg : Dict) (target : String) (hn : NodupKeys cfg) :
    (expandVariables env cfg target).get "hostname"
        = (cfg.get "hostname").map (expandVal env cfg target "hostname") ∧
    ∀ k, k ≠ "hostname" →
      (expandVariables env cfg target).get k
        = (cfg.get k).map (expandVal env (withExpandedHostname env cfg target) target k) := by
  unfold expandVariables
  simp only
  rw [expandKeys_append]
  have hnd : (cfg.map (·.1)).Nodup := hn
  have hfil : (cfg.map (·.1)).filter (· == "hostname")
      = if "hostname" ∈ cfg.map (·.1) then ["hostname"] else [] := filter_eq_of_nodup _ _ hnd
  have hR : expandKeys env target ((cfg.map (·.1)).filter (· == "hostname")) cfg
      = withExpandedHostname env cfg target := by
    rw [hfil]
    unfold withExpandedHostname
    cases hc : cfg.get "hostname" with
    | none =>
      have : "hostname" ∉ cfg.map (·.1) := by
        intro hm
        obtain ⟨v, hv⟩ := (mem_keys_iff cfg "hostname").mp hm
        rw [hc] at hv; cases hv
      simp [this, expandKeys]
    | some v =>
      have : "hostname" ∈ cfg.map (·.1) := (mem_keys_iff cfg "hostname").mpr ⟨v, hc⟩
      simp [this, expandKeys, hc]
  rw [hR]
  have hnd2 : ((cfg.map (·.1)).filter (· != "hostname")).Nodup := hnd.filter _
  have hnh : "hostname" ∉ (cfg.map (·.1)).filter (· != "hostname") := by simp
  have hspec := expandKeys_spec env target (withExpandedHostname env cfg target) _ hnd2 hnh
    (withExpandedHostname env cfg target) ⟨rfl, rfl, rfl⟩
  refine ⟨?_, ?_⟩
  · rw [hspec "hostname"]
    simp only [hnh, if_false]
    unfold withExpandedHostname
    cases hc : cfg.get "hostname" with
    | none => simp [hc]
    | some v => simp [Dict.get_set_same]
  · intro k hk
    rw [hspec k]
    have hget : (withExpandedHostname env cfg target).get k = cfg.get k := by
      unfold withExpandedHostname
      cases cfg.get "hostname" with
      | none => rfl
      | some v => exact Dict.get_set_other _ _ _ _ hk
    rw [hget]
    split
    · rfl
    · rename_i hnot
      have : cfg.get k = none := by
        cases hc : cfg.get k with
        | none => rfl
        | some v =>
          exfalso; apply hnot
          simp only [List.mem_filter, bne_iff_ne, ne_eq]
          exact ⟨(mem_keys_iff cfg k).mpr ⟨v, hc⟩, hk⟩
      simp [this]

/-- the value `%h` gets in every option other than HostName: the expanded HostName -/
theorem percent_h_is_expanded_hostname (env : Env) (cfg : Dict) (target v : String)
    (hv : cfg.get "hostname" = some (.str v)) :
    (withExpandedHostname env cfg target).get "hostname"
      = some (.str (String.ofList (replaceAll "%h".toList target.toList v.toList))) := by
  simp [withExpandedHostname, hv, Dict.get_set_same, expandVal, tokenize_hostname]

example : expandVariables demoEnv
    [("proxycommand", .str "ssh -W %h:%p ~/x"), ("hostname", .str "%h.example.com"), ("port", .str "2222"),
     ("identityfile", .list ["~/.ssh/id_%h", "%d/%u-%r"]), ("user", .str "bob"), ("compression", .str "%h")] "web1"
    = [("proxycommand", .str "ssh -W web1.example.com:2222 /home/lu/x"), ("hostname", .str "web1.example.com"),
       ("port", .str "2222"), ("identityfile", .list ["/home/lu/.ssh/id_web1.example.com", "/home/lu/lu-bob"]),
       ("user", .str "bob"), ("compression", .str "%h")] := by decide

/-! ## history independence: several lookups on one SSHConfig object -/

/-- **Every lookup depends on its own hostname only.**  For every parsed config and every history of lookups on the
same object — including lookups that raise — the k-th answer is the one-shot answer for the k-th hostname, and the
object is unchanged. -/
theorem lookupSession_spec (env : Env) (blocks : List Block) (hosts : List String) :
    lookupSession env blocks hosts = (blocks, hosts.map (lookup env blocks)) := by
  induction hosts with
  | nil => rfl
  | cons h hs ih => simp [lookupSession, lookupStep, ih]

/-- a lookup that raises (CanonicalizeMaxDots present) between two ordinary ones changes nothing for them -/
example : (lookupSession demoEnv
      [⟨some ["*"], none, [("user", .str "global")]⟩, ⟨some ["bad"], none, [("canonicalizemaxdots", .str "x")]⟩]
      ["a", "bad", "a"]).2
    = [.ok [("user", .str "global"), ("hostname", .str "a")], .error .canonUnsupported,
       .ok [("user", .str "global"), ("hostname", .str "a")]] := by rfl

/-! ## get_hostnames: every Host pattern, for every parseable config -/

def hostPatterns : Line → List String
  | .host ps => ps
  | _ => []

private theorem parseLoop_hosts (lines : List Line) (st st' : ParseState)
    (h : parseLoop lines st = .ok st') :
    (st'.done ++ [st'.context]).flatMap (fun b => b.host.getD []) =
      (st.done ++ [st.context]).flatMap (fun b => b.host.getD []) ++ lines.flatMap hostPatterns := by
  induction lines generalizing st with
  | nil =>
    simp only [parseLoop, Except.ok.injEq] at h
    subst h; simp
  | cons l ls ih =>
    simp only [parseLoop] at h
    cases hs : parseStep st l with
    | error e => rw [hs] at h; cases h
    | ok st1 =>
      rw [hs] at h
      rw [ih st1 h]
      simp only [List.flatMap_cons, ← List.append_assoc]
      congr 1
      cases l with
      | host ps =>
        simp only [parseStep, Except.ok.injEq] at hs
        subst hs
        simp [hostPatterns]
      | mtch toks =>
        simp only [parseStep] at hs
        cases hm : getMatches toks with
        | error e => rw [hm] at hs; cases hs
        | ok ms =>
          rw [hm] at hs
          simp only [Except.ok.injEq] at hs
          subst hs
          simp [hostPatterns]
      | kv k v =>
        simp only [parseStep, Except.ok.injEq] at hs
        subst hs
        simp [hostPatterns]

/-- **`get_hostnames()` reports exactly the Host patterns of the file (plus the implicit global `*`), for every
config that parses — Match blocks included; it is a total function (cannot raise).** -/
theorem getHostnames_spec (lines : List Line) (blocks : List Block) (h : parse lines = .ok blocks) (p : String) :
    p ∈ getHostnames blocks ↔ p = "*" ∨ ∃ ps, Line.host ps ∈ lines ∧ p ∈ ps := by
  unfold parse at h
  cases hl : parseLoop lines { done := [], context := { host := some ["*"], crits := none, config := [] } } with
  | error e => rw [hl] at h; cases h
  | ok st =>
    rw [hl] at h
    simp only [Except.ok.injEq] at h
    subst h
    unfold getHostnames
    rw [List.mem_eraseDups, parseLoop_hosts lines _ st hl]
    simp only [List.nil_append, List.flatMap_cons, List.flatMap_nil, Option.getD_some, List.append_nil,
      List.mem_append, List.mem_singleton, List.mem_flatMap]
    constructor
    · rintro (h1 | ⟨l, hl1, hl2⟩)
      · exact Or.inl h1
      · cases l with
        | host ps => exact Or.inr ⟨ps, hl1, hl2⟩
        | mtch t => simp [hostPatterns] at hl2
        | kv k v => simp [hostPatterns] at hl2
    · rintro (h1 | ⟨ps, h1, h2⟩)
      · exact Or.inl h1
      · exact Or.inr ⟨Line.host ps, h1, h2⟩

example : parse [.host ["a", "b*"], .mtch ["all"], .kv "User" "u", .host ["!c"]] =
    .ok [⟨some ["*"], none, []⟩, ⟨some ["a", "b*"], none, []⟩, ⟨none, some [⟨"all", none, false⟩], [("user", .str "u")]⟩,
         ⟨some ["!c"], none, []⟩] := by rfl

end PV.Props.C40
